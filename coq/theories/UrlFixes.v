(** C08 - which of the proposed repairs (/verif/proposed_fixes/C08-*.diff) the tree in /repo
    contains.  The models in UrlCfg.v / UrlHandler.v take a [fixes] record and contain both the
    behaviour as found and the repaired behaviour of every site; [current] says which one describes
    the tree the correspondence runs against.  AFTER A FIX COMMIT flip the corresponding field of
    [current] to [true] (nothing else changes: the correspondence then checks the repaired branch,
    C08_total_current loses the hypothesis of that site, and the C08_refuted_<site> theorem keeps
    compiling with its premise [field current = false] now false). *)
From Coq Require Import Bool.

Record fixes := {
  fx_stoprel : bool;        (* C08-stoprel.diff *)
  fx_annexI : bool;         (* C08-annexI.diff *)
  fx_loss : bool;           (* C08-traffic-empty.diff *)
  fx_periods : bool;        (* C08-periods.diff *)
  fx_subsdur : bool;        (* C08-timesubsdur.diff *)
  fx_snr : bool;            (* C08-snr-range.diff *)
  fx_traffic_idx : bool;    (* C08-traffic-index.diff *)
  fx_chunkdur : bool;       (* C08-chunkdur.diff *)
  fx_subs_startnr : bool;   (* C08-timesubs-startnr.diff *)
  fx_status_startnr : bool; (* C08-statuscode-startnr.diff *)
  fx_status_cycle : bool;   (* C08-statuscode-cycle.diff *)
  fx_drm : bool;            (* C08-drm-unknown.diff *)
  fx_kid : bool;            (* C08-laurl-kid.diff *)
  fx_urlgen_create : bool;  (* C08-urlgen-create.diff *)
  fx_urlgen_drms : bool     (* C08-urlgen-drms.diff *)
}.

(** The tree as it is now. *)
Definition current : fixes := {|
  fx_stoprel := false;
  fx_annexI := false;
  fx_loss := false;
  fx_periods := false;
  fx_subsdur := false;
  fx_snr := false;
  fx_traffic_idx := false;
  fx_chunkdur := false;
  fx_subs_startnr := false;
  fx_status_startnr := false;
  fx_status_cycle := false;
  fx_drm := false;
  fx_kid := false;
  fx_urlgen_create := false;
  fx_urlgen_drms := false
|}.

Definition all_fixed : fixes := {|
  fx_stoprel := true; fx_annexI := true; fx_loss := true; fx_periods := true; fx_subsdur := true;
  fx_snr := true; fx_traffic_idx := true; fx_chunkdur := true; fx_subs_startnr := true;
  fx_status_startnr := true; fx_status_cycle := true; fx_drm := true; fx_kid := true;
  fx_urlgen_create := true; fx_urlgen_drms := true |}.

Definition none_fixed : fixes := {|
  fx_stoprel := false; fx_annexI := false; fx_loss := false; fx_periods := false; fx_subsdur := false;
  fx_snr := false; fx_traffic_idx := false; fx_chunkdur := false; fx_subs_startnr := false;
  fx_status_startnr := false; fx_status_cycle := false; fx_drm := false; fx_kid := false;
  fx_urlgen_create := false; fx_urlgen_drms := false |}.
