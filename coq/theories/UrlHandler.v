(** C08 - model of what the livesim2 handlers do with the parsed URL configuration, as far as
    request data can reach an index, a slice, a division, a nil dereference, an explicit panic or
    a loop bound: handler_livesim.go (cfgFromRequest, livesimHandlerFunc, extractPattern,
    writeSegment, calcStatusCode, findLastSegNr, findSegStartTime), livesegment.go
    (findRepAndSegmentID, createOutSeg, findSegMetaFromNr, findSegMetaFromTime, findRefSegMeta,
    findRefSegMetaFromTime, CheckTimeValidity, matchInit, encryptFrags, writeChunkedSegment,
    chunkSegment), timesubs.go (matchTimeSubsInitLang, writeTimeSubsMediaSegment, getRefSegMeta,
    calcCueItvls), livempd.go (LiveMPD as far as it can fail, calcWrapTimes, splitPeriod,
    lastPeriodStartTime), handler_laurl.go + keys.go (laURLHandlerFunc, kidToKey),
    handler_urlgen.go (createURL, /urlgen/drms).

    The response is a status class, a panic (function: kind) or a hang.  What lies below (mp4
    decoding and re-encoding, XML output, templates, the audio recipe of C03) is not modelled:
    for well-formed assets it ends in a 200. *)
From Coq Require Import Ascii String List ZArith Lia Bool Floats.
From Verif Require Import GoSem UrlStr UrlFixes UrlCfg.

(** * Responses *)
Inductive hres :=
| HStatus (code : Z) (msg : string)    (* [msg]: text that the body contains *)
| HPanic (site : string)
| HHang (site : string).

Inductive hm (A : Type) := Cont (a : A) | Ret (r : hres).
Arguments Cont {A} a. Arguments Ret {A} r.
Definition hbind {A B} (m : hm A) (f : A -> hm B) : hm B :=
  match m with Cont a => f a | Ret r => Ret r end.
Notation "'hdo' x <- r ; k" := (hbind r (fun x => k)) (at level 200, x pattern, r at level 100, k at level 200).

Definition e404 : hres := HStatus 404 "Not Found".
Definition e410 : hres := HStatus 410 "Gone".
Definition e425 : hres := HStatus 425 "too early".
Definition e500 : hres := HStatus 500 "writeSegment".
Definition ok200 : hres := HStatus 200 "".

(** * The VoD side: what the handlers read from the loaded assets *)
Record seg := { s_st : Z; s_en : Z; s_nr : Z }.
Record arep := {
  r_id : string;
  r_ctype : string;            (* "video" "audio" "text" "image" *)
  r_ts : Z;                    (* MediaTimescale *)
  r_segs : list seg;
  r_pre : string; r_suf : string;   (* MediaURI = r_pre ++ $Number$|$Time$ ++ r_suf *)
  r_init : string;             (* InitURI *)
  r_enc : bool;                (* encData != nil *)
  r_preenc : bool;
  r_csd : option Z             (* ConstantSampleDuration *)
}.
Record asset := {
  a_path : string;
  a_segDurMS : Z;
  a_loopMS : Z;
  a_reps : list arep;
  a_ref : arep;                (* refRep *)
  a_mpds : list string
}.
Record env := { e_assets : list asset; e_drm : bool (* Cfg.DrmCfg != nil *) }.

Definition rep_duration (r : arep) : Z :=
  match r_segs r with
  | [] => 0
  | s0 :: _ => u64 (s_en (last (r_segs r) s0) - s_st s0)
  end.

(** findAsset: uri == assetPath or uri has the prefix assetPath + "/"; the longest matching path
    wins (/repo 5fe544f), so the result does not depend on the order of the assets. *)
Definition asset_matches (a : asset) (uri : string) : bool :=
  String.eqb uri (a_path a) || String.prefix (a_path a +++ "/") uri.
Fixpoint find_asset_best (l : list asset) (uri : string) (best : option asset) : option asset :=
  match l with
  | [] => best
  | a :: t =>
    if asset_matches a uri then
      match best with
      | Some b => if (String.length (a_path b) <? String.length (a_path a))%nat
                  then find_asset_best t uri (Some a) else find_asset_best t uri best
      | None => find_asset_best t uri (Some a)
      end
    else find_asset_best t uri best
  end.
Definition find_asset (l : list asset) (uri : string) : option asset := find_asset_best l uri None.

(** ** regexp match of the media pattern: ^ QuoteMeta(pre) (\d+) QuoteMeta(suf) $  (/repo a92686d):
    the whole segment path is pre ++ digits ++ suf with at least one digit. *)
Fixpoint strip_prefix (pre s : string) : option string :=
  match pre with
  | EmptyString => Some s
  | String p pt =>
    match s with
    | EmptyString => None
    | String a t => if Ascii.eqb p a then strip_prefix pt t else None
    end
  end.

Fixpoint span_digits (s : string) : string * string :=
  match s with
  | EmptyString => (EmptyString, EmptyString)
  | String a t =>
    match digit_of a with
    | Some _ => let '(d, r) := span_digits t in (String a d, r)
    | None => (EmptyString, s)
    end
  end.

(** the digit run is greedy; it can only give back digits if [suf] starts with digits, and then
    the shorter run is found by backtracking *)
Fixpoint try_digits (k : nat) (d rest suf : string) : option string :=
  match k with
  | O => None
  | S k' =>
    let dk := String.substring 0 k d in
    let rk := String.substring k (String.length d - k) d +++ rest in
    if String.eqb rk suf then Some dk else try_digits k' d rest suf
  end.

Definition find_media (pre suf s : string) : option string :=
  match strip_prefix pre s with
  | None => None
  | Some r => let '(d, rest) := span_digits r in try_digits (String.length d) d rest suf
  end.

Inductive repmatch := RMnone | RMbad | RMok (r : arep) (id : Z).

(** findRepAndSegmentID (the representations in the order of the list) *)
Fixpoint find_rep (reps : list arep) (segPart : string) : repmatch :=
  match reps with
  | [] => RMnone
  | r :: t =>
    match find_media (r_pre r) (r_suf r) segPart with
    | Some d => match atoi d with Some id => RMok r id | None => RMbad end
    | None => find_rep t segPart
    end
  end.

(** * Time validity (CheckTimeValidity, float64 as in the code) *)
Inductive tv := TvOk | TvEarly | TvGone.
Definition f_1e6 : float := f_of_int 1000000.
Definition check_time (availS nowS tsbd ato : float) : tv :=
  if f_is_pinf ato then TvOk else
  let av := if f_gt0 ato then PrimFloat.sub availS ato else availS in
  let availUS := f_round (PrimFloat.mul av f_1e6) in
  let nowUS := f_round (PrimFloat.mul nowS f_1e6) in
  if PrimFloat.ltb nowUS availUS then TvEarly
  else if PrimFloat.ltb availUS (PrimFloat.sub nowUS (f_round (PrimFloat.mul (PrimFloat.add tsbd (f_of_int 10)) f_1e6))) then TvGone
  else TvOk.

Definition timed {A} (t : tv) (k : hm A) : hm A :=
  match t with TvOk => k | TvEarly => Ret e425 | TvGone => Ret e410 end.

Record meta := { m_time : Z; m_nr : Z; m_dur : Z; m_ts : Z }.

Definition start_nr (c : cfg) : Z := match c_startNr c with Some v => v | None => 1 end.

Definition now_s (nowMS : Z) : float := PrimFloat.mul (f_of_int nowMS) f_milli.

Definition with_tsbd {A} (site : string) (c : cfg) (k : float -> hm A) : hm A :=
  match c_tsbd c with
  | None => Ret (HPanic (site +++ ": nil dereference"))
  | Some t => k (f_of_int t)
  end.

(** findSegMetaFromNr *)
Definition seg_meta_from_nr (r : arep) (loopMS : Z) (c : cfg) (nr nowMS : Z) : hm meta :=
  let wrapLen := lenZ (r_segs r) in
  let nas := i64 (nr - start_nr c) in
  if wrapLen =? 0 then Ret (HPanic "app.findSegMetaFromNr: integer divide by zero") else
  let nrWraps := Z.quot nas wrapLen in
  let relNr := nas - nrWraps * wrapLen in
  let wrapDur := Z.quot (i64 (loopMS * r_ts r)) 1000 in
  let wrapTime := i64 (nrWraps * wrapDur) in
  match nthZ relNr (r_segs r) with
  | None => Ret (HPanic "app.findSegMetaFromNr: index out of range")
  | Some s =>
    let mediaRef := c_startS c * r_ts r in
    let avail := PrimFloat.div (f_of_int (i64 (s_en s + wrapTime + mediaRef))) (f_of_int (r_ts r)) in
    with_tsbd "app.findSegMetaFromNr" c (fun tsbd =>
    timed (check_time avail (now_s nowMS) tsbd (c_ato c))
      (Cont {| m_time := u64 (wrapTime + s_st s); m_nr := nr; m_dur := u32 (s_en s - s_st s);
               m_ts := u32 (r_ts r) |}))
  end.

Fixpoint search_idx {A} (f : A -> bool) (l : list A) : Z :=
  match l with
  | [] => 0
  | x :: t => if f x then 0 else 1 + search_idx f t
  end.

Section WithFixes.
Variable fx : fixes.

(** findSegMetaFromTime *)
Definition seg_meta_from_time (r : arep) (loopMS : Z) (c : cfg) (time nowMS : Z) : hm meta :=
  let wrapDur := Z.quot (i64 (loopMS * r_ts r)) 1000 in
  if wrapDur =? 0 then Ret (HPanic "app.findSegMetaFromTime: integer divide by zero") else
  let itime := i64 time in
  let nrWraps := Z.quot itime wrapDur in
  let wrapTime := i64 (nrWraps * wrapDur) in
  let tAfter := u64 (itime - wrapTime) in
  let idx := search_idx (fun s => tAfter <=? s_st s) (r_segs r) in
  let no_start := if fx_time404 fx then e404 else HStatus 500 "writeSegment" in
  match nthZ idx (r_segs r) with
  | None => Ret no_start
  | Some s =>
    if negb (s_st s =? tAfter) then Ret no_start else
    let mediaRef := c_startS c * r_ts r in
    let avail := PrimFloat.div (f_of_int (i64 (s_en s + wrapTime + mediaRef))) (f_of_int (r_ts r)) in
    with_tsbd "app.findSegMetaFromTime" c (fun tsbd =>
    timed (check_time avail (now_s nowMS) tsbd (c_ato c))
      (Cont {| m_time := time; m_nr := u32 (start_nr c + idx + nrWraps * lenZ (r_segs r));
               m_dur := u32 (s_en s - s_st s); m_ts := u32 (r_ts r) |}))
  end.

(** getRepType: 0 number (also timeline-number), 1 timeline-time *)
Definition rep_type (c : cfg) (segPart : string) : Z :=
  if String.eqb (path_ext segPart) ".jpg" then 0
  else if c_segTimeline c then 1 else 0.

(** the non-audio branch of createOutSeg / findSegMeta *)
Definition lookup_plain (r : arep) (loopMS : Z) (c : cfg) (segPart : string) (segID nowMS : Z) : hm meta :=
  if rep_type c segPart =? 0 then
    let nr := u32 segID in
    if (fx_segnr404 fx && (maxu32 <? segID)) || (nr <? u32 (start_nr c)) then Ret e404
    else seg_meta_from_nr r loopMS c nr nowMS
  else seg_meta_from_time r loopMS c (u64 segID) nowMS.

(** the second loop of findRefSegMetaFromTime: first segment from [relNr] on with EndTime > t *)
Fixpoint ref_scan (l : list seg) (relNr t : Z) : option (Z * seg) :=
  match l with
  | [] => None
  | s :: rest => if t <? s_en s then Some (relNr, s) else ref_scan rest (relNr + 1) t
  end.

(** findRefSegMetaFromTime *)
Definition ref_meta_from_time (a : asset) (r : arep) (c : cfg) (time nowMS : Z) : hm meta :=
  match r_csd r with
  | None => Ret e500
  | Some sd =>
    if sd =? 0 then Ret e500 else
    if negb (Z.rem time sd =? 0) then Ret (if fx_time404 fx then e404 else e500) else
    let ref := a_ref a in
    let refTot := rep_duration ref in
    let nrSegs := lenZ (r_segs ref) in
    if u64 (r_ts r) =? 0 then Ret (HPanic "app.findRefSegMetaFromTime: integer divide by zero") else
    let refTime := u64 (time * u64 (r_ts ref)) / u64 (r_ts r) in
    if refTot =? 0 then Ret (HPanic "app.findRefSegMetaFromTime: integer divide by zero") else
    let nrWraps := refTime / refTot in
    let wrapTime := u64 (nrWraps * refTot) in
    let wrapNr := u64 (nrWraps * nrSegs) in
    let tAfter := u64 (refTime - nrWraps * refTot) in
    match r_segs ref with
    | [] => Ret (HPanic "app.findRefSegMetaFromTime: index out of range")
    | _ =>
      match ref_scan (r_segs ref) 0 tAfter with
      | None => Ret (HPanic "app.findRefSegMetaFromTime: index out of range")
      | Some (relNr, s) =>
        let refEnd := u64 (wrapTime + s_en s) in
        if refEnd =? 0 then Ret e500 else
        let mediaRef := c_startS c * r_ts ref in
        let avail := PrimFloat.div (f_of_int (i64 (i64 refEnd + mediaRef))) (f_of_int (r_ts ref)) in
        with_tsbd "app.findRefSegMetaFromTime" c (fun tsbd =>
        timed (check_time avail (now_s nowMS) tsbd (c_ato c))
          (Cont {| m_time := u64 (wrapTime + s_st s);
                   m_nr := u32 (u32 (relNr + wrapNr) + u32 (start_nr c));
                   m_dur := u32 (s_en s - s_st s); m_ts := u32 (r_ts ref) |}))
      end
    end
  end.

(** findRefSegMeta *)
Definition find_ref_seg_meta (a : asset) (r : arep) (c : cfg) (segPart : string) (segID nowMS : Z) : hm meta :=
  if rep_type c segPart =? 0 then
    let nr := u32 segID in
    if (fx_segnr404 fx && (maxu32 <? segID)) || (nr <? u32 (start_nr c)) then Ret e404
    else seg_meta_from_nr (a_ref a) (a_loopMS a) c nr nowMS
  else ref_meta_from_time a r c (u64 segID) nowMS.

(** * Traffic (BaseURL loss patterns) *)

(** extractPattern: (patternNr, segmentPart without the bu<nr> element); parts[1] always exists
    because segmentPart begins with "/". *)
Definition extract_pattern (segPart : string) : res (Z * string) :=
  let parts := split_on "/"%char segPart in
  do p1 <- index "app.extractPattern: index out of range" parts 1;
  if negb (String.prefix "bu" p1) then Ok (-1, segPart)
  else match atoi (drop_str 2 p1) with
       | None => Ok (-1, segPart)
       | Some nr => Ok (nr, join "/" (EmptyString :: dropZ 2 parts))
       end.

(** the traffic block of livesimHandlerFunc; [Cont segPart'] = go on with the segment *)
Definition traffic_gate (c : cfg) (segPart : string) (nowMS : Z) : hm string :=
  match c_traffic c with
  | [] => Cont segPart
  | _ =>
    match extract_pattern segPart with
    | Panic s => Ret (HPanic s)
    | Err _ => Ret e500
    | Ok (nr, sp) =>
      if fx_traffic_idx fx && (lenZ (c_traffic c) <=? nr) then Ret (HStatus 400 "traffic patterns")
      else if nr <? 0 then Cont sp
      else match nthZ nr (c_traffic c) with
           | None => Ret (HPanic "app.(*Server).livesimHandlerFunc: index out of range")
           | Some itvls =>
             match state_at itvls (Z.quot nowMS 1000) with
             | Panic s => Ret (HPanic s)
             | Err _ => Ret e500
             | Ok st =>
               if st =? 1 then Cont sp
               else if st =? 2 then Ret e404
               else if st =? 3 then Cont sp                       (* after a 2 s sleep *)
               else if st =? 4 then Ret (HStatus 503 "Hang")      (* after a 10 s sleep *)
               else Ret (HStatus 500 "strange loss state")
             end
           end
    end
  end.

(** * Generated subtitles *)
Definition time_subs_parts (prefix segPart : string) : option (string * string) :=
  match cut "/"%char segPart with
  | None => None
  | Some (rp, sg) =>
    match cut "-"%char rp with
    | None => None
    | Some (pfx, lang) => if String.eqb pfx prefix then Some (lang, sg) else None
    end
  end.

(** matchTimeSubsInitLang: None = not a time-subs init segment; Some b = it is one and the
    language is configured (b) or not. *)
Definition time_subs_init (c : cfg) (segPart : string) : option bool :=
  let chk prefix langs :=
    match time_subs_parts prefix segPart with
    | Some (lang, sg) => if String.eqb sg "init.mp4" then Some (existsb (String.eqb lang) langs) else None
    | None => None
    end in
  match chk "timestpp" (c_stpp c) with
  | Some b => Some b
  | None => chk "timewvtt" (c_wvtt c)
  end.

(** rep2SubsTime: uint64(math.Round(float64(t*1000)/float64(timescale))) *)
Definition rep2subs (t tsc : Z) : Z :=
  u64 (f_to_int (f_round (PrimFloat.div (f_of_int (i64 (u64 (t * 1000)))) (f_of_int tsc)))).

(** Number of loop rounds (each appending to a slice) that a request can make within the
    watchdog and the heap limit of the check; more than that counts as hanging. *)
Definition spin_limit : Z := 50000000.

(** calcCueItvls: only termination and the divisions. *)
Definition calc_cue_itvls (segStart segDur utcStart cueDur : Z) : hm unit :=
  let cueFullS := f_to_int (f_ceil (PrimFloat.mul (f_of_int cueDur) f_milli)) in
  let cueFullMS := i64 (cueFullS * 1000) in
  if cueFullMS =? 0 then Ret (HPanic "app.calcCueItvls: integer divide by zero") else
  let utcEnd := i64 (utcStart + segDur) in
  (* /repo 6f3327b, 7bc345a: utcS runs over UTC seconds, from the multiple of cueFullS at or before the start *)
  let first := i64 (Z.quot utcStart cueFullMS * cueFullS) in
  let bound := Z.quot utcEnd 1000 in
  if bound <? first then Cont tt                       (* loop not entered *)
  else if 0 <? cueFullS then Cont tt                   (* at most bound-first+1 rounds *)
  else
    (* the step is negative: utcS only decreases and stays <= bound; the loop ends when
       cueStartMS == utcEndMS or when utcS wraps around int64, i.e. after about
       (first + 2^63) / -step rounds, each of which appends an interval *)
    if (Z.rem utcEnd 1000 =? 0) && (Z.quot utcEnd 1000 <=? first)
       && (Z.rem (first - Z.quot utcEnd 1000) (- cueFullS) =? 0)
       && ((first - Z.quot utcEnd 1000) / (- cueFullS) <? spin_limit)
    then Cont tt
    else if (first + two63) / (- cueFullS) <? spin_limit then Cont tt
    else Ret (HHang "app.calcCueItvls: loop").

(** getRefSegMeta *)
Definition get_ref_seg_meta (a : asset) (c : cfg) (n nowMS : Z) : hm meta :=
  let ref := a_ref a in
  if c_segTimeline c then
    seg_meta_from_time ref (a_loopMS a) c (u64 (Z.quot (i64 (n * r_ts ref)) 1000)) nowMS
  else if fx_subs_startnr fx && ((n <? 0) || (u32 n <? u32 (start_nr c))) then Ret e404
  else seg_meta_from_nr ref (a_loopMS a) c (u32 n) nowMS.

(** writeTimeSubsMediaSegment: None = not a time-subs media segment *)
Definition time_subs_media (a : asset) (c : cfg) (segPart : string) (nowMS : Z) : option hres :=
  let pick :=
    match time_subs_parts "timestpp" segPart with
    | Some (lang, sg) => Some (lang, sg, c_stpp c)
    | None => match time_subs_parts "timewvtt" segPart with
              | Some (lang, sg) => Some (lang, sg, c_wvtt c)
              | None => None
              end
    end in
  match pick with
  | None => None
  | Some (lang, sg, langs) =>
    Some (
      if negb (existsb (String.eqb lang) langs) then e404 else
      match cut "."%char sg with
      | None => e404
      | Some (nrStr, ext) =>
        if negb (String.eqb ext "m4s") then e404 else
        match atoi nrStr with
        | None => e404
        | Some n =>
          match (hdo m <- get_ref_seg_meta a c n nowMS;
                 let bmdt := rep2subs (m_time m) (m_ts m) in
                 let dur := u32 (rep2subs (m_dur m) (m_ts m)) in
                 let utc := u64 (bmdt + u64 (c_startS c * 1000)) in
                 calc_cue_itvls (i64 bmdt) dur (i64 utc) (c_subsDurMS c)) with
          | Ret r => r
          | Cont _ => ok200
          end
        end
      end)
  end.

(** * Status codes (statuscode_) *)
Fixpoint rep_in_reps (id : string) (reps : list string) : bool :=
  match reps with
  | [] => false
  | r :: t => contains id r || rep_in_reps id t
  end.

(** findLastSegNr: calcWrapTimes with a 60 s window and generateTimelineEntries(..., 0).lastNr() *)
Definition find_last_seg_nr (a : asset) (c : cfg) (nowMS : Z) (r : arep) : hm Z :=
  if a_loopMS a =? 0 then Ret (HPanic "app.calcWrapTimes: integer divide by zero") else
  let startMS := i64 (c_startS c * 1000) in
  let nowWraps := Z.quot (i64 (nowMS - startMS)) (a_loopMS a) in
  let nowRelMS := i64 (nowMS - (nowWraps * a_loopMS a + startMS)) in
  let n := lenZ (r_segs r) in
  let relNow0 := Z.quot (i64 (nowRelMS * r_ts r)) 1000 in
  let loopDur := rep_duration r in
  if (loopDur <=? relNow0) && (loopDur =? 0) then Ret (HPanic "app.(*asset).generateTimelineEntries: integer divide by zero") else
  (* /repo 11d2203, b9dbb5f: a relative time beyond the loop duration carries into later loops *)
  let '(nowWraps, relNow1) := if loopDur <=? relNow0 then (nowWraps + Z.quot relNow0 loopDur, Z.rem relNow0 loopDur)
                              else (nowWraps, relNow0) in
  let relNow := u64 relNow1 in
  match r_segs r with
  | [] => Ret (HPanic "app.(*asset).generateTimelineEntries: index out of range")
  | s0 :: _ =>
    let '(w, idx) :=
      if relNow <? s_en s0 then (nowWraps - 1, n - 1)
      else let i := search_idx (fun s => relNow <? s_en s) (r_segs r) - 1 in
           if i <? 0 then (nowWraps - 1, n - 1) else (nowWraps, i) in
    if w <? 0 then Cont (-2) else Cont (w * n + idx)
  end.

(** findSegStartTime *)
Definition find_seg_start_time (a : asset) (c : cfg) (nr : Z) (r : arep) : hm Z :=
  let wrapLen := lenZ (r_segs r) in
  let nas := i64 (nr - start_nr c) in
  if wrapLen =? 0 then Ret (HPanic "app.findSegStartTime: integer divide by zero") else
  let nrWraps := Z.quot nas wrapLen in
  let relNr := nas - nrWraps * wrapLen in
  let wrapDur := Z.quot (i64 (a_loopMS a * r_ts r)) 1000 in
  match nthZ relNr (r_segs r) with
  | None => Ret (HPanic "app.findSegStartTime: index out of range")
  | Some s => Cont (i64 (nrWraps * wrapDur + s_st s))
  end.

Fixpoint status_loop (a : asset) (c : cfg) (r mr : arep) (m : meta) (codes : list ssc) : hm Z :=
  match codes with
  | [] => Cont 0
  | ss :: rest =>
    if negb (match sc_reps ss with [] => true | _ => rep_in_reps (r_id r) (sc_reps ss) end)
    then status_loop a c r mr m rest
    else
      let startTime := i64 (m_time m) in
      let cit := i64 (sc_cycle ss * m_ts m) in
      if cit =? 0 then Ret (HPanic "app.calcStatusCode: integer divide by zero") else
      let nrWraps := Z.quot startTime cit in
      let wrapStartS := i64 (nrWraps * sc_cycle ss) in
      (* /repo 497da16: the cycle start as wall-clock time, -1 when no segment has ended, + snr *)
      hdo firstNr0 <- (if 0 <? nrWraps then
                         hdo l <- find_last_seg_nr a c (i64 ((c_startS c + wrapStartS) * 1000)) mr;
                         Cont (start_nr c + (if l <? 0 then -1 else l) + 1)
                       else Cont (if fx_status_startnr fx then start_nr c else 0));
      hdo segTime <- find_seg_start_time a c firstNr0 mr;
      let firstNr := if segTime <? i64 (wrapStartS * m_ts m) then firstNr0 + 1 else firstNr0 in
      let idx := m_nr m - firstNr in
      if idx <? 0 then Ret e500
      else if idx =? sc_rsq ss then Cont (sc_code ss)
      else status_loop a c r mr m rest
  end.

(** findSegMeta + calcStatusCode; the meta is that of the reference track for audio *)
Definition calc_status_code (a : asset) (c : cfg) (segPart : string) (nowMS : Z) : hm Z :=
  match find_rep (a_reps a) segPart with
  | RMnone => Ret e404
  | RMbad => Ret (if fx_segnr404 fx then e404 else e500)
  | RMok r segID =>
    hdo mm <- (if String.eqb (r_ctype r) "audio"
               then hdo m <- find_ref_seg_meta a r c segPart segID nowMS; Cont (m, a_ref a)
               else hdo m <- lookup_plain r (a_loopMS a) c segPart segID nowMS; Cont (m, r));
    let '(m, mr) := mm in
    status_loop a c r mr m (c_codes c)
  end.

(** * Init segments and encryption *)
Definition is_eccp (d : string) : bool := String.eqb d "eccp-cenc" || String.eqb d "eccp-cbcs".

(** matchInit: None = not an init segment *)
Fixpoint match_init (e : env) (c : cfg) (reps : list arep) (segPart : string) : option hres :=
  match reps with
  | [] => None
  | r :: t =>
    if String.eqb segPart (r_init r) then
      Some (if negb (r_enc r) then ok200
            else if String.eqb (c_drm c) "" then ok200
            else if is_eccp (c_drm c) then ok200
            else if e_drm e then HStatus 500 "writeSegment"
            else HPanic "app.matchInit: nil dereference")
    else match_init e c t segPart
  end.

(** encryptFrags *)
Definition encrypt_frags (e : env) (c : cfg) (r : arep) : hm unit :=
  if String.eqb (c_drm c) "" then Cont tt
  else if negb (r_enc r) then (if fx_drm fx then Cont tt else Ret (HPanic "app.encryptFrags: nil dereference"))
  else if is_eccp (c_drm c) then Cont tt
  else if e_drm e then Ret e500
  else Ret (HPanic "app.encryptFrags: nil dereference").

(** calcAudioTimeFromRef (uint64 arithmetic; frameDur and refTimescale are not 0 here) *)
Definition audio_time_from_ref (refTime refTs frameDur audioTs : Z) : Z :=
  if (refTs =? 0) || (frameDur =? 0) then 0 else
  let t := u64 (u64 (refTime * audioTs) / refTs / frameDur * frameDur) in
  if u64 (t * refTs) <? u64 (refTime * audioTs) then u64 (t + frameDur) else t.

(** createOutSeg as far as the status goes: the representation and its segMeta *)
Definition create_out_seg (a : asset) (c : cfg) (segPart : string) (nowMS : Z) : hm (arep * meta) :=
  match find_rep (a_reps a) segPart with
  | RMnone => Ret e404
  | RMbad => Ret (if fx_segnr404 fx then e404 else e500)
  | RMok r segID =>
    if String.eqb (r_ctype r) "audio" && negb (r_preenc r) then
      hdo m <- find_ref_seg_meta a r c segPart segID nowMS;
      (* C08-time-404.diff: an audio $Time$ must be the start time the recipe computes *)
      if fx_time404 fx && negb (rep_type c segPart =? 0) &&
         negb (audio_time_from_ref (m_time m) (m_ts m) (match r_csd r with Some sd => sd | None => 0 end) (r_ts r) =? u64 segID)
      then Ret e404 else Cont (r, m)
    else
      hdo m <- lookup_plain r (a_loopMS a) c segPart segID nowMS; Cont (r, m)
  end.

(** The watchdog of the check: a handler that sleeps longer counts as hanging. *)
Definition hang_ms : Z := 5000.

(** writeChunkedSegment: the chunk duration, the division in chunkSegment, and the longest
    sleep (the last chunk becomes available at the end of the segment). *)
Definition chunked_tail (e : env) (a : asset) (c : cfg) (r : arep) (m : meta) (segPart : string) (nowMS : Z) : hres :=
  if String.eqb (path_ext segPart) ".jpg" then e500 else
  let atoMS := f_to_int (f_round (PrimFloat.mul (c_ato c) f_1000)) in   (* /repo 4ed430d: rounded *)
  let chunkDur := Z.quot (i64 (i64 (a_segDurMS a - atoMS) * r_ts r)) 1000 in
  if negb (fx_chunk_cap fx) && (u32 chunkDur =? 0) then HPanic "app.chunkSegment: integer divide by zero" else
  match encrypt_frags e c r with
  | Ret x => x
  | Cont _ =>
    if r_ts r =? 0 then HPanic "app.writeChunkedSegment: integer divide by zero" else
    (* so.meta is in the timescale of the representation (audio: converted from the reference) *)
    let scale x := if (m_ts m =? r_ts r) || (m_ts m =? 0) then x else Z.quot (x * r_ts r) (m_ts m) in
    (* chunks end when the accumulated sample duration reaches a multiple of chunkDur; a last
       partial chunk is given the duration chunkDur (not its own), so for chunkDur > 0 the last
       chunk becomes available at about ceil(dur / chunkDur) * chunkDur after the segment start *)
    let durT := scale (m_dur m) in
    let total := if 0 <? chunkDur then ((durT + chunkDur - 1) / chunkDur) * chunkDur else durT in
    let endTicks := i64 (scale (i64 (m_time m)) + c_startS c * r_ts r + total) in
    let availMS := Z.quot (i64 (endTicks * 1000)) (r_ts r) in
    if hang_ms <? availMS - nowMS then HHang "app.writeChunkedSegment: sleep" else ok200
  end.

(** writeSegment after the traffic gate *)
Definition write_segment (e : env) (a : asset) (c : cfg) (segPart : string) (nowMS : Z) : hres :=
  match time_subs_init c segPart with
  | Some true => ok200
  | Some false => e404
  | None =>
    match match_init e c (a_reps a) segPart with
    | Some r => r
    | None =>
      match (match c_codes c with
             | [] => Cont 0
             | _ => calc_status_code a c segPart nowMS
             end) with
      | Ret r => r
      | Cont code =>
        if negb (code =? 0) then HStatus code "triggered code"
        else if c_complete c then
          match time_subs_media a c segPart nowMS with
          | Some r => r
          | None =>
            match create_out_seg a c segPart nowMS with
            | Ret r => r
            | Cont (r, m) =>
              if String.eqb (path_ext segPart) ".jpg" then ok200 else
              match encrypt_frags e c r with Ret x => x | Cont _ => ok200 end
            end
          end
        else
          match create_out_seg a c segPart nowMS with
          | Ret r => r
          | Cont (r, m) => chunked_tail e a c r m segPart nowMS
          end
      end
    end
  end.

(** * MPD *)
(** checkQuery against the query of the request URL *)
Fixpoint assoc (k : string) (m : list (string * list string)) : option (list string) :=
  match m with
  | [] => None
  | (k', v) :: t => if String.eqb k' k then Some v else assoc k t
  end.
Definition check_query (q : option (list (string * list string))) (uq : list (string * list string)) : bool :=
  match q with
  | None => true
  | Some parts =>
    forallb (fun kv => match assoc (fst kv) uq with
                       | Some uv => list_eqb String.eqb (snd kv) uv
                       | None => false
                       end) parts
  end.

Definition last_elem (s : string) : string := last (split_on "/"%char s) EmptyString.

(** splitPeriod and lastPeriodStartTime *)
Definition split_period (a : asset) (c : cfg) (pph startTimeMS nowMS : Z) : hres :=
  if pph =? 0 then HPanic "app.splitPeriod: integer divide by zero" else
  let periodDur := Z.quot 3600 pph in
  if a_segDurMS a =? 0 then HPanic "app.splitPeriod: integer divide by zero" else
  if negb (Z.rem (periodDur * 1000) (a_segDurMS a) =? 0)
  then HStatus (if fx_mpd_status fx then 400 else 500) "not a multiple of segment duration" else
  if periodDur * 1000 =? 0 then HPanic "app.splitPeriod: integer divide by zero" else
  let startP := Z.quot startTimeMS (periodDur * 1000) in
  let endP := Z.quot nowMS (periodDur * 1000) in
  let nrPeriods := endP - startP + 1 in
  if nrPeriods <? 0 then HPanic "app.splitPeriod: makeslice: cap out of range" else
  if (endP <? startP) && negb (c_segTimeline c) && negb (c_segTimelineNr c)
  then HPanic "app.lastPeriodStartTime: index out of range"
  else ok200.

(** LiveMPD as far as it can fail *)
Definition live_mpd (e : env) (a : asset) (c : cfg) (mpdName : string) (nowMS : Z) : hres :=
  if negb (existsb (String.eqb mpdName) (a_mpds a)) then HStatus (if fx_mpd_status fx then 404 else 500) "unknown mpd name" else
  match c_tsbd c with
  | None => HPanic "app.LiveMPD: nil dereference"
  | Some tsbd =>
    let stopped := match c_stopS c with
                   | Some st => if i64 (st * 1000) <? nowMS then Some (i64 (st * 1000)) else None
                   | None => None end in
    let endMS := match stopped with Some s => s | None => nowMS end in
    (* the Location element: every URL part from index 1 on that starts with "stoprel_" is rewritten
       with *cfg.StopTimeS - also parts behind the configuration (asset path, MPD name), which were
       never parsed; C08-location-parts.diff restricts the rewriting to the configuration parts *)
    if c_addLocation c && match c_stopS c with None => true | Some _ => false end &&
       existsb (String.prefix "stoprel_") (if fx_location fx then takeZ (c_contentIdx c - 1) (dropZ 1 (c_parts c)) else dropZ 1 (c_parts c))
    then HPanic "app.LiveMPD: nil dereference" else
    if a_loopMS a =? 0 then HPanic "app.calcWrapTimes: integer divide by zero" else
    let startMS := i64 (c_startS c * 1000) in
    let st0 := i64 (endMS - i64 (tsbd * 1000000000) / 1000000) in
    let startTimeMS := if st0 <? startMS then startMS else st0 in
    if negb (String.eqb (c_drm c) "") && negb (is_eccp (c_drm c)) then HStatus 500 "DRM" else
    if (c_segTimeline c || c_segTimelineNr c) && f_is_pinf (c_ato c) then HStatus (if fx_mpd_status fx then 400 else 500) "infinite availabilityTimeOffset" else
    match c_pph c with
    | None => ok200
    | Some pph => split_period a c pph (i64 (startTimeMS - startMS)) (i64 (endMS - startMS))  (* /repo 961c9dc *)
    end
  end.

(** * GET /livesim2/... : cfgFromRequest + livesimHandlerFunc *)
Definition media_exts : list string :=
  [".mp4"; ".m4s"; ".cmfv"; ".cmfa"; ".cmft"; ".jpg"; ".jpeg"; ".m4v"; ".m4a"].

Definition content_type_is_video (a : asset) (c : cfg) (sp : string) : bool :=
  match time_subs_init c sp with
  | Some true => false
  | _ =>
    match find (fun r => String.eqb sp (r_init r)) (a_reps a) with
    | Some r => String.eqb (r_ctype r) "video"
    | None => match find_rep (a_reps a) sp with
              | RMok r _ => String.eqb (r_ctype r) "video"
              | _ => false
              end
    end
  end.

Definition live_handler (e : env) (path : string) (nowArg : string) (uq : list (string * list string)) : hres :=
  match atoi nowArg with
  | None => HStatus 400 "bad nowMS query"
  | Some now0 =>
    match process_url_cfg fx path now0 with
    | Panic s => HPanic s
    | Err m => HStatus 400 m
    | Ok c =>
      let nowMS := match c_timeOffset c with
                   | Some f => i64 (now0 + f_to_int (PrimFloat.mul f f_1000))
                   | None => now0 end in
      if nowMS <? i64 (c_startS c * 1000) then HStatus 425 "too early" else
      let contentPart := join "/" (dropZ (c_contentIdx c) (c_parts c)) in
      match find_asset (e_assets e) contentPart with
      | None => HStatus 404 "unknown asset"
      | Some a =>
        let ext := path_ext path in
        if fx_drm fx && negb (String.eqb (c_drm c) "") && negb (is_eccp (c_drm c)) && negb (e_drm e)
        then HStatus 400 "unknown drm" else
        if String.eqb ext ".mpd" then
          if negb (check_query (c_query c) uq) then HStatus 400 "query check mismatch"
          else live_mpd e a c (last_elem contentPart) nowMS
        else if existsb (String.eqb ext) media_exts then
          let segPart0 := drop_str (String.length (a_path a)) contentPart in
          if fx_chunkdur fx && negb (c_complete c) &&
             negb (PrimFloat.leb 0%float (c_ato c) &&
                   PrimFloat.ltb (PrimFloat.mul (c_ato c) f_1000) (f_of_int (a_segDurMS a)))
          then HStatus 400 "chunked mode needs" else
          match traffic_gate c segPart0 nowMS with
          | Ret r => r
          | Cont segPart =>
            match segPart with
            | EmptyString => HPanic "app.(*Server).livesimHandlerFunc: slice bounds out of range"
            | String _ sp =>
              if match c_query c with Some _ => content_type_is_video a c sp | None => false end
                 && negb (check_query (c_query c) uq)
              then HStatus 400 "query check mismatch"
              else write_segment e a c sp nowMS
            end
          end
        else HStatus 404 "unknown file extension"
      end
    end
  end.

(** * POST .../eccp.json : laURLHandlerFunc *)
Definition kid_start : list Z := [40; 128; 254].     (* 0x28 0x80 0xfe *)

(** kids: [None] = not valid base64 of 16 bytes *)
Fixpoint license_loop (kids : list (option (list Z))) : hres :=
  match kids with
  | [] => ok200
  | None :: _ => HStatus 500 "id16FromBase64 error"
  | Some b :: t =>
    if list_eqb Z.eqb (firstn 3 b) kid_start then license_loop t
    else if fx_kid fx then HStatus 400 "key id was not issued by livesim2"
    else HPanic "app.kidToKey: keyID does not start with 3 k i d bytes"
  end.

Definition license_handler (suffix_ok json_ok : bool) (kids : list (option (list Z))) : hres :=
  if fx_kid fx && negb suffix_ok then HStatus 400 "URL does not end with" else
  let r := if json_ok then license_loop kids else HStatus 500 "Unmarshal error" in
  match r with
  | HStatus code m => if suffix_ok then r else HStatus 400 "URL does not end with"
  | _ => r
  end.

(** * GET /urlgen/create and /urlgen/drms *)
Definition urlgen_create (tsbd ltgt ptl : string) : hres :=
  let bad s := negb (String.eqb s "") && match atoi s with None => true | _ => false end in
  if fx_urlgen_create fx && (bad tsbd || bad ltgt || bad ptl) then HStatus 400 "is not an integer" else
  if negb (String.eqb tsbd "") && match atoi tsbd with None => true | _ => false end
  then HPanic "app.createURL: bad tsbd"
  else if negb (String.eqb ltgt "") && match atoi ltgt with None => true | _ => false end
  then HPanic "app.createURL: bad ltgt"
  else if negb (String.eqb ptl "") && match atoi ptl with None => true | _ => false end
  then HPanic "app.createURL: bad patch-ttl"
  else ok200.

Definition urlgen_drms (e : env) (assetName : string) : hres :=
  if negb (fx_urlgen_drms fx) && existsb (fun a => String.eqb (a_path a) assetName) (e_assets e) && negb (e_drm e)
  then HPanic "app.(*Server).urlGenHandlerFunc: index out of range"
  else ok200.

(** * All modelled requests *)
Inductive request :=
| RLive (path nowArg : string) (uq : list (string * list string))
| RLicense (suffix_ok json_ok : bool) (kids : list (option (list Z)))
| RUrlgenCreate (tsbd ltgt ptl : string)
| RUrlgenDrms (assetName : string).

Definition handler_model (e : env) (r : request) : hres :=
  match r with
  | RLive path nowArg uq => live_handler e path nowArg uq
  | RLicense s j kids => license_handler s j kids
  | RUrlgenCreate a b c => urlgen_create a b c
  | RUrlgenDrms n => urlgen_drms e n
  end.

End WithFixes.
