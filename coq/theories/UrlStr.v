(** Library behaviour used by the URL-configuration model of C08 (trusted, sampled by the
    correspondence): strings.Split / Cut / HasPrefix / Contains / ReplaceAll(" ", ""),
    strconv.Atoi, strconv.ParseFloat (decimal and hexadecimal syntax, underscores, inf/nan,
    correctly rounded to binary64), and the float64 operations the handlers apply to URL values
    (float64(int), int(float64) with the amd64 result for out-of-range values, math.Round,
    math.Ceil).  Everything is executable Gallina over [string] (lists of ascii) and
    primitive floats. *)
From Coq Require Import Ascii String List ZArith Lia Bool NArith.
From Coq Require Import Floats Uint63.
From Verif Require Import GoSem.

(** * Strings *)

Definition str_len (s : string) : Z := Z.of_nat (String.length s).

(** strings.Split(s, sep) for a one-byte separator. *)
Fixpoint split_on (c : ascii) (s : string) : list string :=
  match s with
  | EmptyString => [EmptyString]
  | String a t =>
    if Ascii.eqb a c then EmptyString :: split_on c t
    else match split_on c t with
         | h :: r => String a h :: r
         | [] => [String a EmptyString]
         end
  end.

(** strings.Split(s, sep) for a non-empty separator of any length; [skip] counts the bytes of
    a separator that was recognised at an earlier position and is being stepped over. *)
Fixpoint split_sep (sep : string) (skip : nat) (s : string) : list string :=
  match s with
  | EmptyString => [EmptyString]
  | String a t =>
    match skip with
    | S k => split_sep sep k t
    | O =>
      if String.prefix sep s then EmptyString :: split_sep sep (String.length sep - 1) t
      else match split_sep sep 0 t with
           | h :: r => String a h :: r
           | [] => [String a EmptyString]
           end
    end
  end.

(** strings.Cut(s, c): text before and after the first [c]. *)
Fixpoint cut (c : ascii) (s : string) : option (string * string) :=
  match s with
  | EmptyString => None
  | String a t =>
    if Ascii.eqb a c then Some (EmptyString, t)
    else match cut c t with
         | Some (b, r) => Some (String a b, r)
         | None => None
         end
  end.

Fixpoint remove_spaces (s : string) : string :=
  match s with
  | EmptyString => EmptyString
  | String a t => if Ascii.eqb a " "%char then remove_spaces t else String a (remove_spaces t)
  end.

Definition contains (s sub : string) : bool :=
  match String.index 0 sub s with Some _ => true | None => false end.

Fixpoint join (sep : string) (l : list string) : string :=
  match l with
  | [] => EmptyString
  | [x] => x
  | x :: t => String.append x (String.append sep (join sep t))
  end.

Fixpoint has_suffix_aux (n : nat) (suf s : string) : bool :=
  match n with
  | O => String.eqb suf s
  | S k => match s with EmptyString => false | String _ t => has_suffix_aux k suf t end
  end.
Definition has_suffix (s suf : string) : bool :=
  (String.length suf <=? String.length s)%nat &&
  has_suffix_aux (String.length s - String.length suf) suf s.

(** s[n:] *)
Fixpoint drop_str (n : nat) (s : string) : string :=
  match n, s with
  | O, _ => s
  | S k, String _ t => drop_str k t
  | S _, EmptyString => EmptyString
  end.

Definition code (a : ascii) : Z := Z.of_N (N_of_ascii a).

Definition lower (a : ascii) : ascii :=
  let n := N_of_ascii a in
  if (65 <=? n)%N && (n <=? 90)%N then ascii_of_N (n + 32) else a.
Fixpoint lower_str (s : string) : string :=
  match s with EmptyString => EmptyString | String a t => String (lower a) (lower_str t) end.

(** path.Ext / filepath.Ext: the suffix beginning at the last dot of the last path element. *)
Fixpoint ext_aux (s : string) (cur : option string) : option string :=
  match s with
  | EmptyString => cur
  | String a t =>
    if Ascii.eqb a "/"%char then ext_aux t None
    else if Ascii.eqb a "."%char then ext_aux t (Some s)
    else ext_aux t cur
  end.
Definition path_ext (s : string) : string :=
  match ext_aux s None with Some e => e | None => EmptyString end.

(** * strconv.Atoi *)

Definition digit_of (a : ascii) : option Z :=
  let n := code a in if (48 <=? n) && (n <=? 57) then Some (n - 48) else None.

Fixpoint digits_val (s : string) (acc : Z) : option Z :=
  match s with
  | EmptyString => Some acc
  | String a t => match digit_of a with Some d => digits_val t (acc * 10 + d) | None => None end
  end.

Definition in_i64 (z : Z) : bool := (- two63 <=? z) && (z <? two63).

(** optional sign, at least one decimal digit, nothing else, value in int64. *)
Definition atoi (s : string) : option Z :=
  let '(neg, body) :=
    match s with
    | String "-"%char t => (true, t)
    | String "+"%char t => (false, t)
    | _ => (false, s)
    end in
  match body with
  | EmptyString => None
  | _ => match digits_val body 0 with
         | Some v => let r := if neg then - v else v in if in_i64 r then Some r else None
         | None => None
         end
  end.

(** * float64 *)

Definition f_of_nonneg (z : Z) : float := PrimFloat.of_uint63 (Uint63.of_Z z).
(** float64(int) for an int64 value (round to nearest even, as the hardware conversion). *)
Definition f_of_int (z : Z) : float :=
  if z =? - two63 then PrimFloat.opp (SF2Prim (S754_finite false 4503599627370496 11))
  else if z <? 0 then PrimFloat.opp (f_of_nonneg (- z)) else f_of_nonneg z.

Definition min_i64 : Z := - two63.

(** int(f): truncation; NaN, infinities and values outside int64 give 0x8000000000000000 on
    amd64 (CVTTSD2SQ), which is what the deployed binaries do. *)
Definition f_to_int (f : float) : Z :=
  match Prim2SF f with
  | S754_zero _ => 0
  | S754_infinity _ => min_i64
  | S754_nan => min_i64
  | S754_finite s m e =>
    let v := if 0 <=? e then Z.pos m * 2 ^ e else Z.pos m / 2 ^ (- e) in
    let r := if s then - v else v in
    if in_i64 r then r else min_i64
  end.

(** math.Round: to the nearest integer, halves away from zero (result as a float). *)
Definition f_round (f : float) : float :=
  match Prim2SF f with
  | S754_finite s m e =>
    if 0 <=? e then f else
    let d := 2 ^ (- e) in
    let q := Z.pos m / d in
    let r := Z.pos m mod d in
    let q' := if d <=? 2 * r then q + 1 else q in
    SF2Prim (binary_normalize 53 1024 (if s then - q' else q') 0 s)
  | _ => f
  end.

(** math.Ceil *)
Definition f_ceil (f : float) : float :=
  match Prim2SF f with
  | S754_finite s m e =>
    if 0 <=? e then f else
    let d := 2 ^ (- e) in
    let q := Z.pos m / d in
    let r := Z.pos m mod d in
    if s then SF2Prim (binary_normalize 53 1024 (- q) 0 true)
    else SF2Prim (binary_normalize 53 1024 (if r =? 0 then q else q + 1) 0 false)
  | _ => f
  end.

Definition f_is_pinf (f : float) : bool := PrimFloat.eqb f infinity.
Definition f_gt0 (f : float) : bool := PrimFloat.ltb 0%float f.
Definition f_lt0 (f : float) : bool := PrimFloat.ltb f 0%float.
Definition f_1000 : float := f_of_int 1000.
Definition f_milli : float := 0x1.0624dd2f1a9fcp-10%float.   (* the float64 nearest to 0.001 *)

(** ms2S: int(math.Round(float64(ms) * 0.001)) *)
Definition ms2S (ms : Z) : Z := f_to_int (f_round (PrimFloat.mul (f_of_int ms) f_milli)).

(** ** strconv.ParseFloat(s, 64) *)

(** m * 10^e10 (m >= 0) correctly rounded; [None] = out of range (ErrRange). *)
Definition dec_to_float (neg : bool) (m e10 : Z) : option float :=
  if m =? 0 then Some (if neg then (-0)%float else 0%float)
  else if 400 <? e10 + Z.log2 m / 4 then None
  else if e10 + Z.log2 m <? -400 then Some (if neg then (-0)%float else 0%float)
  else
    let sg := if neg then -1 else 1 in
    let sf :=
      if 0 <=? e10 then binary_normalize 53 1024 (sg * (m * 10 ^ e10)) 0 neg
      else
        let d := 10 ^ (- e10) in
        let k := Z.max 0 (Z.log2 d - Z.log2 m) + 70 in
        let q := (m * 2 ^ k) / d in
        let r := (m * 2 ^ k) mod d in
        binary_normalize 53 1024 (sg * (2 * q + (if r =? 0 then 0 else 1))) (- k - 1) neg in
    match sf with
    | S754_infinity _ => None
    | _ => Some (SF2Prim sf)
    end.

(** m * 2^e2 correctly rounded (hexadecimal syntax). *)
Definition bin_to_float (neg : bool) (m e2 : Z) : option float :=
  if m =? 0 then Some (if neg then (-0)%float else 0%float)
  else if 1100 <? e2 + Z.log2 m then None
  else if e2 + Z.log2 m <? -1200 then Some (if neg then (-0)%float else 0%float)
  else match binary_normalize 53 1024 (if neg then - m else m) e2 neg with
       | S754_infinity _ => None
       | sf => Some (SF2Prim sf)
       end.

Definition hexdigit_of (a : ascii) : option Z :=
  let n := code (lower a) in
  if (48 <=? n) && (n <=? 57) then Some (n - 48)
  else if (97 <=? n) && (n <=? 102) then Some (n - 87) else None.

(** Mantissa scan of readFloat: digits of [base] with one optional '.', underscores skipped and
    remembered.  Returns (mantissa, number of digits, digits after the dot, saw dot,
    saw underscore, rest). *)
Fixpoint scan_mant (hex : bool) (s : string) (m nd nfrac : Z) (dot us : bool)
  : Z * Z * Z * bool * bool * string :=
  match s with
  | EmptyString => (m, nd, nfrac, dot, us, s)
  | String a t =>
    if Ascii.eqb a "_"%char then scan_mant hex t m nd nfrac dot true
    else if Ascii.eqb a "."%char then
      if dot then (m, nd, nfrac, dot, us, s) else scan_mant hex t m nd nfrac true us
    else match (if hex then hexdigit_of a else digit_of a) with
         | Some d => scan_mant hex t (m * (if hex then 16 else 10) + d) (nd + 1)
                               (if dot then nfrac + 1 else nfrac) dot us
         | None => (m, nd, nfrac, dot, us, s)
         end
  end.

(** Exponent digits (value capped as in Go), underscores skipped. Returns (value, #digits, us, rest). *)
Fixpoint scan_exp (s : string) (e nd : Z) (us : bool) : Z * Z * bool * string :=
  match s with
  | EmptyString => (e, nd, us, s)
  | String a t =>
    if Ascii.eqb a "_"%char then scan_exp t e nd true
    else match digit_of a with
         | Some d => scan_exp t (if e <? 10000 then e * 10 + d else e) (nd + 1) us
         | None => (e, nd, us, s)
         end
  end.

(** underscoreOK of strconv: underscores only between digits (a base prefix counts as a digit). *)
Fixpoint us_ok_loop (hex : bool) (s : string) (saw : Z) : bool :=   (* saw: 0 '^', 1 digit, 2 '_', 3 other *)
  match s with
  | EmptyString => negb (saw =? 2)
  | String a t =>
    let isd := match digit_of a with Some _ => true | None =>
                 if hex then (let n := code (lower a) in (97 <=? n) && (n <=? 102)) else false end in
    if isd then us_ok_loop hex t 1
    else if Ascii.eqb a "_"%char then (if saw =? 1 then us_ok_loop hex t 2 else false)
    else if saw =? 2 then false
    else us_ok_loop hex t 3
  end.
Definition underscore_ok (s : string) : bool :=
  let s1 := match s with String "-"%char t => t | String "+"%char t => t | _ => s end in
  match s1 with
  | String "0"%char (String x t) =>
    let lx := lower x in
    if Ascii.eqb lx "b"%char || Ascii.eqb lx "o"%char || Ascii.eqb lx "x"%char
    then us_ok_loop (Ascii.eqb lx "x"%char) t 1 else us_ok_loop false s1 0
  | _ => us_ok_loop false s1 0
  end.

Inductive pfloat := PFok (f : float) | PFsyntax | PFrange.

Definition parse_float (s : string) : pfloat :=
  let '(neg, signed, body) :=
    match s with
    | String "-"%char t => (true, true, t)
    | String "+"%char t => (false, true, t)
    | _ => (false, false, s)
    end in
  let lb := lower_str body in
  if String.eqb lb "inf" || String.eqb lb "infinity" then
    PFok (if neg then neg_infinity else infinity)
  else if negb signed && String.eqb lb "nan" then PFok nan
  else
    let '(hex, digits) :=
      match body with
      | String "0"%char (String x t) =>
        if Ascii.eqb (lower x) "x"%char then (match t with EmptyString => (false, body) | _ => (true, t) end)
        else (false, body)
      | _ => (false, body)
      end in
    let '(m, nd, nfrac, dot, us1, rest) := scan_mant hex digits 0 0 0 false false in
    if nd =? 0 then PFsyntax else
    let expch := if hex then "p"%char else "e"%char in
    let '(has_exp, e, us2, rest2, bad) :=
      match rest with
      | String c t =>
        if Ascii.eqb (lower c) expch then
          let '(eneg, t1) := match t with
                             | String "-"%char u => (true, u)
                             | String "+"%char u => (false, u)
                             | _ => (false, t) end in
          let '(ev, end_, usx, r) := scan_exp t1 0 0 false in
          if end_ =? 0 then (false, 0, false, rest, true)
          else (true, (if eneg then - ev else ev), usx, r, false)
        else (false, 0, false, rest, false)
      | EmptyString => (false, 0, false, rest, false)
      end in
    if bad then PFsyntax else
    if hex && negb has_exp then PFsyntax else
    match rest2 with
    | String _ _ => PFsyntax
    | EmptyString =>
      if (us1 || us2) && negb (underscore_ok s) then PFsyntax else
      let r := if hex then bin_to_float neg m (e - 4 * nfrac) else dec_to_float neg m (e - nfrac) in
      match r with Some f => PFok f | None => PFrange end
    end.
