(** C08 - one witness request per panic/hang site of the handler model, on a small well-formed
    environment (one asset "a": video V with four 2 s segments at 90000 Hz, audio A at 48000 Hz, a
    subtitle track T without encryption data; no DRM configuration).

    Each theorem has the shape  [field current = false -> exists request, model = Panic site]:
    while the tree lacks the repair ([current] in UrlFixes.v) the premise holds and the witness is
    computed; after the repair is recorded in [current] the premise is false, the theorem still
    compiles, and the guarded theorems take over. *)
From Coq Require Import Ascii String List ZArith Bool Floats.
From Coq Require Import Lia.
From Verif Require Import GoSem UrlStr UrlFixes UrlCfg UrlHandler UrlCfgProofs.

Definition vsegs : list seg :=
  [ {| s_st := 0; s_en := 180000; s_nr := 1 |}; {| s_st := 180000; s_en := 360000; s_nr := 2 |};
    {| s_st := 360000; s_en := 540000; s_nr := 3 |}; {| s_st := 540000; s_en := 720000; s_nr := 4 |} ].
Definition asegs : list seg :=
  [ {| s_st := 0; s_en := 95232; s_nr := 1 |}; {| s_st := 95232; s_en := 191488; s_nr := 2 |};
    {| s_st := 191488; s_en := 287744; s_nr := 3 |}; {| s_st := 287744; s_en := 384000; s_nr := 4 |} ].
Definition repV : arep := {| r_id := "V"; r_ctype := "video"; r_ts := 90000; r_segs := vsegs;
  r_pre := "V/"; r_suf := ".m4s"; r_init := "V/init.mp4"; r_enc := true; r_preenc := false; r_csd := None |}.
Definition repA : arep := {| r_id := "A"; r_ctype := "audio"; r_ts := 48000; r_segs := asegs;
  r_pre := "A/"; r_suf := ".m4s"; r_init := "A/init.mp4"; r_enc := true; r_preenc := false; r_csd := Some 1024 |}.
Definition repT : arep := {| r_id := "T"; r_ctype := "text"; r_ts := 1000;
  r_segs := [ {| s_st := 0; s_en := 2000; s_nr := 1 |}; {| s_st := 2000; s_en := 4000; s_nr := 2 |};
              {| s_st := 4000; s_en := 6000; s_nr := 3 |}; {| s_st := 6000; s_en := 8000; s_nr := 4 |} ];
  r_pre := "T/"; r_suf := ".m4s"; r_init := "T/init.mp4"; r_enc := false; r_preenc := false; r_csd := None |}.
Definition assetW : asset := {| a_path := "a"; a_segDurMS := 2000; a_loopMS := 8000;
  a_reps := [repA; repV; repT]; a_ref := repV; a_mpds := ["M.mpd"] |}.
Definition envW : env := {| e_assets := [assetW]; e_drm := false |}.

Definition live (path now : string) : request := RLive path now [("nowMS", [now])].

Ltac witness r := let H := fresh "H" in intro H; vm_compute in H; first [ discriminate H | (exists r; vm_compute; reflexivity) ].

Theorem refuted_stoprel : fx_stoprel current = false ->
  exists r, handler_model current envW r = HPanic "app.processURLCfg: nil dereference".
Proof. witness (live "/livesim2/stoprel_x/a/M.mpd" "100000"). Qed.

Theorem refuted_annexI : fx_annexI current = false ->
  exists r, handler_model current envW r = HPanic "app.(*strConvAccErr).ParseQuery: index out of range".
Proof. witness (live "/livesim2/annexI_a/a/M.mpd" "100000"). Qed.

Theorem refuted_traffic_empty : fx_loss current = false ->
  exists r, handler_model current envW r = HPanic "app.LossItvls.StateAt: integer divide by zero".
Proof. witness (live "/livesim2/traffic_u10,/a/bu1/V/45.m4s" "100000"). Qed.

Theorem refuted_traffic_wrap : fx_loss current = false ->
  exists r, handler_model current envW r = HPanic "app.LossItvls.StateAt: integer divide by zero".
Proof. witness (live "/livesim2/traffic_u9223372036854775808d9223372036854775808/a/bu0/V/45.m4s" "100000"). Qed.

Theorem refuted_traffic_index : fx_traffic_idx current = false ->
  exists r, handler_model current envW r = HPanic "app.(*Server).livesimHandlerFunc: index out of range".
Proof. witness (live "/livesim2/traffic_u10/a/bu9/V/45.m4s" "100000"). Qed.

Theorem refuted_periods_zero : fx_periods current = false ->
  exists r, handler_model current envW r = HPanic "app.splitPeriod: integer divide by zero".
Proof. witness (live "/livesim2/periods_0/a/M.mpd" "100000"). Qed.

Theorem refuted_periods_5000 : fx_periods current = false ->
  exists r, handler_model current envW r = HPanic "app.splitPeriod: integer divide by zero".
Proof. witness (live "/livesim2/periods_5000/a/M.mpd" "100000"). Qed.

Theorem refuted_periods_negative : fx_periods current = false ->
  exists r, handler_model current envW r = HPanic "app.lastPeriodStartTime: index out of range".
Proof. witness (live "/livesim2/periods_-1/a/M.mpd" "7230000"). Qed.

Theorem refuted_periods_cap : fx_periods current = false ->
  exists r, handler_model current envW r = HPanic "app.splitPeriod: makeslice: cap out of range".
Proof. witness (live "/livesim2/periods_-120/a/M.mpd" "7230000"). Qed.

Theorem refuted_timesubsdur_zero : fx_subsdur current = false ->
  exists r, handler_model current envW r = HPanic "app.calcCueItvls: integer divide by zero".
Proof. witness (live "/livesim2/timesubsstpp_en/timesubsdur_-500/a/timestpp-en/45.m4s" "100000"). Qed.

Theorem refuted_timesubsdur_spin : fx_subsdur current = false ->
  exists r, handler_model current envW r = HHang "app.calcCueItvls: loop".
Proof. witness (live "/livesim2/timesubsstpp_en/timesubsdur_-3001/a/timestpp-en/45.m4s" "100000"). Qed.

Ltac witness2 r := let H := fresh "H" in let H2 := fresh "H" in intros H H2; vm_compute in H; vm_compute in H2;
  first [ discriminate H | discriminate H2 | (exists r; vm_compute; reflexivity) ].

Theorem refuted_chunkdur : fx_chunkdur current = false -> fx_chunk_cap current = false ->
  exists r, handler_model current envW r = HPanic "app.chunkSegment: integer divide by zero".
Proof. witness2 (live "/livesim2/ato_2/chunkdur_0.5/a/V/45.m4s" "100000"). Qed.

Theorem refuted_chunkdur_wrap : fx_chunkdur current = false -> fx_chunk_cap current = false ->
  exists r, handler_model current envW r = HPanic "app.chunkSegment: integer divide by zero".
Proof. witness2 (live "/livesim2/chunkdur_1/ato_-2147481.648/a/V/45.m4s" "100000"). Qed.

Theorem refuted_chunk_sleep : fx_chunkdur current = false ->
  exists r, handler_model current envW r = HHang "app.writeChunkedSegment: sleep".
Proof. witness (live "/livesim2/ato_inf/chunkdur_1/a/V/99999.m4s" "100000"). Qed.

Theorem refuted_timesubs_startnr : fx_subs_startnr current = false ->
  exists r, handler_model current envW r = HPanic "app.findSegMetaFromNr: index out of range".
Proof. witness (live "/livesim2/timesubsstpp_en/snr_100/a/timestpp-en/45.m4s" "100000"). Qed.

Theorem refuted_snr_truncated : fx_snr current = false ->
  exists r, handler_model current envW r = HPanic "app.findSegMetaFromNr: index out of range".
Proof. witness (live "/livesim2/snr_4294967297/a/V/2.m4s" "100000"). Qed.

Theorem refuted_statuscode_startnr : fx_status_startnr current = false ->
  exists r, handler_model current envW r = HPanic "app.findSegStartTime: index out of range".
Proof. witness (live "/livesim2/statuscode_[{cycle:8,rsq:1,code:404}]/snr_7/a/V/8.m4s" "10000"). Qed.

Theorem refuted_statuscode_cycle : fx_status_cycle current = false ->
  exists r, handler_model current envW r = HPanic "app.calcStatusCode: integer divide by zero".
Proof. witness (live "/livesim2/statuscode_[{cycle:1152921504606846976,rsq:0,code:404}]/a/V/45.m4s" "100000"). Qed.

Theorem refuted_drm_init : fx_drm current = false ->
  exists r, handler_model current envW r = HPanic "app.matchInit: nil dereference".
Proof. witness (live "/livesim2/drm_foo/a/V/init.mp4" "100000"). Qed.

Theorem refuted_drm_media : fx_drm current = false ->
  exists r, handler_model current envW r = HPanic "app.encryptFrags: nil dereference".
Proof. witness (live "/livesim2/drm_foo/a/V/45.m4s" "100000"). Qed.

Theorem refuted_eccp_text : fx_drm current = false ->
  exists r, handler_model current envW r = HPanic "app.encryptFrags: nil dereference".
Proof. witness (live "/livesim2/eccp_cenc/a/T/45.m4s" "100000"). Qed.

Theorem refuted_kid : fx_kid current = false ->
  exists r, handler_model current envW r = HPanic "app.kidToKey: keyID does not start with 3 k i d bytes".
Proof. witness (RLicense true true [Some [1;2;3;4;5;6;7;8;9;10;11;12;13;14;15;16]]). Qed.

Theorem refuted_urlgen_tsbd : fx_urlgen_create current = false ->
  exists r, handler_model current envW r = HPanic "app.createURL: bad tsbd".
Proof. witness (RUrlgenCreate "abc" "" ""). Qed.

Theorem refuted_urlgen_ltgt : fx_urlgen_create current = false ->
  exists r, handler_model current envW r = HPanic "app.createURL: bad ltgt".
Proof. witness (RUrlgenCreate "" "z" ""). Qed.

Theorem refuted_urlgen_patch_ttl : fx_urlgen_create current = false ->
  exists r, handler_model current envW r = HPanic "app.createURL: bad patch-ttl".
Proof. witness (RUrlgenCreate "" "" "z"). Qed.

Theorem refuted_urlgen_drms : fx_urlgen_drms current = false ->
  exists r, handler_model current envW r = HPanic "app.(*Server).urlGenHandlerFunc: index out of range".
Proof. witness (RUrlgenDrms "a"). Qed.

Theorem refuted_stop_before_start : fx_stop_order current = false ->
  exists r, handler_model current envW r = HPanic "app.lastPeriodStartTime: index out of range".
Proof. witness (live "/livesim2/start_1000/stop_900/periods_60/a/M.mpd" "2000000"). Qed.

Theorem refuted_stop_before_start_cap : fx_stop_order current = false ->
  exists r, handler_model current envW r = HPanic "app.splitPeriod: makeslice: cap out of range".
Proof. witness (live "/livesim2/start_1000/stop_0/periods_60/a/M.mpd" "2000000"). Qed.

Theorem refuted_location_parts : fx_location current = false ->
  exists r, handler_model current envW r = HPanic "app.LiveMPD: nil dereference".
Proof. witness (live "/livesim2/startrel_-20/a/stoprel_1/M.mpd" "100000"). Qed.

(** With every repair in place none of the witnesses above is a panic or a hang any more. *)
Definition all_witnesses : list request :=
  [ live "/livesim2/stoprel_x/a/M.mpd" "100000"; live "/livesim2/annexI_a/a/M.mpd" "100000";
    live "/livesim2/traffic_u10,/a/bu1/V/45.m4s" "100000";
    live "/livesim2/traffic_u9223372036854775808d9223372036854775808/a/bu0/V/45.m4s" "100000";
    live "/livesim2/traffic_u10/a/bu9/V/45.m4s" "100000"; live "/livesim2/periods_0/a/M.mpd" "100000";
    live "/livesim2/periods_5000/a/M.mpd" "100000"; live "/livesim2/periods_-1/a/M.mpd" "7230000";
    live "/livesim2/periods_-120/a/M.mpd" "7230000";
    live "/livesim2/timesubsstpp_en/timesubsdur_-500/a/timestpp-en/45.m4s" "100000";
    live "/livesim2/timesubsstpp_en/timesubsdur_-3001/a/timestpp-en/45.m4s" "100000";
    live "/livesim2/ato_2/chunkdur_0.5/a/V/45.m4s" "100000"; live "/livesim2/chunkdur_1/ato_-2147481.648/a/V/45.m4s" "100000";
    live "/livesim2/ato_inf/chunkdur_1/a/V/99999.m4s" "100000";
    live "/livesim2/timesubsstpp_en/snr_100/a/timestpp-en/45.m4s" "100000"; live "/livesim2/snr_4294967297/a/V/2.m4s" "100000";
    live "/livesim2/statuscode_[{cycle:8,rsq:1,code:404}]/snr_7/a/V/8.m4s" "10000";
    live "/livesim2/statuscode_[{cycle:1152921504606846976,rsq:0,code:404}]/a/V/45.m4s" "100000";
    live "/livesim2/drm_foo/a/V/init.mp4" "100000"; live "/livesim2/drm_foo/a/V/45.m4s" "100000";
    live "/livesim2/eccp_cenc/a/T/45.m4s" "100000";
    RLicense true true [Some [1;2;3;4;5;6;7;8;9;10;11;12;13;14;15;16]];
    RUrlgenCreate "abc" "" ""; RUrlgenCreate "" "z" ""; RUrlgenCreate "" "" "z"; RUrlgenDrms "a" ].

Definition status_of (r : hres) : Z := match r with HStatus c _ => c | _ => -1 end.

Theorem witnesses_repaired :
  map (fun r => status_of (handler_model all_fixed envW r)) all_witnesses =
  [400; 400; 400; 400; 400; 400; 400; 400; 400; 400; 400; 400; 400; 400; 404; 400; 404; 400; 400; 400; 200;
   400; 400; 400; 400; 200].
Proof. vm_compute. reflexivity. Qed.

(** The tree under test: every witness request of this file gets a deliberate status - in particular
    the chunked request for a far-future segment with ato_inf (formerly an unbounded sleep) is a 400
    since /repo 6ca1ef6. *)
Theorem witnesses_current :
  map (fun r => status_of (handler_model current envW r)) all_witnesses =
  [400; 400; 400; 400; 400; 400; 400; 400; 400; 400; 400; 400; 400; 400; 404; 400; 404; 400; 400; 400; 200;
   400; 400; 400; 400; 200].
Proof. vm_compute. reflexivity. Qed.

(** Non-vacuity of the composed totality theorem: the hypotheses of [live_handler_total] hold for a
    concrete environment and requests, and the theorem then gives their totality. *)
Lemma envW_wf : Forall wf_asset (e_assets envW).
Proof.
  constructor; [|constructor].
  constructor.
  - repeat constructor; cbn; try discriminate; vm_compute; discriminate.
  - repeat constructor; cbn; unfold two32; lia.
  - split; [discriminate|vm_compute; discriminate].
  - split; [discriminate|]. split; [cbn; unfold two32; lia|]. cbn. unfold two63. lia.
  - discriminate.
  - discriminate.
Qed.

Lemma G_live_example_segment : forall now c, atoi "100000" = Some now ->
  process_url_cfg all_fixed "/livesim2/tsbd_30/periods_60/snr_7/timesubsstpp_en/a/V/45.m4s" now = Ok c -> G_live envW now c.
Proof.
  intros now c A P. vm_compute in A. inversion A; subst. vm_compute in P. inversion P; subst; clear P A.
  unfold G_live, cue_ok, small. cbn [c_complete c_codes c_traffic c_timeOffset c_startS c_stopS c_subsDurMS c_contentIdx c_parts c_addLocation].
  assert (Q : f_to_int (f_ceil (f_of_int 900 * f_milli)) = 1) by (vm_compute; reflexivity).
  rewrite Q.
  repeat (split; [first [reflexivity | lia | exact I]|]).
  intros a [<-|[]]. vm_compute. discriminate.
Qed.

Example live_handler_total_applies :
  is_bad (live_handler all_fixed envW "/livesim2/tsbd_30/periods_60/snr_7/timesubsstpp_en/a/V/45.m4s" "100000" []) = false.
Proof.
  apply live_handler_total; try reflexivity; [exact envW_wf|exact G_live_example_segment].
Qed.
