(** Specification of the SegmentTimeline window of the live MPD (C02, C05): which segments of
    the looped timeline [S]/[E] (Timeline.v) an MPD generated at the instant [now] lists.
    Definitions only (all executable); the proofs are in WindowProofs.v. *)
From Verif Require Import GoSem Timeline Publish.

(** number of segments of the table that have ended at the relative media time [t] *)
Definition cnt (l : list seg) (t : Z) : Z := searchIdx (fun s => en s >? t) l.

(** index of the newest segment [n] of the looped timeline with [E r n <= t];
    [-1] if no segment has ended (for [0 <= t]) *)
Definition lastFin (r : rep) (t : Z) : Z :=
  (t / repDuration r) * nsegs r + cnt (segs r) (t mod repDuration r) - 1.

(** media time (ticks since availabilityStartTime) reached at the instant [x] (ms),
    the availabilityTimeOffset [atoMS] included *)
Definition tick (r : rep) (c : tcfg) (atoMS x : Z) : Z :=
  ((x - startS c * 1000 + atoMS) * ts r) / 1000.

(** start of the time-shift window in ms: never before the start of the stream *)
Definition winStartMS (c : tcfg) (now tsbdMS : Z) : Z := Z.max (now - tsbdMS) (startS c * 1000).

(** newest listed segment: the newest one that has ended at [now] (less the offset) *)
Definition window_last (r : rep) (c : tcfg) (atoMS now : Z) : Z := lastFin r (tick r c atoMS now).

(** oldest listed segment: the newest one that had ended at the start of the window *)
Definition window_first (r : rep) (c : tcfg) (atoMS now tsbdMS : Z) : Z :=
  Z.max 0 (lastFin r (tick r c atoMS (winStartMS c now tsbdMS))).

(** the (t, d) pair of segment [k] as a SegmentTimeline declares it *)
Definition td (r : rep) (k : Z) : Z * Z := (S r k, E r k - S r k).

(** the segments [first..last] as (t, d) pairs *)
Definition window_td (r : rep) (first last : Z) : list (Z * Z) :=
  map (td r) (seqZ first (Z.to_nat (last - first + 1))).

(** a list of (t, d) pairs without gap or overlap *)
Fixpoint td_contiguous (l : list (Z * Z)) : Prop :=
  match l with
  | a :: ((b :: _) as t) => fst a + snd a = fst b /\ td_contiguous t
  | _ => True
  end.

(** ** The modelled content of a SegmentTimeline MPD (C05) *)

(** what a client sees of the SegmentTimeline: the start number and the <S> elements *)
Definition mpdContent (r : rep) (loopMS : Z) (c : tcfg) (now tsbdMS atoMS : Z) : Z * list sentry :=
  let se := generateTimelineEntries r (calcWrapTimes loopMS c now tsbdMS) atoMS in
  (se_startNr se, se_entries se).

(** the segment entries as a function of the two edges alone: nothing if no segment has ended,
    else the run-length encoding of [first .. last] *)
Definition windowEntries (r : rep) (first last : Z) : segEntries :=
  if last <? 0 then
    {| se_startNr := -1; se_entries := []; se_lsi_nr := -1; se_lsi_start := 0; se_lsi_dur := 0 |}
  else
    let t := S r first in
    let d := E r first - S r first in
    let '(es, (ls, ld, ln)) :=
        tlLoop r (Z.to_nat (last - first)) (first + 1) d t {| e_t := t; e_d := d; e_r := 0 |} [] t d first in
    {| se_startNr := first; se_entries := es; se_lsi_nr := ln; se_lsi_start := ls; se_lsi_dur := ld |}.

(** every segment of the table has the duration [d] *)
Definition const_dur (r : rep) (d : Z) : Prop := Forall (fun s => sdur s = d) (segs r).

(** ** Stop time (LiveMPD): after the configured stop the MPD is generated for the stop instant
    and made static with the duration stop - start. *)
Definition endTimeMS (stop : option Z) (now : Z) : Z :=
  match stop with Some s => if s * 1000 <? now then s * 1000 else now | None => now end.
Definition afterStop (stop : option Z) (now : Z) : bool :=
  match stop with Some s => s * 1000 <? now | None => false end.

Record mpdView := {
  v_static : bool;                 (* @type = static *)
  v_durS : option Z;               (* @mediaPresentationDuration in seconds *)
  v_publishMS : Z;
  v_content : Z * list sentry
}.

Definition liveMPDView (r : rep) (loopMS : Z) (c : tcfg) (stop : option Z) (now tsbdMS atoMS : Z) : mpdView :=
  let e := endTimeMS stop now in
  {| v_static := afterStop stop now;
     v_durS := match stop with Some s => if s * 1000 <? now then Some (s - startS c) else None | None => None end;
     v_publishMS := mpdPublishMS r loopMS c e tsbdMS atoMS;
     v_content := mpdContent r loopMS c e tsbdMS atoMS |}.
