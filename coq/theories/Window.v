(** Specification of the SegmentTimeline window of the live MPD (C02, C05): which segments of
    the looped timeline [S]/[E] (Timeline.v) an MPD generated at the instant [now] lists.
    Definitions only (all executable); the proofs are in WindowProofs.v. *)
From Verif Require Import GoSem Timeline.

(** number of segments of the table that have ended at the relative media time [t] *)
Definition cnt (l : list seg) (t : Z) : Z := searchIdx (fun s => en s >? t) l.

(** index of the newest segment [n] of the looped timeline with [E r n <= t];
    [-1] if no segment has ended (for [0 <= t]) *)
Definition lastFin (r : rep) (t : Z) : Z :=
  (t / repDuration r) * nsegs r + cnt (segs r) (t mod repDuration r) - 1.

(** media time (ticks since availabilityStartTime) reached at the instant [x] (ms),
    the availabilityTimeOffset [atoMS] included *)
Definition tick (r : rep) (c : tcfg) (atoMS x : Z) : Z :=
  ((x - startS c * 1000 + atoMS) * ts r) / 1000.

(** start of the time-shift window in ms: never before the start of the stream *)
Definition winStartMS (c : tcfg) (now tsbdMS : Z) : Z := Z.max (now - tsbdMS) (startS c * 1000).

(** newest listed segment: the newest one that has ended at [now] (less the offset) *)
Definition window_last (r : rep) (c : tcfg) (atoMS now : Z) : Z := lastFin r (tick r c atoMS now).

(** oldest listed segment: the newest one that had ended at the start of the window *)
Definition window_first (r : rep) (c : tcfg) (atoMS now tsbdMS : Z) : Z :=
  Z.max 0 (lastFin r (tick r c atoMS (winStartMS c now tsbdMS))).

(** the (t, d) pair of segment [k] as a SegmentTimeline declares it *)
Definition td (r : rep) (k : Z) : Z * Z := (S r k, E r k - S r k).

(** the segments [first..last] as (t, d) pairs *)
Definition window_td (r : rep) (first last : Z) : list (Z * Z) :=
  map (td r) (seqZ first (Z.to_nat (last - first + 1))).

(** a list of (t, d) pairs without gap or overlap *)
Fixpoint td_contiguous (l : list (Z * Z)) : Prop :=
  match l with
  | a :: ((b :: _) as t) => fst a + snd a = fst b /\ td_contiguous t
  | _ => True
  end.
