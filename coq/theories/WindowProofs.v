(** Proofs for Window.v: the SegmentTimeline computed by the model of the MPD code
    (calcWrapTimes + generateTimelineEntries) is the window [first, last] of the looped
    timeline; every listed segment is answered by the model of the segment server at the same
    instant and the next one is too early (C02); the window edges only move forward (C05). *)
From Verif Require Import GoSem GoSemFacts Timeline TimelineProofs Publish Window.
From Coq Require Import ZifyBool.
Ltac Zify.zify_post_hook ::= Z.div_mod_to_equations.

(** * [searchIdx] returns the least index at which the predicate holds *)

Lemma searchIdx_spec (f : seg -> bool) l :
  0 <= searchIdx f l <= lenZ l /\
  (forall i, 0 <= i < searchIdx f l -> f (atL l i) = false) /\
  (searchIdx f l < lenZ l -> f (atL l (searchIdx f l)) = true).
Proof.
  induction l as [|x l IH].
  - cbn [searchIdx]. change (lenZ (@nil seg)) with 0. repeat split; intros; lia.
  - cbn [searchIdx]. rewrite lenZ_cons. pose proof (lenZ_nonneg l). destruct IH as (IH1 & IH2 & IH3).
    destruct (f x) eqn:Ef.
    + repeat split; try lia. intros _. now rewrite atL_0.
    + repeat split; try lia.
      * intros i Hi. destruct (Z.eq_dec i 0) as [->|Hne]; [now rewrite atL_0|].
        replace i with (i - 1 + 1) by lia. rewrite atL_cons_succ by lia. apply IH2. lia.
      * intros Hlt. replace (1 + searchIdx f l) with (searchIdx f l + 1) by lia.
        rewrite atL_cons_succ by lia. apply IH3. lia.
Qed.

Lemma divmod_at q d i : 0 <= i < d -> (q * d + i) / d = q /\ (q * d + i) mod d = i.
Proof.
  intros H. split; [symmetry; apply (Z.div_unique _ _ _ i); lia | symmetry; apply (Z.mod_unique _ _ q); lia].
Qed.

Lemma expandEntry_snoc t d k : expandEntry t d (Datatypes.S k) = expandEntry t d k ++ [(t + Z.of_nat k * d, d)].
Proof.
  revert t; induction k as [|k IH]; intros t.
  - cbn. do 2 f_equal. lia.
  - change (expandEntry t d (Datatypes.S (Datatypes.S k))) with ((t, d) :: expandEntry (t + d) d (Datatypes.S k)).
    rewrite IH. cbn [expandEntry app]. do 4 f_equal. lia.
Qed.

Lemma round_div_grid x d : 0 < d -> round_div (x * d) d = x.
Proof.
  intros Hd. unfold round_div. symmetry. apply (Z.div_unique _ _ _ d); lia.
Qed.

Section Win.
Variable r : rep.
Variable loopMS : Z.
Hypothesis W : wf r loopMS.

Local Notation N := (nsegs r).
Local Notation D := (repDuration r).

Let HN : 0 < N := nsegs_pos r loopMS W.
Let HD : 0 < D := repDuration_pos r loopMS W.
Let Hts : 0 < ts r := wf_ts _ _ W.

Lemma loopMS_pos : 0 < loopMS.
Proof. pose proof (wf_loop _ _ W). pose proof HD. pose proof Hts. nia. Qed.

(** ** The looped timeline by (wrap, index) and its monotonicity *)

Lemma E_at q i : 0 <= i < N -> E r (q * N + i) = q * D + en (segAt r i).
Proof. intros H. unfold E. destruct (divmod_at q N i H) as [-> ->]. reflexivity. Qed.

Lemma S_at q i : 0 <= i < N -> S r (q * N + i) = q * D + st (segAt r i).
Proof. intros H. unfold S. destruct (divmod_at q N i H) as [-> ->]. reflexivity. Qed.

Lemma E_step n : 0 <= n -> E r n < E r (n + 1).
Proof.
  intros Hn. rewrite <- (S_E_contiguous r loopMS W n Hn). apply (S_lt_E r loopMS W). lia.
Qed.

Lemma E_mono a b : 0 <= a <= b -> E r a <= E r b.
Proof.
  intros [Ha Hab]. replace b with (a + Z.of_nat (Z.to_nat (b - a))) by lia.
  induction (Z.to_nat (b - a)) as [|k IH]; [rewrite Z.add_0_r; lia|].
  rewrite Nat2Z.inj_succ. replace (a + Z.succ (Z.of_nat k)) with (a + Z.of_nat k + 1) by lia.
  pose proof (E_step (a + Z.of_nat k) ltac:(lia)). lia.
Qed.

Lemma E_lt a b : 0 <= a < b -> E r a < E r b.
Proof. intros H. pose proof (E_step a ltac:(lia)). pose proof (E_mono (a + 1) b ltac:(lia)). lia. Qed.

Lemma E_pos n : 0 <= n -> 0 < E r n.
Proof. intros Hn. pose proof (S_nonneg r loopMS n W Hn). pose proof (S_lt_E r loopMS W n Hn). lia. Qed.

Lemma sdur_SE n : sdur (segAt r (n mod N)) = E r n - S r n.
Proof. unfold sdur, S, E. lia. Qed.

(** ** [cnt]: the number of segments of the table that have ended *)

Lemma cnt_spec u :
  0 <= cnt (segs r) u <= N /\
  (forall i, 0 <= i < cnt (segs r) u -> en (segAt r i) <= u) /\
  (cnt (segs r) u < N -> u < en (segAt r (cnt (segs r) u))).
Proof.
  unfold cnt. destruct (searchIdx_spec (fun s => en s >? u) (segs r)) as (H1 & H2 & H3).
  split; [exact H1|]. split.
  - intros i Hi. specialize (H2 i Hi). cbn beta in H2. rewrite segAt_atL. lia.
  - intros Hlt. specialize (H3 Hlt). cbn beta in H3. rewrite segAt_atL. lia.
Qed.

Lemma cnt_char u c : 0 <= c <= N ->
  (forall i, 0 <= i < c -> en (segAt r i) <= u) -> (c < N -> u < en (segAt r c)) ->
  cnt (segs r) u = c.
Proof.
  intros Hc Hlo Hhi. destruct (cnt_spec u) as (H1 & H2 & H3).
  destruct (Z.lt_trichotomy (cnt (segs r) u) c) as [Hlt|[Heq|Hgt]]; [|exact Heq|].
  - specialize (H3 ltac:(lia)). specialize (Hlo (cnt (segs r) u) ltac:(lia)). lia.
  - specialize (Hhi ltac:(lia)). specialize (H2 c ltac:(lia)). lia.
Qed.

Lemma cnt_before u : u < en (segAt r 0) -> cnt (segs r) u = 0.
Proof. intros H. pose proof HN. apply cnt_char; [lia|intros; lia|intros _; exact H]. Qed.

Lemma cnt_after u : D <= u -> cnt (segs r) u = N.
Proof.
  intros H. apply cnt_char; [lia| |lia].
  intros i Hi. pose proof (en_le_dur r loopMS W i Hi). lia.
Qed.

(** ** (1) [lastFin] is the newest segment that has ended *)

Lemma lastFin_spec t : 0 <= t ->
  -1 <= lastFin r t /\ (0 <= lastFin r t -> E r (lastFin r t) <= t) /\ t < E r (lastFin r t + 1).
Proof.
  intros Ht. unfold lastFin. pose proof HN as HN'. pose proof HD as HD'.
  assert (Hq : 0 <= t / D) by (apply Z.div_pos; lia).
  pose proof (Z.mod_pos_bound t D HD') as Hu. pose proof (Z.div_mod t D ltac:(lia)) as Hdm.
  set (q := t / D) in *. set (u := t mod D) in *. clearbody q u.
  destruct (cnt_spec u) as (Hc1 & Hc2 & Hc3). set (c := cnt (segs r) u) in *. clearbody c.
  assert (Hc : c <= N - 1).
  { destruct (Z.eq_dec c N) as [->|Hne]; [|lia]. specialize (Hc2 (N - 1) ltac:(lia)).
    rewrite <- (repDuration_en r loopMS W) in Hc2. lia. }
  split; [nia|]. split.
  - intros Hm. destruct (Z.eq_dec c 0) as [->|Hne].
    + replace (q * N + 0 - 1) with ((q - 1) * N + (N - 1)) by lia. rewrite E_at by lia.
      rewrite <- (repDuration_en r loopMS W). nia.
    + replace (q * N + c - 1) with (q * N + (c - 1)) by lia. rewrite E_at by lia.
      specialize (Hc2 (c - 1) ltac:(lia)). lia.
  - replace (q * N + c - 1 + 1) with (q * N + c) by lia. rewrite E_at by lia.
    specialize (Hc3 ltac:(lia)). lia.
Qed.

Lemma lastFin_neg t : t < 0 -> lastFin r t < 0.
Proof.
  intros Ht. unfold lastFin. pose proof HN. pose proof HD.
  destruct (cnt_spec (t mod D)) as (Hc1 & _ & _).
  assert (t / D <= -1) by (Z.div_mod_to_equations; nia). nia.
Qed.

Lemma lastFin_ge_iff t m : 0 <= m -> (E r m <= t <-> m <= lastFin r t).
Proof.
  intros Hm. destruct (Z.lt_ge_cases t 0) as [Hneg|Ht].
  - pose proof (lastFin_neg t Hneg). pose proof (E_pos m Hm). lia.
  - destruct (lastFin_spec t Ht) as (H1 & H2 & H3). split.
    + intros HE. destruct (Z.lt_ge_cases (lastFin r t) m) as [Hlt|]; [|lia].
      pose proof (E_mono (lastFin r t + 1) m ltac:(lia)). lia.
    + intros Hle. pose proof (E_mono m (lastFin r t) ltac:(lia)). lia.
Qed.

Lemma lastFin_mono t1 t2 : 0 <= t1 <= t2 -> lastFin r t1 <= lastFin r t2.
Proof.
  intros [H1 H2]. destruct (lastFin_spec t1 H1) as (Ha & Hb & _).
  destruct (lastFin_spec t2 ltac:(lia)) as (Hc & _ & _).
  destruct (Z.lt_ge_cases (lastFin r t1) 0) as [Hneg|Hpos]; [lia|].
  apply lastFin_ge_iff; [exact Hpos|]. specialize (Hb Hpos). lia.
Qed.

(** the live edge is at [n] exactly between the end of [n] and the end of [n+1] *)
Lemma lastFin_eq_iff t n : 0 <= n -> (lastFin r t = n <-> E r n <= t < E r (n + 1)).
Proof.
  intros Hn. pose proof (lastFin_ge_iff t n Hn). pose proof (lastFin_ge_iff t (n + 1) ltac:(lia)). lia.
Qed.

(** ** (2) [edgeIdx] computes [lastFin] as a (wrap, index) pair *)

Lemma edgeIdx_spec wraps relMS atoMS :
  0 <= relMS -> 0 <= atoMS ->
  let '(w, i) := edgeIdx r wraps relMS atoMS in
  0 <= i < N /\ w * N + i = lastFin r (wraps * D + Z.quot ((relMS + atoMS) * ts r) 1000).
Proof.
  intros Hrel Hato. pose proof HN as HN'. pose proof HD as HD'. pose proof Hts as Hts'.
  unfold edgeIdx. rewrite Z.quot_div_nonneg by nia.
  assert (HT : 0 <= (relMS + atoMS) * ts r / 1000) by (apply Z.div_pos; nia).
  set (relT0 := (relMS + atoMS) * ts r / 1000) in *. clearbody relT0.
  assert (Hex : exists w' relT,
             (if relT0 >=? D then (wraps + relT0 / D, relT0 mod D) else (wraps, relT0)) = (w', relT) /\
             0 <= relT < D /\ w' * D + relT = wraps * D + relT0).
  { destruct (relT0 >=? D) eqn:E0.
    - exists (wraps + relT0 / D), (relT0 mod D). split; [reflexivity|].
      pose proof (Z.mod_pos_bound relT0 D HD'). pose proof (Z.div_mod relT0 D ltac:(lia)). split; [lia|nia].
    - exists wraps, relT0. split; [reflexivity|]. lia. }
  destruct Hex as (w' & relT & -> & Hr & <-). unfold lastFin.
  destruct (divmod_at w' D relT Hr) as [-> ->].
  destruct (relT <? en (segAt r 0)) eqn:E0.
  - rewrite cnt_before by lia. lia.
  - change (firstFinishedIdx (segs r) relT) with (cnt (segs r) relT - 1).
    destruct (cnt_spec relT) as (Hc1 & Hc2 & Hc3). set (c := cnt (segs r) relT) in *. clearbody c.
    assert (1 <= c). { destruct (Z.eq_dec c 0) as [->|]; [|lia]. specialize (Hc3 ltac:(lia)). lia. }
    destruct (c - 1 <? 0) eqn:E1; lia.
Qed.

(** ** (3) the run-length loop lists the segments one by one *)

Lemma expand_snoc es e : expand (es ++ [e]) = expand es ++ expandEntry (e_t e) (e_d e) (Z.to_nat (e_r e + 1)).
Proof. unfold expand. rewrite flat_map_app. cbn [flat_map]. now rewrite app_nil_r. Qed.

Lemma map_td_seqZ_snoc a k : map (td r) (seqZ a (Datatypes.S k)) = td r a :: map (td r) (seqZ (a + 1) k).
Proof. reflexivity. Qed.

(** After segment [b] (entry [cur] ends at [E b], duration [d] of [b], lsi = [b]) the loop run
    for [k] more segments appends exactly [b+1 .. b+k] and leaves lsi = [b+k]. *)
Lemma tlLoop_spec k : forall b d t cur acc ls ld,
  0 <= b -> d = E r b - S r b -> ls = S r b -> ld = d ->
  e_d cur = d -> 0 <= e_r cur -> e_t cur + (e_r cur + 1) * d = E r b ->
  snd (tlLoop r k (b + 1) d t cur acc ls ld b)
    = (S r (b + Z.of_nat k), E r (b + Z.of_nat k) - S r (b + Z.of_nat k), b + Z.of_nat k) /\
  expand (fst (tlLoop r k (b + 1) d t cur acc ls ld b))
    = expand (rev (cur :: acc)) ++ map (td r) (seqZ (b + 1) k).
Proof.
  induction k as [|k IH]; intros b d t cur acc ls ld Hb Hd Hls Hld Hcd Hcr Hct.
  - cbn [tlLoop fst snd seqZ map]. rewrite Z.add_0_r, app_nil_r. subst. split; reflexivity.
  - cbn [tlLoop]. rewrite sdur_SE.
    pose proof (S_E_contiguous r loopMS W b Hb) as Hcont.
    rewrite Nat2Z.inj_succ. replace (b + Z.succ (Z.of_nat k)) with (b + 1 + Z.of_nat k) by lia.
    rewrite map_td_seqZ_snoc.
    destruct (E r (b + 1) - S r (b + 1) =? d) eqn:Ed.
    + specialize (IH (b + 1) d t {| e_t := e_t cur; e_d := e_d cur; e_r := e_r cur + 1 |} acc (ls + d) ld
                     ltac:(lia) ltac:(lia) ltac:(lia) Hld Hcd ltac:(cbn [e_r]; lia) ltac:(cbn [e_t e_r]; lia)).
      destruct IH as [IH1 IH2]. split; [exact IH1|]. rewrite IH2.
      cbn [rev]. rewrite !expand_snoc. cbn [e_t e_d e_r]. rewrite <- !app_assoc. f_equal.
      replace (Z.to_nat (e_r cur + 1 + 1)) with (Datatypes.S (Z.to_nat (e_r cur + 1))) by lia.
      rewrite expandEntry_snoc. rewrite <- app_assoc. f_equal. cbn [app]. f_equal.
      unfold td. f_equal; lia.
    + specialize (IH (b + 1) (E r (b + 1) - S r (b + 1)) t
                     {| e_t := ls + d; e_d := E r (b + 1) - S r (b + 1); e_r := 0 |} (cur :: acc) (ls + d)
                     (E r (b + 1) - S r (b + 1))
                     ltac:(lia) ltac:(lia) ltac:(lia) eq_refl eq_refl ltac:(cbn [e_r]; lia)
                     ltac:(cbn [e_t e_r]; lia)).
      destruct IH as [IH1 IH2]. split; [exact IH1|]. rewrite IH2.
      change (rev ({| e_t := ls + d; e_d := E r (b + 1) - S r (b + 1); e_r := 0 |} :: cur :: acc))
        with (rev (cur :: acc) ++ [{| e_t := ls + d; e_d := E r (b + 1) - S r (b + 1); e_r := 0 |}]).
      rewrite expand_snoc. cbn [e_t e_d e_r]. rewrite <- app_assoc. f_equal.
      change (Z.to_nat (0 + 1)) with 1%nat. cbn [expandEntry app]. f_equal.
      unfold td. f_equal. lia.
Qed.

(** ** calcWrapTimes splits an instant into whole loops and the rest *)

Lemma calcWrapTimes_spec c now tsbdMS : startS c * 1000 <= now ->
  let wt := calcWrapTimes loopMS c now tsbdMS in
  let ws := winStartMS c now tsbdMS in
  startWraps wt = (ws - startS c * 1000) / loopMS /\
  startRelMS wt = (ws - startS c * 1000) mod loopMS /\
  nowWraps wt = (now - startS c * 1000) / loopMS /\
  nowRelMS wt = (now - startS c * 1000) mod loopMS.
Proof.
  intros Hnow. pose proof loopMS_pos as HL. cbv zeta. unfold calcWrapTimes, winStartMS.
  cbn [startWraps startRelMS nowWraps nowRelMS].
  assert (Hws : (if now - tsbdMS <? startS c * 1000 then startS c * 1000 else now - tsbdMS)
                = Z.max (now - tsbdMS) (startS c * 1000)).
  { destruct (now - tsbdMS <? startS c * 1000) eqn:E0; lia. }
  rewrite Hws. set (ws := Z.max (now - tsbdMS) (startS c * 1000)).
  assert (startS c * 1000 <= ws) by lia.
  rewrite !Z.quot_div_nonneg by lia.
  repeat split; try reflexivity.
  - rewrite (Z.mod_eq (ws - startS c * 1000) loopMS) by lia. lia.
  - rewrite (Z.mod_eq (now - startS c * 1000) loopMS) by lia. lia.
Qed.

(** [y] ms after the start = [y / loopMS] whole loops of [D] ticks + the rest, converted once *)
Lemma tick_split y atoMS : 0 <= y -> 0 <= atoMS ->
  ((y + atoMS) * ts r) / 1000 = (y / loopMS) * D + Z.quot ((y mod loopMS + atoMS) * ts r) 1000.
Proof.
  intros Hy Ha. pose proof loopMS_pos as HL. pose proof Hts as Hts'.
  pose proof (Z.div_mod y loopMS ltac:(lia)) as Hdm. pose proof (Z.mod_pos_bound y loopMS HL) as Hm.
  rewrite Z.quot_div_nonneg by nia.
  set (q := y / loopMS) in *. set (m := y mod loopMS) in *. clearbody q m. subst y.
  assert (Hq : q * D * 1000 = q * loopMS * ts r).
  { replace (q * D * 1000) with (q * (1000 * D)) by ring. rewrite (wf_loop _ _ W). ring. }
  replace ((loopMS * q + m + atoMS) * ts r) with (q * D * 1000 + (m + atoMS) * ts r) by lia.
  rewrite Z.div_add_l by lia. reflexivity.
Qed.

Lemma tick_nonneg c atoMS x : startS c * 1000 <= x -> 0 <= atoMS -> 0 <= tick r c atoMS x.
Proof. intros. unfold tick. pose proof Hts. apply Z.div_pos; [nia|lia]. Qed.

Lemma tick_mono c atoMS x1 x2 : x1 <= x2 -> tick r c atoMS x1 <= tick r c atoMS x2.
Proof.
  intros H. unfold tick. pose proof Hts. apply Z.div_le_mono; [lia|].
  apply Z.mul_le_mono_nonneg_r; lia.
Qed.

(** the edge computed from the (wraps, rest) pair of the instant [x] is [lastFin] at [x] *)
Lemma edge_tick c atoMS x :
  startS c * 1000 <= x -> 0 <= atoMS ->
  let '(w, i) := edgeIdx r ((x - startS c * 1000) / loopMS) ((x - startS c * 1000) mod loopMS) atoMS in
  0 <= i < N /\ w * N + i = lastFin r (tick r c atoMS x).
Proof.
  intros Hx Ha. pose proof loopMS_pos as HL.
  unfold tick. rewrite (tick_split (x - startS c * 1000) atoMS) by lia.
  apply edgeIdx_spec; [apply Z.mod_pos_bound; lia|lia].
Qed.

(** ** (4) the timeline of the MPD is the window [first, last] *)

Theorem timeline_is_window c now tsbdMS atoMS :
  startS c * 1000 <= now -> 0 <= tsbdMS -> 0 <= atoMS ->
  let se := generateTimelineEntries r (calcWrapTimes loopMS c now tsbdMS) atoMS in
  let last := window_last r c atoMS now in
  let first := window_first r c atoMS now tsbdMS in
  (last < 0 -> se_startNr se = -1 /\ se_entries se = [] /\ se_lsi_nr se = -1) /\
  (0 <= last ->
     first <= last /\ se_startNr se = first /\
     expand (se_entries se) = window_td r first last /\
     se_lsi_nr se = last /\ se_lsi_start se = S r last /\ se_lsi_dur se = E r last - S r last).
Proof.
  intros Hnow Htsbd Ha. cbv zeta. pose proof HN as HN'.
  unfold window_last, window_first.
  destruct (calcWrapTimes_spec c now tsbdMS Hnow) as (Hw1 & Hw2 & Hw3 & Hw4).
  set (ws := winStartMS c now tsbdMS) in *.
  assert (Hws : startS c * 1000 <= ws <= now) by (unfold ws, winStartMS; lia).
  pose proof (edge_tick c atoMS ws ltac:(lia) Ha) as Hs.
  pose proof (edge_tick c atoMS now Hnow Ha) as Hn.
  pose proof (lastFin_mono (tick r c atoMS ws) (tick r c atoMS now)
                ltac:(split; [apply tick_nonneg; lia|apply tick_mono; lia])) as Hmono.
  destruct (lastFin_spec (tick r c atoMS ws) ltac:(apply tick_nonneg; lia)) as (Hlfs & _ & _).
  unfold generateTimelineEntries. rewrite Hw1, Hw2, Hw3, Hw4.
  destruct (edgeIdx r ((ws - startS c * 1000) / loopMS) ((ws - startS c * 1000) mod loopMS) atoMS) as [sw0 si0].
  destruct (edgeIdx r ((now - startS c * 1000) / loopMS) ((now - startS c * 1000) mod loopMS) atoMS) as [nw ni].
  destruct Hs as [Hsi Hse]. destruct Hn as [Hni Hne].
  set (lfs := lastFin r (tick r c atoMS ws)) in *. set (lfn := lastFin r (tick r c atoMS now)) in *.
  clearbody lfs lfn.
  assert (Hfirst : exists sw si, (if sw0 <? 0 then (0, 0) else (sw0, si0)) = (sw, si) /\
                                 0 <= si < N /\ sw * N + si = Z.max 0 lfs).
  { destruct (sw0 <? 0) eqn:Esw.
    - exists 0, 0. split; [reflexivity|]. split; [lia|]. nia.
    - exists sw0, si0. split; [reflexivity|]. split; [lia|]. nia. }
  destruct Hfirst as (sw & si & -> & Hsi' & Hfe).
  destruct (nw <? 0) eqn:Enw.
  - split; [intros _; cbn [se_startNr se_entries se_lsi_nr]; repeat split; reflexivity | intros; nia].
  - assert (Hlast : 0 <= lfn) by nia. split; [lia|]. intros _.
    set (first := Z.max 0 lfs) in *.
    assert (Hfl : first <= lfn) by lia.
    replace (nw * N + ni) with lfn by lia. rewrite Hfe.
    assert (Ht : D * sw + st (segAt r si) = S r first).
    { rewrite <- Hfe, S_at by lia. lia. }
    assert (Hd : sdur (segAt r si) = E r first - S r first).
    { rewrite <- Hfe, S_at, E_at by lia. unfold sdur. lia. }
    rewrite Ht, Hd.
    pose proof (tlLoop_spec (Z.to_nat (lfn - first)) first (E r first - S r first) (S r first)
                  {| e_t := S r first; e_d := E r first - S r first; e_r := 0 |} []
                  (S r first) (E r first - S r first)
                  ltac:(lia) eq_refl eq_refl eq_refl eq_refl ltac:(cbn [e_r]; lia)
                  ltac:(cbn [e_t e_r]; lia)) as [Hsnd Hfst].
    destruct (tlLoop r (Z.to_nat (lfn - first)) (first + 1) (E r first - S r first) (S r first)
                {| e_t := S r first; e_d := E r first - S r first; e_r := 0 |} []
                (S r first) (E r first - S r first) first) as [es [[ls ld] ln]].
    cbn [fst snd] in Hsnd, Hfst. cbn [se_startNr se_entries se_lsi_nr se_lsi_start se_lsi_dur].
    replace (first + Z.of_nat (Z.to_nat (lfn - first))) with lfn in Hsnd by lia.
    injection Hsnd as -> -> ->.
    split; [exact Hfl|]. split; [reflexivity|]. split; [|repeat split; reflexivity].
    rewrite Hfst. unfold window_td.
    replace (Z.to_nat (lfn - first + 1)) with (Datatypes.S (Z.to_nat (lfn - first))) by lia.
    rewrite map_td_seqZ_snoc. reflexivity.
Qed.

(** the listed (t, d) pairs have neither gap nor overlap *)
Lemma window_td_contiguous first k : 0 <= first -> td_contiguous (map (td r) (seqZ first k)).
Proof.
  revert first; induction k as [|k IH]; intros first Hf; [exact I|].
  destruct k as [|k]; [exact I|].
  change (td_contiguous (td r first :: td r (first + 1) :: map (td r) (seqZ (first + 1 + 1) k))).
  split.
  - unfold td. cbn [fst snd]. rewrite (S_E_contiguous r loopMS W first Hf). lia.
  - apply (IH (first + 1)). lia.
Qed.

(** ** (6) the edges only move forward; the live edge follows the availability instants *)

Lemma winStartMS_bounds c now tsbdMS : startS c * 1000 <= now -> 0 <= tsbdMS ->
  startS c * 1000 <= winStartMS c now tsbdMS <= now /\ now - tsbdMS <= winStartMS c now tsbdMS.
Proof. unfold winStartMS. lia. Qed.

Theorem edges_monotone c atoMS tsbdMS now1 now2 :
  0 <= atoMS -> startS c * 1000 <= now1 <= now2 ->
  window_last r c atoMS now1 <= window_last r c atoMS now2 /\
  window_first r c atoMS now1 tsbdMS <= window_first r c atoMS now2 tsbdMS.
Proof.
  intros Ha [H1 H2]. unfold window_last, window_first. split.
  - apply lastFin_mono. split; [apply tick_nonneg; lia|apply tick_mono; lia].
  - apply Z.max_le_compat_l. apply lastFin_mono.
    split; [apply tick_nonneg; unfold winStartMS; lia|apply tick_mono; unfold winStartMS; lia].
Qed.

(** segment [n] is inside the live edge exactly from the instant
    [start + E n / ts - ato] (in ms * ts units) on, for every instant (also before the start) *)
Theorem edge_step c atoMS now n : 0 <= n ->
  (n <= window_last r c atoMS now <-> E r n * 1000 <= (now - startS c * 1000 + atoMS) * ts r).
Proof.
  intros Hn. unfold window_last. rewrite <- (lastFin_ge_iff _ n Hn). unfold tick.
  set (X := (now - startS c * 1000 + atoMS) * ts r). clearbody X. lia.
Qed.

(** hence the edge is [n] exactly between the availability instants of [n] and [n+1] *)
Theorem edge_eq c atoMS now n : 0 <= n ->
  (window_last r c atoMS now = n <->
   E r n * 1000 <= (now - startS c * 1000 + atoMS) * ts r < E r (n + 1) * 1000).
Proof.
  intros Hn. pose proof (edge_step c atoMS now n Hn). pose proof (edge_step c atoMS now (n + 1) ltac:(lia)). lia.
Qed.

(** ... and that instant is the one at which the segment server stops answering "too early" *)
Theorem edge_checkTime c atoMS now tsbd n : 0 <= atoMS -> 0 <= n ->
  (phase (checkTime (E r n + startS c * ts r) (ts r) now tsbd (Some atoMS)) = 0 <->
   window_last r c atoMS now < n).
Proof.
  intros Ha Hn. pose proof Hts as Hts'.
  destruct (checkTime_exact (E r n + startS c * ts r) (ts r) tsbd atoMS now Hts') as (H0 & _ & _).
  rewrite H0. pose proof (edge_step c atoMS now n Hn) as Hst. unfold availNum.
  destruct (atoMS >? 0) eqn:E0.
  - lia.
  - assert (atoMS = 0) by lia. subst atoMS. lia.
Qed.

(** ** (5) every listed segment is served, the next one is too early *)

Lemma checkTime_ok A tsc now tsbd atoMS :
  availNum A tsc (Some atoMS) <= now * tsc ->
  now * tsc - (tsbd + tsbdMarginS) * 1000 * tsc <= availNum A tsc (Some atoMS) ->
  checkTime A tsc now tsbd (Some atoMS) = TvOk.
Proof.
  unfold availNum, checkTime. intros H1 H2.
  set (av := A * 1000 - (if atoMS >? 0 then atoMS * tsc else 0)) in *.
  destruct (av >? now * tsc) eqn:E1; [lia|].
  destruct (av <? now * tsc - (tsbd + tsbdMarginS) * 1000 * tsc) eqn:E2; [lia|reflexivity].
Qed.

(** A segment of the window is inside the availability interval of the server. For the first
    entry this needs the segment after it to be no longer than the margin the server adds to the
    time-shift buffer (see [first_gone_witness] in props/C02.v). *)
Theorem listed_available c atoMS now k :
  startS c * 1000 <= now -> 0 <= tsbdS c -> 0 <= atoMS ->
  let first := window_first r c atoMS now (1000 * tsbdS c) in
  let last := window_last r c atoMS now in
  first <= k <= last ->
  (first < k \/ E r (first + 1) - S r (first + 1) <= tsbdMarginS * ts r) ->
  checkTime (E r k + startS c * ts r) (ts r) now (tsbdS c) (Some atoMS) = TvOk.
Proof.
  intros Hnow Htsbd Ha. cbv zeta. intros Hk Hshort. pose proof Hts as Hts'.
  assert (Hk0 : 0 <= k) by (unfold window_first in Hk; lia).
  pose proof (proj1 (edge_step c atoMS now k Hk0) (proj2 Hk)) as Hup.
  unfold window_first in *.
  destruct (winStartMS_bounds c now (1000 * tsbdS c) Hnow ltac:(lia)) as [[Hw1 Hw2] Hw3].
  set (ws := winStartMS c now (1000 * tsbdS c)) in *. clearbody ws.
  destruct (lastFin_spec (tick r c atoMS ws) ltac:(apply tick_nonneg; lia)) as (L1 & _ & L3).
  set (lf := lastFin r (tick r c atoMS ws)) in *. clearbody lf.
  unfold tick in L3.
  assert (Hmul : (now - 1000 * tsbdS c - startS c * 1000 + atoMS) * ts r
                 <= (ws - startS c * 1000 + atoMS) * ts r)
    by (apply Z.mul_le_mono_nonneg_r; lia).
  set (X := (ws - startS c * 1000 + atoMS) * ts r) in *. clearbody X.
  assert (HX : X < 1000 * E r (lf + 1)) by lia.
  assert (Hlow : X - tsbdMarginS * 1000 * ts r <= E r k * 1000).
  { unfold tsbdMarginS in *.
    destruct (Z.lt_ge_cases (Z.max 0 lf) k) as [Hlt|Hge].
    - pose proof (E_mono (lf + 1) k ltac:(lia)). lia.
    - assert (k = Z.max 0 lf) by lia. destruct (Z.lt_ge_cases lf 0) as [Hneg|Hpos].
      + replace (lf + 1) with k in HX by lia. lia.
      + destruct Hshort as [Hs|Hs]; [lia|]. replace (Z.max 0 lf) with lf in * by lia. subst k.
        rewrite (S_E_contiguous r loopMS W lf Hpos) in Hs. lia. }
  apply checkTime_ok; unfold availNum, tsbdMarginS in *.
  - destruct (atoMS >? 0) eqn:E0; [lia|]. assert (atoMS = 0) by lia. subst atoMS. lia.
  - destruct (atoMS >? 0) eqn:E0; [lia|]. assert (atoMS = 0) by lia. subst atoMS. lia.
Qed.

Theorem listed_served_time c atoMS now k :
  startS c * 1000 <= now -> 0 <= tsbdS c -> ato c = Some atoMS -> 0 <= atoMS ->
  let first := window_first r c atoMS now (1000 * tsbdS c) in
  let last := window_last r c atoMS now in
  first <= k <= last ->
  (first < k \/ E r (first + 1) - S r (first + 1) <= tsbdMarginS * ts r) ->
  S r k < two64 -> 0 <= startNr c -> startNr c + k < two32 ->
  exists m, lookup r loopMS c ByTime (S r k) now = TOk m /\
            newTime m = S r k /\ newDur m = u32 (E r k - S r k) /\ newNr m = startNr c + k.
Proof.
  intros Hnow Htsbd Hato Ha. cbv zeta. intros Hk Hshort Ht Hs Hn.
  assert (Hk0 : 0 <= k) by (unfold window_first in Hk; lia).
  rewrite lookup_time by (pose proof (S_nonneg r loopMS k W Hk0); lia).
  rewrite (segMetaFromTime_spec r loopMS W) by exact Hk0.
  rewrite Hato, (listed_available c atoMS now k Hnow Htsbd Ha Hk Hshort). cbn [timed].
  eexists. split; [reflexivity|]. cbn [newTime newDur newNr]. rewrite sdur_SE.
  repeat split. apply u32_id. lia.
Qed.

Theorem listed_served_number c atoMS now k :
  startS c * 1000 <= now -> 0 <= tsbdS c -> ato c = Some atoMS -> 0 <= atoMS ->
  let first := window_first r c atoMS now (1000 * tsbdS c) in
  let last := window_last r c atoMS now in
  first <= k <= last ->
  (first < k \/ E r (first + 1) - S r (first + 1) <= tsbdMarginS * ts r) ->
  S r k < two64 -> 0 <= startNr c -> startNr c + k < two32 ->
  exists m, lookup r loopMS c ByNumber (startNr c + k) now = TOk m /\
            newTime m = S r k /\ newDur m = u32 (E r k - S r k) /\ newNr m = startNr c + k.
Proof.
  intros Hnow Htsbd Hato Ha. cbv zeta. intros Hk Hshort Ht Hs Hn.
  assert (Hk0 : 0 <= k) by (unfold window_first in Hk; lia).
  rewrite lookup_number by lia.
  rewrite (segMetaFromNr_spec r loopMS W) by exact Hk0.
  rewrite Hato, (listed_available c atoMS now k Hnow Htsbd Ha Hk Hshort). cbn [timed].
  eexists. split; [reflexivity|]. unfold metaOf. cbn [newTime newDur newNr]. rewrite sdur_SE.
  repeat split. apply u64_id. pose proof (S_nonneg r loopMS k W Hk0). lia.
Qed.

Lemma window_last_ge c atoMS now : startS c * 1000 <= now -> 0 <= atoMS -> -1 <= window_last r c atoMS now.
Proof.
  intros H1 H2. unfold window_last. apply (lastFin_spec (tick r c atoMS now)). apply tick_nonneg; lia.
Qed.

Lemma next_checkTime c atoMS now : startS c * 1000 <= now -> 0 <= atoMS ->
  exists ms, checkTime (E r (window_last r c atoMS now + 1) + startS c * ts r) (ts r) now (tsbdS c) (Some atoMS)
             = TvTooEarly ms.
Proof.
  intros H1 H2. pose proof (window_last_ge c atoMS now H1 H2) as Hl.
  pose proof (proj2 (edge_checkTime c atoMS now (tsbdS c) (window_last r c atoMS now + 1) H2 ltac:(lia))
                    ltac:(lia)) as Hp.
  destruct (checkTime _ _ _ _ _) as [|ms|]; cbn [phase] in Hp; try lia. now exists ms.
Qed.

Theorem next_too_early_time c atoMS now :
  startS c * 1000 <= now -> ato c = Some atoMS -> 0 <= atoMS ->
  let last := window_last r c atoMS now in
  S r (last + 1) < two64 ->
  exists ms, lookup r loopMS c ByTime (S r (last + 1)) now = TTooEarly ms.
Proof.
  intros Hnow Hato Ha. cbv zeta. intros Ht.
  pose proof (window_last_ge c atoMS now Hnow Ha) as Hl.
  rewrite lookup_time by (pose proof (S_nonneg r loopMS (window_last r c atoMS now + 1) W ltac:(lia)); lia).
  rewrite (segMetaFromTime_spec r loopMS W) by lia.
  rewrite Hato. destruct (next_checkTime c atoMS now Hnow Ha) as [ms ->]. now exists ms.
Qed.

Theorem next_too_early_number c atoMS now :
  startS c * 1000 <= now -> ato c = Some atoMS -> 0 <= atoMS ->
  let last := window_last r c atoMS now in
  0 <= startNr c -> startNr c + (last + 1) < two32 ->
  exists ms, lookup r loopMS c ByNumber (startNr c + (last + 1)) now = TTooEarly ms.
Proof.
  intros Hnow Hato Ha. cbv zeta. intros Hs Hn.
  pose proof (window_last_ge c atoMS now Hnow Ha) as Hl.
  rewrite lookup_number by lia.
  rewrite (segMetaFromNr_spec r loopMS W) by lia.
  rewrite Hato. destruct (next_checkTime c atoMS now Hnow Ha) as [ms ->]. now exists ms.
Qed.

(** ** (4) + (5) end to end: what the MPD lists is what the server answers *)

Lemma nth_error_map_seqZ {A} (f : Z -> A) n : forall a j x,
  nth_error (map f (seqZ a n)) j = Some x -> (j < n)%nat /\ x = f (a + Z.of_nat j).
Proof.
  induction n as [|n IH]; intros a j x H; destruct j as [|j]; cbn [seqZ map nth_error] in H; try discriminate.
  - injection H as <-. split; [lia|]. f_equal. lia.
  - apply IH in H. destruct H as [H1 ->]. split; [lia|]. f_equal. lia.
Qed.

Theorem mpd_listed_served c atoMS now j t d :
  startS c * 1000 <= now -> 0 <= tsbdS c -> ato c = Some atoMS -> 0 <= atoMS ->
  let se := generateTimelineEntries r (calcWrapTimes loopMS c now (1000 * tsbdS c)) atoMS in
  nth_error (expand (se_entries se)) j = Some (t, d) ->
  ((0 < j)%nat \/ E r (se_startNr se + 1) - S r (se_startNr se + 1) <= tsbdMarginS * ts r) ->
  t < two64 -> 0 <= startNr c -> startNr c + (se_startNr se + Z.of_nat j) < two32 ->
  (exists m, lookup r loopMS c ByTime t now = TOk m /\
             newTime m = t /\ newDur m = u32 d /\ newNr m = startNr c + (se_startNr se + Z.of_nat j)) /\
  (exists m, lookup r loopMS c ByNumber (startNr c + (se_startNr se + Z.of_nat j)) now = TOk m /\
             newTime m = t /\ newDur m = u32 d /\ newNr m = startNr c + (se_startNr se + Z.of_nat j)).
Proof.
  intros Hnow Htsbd Hato Ha. cbv zeta.
  destruct (timeline_is_window c now (1000 * tsbdS c) atoMS Hnow ltac:(lia) Ha) as [Hempty Hwin].
  cbv zeta in Hempty, Hwin.
  set (se := generateTimelineEntries r (calcWrapTimes loopMS c now (1000 * tsbdS c)) atoMS) in *. clearbody se.
  destruct (Z.lt_ge_cases (window_last r c atoMS now) 0) as [Hneg|Hpos].
  - destruct (Hempty Hneg) as (_ & -> & _). destruct j; discriminate.
  - destruct (Hwin Hpos) as (Hfl & Hnr & Hex & _). rewrite Hex, Hnr. unfold window_td.
    intros Hnth Hshort Ht Hs Hn. apply nth_error_map_seqZ in Hnth. destruct Hnth as [Hj Htd].
    unfold td in Htd. injection Htd as -> ->.
    set (first := window_first r c atoMS now (1000 * tsbdS c)) in *.
    assert (Hk : first <= first + Z.of_nat j <= window_last r c atoMS now) by lia.
    assert (Hshort' : first < first + Z.of_nat j \/ E r (first + 1) - S r (first + 1) <= tsbdMarginS * ts r)
      by (destruct Hshort; [left; lia|right; assumption]).
    split.
    + exact (listed_served_time c atoMS now (first + Z.of_nat j) Hnow Htsbd Hato Ha Hk Hshort' Ht Hs Hn).
    + exact (listed_served_number c atoMS now (first + Z.of_nat j) Hnow Htsbd Hato Ha Hk Hshort' Ht Hs Hn).
Qed.

(** the segment after the last listed one (t = t_last + d_last, number = nr_last + 1) is too early *)
Theorem mpd_next_too_early c atoMS now tsbdMS :
  startS c * 1000 <= now -> 0 <= tsbdMS -> ato c = Some atoMS -> 0 <= atoMS ->
  let se := generateTimelineEntries r (calcWrapTimes loopMS c now tsbdMS) atoMS in
  0 <= se_startNr se ->
  se_lsi_start se + se_lsi_dur se < two64 -> 0 <= startNr c -> startNr c + (se_lsi_nr se + 1) < two32 ->
  (exists ms, lookup r loopMS c ByTime (se_lsi_start se + se_lsi_dur se) now = TTooEarly ms) /\
  (exists ms, lookup r loopMS c ByNumber (startNr c + (se_lsi_nr se + 1)) now = TTooEarly ms).
Proof.
  intros Hnow Htsbd Hato Ha. cbv zeta.
  destruct (timeline_is_window c now tsbdMS atoMS Hnow Htsbd Ha) as [Hempty Hwin].
  cbv zeta in Hempty, Hwin.
  set (se := generateTimelineEntries r (calcWrapTimes loopMS c now tsbdMS) atoMS) in *. clearbody se.
  intros Hne. destruct (Z.lt_ge_cases (window_last r c atoMS now) 0) as [Hneg|Hpos].
  - destruct (Hempty Hneg) as (Hm & _). lia.
  - destruct (Hwin Hpos) as (_ & _ & _ & -> & -> & ->).
    replace (S r (window_last r c atoMS now) + (E r (window_last r c atoMS now) - S r (window_last r c atoMS now)))
      with (S r (window_last r c atoMS now + 1))
      by (rewrite (S_E_contiguous r loopMS W _ Hpos); lia).
    intros Ht Hs Hn. split.
    + exact (next_too_early_time c atoMS now Hnow Hato Ha Ht).
    + exact (next_too_early_number c atoMS now Hnow Hato Ha Hs Hn).
Qed.

(** ** The entries are a function of the two edges alone *)

Theorem timeline_eq c now tsbdMS atoMS :
  startS c * 1000 <= now -> 0 <= tsbdMS -> 0 <= atoMS ->
  generateTimelineEntries r (calcWrapTimes loopMS c now tsbdMS) atoMS
  = windowEntries r (window_first r c atoMS now tsbdMS) (window_last r c atoMS now).
Proof.
  intros Hnow Htsbd Ha. pose proof HN as HN'.
  unfold window_last, window_first.
  destruct (calcWrapTimes_spec c now tsbdMS Hnow) as (Hw1 & Hw2 & Hw3 & Hw4).
  set (ws := winStartMS c now tsbdMS) in *.
  assert (Hws : startS c * 1000 <= ws <= now) by (unfold ws, winStartMS; lia).
  pose proof (edge_tick c atoMS ws ltac:(lia) Ha) as Hs.
  pose proof (edge_tick c atoMS now Hnow Ha) as Hn.
  destruct (lastFin_spec (tick r c atoMS ws) ltac:(apply tick_nonneg; lia)) as (Hlfs & _ & _).
  unfold generateTimelineEntries. rewrite Hw1, Hw2, Hw3, Hw4.
  destruct (edgeIdx r ((ws - startS c * 1000) / loopMS) ((ws - startS c * 1000) mod loopMS) atoMS) as [sw0 si0].
  destruct (edgeIdx r ((now - startS c * 1000) / loopMS) ((now - startS c * 1000) mod loopMS) atoMS) as [nw ni].
  destruct Hs as [Hsi Hse]. destruct Hn as [Hni Hne].
  set (lfs := lastFin r (tick r c atoMS ws)) in *. set (lfn := lastFin r (tick r c atoMS now)) in *.
  clearbody lfs lfn.
  assert (Hfirst : exists sw si, (if sw0 <? 0 then (0, 0) else (sw0, si0)) = (sw, si) /\
                                 0 <= si < N /\ sw * N + si = Z.max 0 lfs).
  { destruct (sw0 <? 0) eqn:Esw.
    - exists 0, 0. split; [reflexivity|]. split; [lia|]. nia.
    - exists sw0, si0. split; [reflexivity|]. split; [lia|]. nia. }
  destruct Hfirst as (sw & si & -> & Hsi' & Hfe).
  unfold windowEntries.
  destruct (nw <? 0) eqn:Enw.
  - destruct (lfn <? 0) eqn:El; [reflexivity|nia].
  - destruct (lfn <? 0) eqn:El; [nia|].
    set (first := Z.max 0 lfs) in *.
    replace (nw * N + ni) with lfn by lia. rewrite Hfe.
    assert (Ht : D * sw + st (segAt r si) = S r first).
    { rewrite <- Hfe, S_at by lia. lia. }
    assert (Hd : sdur (segAt r si) = E r first - S r first).
    { rewrite <- Hfe, S_at, E_at by lia. unfold sdur. lia. }
    rewrite Ht, Hd. reflexivity.
Qed.

Corollary mpdContent_eq c now tsbdMS atoMS :
  startS c * 1000 <= now -> 0 <= tsbdMS -> 0 <= atoMS ->
  mpdContent r loopMS c now tsbdMS atoMS
  = (let se := windowEntries r (window_first r c atoMS now tsbdMS) (window_last r c atoMS now) in
     (se_startNr se, se_entries se)).
Proof. intros. unfold mpdContent. now rewrite timeline_eq. Qed.

Corollary mpdPublish_eq c now tsbdMS atoMS :
  startS c * 1000 <= now -> 0 <= tsbdMS -> 0 <= atoMS ->
  mpdPublishMS r loopMS c now tsbdMS atoMS
  = publishMS c (ts r) (windowEntries r (window_first r c atoMS now tsbdMS) (window_last r c atoMS now)) atoMS.
Proof. intros. unfold mpdPublishMS. now rewrite timeline_eq. Qed.

(** (a) two MPDs of one configuration with the same edges have the same content *)
Theorem content_determined c atoMS now1 tsbd1 now2 tsbd2 :
  startS c * 1000 <= now1 -> startS c * 1000 <= now2 -> 0 <= tsbd1 -> 0 <= tsbd2 -> 0 <= atoMS ->
  window_first r c atoMS now1 tsbd1 = window_first r c atoMS now2 tsbd2 ->
  window_last r c atoMS now1 = window_last r c atoMS now2 ->
  mpdContent r loopMS c now1 tsbd1 atoMS = mpdContent r loopMS c now2 tsbd2 atoMS /\
  mpdPublishMS r loopMS c now1 tsbd1 atoMS = mpdPublishMS r loopMS c now2 tsbd2 atoMS.
Proof.
  intros H1 H2 H3 H4 Ha Hf Hl. rewrite !mpdContent_eq, !mpdPublish_eq by assumption.
  rewrite Hf, Hl. split; reflexivity.
Qed.

(** ** Constant segment duration *)

Lemma const_dur_at d i : const_dur r d -> 0 <= i < N -> en (segAt r i) = st (segAt r i) + d.
Proof.
  intros Hc Hi. pose proof (forall_at _ _ Hc i Hi) as H. cbn beta in H. rewrite <- segAt_atL in H.
  unfold sdur in H. lia.
Qed.

Lemma const_st d : const_dur r d -> forall i, 0 <= i < N -> st (segAt r i) = i * d.
Proof.
  intros Hc i [Hi Hlt]. revert Hlt. pattern i. apply natlike_ind; [| |exact Hi].
  - intros _. rewrite (wf_zero _ _ W). lia.
  - intros x Hx IH Hlt. specialize (IH ltac:(lia)).
    replace (Z.succ x) with (x + 1) by lia.
    rewrite <- (seg_contig r loopMS W x Hx ltac:(lia)), (const_dur_at d x Hc ltac:(lia)), IH. lia.
Qed.

Lemma const_d_pos d : const_dur r d -> 0 < d.
Proof.
  intros Hc. pose proof HN. pose proof (seg_pos r loopMS W 0 ltac:(lia)).
  pose proof (const_dur_at d 0 Hc ltac:(lia)). lia.
Qed.

Lemma const_D d : const_dur r d -> D = N * d.
Proof.
  intros Hc. pose proof HN. rewrite (repDuration_en r loopMS W).
  rewrite (const_dur_at d (N - 1) Hc ltac:(lia)), (const_st d Hc (N - 1) ltac:(lia)). lia.
Qed.

Lemma const_SE d n : const_dur r d -> 0 <= n -> S r n = n * d /\ E r n = (n + 1) * d.
Proof.
  intros Hc Hn. pose proof HN as HN'. unfold S, E.
  pose proof (Z.mod_pos_bound n N HN') as Hm. pose proof (Z.div_mod n N ltac:(lia)) as Hdm.
  rewrite (const_dur_at d _ Hc Hm), (const_st d Hc _ Hm), (const_D d Hc).
  set (q := n / N) in *. set (m := n mod N) in *. clearbody q m. subst n. split; ring.
Qed.

(** ** (b) on the millisecond grid, with a time-shift buffer of whole segments, the first edge is
    a function of the last edge *)

Section Grid.
Variables (d dms : Z).
Hypothesis Hc : const_dur r d.
Hypothesis Hg : d * 1000 = dms * ts r.

Lemma dms_pos : 0 < dms.
Proof. pose proof (const_d_pos d Hc). pose proof Hts. nia. Qed.

Lemma E_grid n : 0 <= n -> E r n * 1000 = ((n + 1) * dms) * ts r.
Proof.
  intros Hn. rewrite (proj2 (const_SE d n Hc Hn)).
  replace ((n + 1) * dms * ts r) with ((n + 1) * (dms * ts r)) by ring. rewrite <- Hg. ring.
Qed.

Lemma edge_step_ms c atoMS x n : 0 <= n ->
  (n <= window_last r c atoMS x <-> (n + 1) * dms <= x - startS c * 1000 + atoMS).
Proof.
  intros Hn. rewrite (edge_step c atoMS x n Hn), (E_grid n Hn). pose proof Hts as Hts'.
  set (A := (n + 1) * dms). set (Y := x - startS c * 1000 + atoMS). clearbody A Y. split; intros; nia.
Qed.

Lemma first_iff c atoMS now q m : 0 <= q -> 0 <= m -> startS c * 1000 <= now ->
  (m <= window_last r c atoMS (winStartMS c now (q * dms)) <->
   m + q <= window_last r c atoMS now \/ (m + 1) * dms <= atoMS).
Proof.
  intros Hq Hm Hnow. rewrite (edge_step_ms c atoMS _ m Hm), (edge_step_ms c atoMS now (m + q) ltac:(lia)).
  unfold winStartMS. lia.
Qed.

Theorem first_follows_last c atoMS q now1 now2 :
  0 <= q -> 0 <= atoMS -> startS c * 1000 <= now1 -> startS c * 1000 <= now2 ->
  window_last r c atoMS now1 = window_last r c atoMS now2 ->
  window_first r c atoMS now1 (q * dms) = window_first r c atoMS now2 (q * dms).
Proof.
  intros Hq Ha H1 H2 Hl. unfold window_first.
  change (lastFin r (tick r c atoMS (winStartMS c now1 (q * dms))))
    with (window_last r c atoMS (winStartMS c now1 (q * dms))).
  change (lastFin r (tick r c atoMS (winStartMS c now2 (q * dms))))
    with (window_last r c atoMS (winStartMS c now2 (q * dms))).
  set (a := window_last r c atoMS (winStartMS c now1 (q * dms))).
  set (b := window_last r c atoMS (winStartMS c now2 (q * dms))).
  assert (Hab : forall m, 0 <= m -> (m <= a <-> m <= b)).
  { intros m Hm. unfold a, b. rewrite !first_iff by assumption. rewrite Hl. reflexivity. }
  destruct (Z.lt_ge_cases a 0) as [Ha0|Ha0]; destruct (Z.lt_ge_cases b 0) as [Hb0|Hb0].
  - lia.
  - pose proof (Hab b Hb0). lia.
  - pose proof (Hab a Ha0). lia.
  - pose proof (Hab a Ha0). pose proof (Hab b Hb0). lia.
Qed.

Lemma length_seqZ a n : length (seqZ a n) = n.
Proof. revert a; induction n as [|n IH]; intros a; cbn [seqZ length]; [reflexivity|now rewrite IH]. Qed.

(** publishTime in the grid case, and the position of [now] between two availability instants *)
Lemma publish_pub c atoMS q now :
  0 <= q -> 0 <= atoMS -> startS c * 1000 <= now -> 0 <= window_last r c atoMS now ->
  let l := window_last r c atoMS now in
  mpdPublishMS r loopMS c now (q * dms) atoMS
  = Z.max (startS c * 1000) (startS c * 1000 + (l + 1) * dms - atoMS) /\
  (l + 1) * dms <= now - startS c * 1000 + atoMS < (l + 2) * dms.
Proof.
  intros Hq Ha Hnow Hl. cbv zeta. pose proof dms_pos as Hdms. split.
  - rewrite mpdPublish_eq by (try assumption; nia). unfold windowEntries, publishMS.
    destruct (window_last r c atoMS now <? 0) eqn:El; [lia|].
    set (first := window_first r c atoMS now (q * dms)).
    assert (Hfl : first <= window_last r c atoMS now).
    { destruct (timeline_is_window c now (q * dms) atoMS Hnow ltac:(nia) Ha) as [_ Hw]. cbv zeta in Hw.
      apply (Hw Hl). }
    assert (Hf0 : 0 <= first) by (unfold first, window_first; lia).
    pose proof (tlLoop_spec (Z.to_nat (window_last r c atoMS now - first)) first (E r first - S r first) (S r first)
                  {| e_t := S r first; e_d := E r first - S r first; e_r := 0 |} []
                  (S r first) (E r first - S r first)
                  Hf0 eq_refl eq_refl eq_refl eq_refl ltac:(cbn [e_r]; lia)
                  ltac:(cbn [e_t e_r]; lia)) as [Hsnd _].
    destruct (tlLoop r _ _ _ _ _ _ _ _ _) as [es [[ls ld] ln]]. cbn [fst snd] in Hsnd.
    replace (first + Z.of_nat (Z.to_nat (window_last r c atoMS now - first))) with (window_last r c atoMS now) in Hsnd by lia.
    injection Hsnd as -> -> ->. cbn [se_lsi_nr se_lsi_start se_lsi_dur]. rewrite El. unfold lsiAvailMS.
    replace ((S r (window_last r c atoMS now) + (E r (window_last r c atoMS now) - S r (window_last r c atoMS now))) * 1000)
      with (((window_last r c atoMS now + 1) * dms) * ts r) by (rewrite <- (E_grid _ Hl); ring).
    rewrite round_div_grid by exact Hts.
    set (X := (window_last r c atoMS now + 1) * dms). clearbody X.
    destruct (X - atoMS + startS c * 1000 <? startS c * 1000) eqn:E1; lia.
  - pose proof (edge_step_ms c atoMS now (window_last r c atoMS now) Hl) as Ha1.
    pose proof (edge_step_ms c atoMS now (window_last r c atoMS now + 1) ltac:(lia)) as Ha2.
    replace (window_last r c atoMS now + 1 + 1) with (window_last r c atoMS now + 2) in Ha2 by lia. lia.
Qed.

(** publishTime identifies the content: two MPDs (each with at least one segment) have the same
    publishTime iff they have the same content *)
Theorem publish_identifies_content c atoMS q now1 now2 :
  0 <= q -> 0 <= atoMS -> startS c * 1000 <= now1 -> startS c * 1000 <= now2 ->
  0 <= window_last r c atoMS now1 -> 0 <= window_last r c atoMS now2 ->
  (mpdPublishMS r loopMS c now1 (q * dms) atoMS = mpdPublishMS r loopMS c now2 (q * dms) atoMS <->
   mpdContent r loopMS c now1 (q * dms) atoMS = mpdContent r loopMS c now2 (q * dms) atoMS).
Proof.
  intros Hq Ha H1 H2 Hl1 Hl2. pose proof dms_pos as Hdms.
  assert (Htsbd : 0 <= q * dms) by nia.
  destruct (publish_pub c atoMS q now1 Hq Ha H1 Hl1) as [Hp1 Hb1].
  destruct (publish_pub c atoMS q now2 Hq Ha H2 Hl2) as [Hp2 Hb2].
  split.
  - intros Hpub. rewrite Hp1, Hp2 in Hpub.
    assert (Hl : window_last r c atoMS now1 = window_last r c atoMS now2).
    { set (l1 := window_last r c atoMS now1) in *. set (l2 := window_last r c atoMS now2) in *.
      clearbody l1 l2.
      destruct (Z.lt_trichotomy l1 l2) as [Hlt|[Heq|Hgt]]; [|exact Heq|].
      - assert ((l1 + 2) * dms <= (l2 + 1) * dms) by (apply Z.mul_le_mono_nonneg_r; lia). lia.
      - assert ((l2 + 2) * dms <= (l1 + 1) * dms) by (apply Z.mul_le_mono_nonneg_r; lia). lia. }
    apply content_determined; try assumption.
    apply first_follows_last; assumption.
  - intros Hcont.
    destruct (timeline_is_window c now1 (q * dms) atoMS H1 Htsbd Ha) as [_ Hw1].
    destruct (timeline_is_window c now2 (q * dms) atoMS H2 Htsbd Ha) as [_ Hw2].
    cbv zeta in Hw1, Hw2. destruct (Hw1 Hl1) as (Hf1 & Hs1 & He1 & _). destruct (Hw2 Hl2) as (Hf2 & Hs2 & He2 & _).
    unfold mpdContent in Hcont. injection Hcont as Hcs Hce.
    rewrite Hs1, Hs2 in Hcs. rewrite Hce, He2, Hcs in He1.
    apply (f_equal (@length _)) in He1. unfold window_td in He1. rewrite !map_length, !length_seqZ in He1.
    assert (Hl : window_last r c atoMS now1 = window_last r c atoMS now2) by lia.
    rewrite Hp1, Hp2, Hl. reflexivity.
Qed.

End Grid.

End Win.

(** * A listed first entry that is no longer served

    The table is 4 s, 30 s, 4 s (timescale 90000, loop 38 s); timeShiftBufferDepth 20 s, now = 34.5 s.
    The window starts at 14.5 s; the newest segment that had ended then is segment 0 (ended at
    4 s), so the MPD lists it first. The server keeps a segment for tsbd + 10 s after its end:
    4 + 30 < 34.5, so it answers Gone. The first entry itself is short (4 s); what matters is the
    duration of the segment after it (30 s > the 10 s margin). *)
Definition long_rep : rep :=
  {| segs := [ {| st := 0; en := 360000; snr := 1 |}; {| st := 360000; en := 3060000; snr := 2 |};
               {| st := 3060000; en := 3420000; snr := 3 |} ];
     ts := 90000 |}.
Definition long_cfg : tcfg := {| startS := 0; startNr := 0; tsbdS := 20; ato := Some 0 |}.

Lemma long_rep_wf : wf long_rep 38000.
Proof. constructor; cbn; try lia; try discriminate; repeat constructor; cbn; lia. Qed.

Lemma first_gone_witness :
  exists r loopMS c atoMS now,
    wf r loopMS /\ startS c * 1000 <= now /\ 0 <= tsbdS c /\ ato c = Some atoMS /\ 0 <= atoMS /\
    atoMS * ts r <= 1000 * en (segAt r 0) /\
    let se := generateTimelineEntries r (calcWrapTimes loopMS c now (1000 * tsbdS c)) atoMS in
    let first := window_first r c atoMS now (1000 * tsbdS c) in
    se_startNr se = first /\ first <= window_last r c atoMS now /\
    hd_error (expand (se_entries se)) = Some (S r first, E r first - S r first) /\
    E r first - S r first <= tsbdMarginS * ts r /\
    lookup r loopMS c ByTime (S r first) now = TGone /\
    lookup r loopMS c ByNumber (startNr c + first) now = TGone.
Proof.
  exists long_rep, 38000, long_cfg, 0, 34500. split; [exact long_rep_wf|].
  vm_compute. repeat split; try reflexivity; discriminate.
Qed.

(** * An availabilityTimeOffset longer than the first segment

    4 x 2 s loop, availabilityTimeOffset 2.5 s, now = 7.9 s: the relative time 7.9 + 2.5 s lies
    beyond the end of the table. Segment 4 (the first of the second loop, ends at 10 s) is available
    from 7.5 s on; [edgeIdx] moves a relative time beyond the loop duration on to the next loop, so
    the timeline ends with segment 4 (before repair 11d2203 of /repo it ended with segment 3 until
    the wall clock itself wrapped at 8 s, while the server already answered 200 for segment 4). *)
Definition ato_rep : rep :=
  {| segs := [ {| st := 0; en := 180000; snr := 1 |}; {| st := 180000; en := 360000; snr := 2 |};
               {| st := 360000; en := 540000; snr := 3 |}; {| st := 540000; en := 720000; snr := 4 |} ];
     ts := 90000 |}.
Definition ato_cfg : tcfg := {| startS := 0; startNr := 0; tsbdS := 60; ato := Some 2500 |}.

Lemma ato_rep_wf : wf ato_rep 8000.
Proof. constructor; cbn; try lia; try discriminate; repeat constructor; cbn; lia. Qed.

Lemma big_ato_example :
  wf ato_rep 8000 /\ 1000 * en (segAt ato_rep 0) < 2500 * ts ato_rep /\
  generateTimelineEntries ato_rep (calcWrapTimes 8000 ato_cfg 7900 60000) 2500
  = {| se_startNr := 0; se_entries := [{| e_t := 0; e_d := 180000; e_r := 4 |}];
       se_lsi_nr := 4; se_lsi_start := 720000; se_lsi_dur := 180000 |} /\
  window_last ato_rep ato_cfg 2500 7900 = 4 /\
  lookup ato_rep 8000 ato_cfg ByTime 720000 7900
  = TOk {| origTime := 0; newTime := 720000; origNr := 1; newNr := 4;
           origDur := 180000; newDur := 180000; mtimescale := 90000 |} /\
  lookup ato_rep 8000 ato_cfg ByTime 900000 7900 = TTooEarly 1600 /\
  lookup ato_rep 8000 ato_cfg ByNumber 5 7900 = TTooEarly 1600.
Proof.
  split; [exact ato_rep_wf|]. vm_compute. repeat split; reflexivity.
Qed.

(** * publishTime of the SegmentTimeline MPD (Publish.v) = availability instant of the live edge *)


(** On the millisecond grid ([E last * 1000 = Ems * ts]) the publishTime is the instant
    start + Ems - ato at which the newest listed segment became available (never before the start
    of the stream), and it is not later than [now]; with an empty timeline it is the start. *)
Theorem publish_is_edge_availability r loopMS c now tsbdMS atoMS Ems :
  wf r loopMS -> startS c * 1000 <= now -> 0 <= tsbdMS -> 0 <= atoMS ->
  let last := window_last r c atoMS now in
  (0 <= last -> E r last * 1000 = Ems * ts r) ->
  mpdPublishMS r loopMS c now tsbdMS atoMS
  = (if last <? 0 then startS c * 1000 else Z.max (startS c * 1000) (startS c * 1000 + Ems - atoMS)) /\
  mpdPublishMS r loopMS c now tsbdMS atoMS <= now.
Proof.
  intros W Hnow Htsbd Ha. cbv zeta. intros Hgrid. pose proof (wf_ts _ _ W) as Hts.
  destruct (timeline_is_window r loopMS W c now tsbdMS atoMS Hnow Htsbd Ha) as [Hempty Hwin].
  cbv zeta in Hempty, Hwin. unfold mpdPublishMS, publishMS.
  set (se := generateTimelineEntries r (calcWrapTimes loopMS c now tsbdMS) atoMS) in *. clearbody se.
  destruct (window_last r c atoMS now <? 0) eqn:El.
  - destruct (Hempty ltac:(lia)) as (_ & _ & ->). cbn. lia.
  - assert (Hpos : 0 <= window_last r c atoMS now) by lia.
    destruct (Hwin Hpos) as (_ & _ & _ & -> & -> & ->). rewrite El. unfold lsiAvailMS.
    replace ((S r (window_last r c atoMS now) + (E r (window_last r c atoMS now) - S r (window_last r c atoMS now))) * 1000)
      with (Ems * ts r) by (rewrite <- (Hgrid Hpos); ring).
    rewrite round_div_grid by exact Hts.
    pose proof (proj1 (edge_step r loopMS W c atoMS now _ Hpos) ltac:(lia)) as Hst.
    rewrite (Hgrid Hpos) in Hst.
    assert (Ems <= now - startS c * 1000 + atoMS) by nia.
    destruct (Ems - atoMS + startS c * 1000 <? startS c * 1000) eqn:E1; lia.
Qed.

(** ... and it never decreases as [now] increases. *)
Theorem publish_monotone r loopMS c tsbdMS atoMS now1 now2 :
  wf r loopMS -> startS c * 1000 <= now1 <= now2 -> 0 <= tsbdMS -> 0 <= atoMS ->
  (forall n, 0 <= n -> (ts r | E r n * 1000)) ->
  mpdPublishMS r loopMS c now1 tsbdMS atoMS <= mpdPublishMS r loopMS c now2 tsbdMS atoMS.
Proof.
  intros W [H1 H2] Htsbd Ha Hgrid. pose proof (wf_ts _ _ W) as Hts.
  destruct (edges_monotone r loopMS W c atoMS tsbdMS now1 now2 Ha (conj H1 H2)) as [Hl _].
  assert (Hg : forall now, exists Ems, 0 <= window_last r c atoMS now -> E r (window_last r c atoMS now) * 1000 = Ems * ts r).
  { intros now. destruct (Z.lt_ge_cases (window_last r c atoMS now) 0) as [Hn|Hp].
    - exists 0. lia.
    - destruct (Hgrid _ Hp) as [z Hz]. exists z. intros _. exact Hz. }
  destruct (Hg now1) as [e1 He1]. destruct (Hg now2) as [e2 He2].
  destruct (publish_is_edge_availability r loopMS c now1 tsbdMS atoMS e1 W H1 Htsbd Ha He1) as [-> _].
  destruct (publish_is_edge_availability r loopMS c now2 tsbdMS atoMS e2 W ltac:(lia) Htsbd Ha He2) as [-> _].
  destruct (window_last r c atoMS now1 <? 0) eqn:E1; destruct (window_last r c atoMS now2 <? 0) eqn:E2; try lia.
  pose proof (E_mono r loopMS W (window_last r c atoMS now1) (window_last r c atoMS now2) ltac:(lia)) as Hm.
  specialize (He1 ltac:(lia)). specialize (He2 ltac:(lia)).
  assert (e1 <= e2) by nia. lia.
Qed.
