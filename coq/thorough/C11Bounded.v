(** C11, thorough tier only (NOT built by make; compiled by the C11 harness with an explicit
    coqc under timeout): exhaustive check of the Myers model for all pairs of lists of length <= 5
    over three letters (132 496 pairs, about a minute). *)
From Verif Require Import GoSem Patch PatchProofs.

Lemma sweep_3_5 : sweep [0;1;2] 5 = true.
Proof. vm_cast_no_check (eq_refl true). Qed.

Theorem myers_valid_bounded_3_5 : forall e f : list Z,
  (length e <= 5)%nat -> (length f <= 5)%nat ->
  Forall (fun a => In a [0;1;2]) e -> Forall (fun a => In a [0;1;2]) f ->
  exists s, myers Z.eqb e f = Ok s /\ valid_script Z.eqb s e f = true.
Proof. exact (sweep_sound [0;1;2] 5 sweep_3_5). Qed.
Print Assumptions myers_valid_bounded_3_5.
