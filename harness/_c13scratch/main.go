package main

import (
	"fmt"

	"github.com/Dash-Industry-Forum/livesim2/pkg/scte35"
)

func main() {
	for _, c := range [][4]uint64{{2000, 4000, 1000, 1}, {180000, 360000, 90000, 2}, {32000, 34000, 1000, 2}, {0, 3000, 1000, 1}, {95443000 + 2000, 95443000 + 4000, 1000, 3}} {
		e, err := scte35.CreateEmsgAhead(c[0], c[1], c[2], int(c[3]))
		if e == nil {
			fmt.Println(c, "nil", err)
			continue
		}
		fmt.Printf("%v pt=%d id=%d dur=%d ts=%d v=%d scheme=%s value=%q\n  % x\n", c, e.PresentationTime, e.ID, e.EventDuration, e.TimeScale, e.Version, e.SchemeIDURI, e.Value, e.MessageData)
	}
}
