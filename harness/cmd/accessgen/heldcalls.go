package main

// Lock re-entrancy tables (used by props/C19.v): for every method of the module whose receiver has a
// mutex field x.<mu> that it locks,
//   lock_acquires : (function, "Type.mu")            the function calls x.mu.Lock() or x.mu.RLock() itself
//   recv_calls    : (caller, callee)                 the caller calls the method callee on its own receiver
//   held_calls    : (holder, "Type.mu", callee)      ... while it holds x.mu (between Lock/RLock and
//                                                    Unlock/RUnlock in source order, block structured; after
//                                                    a deferred unlock until the end of the function)
// Syntactic (go/ast), per package directory, test files and verif hook files excluded. Coq computes which
// held calls reach an acquisition of the same mutex (a re-entrant acquisition).

import (
	"fmt"
	"go/ast"
	"go/parser"
	"go/token"
	"io/fs"
	"os"
	"path/filepath"
	"sort"
	"strings"
)

type hcMeth struct {
	recvType, recvName, name string
	decl                     *ast.FuncDecl
}

func hcLockCall(e ast.Expr, recv string) (mutex, op string, ok bool) {
	call, isCall := e.(*ast.CallExpr)
	if !isCall {
		return
	}
	sel, isSel := call.Fun.(*ast.SelectorExpr)
	if !isSel {
		return
	}
	inner, isSel2 := sel.X.(*ast.SelectorExpr)
	if !isSel2 {
		return
	}
	id, isID := inner.X.(*ast.Ident)
	if !isID || id.Name != recv {
		return
	}
	switch sel.Sel.Name {
	case "Lock", "RLock", "Unlock", "RUnlock":
		return inner.Sel.Name, sel.Sel.Name, true
	}
	return
}

func hcMethodCall(n ast.Node, recv string) (string, bool) {
	call, ok := n.(*ast.CallExpr)
	if !ok {
		return "", false
	}
	sel, ok := call.Fun.(*ast.SelectorExpr)
	if !ok {
		return "", false
	}
	id, ok := sel.X.(*ast.Ident)
	if !ok || id.Name != recv {
		return "", false
	}
	return sel.Sel.Name, true
}

func hcCopy(h map[string]bool) map[string]bool {
	c := map[string]bool{}
	for k, v := range h {
		c[k] = v
	}
	return c
}

func heldCallsCoq(repo string) string {
	acquires := map[[2]string]bool{}
	calls := map[[2]string]bool{}
	held := map[[3]string]bool{}
	dirs := map[string][]string{}
	filepath.WalkDir(repo, func(p string, d fs.DirEntry, err error) error {
		if err != nil {
			return nil
		}
		if d.IsDir() {
			n := d.Name()
			if p != repo && (strings.HasPrefix(n, ".") || n == "testdata" || n == "node_modules") {
				return filepath.SkipDir
			}
			return nil
		}
		b := filepath.Base(p)
		if strings.HasSuffix(b, ".go") && !strings.HasSuffix(b, "_test.go") && !strings.HasPrefix(b, "verif_hooks") {
			dirs[filepath.Dir(p)] = append(dirs[filepath.Dir(p)], p)
		}
		return nil
	})
	for _, files := range dirs {
		fset := token.NewFileSet()
		var meths []*hcMeth
		for _, f := range files {
			src, err := os.ReadFile(f)
			if err != nil {
				continue
			}
			af, err := parser.ParseFile(fset, f, src, 0)
			if err != nil {
				continue
			}
			for _, d := range af.Decls {
				fd, ok := d.(*ast.FuncDecl)
				if !ok || fd.Recv == nil || len(fd.Recv.List) != 1 || len(fd.Recv.List[0].Names) != 1 || fd.Body == nil {
					continue
				}
				t := fd.Recv.List[0].Type
				if st, ok := t.(*ast.StarExpr); ok {
					t = st.X
				}
				tid, ok := t.(*ast.Ident)
				if !ok {
					continue
				}
				meths = append(meths, &hcMeth{tid.Name, fd.Recv.List[0].Names[0].Name, fd.Name.Name, fd})
			}
		}
		for _, m := range meths {
			fn := m.recvType + "." + m.name
			ast.Inspect(m.decl.Body, func(n ast.Node) bool {
				if e, ok := n.(ast.Expr); ok {
					if mu, op, ok := hcLockCall(e, m.recvName); ok && (op == "Lock" || op == "RLock") {
						acquires[[2]string{fn, m.recvType + "." + mu}] = true
					}
				}
				if callee, ok := hcMethodCall(n, m.recvName); ok {
					calls[[2]string{fn, m.recvType + "." + callee}] = true
				}
				return true
			})
			var walk func(stmts []ast.Stmt, h map[string]bool)
			check := func(n ast.Node, h map[string]bool) {
				if len(h) == 0 || n == nil {
					return
				}
				ast.Inspect(n, func(x ast.Node) bool {
					if _, isLit := x.(*ast.FuncLit); isLit {
						return false
					}
					if callee, ok := hcMethodCall(x, m.recvName); ok {
						for mu := range h {
							held[[3]string{fn, m.recvType + "." + mu, m.recvType + "." + callee}] = true
						}
					}
					return true
				})
			}
			walk = func(stmts []ast.Stmt, h map[string]bool) {
				for _, s := range stmts {
					switch st := s.(type) {
					case *ast.ExprStmt:
						if mu, op, ok := hcLockCall(st.X, m.recvName); ok {
							if op == "Lock" || op == "RLock" {
								h[mu] = true
							} else {
								delete(h, mu)
							}
							continue
						}
						check(st, h)
					case *ast.DeferStmt:
						if _, op, ok := hcLockCall(st.Call, m.recvName); ok && (op == "Unlock" || op == "RUnlock") {
							continue
						}
						check(st, h)
					case *ast.BlockStmt:
						walk(st.List, h)
					case *ast.IfStmt:
						check(st.Init, h)
						check(st.Cond, h)
						walk(st.Body.List, hcCopy(h))
						if st.Else != nil {
							walk([]ast.Stmt{st.Else}, hcCopy(h))
						}
					case *ast.ForStmt:
						check(st.Init, h)
						check(st.Cond, h)
						check(st.Post, h)
						walk(st.Body.List, hcCopy(h))
					case *ast.RangeStmt:
						check(st.X, h)
						walk(st.Body.List, hcCopy(h))
					case *ast.SwitchStmt:
						check(st.Init, h)
						check(st.Tag, h)
						for _, cc := range st.Body.List {
							if cl, ok := cc.(*ast.CaseClause); ok {
								walk(cl.Body, hcCopy(h))
							}
						}
					case *ast.TypeSwitchStmt:
						for _, cc := range st.Body.List {
							if cl, ok := cc.(*ast.CaseClause); ok {
								walk(cl.Body, hcCopy(h))
							}
						}
					case *ast.SelectStmt:
						for _, cc := range st.Body.List {
							if cl, ok := cc.(*ast.CommClause); ok {
								walk(cl.Body, hcCopy(h))
							}
						}
					default:
						check(s, h)
					}
				}
			}
			walk(m.decl.Body.List, map[string]bool{})
		}
	}
	var sb strings.Builder
	sb.WriteString("\n(* lock re-entrancy tables, see cmd/accessgen/heldcalls.go *)\n")
	emit2 := func(name string, m map[[2]string]bool) {
		var l []string
		for k := range m {
			l = append(l, fmt.Sprintf("(%s, %s)", coqString(k[0]), coqString(k[1])))
		}
		sort.Strings(l)
		fmt.Fprintf(&sb, "Definition %s : list (string * string) := [%s].\n", name, strings.Join(l, ";\n  "))
	}
	emit2("lock_acquires", acquires)
	emit2("recv_calls", calls)
	var l []string
	for k := range held {
		l = append(l, fmt.Sprintf("(%s, %s, %s)", coqString(k[0]), coqString(k[1]), coqString(k[2])))
	}
	sort.Strings(l)
	fmt.Fprintf(&sb, "Definition held_calls : list (string * string * string) := [%s].\n", strings.Join(l, ";\n  "))
	return sb.String()
}
