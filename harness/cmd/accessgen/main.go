// accessgen: source -> Coq translator for the lock discipline (DESIGN.md 2.2, 4.3).
//
// For the shared structs of the livesim2 server and of the CMAF-ingest receiver it lists every
// static field access found in the module's non-test, untagged source (go/packages + go/ssa):
//
//	(field, function, write?, role, locks held)
//
// as the Coq list literals of coq/gen/Access.v; Conc.v's [race_pairs] decides the lockset
// condition on these tables inside Coq.
//
//	field     "F" for the field itself (the map header / slice header / pointer / scalar),
//	          "F[]" for the contents of a map or slice held in F (MapRead / MapWrite)
//	function  "Type.Method", "Func", closures "Outer$closure" (all closures of one function share
//	          the name: a refactor that moves or renames a closure does not change the table)
//	role      init    reachable only from main / SetupServer / Run / package init
//	          handler reachable from a function with an HTTP-handler signature
//	                  (http.ResponseWriter, *http.Request) or a huma handler (ctx, *In) (*Out, error);
//	                  also the default for functions reachable from no root (conservative)
//	          chan    reachable from the target of a go statement in the ingest receiver
//	          ingest  reachable from the target of a go statement in the livesim2 server
//	locks     "L:mu" / "R:mu": a sync.Mutex / RWMutex field of the same struct value is held
//	          (Lock / RLock earlier on every path, not yet released; a deferred Unlock holds until
//	          return; a callee inherits the locks held at all of its static call sites)
//
// Not seen (trusted base): accesses through reflection other than passing the struct to an `any`
// parameter, accesses by code outside the module, calls through function values (except that a
// closure inherits the role of the function that creates it), objects still under construction
// (base pointer is a local allocation of the same function) are skipped as unshared.
package main

import (
	"crypto/sha256"
	"encoding/hex"
	"flag"
	"fmt"
	"go/token"
	"go/types"
	"io"
	"io/fs"
	"os"
	"path/filepath"
	"sort"
	"strings"

	"golang.org/x/tools/go/packages"
	"golang.org/x/tools/go/ssa"
	"golang.org/x/tools/go/ssa/ssautil"
)

const version = "accessgen-5"

// structs to report, in output order; the package is identified by a path fragment
type target struct {
	pkgFrag string
	name    string
}

var targets = []target{
	{"cmd/livesim2/app", "IPRequestLimiter"},
	{"cmd/livesim2/app", "cmafIngesterMgr"},
	{"cmd/livesim2/app", "cmafIngester"},
	{"cmd/livesim2/app", "assetMgr"},
	{"cmd/livesim2/app", "asset"},
	{"cmd/livesim2/app", "RepData"},
	{"cmd/livesim2/app", "repEncData"},
	{"cmd/livesim2/app", "Server"},
	{"cmd/livesim2/app", "ServerConfig"},
	{"cmd/cmaf-ingest-receiver/app", "ChannelMgr"},
	{"cmd/cmaf-ingest-receiver/app", "channel"},
	{"cmd/cmaf-ingest-receiver/app", "Receiver"},
	{"cmd/cmaf-ingest-receiver/app", "segmentTimelineGenerator"},
}

type globalsTable struct{ pkgFrag, name string }

var globalTables = []globalsTable{
	{"cmd/livesim2/app", "globals_livesim2"},
	{"cmd/cmaf-ingest-receiver/app", "globals_receiver"},
}

type access struct {
	table string
	field string
	fn    string
	write bool
	role  string
	locks string // comma separated, sorted
}

func main() {
	repo := flag.String("repo", "/repo", "root of the livesim2 module")
	nocache := flag.Bool("nocache", false, "do not use the output cache")
	flag.Parse()
	key := sourceHash(*repo)
	cacheDir := ""
	if exe, err := os.Executable(); err == nil {
		cacheDir = filepath.Join(filepath.Dir(filepath.Dir(filepath.Dir(exe))), ".work", "accessgen-cache")
	}
	if cacheDir != "" && !*nocache {
		if data, err := os.ReadFile(filepath.Join(cacheDir, key+".v")); err == nil && len(data) > 0 {
			os.Stdout.Write(data)
			return
		}
	}
	out, err := generate(*repo)
	if err != nil {
		fmt.Fprintln(os.Stderr, "accessgen:", err)
		os.Exit(1)
	}
	out += heldCallsCoq(*repo)
	if cacheDir != "" {
		if os.MkdirAll(cacheDir, 0o755) == nil {
			tmp := filepath.Join(cacheDir, fmt.Sprintf(".%s.%d", key, os.Getpid()))
			if os.WriteFile(tmp, []byte(out), 0o644) == nil {
				os.Rename(tmp, filepath.Join(cacheDir, key+".v"))
			}
		}
	}
	io.WriteString(os.Stdout, out)
}

// sourceHash: all non-test Go files of the module, go.mod, and this program.
func sourceHash(repo string) string {
	h := sha256.New()
	io.WriteString(h, version)
	if exe, err := os.Executable(); err == nil {
		if f, err := os.Open(exe); err == nil {
			io.Copy(h, f)
			f.Close()
		}
	}
	var files []string
	filepath.WalkDir(repo, func(p string, d fs.DirEntry, err error) error {
		if err != nil {
			return nil
		}
		if d.IsDir() {
			n := d.Name()
			if p != repo && (strings.HasPrefix(n, ".") || n == "testdata" || n == "node_modules") {
				return filepath.SkipDir
			}
			return nil
		}
		if (strings.HasSuffix(p, ".go") && !strings.HasSuffix(p, "_test.go")) || filepath.Base(p) == "go.mod" {
			files = append(files, p)
		}
		return nil
	})
	sort.Strings(files)
	for _, f := range files {
		rel, _ := filepath.Rel(repo, f)
		io.WriteString(h, "\x00"+rel+"\x00")
		if data, err := os.ReadFile(f); err == nil {
			h.Write(data)
		}
	}
	return hex.EncodeToString(h.Sum(nil))[:24]
}

// ---------------------------------------------------------------- analysis

type analyzer struct {
	prog    *ssa.Program
	modPath string
	funcs   []*ssa.Function          // all functions with bodies of the module's packages
	tstruct map[*types.Named]string  // target named struct -> table name
	tglob   map[*types.Package]string // package -> globals table
	callers map[*ssa.Function][]callSite
	edges   map[*ssa.Function][]*ssa.Function // reachability edges (static calls, resolved invokes, closure creation)
	goRoots map[*ssa.Function]string
	addrTaken map[*ssa.Function]bool
	named   []*types.Named // all named types of the module (for interface resolution)
	out     []access
	entry   map[*ssa.Function]map[lockKey]bool // locks held at every static call site, keyed by parameter index
	pass    int
	roles   map[*ssa.Function][]string
	missing []string
}

type callSite struct {
	caller *ssa.Function
	instr  ssa.CallInstruction
}

// a lock on the struct value `base`: mode+":"+field
type lockKey struct {
	param int // index of the parameter (incl. receiver / free variables are negative: -1-idx) that is the base
	lock  string
}

func generate(repo string) (string, error) {
	cfg := &packages.Config{
		Mode: packages.NeedName | packages.NeedFiles | packages.NeedCompiledGoFiles | packages.NeedImports | packages.NeedDeps |
			packages.NeedTypes | packages.NeedTypesSizes | packages.NeedSyntax | packages.NeedTypesInfo | packages.NeedModule,
		Dir: repo,
		Env: append(os.Environ(), "GOFLAGS=-mod=mod", "GOPROXY=off", "GOSUMDB=off", "GOTOOLCHAIN=local", "CGO_ENABLED=0"),
	}
	pkgs, err := packages.Load(cfg, "./...")
	if err != nil {
		return "", err
	}
	var errs []string
	packages.Visit(pkgs, nil, func(p *packages.Package) {
		for _, e := range p.Errors {
			if len(errs) < 5 {
				errs = append(errs, e.Error())
			}
		}
	})
	if len(errs) > 0 {
		return "", fmt.Errorf("the module does not type-check: %s", strings.Join(errs, "; "))
	}
	prog, spkgs := ssautil.AllPackages(pkgs, ssa.InstantiateGenerics)
	a := &analyzer{prog: prog, tstruct: map[*types.Named]string{}, tglob: map[*types.Package]string{},
		callers: map[*ssa.Function][]callSite{}, edges: map[*ssa.Function][]*ssa.Function{}, goRoots: map[*ssa.Function]string{},
		addrTaken: map[*ssa.Function]bool{}, entry: map[*ssa.Function]map[lockKey]bool{}, roles: map[*ssa.Function][]string{}}
	var modPkgs []*ssa.Package
	for i, p := range pkgs {
		if spkgs[i] == nil {
			continue
		}
		if p.Module != nil {
			a.modPath = p.Module.Path
		}
		spkgs[i].Build()
		modPkgs = append(modPkgs, spkgs[i])
	}
	// targets
	for _, t := range targets {
		found := false
		for _, sp := range modPkgs {
			if !strings.HasSuffix(sp.Pkg.Path(), t.pkgFrag) {
				continue
			}
			if tn, ok := sp.Pkg.Scope().Lookup(t.name).(*types.TypeName); ok {
				if n, ok := tn.Type().(*types.Named); ok {
					if _, ok := n.Underlying().(*types.Struct); ok {
						a.tstruct[n] = t.name
						found = true
					}
				}
			}
		}
		if !found {
			a.missing = append(a.missing, t.name)
		}
	}
	for _, g := range globalTables {
		for _, sp := range modPkgs {
			if strings.HasSuffix(sp.Pkg.Path(), g.pkgFrag) {
				a.tglob[sp.Pkg] = g.name
			}
		}
	}
	// functions of the module
	for _, sp := range modPkgs {
		for _, m := range sp.Members {
			switch m := m.(type) {
			case *ssa.Function:
				a.addFunc(m)
			case *ssa.Type:
				if n, ok := m.Type().(*types.Named); ok {
					a.named = append(a.named, n)
					for _, T := range []types.Type{n, types.NewPointer(n)} {
						ms := prog.MethodSets.MethodSet(T)
						for i := 0; i < ms.Len(); i++ {
							if f := prog.MethodValue(ms.At(i)); f != nil && f.Pkg == sp && f.Synthetic == "" {
								a.addFunc(f)
							}
						}
					}
				}
			}
		}
	}
	sort.Slice(a.funcs, func(i, j int) bool { return funcKey(a.funcs[i]) < funcKey(a.funcs[j]) })
	a.buildGraph()
	a.computeRoles()
	// entry lock sets to a fixpoint, then the final pass records the accesses
	for it := 0; it < 6; it++ {
		changed := a.lockPass(false)
		if !changed {
			break
		}
	}
	a.lockPass(true)
	return a.render(repo), nil
}

func funcKey(f *ssa.Function) string {
	pos := ""
	if f.Prog != nil && f.Pos().IsValid() {
		p := f.Prog.Fset.Position(f.Pos())
		pos = fmt.Sprintf("%s:%06d", filepath.Base(p.Filename), p.Line)
	}
	return f.String() + "@" + pos
}

func (a *analyzer) addFunc(f *ssa.Function) {
	if f == nil || len(f.Blocks) == 0 {
		return
	}
	for _, g := range a.funcs {
		if g == f {
			return
		}
	}
	a.funcs = append(a.funcs, f)
	for _, an := range f.AnonFuncs {
		a.addFunc(an)
	}
}

func (a *analyzer) inModule(f *ssa.Function) bool {
	for f.Parent() != nil {
		f = f.Parent()
	}
	return f.Pkg != nil && a.modPath != "" && (f.Pkg.Pkg.Path() == a.modPath || strings.HasPrefix(f.Pkg.Pkg.Path(), a.modPath+"/"))
}

// funcName: "Type.Method", "Func", "Outer$closure".
func funcName(f *ssa.Function) string {
	closure := false
	for f.Parent() != nil {
		f = f.Parent()
		closure = true
	}
	n := f.Name()
	if recv := f.Signature.Recv(); recv != nil {
		t := recv.Type()
		if p, ok := t.(*types.Pointer); ok {
			t = p.Elem()
		}
		if nt, ok := t.(*types.Named); ok {
			n = nt.Obj().Name() + "." + f.Name()
		}
	}
	if closure {
		n += "$closure"
	}
	return n
}

func isHandlerSig(f *ssa.Function) bool {
	ps := f.Signature.Params()
	if ps.Len() == 2 {
		if isNamed(ps.At(0).Type(), "net/http", "ResponseWriter") {
			if p, ok := ps.At(1).Type().(*types.Pointer); ok && isNamed(p.Elem(), "net/http", "Request") {
				return true
			}
		}
		// huma operation handler
		if f.Parent() != nil && isNamed(ps.At(0).Type(), "context", "Context") {
			rs := f.Signature.Results()
			if _, ok := ps.At(1).Type().(*types.Pointer); ok && rs.Len() == 2 && isNamed(rs.At(1).Type(), "", "error") {
				if _, ok := rs.At(0).Type().(*types.Pointer); ok {
					return true
				}
			}
		}
	}
	return false
}

func isNamed(t types.Type, pkg, name string) bool {
	n, ok := t.(*types.Named)
	if !ok {
		return false
	}
	if n.Obj().Name() != name {
		return false
	}
	if n.Obj().Pkg() == nil {
		return pkg == ""
	}
	return n.Obj().Pkg().Path() == pkg
}

func (a *analyzer) buildGraph() {
	for _, f := range a.funcs {
		for _, b := range f.Blocks {
			for _, in := range b.Instrs {
				switch in := in.(type) {
				case *ssa.MakeClosure:
					if fn, ok := in.Fn.(*ssa.Function); ok {
						a.edges[f] = append(a.edges[f], fn) // a closure inherits its creator's role unless it is a root
						a.addrTaken[fn] = true
					}
				}
				if ci, ok := in.(ssa.CallInstruction); ok {
					com := ci.Common()
					var callees []*ssa.Function
					if sc := com.StaticCallee(); sc != nil {
						callees = append(callees, sc)
						a.callers[sc] = append(a.callers[sc], callSite{f, ci})
					} else if com.IsInvoke() {
						callees = a.resolveInvoke(com)
					}
					if g, ok := in.(*ssa.Go); ok {
						role := "ingest"
						if strings.Contains(f.Package().Pkg.Path(), "cmaf-ingest-receiver") {
							role = "chan"
						}
						for _, c := range callees {
							a.goRoots[c] = role
						}
						if mc, ok := g.Call.Value.(*ssa.MakeClosure); ok {
							if fn, ok := mc.Fn.(*ssa.Function); ok {
								a.goRoots[fn] = role
							}
						}
						continue // a goroutine does not run in its creator's role
					}
					a.edges[f] = append(a.edges[f], callees...)
				}
				// function values taken
				for _, op := range in.Operands(nil) {
					if op == nil || *op == nil {
						continue
					}
					if fn, ok := (*op).(*ssa.Function); ok {
						if ci, isCall := in.(ssa.CallInstruction); !isCall || ci.Common().Value != fn {
							a.addrTaken[fn] = true
						}
					}
				}
			}
		}
	}
}

func (a *analyzer) resolveInvoke(com *ssa.CallCommon) []*ssa.Function {
	iface, ok := com.Value.Type().Underlying().(*types.Interface)
	if !ok {
		return nil
	}
	var out []*ssa.Function
	for _, n := range a.named {
		if _, isIface := n.Underlying().(*types.Interface); isIface {
			continue
		}
		for _, T := range []types.Type{n, types.NewPointer(n)} {
			if types.Implements(T, iface) {
				sel := a.prog.MethodSets.MethodSet(T).Lookup(com.Method.Pkg(), com.Method.Name())
				if sel != nil {
					if f := a.prog.MethodValue(sel); f != nil {
						out = append(out, f)
					}
				}
				break
			}
		}
	}
	return out
}

func (a *analyzer) computeRoles() {
	reach := func(roots []*ssa.Function, stop func(*ssa.Function) bool) map[*ssa.Function]bool {
		seen := map[*ssa.Function]bool{}
		var todo []*ssa.Function
		for _, r := range roots {
			if !seen[r] {
				seen[r] = true
				todo = append(todo, r)
			}
		}
		for len(todo) > 0 {
			f := todo[len(todo)-1]
			todo = todo[:len(todo)-1]
			for _, g := range a.edges[f] {
				if !seen[g] && !stop(g) {
					seen[g] = true
					todo = append(todo, g)
				}
			}
		}
		return seen
	}
	var hRoots, iRoots, cRoots, gRoots []*ssa.Function
	isRoot := map[*ssa.Function]bool{}
	for _, f := range a.funcs {
		switch {
		case a.goRoots[f] == "chan":
			cRoots = append(cRoots, f)
			isRoot[f] = true
		case a.goRoots[f] == "ingest":
			gRoots = append(gRoots, f)
			isRoot[f] = true
		case isHandlerSig(f):
			hRoots = append(hRoots, f)
			isRoot[f] = true
		}
	}
	for _, f := range a.funcs {
		if f.Parent() == nil && f.Signature.Recv() == nil {
			switch f.Name() {
			case "main", "init", "SetupServer", "Run":
				iRoots = append(iRoots, f)
			}
		}
	}
	// a root of another role is not entered from a different role through closure creation
	stopOther := func(g *ssa.Function) bool { return false }
	_ = stopOther
	sets := map[string]map[*ssa.Function]bool{
		"handler": reach(hRoots, func(g *ssa.Function) bool { return isRoot[g] && !isHandlerSig(g) }),
		"chan":    reach(cRoots, func(g *ssa.Function) bool { return isRoot[g] && a.goRoots[g] != "chan" }),
		"ingest":  reach(gRoots, func(g *ssa.Function) bool { return isRoot[g] && a.goRoots[g] != "ingest" }),
		"init":    reach(iRoots, func(g *ssa.Function) bool { return isRoot[g] }),
	}
	for _, f := range a.funcs {
		var rs []string
		for _, r := range []string{"handler", "chan", "ingest"} {
			if sets[r][f] {
				rs = append(rs, r)
			}
		}
		if len(rs) == 0 {
			if sets["init"][f] {
				rs = []string{"init"}
			} else {
				rs = []string{"handler"} // reachable from no root: assume the worst
			}
		}
		a.roles[f] = rs
	}
}

// ---------------------------------------------------------------- locks and accesses

type heldLock struct {
	base ssa.Value
	lock string // "L:mu" | "R:mu"
}

type lockSet map[heldLock]bool

func (s lockSet) clone() lockSet {
	c := lockSet{}
	for k := range s {
		c[k] = true
	}
	return c
}

func intersect(a, b lockSet) lockSet {
	c := lockSet{}
	for k := range a {
		if b[k] {
			c[k] = true
		}
	}
	return c
}

// paramIndex: position of v among the function's parameters (>= 0) or free variables (-1-i); ok=false otherwise.
func paramIndex(f *ssa.Function, v ssa.Value) (int, bool) {
	for i, p := range f.Params {
		if p == v {
			return i, true
		}
	}
	for i, fv := range f.FreeVars {
		if fv == v {
			return -1 - i, true
		}
	}
	return 0, false
}

// mutexOp recognises calls of sync.(*Mutex|*RWMutex).{Lock,Unlock,RLock,RUnlock} on a field of a struct value.
func mutexOp(com *ssa.CallCommon) (base ssa.Value, field string, op string, ok bool) {
	sc := com.StaticCallee()
	if sc == nil || sc.Pkg == nil || sc.Pkg.Pkg.Path() != "sync" || len(com.Args) == 0 {
		return nil, "", "", false
	}
	switch sc.Name() {
	case "Lock", "Unlock", "RLock", "RUnlock":
	default:
		return nil, "", "", false
	}
	fa, isFA := com.Args[0].(*ssa.FieldAddr)
	if !isFA {
		return nil, "", "", false
	}
	st := fa.X.Type().Underlying().(*types.Pointer).Elem().Underlying().(*types.Struct)
	return fa.X, st.Field(fa.Field).Name(), sc.Name(), true
}

func applyMutex(s lockSet, base ssa.Value, field, op string) {
	switch op {
	case "Lock":
		s[heldLock{base, "L:" + field}] = true
	case "RLock":
		s[heldLock{base, "R:" + field}] = true
	case "Unlock":
		delete(s, heldLock{base, "L:" + field})
	case "RUnlock":
		delete(s, heldLock{base, "R:" + field})
	}
}

// lockPass runs the per-function lock analysis; with record=false it only recomputes the entry
// lock sets (returns whether they changed), with record=true it emits the accesses.
func (a *analyzer) lockPass(record bool) bool {
	newEntry := map[*ssa.Function]map[lockKey]bool{}
	seenSite := map[*ssa.Function]bool{}
	for _, f := range a.funcs {
		entry := lockSet{}
		for k := range a.entry[f] {
			var base ssa.Value
			if k.param >= 0 && k.param < len(f.Params) {
				base = f.Params[k.param]
			} else if k.param < 0 && -1-k.param < len(f.FreeVars) {
				base = f.FreeVars[-1-k.param]
			}
			if base != nil {
				entry[heldLock{base, k.lock}] = true
			}
		}
		in := map[*ssa.BasicBlock]lockSet{}
		outS := map[*ssa.BasicBlock]lockSet{}
		// forward must-analysis to a fixpoint (blocks in order; few iterations suffice)
		for iter := 0; iter < 8; iter++ {
			changed := false
			for _, b := range f.Blocks {
				var cur lockSet
				if b == f.Blocks[0] {
					cur = entry.clone()
				} else {
					first := true
					for _, p := range b.Preds {
						po, ok := outS[p]
						if !ok {
							continue // not yet computed: optimistic
						}
						if first {
							cur = po.clone()
							first = false
						} else {
							cur = intersect(cur, po)
						}
					}
					if cur == nil {
						cur = lockSet{}
					}
				}
				in[b] = cur.clone()
				for _, ins := range b.Instrs {
					if c, ok := ins.(*ssa.Call); ok {
						if base, fld, op, ok := mutexOp(c.Common()); ok {
							applyMutex(cur, base, fld, op)
						}
					}
				}
				if old, ok := outS[b]; !ok || len(old) != len(cur) {
					changed = true
				} else {
					for k := range cur {
						if !old[k] {
							changed = true
						}
					}
				}
				outS[b] = cur
			}
			if !changed {
				break
			}
		}
		// second walk: call sites and accesses with the lock set at the instruction
		for _, b := range f.Blocks {
			cur := in[b].clone()
			for _, ins := range b.Instrs {
				if c, ok := ins.(*ssa.Call); ok {
					if base, fld, op, ok := mutexOp(c.Common()); ok {
						applyMutex(cur, base, fld, op)
						continue
					}
				}
				if ci, ok := ins.(ssa.CallInstruction); ok {
					_, isGo := ins.(*ssa.Go)
					_, isDefer := ins.(*ssa.Defer)
					callee := ci.Common().StaticCallee()
					if mc, ok := ci.Common().Value.(*ssa.MakeClosure); ok && callee == nil {
						if fn, ok := mc.Fn.(*ssa.Function); ok {
							callee = fn
						}
					}
					if callee != nil && a.inModule(callee) && len(callee.Blocks) > 0 {
						held := map[lockKey]bool{}
						if !isGo && !isDefer {
							args := ci.Common().Args
							for h := range cur {
								for i, arg := range args {
									if arg == h.base && i < len(callee.Params) {
										held[lockKey{i, h.lock}] = true
									}
								}
								if mc, ok := ci.Common().Value.(*ssa.MakeClosure); ok {
									for i, bnd := range mc.Bindings {
										if bnd == h.base {
											held[lockKey{-1 - i, h.lock}] = true
										}
									}
								}
							}
						}
						if !seenSite[callee] {
							seenSite[callee] = true
							newEntry[callee] = held
						} else {
							for k := range newEntry[callee] {
								if !held[k] {
									delete(newEntry[callee], k)
								}
							}
						}
					}
				}
				if record {
					a.recordAccesses(f, ins, cur)
				}
			}
		}
	}
	// functions whose address is taken (other than closures called in place) may be entered anywhere
	for f := range newEntry {
		if a.addrTaken[f] && f.Parent() == nil {
			newEntry[f] = map[lockKey]bool{}
		}
		if isHandlerSig(f) || a.goRoots[f] != "" {
			newEntry[f] = map[lockKey]bool{}
		}
	}
	changed := false
	for _, f := range a.funcs {
		o, n := a.entry[f], newEntry[f]
		if len(o) != len(n) {
			changed = true
		}
		for k := range n {
			if !o[k] {
				changed = true
			}
		}
	}
	a.entry = newEntry
	return changed
}

type fieldRef struct {
	base     ssa.Value
	table    string
	field    string
	contents bool
	skip     bool // sync / atomic typed field
}

func derefNamed(t types.Type) *types.Named {
	if p, ok := t.Underlying().(*types.Pointer); ok {
		t = p.Elem()
	}
	n, _ := t.(*types.Named)
	return n
}

func isSyncType(t types.Type) bool {
	if n, ok := t.(*types.Named); ok && n.Obj().Pkg() != nil {
		p := n.Obj().Pkg().Path()
		return p == "sync" || p == "sync/atomic"
	}
	return false
}

// addrRef: the target field an address expression points into.
func (a *analyzer) addrRef(v ssa.Value) (fieldRef, bool) { return a.addrRefD(v, 0) }
func (a *analyzer) valueRef(v ssa.Value) (fieldRef, bool) { return a.valueRefD(v, 0) }

func (a *analyzer) addrRefD(v ssa.Value, d int) (fieldRef, bool) {
	if d > 12 {
		return fieldRef{}, false
	}
	switch v := v.(type) {
	case *ssa.FieldAddr:
		if n := derefNamed(v.X.Type()); n != nil {
			if tbl, ok := a.tstruct[n]; ok {
				st := n.Underlying().(*types.Struct)
				fld := st.Field(v.Field)
				return fieldRef{base: v.X, table: tbl, field: fld.Name(), skip: isSyncType(fld.Type())}, true
			}
		}
		// a field of a struct value nested in a target field
		if r, ok := a.addrRefD(v.X, d+1); ok {
			return r, true
		}
	case *ssa.IndexAddr:
		// element of an array nested in a field, or of a slice/array loaded from a field
		if r, ok := a.addrRefD(v.X, d+1); ok {
			return r, true
		}
		if r, ok := a.valueRefD(v.X, d+1); ok {
			r.contents = true
			return r, true
		}
	case *ssa.Global:
		if v.Pkg != nil {
			if tbl, ok := a.tglob[v.Pkg.Pkg]; ok {
				t := v.Type().Underlying().(*types.Pointer).Elem()
				return fieldRef{base: v, table: tbl, field: v.Name(), skip: isSyncType(t)}, true
			}
		}
	}
	return fieldRef{}, false
}

// valueRef: v is the value loaded from a target field (map, slice, pointer ...).
func (a *analyzer) valueRefD(v ssa.Value, d int) (fieldRef, bool) {
	if d > 12 {
		return fieldRef{}, false
	}
	switch v := v.(type) {
	case *ssa.UnOp:
		if v.Op == token.MUL {
			return a.addrRefD(v.X, d+1)
		}
	case *ssa.Slice:
		return a.valueRefD(v.X, d+1)
	case *ssa.ChangeType:
		return a.valueRefD(v.X, d+1)
	case *ssa.Phi:
		for _, e := range v.Edges {
			if r, ok := a.valueRefD(e, d+1); ok {
				return r, true
			}
		}
	}
	return fieldRef{}, false
}

func isFresh(v ssa.Value) bool {
	switch v := v.(type) {
	case *ssa.Alloc:
		return true
	case *ssa.FieldAddr:
		return isFresh(v.X)
	case *ssa.IndexAddr:
		return isFresh(v.X)
	}
	return false
}

func (a *analyzer) emit(f *ssa.Function, r fieldRef, write bool, cur lockSet) {
	if r.skip || isFresh(r.base) {
		return
	}
	if _, isGlobal := r.base.(*ssa.Global); isGlobal && f.Name() == "init" && f.Parent() == nil {
		return // package initialisation
	}
	field := r.field
	if r.contents {
		field += "[]"
	}
	var locks []string
	for h := range cur {
		if h.base == r.base {
			locks = append(locks, h.lock)
		}
	}
	sort.Strings(locks)
	for _, role := range a.roles[f] {
		a.out = append(a.out, access{table: r.table, field: field, fn: funcName(f), write: write, role: role, locks: strings.Join(locks, ",")})
	}
}

func (a *analyzer) wholeStruct(f *ssa.Function, base ssa.Value, n *types.Named, write bool, cur lockSet) {
	tbl, ok := a.tstruct[n]
	if !ok {
		return
	}
	st := n.Underlying().(*types.Struct)
	for i := 0; i < st.NumFields(); i++ {
		fld := st.Field(i)
		a.emit(f, fieldRef{base: base, table: tbl, field: fld.Name(), skip: isSyncType(fld.Type())}, write, cur)
	}
}

func (a *analyzer) recordAccesses(f *ssa.Function, ins ssa.Instruction, cur lockSet) {
	switch in := ins.(type) {
	case *ssa.Store:
		if r, ok := a.addrRef(in.Addr); ok {
			a.emit(f, r, true, cur)
		} else if n := derefNamed(in.Addr.Type()); n != nil {
			if _, isPtr := in.Addr.Type().Underlying().(*types.Pointer); isPtr {
				a.wholeStruct(f, in.Addr, n, true, cur) // *p = T{...}
			}
		}
	case *ssa.UnOp:
		if in.Op == token.MUL {
			if r, ok := a.addrRef(in.X); ok {
				a.emit(f, r, false, cur)
			} else if n := derefNamed(in.X.Type()); n != nil {
				if _, isStruct := in.Type().Underlying().(*types.Struct); isStruct {
					a.wholeStruct(f, in.X, n, false, cur) // copy of the whole struct
				}
			}
		}
	case *ssa.MapUpdate:
		if r, ok := a.valueRef(in.Map); ok {
			r.contents = true
			a.emit(f, r, true, cur)
		}
	case *ssa.Lookup:
		if r, ok := a.valueRef(in.X); ok {
			r.contents = true
			a.emit(f, r, false, cur)
		}
	case *ssa.Range:
		if r, ok := a.valueRef(in.X); ok {
			r.contents = true
			a.emit(f, r, false, cur)
		}
	case *ssa.Index:
		if r, ok := a.valueRef(in.X); ok {
			r.contents = true
			a.emit(f, r, false, cur)
		}
	case *ssa.MakeInterface:
		if n := derefNamed(in.X.Type()); n != nil {
			if iface, ok := in.Type().Underlying().(*types.Interface); ok && iface.NumMethods() == 0 {
				if _, isPtr := in.X.Type().Underlying().(*types.Pointer); isPtr {
					a.wholeStruct(f, in.X, n, false, cur) // handed to reflection (json, fmt, slog)
				}
			}
		}
	}
	if ci, ok := ins.(ssa.CallInstruction); ok {
		com := ci.Common()
		if b, ok := com.Value.(*ssa.Builtin); ok {
			for i, arg := range com.Args {
				r, ok := a.valueRef(arg)
				if !ok {
					continue
				}
				r.contents = true
				switch b.Name() {
				case "delete":
					if i == 0 {
						a.emit(f, r, true, cur)
					}
				case "copy":
					a.emit(f, r, i == 0, cur)
				case "append":
					a.emit(f, r, false, cur) // may also write into spare capacity: the result is stored back by a Store
				case "clear":
					a.emit(f, r, true, cur)
				default: // len, cap
				}
			}
		} else if !com.IsInvoke() {
			// a map or slice taken from a field and handed to another function is read there
			for _, arg := range com.Args {
				switch arg.Type().Underlying().(type) {
				case *types.Map, *types.Slice:
					if r, ok := a.valueRef(arg); ok {
						r.contents = true
						a.emit(f, r, false, cur)
					}
				}
			}
		}
	}
}

// ---------------------------------------------------------------- output

func coqString(s string) string { return "\"" + strings.ReplaceAll(s, "\"", "\"\"") + "\"" }

func roleCoq(r string) string {
	switch r {
	case "init":
		return "RInit"
	case "chan":
		return "RChan"
	case "ingest":
		return "RIngest"
	}
	return "RHandler"
}

func (a *analyzer) render(repo string) string {
	uniq := map[access]bool{}
	per := map[string][]access{}
	for _, x := range a.out {
		if !uniq[x] {
			uniq[x] = true
			per[x.table] = append(per[x.table], x)
		}
	}
	var sb strings.Builder
	sb.WriteString("(* Generated by harness/cmd/accessgen (" + version + ") from the Go sources of the checked tree: do not edit.\n")
	sb.WriteString("   One row per static field access: field, function, write?, role, locks held (see the header of accessgen/main.go). *)\n")
	sb.WriteString("From Verif Require Import GoSem Conc.\n\n")
	var names []string
	for _, t := range targets {
		names = append(names, t.name)
	}
	for _, g := range globalTables {
		names = append(names, g.name)
	}
	for _, name := range names {
		rows := per[name]
		sort.Slice(rows, func(i, j int) bool {
			x, y := rows[i], rows[j]
			if x.field != y.field {
				return x.field < y.field
			}
			if x.fn != y.fn {
				return x.fn < y.fn
			}
			if x.write != y.write {
				return !x.write
			}
			if x.role != y.role {
				return x.role < y.role
			}
			return x.locks < y.locks
		})
		fmt.Fprintf(&sb, "Definition %s : list access := [", name)
		for i, x := range rows {
			if i > 0 {
				sb.WriteString(";")
			}
			var ls []string
			if x.locks != "" {
				for _, l := range strings.Split(x.locks, ",") {
					ls = append(ls, coqString(l))
				}
			}
			w := "false"
			if x.write {
				w = "true"
			}
			fmt.Fprintf(&sb, "\n  mkAccess %s %s %s %s [%s]", coqString(x.field), coqString(x.fn), w, roleCoq(x.role), strings.Join(ls, "; "))
		}
		sb.WriteString("].\n\n")
	}
	sb.WriteString("Definition all_tables : list (string * list access) := [")
	for i, n := range names {
		if i > 0 {
			sb.WriteString("; ")
		}
		fmt.Fprintf(&sb, "(%s, %s)", coqString(n), n)
	}
	sb.WriteString("].\n\n")
	var ms []string
	for _, m := range a.missing {
		ms = append(ms, coqString(m))
	}
	sb.WriteString("(* structs named in DESIGN.md 2.2 that no longer exist under that name *)\n")
	fmt.Fprintf(&sb, "Definition missing : list string := [%s].\n", strings.Join(ms, "; "))
	return sb.String()
}
