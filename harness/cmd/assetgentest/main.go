// assetgentest: self-test of harness/lib/assetgen.go (development aid and regression test, not a property check).
//
// It writes the catalogue lib.GenCatalogue() into /verif/.scratch/<pid>/vod (removed at exit), starts an in-process
// livesim2 over it and checks that
//   - every layout is listed/served exactly when the admission rule of asset.go says so,
//   - for video/stpp/thumbnail representations, segment n (over more than two loops up to the live edge) has
//     status 200, tfdt = floor(n/N)*loop + start(n mod N), mfhd sequence number n, and the payload of VoD
//     segment n mod N; the same segment is returned for SegmentTimeline/$Time$ addressing,
//   - audio segments start/end on the frame grid following the reference and carry the looped source frames.
//
// FAIL lines are errors of the generator (exit 1). NOTE lines describe behaviour of livesim2 itself on the
// generated input that deviates from the expectation (possible defects, reported to the property owners).
//
//	assetgentest [-keep] [-v] [-only name] [-seed s] [-rand n]
package main

import (
	"bytes"
	"flag"
	"fmt"
	"math/rand"
	"os"
	"path/filepath"
	"sort"
	"strings"

	"verifharness/lib"

	"github.com/Dash-Industry-Forum/livesim2/cmd/livesim2/app"
)

const nowMS = 600_000

type tester struct {
	ls      *lib.Livesim
	root    string
	fails   int
	notes   map[string]int
	noteEx  map[string]string
	checks  int
	verbose bool
}

func (t *tester) fail(f string, a ...any) {
	t.fails++
	fmt.Printf("FAIL  "+f+"\n", a...)
}

// note records a deviation of livesim2 (not of the generator); one example per key is printed at the end.
func (t *tester) note(key, f string, a ...any) {
	t.notes[key]++
	if _, ok := t.noteEx[key]; !ok {
		t.noteEx[key] = fmt.Sprintf(f, a...)
	}
	if t.verbose {
		fmt.Printf("note  [%s] "+f+"\n", append([]any{key}, a...)...)
	}
}

func (t *tester) get(url string) lib.Resp {
	sep := "?"
	if strings.Contains(url, "?") {
		sep = "&"
	}
	return t.ls.GetRaw(fmt.Sprintf("%s%snowMS=%d", url, sep, nowMS))
}

// liveRange returns the segment indices n of representation ri whose end lies in (now-50 s, now], at most the
// last 2N+3 of them, and the first index after the live edge.
func liveRange(a lib.GenAsset, ri int) (ns []int, next int) {
	r := a.Reps[ri]
	for n := 0; ; n++ {
		tfdt, k, _ := a.LiveSeg(ri, n)
		endMS := (tfdt + r.SegDurs[k]) * 1000 / uint64(r.Timescale)
		if (tfdt+r.SegDurs[k])*1000%uint64(r.Timescale) != 0 {
			endMS++
		}
		if endMS > nowMS {
			next = n
			break
		}
		if endMS+50_000 > nowMS {
			ns = append(ns, n)
		}
	}
	if max := 2*r.N() + 3; len(ns) > max {
		ns = ns[len(ns)-max:]
	}
	return ns, next
}

func (t *tester) checkPlainRep(a lib.GenAsset, ri int, class string) {
	r := a.Reps[ri]
	ns, next := liveRange(a, ri)
	if len(ns) == 0 {
		t.fail("%s/%s: no segment in the window", a.Name, r.ID)
		return
	}
	ext := ".m4s"
	if r.Kind == "thumbs" {
		ext = ".jpg"
	}
	var prevEnd uint64
	havePrev := false
	for _, n := range ns {
		tfdt, k, exact := a.LiveSeg(ri, n)
		url := fmt.Sprintf("/livesim2/%s/%s/%d%s", a.Name, r.ID, n, ext)
		resp := t.get(url)
		t.checks++
		if resp.Status != 200 {
			t.fail("%s -> %d panic=%q (expected 200)", url, resp.Status, resp.Panic)
			continue
		}
		if r.Kind == "thumbs" {
			if !bytes.Equal(resp.Body, r.SampleData(uint64(k), true)) {
				t.fail("%s: thumbnail differs from VoD file %s", url, r.FileName(k))
			}
			continue
		}
		obs, err := lib.DecodeGenSegment(resp.Body)
		if err != nil {
			t.fail("%s: %v", url, err)
			continue
		}
		if obs.Tfdt != tfdt {
			t.fail("%s: tfdt %d, expected %d (k=%d)", url, obs.Tfdt, tfdt, k)
		}
		if int(obs.Seq) != n {
			t.fail("%s: mfhd sequence number %d, expected %d", url, obs.Seq, n)
		}
		if obs.Dur() != r.SegDurs[k] {
			t.fail("%s: duration %d, expected %d", url, obs.Dur(), r.SegDurs[k])
		}
		if !obs.HasStyp || !obs.Contiguous {
			t.fail("%s: styp=%v contiguous fragments=%v", url, obs.HasStyp, obs.Contiguous)
		}
		switch r.Kind {
		case "video":
			if obs.Payload != r.SegPayloadHash(k) {
				t.fail("%s: payload is not that of VoD segment %d", url, k)
			}
			if obs.Tag != lib.GenRepTag(r.ID) || obs.MixedTags || obs.Idx[0] != r.FirstSample(k) {
				t.fail("%s: sample identities tag=%x first=%d", url, obs.Tag, obs.Idx[0])
			}
			for i, s := range obs.Sync {
				if s != (i == 0) {
					t.fail("%s: sample %d sync=%v", url, i, s)
					break
				}
			}
			if want := nvl(r.Frags, 1); obs.NFrags != want && obs.NFrags != min(want, r.NSamples(k)) {
				t.fail("%s: %d fragments, expected %d", url, obs.NFrags, want)
			}
		case "stpp":
			shift := tfdt - r.Start(k)
			shiftMS := (shift*1000 + uint64(r.Timescale)/2) / uint64(r.Timescale)
			if len(obs.Data) != 1 || !bytes.Equal(obs.Data[0], r.StppDoc(k, shiftMS)) {
				t.fail("%s: TTML differs from VoD document %d shifted by %d ms:\n%s", url, k, shiftMS, obs.Data)
			}
		}
		if havePrev && obs.Tfdt != prevEnd {
			if exact {
				t.fail("%s: starts at %d but segment %d ended at %d", url, obs.Tfdt, n-1, prevEnd)
			} else {
				t.note("wrap-gap:"+a.Name+"/"+r.ID, "%s starts at %d but segment %d ended at %d (loop of the representation %d ticks, looped with %d)",
					url, obs.Tfdt, n-1, prevEnd, r.LoopDur(), loopTicks(a, r))
			}
		}
		prevEnd, havePrev = obs.Tfdt+obs.Dur(), true

		// the same segment through SegmentTimeline/$Time$ addressing
		if r.Kind == "video" || r.Kind == "stpp" {
			turl := fmt.Sprintf("/livesim2/segtimeline_1/%s/%s/%d%s", a.Name, r.ID, tfdt, ext)
			tr := t.get(turl)
			t.checks++
			if tr.Status != 200 {
				if class == "ok" {
					t.fail("%s -> %d panic=%q (expected 200)", turl, tr.Status, tr.Panic)
				} else {
					t.note("time-addr:"+a.Name+"/"+r.ID, "%s -> %d panic=%q %.100s (expected 200, same as %s)", turl, tr.Status, tr.Panic, tr.Body, url)
				}
			} else if !bytes.Equal(tr.Body, resp.Body) {
				to, err := lib.DecodeGenSegment(tr.Body)
				if err != nil || to.Tfdt != obs.Tfdt || to.Payload != obs.Payload || to.Seq != obs.Seq {
					t.fail("%s differs from %s (%v)", turl, url, err)
				}
			}
		}
	}
	// just after the live edge
	url := fmt.Sprintf("/livesim2/%s/%s/%d%s", a.Name, r.ID, next, ext)
	if resp := t.get(url); resp.Status != 425 {
		t.note("edge:"+a.Name+"/"+r.ID, "%s -> %d panic=%q (expected 425 Too Early)", url, resp.Status, resp.Panic)
	}
}

func loopTicks(a lib.GenAsset, r lib.GenRep) uint64 {
	ms, _ := a.LoopDurMS()
	return ms * uint64(r.Timescale) / 1000
}

func describe(a lib.GenAsset) string {
	var parts []string
	for _, r := range a.Reps {
		mode := "nr"
		if r.TimelineMPD {
			mode = "tl"
		}
		parts = append(parts, fmt.Sprintf("%s:%s/%d/%d N=%d %s", r.ID, r.Kind, r.Timescale, r.SampleDur, r.N(), mode))
	}
	return "[" + strings.Join(parts, "; ") + "]"
}

func nvl(v, d int) int {
	if v == 0 {
		return d
	}
	return v
}

// expectedAudioIdx: frame at output time tm (multiple of F) of the looped source, as stated by property C03:
// in loop w the source restarts at the first frame boundary at or after w*L (L = reference loop); frames
// beyond the end of the VoD track repeat its last frame.
func expectedAudioIdx(ref, au lib.GenRep, tm uint64) uint64 {
	F := uint64(au.SampleDur)
	L := ref.LoopDur()
	// w = number of wrap points at or before tm
	w := tm * uint64(ref.Timescale) / (uint64(au.Timescale) * L)
	for w > 0 && lib.CeilFrame(w*L, uint64(ref.Timescale), F, uint64(au.Timescale)) > tm {
		w--
	}
	for lib.CeilFrame((w+1)*L, uint64(ref.Timescale), F, uint64(au.Timescale)) <= tm {
		w++
	}
	idx := (tm - lib.CeilFrame(w*L, uint64(ref.Timescale), F, uint64(au.Timescale))) / F
	if tot := au.TotalSamples(); idx >= tot {
		idx = tot - 1
	}
	return idx
}

func (t *tester) checkAudioRep(a lib.GenAsset, ri int) {
	au := a.Reps[ri]
	refI := a.RefRep()
	ref := a.Reps[refI]
	F := uint64(au.SampleDur)
	ns, _ := liveRange(a, refI)
	var prevEnd uint64
	havePrev := false
	for _, n := range ns {
		refStart, k, _ := a.LiveSeg(refI, n)
		refEnd := refStart + ref.SegDurs[k]
		url := fmt.Sprintf("/livesim2/%s/%s/%d.m4s", a.Name, au.ID, n)
		resp := t.get(url)
		t.checks++
		if resp.Status != 200 {
			t.note(fmt.Sprintf("audio-status:%s/%s", a.Name, au.ID), "%s -> %d panic=%q (expected 200)", url, resp.Status, resp.Panic)
			havePrev = false
			continue
		}
		obs, err := lib.DecodeGenSegment(resp.Body)
		if err != nil {
			t.fail("%s: %v", url, err)
			continue
		}
		var wantStart, wantEnd uint64
		if refI == ri { // audio is the reference itself
			wantStart, wantEnd = refStart, refEnd
		} else {
			wantStart = lib.CeilFrame(refStart, uint64(ref.Timescale), F, uint64(au.Timescale))
			wantEnd = lib.CeilFrame(refEnd, uint64(ref.Timescale), F, uint64(au.Timescale))
		}
		if obs.Tfdt != wantStart || obs.Tfdt+obs.Dur() != wantEnd {
			t.note("audio-times:"+a.Name+"/"+au.ID, "%s: [%d,%d), expected [%d,%d)", url, obs.Tfdt, obs.Tfdt+obs.Dur(), wantStart, wantEnd)
		}
		if int(obs.Seq) != n {
			t.note("audio-seq:"+a.Name+"/"+au.ID, "%s: mfhd sequence number %d, expected %d", url, obs.Seq, n)
		}
		if len(obs.Idx) == 0 {
			t.note("audio-empty:"+a.Name+"/"+au.ID, "%s -> 200 with a segment of 0 samples at tfdt %d (reference segment [%d,%d) lies inside one audio frame; expected [%d,%d))",
				url, obs.Tfdt, refStart, refEnd, wantStart, wantEnd)
		} else if obs.Tag != lib.GenRepTag(au.ID) || obs.MixedTags {
			t.fail("%s: foreign samples tag=%x", url, obs.Tag)
		}
		if havePrev && obs.Tfdt != prevEnd {
			t.note("audio-gap:"+a.Name+"/"+au.ID, "%s starts at %d, previous ended at %d", url, obs.Tfdt, prevEnd)
		}
		prevEnd, havePrev = obs.Tfdt+obs.Dur(), true
		bad := 0
		var ex string
		for i, idx := range obs.Idx {
			want := expectedAudioIdx(ref, au, obs.Tfdt+uint64(i)*F)
			if refI == ri {
				want = au.FirstSample(k) + uint64(i)
			}
			if idx != want {
				if bad == 0 {
					ex = fmt.Sprintf("frame %d of %d is VoD frame %d, expected %d", i, len(obs.Idx), idx, want)
				}
				bad++
			}
			if !bytes.Equal(obs.Data[i], lib.GenSamplePayload(au.ID, idx)) {
				t.fail("%s: frame %d payload damaged", url, i)
				break
			}
		}
		if bad > 0 {
			t.note("audio-frames:"+a.Name+"/"+au.ID, "%s: %d frames differ from the looped source; %s", url, bad, ex)
		}
	}
}

func (t *tester) checkVodFiles(a lib.GenAsset) {
	// independent re-read of the written files with the harness' own parser
	for _, r := range a.Reps {
		if r.Kind == "thumbs" {
			continue
		}
		vr, _, err := lib.LoadVodRep(filepath.Join(t.root, a.Name, r.ID), r.ID)
		if err != nil {
			t.fail("%s/%s: LoadVodRep: %v", a.Name, r.ID, err)
			continue
		}
		if int64(r.Timescale) != vr.Timescale || len(vr.Segs) != r.N() {
			t.fail("%s/%s: timescale %d segs %d", a.Name, r.ID, vr.Timescale, len(vr.Segs))
			continue
		}
		for k, s := range vr.Segs {
			t.checks++
			if uint64(s.Start) != r.Start(k) || uint64(s.End) != r.End(k) || s.NSamples != r.NSamples(k) ||
				(r.Kind != "stpp" && s.Payload != r.SegPayloadHash(k)) || a.Name+"/"+r.ID+"/"+s.File != a.Name+"/"+r.FileName(k) {
				t.fail("%s/%s: VoD segment %d read back as %+v", a.Name, r.ID, k, s)
			}
		}
	}
}

// checkCache: a server that writes the representation-metadata files and one that starts from them must serve
// the generated assets like the scanning server (C15 uses generated layouts this way).
func (t *tester) checkCache(base string, cat []lib.GenLayout) {
	repData := filepath.Join(base, "repdata")
	scan := t.ls
	wr, err := lib.NewLivesim(t.root, func(cfg *app.ServerConfig) { cfg.RepDataRoot = repData; cfg.WriteRepData = true })
	if err != nil {
		t.fail("server with writerepdata: %v", err)
		return
	}
	rd, err := lib.NewLivesim(t.root, func(cfg *app.ServerConfig) { cfg.RepDataRoot = repData; cfg.WriteRepData = false })
	if err != nil {
		t.fail("server from repdata: %v", err)
		return
	}
	defer func() { t.ls = scan }()
	for _, l := range cat {
		a := l.Asset
		var urls []string
		urls = append(urls, "/livesim2/"+a.Name+"/Manifest.mpd", "/livesim2/segtimeline_1/"+a.Name+"/Manifest.mpd")
		for ri, r := range a.Reps {
			ext := ".m4s"
			if r.Kind == "thumbs" {
				ext = ".jpg"
			}
			refI := a.RefRep()
			if refI < 0 {
				continue
			}
			if r.Kind != "audio" {
				refI = ri
			}
			ns, _ := liveRange(a, refI)
			for _, n := range ns {
				urls = append(urls, fmt.Sprintf("/livesim2/%s/%s/%d%s", a.Name, r.ID, n, ext))
			}
		}
		for _, u := range urls {
			t.ls = scan
			r0 := t.get(u)
			for i, other := range []*lib.Livesim{wr, rd} {
				t.ls = other
				r1 := t.get(u)
				t.checks++
				if r0.Status != r1.Status || r0.Panic != r1.Panic || (r0.Status == 200 && !bytes.Equal(r0.Body, r1.Body)) {
					who := []string{"writing server", "server started from repdata"}[i]
					msg := fmt.Sprintf("%s: scan %d/%q vs %s %d/%q (bodies equal: %v)", u, r0.Status, r0.Panic, who, r1.Status, r1.Panic, bytes.Equal(r0.Body, r1.Body))
					if l.Class == "ok" {
						t.fail("cache: %s", msg)
					} else {
						t.note("cache:"+a.Name, "%s", msg)
					}
				}
			}
		}
	}
}

// checkDRM: informational. The generated video samples are length-prefixed NALUs with a fake slice; is that
// enough for the ECCP encryption path?
func (t *tester) checkDRM(cat []lib.GenLayout) {
	for _, l := range cat {
		if l.Class != "ok" {
			continue
		}
		a := l.Asset
		for ri, r := range a.Reps {
			if r.Kind != "video" && r.Kind != "audio" {
				continue
			}
			refI := ri
			if r.Kind == "audio" {
				refI = a.RefRep()
			}
			ns, _ := liveRange(a, refI)
			for _, scheme := range []string{"cenc", "cbcs"} {
				u := fmt.Sprintf("/livesim2/eccp_%s/%s/%s/%d.m4s", scheme, a.Name, r.ID, ns[len(ns)-1])
				resp := t.get(u)
				t.checks++
				if resp.Status != 200 {
					t.note(fmt.Sprintf("drm:%s:%s:%d:%s", r.Kind, scheme, resp.Status, resp.Panic), "%s -> %d panic=%q", u, resp.Status, resp.Panic)
				}
			}
		}
		return // one asset is enough
	}
}

func main() {
	keep := flag.Bool("keep", false, "keep the scratch directory")
	verbose := flag.Bool("v", false, "print every note")
	only := flag.String("only", "", "only the layout with this name")
	seed := flag.Int64("seed", 1, "seed of the random layouts")
	nRand := flag.Int("rand", 40, "number of random layouts (lib.RandGenAsset)")
	flag.Parse()

	base := filepath.Join("/verif/.scratch", fmt.Sprint(os.Getpid()))
	root := filepath.Join(base, "vod")
	if err := os.MkdirAll(root, 0o755); err != nil {
		fmt.Println("FAIL ", err)
		os.Exit(1)
	}
	code := 0
	defer func() {
		if !*keep {
			os.RemoveAll(base)
		} else {
			fmt.Println("kept", base)
		}
		os.Exit(code)
	}()

	t := &tester{root: root, notes: map[string]int{}, noteEx: map[string]string{}, verbose: *verbose}
	var cat []lib.GenLayout
	for _, l := range lib.GenCatalogue() {
		if *only != "" && l.Asset.Name != *only {
			continue
		}
		cat = append(cat, l)
	}
	if *only == "" {
		rng := rand.New(rand.NewSource(*seed))
		for i := 0; i < *nRand; i++ {
			a := lib.RandGenAsset(rng, fmt.Sprintf("r_%03d", i), lib.RandGenOpts{AudioOwnGrid: i%4 == 3, Text: true, Thumbs: true})
			cat = append(cat, lib.GenLayout{Asset: a, Class: "ok", Note: "random"})
		}
	}
	for _, l := range cat {
		if err := lib.WriteAsset(root, l.Asset); err != nil {
			t.fail("WriteAsset %s: %v", l.Asset.Name, err)
		}
		t.checkVodFiles(l.Asset)
	}
	ls, err := lib.NewLivesim(root, nil)
	if err != nil {
		fmt.Println("FAIL  NewLivesim:", err)
		code = 1
		return
	}
	t.ls = ls

	for _, l := range cat {
		a := l.Asset
		pred, why := a.PredictAdmission()
		mpd := t.get("/livesim2/" + a.Name + "/Manifest.mpd")
		served := mpd.Status == 200
		fmt.Printf("%-22s class=%-4s rule-admits=%-5v served=%-5v mpd=%d %s %s\n", a.Name, l.Class, pred, served, mpd.Status, why, describe(a))
		if mpd.Panic != "" {
			t.note("mpd-panic:"+a.Name, "GET /livesim2/%s/Manifest.mpd panics: %s", a.Name, mpd.Panic)
			for _, r := range a.Reps {
				url := fmt.Sprintf("/livesim2/%s/%s/%d.m4s", a.Name, r.ID, 280)
				resp := t.get(url)
				t.note("mpd-panic-seg:"+a.Name+"/"+r.ID, "%s -> %d panic=%q", url, resp.Status, resp.Panic)
			}
		}
		switch l.Class {
		case "ok":
			if !pred || !served {
				t.fail("%s: expected to be admitted (rule=%v served=%v panic=%q body=%.200s)", a.Name, pred, served, mpd.Panic, mpd.Body)
				continue
			}
		case "bad":
			if pred {
				t.fail("%s: PredictAdmission admits a layout of class bad", a.Name)
			}
			if served {
				t.note("admitted-bad:"+a.Name, "%s is served although: %s", a.Name, why)
			}
			for _, r := range a.Reps {
				url := fmt.Sprintf("/livesim2/%s/%s/%d.m4s", a.Name, r.ID, 100)
				if resp := t.get(url); resp.Status != 404 {
					t.note("served-bad:"+a.Name, "%s -> %d panic=%q (expected 404)", url, resp.Status, resp.Panic)
				}
			}
			continue
		case "edge":
			if pred != served {
				t.note("rule-vs-loader:"+a.Name, "the rule gives admit=%v (%s) but served=%v (mpd status %d panic=%q)", pred, why, served, mpd.Status, mpd.Panic)
			}
			if !served {
				continue
			}
		}
		// the timeline MPD must also be produced
		if r := t.get("/livesim2/segtimeline_1/" + a.Name + "/Manifest.mpd"); r.Status != 200 {
			t.note("mpd-timeline:"+a.Name, "segtimeline_1 MPD -> %d panic=%q %.120s", r.Status, r.Panic, r.Body)
		}
		for ri, r := range a.Reps {
			if r.Kind == "audio" {
				t.checkAudioRep(a, ri)
			} else {
				t.checkPlainRep(a, ri, l.Class)
			}
		}
	}

	t.checkCache(base, cat)
	t.checkDRM(cat)

	keys := make([]string, 0, len(t.notes))
	for k := range t.notes {
		keys = append(keys, k)
	}
	sort.Strings(keys)
	for _, k := range keys {
		fmt.Printf("NOTE  [%s] x%d: %s\n", k, t.notes[k], t.noteEx[k])
	}
	fmt.Printf("assetgentest: %d layouts, %d checks, %d failures, %d kinds of notes\n", len(cat), t.checks, t.fails, len(keys))
	if t.fails > 0 {
		code = 1
	}
}
