// C01: looped output is one gap-free, wall-clock-anchored media timeline.
package main

import (
	"bytes"
	"fmt"
	"github.com/Dash-Industry-Forum/livesim2/cmd/livesim2/app"
	"math/rand"
	"os"
	"path/filepath"
	"regexp"
	"strconv"
	"strings"
	"sync"

	"github.com/Eyevinn/mp4ff/mp4"

	"verifharness/lib"
)

func main() { lib.Main("C01", run) }

type c01in struct {
	Asset string    `json:"asset"`
	Rep   string    `json:"rep"`
	Cfg   lib.TLCfg `json:"cfg"`
	N     int64     `json:"n"` // segment index counted from availabilityStartTime
	SegID int64     `json:"seg_id"`
	NowMS int64     `json:"now_ms"`
	URL   string    `json:"url"`
	// FirstStart is the decode time of the first VoD segment of the representation (normally 0)
	FirstStart int64 `json:"first_start"`
	// Gen is the description of a generated asset (nil for bundled ones), so that a replay can rebuild it
	Gen *lib.GenAsset `json:"gen,omitempty"`
}

// availMS: first millisecond at which segment n is available (harness's own statement).
func availMS(r *lib.TLRep, c lib.TLCfg, n int64) int64 {
	e := r.LoopE(n)
	ms := (e*1000 + r.Timescale - 1) / r.Timescale
	a := c.StartS*1000 + ms
	if c.AtoMS > 0 {
		a -= c.AtoMS
	}
	return a
}

var timeExp = regexp.MustCompile(`(\d\d+):(\d\d):(\d\d)(\.\d\d\d)?`)

func tsToMS(m []string) int64 {
	h, _ := strconv.ParseInt(m[1], 10, 64)
	mi, _ := strconv.ParseInt(m[2], 10, 64)
	s, _ := strconv.ParseInt(m[3], 10, 64)
	ms := int64(0)
	if m[4] != "" {
		ms, _ = strconv.ParseInt(m[4][1:], 10, 64)
	}
	return h*3600000 + mi*60000 + s*1000 + ms
}

// ttmlOf returns the single sample of an stpp segment.
func ttmlOf(data []byte) ([]byte, error) {
	f, err := mp4.DecodeFile(bytes.NewReader(data))
	if err != nil {
		return nil, err
	}
	fr := f.Segments[0].Fragments[0]
	samples, err := fr.GetFullSamples(nil)
	if err != nil || len(samples) != 1 {
		return nil, fmt.Errorf("stpp segment without exactly one sample")
	}
	return samples[0].Data, nil
}

// checkTTML: every timestamp moved by shiftMS, everything else unchanged.
func checkTTML(vod, served []byte, shiftMS int64) string {
	vs, ss := string(vod), string(served)
	// stpp image samples carry the TTML document first and embedded images after it; only the
	// document is shifted, the images must be unchanged
	if i, j := strings.Index(vs, "</tt>"), strings.Index(ss, "</tt>"); i >= 0 && j >= 0 {
		if vs[i:] != ss[j:] {
			return "data after the TTML document changed"
		}
		vs, ss = vs[:i], ss[:j]
	}
	vi := timeExp.FindAllStringSubmatchIndex(vs, -1)
	si := timeExp.FindAllStringSubmatchIndex(ss, -1)
	if len(vi) != len(si) {
		return fmt.Sprintf("%d timestamps in VoD, %d served", len(vi), len(si))
	}
	pv, ps := 0, 0
	for k := range vi {
		if vs[pv:vi[k][0]] != ss[ps:si[k][0]] {
			return "text between timestamps changed"
		}
		tv := tsToMS(timeExp.FindStringSubmatch(vs[vi[k][0]:vi[k][1]]))
		tsv := tsToMS(timeExp.FindStringSubmatch(ss[si[k][0]:si[k][1]]))
		if tsv-tv != shiftMS {
			return fmt.Sprintf("timestamp %d moved by %d ms, decode time by %d ms", k, tsv-tv, shiftMS)
		}
		pv, ps = vi[k][1], si[k][1]
	}
	if vs[pv:] != ss[ps:] {
		return "text after last timestamp changed"
	}
	return ""
}

func run(c *lib.Ctx) error {
	assets, err := lib.LoadBundledAssets(lib.TestVodRoot)
	if err != nil {
		return err
	}
	ls, err := lib.NewLivesim(lib.TestVodRoot, nil)
	if err != nil {
		return err
	}
	if c.Replay != "" {
		in, err := lib.LoadReplayInput[c01in](c.Replay)
		if err != nil {
			return err
		}
		rassets, rls := assets, ls
		if in.Gen != nil {
			ga, gl, cleanup, err := lib.GenSetup("c01replay", []lib.GenAsset{*in.Gen})
			if err != nil {
				return err
			}
			defer cleanup()
			rassets, rls = ga, gl
		}
		for _, a := range rassets {
			if a.Path == in.Asset {
				r := a.Rep(in.Rep)
				o := lib.FetchSeg(rls, a, in.Cfg, r, in.SegID, in.NowMS)
				identifyStpp(r, &o)
				fmt.Printf("replay %s -> status %d panic=%q tfdt=%d seq=%d dur=%d srcIdx=%d (expected tfdt=%d seq=%d src=%d)\n",
					lib.SegURL(a, in.Cfg, r, in.SegID, in.NowMS), o.Status, o.Panic, o.Tfdt, o.Seq, o.Dur, o.SrcIdx,
					r.LoopS(in.N), in.Cfg.EffSnr()+in.N, in.N%int64(len(r.Segs)))
				oracle(c, "replay", a, r, in, o, nil)
			}
		}
		return nil
	}
	rng := rand.New(rand.NewSource(c.Seed))
	modes := []string{"number", "tlnr", "tlt"}
	starts := []int64{0, 0, 30, 1600000000}
	snrs := []int64{-1, -1, 0, 1, 7}
	tsbds := []int64{-1, -1, -1, 0, 1, 60, 3600}
	pairs := lib.NewPairCover()
	var terms []string
	var ins []c01in
	var obs []lib.SegObs
	var lsOf []*lib.Livesim
	var repOf []*lib.TLRep
	distinct := map[string]bool{}
	nWraps := int64(3)
	nCfg := 4
	if c.Thorough() {
		nWraps, nCfg = 6, 16
	}
	var lsTerms []string
	lsIn := map[int]c01in{}
	maxLS := 240
	if c.Thorough() {
		maxLS = 2400
	}
	repTerms := map[string]string{}
	var defs strings.Builder
	runAssets := func(tag string, ls *lib.Livesim, assets []*lib.TLAsset, gens []lib.GenAsset) {
		for ai, a := range assets {
			if strings.HasPrefix(a.Path, "x_") || strings.HasPrefix(a.Path, "bad_") {
				// borderline or inadmissible layout: consolidateAsset may / must leave it out (then there is nothing to serve);
				// if it is served, it has to be one gap-free timeline like every other asset
				if resp := ls.GetRaw(lib.MPDURL(a, lib.TLCfg{Snr: -1, Tsbd: -1, Mode: "number"}, 100000)); resp.Status == 404 {
					c.Count("left-out/" + a.Path)
					continue
				}
			}
			for ri, r := range a.Reps {
				if r.Kind == "audio" { // audio is C03
					continue
				}
				name := fmt.Sprintf("rep_%s%d_%d", tag, ai, ri)
				fmt.Fprintf(&defs, "Definition %s : rep := %s.\n", name, lib.CoqRep(r.VodRep))
				repTerms[a.Path+"/"+r.ID] = name
				N := int64(len(r.Segs))
				var cfgs []lib.TLCfg
				cfgs = append(cfgs, lib.TLCfg{Snr: -1, Tsbd: -1, Mode: "number"}, lib.TLCfg{Snr: -1, Tsbd: -1, Mode: "tlt"}, lib.TLCfg{Snr: -1, Tsbd: -1, Mode: "tlnr"})
				segMSr := int64(1)
				if N > 0 && r.Timescale > 0 {
					segMSr = r.Duration() * 1000 / r.Timescale / N
				}
				for k := 0; k < nCfg; k++ {
					// candidates over all configuration families (the served content must not depend on the time-shift
					// buffer or the availabilityTimeOffset); the one covering most new value pairs for this track kind
					var cands []lib.TLCfg
					for q := 0; q < 8; q++ {
						cand := lib.TLCfg{StartS: starts[rng.Intn(len(starts))], Snr: snrs[rng.Intn(len(snrs))], Tsbd: tsbds[rng.Intn(len(tsbds))], Mode: modes[rng.Intn(3)]}
						switch rng.Intn(7) {
						case 0:
							cand.AtoMS = -1
						case 1:
							cand.AtoMS = segMSr / 4
						case 2:
							cand.AtoMS = segMSr + 500
						case 3:
							if segMSr > 1 {
								cand.AtoMS = 1 + rng.Int63n(segMSr-1)
							}
						}
						if r.Kind == "image" {
							cand.Mode = "number"
						}
						cands = append(cands, cand)
					}
					cfgs = append(cfgs, pairs.Pick(r.Kind, segMSr, cands))
				}
				for _, cfg := range cfgs {
					// segment indices: three wraps from the start, around 2^32 ticks, far from the epoch
					var ns []int64
					for n := int64(0); n <= nWraps*N+1; n++ {
						ns = append(ns, n)
					}
					segTicks := r.Duration() / N
					if segTicks > 0 {
						n32 := (int64(1) << 32) / segTicks
						ns = append(ns, n32-1, n32, n32+1, n32+2)
					}
					farMS := int64(1700000000000) + rng.Int63n(1000000000)
					nFar := (farMS - cfg.StartS*1000) * r.Timescale / 1000 / segTicksOr1(segTicks)
					for d := int64(0); d <= N; d++ {
						ns = append(ns, nFar+d)
					}
					var prev *lib.SegObs
					var prevN int64 = -10
					for _, n := range ns {
						if n < 0 || cfg.EffSnr()+n > 1<<32-1 { // numbers are 32-bit (mfhd sequence number, URL number)
							continue
						}
						mode := cfg.Mode
						if r.Kind == "image" {
							mode = "number"
						}
						segID := cfg.EffSnr() + n
						if mode == "tlt" {
							segID = r.LoopS(n)
						}
						now := availMS(r, cfg, n) + int64(rng.Intn(2000))
						if now < cfg.StartS*1000 { // an offset larger than the segment: nothing is available before the start
							now = cfg.StartS*1000 + int64(rng.Intn(500))
						}
						in := c01in{Asset: a.Path, Rep: r.ID, Cfg: cfg, N: n, SegID: segID, NowMS: now, FirstStart: r.Segs[0].Start}
						in.URL = lib.SegURL(a, cfg, r, segID, now)
						o := lib.FetchSeg(ls, a, cfg, r, segID, now)
						identifyStpp(r, &o)
						id := len(ins)
						ins = append(ins, in)
						obs = append(obs, o)
						lsOf = append(lsOf, ls)
						repOf = append(repOf, r)
						c.Res.Inputs[fmt.Sprint(id)] = in
						c.Count(r.Kind + "/" + mode)
						var p *lib.SegObs
						if prevN == n-1 {
							p = prev
						}
						oracle(c, fmt.Sprint(id), a, r, in, o, p)
						oc := o
						prev, prevN = &oc, n
						if o.Status == 200 {
							distinct[fmt.Sprintf("%s/%s/%s/%d", a.Path, r.ID, cfg.URLPrefix(), n)] = true
						}
						// the fragment rewrite of genLiveSegment (video only; stpp takes another path): a sample of
						// the responses, always those with a decode time that needs 64 bits
						if r.Kind == "video" && o.Status == 200 && o.SrcIdx >= 0 && (o.Tfdt >= 1<<32 || rng.Intn(8) == 0) && len(lsTerms) < maxLS {
							vod, err1 := os.ReadFile(filepath.Join(r.Dir, r.Segs[o.SrcIdx].File))
							if err1 == nil {
								vf, e1 := lib.FragRecords(vod, r.Trex)
								sf, e2 := lib.FragRecords(o.Body, r.Trex)
								if e1 == nil && e2 == nil {
									lsIn[len(lsTerms)] = in
									lsTerms = append(lsTerms, fmt.Sprintf("{| c_id := %d; k_vod := %s; k_newNr := %d; k_newTime := %d; o_out := %s |}",
										len(lsTerms), lib.CoqFrags(vf), o.Seq, o.Tfdt, lib.CoqFrags(sf)))
									c.Count("rewrite/" + fmt.Sprint(len(vf)) + "-fragments")
								}
							}
						}
						am := "ByNumber"
						if mode == "tlt" {
							am = "ByTime"
						}
						terms = append(terms, fmt.Sprintf("{| c_id := %d; k_img := %s; k_edge := false; k_rep := %s; k_loopMS := %d; k_cfg := %s; k_mode := %s; k_segID := %d; k_now := %d; o_status := %d; o_ms := %s; o_tfdt := %d; o_seq := %d; o_srcStart := %d; o_dur := %d |}",
							id, lib.Cbool(r.Kind == "image"), name, a.LoopMS, cfg.CoqCfg(), am, segID, now, o.Status, lib.Zs(o.EarlyMS), o.Tfdt, o.Seq, o.SrcStart, o.Dur))
					}
					// $Number$ and $Time$ address the same segment
					if r.Kind != "image" {
						for k := 0; k < 3; k++ {
							n := ns[rng.Intn(len(ns))]
							if n < 0 || cfg.EffSnr()+n > 1<<32-1 { // numbers are 32-bit: no $Number$ twin beyond
								continue
							}
							cn, ct := cfg, cfg
							cn.Mode, ct.Mode = "tlnr", "tlt"
							now := availMS(r, cfg, n) + 100
							if now < cfg.StartS*1000 {
								now = cfg.StartS*1000 + 100
							}
							on := lib.FetchSeg(ls, a, cn, r, cfg.EffSnr()+n, now)
							ot := lib.FetchSeg(ls, a, ct, r, r.LoopS(n), now)
							c.Count("number-vs-time")
							if on.Status != ot.Status || on.Tfdt != ot.Tfdt || on.Seq != ot.Seq || on.Payload != ot.Payload {
								c.Fail(fmt.Sprintf("nt-%s-%s-%d", a.Path, r.ID, n), "number-vs-time", fmt.Sprintf("$Number$ gives status %d tfdt %d seq %d, $Time$ gives status %d tfdt %d seq %d", on.Status, on.Tfdt, on.Seq, ot.Status, ot.Tfdt, ot.Seq),
									c01in{Asset: a.Path, Rep: r.ID, Cfg: ct, N: n, SegID: r.LoopS(n), NowMS: now, FirstStart: r.Segs[0].Start})
							}
						}
					}
				}
			}
		}
	}
	runAssets("b", ls, assets, nil)
	nBundled := len(ins)
	// generated layouts (N = 1..7; uniform, alternating, irregular; timescales 1000..90000 incl. 1001-based;
	// $Number$ and $Time$ VoD manifests; stpp and thumbnails), plus the borderline ones of the findings stream
	var layouts []lib.GenAsset
	for _, l := range lib.GenCatalogue() {
		if l.Class == "ok" || l.Asset.Name == "x_near_disagree" || l.Asset.Name == "x_text_longer" || l.Asset.Name == "x_starttime_tl" || l.Asset.Name == "x_gap_tl" ||
			l.Asset.Name == "bad_ms_ntsc" || l.Asset.Name == "bad_ms_89910" || l.Asset.Name == "bad_disagree_1frame" {
			layouts = append(layouts, l.Asset)
		}
	}
	nRand := 4
	if c.Thorough() {
		nRand = 40
	}
	for i := 0; i < nRand; i++ {
		layouts = append(layouts, lib.RandGenAsset(rng, fmt.Sprintf("r%d", i), lib.RandGenOpts{Text: true, Thumbs: true}))
	}
	gAssets, gls, cleanup, err := lib.GenSetup("c01", layouts)
	if err != nil {
		return err
	}
	defer cleanup()
	runAssets("g", gls, gAssets, layouts)
	// the same requests on an instance that was restarted on representation metadata files written by an
	// earlier start (the loop timeline must not depend on how the asset tables were obtained)
	if root, cleanupRD, err := lib.ScratchDir("c01-repdata"); err == nil {
		defer cleanupRD()
		_, errW := lib.NewLivesim(lib.TestVodRoot, func(cfg *app.ServerConfig) { cfg.RepDataRoot, cfg.WriteRepData = root, true })
		lsR, errR := lib.NewLivesim(lib.TestVodRoot, func(cfg *app.ServerConfig) { cfg.RepDataRoot, cfg.WriteRepData = root, false })
		if errW == nil && errR == nil {
			var pick []int
			for i := 0; i < nBundled; i++ {
				if obs[i].Status == 200 && ins[i].Cfg.AtoMS <= 0 && (repOf[i].Kind != "video" || i%5 == 0) {
					pick = append(pick, i)
				}
			}
			rng.Shuffle(len(pick), func(a, b int) { pick[a], pick[b] = pick[b], pick[a] })
			nR := 800
			if c.Thorough() {
				nR = 8000
			}
			if len(pick) > nR {
				pick = pick[:nR]
			}
			for _, i := range pick {
				o := lib.ObserveSeg(lsR.GetRaw(ins[i].URL), repOf[i])
				identifyStpp(repOf[i], &o)
				if o.Status != obs[i].Status || o.Tfdt != obs[i].Tfdt || o.Seq != obs[i].Seq || o.Payload != obs[i].Payload || o.SrcIdx != obs[i].SrcIdx {
					c.Fail(fmt.Sprint(i), "restart:differs", fmt.Sprintf("%s on an instance restarted on metadata files: status %d tfdt %d seq %d src %d payload %.12s; on the scanning instance: status %d tfdt %d seq %d src %d payload %.12s",
						ins[i].URL, o.Status, o.Tfdt, o.Seq, o.SrcIdx, o.Payload, obs[i].Status, obs[i].Tfdt, obs[i].Seq, obs[i].SrcIdx, obs[i].Payload), ins[i])
				}
			}
			c.Res.Distribution["restart-repeat"] = len(pick)
		} else {
			c.Res.Notes = append(c.Res.Notes, fmt.Sprint("restart instance not started: ", errW, errR))
		}
	}
	// the same requests again, many at a time: what a segment carries must not depend on which other requests
	// are being served (buffers handed back too early, state shared between requests)
	{
		var pick []int
		for i := range ins {
			if obs[i].Status == 200 && ins[i].Cfg.AtoMS <= 0 {
				pick = append(pick, i)
			}
		}
		rng.Shuffle(len(pick), func(a, b int) { pick[a], pick[b] = pick[b], pick[a] })
		nConc := 1500
		if c.Thorough() {
			nConc = 12000
		}
		if len(pick) > nConc {
			pick = pick[:nConc]
		}
		type diff struct {
			i    int
			what string
		}
		diffs := make(chan diff, len(pick))
		var wg sync.WaitGroup
		sem := make(chan struct{}, 24)
		for _, i := range pick {
			wg.Add(1)
			sem <- struct{}{}
			go func(i int) {
				defer wg.Done()
				defer func() { <-sem }()
				o := lib.ObserveSeg(lsOf[i].GetRaw(ins[i].URL), repOf[i])
				identifyStpp(repOf[i], &o)
				if o.Status != obs[i].Status || o.Tfdt != obs[i].Tfdt || o.Seq != obs[i].Seq || o.Payload != obs[i].Payload || len(o.Body) != len(obs[i].Body) {
					diffs <- diff{i, fmt.Sprintf("%s served concurrently with other requests: status %d tfdt %d seq %d payload %.12s (%d bytes); served alone: status %d tfdt %d seq %d payload %.12s (%d bytes)",
						ins[i].URL, o.Status, o.Tfdt, o.Seq, o.Payload, len(o.Body), obs[i].Status, obs[i].Tfdt, obs[i].Seq, obs[i].Payload, len(obs[i].Body))}
				}
			}(i)
		}
		wg.Wait()
		close(diffs)
		c.Res.Distribution["concurrent-repeat"] = len(pick)
		for d := range diffs {
			c.Fail(fmt.Sprint(d.i), "concurrent:differs", d.what, ins[d.i])
		}
	}
	c.Res.Evaluations = len(ins)
	c.Res.DistinctNontrivial = len(distinct)
	c.Res.Notes = append(c.Res.Notes, pairs.Summary())
	c.Res.Rule = "bundled assets and generated layouts (catalogue + random: N=1..7 segments; uniform, alternating, irregular; timescales 1000..90000 incl. 1001-based; $Number$ and $Time$ VoD manifests) (bundled: N=1,2,4 segments; uniform, alternating 4s/8s, 2.002s; timescales 1,1000,12800,15360,30000,90000) x non-audio representations (video, stpp text, stpp image, thumbnails) x {Number, Timeline-Number, Timeline-Time} x start in {0,30,1.6e9} x startNumber in {unset,0,1,7} x tsbd in {unset,0,1,60,3600} x availabilityTimeOffset in {0, fractions of a segment, > segment, inf} (configurations chosen for pairwise coverage per track kind); segment indices over 3 loop wraps from stream start, around 2^32 ticks and ~1.7e12 ms from the epoch (64-bit tfdt); distinct = distinct (asset, rep, config, index) answered 200"
	for i := 0; i < 3 && i < len(ins); i++ {
		k := (i * 7919) % len(ins)
		c.Sample(map[string]any{"request": ins[k].URL, "status": obs[k].Status, "tfdt": obs[k].Tfdt, "seq": obs[k].Seq, "source_index": obs[k].SrcIdx})
	}
	// case ids of the rewrite cases continue after the lookup cases
	for i := range lsTerms {
		id := len(terms) + i
		lsTerms[i] = strings.Replace(lsTerms[i], fmt.Sprintf("{| c_id := %d;", i), fmt.Sprintf("{| c_id := %d;", id), 1)
		c.Res.Inputs[fmt.Sprint(id)] = lsIn[i]
	}
	c.Res.ModelCases = len(terms) + len(lsTerms)
	for s := 0; s*120 < len(lsTerms); s++ {
		e := (s + 1) * 120
		if e > len(lsTerms) {
			e = len(lsTerms)
		}
		c.WriteCases(fmt.Sprintf("cases_C01L_%d.v", s),
			lib.CasesFile("From Verif Require Import GoSem LiveSeg CorrLiveSeg.", "lscase", "", lsTerms[s*120:e], "model_view"))
	}
	shard := 400
	for s := 0; s*shard < len(terms); s++ {
		e := (s + 1) * shard
		if e > len(terms) {
			e = len(terms)
		}
		c.WriteCases(fmt.Sprintf("cases_C01_%d.v", s),
			lib.CasesFile("From Verif Require Import GoSem Timeline CorrTimeline.", "tlcase", defs.String(), terms[s*shard:e], "model_view"))
	}
	return nil
}

var vodTTML = map[string][]byte{}

// identifyStpp finds the VoD segment whose TTML, shifted by the decode-time shift, is the served one
// (stpp payloads differ from the source by construction, so the payload hash cannot identify them).
func identifyStpp(r *lib.TLRep, o *lib.SegObs) {
	if !r.Stpp || o.Status != 200 {
		return
	}
	st, err := ttmlOf(o.Body)
	if err != nil {
		return
	}
	for i, sg := range r.Segs {
		key := filepath.Join(r.Dir, sg.File)
		vt, ok := vodTTML[key]
		if !ok {
			data, err := os.ReadFile(key)
			if err != nil {
				continue
			}
			vt, err = ttmlOf(data)
			if err != nil {
				continue
			}
			vodTTML[key] = vt
		}
		shiftMS := ((o.Tfdt-sg.Start)*1000 + r.Timescale/2) / r.Timescale
		if checkTTML(vt, st, shiftMS) == "" {
			o.SrcIdx, o.SrcStart = i, sg.Start
			return
		}
	}
}

func segTicksOr1(x int64) int64 {
	if x <= 0 {
		return 1
	}
	return x
}

// oracle: the text of C01 evaluated on the response.
func oracle(c *lib.Ctx, id string, a *lib.TLAsset, r *lib.TLRep, in c01in, o lib.SegObs, prev *lib.SegObs) {
	N := int64(len(r.Segs))
	if o.Status != 200 {
		key := fmt.Sprintf("status-%d", o.Status)
		if o.Status == 0 {
			key = "panic:" + o.Panic
		}
		c.Fail(id, key, fmt.Sprintf("available segment index %d answered %d %s", in.N, o.Status, o.Panic), in)
		return
	}
	wantIdx := int(in.N % N)
	if r.Kind == "image" {
		if o.SrcIdx != wantIdx {
			c.Fail(id, "thumbnail-not-identical", fmt.Sprintf("thumbnail for index %d is not VoD file %d byte for byte (matches %d)", in.N, wantIdx, o.SrcIdx), in)
		}
		return
	}
	if o.Seq != in.Cfg.EffSnr()+in.N {
		c.Fail(id, "sequence-number", fmt.Sprintf("sequence number %d, expected startNumber+n = %d", o.Seq, in.Cfg.EffSnr()+in.N), in)
	}
	if o.Tfdt != r.LoopS(in.N) {
		c.Fail(id, "decode-time", fmt.Sprintf("tfdt %d, expected floor(n/N)*loop + VoD start = %d", o.Tfdt, r.LoopS(in.N)), in)
	}
	if o.Dur != r.LoopE(in.N)-r.LoopS(in.N) {
		c.Fail(id, "duration", fmt.Sprintf("duration %d, expected %d", o.Dur, r.LoopE(in.N)-r.LoopS(in.N)), in)
	}
	if o.FragFault != "" {
		c.Fail(id, "fragment", o.FragFault, in)
	}
	if prev != nil && prev.Status == 200 && prev.Tfdt+prev.Dur != o.Tfdt {
		c.Fail(id, "gap", fmt.Sprintf("segment starts at %d, previous ended at %d", o.Tfdt, prev.Tfdt+prev.Dur), in)
	}
	if r.Stpp {
		vod, err1 := os.ReadFile(filepath.Join(r.Dir, r.Segs[wantIdx].File))
		var vt, st []byte
		if err1 == nil {
			vt, err1 = ttmlOf(vod)
		}
		st, err2 := ttmlOf(o.Body)
		if err1 != nil || err2 != nil {
			c.Fail(id, "stpp-unparsable", fmt.Sprint(err1, err2), in)
			return
		}
		shiftTicks := o.Tfdt - r.Segs[wantIdx].Start
		shiftMS := (shiftTicks*1000 + r.Timescale/2) / r.Timescale
		if msg := checkTTML(vt, st, shiftMS); msg != "" {
			c.Fail(id, "ttml-shift", msg, in)
		}
		return
	}
	if o.SrcIdx != wantIdx {
		c.Fail(id, "payload", fmt.Sprintf("samples are those of VoD segment %d, expected %d (n mod N)", o.SrcIdx, wantIdx), in)
	}
}
