// C02: the live MPD and the segment server agree on what is available.
package main

import (
	"bytes"
	"fmt"
	"math"
	"math/big"
	"math/rand"
	"sort"
	"strconv"
	"strings"
	"sync"

	"github.com/Eyevinn/mp4ff/mp4"

	"verifharness/lib"
)

func main() { lib.Main("C02", run) }

type c02in struct {
	Asset  string    `json:"asset"`
	Cfg    lib.TLCfg `json:"cfg"`
	NowMS  int64     `json:"now_ms"`
	MPDURL string    `json:"mpd_url"`
	Rep    string    `json:"rep,omitempty"`
	Kind   string    `json:"kind,omitempty"`
	SegURL string    `json:"seg_url,omitempty"`
	Check  string    `json:"check"`
	// SnrNonzero marks Timeline-Number configurations with a non-zero startNumber
	SnrNonzero bool `json:"snr_nonzero"`
	// TruncLag marks the one instant at which the MPD may lag the server by less than 1 ms
	TruncLag bool `json:"trunc_lag,omitempty"`
	// LongAfterFirst: the segment is the first listed one and the segment after it is longer than the
	// server's 10 s margin (timeShiftBufferDepthMarginS)
	LongAfterFirst bool `json:"long_after_first,omitempty"`
	// MeanTruncated: $Number$ template of an asset with varying segment durations whose mean duration is
	// not a whole number of ticks (@duration is truncated, so the nominal timeline drifts without bound)
	MeanTruncated bool `json:"mean_truncated,omitempty"`
}

// availability instant of a segment ending at media time e (exact, ms)
func availRat(e, ts int64, c lib.TLCfg, atoMS int64) *big.Rat {
	a := new(big.Rat).SetFrac(new(big.Int).Mul(big.NewInt(e), big.NewInt(1000)), big.NewInt(ts))
	a.Add(a, new(big.Rat).SetInt64(c.StartS*1000))
	if atoMS > 0 {
		a.Sub(a, new(big.Rat).SetInt64(atoMS))
	}
	return a
}

func leInt(r *big.Rat, v int64) bool { return r.Cmp(new(big.Rat).SetInt64(v)) <= 0 }
func gtInt(r *big.Rat, v int64) bool { return r.Cmp(new(big.Rat).SetInt64(v)) > 0 }

// lastEnded: largest n with A(n) <= now, -1 if none
func lastEnded(r *lib.TLRep, c lib.TLCfg, atoMS, now int64) int64 {
	if gtInt(availRat(r.LoopE(0), r.Timescale, c, atoMS), now) {
		return -1
	}
	lo, hi := int64(0), int64(1)
	for leInt(availRat(r.LoopE(hi), r.Timescale, c, atoMS), now) {
		lo, hi = hi, hi*2
	}
	for hi-lo > 1 {
		mid := (lo + hi) / 2
		if leInt(availRat(r.LoopE(mid), r.Timescale, c, atoMS), now) {
			lo = mid
		} else {
			hi = mid
		}
	}
	return lo
}

// atoMSOfImpl mirrors setOffsetInAdaptationSet: atoMS = round(1000*ato) with ato parsed from the URL
func atoMSOfImpl(c lib.TLCfg) int64 {
	if c.AtoMS <= 0 {
		return 0
	}
	f, _ := strconv.ParseFloat(strconv.FormatFloat(float64(c.AtoMS)/1000, 'f', -1, 64), 64)
	return int64(math.Round(1000 * f))
}

// basic parse of a served segment when no trex/VoD table is at hand (generated subtitles)
func basicSeg(data []byte) (tfdt, seq, dur int64, err error) {
	f, err := mp4.DecodeFile(bytes.NewReader(data))
	if err != nil {
		return 0, 0, 0, err
	}
	if len(f.Segments) == 0 || len(f.Segments[0].Fragments) == 0 {
		return 0, 0, 0, fmt.Errorf("no fragment")
	}
	first := true
	for _, s := range f.Segments {
		for _, fr := range s.Fragments {
			if first {
				tfdt = int64(fr.Moof.Traf.Tfdt.BaseMediaDecodeTime())
				seq = int64(fr.Moof.Mfhd.SequenceNumber)
				first = false
			}
			tfhd := fr.Moof.Traf.Tfhd
			for _, trun := range fr.Moof.Traf.Truns {
				for _, sm := range trun.Samples {
					d := sm.Dur
					if !trun.HasSampleDuration() {
						d = tfhd.DefaultSampleDuration
					}
					dur += int64(d)
				}
			}
		}
	}
	return tfdt, seq, dur, nil
}

// The harness state is guarded by mu; a worker holds it except while a request is in flight
// (requests near the live edge with a finite availabilityTimeOffset are paced in real time).
type harness struct {
	mu       sync.Mutex
	c        *lib.Ctx
	ls       *lib.Livesim
	gls      *lib.Livesim    // server over the generated layouts
	gen      map[string]bool // asset paths served by gls
	rng      *rand.Rand
	terms    []string
	defs     strings.Builder
	repName  map[string]string
	distinct map[string]bool
	nMPD     int
	nSeg     int
	maxFetch int
}

type segExp struct {
	nr, t, d int64
	hasNr    bool
	hasT     bool
	tolT     int64 // tolerated lateness of tfdt / variation of duration (audio in $Number$ mode: one frame)
}

func (h *harness) fetch(a *lib.TLAsset, cfg lib.TLCfg, ao *lib.ASObs, repID string, r *lib.TLRep, nr, tm, now int64) (lib.SegObs, string) {
	name := lib.FillTemplate(ao.Media, repID, nr, tm)
	url := fmt.Sprintf("/livesim2/%s%s/%s?nowMS=%d", cfg.URLPrefix(), a.Path, name, now)
	srv := h.ls
	if h.gen[a.Path] {
		srv = h.gls
	}
	h.mu.Unlock()
	resp := srv.GetRaw(url)
	h.mu.Lock()
	h.nSeg++
	if r != nil {
		return lib.ObserveSeg(resp, r), url
	}
	o := lib.SegObs{Status: resp.Status, Panic: resp.Panic, SrcIdx: -1}
	if resp.Panic != "" {
		o.Status = 0
		return o, url
	}
	if resp.Status == 200 {
		t, s, d, err := basicSeg(resp.Body)
		if err != nil {
			o.Status, o.Panic = -1, "unparsable body: "+err.Error()
			return o, url
		}
		o.Tfdt, o.Seq, o.Dur = t, s, d
	}
	return o, url
}

func (h *harness) fail(id string, in c02in, key, what string) {
	h.c.Fail(id, key, what, in)
}

// checkListed fetches a listed segment and compares it with what the MPD declares.
func (h *harness) checkListed(id string, base c02in, a *lib.TLAsset, cfg lib.TLCfg, ao *lib.ASObs, repID string, r *lib.TLRep, e segExp, now int64) {
	o, url := h.fetch(a, cfg, ao, repID, r, e.nr, e.t, now)
	in := base
	in.Rep, in.Kind, in.SegURL, in.Check = repID, ao.ContentType, url, "listed-served"
	mode := cfg.Mode
	if o.Status != 200 {
		key := fmt.Sprintf("listed-not-served:%s:%s:%d", ao.ContentType, mode, o.Status)
		if o.Status == 0 {
			key = "panic:" + o.Panic
		}
		h.fail(id, in, key, fmt.Sprintf("MPD %s lists segment %s, the server answers %d %s", base.MPDURL, url, o.Status, o.Panic))
		return
	}
	if r != nil && r.Kind == "image" {
		return
	}
	if e.hasT && (o.Tfdt < e.t || o.Tfdt > e.t+e.tolT) {
		h.fail(id, in, fmt.Sprintf("listed-time:%s:%s", ao.ContentType, mode), fmt.Sprintf("MPD %s declares time %d for %s, the segment has tfdt %d", base.MPDURL, e.t, url, o.Tfdt))
	}
	if e.d > 0 && (o.Dur < e.d-e.tolT || o.Dur > e.d+e.tolT) {
		h.fail(id, in, fmt.Sprintf("listed-duration:%s:%s", ao.ContentType, mode), fmt.Sprintf("MPD %s declares duration %d for %s, the segment lasts %d", base.MPDURL, e.d, url, o.Dur))
	}
	if e.hasNr && o.Seq != e.nr {
		h.fail(id, in, fmt.Sprintf("listed-number:%s:%s", ao.ContentType, mode), fmt.Sprintf("MPD %s declares number %d for %s, the segment has sequence number %d", base.MPDURL, e.nr, url, o.Seq))
	}
	h.distinct[url[:strings.Index(url, "?")]] = true
}

func (h *harness) checkNext(id string, base c02in, a *lib.TLAsset, cfg lib.TLCfg, ao *lib.ASObs, repID string, r *lib.TLRep, e segExp, now int64) {
	o, url := h.fetch(a, cfg, ao, repID, r, e.nr, e.t, now)
	in := base
	in.Rep, in.Kind, in.SegURL, in.Check = repID, ao.ContentType, url, "next-too-early"
	if o.Status != 425 {
		key := fmt.Sprintf("next-not-too-early:%s:%s:%d", ao.ContentType, cfg.Mode, o.Status)
		if o.Status == 0 {
			key = "panic:" + o.Panic
		}
		h.fail(id, in, key, fmt.Sprintf("segment %s just after the live edge of MPD %s is answered %d %s instead of 425", url, base.MPDURL, o.Status, o.Panic))
	}
}

// pick: first two, last two and a few random indices of 0..n-1
func (h *harness) pick(rng *rand.Rand, n int) []int {
	if n <= h.maxFetch {
		out := make([]int, n)
		for i := range out {
			out[i] = i
		}
		return out
	}
	set := map[int]bool{0: true, 1: true, n - 1: true, n - 2: true}
	for len(set) < h.maxFetch {
		set[rng.Intn(n)] = true
	}
	var out []int
	for k := range set {
		out = append(out, k)
	}
	sort.Ints(out)
	return out
}

func (h *harness) oneMPD(a *lib.TLAsset, cfg lib.TLCfg, now int64) {
	c := h.c
	url := lib.MPDURL(a, cfg, now)
	srv := h.ls
	if h.gen[a.Path] {
		srv = h.gls
	}
	mo := lib.FetchMPD(srv, url)
	h.mu.Lock()
	defer h.mu.Unlock()
	h.nMPD++
	mid := fmt.Sprintf("m%d", h.nMPD)
	base := c02in{Asset: a.Path, Cfg: cfg, NowMS: now, MPDURL: url, Check: "mpd", SnrNonzero: cfg.Mode == "tlnr" && cfg.EffSnr() != 0}
	c.Res.Inputs[mid] = base
	c.Count("mpd/" + cfg.Mode)
	if now < cfg.StartS*1000 {
		if mo.Status != 425 {
			h.fail(mid, base, fmt.Sprintf("mpd-before-start:%d", mo.Status), fmt.Sprintf("%s before availabilityStartTime answered %d", url, mo.Status))
		}
		return
	}
	if mo.Status != 200 || len(mo.Periods) == 0 {
		key := fmt.Sprintf("mpd-status:%d", mo.Status)
		if mo.Status == 0 {
			key = "panic:" + mo.Panic
		}
		h.fail(mid, base, key, fmt.Sprintf("%s answered %d %s %s", url, mo.Status, mo.Panic, mo.Err))
		return
	}
	if mo.ASTms != cfg.StartS*1000 {
		h.fail(mid, base, "ast", fmt.Sprintf("%s: availabilityStartTime %d ms, configured start %d s", url, mo.ASTms, cfg.StartS))
	}
	atoImpl := atoMSOfImpl(cfg)
	tsbdMS := mo.TSBDms
	multi := len(mo.Periods) > 1
	for ai, ao := range mo.Periods[0].AS {
		if len(ao.RepIDs) == 0 || ao.Media == "" {
			continue
		}
		if multi {
			// periods_N: the timelines of the Periods (absolute media times, one presentationTimeOffset per Period)
			// joined in Period order are the timeline the MPD declares for this adaptation set
			if !ao.HasTimeline {
				continue
			}
			joined := *ao
			joined.Timeline = nil
			okAll := true
			for _, p := range mo.Periods {
				if ai >= len(p.AS) || len(p.AS[ai].RepIDs) == 0 || p.AS[ai].RepIDs[0] != ao.RepIDs[0] {
					okAll = false
					break
				}
				joined.Timeline = append(joined.Timeline, p.AS[ai].Timeline...)
			}
			if !okAll {
				h.fail(mid, base, "periods:adaptation-sets-differ", fmt.Sprintf("%s: the Periods do not carry the same adaptation sets in the same order", url))
				continue
			}
			if len(joined.Timeline) == 0 {
				continue // judged by timeline-empty of the single-period twin
			}
			// numbers: the first Period that lists something gives the number of the first listed segment
			for _, p := range mo.Periods {
				if len(p.AS[ai].Timeline) > 0 {
					joined.HasStartNr, joined.StartNumber = p.AS[ai].HasStartNr, p.AS[ai].StartNumber
					break
				}
			}
			ao = &joined
		}
		repID := ao.RepIDs[0]
		r := a.Rep(repID)
		id := fmt.Sprintf("%s.%d", mid, ai)
		in := base
		in.Rep, in.Kind = repID, ao.ContentType
		c.Res.Inputs[id] = in
		if ao.HasTimeline {
			h.timelineAS(id, in, a, cfg, mo, ao, repID, r, now, atoImpl, tsbdMS)
		} else if ao.HasDuration {
			h.numberAS(id, in, a, cfg, mo, ao, repID, r, now)
		}
	}
}

func (h *harness) timelineAS(id string, in c02in, a *lib.TLAsset, cfg lib.TLCfg, mo *lib.MPDObs, ao *lib.ASObs, repID string, r *lib.TLRep, now, atoImpl, tsbdMS int64) {
	c := h.c
	prng := rand.New(rand.NewSource(now + int64(len(id))))
	mode := cfg.Mode
	tl := ao.Timeline
	c.Count(fmt.Sprintf("timeline/%s/%s", ao.ContentType, mode))
	// contiguity
	for i := 1; i < len(tl); i++ {
		if tl[i].T != tl[i-1].T+tl[i-1].D {
			in.Check = "contiguous"
			h.fail(id, in, "timeline-gap:"+ao.ContentType, fmt.Sprintf("%s: entry %d starts at %d, the previous one ends at %d", in.MPDURL, i, tl[i].T, tl[i-1].T+tl[i-1].D))
			break
		}
	}
	own := r != nil && r.Kind != "audio" && r.Kind != "image" // has its own segment table and timeline
	if strings.Contains(cfg.Extra, "periods_") {
		own = false // joined view of a multi-period MPD: judged by the oracle (the split itself is C06's model)
	}
	ref := a.Ref()
	if own {
		// correspondence case for the model of generateTimelineEntries
		name, ok := h.repName[a.Path+"/"+repID]
		if !ok {
			name = fmt.Sprintf("rep_%d", len(h.repName))
			h.repName[a.Path+"/"+repID] = name
			fmt.Fprintf(&h.defs, "Definition %s : rep := %s.\n", name, lib.CoqRep(r.VodRep))
		}
		firstT := int64(-1)
		var dr []string
		for _, e := range ao.Entries {
			dr = append(dr, fmt.Sprintf("(%d, %d)", e.D, e.R))
		}
		if len(tl) > 0 {
			firstT = tl[0].T
		}
		snr := int64(-1)
		if ao.HasStartNr {
			snr = ao.StartNumber
		}
		// the model's startNumber is the 0-based index; the MPD adds the configured startNumber
		h.terms = append(h.terms, fmt.Sprintf("{| c_id := %d; k_rep := %s; k_loopMS := %d; k_cfg := %s; k_now := %d; k_tsbdMS := %d; k_atoMS := %d; k_nr := %s; o_startNr := %s; o_first_t := %s; o_dr := [%s] |}",
			len(h.terms), name, a.LoopMS, cfg.CoqCfg(), now, tsbdMS, atoImpl, lib.Cbool(mode == "tlnr"), lib.Zs(snr), lib.Zs(firstT), strings.Join(dr, "; ")))
		c.Res.Inputs[fmt.Sprint(len(h.terms)-1)] = in
	}
	// the edge segments by the property text, from the harness's own segment table
	edgeRep := r
	if !own {
		edgeRep = ref // audio and generated subtitles follow the video segments
	}
	last := lastEnded(edgeRep, cfg, cfg.AtoMS, now)
	if last < 0 {
		if len(tl) != 0 {
			in.Check = "empty"
			h.fail(id, in, "timeline-not-empty:"+ao.ContentType, fmt.Sprintf("%s lists %d segments although none has ended", in.MPDURL, len(tl)))
		}
		// the first segment is too early
		e := segExp{nr: cfg.EffSnr(), t: 0, hasNr: true}
		h.checkNext(id+".n", in, a, cfg, ao, repID, r, e, now)
		return
	}
	if len(tl) == 0 {
		in.Check = "empty"
		h.fail(id, in, "timeline-empty:"+ao.ContentType, fmt.Sprintf("%s lists no segment although segment index %d has ended (less availabilityTimeOffset)", in.MPDURL, last))
		return
	}
	startNr := int64(0)
	if ao.HasStartNr {
		startNr = ao.StartNumber
	} else if mode == "tlnr" {
		startNr = 1 // DASH default
	}
	if own {
		// last entry = newest ended segment; first entry not older than the window allows
		lt := tl[len(tl)-1]
		lastListed := last
		if lt.T != r.LoopS(last) || lt.D != r.LoopE(last)-r.LoopS(last) {
			in.Check = "last-entry"
			key := "last-entry:" + ao.ContentType
			// TruncLag: the instant is the very millisecond at which the segment ends (less offset)
			// and the millisecond -> tick conversions of the MPD code truncate
			A := availRat(r.LoopE(last), r.Timescale, cfg, cfg.AtoMS)
			if last > 0 && lt.T == r.LoopS(last-1) && !gtInt(A, now) && gtInt(A, now-1) &&
				((cfg.AtoMS > 0 && (cfg.AtoMS*r.Timescale)%1000 != 0) || ((now-cfg.StartS*1000)%a.LoopMS*r.Timescale)%1000 != 0 || atoImpl != max64(cfg.AtoMS, 0)) {
				in.TruncLag = true
				lastListed = last - 1
			}
			h.fail(id, in, key, fmt.Sprintf("%s: last entry (t=%d,d=%d), the newest segment that has ended (less availabilityTimeOffset) is index %d (t=%d,d=%d)", in.MPDURL, lt.T, lt.D, last, r.LoopS(last), r.LoopE(last)-r.LoopS(last)))
			in.TruncLag = false
		}
		// index of the first entry: the segment starting at tl[0].T
		first := lastListed - int64(len(tl)-1)
		if first < 0 || r.LoopS(first) != tl[0].T {
			in.Check = "first-entry"
			h.fail(id, in, "first-entry-time:"+ao.ContentType, fmt.Sprintf("%s: first entry t=%d is not the start of segment index %d", in.MPDURL, tl[0].T, first))
		} else if first > 0 || len(tl) > 1 {
			// segment first+1 must have become available after the start of the window
			if tsbdMS >= 0 && leInt(availRat(r.LoopE(first+1), r.Timescale, cfg, cfg.AtoMS), now-tsbdMS) && first+1 <= lastListed {
				in.Check = "first-entry"
				h.fail(id, in, "first-entry-too-old:"+ao.ContentType, fmt.Sprintf("%s: first entry is segment index %d, but index %d was already available at the start of the time-shift window (now-%d ms)", in.MPDURL, first, first+1, tsbdMS))
			}
		}
		if mode == "tlnr" && ao.HasStartNr && startNr != cfg.EffSnr()+first {
			in.Check = "start-number"
			h.fail(id, in, "start-number:"+ao.ContentType, fmt.Sprintf("%s: startNumber %d, the first listed segment (t=%d) is index %d from availabilityStartTime, i.e. number %d", in.MPDURL, startNr, tl[0].T, first, cfg.EffSnr()+first))
		}
	}
	// every (sampled) listed segment is served as declared
	for _, i := range h.pick(prng, len(tl)) {
		e := segExp{t: tl[i].T, d: tl[i].D, hasT: true}
		if mode == "tlnr" {
			e.nr, e.hasNr = startNr+int64(i), true
		}
		lin := in
		lin.LongAfterFirst = i == 0 && len(tl) > 1 && tl[1].D > 10*ao.Timescale
		h.checkListed(fmt.Sprintf("%s.s%d", id, i), lin, a, cfg, ao, repID, r, e, now)
	}
	lt := tl[len(tl)-1]
	e := segExp{t: lt.T + lt.D, nr: startNr + int64(len(tl))}
	h.checkNext(id+".n", in, a, cfg, ao, repID, r, e, now)
}

func (h *harness) numberAS(id string, in c02in, a *lib.TLAsset, cfg lib.TLCfg, mo *lib.MPDObs, ao *lib.ASObs, repID string, r *lib.TLRep, now int64) {
	c := h.c
	prng := rand.New(rand.NewSource(now + int64(len(id))))
	c.Count(fmt.Sprintf("template/%s", ao.ContentType))
	sn := int64(1)
	if ao.HasStartNr {
		sn = ao.StartNumber
	}
	if sn != cfg.EffSnr() && !(r != nil && r.Kind == "image" && cfg.Snr < 0) {
		in.Check = "start-number"
		h.fail(id, in, "template-start-number:"+ao.ContentType, fmt.Sprintf("%s: startNumber %d, configured %d", in.MPDURL, sn, cfg.EffSnr()))
	}
	d, ts := ao.Duration, ao.Timescale
	ref := a.Ref()
	// constant duration? (exact agreement is claimed only then)
	tab := r
	if tab == nil || tab.Kind == "audio" {
		tab = ref
	}
	constant := true
	for _, s := range tab.Segs {
		if s.End-s.Start != tab.Segs[0].End-tab.Segs[0].Start {
			constant = false
		}
	}
	if constant && tab.Kind != "image" && (r == nil || r.Kind != "audio") {
		sd := tab.Segs[0].End - tab.Segs[0].Start
		if new(big.Rat).SetFrac64(d, ts).Cmp(new(big.Rat).SetFrac64(sd, tab.Timescale)) != 0 {
			in.Check = "template-duration"
			h.fail(id, in, "template-duration:"+ao.ContentType, fmt.Sprintf("%s: @duration/@timescale = %d/%d, segments last %d/%d", in.MPDURL, d, ts, sd, tab.Timescale))
		}
	}
	if cfg.AtoMS < 0 {
		// infinite offset: every number from startNumber on is available
		// (only numbers whose media time has passed: with an infinite offset the server answers a
		// request for a future segment by pacing it out in real time)
		le := lastEnded(ref, cfg, 0, now)
		for _, k := range []int64{sn, sn + le/2, sn + le} {
			if le < 0 {
				break
			}
			e := segExp{nr: k, hasNr: true}
			h.checkListed(fmt.Sprintf("%s.k%d", id, k), in, a, cfg, ao, repID, r, e, now)
		}
		return
	}
	// nominal availability of number k: AST + (k-sn+1)*d/ts - ato <= now
	endMS := func(k int64) *big.Rat {
		x := new(big.Rat).SetFrac(new(big.Int).Mul(big.NewInt((k-sn+1)*d), big.NewInt(1000)), big.NewInt(ts))
		x.Add(x, new(big.Rat).SetInt64(cfg.StartS*1000))
		if cfg.AtoMS > 0 {
			x.Sub(x, new(big.Rat).SetInt64(cfg.AtoMS))
		}
		return x
	}
	rel := new(big.Rat).SetInt64(now - cfg.StartS*1000 + max64(cfg.AtoMS, 0))
	rel.Mul(rel, new(big.Rat).SetFrac64(ts, 1000*d))
	nAvail := new(big.Int).Quo(rel.Num(), rel.Denom()).Int64() // number of segments whose nominal end has passed
	skipK := int64(0)
	if !constant {
		// agreement within the duration variation: stay away from both edges by the largest
		// deviation of a real segment end from its nominal end (k+1)*d, plus one segment
		dev := new(big.Rat)
		for n := int64(0); n < int64(len(tab.Segs)); n++ {
			x := new(big.Rat).SetFrac64(tab.Segs[n].End*1000, tab.Timescale)
			x.Sub(x, new(big.Rat).SetFrac64((n+1)*d*1000, ts))
			x.Abs(x)
			if x.Cmp(dev) > 0 {
				dev = x
			}
		}
		in.MeanTruncated = (tab.Duration()*ts)%(int64(len(tab.Segs))*tab.Timescale) != 0
		dev.Mul(dev, new(big.Rat).SetFrac64(ts, 1000*d))
		skipK = new(big.Int).Quo(dev.Num(), dev.Denom()).Int64() + 2
		nAvail -= skipK
	}
	if nAvail <= 0 {
		e := segExp{nr: sn, hasNr: true}
		if constant {
			h.checkNext(id+".n", in, a, cfg, ao, repID, r, e, now)
		}
		return
	}
	kLast := sn + nAvail - 1
	tsbdMS := mo.TSBDms
	kFirst := sn
	for kFirst < kLast && tsbdMS >= 0 && leInt(endMS(kFirst), now-tsbdMS-1) {
		// binary search would be nicer; windows are short
		step := (kLast - kFirst) / 2
		if step > 0 && leInt(endMS(kFirst+step), now-tsbdMS-1) {
			kFirst += step
		} else {
			kFirst++
		}
	}
	kFirst += skipK
	if kFirst > kLast {
		return
	}
	n := int(kLast - kFirst + 1)
	for _, i := range h.pick(prng, n) {
		k := kFirst + int64(i)
		e := segExp{nr: k, hasNr: true}
		if constant {
			// declared time and duration in the timescale of the served media
			mts := ts
			if r != nil {
				mts = r.Timescale
			} else {
				mts = 1000 // generated subtitles
			}
			if ((k-sn)*d*mts)%ts == 0 && (d*mts)%ts == 0 {
				e.t, e.d, e.hasT = (k-sn)*d*mts/ts, d*mts/ts, true
			}
			if r != nil && r.Kind == "audio" {
				F := (r.Segs[0].End - r.Segs[0].Start) / int64(r.Segs[0].NSamples)
				e.tolT = F
			}
			if r == nil {
				e.tolT = 1
			}
		}
		h.checkListed(fmt.Sprintf("%s.k%d", id, k), in, a, cfg, ao, repID, r, e, now)
	}
	if constant {
		h.checkNext(id+".n", in, a, cfg, ao, repID, r, segExp{nr: kLast + 1, hasNr: true}, now)
	}
}

func max64(a, b int64) int64 {
	if a > b {
		return a
	}
	return b
}

func run(c *lib.Ctx) error {
	assets, err := lib.LoadBundledAssets(lib.TestVodRoot)
	if err != nil {
		return err
	}
	ls, err := lib.NewLivesim(lib.TestVodRoot, nil)
	if err != nil {
		return err
	}
	h := &harness{c: c, ls: ls, rng: rand.New(rand.NewSource(c.Seed)), repName: map[string]string{}, distinct: map[string]bool{}, gen: map[string]bool{}, maxFetch: 6}
	// generated layouts: a few of the catalogue and one with a 30 s segment between two 4 s segments
	// (findings stream: the first listed entry can already be gone when the next segment is longer than
	// the server's 10 s margin)
	long30 := lib.GenAsset{Name: "g_long30", Reps: []lib.GenRep{lib.VideoRep("V1", 90000, 3000, []uint64{360000, 2700000, 360000})}}
	layouts := []lib.GenAsset{long30}
	for _, l := range lib.GenCatalogue() {
		if l.Class == "ok" && (c.Thorough() || l.Asset.Name == "g_irr7_12800" || l.Asset.Name == "g_avgfirst_tl" || l.Asset.Name == "g_thumbs_first" || l.Asset.Name == "g_mixed_n" || l.Asset.Name == "g_mixed_n2" || l.Asset.Name == "g_sub_15360" || l.Asset.Name == "g_ntsc_multi") {
			layouts = append(layouts, l.Asset)
		}
	}
	gAssets, gls, cleanup, err := lib.GenSetup("c02", layouts)
	if err != nil {
		return err
	}
	defer cleanup()
	h.gls = gls
	for _, a := range gAssets {
		h.gen[a.Path] = true
	}
	if c.Replay != "" {
		in, err := lib.LoadReplayInput[c02in](c.Replay)
		if err != nil {
			return err
		}
		for _, a := range append(append([]*lib.TLAsset{}, assets...), gAssets...) {
			if a.Path == in.Asset {
				h.maxFetch = 1 << 30
				h.oneMPD(a, in.Cfg, in.NowMS)
			}
		}
		for _, f := range c.Res.OracleFailures {
			fmt.Printf("replay: %s: %s\n", f.Key, f.What)
		}
		return nil
	}
	modes := []string{"tlt", "tlnr", "number"}
	starts := []int64{0, 0, 30, 1600000000}
	tsbds := []int64{-1, -1, 0, 1, 10, 60, 61, 172800}
	snrs := []int64{-1, -1, 0, 1, 7}
	extras := []string{"", "", "", "timesubsstpp_en,sv/", "timesubswvtt_en/", "timesubsstpp_en,pt-BR/", "timesubswvtt_zh-Hans/"}
	nCfg, nInst := 7, 10
	if c.Thorough() {
		nCfg, nInst = 40, 24
		h.maxFetch = 12
	}
	type job struct {
		a   *lib.TLAsset
		cfg lib.TLCfg
		now int64
	}
	var jobs []job
	pairs := lib.NewPairCover()
	for _, a := range assets {
		ref := a.Ref()
		N := int64(len(ref.Segs))
		segMS := a.LoopMS / N
		for k := 0; k < nCfg; k++ {
			// six random candidates; the one covering the most new pairs of option values is taken
			var cands []lib.TLCfg
			for q := 0; q < 6; q++ {
				cand := lib.TLCfg{StartS: starts[h.rng.Intn(len(starts))], Snr: snrs[h.rng.Intn(len(snrs))], Tsbd: tsbds[h.rng.Intn(len(tsbds))], Mode: modes[h.rng.Intn(3)], Extra: extras[h.rng.Intn(len(extras))]}
				switch h.rng.Intn(7) {
				case 0:
					if cand.Mode == "number" {
						cand.AtoMS = -1
					}
				case 1:
					cand.AtoMS = segMS / 4
				case 2:
					cand.AtoMS = segMS / 2
				case 3:
					cand.AtoMS = 1 + h.rng.Int63n(segMS-1)
				case 4:
					cand.AtoMS = segMS + segMS/4 // longer than a segment: reaches into the next loop at a wrap
				case 5:
					if tr := lib.TruncatingAtoMS(segMS); len(tr) > 0 {
						cand.AtoMS = tr[h.rng.Intn(len(tr))] // e.g. 1.001: float64(1.001)*1000 < 1001
					}
				}
				if cand.AtoMS > 0 {
					cand.Extra = "" // see below
				}
				cands = append(cands, cand)
			}
			cfg := pairs.Pick("mpd", segMS, cands)
			if k < 3 {
				cfg = lib.TLCfg{Snr: -1, Tsbd: -1, Mode: modes[k]}
			}
			if k == 5 {
				// an offset whose float64 form times 1000 lies just below a whole millisecond, timeline modes
				if tr := lib.TruncatingAtoMS(segMS); len(tr) > 0 {
					cfg = lib.TLCfg{Snr: -1, Tsbd: -1, Mode: []string{"tlt", "tlnr"}[len(jobs)%2], AtoMS: tr[h.rng.Intn(len(tr))]}
					pairs.Add("mpd", segMS, cfg)
				}
			}
			if k == 3 || k == 4 {
				// every asset (every video timescale) with generated subtitles under both timeline modes
				cfg = lib.TLCfg{Snr: -1, Tsbd: -1, Mode: []string{"tlt", "tlnr"}[k-3], Extra: []string{"timesubsstpp_en,sv/", "timesubswvtt_en/", "timesubsstpp_en,pt-BR/", "timesubswvtt_zh-Hans/"}[(k+len(jobs))%4]}
				pairs.Add("mpd", segMS, cfg)
			}
			if k == 6 && 60000%segMS == 0 && a.LoopMS%1000 == 0 {
				// periods_60 under both timeline modes: the joined timelines of the Periods are what the MPD declares
				// (audio segments straddle every second Period boundary)
				cfg = lib.TLCfg{StartS: []int64{0, 30}[len(jobs)%2], Snr: -1, Tsbd: []int64{-1, 120}[(len(jobs)/2)%2], Mode: []string{"tlt", "tlnr"}[len(jobs)%2], Extra: "periods_60/"}
			}
			if cfg.AtoMS > 0 {
				// a finite offset switches the server to paced chunked delivery of the newest segments
				// (C09); keep those runs short
				cfg.Extra = ""
			}
			// instants: breakpoints of the piecewise-constant behaviour and both sides of each
			var nows []int64
			s0 := cfg.StartS * 1000
			nows = append(nows, s0, s0+1)
			if s0 > 0 {
				nows = append(nows, s0-1)
			}
			var idx []int64
			idx = append(idx, 0, 1, N-1, N, 2*N-1, 2*N, N+h.rng.Int63n(2*N), 40+h.rng.Int63n(3*N), 2000000+h.rng.Int63n(1000))
			for len(idx) < nInst {
				idx = append(idx, h.rng.Int63n(6*N+60))
			}
			for _, n := range idx[:nInst] {
				A := availRat(ref.LoopE(n), ref.Timescale, cfg, cfg.AtoMS)
				q := new(big.Int).Quo(A.Num(), A.Denom()).Int64()
				if !A.IsInt() {
					q++
				}
				b := q + []int64{-1, 0, 0, 1, 500}[h.rng.Intn(5)]
				if h.rng.Intn(4) == 0 {
					b = q + cfg.EffTsbd()*1000 + []int64{-1, 0, 1}[h.rng.Intn(3)] // the segment reaches the window edge
				}
				nows = append(nows, b)
			}
			for _, now := range nows {
				if now < 0 {
					continue
				}
				jobs = append(jobs, job{a, cfg, now})
			}
		}
	}
	for gi, a := range gAssets {
		h.gen[a.Path] = true
		ref := a.Ref()
		if ref == nil {
			continue
		}
		N := int64(len(ref.Segs))
		for k := 0; k < 3; k++ {
			cfg := lib.TLCfg{Snr: -1, Tsbd: []int64{-1, 20, 1}[k], Mode: modes[(k+gi)%3]}
			if a.Path == "g_long30" {
				cfg = lib.TLCfg{Snr: -1, Tsbd: 20, Mode: modes[k%2]}
				jobs = append(jobs, job{a, cfg, 34500}, job{a, cfg, 72500}, job{a, cfg, 91500})
			}
			for _, n := range []int64{0, N - 1, N, 3*N + 1, 2000000} {
				A := availRat(ref.LoopE(n), ref.Timescale, cfg, cfg.AtoMS)
				q := new(big.Int).Quo(A.Num(), A.Denom()).Int64()
				if !A.IsInt() {
					q++
				}
				jobs = append(jobs, job{a, cfg, q - 1}, job{a, cfg, q}, job{a, cfg, q + 700})
			}
		}
	}
	var wg sync.WaitGroup
	sem := make(chan struct{}, 48)
	for _, j := range jobs {
		wg.Add(1)
		sem <- struct{}{}
		go func(j job) {
			defer wg.Done()
			defer func() { <-sem }()
			h.oneMPD(j.a, j.cfg, j.now)
		}(j)
	}
	wg.Wait()
	c.Res.Evaluations = h.nMPD + h.nSeg
	c.Res.ModelCases = len(h.terms)
	c.Res.DistinctNontrivial = len(h.distinct)
	c.Res.Notes = append(c.Res.Notes, pairs.Summary())
	c.Res.Rule = fmt.Sprintf("%d MPDs (bundled assets x sampled product of {Number, Timeline-Time, Timeline-Number} x start {0,30,1.6e9} x tsbd {default,0,1,10,60,61,172800} x startNumber {unset,0,1,7} x availabilityTimeOffset {0, 1/4, 1/2, random fraction of a segment, inf} x generated subtitles; instants: stream start, segment ends +-1 ms over 2+ loop periods and far from the epoch, window-edge coincidences) and %d segment requests derived from them (first/last/random listed segments of every adaptation set incl. audio, text, thumbnails, generated subtitles, plus the one after the live edge); distinct = distinct listed segment URLs served exactly as declared", h.nMPD, h.nSeg)
	for k, v := range c.Res.Inputs {
		if len(c.Res.Samples) >= 3 {
			break
		}
		if strings.Contains(k, ".") {
			c.Sample(v)
		}
	}
	// cases with a 48 h window carry long timelines: the cases are dealt out round-robin over small
	// shards, which are evaluated in parallel
	nShards := (len(h.terms) + 39) / 40
	if nShards > 16 {
		nShards = 16
	}
	for s := 0; s < nShards; s++ {
		var part []string
		for i := s; i < len(h.terms); i += nShards {
			part = append(part, h.terms[i])
		}
		c.WriteCases(fmt.Sprintf("cases_C02_%d.v", s),
			lib.CasesFile("From Verif Require Import GoSem Timeline CorrC02.", "c02case", h.defs.String(), part, "model_view"))
	}
	return nil
}
