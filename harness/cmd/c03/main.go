// c03: audio is re-segmented to follow video boundaries without loss or duplication.
//
// L1 (authoritative): an in-process livesim2 over the bundled assets and over scratch assets built
// from them (audio grid != video grid, audio loop shorter/longer than the video loop). The harness
// parses the VoD audio segments itself (frame table with a SHA-256 per frame), requests video and
// audio segments ($Number$ and SegmentTimeline $Time$ addressing, many wraps, far from the epoch),
// evaluates the property text on every response (oracle) and writes the cases for the Coq model.
// L2: calcAudioTimeFromRef / calcAudioSegRecipe / createAudioSeg / generateTimelineEntriesFromRef
// through the hook file verif_hooks_c03.go on random arguments and synthetic in-memory assets.
package main

import (
	"bytes"
	"crypto/sha256"
	"encoding/binary"
	"fmt"
	"math/big"
	"math/rand"
	"os"
	"path/filepath"
	"regexp"
	"sort"
	"strings"
	"testing/fstest"

	"github.com/Dash-Industry-Forum/livesim2/cmd/livesim2/app"
	m "github.com/Eyevinn/dash-mpd/mpd"
	"github.com/Eyevinn/mp4ff/mp4"
	"verifharness/lib"
)

func main() { lib.Main("C03", runC03) }

// ---------------------------------------------------------------- VoD parsing (independent of livesim2)

type frame struct {
	Dur  uint32
	Hash [32]byte
	Idx  int64 // payload index of a synthetic frame, -1 otherwise
}

type vodSeg struct {
	Start, End uint64
	Frames     []frame
}

type vodRep struct {
	Timescale uint64
	Segs      []vodSeg
	trex      *mp4.TrexBox
	Dflt      uint32 // RepData.DefaultSampleDuration as livesim2 derives it: trex, overwritten by the tfhd default of the last fragment of each segment read
}

func parseInit(path string) (*mp4.InitSegment, error) {
	data, err := os.ReadFile(path)
	if err != nil {
		return nil, err
	}
	f, err := mp4.DecodeFile(bytes.NewReader(data))
	if err != nil {
		return nil, err
	}
	if f.Init == nil || f.Init.Moov == nil || f.Init.Moov.Trak == nil {
		return nil, fmt.Errorf("%s: no init segment", path)
	}
	return f.Init, nil
}

type parsedSeg struct {
	Tfdt        uint64
	Seq         uint32
	Frames      []frame
	NFrag       int
	TfhdDefault uint32 // default_sample_duration in the tfhd of the last fragment, 0 if absent
}

func parseMedia(data []byte, trex *mp4.TrexBox) (ps parsedSeg, err error) {
	defer func() {
		if r := recover(); r != nil {
			err = fmt.Errorf("parse panic: %v", r)
		}
	}()
	f, err := mp4.DecodeFile(bytes.NewReader(data))
	if err != nil {
		return ps, err
	}
	first := true
	for _, s := range f.Segments {
		for _, fr := range s.Fragments {
			if first {
				ps.Tfdt = fr.Moof.Traf.Tfdt.BaseMediaDecodeTime()
				ps.Seq = fr.Moof.Mfhd.SequenceNumber
				first = false
			}
			ps.NFrag++
			ps.TfhdDefault = 0
			if fr.Moof.Traf.Tfhd.HasDefaultSampleDuration() {
				ps.TfhdDefault = fr.Moof.Traf.Tfhd.DefaultSampleDuration
			}
			fss, err := fr.GetFullSamples(trex)
			if err != nil {
				return ps, err
			}
			for _, fs := range fss {
				fm := frame{Dur: fs.Dur, Hash: sha256.Sum256(fs.Data), Idx: -1}
				if len(fs.Data) == 8 && fs.Data[0] == 'V' && fs.Data[1] == 'F' {
					fm.Idx = int64(binary.BigEndian.Uint32(fs.Data[4:]))
				}
				ps.Frames = append(ps.Frames, fm)
			}
		}
	}
	if first {
		return ps, fmt.Errorf("no fragment")
	}
	return ps, nil
}

func (ps parsedSeg) dur() uint64 {
	var d uint64
	for _, f := range ps.Frames {
		d += uint64(f.Dur)
	}
	return d
}

func loadVodRep(initPath, glob string) (*vodRep, error) {
	init, err := parseInit(initPath)
	if err != nil {
		return nil, err
	}
	rep := &vodRep{Timescale: uint64(init.Moov.Trak.Mdia.Mdhd.Timescale)}
	if init.Moov.Mvex != nil {
		rep.trex = init.Moov.Mvex.Trex
		if rep.trex != nil {
			rep.Dflt = rep.trex.DefaultSampleDuration
		}
	}
	files, _ := filepath.Glob(glob)
	for _, p := range files {
		if strings.HasSuffix(p, "init.mp4") {
			continue
		}
		data, err := os.ReadFile(p)
		if err != nil {
			return nil, err
		}
		ps, err := parseMedia(data, rep.trex)
		if err != nil {
			return nil, fmt.Errorf("%s: %w", p, err)
		}
		rep.Segs = append(rep.Segs, vodSeg{Start: ps.Tfdt, End: ps.Tfdt + ps.dur(), Frames: ps.Frames})
		if ps.TfhdDefault != 0 {
			rep.Dflt = ps.TfhdDefault
		}
	}
	if len(rep.Segs) == 0 {
		return nil, fmt.Errorf("no segments match %s", glob)
	}
	sort.Slice(rep.Segs, func(i, j int) bool { return rep.Segs[i].Start < rep.Segs[j].Start })
	return rep, nil
}

// ---------------------------------------------------------------- assets

type assetDesc struct {
	// AudioRep / RefRep: representation ids of the audio track under test and of the reference track, for assets
	// whose reference is an audio track itself (no video); empty = first audio / first video adaptation set
	AudioRep, RefRep string
	Light            bool   // fewer segment runs (the asset differs from another one only in the shape of its VoD MPD, or is one of several tracks of one asset)
	Name             string // label used in case inputs and Coq definitions
	Scratch          bool
	URLPath          string
	MPD              string
	Dir              string // directory of the asset below the vod root
	AudioInit        string
	AudioGlob        string
	VideoInit        string
	VideoGlob        string
}

const wavePath = "WAVE/vectors/cfhd_sets/14.985_29.97_59.94/t1/2022-10-17"

func bundled() []assetDesc {
	tp := func(n string) assetDesc {
		return assetDesc{Name: n, URLPath: n, MPD: "Manifest.mpd", Dir: n, AudioInit: "A48/init.mp4", AudioGlob: "A48/*.m4s",
			VideoInit: "V300/init.mp4", VideoGlob: "V300/*.m4s"}
	}
	return []assetDesc{
		tp("testpic_2s"), tp("testpic_8s"), tp("testpic_6s"), tp("testpic_alt_seg_dur_stl"),
		{Name: "bbb_ac3", URLPath: "bbb_hevc_ac3_8s", MPD: "manifest.mpd", Dir: "bbb_hevc_ac3_8s",
			AudioInit: "audio_init.mp4", AudioGlob: "audio_*.m4s", VideoInit: "video_init.mp4", VideoGlob: "video_*.m4s"},
		{Name: "wave2997", URLPath: wavePath, MPD: "stream_w_beeps.mpd", Dir: wavePath,
			AudioInit: "A48/init.mp4", AudioGlob: "A48/*.m4s", VideoInit: "1/init.mp4", VideoGlob: "1/*.m4s"},
	}
}

const scratchMPD = `<?xml version="1.0" encoding="utf-8"?>
<MPD xmlns="urn:mpeg:dash:schema:mpd:2011" profiles="urn:mpeg:dash:profile:isoff-live:2011" maxSegmentDuration="PT8S" minBufferTime="PT2S" type="static" mediaPresentationDuration="PT8S" id="scratch">
   <Period id="one" start="PT0S">
      <AdaptationSet contentType="audio" id="1" mimeType="audio/mp4" lang="en" segmentAlignment="true" startWithSAP="1">
         <Role schemeIdUri="urn:mpeg:dash:role:2011" value="main"/>
         <SegmentTemplate startNumber="1" initialization="$RepresentationID$/init.mp4" duration="2" media="$RepresentationID$/$Number$.m4s"/>
         <Representation id="A48" codecs="@CODEC@" bandwidth="48000" audioSamplingRate="48000"/>
      </AdaptationSet>
      <AdaptationSet contentType="video" id="2" mimeType="video/mp4" segmentAlignment="true" startWithSAP="1" par="16:9" maxWidth="640" maxHeight="360" maxFrameRate="60/2">
         <Role schemeIdUri="urn:mpeg:dash:role:2011" value="main"/>
         <SegmentTemplate startNumber="1" initialization="$RepresentationID$/init.mp4" duration="2" media="$RepresentationID$/$Number$.m4s"/>
         <Representation id="V300" codecs="avc1.64001e" bandwidth="300000" width="640" height="360" frameRate="60/2" sar="1:1"/>
      </AdaptationSet>
   </Period>
</MPD>
`

func copyFile(src, dst string) error {
	data, err := os.ReadFile(src)
	if err != nil {
		return err
	}
	if err := os.MkdirAll(filepath.Dir(dst), 0o755); err != nil {
		return err
	}
	return os.WriteFile(dst, data, 0o644)
}

// scratchSpec: audio files and video files (in order) copied to A48/<k>.m4s and V300/<k>.m4s.
type scratchSpec struct {
	Name       string
	Codec      string
	AudioInit  string
	AudioSegs  []string
	VideoInit  string
	VideoSegs  []string
	DropFrames int // frames removed from the end of the last audio segment
}

func scratchSpecs() []scratchSpec {
	t := lib.TestVodRoot
	nums := func(dir string, pat string, n int) []string {
		var l []string
		for i := 1; i <= n; i++ {
			l = append(l, filepath.Join(t, dir, fmt.Sprintf(pat, i)))
		}
		return l
	}
	return []scratchSpec{
		// one 8 s audio segment against four 2 s video segments (output interval inside a VoD segment)
		{Name: "a8v2", Codec: "mp4a.40.2", AudioInit: t + "/testpic_8s/A48/init.mp4", AudioSegs: nums("testpic_8s/A48", "%d.m4s", 1),
			VideoInit: t + "/testpic_2s/V300/init.mp4", VideoSegs: nums("testpic_2s/V300", "%d.m4s", 4)},
		// four 2 s audio segments against one 8 s video segment (several input intervals per output segment)
		{Name: "a2v8", Codec: "mp4a.40.2", AudioInit: t + "/testpic_2s/A48/init.mp4", AudioSegs: nums("testpic_2s/A48", "%d.m4s", 4),
			VideoInit: t + "/testpic_8s/V300/init.mp4", VideoSegs: nums("testpic_8s/V300", "%d.m4s", 1)},
		// 8 s of audio against a 6 s video loop (audio loop longer than the video loop: cut)
		{Name: "a8loop6", Codec: "mp4a.40.2", AudioInit: t + "/testpic_2s/A48/init.mp4", AudioSegs: nums("testpic_2s/A48", "%d.m4s", 4),
			VideoInit: t + "/testpic_2s/V300/init.mp4", VideoSegs: nums("testpic_2s/V300", "%d.m4s", 3)},
		// audio loop three frames shorter than the video loop (padding with the last frame)
		{Name: "short3", Codec: "mp4a.40.2", AudioInit: t + "/testpic_2s/A48/init.mp4", AudioSegs: nums("testpic_2s/A48", "%d.m4s", 4),
			VideoInit: t + "/testpic_2s/V300/init.mp4", VideoSegs: nums("testpic_2s/V300", "%d.m4s", 4), DropFrames: 3},
		// AC-3 (1536-sample frames), four 2 s audio segments against one 8 s video segment
		{Name: "ac3v8", Codec: "ac-3", AudioInit: t + "/bbb_hevc_ac3_8s/audio_init.mp4", AudioSegs: nums("bbb_hevc_ac3_8s", "audio_%d.m4s", 4),
			VideoInit: t + "/testpic_8s/V300/init.mp4", VideoSegs: nums("testpic_8s/V300", "%d.m4s", 1)},
	}
}

func dropLastFrames(src, dst string, trex *mp4.TrexBox, n int) error {
	data, err := os.ReadFile(src)
	if err != nil {
		return err
	}
	f, err := mp4.DecodeFile(bytes.NewReader(data))
	if err != nil {
		return err
	}
	seg := f.Segments[0]
	var fss []mp4.FullSample
	for _, fr := range seg.Fragments {
		l, err := fr.GetFullSamples(trex)
		if err != nil {
			return err
		}
		fss = append(fss, l...)
	}
	old := seg.Fragments[0]
	nf, err := mp4.CreateFragment(old.Moof.Mfhd.SequenceNumber, old.Moof.Traf.Tfhd.TrackID)
	if err != nil {
		return err
	}
	for _, fs := range fss[:len(fss)-n] {
		nf.AddFullSample(fs)
	}
	ns := mp4.NewMediaSegment()
	ns.AddFragment(nf)
	var buf bytes.Buffer
	if err := ns.Encode(&buf); err != nil {
		return err
	}
	return os.WriteFile(dst, buf.Bytes(), 0o644)
}

// genAssets: synthetic assets written with lib.WriteAsset (every sample payload distinct): fractional
// frame boundaries (1001-based video against 44.1 kHz audio), AC-3 on its own segment grid, output
// intervals strictly inside one VoD audio segment, audio loop longer / shorter than the video loop,
// several fragments per VoD segment, sample durations in tfhd; plus random layouts drawn from the seed.
func genAssets(rng *rand.Rand, nRand int) []lib.GenAsset {
	mk := func(name string, v, a lib.GenRep) lib.GenAsset {
		return lib.GenAsset{Name: name, Reps: []lib.GenRep{v, a}}
	}
	var out []lib.GenAsset
	{
		vd := lib.UniformDurs(4, 60060)
		a := lib.AudioRep("A48", 1024, lib.AudioDursFollowing(vd, 30000, 44100, 1024, 0))
		a.Timescale = 44100
		out = append(out, mk("g2997a441", lib.VideoRep("V300", 30000, 1001, vd), a))
	}
	out = append(out, mk("gac3own", lib.VideoRep("V300", 12800, 512, lib.UniformDurs(3, 24576)), lib.AudioRep("A48", 1536, lib.FrameDurs(1536, 100, 80))))
	out = append(out, mk("ginner", lib.VideoRep("V300", 90000, 3000, lib.UniformDurs(8, 90000)), lib.AudioRep("A48", 1024, lib.FrameDurs(1024, 375))))
	out = append(out, mk("glong", lib.VideoRep("V300", 90000, 3000, lib.UniformDurs(3, 180000)),
		lib.AudioRep("A48", 1024, lib.AudioDursFollowing(lib.UniformDurs(4, 180000), 90000, 48000, 1024, 2))))
	{
		vd := lib.AlternatingDurs(5, 180000, 90000)
		a := lib.AudioRep("A48", 1024, lib.AudioDursFollowing(vd, 90000, 48000, 1024, -2))
		a.Frags, a.CompactTrun = 2, true
		out = append(out, mk("gshort", lib.VideoRep("V300", 90000, 3000, vd), a))
	}
	{
		// 2048-sample frames at 48 kHz (HE-AAC style), durations only in trun: RepData.sampleDur() guesses 1024
		vd := lib.UniformDurs(4, 180000)
		a := lib.AudioRep("A48", 2048, lib.AudioDursFollowing(vd, 90000, 48000, 2048, 0))
		a.Codec = "mp4a.40.5"
		out = append(out, mk("ghe2048", lib.VideoRep("V300", 90000, 3000, vd), a))
	}
	{
		// 10 MHz reference timescale (Smooth-Streaming style), the catalogue layout g_10mhz_tl with this harness's
		// representation ids: refTime*audioTimescale needs more than 64 bits about 1.2 years after the start
		vd := lib.UniformDurs(4, 20000000)
		v := lib.VideoRep("V300", 10000000, 400000, vd)
		a := lib.AudioRep("A48", 1024, lib.AudioDursFollowing(vd, 10000000, 48000, 1024, 0))
		v.TimelineMPD, a.TimelineMPD = true, true
		out = append(out, mk("g10mhz", v, a))
		// another high timescale: 27 MHz, 3 x 1.92 s, AC-3 on its own grid
		vd2 := lib.UniformDurs(3, 51840000)
		out = append(out, mk("g27mhz", lib.VideoRep("V300", 27000000, 1080000, vd2), lib.AudioRep("A48", 1536, lib.FrameDurs(1536, 100, 80))))
	}
	for i := 0; i < nRand; i++ {
		rate := lib.GenRates[rng.Intn(len(lib.GenRates))]
		ts, sd := rate[0], rate[1]
		g := uint64(ts)
		for b := uint64(sd) * 1000; b != 0; {
			g, b = b, g%b
		}
		q := int(uint64(ts) / g) // the number of video frames must be a multiple of q (loop = whole ms)
		n := 1 + rng.Intn(5)
		frames := make([]int, n)
		tot := 0
		for k := range frames {
			// between 1.1 s and 3 s per segment (an average segment duration below one second makes LiveMPD print
			// unparsable xs:duration values - dash-mpd Duration.String for values below 1 s; outside this property,
			// reported to the lead)
			lo, hi := int(uint64(ts)*11/10/uint64(sd))+1, int(uint64(ts)*3/uint64(sd))
			frames[k] = lo + rng.Intn(hi-lo+1)
			tot += frames[k]
		}
		frames[n-1] += (q - tot%q) % q
		vd := lib.FrameDurs(sd, frames...)
		var loop uint64
		for _, d := range vd {
			loop += d
		}
		F := uint32(1024)
		ats := uint32(48000)
		switch rng.Intn(4) {
		case 0:
			F = 1536
		case 1:
			ats = 44100
		}
		delta := rng.Intn(7) - 3
		var ad []uint64
		if rng.Intn(2) == 0 {
			ad = lib.AudioDursFollowing(vd, ts, ats, F, delta)
		} else { // own grid
			total := int(lib.CeilFrame(loop, uint64(ts), uint64(F), uint64(ats))/uint64(F)) + delta
			if total < 2 {
				total = 2
			}
			m := 1 + rng.Intn(4)
			if m > total {
				m = total
			}
			fr := make([]int, m)
			for k := range fr {
				fr[k] = 1
			}
			for k := 0; k < total-m; k++ {
				fr[rng.Intn(m)]++
			}
			ad = lib.FrameDurs(F, fr...)
		}
		a := lib.AudioRep("A48", F, ad)
		a.Timescale = ats
		a.Frags = 1 + rng.Intn(3)
		a.CompactTrun = rng.Intn(3) == 0
		out = append(out, mk(fmt.Sprintf("grand%d", i), lib.VideoRep("V300", ts, sd, vd), a))
	}
	return out
}

// mpdShapes: bundled assets copied into the scratch vodroot with the VoD MPD written in another legitimate
// shape: no contentType attribute (the content type has to be derived from mimeType / codecs), audio
// adaptation set listed before or after the video one. What is served and listed must not depend on that.
func mpdShapes(root string) ([]assetDesc, []string) {
	var out []assetDesc
	var notes []string
	asRe := regexp.MustCompile(`(?s)[ \t]*<AdaptationSet\b.*?</AdaptationSet>\s*\n`)
	ctRe := regexp.MustCompile(` contentType="[^"]*"`)
	for _, src := range []string{"testpic_6s", "testpic_alt_seg_dur_stl"} {
		mpd, err := os.ReadFile(filepath.Join(lib.TestVodRoot, src, "Manifest.mpd"))
		if err != nil {
			notes = append(notes, "mpd shapes: "+err.Error())
			continue
		}
		blocks := asRe.FindAllString(string(mpd), -1)
		loc := asRe.FindAllStringIndex(string(mpd), -1)
		if len(blocks) != 2 {
			notes = append(notes, fmt.Sprintf("mpd shapes: %s has %d adaptation sets, not used", src, len(blocks)))
			continue
		}
		head, tail := string(mpd)[:loc[0][0]], string(mpd)[loc[1][1]:]
		audio, video := blocks[0], blocks[1]
		if strings.Contains(video, "audio/mp4") {
			audio, video = video, audio
		}
		for _, sh := range []struct {
			name       string
			audioFirst bool
			noCT       bool
			noMime     bool
		}{{"nctaf", true, true, false}, {"nctvf", false, true, false}, {"codaf", true, true, true}} {
			a, v := audio, video
			if sh.noCT {
				a, v = ctRe.ReplaceAllString(a, ""), ctRe.ReplaceAllString(v, "")
			}
			if sh.noMime {
				a, v = strings.ReplaceAll(a, ` mimeType="audio/mp4"`, ""), strings.ReplaceAll(v, ` mimeType="video/mp4"`, "")
			}
			body := head + a + v + tail
			if !sh.audioFirst {
				body = head + v + a + tail
			}
			name := strings.ReplaceAll(src, "testpic_", "tp") + "_" + sh.name
			name = strings.ReplaceAll(name, "_seg_dur_stl", "")
			dir := filepath.Join(root, name)
			failed := false
			for _, sub := range []string{"A48", "V300"} {
				files, _ := filepath.Glob(filepath.Join(lib.TestVodRoot, src, sub, "*"))
				for _, f := range files {
					if err := copyFile(f, filepath.Join(dir, sub, filepath.Base(f))); err != nil {
						failed = true
					}
				}
			}
			if failed || os.WriteFile(filepath.Join(dir, "Manifest.mpd"), []byte(body), 0o644) != nil {
				notes = append(notes, "mpd shapes: could not write "+name)
				continue
			}
			out = append(out, assetDesc{Name: name, Scratch: true, Light: true, URLPath: name, MPD: "Manifest.mpd", Dir: name,
				AudioInit: "A48/init.mp4", AudioGlob: "A48/*.m4s", VideoInit: "V300/init.mp4", VideoGlob: "V300/*.m4s"})
		}
	}
	return out, notes
}

// audioOnlyAssets: assets without video. The first audio representation is the reference; every further audio
// representation (other frame size, other segmentation) has to follow ITS segment boundaries, and the
// reference itself is re-segmented along its own boundaries (identity).
func audioOnlyAssets(rng *rand.Rand, nRand int) []lib.GenAsset {
	ac3 := func(id string, frames ...int) lib.GenRep {
		return lib.AudioRep(id, 1536, lib.FrameDurs(1536, frames...))
	}
	aac := func(id string, frames ...int) lib.GenRep {
		return lib.AudioRep(id, 1024, lib.FrameDurs(1024, frames...))
	}
	out := []lib.GenAsset{
		// AAC reference (4 x ~2 s), AC-3 on its own grid, AAC in one 8 s segment
		{Name: "gao1", Reps: []lib.GenRep{aac("A1", 94, 94, 94, 93), ac3("A2", 62, 63, 62, 63), aac("A3", 375)}},
		// AC-3 reference (3 segments), AAC on another grid
		{Name: "gao2", Reps: []lib.GenRep{ac3("A1", 100, 50, 100), aac("A2", 200, 175)}},
	}
	for i := 0; i < nRand; i++ {
		// total 2*k AC-3 frames = 3*k AAC frames (same duration to the tick); every segment longer than 1.1 s
		// (an average segment duration below one second makes LiveMPD print unparsable xs:duration values,
		// e.g. minimumUpdatePeriod="PT832000000\ufffdS" - outside this property, reported to the lead)
		k := 40 + rng.Intn(100)
		split := func(total, minPer int) []int {
			m := 1 + rng.Intn(4)
			if m > total/minPer {
				m = total / minPer
			}
			fr := make([]int, m)
			for j := range fr {
				fr[j] = minPer
			}
			for j := 0; j < total-m*minPer; j++ {
				fr[rng.Intn(m)]++
			}
			return fr
		}
		r1, r2 := aac("A1", split(3*k, 52)...), ac3("A2", split(2*k, 35)...)
		if rng.Intn(2) == 0 {
			r1, r2 = ac3("A1", split(2*k, 35)...), aac("A2", split(3*k, 52)...)
		}
		r2.Frags = 1 + rng.Intn(2)
		out = append(out, lib.GenAsset{Name: fmt.Sprintf("gaor%d", i), Reps: []lib.GenRep{r1, r2}})
	}
	return out
}

func buildScratch(root string, rng *rand.Rand, nRand int) ([]assetDesc, []string, error) {
	out, notes := mpdShapes(root)
	for _, ga := range audioOnlyAssets(rng, (nRand+2)/3) {
		if ok, why := ga.PredictAdmission(); !ok {
			notes = append(notes, fmt.Sprintf("generated asset %s not used (%s)", ga.Name, why))
			continue
		}
		if err := lib.WriteAsset(root, ga); err != nil {
			notes = append(notes, fmt.Sprintf("generated asset %s could not be written: %v", ga.Name, err))
			continue
		}
		ref := ga.Reps[0].ID
		for _, rp := range ga.Reps {
			out = append(out, assetDesc{Name: ga.Name + "_" + rp.ID, Scratch: true, Light: rp.ID != ga.Reps[1].ID, URLPath: ga.Name, MPD: "Manifest.mpd", Dir: ga.Name,
				AudioRep: rp.ID, RefRep: ref,
				AudioInit: rp.ID + "/init.mp4", AudioGlob: rp.ID + "/*.m4s", VideoInit: ref + "/init.mp4", VideoGlob: ref + "/*.m4s"})
		}
	}
	for _, ga := range genAssets(rng, nRand) {
		if ok, why := ga.PredictAdmission(); !ok {
			notes = append(notes, fmt.Sprintf("generated asset %s not used (%s)", ga.Name, why))
			continue
		}
		if err := lib.WriteAsset(root, ga); err != nil {
			notes = append(notes, fmt.Sprintf("generated asset %s could not be written: %v", ga.Name, err))
			continue
		}
		out = append(out, assetDesc{Name: ga.Name, Scratch: true, URLPath: ga.Name, MPD: "Manifest.mpd", Dir: ga.Name,
			AudioInit: "A48/init.mp4", AudioGlob: "A48/*.m4s", VideoInit: "V300/init.mp4", VideoGlob: "V300/*.m4s"})
	}
	for _, sp := range scratchSpecs() {
		dir := filepath.Join(root, sp.Name)
		if err := copyFile(sp.AudioInit, filepath.Join(dir, "A48/init.mp4")); err != nil {
			return nil, notes, err
		}
		if err := copyFile(sp.VideoInit, filepath.Join(dir, "V300/init.mp4")); err != nil {
			return nil, notes, err
		}
		for i, p := range sp.AudioSegs {
			dst := filepath.Join(dir, fmt.Sprintf("A48/%d.m4s", i+1))
			if sp.DropFrames > 0 && i == len(sp.AudioSegs)-1 {
				init, err := parseInit(sp.AudioInit)
				if err != nil {
					return nil, notes, err
				}
				var trex *mp4.TrexBox
				if init.Moov.Mvex != nil {
					trex = init.Moov.Mvex.Trex
				}
				if err := dropLastFrames(p, dst, trex, sp.DropFrames); err != nil {
					return nil, notes, err
				}
				continue
			}
			if err := copyFile(p, dst); err != nil {
				return nil, notes, err
			}
		}
		for i, p := range sp.VideoSegs {
			if err := copyFile(p, filepath.Join(dir, fmt.Sprintf("V300/%d.m4s", i+1))); err != nil {
				return nil, notes, err
			}
		}
		mpd := strings.ReplaceAll(scratchMPD, "@CODEC@", sp.Codec)
		if err := os.WriteFile(filepath.Join(dir, "Manifest.mpd"), []byte(mpd), 0o644); err != nil {
			return nil, notes, err
		}
		out = append(out, assetDesc{Name: sp.Name, Scratch: true, URLPath: sp.Name, MPD: "Manifest.mpd", Dir: sp.Name,
			AudioInit: "A48/init.mp4", AudioGlob: "A48/*.m4s", VideoInit: "V300/init.mp4", VideoGlob: "V300/*.m4s"})
	}
	return out, notes, nil
}

// assetState: everything the harness knows about one asset from the VoD files alone.
type assetState struct {
	d      assetDesc
	ls     *lib.Livesim
	audio  *vodRep
	video  *vodRep
	F      uint64
	src    []frame // looped source: all VoD audio frames in order
	canon  []int64 // first source index with the same content
	byHash map[[32]byte]int64
	codec  int    // codec family of the audio representation in the VoD MPD: 0 mp4a.40*, 1 ac-3*/ec-3*, 2 other
	mpdF   uint64 // the frame duration the MPD code uses (RepData.sampleDur(), see Audio.rep_sample_dur)
	N      int    // number of video segments
	D      uint64 // video loop duration (reference timescale)
	A, R   uint64 // audio / reference timescale
}

func loadAsset(d assetDesc, root string, ls *lib.Livesim) (*assetState, error) {
	dir := filepath.Join(root, d.Dir)
	au, err := loadVodRep(filepath.Join(dir, d.AudioInit), filepath.Join(dir, d.AudioGlob))
	if err != nil {
		return nil, fmt.Errorf("audio of %s: %w", d.Name, err)
	}
	vi, err := loadVodRep(filepath.Join(dir, d.VideoInit), filepath.Join(dir, d.VideoGlob))
	if err != nil {
		return nil, fmt.Errorf("video of %s: %w", d.Name, err)
	}
	as := &assetState{d: d, ls: ls, audio: au, video: vi, byHash: map[[32]byte]int64{}, A: au.Timescale, R: vi.Timescale}
	for _, s := range au.Segs {
		for _, f := range s.Frames {
			if as.F == 0 {
				as.F = uint64(f.Dur)
			}
			if uint64(f.Dur) != as.F {
				return nil, fmt.Errorf("%s: audio frames of different duration", d.Name)
			}
			i := int64(len(as.src))
			if _, ok := as.byHash[f.Hash]; !ok {
				as.byHash[f.Hash] = i
			}
			as.canon = append(as.canon, as.byHash[f.Hash])
			as.src = append(as.src, f)
		}
	}
	as.N = len(vi.Segs)
	as.D = vi.Segs[as.N-1].End - vi.Segs[0].Start
	as.codec = 2
	if mp, err := m.ReadFromFile(filepath.Join(dir, d.MPD)); err == nil {
		for _, p := range mp.Periods {
			for _, a := range p.AdaptationSets {
				if string(a.ContentType) != "audio" && !strings.HasPrefix(a.MimeType, "audio") {
					continue
				}
				if d.AudioRep != "" && (len(a.Representations) == 0 || a.Representations[0].Id != d.AudioRep) {
					continue
				}
				codecs := a.Codecs
				if len(a.Representations) > 0 && a.Representations[0].Codecs != "" {
					codecs = a.Representations[0].Codecs
				}
				switch {
				case strings.HasPrefix(codecs, "mp4a.40"):
					as.codec = 0
				case strings.HasPrefix(codecs, "ac-3"), strings.HasPrefix(codecs, "ec-3"):
					as.codec = 1
				}
			}
		}
	}
	as.mpdF = repSampleDur(uint64(au.Dflt), as.codec, as.A)
	return as, nil
}

// repSampleDur mirrors RepData.sampleDur() for the evidence and the replay input (the Coq model has its own copy).
func repSampleDur(dflt uint64, codec int, ts uint64) uint64 {
	switch {
	case dflt != 0:
		return dflt
	case codec == 0 && ts == 48000:
		return 1024
	case codec == 1 && ts == 48000:
		return 1536
	}
	return 0
}

// ceilMS: t/ts seconds in ms, rounded up, without leaving 64 bits for high timescales
func ceilMS(t, ts uint64) int64 {
	return int64(t/ts*1000 + (t%ts*1000+ts-1)/ts)
}

// refSeg: start and end of reference (video) segment n according to the VoD table (C01's S(n), E(n)).
func (as *assetState) refSeg(n int64) (uint64, uint64) {
	w := uint64(n / int64(as.N))
	i := int(n % int64(as.N))
	return w*as.D + as.video.Segs[i].Start, w*as.D + as.video.Segs[i].End
}

func (as *assetState) coqTab() string {
	var l []string
	for _, s := range as.audio.Segs {
		l = append(l, fmt.Sprintf("Build_seg %d %d %d", s.Start, s.End, len(s.Frames)))
	}
	return "[" + strings.Join(l, "; ") + "]"
}

// ---------------------------------------------------------------- oracle arithmetic (big integers, own formula)

// ceilFrame: the least multiple of F such that x*r >= t*a.
func ceilFrame(t, r, F, a uint64) uint64 {
	X := new(big.Int).Mul(new(big.Int).SetUint64(t), new(big.Int).SetUint64(a))
	den := new(big.Int).Mul(new(big.Int).SetUint64(r), new(big.Int).SetUint64(F))
	q := new(big.Int).Add(X, den)
	q.Sub(q, big.NewInt(1))
	q.Div(q, den)
	q.Mul(q, new(big.Int).SetUint64(F))
	if !q.IsUint64() {
		return ^uint64(0)
	}
	return q.Uint64()
}

// expectedFrames: source indices of the frames of the output segment for reference segment
// [refStart, refEnd) lying inside one loop of duration D: the looped source, padded with its last frame.
func expectedFrames(refStart, refEnd, D, r, F, a uint64, nSrc int64) (start, end uint64, idx []int64) {
	start = ceilFrame(refStart, r, F, a)
	end = ceilFrame(refEnd, r, F, a)
	w0 := ceilFrame(refStart/D*D, r, F, a)
	for g := start / F; g < end/F; g++ {
		i := int64(g - w0/F)
		if i >= nSrc {
			i = nSrc - 1
		}
		idx = append(idx, i)
	}
	return
}

// innerInterval: the output interval starts after the beginning of a VoD audio segment and ends before its end.
func innerInterval(segs []vodSeg, inStart, inEnd uint64) bool {
	for _, s := range segs {
		if s.Start < inStart && inStart < s.End && inEnd < s.End {
			return true
		}
	}
	return false
}

// ---------------------------------------------------------------- cases

type caseRec struct {
	term  string
	heavy bool
}

type run struct {
	c        *lib.Ctx
	rng      *rand.Rand
	cases    []caseRec
	distinct map[string]bool
}

func (r *run) add(kind string, input any, heavy bool) string {
	id := fmt.Sprintf("%d", len(r.cases))
	r.c.Res.Inputs[id] = input
	r.cases = append(r.cases, caseRec{term: fmt.Sprintf("Build_c03case %s (%s)", id, kind), heavy: heavy})
	return id
}

func zl(l []int64) string { return lib.Zlist64(l) }

func u(v uint64) string {
	if v > 1<<63-1 {
		return new(big.Int).SetUint64(v).String()
	}
	return fmt.Sprintf("%d", v)
}

// ---------------------------------------------------------------- L1

type l1In struct {
	Kind     string `json:"kind"`
	Asset    string `json:"asset"`
	Mode     string `json:"mode"`
	N        int64  `json:"n"`
	AudioURL string `json:"audio_url"`
	VideoURL string `json:"video_url,omitempty"`
	RefStart uint64 `json:"ref_start"`
	RefEnd   uint64 `json:"ref_end"`
	Inner    bool   `json:"inner_interval"`
	SegID    uint64 `json:"seg_id,omitempty"` // the integer in the URL ($Number$ or $Time$)
	NowMS    int64  `json:"now_ms,omitempty"`
	StartNr  int64  `json:"start_nr,omitempty"`
	After    string `json:"requested_after,omitempty"` // history runs: the configuration requested just before on the same server
	// the frame duration the MPD code works with differs from the frame duration of the representation
	SampleDurMismatch bool `json:"sampledur_mismatch,omitempty"`
}

type tmpl struct {
	audio, audioRep, video, videoRep string
	startNr                          int64
	audioTL, videoTL                 []*m.S
	audioTS, videoTS                 uint64
	audioPTO, videoPTO               uint64
	audioStartNr                     int64 // startNumber of the audio template, -1 if absent
}

func fillT(t, rep string, v uint64) string {
	s := strings.ReplaceAll(t, "$RepresentationID$", rep)
	s = strings.ReplaceAll(s, "$Number$", fmt.Sprint(v))
	return strings.ReplaceAll(s, "$Time$", fmt.Sprint(v))
}

// fallbackTmpl: the known $Number$ template of a scratch asset, used when its MPD cannot be had
func (as *assetState) fallbackTmpl() *tmpl {
	a, v := "A48", "V300"
	if as.d.RefRep != "" {
		a, v = as.d.AudioRep, as.d.RefRep
	}
	return &tmpl{audio: "$RepresentationID$/$Number$.m4s", audioRep: a, video: "$RepresentationID$/$Number$.m4s", videoRep: v}
}

func (as *assetState) mpdURL(prefix string, nowMS int64) string {
	return fmt.Sprintf("/livesim2/%s%s/%s?nowMS=%d", prefix, as.d.URLPath, as.d.MPD, nowMS)
}

// periodTmpl extracts the audio track under test and the reference track from one Period of a live MPD.
func (as *assetState) periodTmpl(p *m.Period) *tmpl {
	t := &tmpl{audioStartNr: -1}
	for _, a := range p.AdaptationSets {
		st := a.SegmentTemplate
		if st == nil || len(a.Representations) == 0 {
			continue
		}
		ts := uint64(1)
		if st.Timescale != nil {
			ts = uint64(*st.Timescale)
		}
		var tl []*m.S
		if st.SegmentTimeline != nil {
			tl = st.SegmentTimeline.S
		}
		var pto uint64
		if st.PresentationTimeOffset != nil {
			pto = uint64(*st.PresentationTimeOffset)
		}
		rid := a.Representations[0].Id
		isAudio, isRef := string(a.ContentType) == "audio", string(a.ContentType) == "video"
		if as.d.RefRep != "" {
			isAudio, isRef = rid == as.d.AudioRep, rid == as.d.RefRep
		}
		if isAudio && t.audio == "" {
			t.audio, t.audioRep, t.audioTL, t.audioTS, t.audioPTO = st.Media, rid, tl, ts, pto
			if st.StartNumber != nil {
				t.audioStartNr = int64(*st.StartNumber)
			}
		}
		if isRef && t.video == "" {
			t.video, t.videoRep, t.videoTL, t.videoTS, t.videoPTO = st.Media, rid, tl, ts, pto
			if st.StartNumber != nil {
				t.startNr = int64(*st.StartNumber)
			}
		}
	}
	return t
}

func (as *assetState) getTmpl(prefix string, nowMS int64) (*tmpl, error) {
	resp := as.ls.GetRaw(as.mpdURL(prefix, nowMS))
	if resp.Status != 200 {
		return nil, fmt.Errorf("MPD %s: status %d %s", as.mpdURL(prefix, nowMS), resp.Status, resp.Panic)
	}
	mp, err := m.MPDFromBytes(resp.Body)
	if err != nil {
		return nil, err
	}
	if len(mp.Periods) == 0 {
		return nil, fmt.Errorf("MPD of %s has no period", as.d.Name)
	}
	t := as.periodTmpl(mp.Periods[0])
	if t.audio == "" || t.video == "" {
		return nil, fmt.Errorf("MPD of %s has no audio+video templates", as.d.Name)
	}
	return t, nil
}

// mpdFailure records an MPD request that was not answered with an MPD. A panic is tied to the model:
// when RepData.sampleDur() is 0 the model's generateTimelineEntriesFromRef divides by zero as well.
func (r *run) mpdFailure(as *assetState, url string, err error) {
	c := r.c
	in := map[string]any{"kind": "mpd", "asset": as.d.Name, "url": url, "mpd_sample_dur": as.mpdF, "frame_dur": as.F,
		"default_sample_duration": as.audio.Dflt, "codec_family": as.codec, "audio_timescale": as.A}
	resp := as.ls.GetRaw(url)
	if resp.Panic != "" {
		id := r.add(fmt.Sprintf("KTimeline 0 0 [(1, 0)] %s %s %d %d %s 2 []", u(as.R), u(as.F), as.audio.Dflt, as.codec, u(as.A)), in, false)
		c.Fail(id, "mpd-panic:"+resp.Panic, "the MPD request panics: "+url, in)
		c.Count("l1:" + as.d.Name + ":mpd-panic")
		return
	}
	c.Fail("", "mpd", err.Error(), in)
}

type td struct{ T, D uint64 }

func expandTL(l []*m.S) []td {
	var out []td
	var t uint64
	for _, s := range l {
		if s.T != nil {
			t = *s.T
		}
		for j := 0; j <= s.R; j++ {
			out = append(out, td{t, s.D})
			t += s.D
		}
	}
	return out
}

type audioObs struct {
	status int
	panicS string
	ps     parsedSeg
	idx    []int64 // canonical source index per served frame, -1 = not a source frame
}

// fetchAudio requests one audio segment and evaluates the oracle for reference segment [refStart, refEnd).
func (r *run) fetchAudio(as *assetState, in l1In, nr int64) audioObs {
	c := r.c
	var o audioObs
	nFail0 := len(c.Res.OracleFailures)
	resp := as.ls.GetRaw(in.AudioURL)
	o.status, o.panicS = resp.Status, resp.Panic
	expStart, expEnd, expIdx := expectedFrames(in.RefStart, in.RefEnd, as.D, as.R, as.F, as.A, int64(len(as.src)))
	w0 := ceilFrame(in.RefStart/as.D*as.D, as.R, as.F, as.A)
	in.Inner = innerInterval(as.audio.Segs, expStart-w0, expEnd-w0)
	cls := int64(0)
	switch {
	case resp.Panic != "":
		cls = 2
		c.Fail("", "panic:"+resp.Panic, "audio segment request panics", in)
	case resp.Status == 200:
		ps, err := parseMedia(resp.Body, as.audio.trex)
		if err != nil {
			c.Fail("", "unparsable-segment", err.Error(), in)
			cls = 9
			break
		}
		o.ps = ps
		for _, f := range ps.Frames {
			if i, ok := as.byHash[f.Hash]; ok {
				o.idx = append(o.idx, i)
			} else {
				o.idx = append(o.idx, -1)
			}
		}
		// --- oracle: the property text
		if ps.Tfdt != expStart {
			c.Fail("", "start-boundary", fmt.Sprintf("tfdt %d, first frame boundary at or after the video segment start is %d", ps.Tfdt, expStart), in)
		}
		for _, f := range ps.Frames {
			if uint64(f.Dur) != as.F {
				c.Fail("", "frame-duration", fmt.Sprintf("sample duration %d, frame duration %d", f.Dur, as.F), in)
				break
			}
		}
		if ps.Tfdt+ps.dur() != expEnd {
			c.Fail("", "end-boundary", fmt.Sprintf("segment ends at %d, first frame boundary at or after the video segment end is %d", ps.Tfdt+ps.dur(), expEnd), in)
		}
		if uint64(len(ps.Frames))*as.F != expEnd-expStart {
			c.Fail("", "frame-count", fmt.Sprintf("%d frames, (end-start)/frameDur = %d", len(ps.Frames), (expEnd-expStart)/as.F), in)
		}
		if len(o.idx) == len(expIdx) {
			for k := range expIdx {
				if as.src[expIdx[k]].Hash != ps.Frames[k].Hash {
					c.Fail("", "frame-content", fmt.Sprintf("frame %d of the segment is source frame %d, the looped source has frame %d there", k, o.idx[k], expIdx[k]), in)
					break
				}
			}
		}
		if int64(ps.Seq) != nr {
			c.Fail("", "sequence-number", fmt.Sprintf("mfhd sequence number %d, segment number %d", ps.Seq, nr), in)
		}
		if ps.NFrag != 1 {
			c.Fail("", "fragments", fmt.Sprintf("%d fragments", ps.NFrag), in)
		}
		if in.Inner {
			c.Count("l1:inner-interval-served")
		}
	case resp.Status == 500:
		cls = 1
		if in.Inner {
			c.Fail("", "audio-inner-interval-500", "audio segment request answered 500: output interval strictly inside one VoD audio segment", in)
			c.Count("l1:500-inner-interval")
		} else {
			c.Fail("", "status-500", "audio segment request answered 500: "+strings.TrimSpace(string(resp.Body)), in)
		}
	default:
		cls = 9
		c.Fail("", fmt.Sprintf("status-%d", resp.Status), "available audio segment not served", in)
	}
	if cls != 9 {
		var can []int64
		can = append(can, o.idx...)
		term := fmt.Sprintf("KSeg %d %s %s %s %s %s %s tab_%s canon_%s %d %s %d %s", nr, u(in.RefStart), u(in.RefEnd), u(as.D), u(as.R), u(as.F), u(as.A),
			as.d.Name, as.d.Name, cls, u(o.ps.Tfdt), o.ps.Seq, zl(can))
		var id string
		if in.NowMS == 0 {
			id = r.add(term, in, true) // replayed input without the request parameters: recipe + createAudioSeg only
		}
		if in.NowMS != 0 {
			// the same request against the model of the whole handler path (reference lookup included)
			mode := 0
			if in.Mode == "time" {
				mode = 1
			}
			rterm := fmt.Sprintf("KReq vrep_%s %d %d %s %s tab_%s canon_%s %d %s %d %d %s %d %s", as.d.Name, as.D*1000/as.R, in.StartNr,
				u(as.F), u(as.A), as.d.Name, as.d.Name, mode, u(in.SegID), in.NowMS, cls, u(o.ps.Tfdt), o.ps.Seq, zl(can))
			id = r.add(rterm, in, true)
			c.Count("l1:request-model:" + in.Mode)
		}
		// attach the case id to the failures just recorded
		for i := len(c.Res.OracleFailures) - 1; i >= nFail0; i-- {
			c.Res.OracleFailures[i].Case = id
			if li, ok := c.Res.OracleFailures[i].Input.(l1In); ok {
				li.Inner = in.Inner
				c.Res.OracleFailures[i].Input = li
			}
		}
		c.Res.Inputs[id] = in
	}
	c.Count("l1:" + as.d.Name + ":" + in.Mode)
	if o.status == 200 && len(o.ps.Frames) > 0 {
		r.distinct[fmt.Sprintf("%s|%s|%d", as.d.Name, in.Mode, nr)] = true
	}
	return o
}

// fetchNone requests an audio segment that does not exist (a $Time$ that is no listed start time, a number
// beyond 32 bits): the property says which times/numbers are segments, anything else must be 404
// (and must not be served). The case goes to the whole-request model as well.
func (r *run) fetchNone(as *assetState, in l1In, what string) {
	c := r.c
	resp := as.ls.GetRaw(in.AudioURL)
	cls := int64(9)
	var tfdt uint64
	var seq uint32
	var can []int64
	switch {
	case resp.Panic != "":
		cls = 2
		c.Fail("", "panic:"+resp.Panic, "audio segment request panics", in)
	case resp.Status == 404:
		cls = 3
	case resp.Status == 200:
		cls = 0
		if ps, err := parseMedia(resp.Body, as.audio.trex); err == nil {
			tfdt, seq = ps.Tfdt, ps.Seq
			for _, f := range ps.Frames {
				if i, ok := as.byHash[f.Hash]; ok {
					can = append(can, i)
				} else {
					can = append(can, -1)
				}
			}
		}
		c.Fail("", "not-a-segment-served", what+": answered 200 with tfdt "+fmt.Sprint(tfdt), in)
	case resp.Status == 500:
		cls = 1
		c.Fail("", "not-a-segment-500", what+": answered 500 "+strings.TrimSpace(string(resp.Body)), in)
	case resp.Status == 425:
		cls = 4
		c.Fail("", "not-a-segment-425", what+": answered 425", in)
	case resp.Status == 410:
		cls = 5
		c.Fail("", "not-a-segment-410", what+": answered 410", in)
	default:
		c.Fail("", fmt.Sprintf("not-a-segment-%d", resp.Status), what, in)
	}
	if cls != 9 {
		mode := 0
		if in.Mode == "time-none" {
			mode = 1
		}
		id := r.add(fmt.Sprintf("KReq vrep_%s %d %d %s %s tab_%s canon_%s %d %s %d %d %s %d %s", as.d.Name, as.D*1000/as.R, in.StartNr,
			u(as.F), u(as.A), as.d.Name, as.d.Name, mode, u(in.SegID), in.NowMS, cls, u(tfdt), seq, zl(can)), in, false)
		for i := len(c.Res.OracleFailures) - 1; i >= 0 && c.Res.OracleFailures[i].Case == ""; i-- {
			if li, ok := c.Res.OracleFailures[i].Input.(l1In); ok && li.AudioURL == in.AudioURL {
				c.Res.OracleFailures[i].Case = id
			}
		}
	}
	c.Count("l1:" + as.d.Name + ":" + in.Mode)
}

// numberRun: L consecutive segment numbers from n0, $Number$ addressing.
func (r *run) numberRun(as *assetState, prefix string, n0 int64, L int) {
	c := r.c
	_, eLast := as.refSeg(n0 + int64(L) - 1)
	nowMS := ceilMS(eLast, as.R) + int64(r.rng.Intn(1500))
	t, err := as.getTmpl(prefix, nowMS)
	if err != nil {
		r.mpdFailure(as, as.mpdURL(prefix, nowMS), err)
		if !as.d.Scratch {
			return
		}
		// the segments of a scratch asset are still requested (known template, default start number)
		t = as.fallbackTmpl()
	}
	var prev *audioObs
	for n := n0; n < n0+int64(L); n++ {
		nr := n + t.startNr
		in := l1In{Kind: "l1", Asset: as.d.Name, Mode: "number", N: nr, SegID: uint64(nr), NowMS: nowMS, StartNr: t.startNr}
		in.VideoURL = fmt.Sprintf("/livesim2/%s%s/%s?nowMS=%d", prefix, as.d.URLPath, fillT(t.video, t.videoRep, uint64(nr)), nowMS)
		in.AudioURL = fmt.Sprintf("/livesim2/%s%s/%s?nowMS=%d", prefix, as.d.URLPath, fillT(t.audio, t.audioRep, uint64(nr)), nowMS)
		vresp := as.ls.GetRaw(in.VideoURL)
		s, e := as.refSeg(n)
		in.RefStart, in.RefEnd = s, e
		if vresp.Status != 200 {
			c.Fail("", fmt.Sprintf("video-status-%d", vresp.Status), "reference video segment not served "+vresp.Panic, in)
			prev = nil
			continue
		}
		vs, err := parseMedia(vresp.Body, as.video.trex)
		if err != nil {
			c.Fail("", "video-unparsable", err.Error(), in)
			prev = nil
			continue
		}
		if vs.Tfdt != s || vs.Tfdt+vs.dur() != e {
			// the served video segment is the reference: follow it, and say that the table disagrees
			c.Res.Notes = append(c.Res.Notes, fmt.Sprintf("%s: served video segment %d is [%d,%d), VoD table says [%d,%d)", as.d.Name, nr, vs.Tfdt, vs.Tfdt+vs.dur(), s, e))
			in.RefStart, in.RefEnd = vs.Tfdt, vs.Tfdt+vs.dur()
		}
		o := r.fetchAudio(as, in, nr)
		if prev != nil && prev.status == 200 && o.status == 200 {
			if prev.ps.Tfdt+prev.ps.dur() != o.ps.Tfdt {
				c.Fail("", "abut", fmt.Sprintf("segment %d ends at %d, segment %d starts at %d", nr-1, prev.ps.Tfdt+prev.ps.dur(), nr, o.ps.Tfdt), in)
			}
			if len(prev.idx) > 0 && len(o.idx) > 0 {
				// no loss / duplication across the boundary: the source position advances by one (or wraps / pads)
				c.Count("l1:abut-checked")
			}
		}
		oo := o
		prev = &oo
	}
	// the same number plus 2^32 is no segment (uint32(segID) would be an available one)
	big := uint64(n0+t.startNr) + 1<<32
	bin := l1In{Kind: "l1", Asset: as.d.Name, Mode: "number-none", N: int64(big), SegID: big, NowMS: nowMS, StartNr: t.startNr}
	bin.AudioURL = fmt.Sprintf("/livesim2/%s%s/%s?nowMS=%d", prefix, as.d.URLPath, fillT(t.audio, t.audioRep, big), nowMS)
	r.fetchNone(as, bin, "segment number beyond 32 bits")
}

type tlIn struct {
	Kind    string     `json:"kind"`
	Asset   string     `json:"asset"`
	URL     string     `json:"url"`
	RefT    uint64     `json:"ref_t"`
	Entries [][2]int64 `json:"ref_entries"`
	// the frame duration the MPD code works with (RepData.sampleDur()) and the frame duration of the representation
	MpdSampleDur      uint64 `json:"mpd_sample_dur"`
	FrameDur          uint64 `json:"frame_dur"`
	SampleDurMismatch bool   `json:"sampledur_mismatch,omitempty"`
}

// timelineRun: the SegmentTimeline MPD at nowMS; audio entries against video entries; $Time$ requests.
func (r *run) timelineRun(as *assetState, prefix string, nowMS int64, nFetch int) {
	c := r.c
	url := as.mpdURL(prefix, nowMS)
	t, err := as.getTmpl(prefix, nowMS)
	if err != nil {
		r.mpdFailure(as, url, err)
		return
	}
	if len(t.videoTL) == 0 || len(t.audioTL) == 0 {
		c.Res.Notes = append(c.Res.Notes, "no SegmentTimeline in "+url)
		return
	}
	in := tlIn{Kind: "timeline", Asset: as.d.Name, URL: url, MpdSampleDur: as.mpdF, FrameDur: as.F, SampleDurMismatch: as.mpdF != as.F}
	if t.videoTL[0].T != nil {
		in.RefT = *t.videoTL[0].T
	}
	var ents []string
	for _, s := range t.videoTL {
		in.Entries = append(in.Entries, [2]int64{int64(s.D), int64(s.R)})
		ents = append(ents, fmt.Sprintf("(%d, %d)", s.D, s.R))
	}
	var obs []string
	for _, s := range t.audioTL {
		tt := int64(-1)
		if s.T != nil {
			tt = int64(*s.T)
		}
		obs = append(obs, fmt.Sprintf("(%s, %d, %d)", lib.Zs(tt), s.D, s.R))
	}
	id := r.add(fmt.Sprintf("KTimeline 0 %s [%s] %s %s %d %d %s 0 [%s]", u(in.RefT), strings.Join(ents, "; "), u(t.videoTS), u(as.F), as.audio.Dflt, as.codec, u(t.audioTS), strings.Join(obs, "; ")), in, false)
	c.Count("l1:" + as.d.Name + ":mpd-timeline")
	v, a := expandTL(t.videoTL), expandTL(t.audioTL)
	// oracle: the audio timeline lists exactly the frame-aligned images of the video entries
	if len(v) != len(a) {
		c.Fail(id, "mpd-audio-timeline", fmt.Sprintf("%d audio entries for %d video entries", len(a), len(v)), in)
		return
	}
	if t.videoTS != as.R || t.audioTS != as.A {
		c.Fail(id, "mpd-timescale", fmt.Sprintf("MPD timescales %d/%d, media timescales %d/%d", t.videoTS, t.audioTS, as.R, as.A), in)
		return
	}
	okTL := true
	for k := range v {
		es := ceilFrame(v[k].T, as.R, as.F, as.A)
		ee := ceilFrame(v[k].T+v[k].D, as.R, as.F, as.A)
		if a[k].T != es || a[k].D != ee-es {
			c.Fail(id, "mpd-audio-timeline", fmt.Sprintf("audio entry %d is (t=%d,d=%d), video entry (t=%d,d=%d) gives (t=%d,d=%d)", k, a[k].T, a[k].D, v[k].T, v[k].D, es, ee-es), in)
			okTL = false
			break
		}
	}
	if okTL {
		r.distinct[fmt.Sprintf("%s|tl|%d", as.d.Name, nowMS)] = true
	}
	if !strings.Contains(t.audio, "$Time$") {
		// SegmentTimeline with $Number$: request the last entries by number
		last := t.startNr + int64(len(v)) - 1
		for k := len(v) - 1; k >= 0 && k >= len(v)-nFetch; k-- {
			nr := last - int64(len(v)-1-k)
			lin := l1In{Kind: "l1", Asset: as.d.Name, Mode: "timeline-number", N: nr, RefStart: v[k].T, RefEnd: v[k].T + v[k].D,
				SegID: uint64(nr), NowMS: nowMS, StartNr: 0, SampleDurMismatch: as.mpdF != as.F} // startNumber of the MPD is the first listed entry; the configured start number is 0
			lin.AudioURL = fmt.Sprintf("/livesim2/%s%s/%s?nowMS=%d", prefix, as.d.URLPath, fillT(t.audio, t.audioRep, uint64(nr)), nowMS)
			o := r.fetchAudio(as, lin, nr)
			if o.status == 200 && (o.ps.Tfdt != a[k].T || o.ps.dur() != a[k].D) {
				c.Fail("", "mpd-vs-segment", fmt.Sprintf("MPD lists (t=%d,d=%d), segment %d has (t=%d,d=%d)", a[k].T, a[k].D, nr, o.ps.Tfdt, o.ps.dur()), lin)
			}
		}
		return
	}
	// $Time$ requests for a few entries (both ends of the window)
	pick := map[int]bool{}
	for k := 0; k < len(v) && k < 2; k++ {
		pick[k] = true
	}
	for k := len(v) - 1; k >= 0 && k >= len(v)-nFetch; k-- {
		pick[k] = true
	}
	var prev *audioObs
	for k := 0; k < len(v); k++ {
		if !pick[k] {
			prev = nil
			continue
		}
		// segment number of the reference segment starting at v[k].T, from the VoD table
		w := v[k].T / as.D
		nr := int64(-1)
		for i, s := range as.video.Segs {
			if s.Start == v[k].T-w*as.D {
				nr = int64(w)*int64(as.N) + int64(i)
			}
		}
		lin := l1In{Kind: "l1", Asset: as.d.Name, Mode: "time", N: nr, RefStart: v[k].T, RefEnd: v[k].T + v[k].D,
			SegID: a[k].T, NowMS: nowMS, StartNr: 0, SampleDurMismatch: as.mpdF != as.F}
		lin.AudioURL = fmt.Sprintf("/livesim2/%s%s/%s?nowMS=%d", prefix, as.d.URLPath, fillT(t.audio, t.audioRep, a[k].T), nowMS)
		o := r.fetchAudio(as, lin, nr)
		if o.status == 200 && (o.ps.Tfdt != a[k].T || o.ps.dur() != a[k].D) {
			c.Fail("", "mpd-vs-segment", fmt.Sprintf("MPD lists (t=%d,d=%d), the segment has (t=%d,d=%d)", a[k].T, a[k].D, o.ps.Tfdt, o.ps.dur()), lin)
		}
		if prev != nil && prev.status == 200 && o.status == 200 && prev.ps.Tfdt+prev.ps.dur() != o.ps.Tfdt {
			c.Fail("", "abut", fmt.Sprintf("segment ending at %d followed by segment starting at %d", prev.ps.Tfdt+prev.ps.dur(), o.ps.Tfdt), lin)
		}
		oo := o
		prev = &oo
	}
	// times that the timeline does not list: one frame after a listed start, and one tick after it
	k := len(v) - 1
	if k >= 0 {
		for _, off := range []uint64{as.F, 1} {
			if (off == 1 && as.F == 1) || (off == as.F && a[k].D <= as.F) {
				continue
			}
			tm := a[k].T + off
			nin := l1In{Kind: "l1", Asset: as.d.Name, Mode: "time-none", N: -1, RefStart: v[k].T, RefEnd: v[k].T + v[k].D,
				SegID: tm, NowMS: nowMS, StartNr: 0, SampleDurMismatch: as.mpdF != as.F}
			nin.AudioURL = fmt.Sprintf("/livesim2/%s%s/%s?nowMS=%d", prefix, as.d.URLPath, fillT(t.audio, t.audioRep, tm), nowMS)
			r.fetchNone(as, nin, fmt.Sprintf("time %d is not listed (listed: %d)", tm, a[k].T))
		}
	}
}

type perIn struct {
	Kind   string `json:"kind"`
	Asset  string `json:"asset"`
	URL    string `json:"url"`
	Single string `json:"single_period_url"`
	Period string `json:"period,omitempty"`
}

// periodsRun: the MPD cut into periods (periods_N). The audio SegmentTimeline must still list exactly the
// served segments: in every period the audio entries are the frame-aligned images of the video entries of that
// period (same count, same startNumber, none before the period's presentationTimeOffset), and the periods
// together list every audio segment of the single-period MPD of the same instant exactly once, abutting.
// Period boundaries lie on the audio frame grid or off it, depending on the frame duration and the minute.
func (r *run) periodsRun(as *assetState, prefix string, nowMS int64, periods int) {
	c := r.c
	pp := fmt.Sprintf("periods_%d/", periods)
	in := perIn{Kind: "periods", Asset: as.d.Name, URL: as.mpdURL(pp+prefix, nowMS), Single: as.mpdURL(prefix, nowMS)}
	single, err := as.getTmpl(prefix, nowMS)
	if err != nil {
		return // reported by timelineRun
	}
	resp := as.ls.GetRaw(in.URL)
	if resp.Panic != "" {
		c.Fail("", "mpd-panic:"+resp.Panic, "the multi-period MPD request panics", in)
		return
	}
	if resp.Status == 400 && strings.Contains(string(resp.Body), "not a multiple of segment duration") {
		// documented restriction of the configuration (period length must be a whole number of segments): try longer periods
		c.Count("l1:" + as.d.Name + ":periods-config-refused")
		if periods%2 == 0 && periods > 4 {
			r.periodsRun(as, prefix, nowMS, periods/2)
		}
		return
	}
	if resp.Status != 200 {
		c.Fail("", fmt.Sprintf("periods-mpd-status-%d", resp.Status), "multi-period MPD not served: "+strings.TrimSpace(string(resp.Body)), in)
		return
	}
	mp, err := m.MPDFromBytes(resp.Body)
	if err != nil {
		c.Fail("", "periods-mpd-unparsable", err.Error(), in)
		return
	}
	c.Count("l1:" + as.d.Name + ":periods-mpd")
	var all []td
	ok := true
	for _, p := range mp.Periods {
		t := as.periodTmpl(p)
		pin := in
		pin.Period = p.Id
		if t.audio == "" || t.video == "" {
			c.Fail("", "period-tracks", "period without audio or reference template", pin)
			return
		}
		v, a := expandTL(t.videoTL), expandTL(t.audioTL)
		if len(v) != len(a) {
			c.Fail("", "period-audio-count", fmt.Sprintf("period %s lists %d audio segments and %d reference segments", p.Id, len(a), len(v)), pin)
			ok = false
		}
		for k := range a {
			if k >= len(v) {
				break
			}
			es, ee := ceilFrame(v[k].T, as.R, as.F, as.A), ceilFrame(v[k].T+v[k].D, as.R, as.F, as.A)
			if a[k].T != es || a[k].D != ee-es {
				c.Fail("", "period-audio-timeline", fmt.Sprintf("period %s: audio entry %d is (t=%d,d=%d), reference entry (t=%d,d=%d) gives (t=%d,d=%d)", p.Id, k, a[k].T, a[k].D, v[k].T, v[k].D, es, ee-es), pin)
				ok = false
				break
			}
		}
		if len(a) > 0 && a[0].T < t.audioPTO {
			c.Fail("", "period-audio-before-pto", fmt.Sprintf("period %s: first audio segment t=%d lies before presentationTimeOffset %d", p.Id, a[0].T, t.audioPTO), pin)
			ok = false
		}
		if t.audioStartNr >= 0 && t.audioStartNr != t.startNr {
			c.Fail("", "period-startnr", fmt.Sprintf("period %s: audio startNumber %d, reference startNumber %d", p.Id, t.audioStartNr, t.startNr), pin)
			ok = false
		}
		all = append(all, a...)
	}
	for k := 1; k < len(all); k++ {
		if all[k].T != all[k-1].T+all[k-1].D {
			c.Fail("", "period-audio-abut", fmt.Sprintf("over the periods, audio segment (t=%d,d=%d) is followed by one starting at %d", all[k-1].T, all[k-1].D, all[k].T), in)
			ok = false
			break
		}
	}
	// the same instant without periods lists the same audio segments (on the common range)
	sa := expandTL(single.audioTL)
	byT := map[uint64]uint64{}
	for _, e := range sa {
		byT[e.T] = e.D
	}
	if len(all) > 0 && len(sa) > 0 {
		lo, hi := all[0].T, all[len(all)-1].T
		if sa[0].T > lo {
			lo = sa[0].T
		}
		if sa[len(sa)-1].T < hi {
			hi = sa[len(sa)-1].T
		}
		n1, n2 := 0, 0
		for _, e := range all {
			if e.T >= lo && e.T <= hi {
				n1++
				if d, found := byT[e.T]; !found || d != e.D {
					c.Fail("", "period-vs-single", fmt.Sprintf("audio segment (t=%d,d=%d) of the multi-period MPD is not listed by the single-period MPD", e.T, e.D), in)
					ok = false
					break
				}
			}
		}
		for _, e := range sa {
			if e.T >= lo && e.T <= hi {
				n2++
			}
		}
		if ok && n1 != n2 {
			c.Fail("", "period-vs-single", fmt.Sprintf("%d audio segments over the periods, %d in the single-period MPD on the same range", n1, n2), in)
			ok = false
		}
	}
	if ok {
		r.distinct[fmt.Sprintf("%s|periods|%s|%d", as.d.Name, prefix, nowMS)] = true
	}
}

// historyRun: the served audio segment is a function of (representation, n) alone, so it must not depend on
// what the same server was asked before. For segment n at the live edge the same long-lived server is asked:
// clear, then the same segment under another configuration (encrypted cbcs/cenc, low-latency chunked,
// SegmentTimeline $Time$ / $Number$ addressing), then clear again, and so on. Every clear answer gets the
// whole oracle (frame by frame against the VoD source) and goes to the model; the other answers must have
// the same start, end and number of frames (and the same frames unless encrypted); a repeated identical
// request must give identical bytes.
func (r *run) historyRun(as *assetState, n int64, variants []string) {
	c := r.c
	_, eLast := as.refSeg(n)
	nowMS := ceilMS(eLast, as.R) + 1500 + int64(r.rng.Intn(1000))
	t, err := as.getTmpl("", nowMS)
	if err != nil {
		if !as.d.Scratch {
			return
		}
		t = as.fallbackTmpl()
	}
	nr := n + t.startNr
	s0, e0 := as.refSeg(n)
	clear := func(after string) []byte {
		in := l1In{Kind: "l1", Asset: as.d.Name, Mode: "number", N: nr, SegID: uint64(nr), NowMS: nowMS, StartNr: t.startNr, RefStart: s0, RefEnd: e0, After: after}
		in.AudioURL = fmt.Sprintf("/livesim2/%s/%s?nowMS=%d", as.d.URLPath, fillT(t.audio, t.audioRep, uint64(nr)), nowMS)
		r.fetchAudio(as, in, nr)
		c.Count("l1:history:clear-after:" + after)
		return as.ls.GetRaw(in.AudioURL).Body
	}
	first := clear("nothing")
	expStart, expEnd, expIdx := expectedFrames(s0, e0, as.D, as.R, as.F, as.A, int64(len(as.src)))
	for _, v := range variants {
		vt, err := as.getTmpl(v, nowMS)
		if err != nil {
			continue // this configuration has no MPD for the asset (reported by the other runs where it matters)
		}
		id := uint64(nr)
		if strings.Contains(vt.audio, "$Time$") {
			id = expStart
		}
		url := fmt.Sprintf("/livesim2/%s%s/%s?nowMS=%d", v, as.d.URLPath, fillT(vt.audio, vt.audioRep, id), nowMS)
		in := l1In{Kind: "l1", Asset: as.d.Name, Mode: "history:" + v, N: nr, AudioURL: url, RefStart: s0, RefEnd: e0, After: "clear"}
		resp := as.ls.GetRaw(url)
		switch {
		case resp.Panic != "":
			c.Fail("", "panic:"+resp.Panic, "audio segment request panics", in)
		case resp.Status != 200:
			c.Fail("", fmt.Sprintf("history-status-%d", resp.Status), "available audio segment not served under configuration "+v, in)
		default:
			ps, err := parseMedia(resp.Body, as.audio.trex)
			if err != nil {
				c.Fail("", "unparsable-segment", err.Error(), in)
				break
			}
			if ps.Tfdt != expStart || ps.Tfdt+ps.dur() != expEnd || uint64(len(ps.Frames))*as.F != expEnd-expStart {
				c.Fail("", "history-boundary", fmt.Sprintf("under configuration %s the segment is [%d,%d) with %d frames, expected [%d,%d)", v, ps.Tfdt, ps.Tfdt+ps.dur(), len(ps.Frames), expStart, expEnd), in)
			} else if !strings.HasPrefix(v, "eccp_") {
				for k := range expIdx {
					if as.src[expIdx[k]].Hash != ps.Frames[k].Hash {
						c.Fail("", "history-frame-content", fmt.Sprintf("under configuration %s frame %d is not source frame %d", v, k, expIdx[k]), in)
						break
					}
				}
			}
		}
		c.Count("l1:history:" + v)
		again := clear(v)
		if first != nil && again != nil && !bytes.Equal(first, again) {
			in.Mode, in.After = "number", v
			in.AudioURL = fmt.Sprintf("/livesim2/%s/%s?nowMS=%d", as.d.URLPath, fillT(t.audio, t.audioRep, uint64(nr)), nowMS)
			c.Fail("", "history-dependent-bytes", "the same clear request is answered with other bytes after a request under configuration "+v, in)
		}
	}
}

func (r *run) l1(states []*assetState) {
	thorough := r.c.Thorough()
	for _, as := range states {
		segMS := int64(as.D*1000/as.R) / int64(as.N)
		L := int(40000 / segMS)
		if L > 6 {
			L = 6
		}
		if L < 2 {
			L = 2
		}
		N := int64(as.N)
		var starts []int64
		// the first loops completely, then wrap boundaries, random wraps, far from the epoch
		for n := int64(0); n < 3*N+2; n += int64(L) - 1 {
			starts = append(starts, n)
		}
		nWrapB, nRand, nFar := 6, 8, 6
		if thorough {
			nWrapB, nRand, nFar = 40, 80, 40
		}
		if as.d.Light {
			starts = starts[:0]
			for n := int64(0); n < N+2; n += int64(L) - 1 {
				starts = append(starts, n)
			}
			nWrapB, nRand, nFar = nWrapB/3, nRand/8, nFar/3
		}
		for i := 0; i < nWrapB; i++ {
			w := int64(3 + r.rng.Intn(400))
			starts = append(starts, w*N-int64(1+r.rng.Intn(L-1)))
		}
		for i := 0; i < nRand; i++ {
			starts = append(starts, r.rng.Int63n(5000*N))
		}
		for i := 0; i < nFar; i++ {
			nowMS := int64(1_650_000_000_000) + r.rng.Int63n(100_000_000_000)
			starts = append(starts, nowMS/segMS-int64(L)-1)
		}
		for _, n0 := range starts {
			r.numberRun(as, "", n0, L)
		}
		// request histories on the one server instance
		// low-latency variant: availabilityTimeOffset of half a segment (chunked mode needs 0 <= ato < segment duration)
		llVariant := fmt.Sprintf("ato_%g/chunkdur_%g/", float64(segMS)/2000, float64(segMS)/4000)
		variants := []string{"eccp_cbcs/", "eccp_cenc/", llVariant, "segtimeline_1/", "segtimelinenr_1/"}
		nHist := 2
		if thorough {
			nHist = 12
		}
		for i := 0; i < nHist; i++ {
			n := 3*N + r.rng.Int63n(400*N)
			if i == 1 {
				n = (4+r.rng.Int63n(300))*N - 1 // last segment of a loop
			}
			vs := append([]string{}, variants...)
			r.rng.Shuffle(len(vs), func(a, b int) { vs[a], vs[b] = vs[b], vs[a] })
			if !thorough {
				vs = append(vs[:0:0], "eccp_cbcs/", vs[r.rng.Intn(len(vs))], vs[r.rng.Intn(len(vs))])
			}
			r.historyRun(as, n, vs)
		}
		// the MPD cut into periods: boundaries at odd and even minutes (off / on the 1024-sample frame grid), far from the epoch
		perNow := []int64{1_030_000 + r.rng.Int63n(25_000), 1_090_000 + r.rng.Int63n(25_000),
			(int64(27_500_000)+r.rng.Int63n(1_600_000))*60_000 + 10_000 + r.rng.Int63n(45_000)}
		if thorough {
			for i := 0; i < 12; i++ {
				perNow = append(perNow, (int64(20)+r.rng.Int63n(30_000_000))*60_000+5_000+r.rng.Int63n(50_000))
			}
		}
		for i, nowMS := range perNow {
			r.periodsRun(as, "segtimeline_1/", nowMS, 60)
			r.periodsRun(as, "segtimelinenr_1/", nowMS+3, 60)
			if thorough && i%3 == 0 {
				r.periodsRun(as, "segtimeline_1/", nowMS, 30)
			}
		}
		// SegmentTimeline with $Time$ and with $Number$
		nTL := 5
		if thorough {
			nTL = 30
		}
		for i := 0; i < nTL; i++ {
			var nowMS int64
			switch {
			case i == 0:
				nowMS = 3*int64(as.D*1000/as.R) + 1234
			case i%3 == 1:
				nowMS = int64(1_650_000_000_000) + r.rng.Int63n(100_000_000_000)
			default:
				nowMS = 61_000 + r.rng.Int63n(40_000_000)
			}
			r.timelineRun(as, "segtimeline_1/", nowMS, 4)
			if i < 2 || thorough {
				r.timelineRun(as, "segtimelinenr_1/", nowMS+7, 2)
			}
		}
	}
}

// ---------------------------------------------------------------- L2: synthetic representations through the hook

type synthIn struct {
	Kind     string     `json:"kind"`
	Counts   []int      `json:"counts"`    // frames per VoD audio segment
	Start0   uint64     `json:"start0"`    // start time of the first segment
	Gaps     []uint64   `json:"gaps"`      // gap before each segment (normally 0)
	F        uint32     `json:"frame_dur"` // sample duration
	A        uint64     `json:"audio_ts"`  // audio timescale
	R        uint64     `json:"ref_ts"`    // reference timescale
	D        uint64     `json:"ref_loop"`  // reference loop duration
	RefStart uint64     `json:"ref_start"`
	RefEnd   uint64     `json:"ref_end"`
	Nr       uint32     `json:"nr"`
	Recipe   *[6]uint64 `json:"recipe,omitempty"` // arbitrary recipe instead of calcAudioSegRecipe
	InWrap   bool       `json:"in_wrap"`
	Inner    bool       `json:"inner_interval"`
}

func synthFS(in synthIn) (fstest.MapFS, *app.RepData, []vodSeg, error) {
	fsys := fstest.MapFS{}
	F := in.F
	rd := &app.RepData{ID: "A", ContentType: "audio", Codecs: "mp4a.40.2", MediaTimescale: int(in.A), MediaURI: "s_$Number$.m4s",
		DefaultSampleDuration: F, ConstantSampleDuration: &F}
	t := in.Start0
	g := uint32(0)
	var segs []vodSeg
	for i, cnt := range in.Counts {
		if i < len(in.Gaps) {
			t += in.Gaps[i]
		}
		fr, err := mp4.CreateFragment(uint32(i+1), 1)
		if err != nil {
			return nil, nil, nil, err
		}
		vs := vodSeg{Start: t}
		for k := 0; k < cnt; k++ {
			data := []byte{'V', 'F', 0, 0, 0, 0, 0, 0}
			binary.BigEndian.PutUint32(data[4:], g)
			fr.AddFullSample(mp4.FullSample{Sample: mp4.Sample{Flags: 0x02000000, Dur: F, Size: 8}, DecodeTime: t + uint64(k)*uint64(F), Data: data})
			vs.Frames = append(vs.Frames, frame{Dur: F, Idx: int64(g)})
			g++
		}
		seg := mp4.NewMediaSegment()
		seg.AddFragment(fr)
		var buf bytes.Buffer
		if err := seg.Encode(&buf); err != nil {
			return nil, nil, nil, err
		}
		fsys[fmt.Sprintf("a/s_%d.m4s", i+1)] = &fstest.MapFile{Data: buf.Bytes()}
		end := t + uint64(cnt)*uint64(F)
		vs.End = end
		segs = append(segs, vs)
		rd.Segments = append(rd.Segments, app.Segment{StartTime: t, EndTime: end, Nr: uint32(i + 1)})
		t = end
	}
	return fsys, rd, segs, nil
}

type synthObs struct {
	cls    int64
	msg    string
	tfdt   uint64
	seq    uint32
	frames []int64
	rec    app.VerifC03Recipe
}

func synthRun(in synthIn) (o synthObs, segs []vodSeg, err error) {
	fsys, rd, segs, err := synthFS(in)
	if err != nil {
		return o, nil, err
	}
	defer func() {
		if r := recover(); r != nil {
			o.cls, o.msg = 2, fmt.Sprint(r)
		}
	}()
	var rec app.VerifC03Recipe
	if in.Recipe != nil {
		q := *in.Recipe
		rec = app.VerifC03Recipe{SegNr: in.Nr, StartTime: q[0], EndTime: q[1], AudioInStart: q[2], AudioInEnd: q[3], AudioInEndAfterWrap: q[4]}
	} else {
		rec = app.VerifC03CalcAudioSegRecipe(in.Nr, in.RefStart, in.RefEnd, in.D, in.R, rd)
	}
	o.rec = rec
	seg, e := app.VerifC03CreateAudioSeg(fsys, "a", rd, rec)
	if e != nil {
		o.cls, o.msg = 1, e.Error()
		return o, segs, nil
	}
	if len(seg.Fragments) != 1 {
		o.cls, o.msg = 8, fmt.Sprintf("%d fragments", len(seg.Fragments))
		return o, segs, nil
	}
	fr := seg.Fragments[0]
	o.tfdt = fr.Moof.Traf.Tfdt.BaseMediaDecodeTime()
	o.seq = fr.Moof.Mfhd.SequenceNumber
	fss, e := fr.GetFullSamples(nil)
	if e != nil {
		o.cls, o.msg = 8, e.Error()
		return o, segs, nil
	}
	for _, fs := range fss {
		i := int64(-1)
		if len(fs.Data) == 8 && fs.Data[0] == 'V' {
			i = int64(binary.BigEndian.Uint32(fs.Data[4:]))
		}
		if fs.Dur != in.F {
			i = -2
		}
		o.frames = append(o.frames, i)
	}
	return o, segs, nil
}

func coqTabOf(segs []vodSeg) string {
	var l []string
	for _, s := range segs {
		l = append(l, fmt.Sprintf("Build_seg %s %s %d", u(s.Start), u(s.End), len(s.Frames)))
	}
	return "[" + strings.Join(l, "; ") + "]"
}

func (r *run) synthCase(in synthIn) {
	c := r.c
	o, segs, err := synthRun(in)
	if err != nil {
		c.Res.Notes = append(c.Res.Notes, "synthetic asset could not be built: "+err.Error())
		return
	}
	if o.cls == 8 {
		c.Fail("", "synth-output", o.msg, in)
		return
	}
	total := int64(0)
	for _, s := range segs {
		total += int64(len(s.Frames))
	}
	wf := in.Start0 == 0
	for _, g := range in.Gaps {
		wf = wf && g == 0
	}
	var id string
	if in.Recipe != nil {
		q := *in.Recipe
		id = r.add(fmt.Sprintf("KCreate %d %s (Build_recipe %d %s %s %s %s %s) %d %s %d %s",
			in.F, coqTabOf(segs), in.Nr, u(q[0]), u(q[1]), u(q[2]), u(q[3]), u(q[4]), o.cls, u(o.tfdt), o.seq, zl(o.frames)), in, true)
		c.Count(fmt.Sprintf("l2:createAudioSeg-arbitrary-recipe:class%d", o.cls))
		return
	}
	F, A, R := uint64(in.F), in.A, in.R
	expStart, expEnd, expIdx := expectedFrames(in.RefStart, in.RefEnd, in.D, R, F, A, total)
	w0 := ceilFrame(in.RefStart/in.D*in.D, R, F, A)
	in.Inner = innerInterval(segs, expStart-w0, expEnd-w0)
	id = r.add(fmt.Sprintf("KSeg %d %s %s %s %s %d %s %s [] %d %s %d %s", in.Nr, u(in.RefStart), u(in.RefEnd), u(in.D), u(R), in.F, u(A),
		coqTabOf(segs), o.cls, u(o.tfdt), o.seq, zl(o.frames)), in, true)
	kind := "straddling-or-malformed"
	// oracle, where the property speaks: well-formed table, reference segment inside one loop, table reaches the start
	if wf && in.InWrap && expStart-w0 < uint64(total)*F {
		kind = "wellformed"
		switch {
		case o.cls == 2:
			c.Fail(id, "panic:createAudioSeg:"+o.msg, "createAudioSeg panics on a well-formed synthetic representation", in)
		case o.cls == 1 && in.Inner:
			c.Fail(id, "audio-inner-interval-500", "createAudioSeg fails: output interval strictly inside one VoD audio segment: "+o.msg, in)
			kind = "wellformed-inner"
		case o.cls == 1:
			c.Fail(id, "synth-error", "createAudioSeg fails on a well-formed synthetic representation: "+o.msg, in)
		default:
			if o.tfdt != expStart {
				c.Fail(id, "start-boundary", fmt.Sprintf("tfdt %d, expected %d", o.tfdt, expStart), in)
			}
			if uint64(len(o.frames))*F != expEnd-expStart {
				c.Fail(id, "frame-count", fmt.Sprintf("%d frames, expected %d", len(o.frames), (expEnd-expStart)/F), in)
			} else {
				for k := range expIdx {
					if o.frames[k] != expIdx[k] {
						c.Fail(id, "frame-content", fmt.Sprintf("frame %d is source frame %d, the looped source has %d there", k, o.frames[k], expIdx[k]), in)
						break
					}
				}
			}
			if o.seq != in.Nr {
				c.Fail(id, "sequence-number", fmt.Sprintf("sequence number %d, expected %d", o.seq, in.Nr), in)
			}
			pad := len(expIdx) > 0 && expIdx[len(expIdx)-1] == total-1 && len(expIdx) > 1 && expIdx[len(expIdx)-2] == total-1
			if pad {
				kind = "wellformed-padded"
			} else if in.Inner {
				kind = "wellformed-inner-interval"
			}
			r.distinct[fmt.Sprint("synth|", in.Counts, in.F, in.A, in.R, in.D, in.RefStart, in.RefEnd)] = true
		}
	}
	c.Count(fmt.Sprintf("l2:createAudioSeg:%s:class%d", kind, o.cls))
}

func (r *run) randSynth() synthIn {
	for {
		in := r.randSynth1()
		F := uint64(in.F)
		// keep the produced segment small (frame lists are written out as Coq terms)
		if (ceilFrame(in.RefEnd, in.R, F, in.A)-ceilFrame(in.RefStart, in.R, F, in.A))/F <= 300 {
			return in
		}
	}
}

func (r *run) randSynth1() synthIn {
	rng := r.rng
	Fs := []uint32{1024, 1536, 960, 1000, 3, 1}
	As := []uint64{48000, 44100, 1000, 90000}
	Rs := []uint64{90000, 30000, 12288, 15360, 1000, 25, 1}
	in := synthIn{Kind: "synth", F: Fs[rng.Intn(len(Fs))], A: As[rng.Intn(len(As))], R: Rs[rng.Intn(len(Rs))], Nr: rng.Uint32()}
	if rng.Intn(3) == 0 {
		in.Nr = uint32(rng.Intn(100))
	}
	nseg := 1 + rng.Intn(5)
	total := 0
	for i := 0; i < nseg; i++ {
		cnt := 1 + rng.Intn(12)
		in.Counts = append(in.Counts, cnt)
		total += cnt
	}
	// reference loop: the audio loop +- a few frames, plus a fraction of a frame
	dFrames := total + rng.Intn(7) - 3
	if rng.Intn(3) == 0 {
		dFrames = total
	}
	if dFrames < 1 {
		dFrames = 1
	}
	num := new(big.Int).Mul(big.NewInt(int64(dFrames)*int64(in.F)), new(big.Int).SetUint64(in.R))
	D := new(big.Int).Div(num, new(big.Int).SetUint64(in.A)).Uint64()
	perFrame := uint64(in.F) * in.R / in.A
	if perFrame > 0 && rng.Intn(2) == 0 {
		D += uint64(rng.Int63n(int64(perFrame)))
	}
	if D == 0 {
		D = 1
	}
	in.D = D
	// reference segments: cut the loop into pieces
	k := 1 + rng.Intn(6)
	cuts := []uint64{0, D}
	for i := 1; i < k; i++ {
		cuts = append(cuts, uint64(rng.Int63n(int64(D)+1)))
	}
	sort.Slice(cuts, func(i, j int) bool { return cuts[i] < cuts[j] })
	var uniq []uint64
	for i, v := range cuts {
		if i == 0 || v != cuts[i-1] {
			uniq = append(uniq, v)
		}
	}
	j := rng.Intn(len(uniq) - 1)
	wraps := []uint64{0, 1, 2, 3, 7, 1000, 123456, 40_000_000}
	w := wraps[rng.Intn(len(wraps))]
	in.RefStart, in.RefEnd = w*D+uniq[j], w*D+uniq[j+1]
	in.InWrap = true
	switch rng.Intn(12) {
	case 0: // reference segment straddling the loop boundary (the part after the wrap)
		in.RefEnd += uint64(rng.Int63n(int64(D) + 1))
		in.InWrap = in.RefEnd <= (w+1)*D
	case 1: // malformed table: first segment does not start at 0 or gaps
		if rng.Intn(2) == 0 {
			in.Start0 = uint64(in.F) * uint64(1+rng.Intn(3))
		} else {
			for i := 0; i < nseg; i++ {
				in.Gaps = append(in.Gaps, uint64(rng.Intn(2))*uint64(in.F))
			}
		}
	}
	return in
}

func (r *run) randRecipe() synthIn {
	rng := r.rng
	in := r.randSynth()
	F := uint64(in.F)
	total := 0
	for _, c := range in.Counts {
		total += c
	}
	fr := func(n int) uint64 {
		v := uint64(rng.Intn(n+1)) * F
		if rng.Intn(8) == 0 && F > 1 {
			v += uint64(rng.Int63n(int64(F)))
		}
		return v
	}
	inStart := fr(total + 2)
	inEnd := inStart + fr(total+2)
	if rng.Intn(10) == 0 {
		inEnd = fr(total + 2)
	}
	after := uint64(0)
	if rng.Intn(3) == 0 {
		after = fr(total + 1)
	}
	start := fr(1000)
	end := start + (inEnd - inStart) + after
	if inEnd < inStart {
		end = start + fr(10)
	}
	if rng.Intn(6) == 0 {
		end = start + fr(2*total)
	}
	in.Recipe = &[6]uint64{start, end, inStart, inEnd, after, 0}
	return in
}

// ---------------------------------------------------------------- L2: arithmetic

type arithIn struct {
	Kind string   `json:"kind"`
	Args []uint64 `json:"args"`
}

func (r *run) randTimeArgs() (t, rr, F, a uint64) {
	rng := r.rng
	Fs := []uint64{1024, 1536, 960, 1, 2, 3, 1000, 4096}
	As := []uint64{48000, 44100, 1000, 90000, 1, 96000, 22050}
	Rs := []uint64{90000, 30000, 12288, 15360, 1000, 25, 1, 24000, 60000, 10_000_000}
	F, a, rr = Fs[rng.Intn(len(Fs))], As[rng.Intn(len(As))], Rs[rng.Intn(len(Rs))]
	if rng.Intn(6) == 0 {
		F, a, rr = uint64(1+rng.Intn(5000)), uint64(1+rng.Intn(200000)), uint64(1+rng.Intn(200000))
	}
	switch rng.Intn(10) {
	case 0:
		t = uint64(rng.Intn(100))
	case 1: // close to a frame boundary
		k := uint64(rng.Int63n(1 << 30))
		t = k * F * rr / a
		t += uint64(rng.Intn(3))
		if t > 0 {
			t -= 1
		}
	case 2: // wall-clock sized
		t = uint64(1_600_000_000+rng.Int63n(200_000_000)) * rr
		if rr > 1 {
			t += uint64(rng.Int63n(int64(rr)))
		}
	case 3: // overflowing uint64 products (the model wraps like the code)
		t = rng.Uint64() >> uint(rng.Intn(12))
	default:
		t = uint64(rng.Int63n(1 << 40))
	}
	return
}

func (r *run) l2Arith() {
	c := r.c
	nTime, nRec, nTL := 10000, 3000, 600
	if c.Thorough() {
		nTime, nRec, nTL = 100000, 40000, 5000
	}
	for i := 0; i < nTime; i++ {
		t, rr, F, a := r.randTimeArgs()
		if i%997 == 0 {
			switch (i / 997) % 2 {
			case 0:
				F = 0
			case 1:
				rr = 0
			}
		}
		in := arithIn{Kind: "time", Args: []uint64{t, rr, F, a}}
		cls, v := int64(0), uint64(0)
		func() {
			defer func() {
				if rec := recover(); rec != nil {
					cls = 2
				}
			}()
			v = app.VerifC03CalcAudioTimeFromRef(t, rr, F, a)
		}()
		id := r.add(fmt.Sprintf("KTime %s %s %s %s %d %s", u(t), u(rr), u(F), u(a), cls, u(v)), in, false)
		// oracle: least multiple of F at or after t (where the products fit into 64 bits)
		hi := new(big.Int).Mul(new(big.Int).SetUint64(t), new(big.Int).SetUint64(a))
		hi.Add(hi, new(big.Int).Mul(new(big.Int).SetUint64(F), new(big.Int).SetUint64(rr)))
		_ = hi
		if cls == 0 && ceilFrame(t, rr, F, a) != ^uint64(0) { // every input whose result fits into 64 bits (128-bit product since the fix)
			if exp := ceilFrame(t, rr, F, a); v != exp {
				c.Fail(id, "boundary", fmt.Sprintf("calcAudioTimeFromRef(%d,%d,%d,%d) = %d, least frame boundary at or after the reference time is %d", t, rr, F, a, v, exp), in)
			}
			c.Count("l2:calcAudioTimeFromRef:in-range")
			if i < 4000 {
				r.distinct[fmt.Sprint("time|", t, rr, F, a)] = true
			}
		} else if cls == 2 {
			c.Count("l2:calcAudioTimeFromRef:zero-divisor")
		} else {
			c.Count("l2:calcAudioTimeFromRef:wrapping-uint64")
		}
	}
	for i := 0; i < nRec; i++ {
		t, rr, F, a := r.randTimeArgs()
		if t > 1<<44 && r.rng.Intn(4) != 0 {
			t >>= 20
		}
		D := uint64(1 + r.rng.Int63n(1<<uint(1+r.rng.Intn(24))))
		s := t
		e := s + uint64(r.rng.Int63n(int64(D)+1))
		switch r.rng.Intn(10) {
		case 0:
			e = s + uint64(r.rng.Int63n(int64(3*D)+1))
		case 1:
			s = s / D * D
		case 2:
			e = (s/D + 1) * D
		case 3:
			if r.rng.Intn(4) == 0 {
				D = 0
			}
		}
		nr := r.rng.Uint32()
		F32 := uint32(F)
		rd := &app.RepData{ID: "A", MediaTimescale: int(a), ConstantSampleDuration: &F32}
		in := arithIn{Kind: "recipe", Args: []uint64{uint64(nr), s, e, D, rr, F, a}}
		cls := int64(0)
		var rec app.VerifC03Recipe
		func() {
			defer func() {
				if x := recover(); x != nil {
					cls = 2
				}
			}()
			rec = app.VerifC03CalcAudioSegRecipe(nr, s, e, D, rr, rd)
		}()
		obs := fmt.Sprintf("[%d; %s; %s; %s; %s; %s]", rec.SegNr, u(rec.StartTime), u(rec.EndTime), u(rec.AudioInStart), u(rec.AudioInEnd), u(rec.AudioInEndAfterWrap))
		id := r.add(fmt.Sprintf("KRecipe %d %s %s %s %s %s %s %d %s", nr, u(s), u(e), u(D), u(rr), u(F), u(a), cls, obs), in, false)
		c.Count(fmt.Sprintf("l2:calcAudioSegRecipe:class%d", cls))
		// oracle: start/end are the frame boundaries; in + after-wrap parts add up to the output duration
		hi := new(big.Int).Mul(new(big.Int).SetUint64(e+D), new(big.Int).SetUint64(a))
		hi.Add(hi, new(big.Int).Mul(new(big.Int).SetUint64(F), new(big.Int).SetUint64(rr)))
		if cls == 0 && hi.IsUint64() && e >= s {
			if rec.StartTime != ceilFrame(s, rr, F, a) || rec.EndTime != ceilFrame(e, rr, F, a) {
				c.Fail(id, "recipe-boundary", fmt.Sprintf("recipe start/end %d/%d are not the frame boundaries of %d/%d", rec.StartTime, rec.EndTime, s, e), in)
			}
			if rec.AudioInEnd-rec.AudioInStart+rec.AudioInEndAfterWrap != rec.EndTime-rec.StartTime {
				c.Fail(id, "recipe-sum", "input parts of the recipe do not add up to the output duration", in)
			}
		}
	}
	for i := 0; i < nTL; i++ {
		_, rr, F, a := r.randTimeArgs()
		if rr > 1<<31 || a > 1<<31 {
			continue
		}
		F32 := uint32(F)
		rd := &app.RepData{ID: "A", ContentType: "audio", MediaTimescale: int(a), DefaultSampleDuration: F32, ConstantSampleDuration: &F32}
		codec := 2
		if r.rng.Intn(4) == 0 {
			// no default sample duration: the frame duration is guessed from codec family and timescale
			rd.DefaultSampleDuration = 0
			codec = r.rng.Intn(3)
			rd.Codecs = []string{"mp4a.40.2", []string{"ac-3", "ec-3"}[r.rng.Intn(2)], "opus"}[codec]
			if r.rng.Intn(2) == 0 {
				a = 48000
				rd.MediaTimescale = 48000
			}
			F = repSampleDur(0, codec, a)
		}
		refT := uint64(r.rng.Int63n(1 << uint(1+r.rng.Intn(46))))
		startNr := []int{0, 0, 0, 5, -1}[r.rng.Intn(5)]
		var ent [][2]uint64
		var ents []string
		in := tlIn{Kind: "timeline-hook", RefT: refT}
		ne := 1 + r.rng.Intn(5)
		if r.rng.Intn(40) == 0 {
			ne = 0
		}
		segd := uint64(1 + r.rng.Int63n(int64(4*rr)+1))
		for k := 0; k < ne; k++ {
			d := segd
			if r.rng.Intn(2) == 0 {
				d = uint64(1 + r.rng.Int63n(int64(4*rr)+1))
			}
			R := uint64(r.rng.Intn(8))
			ent = append(ent, [2]uint64{d, R})
			ents = append(ents, fmt.Sprintf("(%d, %d)", d, R))
			in.Entries = append(in.Entries, [2]int64{int64(d), int64(R)})
		}
		in.URL = fmt.Sprintf("hook r=%d F=%d a=%d startNr=%d default_sample_duration=%d codecs=%q", rr, F, a, startNr, rd.DefaultSampleDuration, rd.Codecs)
		cls := int64(0)
		var out [][3]int64
		func() {
			defer func() {
				if x := recover(); x != nil {
					cls = 2
				}
			}()
			out, _ = app.VerifC03AudioTimeline(rd, uint32(rr), startNr, refT, ent)
		}()
		var obs []string
		for _, e := range out {
			obs = append(obs, fmt.Sprintf("(%s, %d, %d)", lib.Zs(e[0]), e[1], e[2]))
		}
		id := r.add(fmt.Sprintf("KTimeline %s %s [%s] %s %d %d %d %s %d [%s]", lib.Zs(int64(startNr)), u(refT), strings.Join(ents, "; "), u(rr), F32, rd.DefaultSampleDuration, codec, u(a), cls, strings.Join(obs, "; ")), in, false)
		c.Count(fmt.Sprintf("l2:generateTimelineEntriesFromRef:class%d", cls))
		in.MpdSampleDur, in.FrameDur, in.SampleDurMismatch = F, uint64(F32), F != uint64(F32)
		r.c.Res.Inputs[id] = in
		if startNr >= 0 && F32 > 0 && len(ent) > 0 {
			// oracle: expanded entries are the frame-aligned images of the reference entries, for the frame
			// duration of the representation (its constant sample duration)
			var exp []td
			t := refT
			for _, e := range ent {
				for j := uint64(0); j <= e[1]; j++ {
					s0, e0 := ceilFrame(t, rr, uint64(F32), a), ceilFrame(t+e[0], rr, uint64(F32), a)
					exp = append(exp, td{s0, e0 - s0})
					t += e[0]
				}
			}
			var got []td
			var tt uint64
			for _, e := range out {
				if e[0] >= 0 {
					tt = uint64(e[0])
				}
				for j := int64(0); j <= e[2]; j++ {
					got = append(got, td{tt, uint64(e[1])})
					tt += uint64(e[1])
				}
			}
			if cls != 0 || fmt.Sprint(exp) != fmt.Sprint(got) {
				key := "timeline-entries"
				if in.SampleDurMismatch {
					key = "timeline-sampledur"
				}
				c.Fail(id, key, fmt.Sprintf("generateTimelineEntriesFromRef does not list the frame-aligned images of the reference entries (class %d; frame duration %d, the MPD code works with %d)", cls, F32, F), in)
			}
		}
	}
}

// ---------------------------------------------------------------- main

type env struct {
	notes   []string
	scratch string
	states  []*assetState
	byName  map[string]*assetState
}

func setup(seed int64, nRand int) (*env, error) {
	e := &env{byName: map[string]*assetState{}}
	dir, err := os.MkdirTemp("", "verif-c03-")
	if err != nil {
		return nil, err
	}
	e.scratch = dir
	sd, notes, err := buildScratch(dir, rand.New(rand.NewSource(seed^0x5eed)), nRand)
	e.notes = notes
	if err != nil {
		return e, err
	}
	lsB, err := lib.NewLivesim(lib.TestVodRoot, nil)
	if err != nil {
		return e, err
	}
	lsS, err := lib.NewLivesim(dir, nil)
	if err != nil {
		return e, err
	}
	for _, d := range append(bundled(), sd...) {
		root, ls := lib.TestVodRoot, lsB
		if d.Scratch {
			root, ls = dir, lsS
		}
		as, err := loadAsset(d, root, ls)
		if err != nil {
			return e, err
		}
		e.states = append(e.states, as)
		e.byName[d.Name] = as
	}
	return e, nil
}

func (e *env) cleanup() {
	if e != nil && e.scratch != "" {
		os.RemoveAll(e.scratch)
	}
}

func runC03(c *lib.Ctx) error {
	nRand := 3
	if c.Thorough() {
		nRand = 12
	}
	e, err := setup(c.Seed, nRand)
	defer e.cleanup()
	if err != nil {
		return err
	}
	c.Res.Notes = append(c.Res.Notes, e.notes...)
	r := &run{c: c, rng: rand.New(rand.NewSource(c.Seed)), distinct: map[string]bool{}}
	if c.Replay != "" {
		return replayC03(c, r, e)
	}
	r.l1(e.states)
	nSynth, nRecipe := 2000, 500
	if c.Thorough() {
		nSynth, nRecipe = 25000, 6000
	}
	for i := 0; i < nSynth; i++ {
		r.synthCase(r.randSynth())
	}
	for i := 0; i < nRecipe; i++ {
		r.synthCase(r.randRecipe())
	}
	r.l2Arith()

	c.Res.Evaluations = len(r.cases)
	c.Res.DistinctNontrivial = len(r.distinct)
	c.Res.Rule = "L1: every bundled asset with audio (AAC 1024 testpic_2s/6s/8s/alt_seg_dur, AC-3 1536 bbb, 29.97-based WAVE) and 5 scratch assets built from them " +
		"(8 s audio segment vs 2 s video segments, 2 s audio vs 8 s video, audio loop longer than the video loop, audio loop 3 frames shorter, AC-3 vs 8 s video); " +
		"runs of consecutive segment numbers over the first loops, at wrap boundaries, at random wraps (< 5000) and at wall-clock 2022-2025; $Number$, SegmentTimeline $Time$ and SegmentTimeline $Number$; " +
		"L2 through verif_hooks_c03.go: createAudioSeg on random in-memory representations (1-5 segments of 1-12 frames, reference loop = audio loop -3..+3 frames, reference segments inside a loop or straddling it, arbitrary recipes), " +
		"calcAudioTimeFromRef / calcAudioSegRecipe / generateTimelineEntriesFromRef on random arguments (incl. wrapping products and zero divisors). " +
		"distinct = distinct (asset, addressing, segment number) resp. distinct argument tuples; non-trivial = a segment with >= 1 frame was produced and compared frame by frame with the VoD source, resp. in-range arguments"
	for _, id := range []string{"0", "7", "40"} {
		if in, ok := c.Res.Inputs[id]; ok {
			c.Sample(map[string]any{"case": id, "input": in})
		}
	}

	// case files: segment cases are heavy (frame lists), arithmetic cases light
	var defs strings.Builder
	for _, as := range e.states {
		fmt.Fprintf(&defs, "Definition tab_%s : list seg := %s.\n", as.d.Name, as.coqTab())
		fmt.Fprintf(&defs, "Definition canon_%s : list Z := %s.\n", as.d.Name, zl(as.canon))
		var vl []string
		for i, vs := range as.video.Segs {
			vl = append(vl, fmt.Sprintf("Timeline.Build_seg %d %d %d", vs.Start, vs.End, i+1))
		}
		fmt.Fprintf(&defs, "Definition vrep_%s : Timeline.rep := Timeline.Build_rep [%s] %d.\n", as.d.Name, strings.Join(vl, "; "), as.R)
	}
	var heavy, light []string
	for _, cr := range r.cases {
		if cr.heavy {
			heavy = append(heavy, cr.term)
		} else {
			light = append(light, cr.term)
		}
	}
	k := 0
	emit := func(terms []string, shard int) {
		for s := 0; s*shard < len(terms); s++ {
			end := (s + 1) * shard
			if end > len(terms) {
				end = len(terms)
			}
			c.WriteCases(fmt.Sprintf("cases_C03_%d.v", k),
				lib.CasesFile("From Verif Require Import GoSem Audio CorrC03.\nFrom Verif Require Timeline.", "c03case", defs.String(), terms[s*shard:end], "model_view"))
			k++
		}
	}
	emit(heavy, 350)
	emit(light, 3000)
	return nil
}

func replayC03(c *lib.Ctx, r *run, e *env) error {
	kind, err := lib.LoadReplayInput[struct {
		Kind string `json:"kind"`
	}](c.Replay)
	if err != nil {
		return err
	}
	switch kind.Kind {
	case "l1":
		in, err := lib.LoadReplayInput[l1In](c.Replay)
		if err != nil {
			return err
		}
		as := e.byName[in.Asset]
		if as == nil {
			return fmt.Errorf("unknown asset %s", in.Asset)
		}
		if in.After != "" && in.After != "nothing" && in.After != "clear" {
			// a failure that depends on what the server was asked before: replay the history clear, <configuration>, clear
			r.historyRun(as, in.N-in.StartNr, []string{in.After})
			fmt.Printf("replay C03: history clear, %s, clear for segment %d of %s\n", in.After, in.N, in.Asset)
			return nil
		}
		if strings.HasSuffix(in.Mode, "-none") {
			r.fetchNone(as, in, "replayed request for something that is no segment")
			resp := as.ls.GetRaw(in.AudioURL)
			fmt.Printf("replay C03: GET %s -> %d %s\n", in.AudioURL, resp.Status, resp.Panic)
			return nil
		}
		o := r.fetchAudio(as, in, in.N)
		fmt.Printf("replay C03: GET %s -> %d %s tfdt=%d frames=%d seq=%d\n", in.AudioURL, o.status, o.panicS, o.ps.Tfdt, len(o.ps.Frames), o.ps.Seq)
		if in.Mode != "number" && in.NowMS != 0 {
			// the segment was requested because the MPD of that instant lists it: compare with that MPD again
			rest := strings.TrimPrefix(in.AudioURL, "/livesim2/")
			if j := strings.Index(rest, as.d.URLPath+"/"); j >= 0 {
				r.timelineRun(as, rest[:j], in.NowMS, 4)
			}
		}
	case "mpd":
		in, err := lib.LoadReplayInput[struct {
			Asset string `json:"asset"`
			URL   string `json:"url"`
		}](c.Replay)
		if err != nil {
			return err
		}
		as := e.byName[in.Asset]
		if as == nil {
			return fmt.Errorf("unknown asset %s (assets drawn from the seed are only present with the same seed)", in.Asset)
		}
		resp := as.ls.GetRaw(in.URL)
		fmt.Printf("replay C03: GET %s -> %d %s\n", in.URL, resp.Status, resp.Panic)
		if resp.Status != 200 {
			r.mpdFailure(as, in.URL, fmt.Errorf("status %d", resp.Status))
		}
	case "periods":
		in, err := lib.LoadReplayInput[perIn](c.Replay)
		if err != nil {
			return err
		}
		as := e.byName[in.Asset]
		if as == nil {
			return fmt.Errorf("unknown asset %s (assets drawn from the seed are only present with the same seed)", in.Asset)
		}
		var periods int
		var nowMS int64
		rest := strings.TrimPrefix(in.URL, "/livesim2/")
		fmt.Sscanf(rest, "periods_%d/", &periods)
		rest = rest[strings.Index(rest, "/")+1:]
		prefix := ""
		if j := strings.Index(rest, as.d.URLPath+"/"); j >= 0 {
			prefix = rest[:j]
		}
		fmt.Sscanf(in.URL[strings.Index(in.URL, "nowMS=")+6:], "%d", &nowMS)
		r.periodsRun(as, prefix, nowMS, periods)
		fmt.Printf("replay C03: %s against %s\n", in.URL, in.Single)
	case "synth":
		in, err := lib.LoadReplayInput[synthIn](c.Replay)
		if err != nil {
			return err
		}
		o, _, _ := synthRun(in)
		fmt.Printf("replay C03: createAudioSeg class=%d %s tfdt=%d seq=%d frames=%v recipe=%+v\n", o.cls, o.msg, o.tfdt, o.seq, o.frames, o.rec)
		r.synthCase(in)
	case "timeline":
		in, err := lib.LoadReplayInput[tlIn](c.Replay)
		if err != nil {
			return err
		}
		as := e.byName[in.Asset]
		if as == nil {
			return fmt.Errorf("unknown asset %s", in.Asset)
		}
		var prefix string
		var nowMS int64
		if i := strings.Index(in.URL, "/livesim2/"); i >= 0 {
			rest := in.URL[i+len("/livesim2/"):]
			if j := strings.Index(rest, as.d.URLPath); j >= 0 {
				prefix = rest[:j]
			}
		}
		fmt.Sscanf(in.URL[strings.Index(in.URL, "nowMS=")+6:], "%d", &nowMS)
		r.timelineRun(as, prefix, nowMS, 4)
		fmt.Printf("replay C03: %s\n", in.URL)
	case "time":
		in, err := lib.LoadReplayInput[arithIn](c.Replay)
		if err != nil {
			return err
		}
		a := in.Args
		v := app.VerifC03CalcAudioTimeFromRef(a[0], a[1], a[2], a[3])
		exp := ceilFrame(a[0], a[1], a[2], a[3])
		fmt.Printf("replay C03: calcAudioTimeFromRef(%v) = %d, least frame boundary %d\n", a, v, exp)
		if v != exp {
			c.Fail("replay", "boundary", "calcAudioTimeFromRef is not the least frame boundary at or after the reference time", in)
		}
	case "recipe":
		in, err := lib.LoadReplayInput[arithIn](c.Replay)
		if err != nil {
			return err
		}
		a := in.Args
		F32 := uint32(a[5])
		rd := &app.RepData{ID: "A", MediaTimescale: int(a[6]), ConstantSampleDuration: &F32}
		rec := app.VerifC03CalcAudioSegRecipe(uint32(a[0]), a[1], a[2], a[3], a[4], rd)
		fmt.Printf("replay C03: calcAudioSegRecipe(%v) = %+v\n", a, rec)
		if rec.StartTime != ceilFrame(a[1], a[4], a[5], a[6]) || rec.EndTime != ceilFrame(a[2], a[4], a[5], a[6]) {
			c.Fail("replay", "recipe-boundary", "recipe start/end are not the frame boundaries", in)
		}
		if rec.AudioInEnd-rec.AudioInStart+rec.AudioInEndAfterWrap != rec.EndTime-rec.StartTime {
			c.Fail("replay", "recipe-sum", "input parts of the recipe do not add up to the output duration", in)
		}
	default:
		fmt.Printf("replay C03: input kind %q is replayed by re-running the check (hook-level timeline cases carry their arguments in the replay file)\n", kind.Kind)
	}
	return nil
}
