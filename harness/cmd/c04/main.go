// C04: each segment goes too-early -> available -> gone, at exactly the right instants.
package main

import (
	"fmt"
	"math/big"
	"math/rand"
	"sort"
	"strings"
	"sync"
	"time"

	"verifharness/lib"
)

func main() { lib.Main("C04", run) }

type c04in struct {
	Asset string    `json:"asset"`
	Rep   string    `json:"rep"`
	Kind  string    `json:"kind"`
	Cfg   lib.TLCfg `json:"cfg"`
	N     int64     `json:"n"` // segment index counted from availabilityStartTime (-1: not a listed segment)
	SegID int64     `json:"seg_id"`
	NowMS int64     `json:"now_ms"`
	URL   string    `json:"url"`
	// expected phase by the property text: 0 = 425, 1 = 200, 2 = 410, 4 = 404; 3 = 200 or 410 (the
	// property does not fix the instant at which an old segment goes away beyond "at least tsbd")
	Want int `json:"want_phase"`
	// Edge names the instants within 2 ms of a transition that is not on the millisecond grid
	// (the code compares whole microseconds; the exact model is not compared there)
	Edge string `json:"edge,omitempty"`
	Form string `json:"form,omitempty"` // "nowDate": the instant is given as nowDate=<RFC 3339 with milliseconds>
	Head bool   `json:"head_twin,omitempty"` // the same URL is also asked with HEAD and must get the same status
}

func phaseOK(want, got int) bool {
	if want == 3 {
		return got == 1 || got == 2
	}
	return want == got
}

// availability instant of the segment ending at media time e (ticks): A*1000 = start*1000 + e*1000/ts - ato,
// as an exact rational in ms
func availRat(e, ts int64, c lib.TLCfg) *big.Rat {
	a := new(big.Rat).SetFrac(big.NewInt(0).Mul(big.NewInt(e), big.NewInt(1000)), big.NewInt(ts))
	a.Add(a, new(big.Rat).SetInt64(c.StartS*1000))
	if c.AtoMS > 0 {
		a.Sub(a, new(big.Rat).SetInt64(c.AtoMS))
	}
	return a
}

func ceilRat(r *big.Rat) int64 {
	q := new(big.Int)
	m := new(big.Int)
	q.DivMod(r.Num(), r.Denom(), m) // floor for positive denominators
	if m.Sign() != 0 {
		q.Add(q, big.NewInt(1))
	}
	return q.Int64()
}

func floorRat(r *big.Rat) int64 {
	q := new(big.Int)
	m := new(big.Int)
	q.DivMod(r.Num(), r.Denom(), m)
	return q.Int64()
}

// roundRat: nearest integer, halves away from zero (math.Round) for non-negative values
func roundRat(r *big.Rat) int64 {
	two := new(big.Rat).SetFrac64(1, 2)
	return floorRat(new(big.Rat).Add(r, two))
}

func phaseOf(status int) int {
	switch status {
	case 425:
		return 0
	case 200:
		return 1
	case 410:
		return 2
	case 404:
		return 4
	}
	return -1
}

type target struct {
	a     *lib.TLAsset
	r     *lib.TLRep
	cfg   lib.TLCfg
	n     int64
	segID int64
	endT  int64 // end of the (reference) segment in ticks of tsRef
	tsRef int64
	model bool // the Coq model covers this request (non-audio)
	name  string
	kind  string // reported track kind when it differs from r.Kind (generated subtitles)
}

func run(c *lib.Ctx) error {
	assets, err := lib.LoadBundledAssets(lib.TestVodRoot)
	if err != nil {
		return err
	}
	ls, err := lib.NewLivesim(lib.TestVodRoot, nil)
	if err != nil {
		return err
	}
	if c.Replay != "" {
		in, err := lib.LoadReplayInput[c04in](c.Replay)
		if err != nil {
			return err
		}
		for _, a := range assets {
			if a.Path == in.Asset {
				r := a.Rep(in.Rep)
				if r == nil {
					r = a.Reps[0]
				}
				resp := ls.GetRaw(in.URL)
				o := lib.ObserveSeg(resp, r)
				fmt.Printf("replay %s -> status %d panic=%q early=%d (expected phase %d)\n", in.URL, o.Status, o.Panic, o.EarlyMS, in.Want)
				if !phaseOK(in.Want, phaseOf(o.Status)) {
					key := fmt.Sprintf("phase:%s:%s:want%d:got%d", in.Kind, in.Cfg.Mode, in.Want, o.Status)
					if o.Status == 0 {
						key = "panic:" + o.Panic
					}
					c.Fail("replay", key, fmt.Sprintf("%s answered %d %s at nowMS=%d, expected phase %d", in.URL, o.Status, o.Panic, in.NowMS, in.Want), in)
				}
				if in.Head {
					if hs := ls.DoRaw("HEAD", in.URL).Status; hs != o.Status {
						c.Fail("replay", "head-differs:"+in.Kind, fmt.Sprintf("%s at nowMS=%d: GET answered %d, HEAD answered %d", in.URL, in.NowMS, o.Status, hs), in)
					}
				}
			}
		}
		return nil
	}
	rng := rand.New(rand.NewSource(c.Seed))
	starts := []int64{0, 0, 30, 1600000000}
	tsbds := []int64{-1, -1, 0, 1, 60, 3600, 172800}
	snrs := []int64{-1, -1, 0, 1, 7}
	modes := []string{"number", "tlnr", "tlt"}
	nCfg, nIdx := 5, 2
	if c.Thorough() {
		nCfg, nIdx = 24, 5
	}
	var defs strings.Builder
	var targets []target
	pairs := lib.NewPairCover()
	for ai, a := range assets {
		ref := a.Ref()
		N := int64(len(ref.Segs))
		segMS := a.LoopMS / N
		for ri, r := range a.Reps {
			name := fmt.Sprintf("rep_%d_%d", ai, ri)
			if r.Kind != "audio" {
				fmt.Fprintf(&defs, "Definition %s : rep := %s.\n", name, lib.CoqRep(r.VodRep))
			}
			for k := 0; k < nCfg; k++ {
				// eight random candidates; the one that covers the most new pairs of option values for this
				// track kind is taken (interactions of two options that are each fine alone)
				var cands []lib.TLCfg
				for q := 0; q < 8; q++ {
					cand := lib.TLCfg{StartS: starts[rng.Intn(len(starts))], Snr: snrs[rng.Intn(len(snrs))], Tsbd: tsbds[rng.Intn(len(tsbds))], Mode: modes[rng.Intn(3)]}
					switch rng.Intn(6) {
					case 0:
						cand.AtoMS = -1
					case 1:
						cand.AtoMS = segMS / 4
					case 2:
						cand.AtoMS = segMS + 500
					case 3:
						cand.AtoMS = 1 + rng.Int63n(segMS-1)
					}
					if r.Kind == "image" {
						cand.Mode = "number"
					}
					cands = append(cands, cand)
				}
				cfg := pairs.Pick(r.Kind, segMS, cands)
				if k == 0 {
					cfg = lib.TLCfg{Snr: -1, Tsbd: -1, Mode: modes[(ai+ri)%3]}
				}
				if k == 1 {
					// every representation (also the ones with a timescale of their own: text, other video rates)
					// with a non-zero start time and $Time$ addressing
					cfg = lib.TLCfg{StartS: []int64{30, 1600000000}[(ai+ri)%2], Snr: -1, Tsbd: -1, Mode: "tlt"}
				}
				if k == 2 {
					cfg = lib.TLCfg{StartS: []int64{1600000000, 30}[(ai+ri)%2], Snr: []int64{-1, 7}[ri%2], Tsbd: 60, Mode: "number"}
				}
				if r.Kind == "image" {
					cfg.Mode = "number"
				}
				rn := int64(len(r.Segs))
				for j := 0; j < nIdx; j++ {
					var n int64
					switch j {
					case 0:
						n = rng.Int63n(rn + 1)
					case 1:
						n = rn*(1+rng.Int63n(4)) - 1 + rng.Int63n(3) // around a wrap
					default:
						n = rng.Int63n(2000000)
					}
					pairs.Add(r.Kind, segMS, cfg)
					t := target{a: a, r: r, cfg: cfg, n: n, name: name, model: r.Kind != "audio"}
					if r.Kind == "audio" {
						// audio follows the reference (video) segment with the same index
						t.endT, t.tsRef = ref.LoopE(n), ref.Timescale
						t.segID = cfg.EffSnr() + n
						if cfg.Mode == "tlt" {
							F := (r.Segs[0].End - r.Segs[0].Start) / int64(r.Segs[0].NSamples)
							num := new(big.Int).Mul(big.NewInt(ref.LoopS(n)), big.NewInt(r.Timescale))
							den := new(big.Int).Mul(big.NewInt(ref.Timescale), big.NewInt(F))
							q, m := new(big.Int).DivMod(num, den, new(big.Int))
							if m.Sign() != 0 {
								q.Add(q, big.NewInt(1))
							}
							t.segID = q.Int64() * F
						}
					} else {
						t.endT, t.tsRef = r.LoopE(n), r.Timescale
						t.segID = cfg.EffSnr() + n
						if cfg.Mode == "tlt" {
							t.segID = r.LoopS(n)
						}
					}
					targets = append(targets, t)
				}
			}
		}
	}

	// the top of the 32-bit number range: with a start number just below 2^32 the numbers up to 2^32-1 go
	// through the phases like any other, the next one does not exist
	for ai, a := range assets {
		for ri, r := range a.Reps {
			if ai > 2 && r.Kind != "video" {
				continue
			}
			ref := a.Ref()
			cfg := lib.TLCfg{StartS: []int64{0, 30}[(ai+ri)%2], Snr: 4294967290, Tsbd: []int64{-1, 0, 60}[(ai+ri)%3], Mode: "number"}
			for _, n := range []int64{4, 5} {
				t := target{a: a, r: r, cfg: cfg, n: n, name: fmt.Sprintf("rep_%d_%d", ai, ri), model: r.Kind != "audio", segID: cfg.EffSnr() + n}
				if r.Kind == "audio" {
					t.endT, t.tsRef = ref.LoopE(n), ref.Timescale
				} else {
					t.endT, t.tsRef = r.LoopE(n), r.Timescale
				}
				targets = append(targets, t)
			}
		}
	}

	// generated subtitle tracks (timesubsstpp_/timesubswvtt_): they follow the reference segments; by $Number$ and,
	// where the reference segment starts on a whole millisecond, by $Time$ (timescale 1000)
	for ai, a := range assets {
		ref := a.Ref()
		if ref == nil || ref.Kind != "video" {
			continue
		}
		N := int64(len(ref.Segs))
		for k, sub := range []struct{ extra, id string }{{"timesubsstpp_en/", "timestpp-en"}, {"timesubswvtt_sv/", "timewvtt-sv"}} {
			pseudo := &lib.TLRep{VodRep: ref.VodRep, Kind: "image", Ext: ".m4s"} // observed by status only
			vr := *ref.VodRep
			vr.ID = sub.id
			pseudo.VodRep = &vr
			for j, cfg := range []lib.TLCfg{
				{StartS: 30, Snr: -1, Tsbd: -1, Mode: "tlt", Extra: sub.extra},
				{StartS: 0, Snr: 7, Tsbd: 60, Mode: "number", Extra: sub.extra},
				{StartS: 1600000000, Snr: -1, Tsbd: 0, Mode: "tlt", Extra: sub.extra},
			} {
				if j > 0 && (ai+k+j)%2 == 1 && !c.Thorough() {
					continue
				}
				ns := []int64{1 + rng.Int63n(3*N), 60 + rng.Int63n(200), N*(2+rng.Int63n(3)) - 1}
				if cfg.Mode == "tlt" && j == 0 {
					// $Time$ in ms is converted back to reference ticks: every small index, powers of two and their
					// neighbours (float and integer conversions differ for particular values only)
					for n := int64(0); n <= 12; n++ {
						ns = append(ns, n)
					}
					for p := int64(16); p <= 4096; p *= 2 {
						ns = append(ns, p, p+3)
					}
				}
				for _, n := range ns {
					t := target{a: a, r: pseudo, cfg: cfg, n: n, kind: "gensub", endT: ref.LoopE(n), tsRef: ref.Timescale, segID: cfg.EffSnr() + n}
					if cfg.Mode == "tlt" {
						ms := ref.LoopS(n) * 1000
						if ms%ref.Timescale != 0 {
							continue // off the millisecond grid: C12 finding c12-off-ms-grid-time-request
						}
						t.segID = ms / ref.Timescale
					}
					targets = append(targets, t)
				}
			}
		}
	}

	// findings stream: the request on which the unchanged code is known to deviate (known_findings.json)
	for _, a := range assets {
		if strings.Contains(a.Path, "14.985_29.97") {
			r := a.Rep("1")
			cfg := lib.TLCfg{StartS: 30, Snr: -1, Tsbd: 3600, AtoMS: 500, Mode: "tlnr"}
			targets = append(targets, target{a: a, r: r, cfg: cfg, n: 0, segID: 0, endT: r.LoopE(0), tsRef: r.Timescale, model: true, name: "rep_4_0"})
		}
	}

	type job struct {
		in    c04in
		t     target
		obs   lib.SegObs
		sweep int
		// HEAD twin
		head       bool
		headStatus int
	}
	var jobs []*job
	for si, t := range targets {
		var nows []int64
		wantOf := func(now int64) int { return 1 }
		edgeOf := func(now int64) string { return "" }
		if t.cfg.AtoMS < 0 {
			// infinite offset: available from stream start
			s0 := t.cfg.StartS * 1000
			nows = []int64{s0, s0 + 1, s0 + 1000, s0 + 1 + rng.Int63n(100000000)}
			if s0 > 0 {
				nows = append([]int64{s0 - 1, s0 - 1000}, nows...)
			}
			wantOf = func(now int64) int {
				if now < s0 {
					return 0
				}
				return 1
			}
		} else {
			A := availRat(t.endT, t.tsRef, t.cfg)
			first := ceilRat(A)
			if first < t.cfg.StartS*1000 {
				first = t.cfg.StartS * 1000
			}
			goneAfter := floorRat(new(big.Rat).Add(A, new(big.Rat).SetInt64((t.cfg.EffTsbd()+10)*1000))) // last available ms
			for d := int64(-2); d <= 2; d++ {
				nows = append(nows, first+d, goneAfter+d)
			}
			nows = append(nows, first+1+rng.Int63n(goneAfter-first+1), first-1-rng.Int63n(1000000), goneAfter+1+rng.Int63n(100000000), goneAfter+(t.cfg.EffTsbd()+10)*1000)
			if t.cfg.StartS > 0 {
				nows = append(nows, t.cfg.StartS*1000-1)
			}
			onGrid := A.IsInt()
			wantOf = func(now int64) int {
				switch {
				case now < first:
					return 0
				case now > goneAfter+1:
					return 2
				case now > goneAfter:
					if onGrid {
						return 2
					}
					return 3
				case now >= goneAfter-1 && !onGrid:
					return 3
				}
				return 1
			}
			edgeOf = func(now int64) string {
				switch {
				case onGrid:
					return ""
				case now >= first-2 && now <= first+2:
					return "first-offgrid"
				case now >= goneAfter-2 && now <= goneAfter+2:
					return "gone-offgrid"
				}
				return ""
			}
		}
		if t.cfg.StartS == 0 {
			nows = append(nows, 0, 1) // the very first instants of a stream that starts at the epoch
		}
		sort.Slice(nows, func(i, j int) bool { return nows[i] < nows[j] })
		for ni, now := range nows {
			if now < 0 {
				continue
			}
			kind := t.r.Kind
			if t.kind != "" {
				kind = t.kind
			}
			in := c04in{Asset: t.a.Path, Rep: t.r.ID, Kind: kind, Cfg: t.cfg, N: t.n, SegID: t.segID, NowMS: now, Want: wantOf(now), Edge: edgeOf(now)}
			in.URL = lib.SegURL(t.a, t.cfg, t.r, t.segID, now)
			jobs = append(jobs, &job{in: in, t: t, sweep: si})
			// the same instant written as a date (the handler adds 1 ms to a nowDate): same answer
			if (ni+si)%3 == 0 && now >= 1 {
				in2 := in
				in2.Form = "nowDate"
				d := time.UnixMilli(now - 1).UTC().Format("2006-01-02T15:04:05.000Z")
				in2.URL = strings.Replace(in.URL, fmt.Sprintf("?nowMS=%d", now), "?nowDate="+d, 1)
				jobs = append(jobs, &job{in: in2, t: t, sweep: -2 - si})
			}
		}
	}
	// 404 cases: numbers below startNumber, unknown representation, unknown asset
	for _, a := range assets {
		ref := a.Ref()
		cfg := lib.TLCfg{Snr: 7, Tsbd: -1, Mode: "number"}
		for _, id := range []int64{0, 3, 6} {
			in := c04in{Asset: a.Path, Rep: ref.ID, Kind: "video", Cfg: cfg, N: -1, SegID: id, NowMS: 100000, Want: 4}
			in.URL = lib.SegURL(a, cfg, ref, id, 100000)
			jobs = append(jobs, &job{in: in, t: target{a: a, r: ref, cfg: cfg, segID: id, model: true, name: "rep_none"}, sweep: -1})
		}
		cfgTop := lib.TLCfg{Snr: 4294967290, Tsbd: -1, Mode: "number"}
		for _, id := range []int64{4294967296, 4294967297, 8589934591} {
			in := c04in{Asset: a.Path, Rep: ref.ID, Kind: "video", Cfg: cfgTop, N: -1, SegID: id, NowMS: 20000, Want: 4}
			in.URL = lib.SegURL(a, cfgTop, ref, id, 20000)
			jobs = append(jobs, &job{in: in, t: target{a: a, r: ref, cfg: cfgTop, segID: id, model: true, name: "rep_none"}, sweep: -1})
		}
		if au := a.Rep("A48"); au != nil {
			in := c04in{Asset: a.Path, Rep: au.ID, Kind: "audio", Cfg: cfg, N: -1, SegID: 3, NowMS: 100000, Want: 4}
			in.URL = lib.SegURL(a, cfg, au, 3, 100000)
			jobs = append(jobs, &job{in: in, t: target{a: a, r: au, cfg: cfg, segID: 3}, sweep: -1})
		}
		in := c04in{Asset: a.Path, Rep: "nosuchrep", Kind: "unknown-rep", Cfg: lib.TLCfg{Snr: -1, Tsbd: -1, Mode: "number"}, N: -1, SegID: 5, NowMS: 100000, Want: 4}
		in.URL = fmt.Sprintf("/livesim2/%s/nosuchrep/5.m4s?nowMS=100000", a.Path)
		jobs = append(jobs, &job{in: in, t: target{a: a, r: ref}, sweep: -1})
		// generated subtitle tracks exist only for the configured kinds and languages
		if ref.Kind == "video" {
			for _, u := range []struct{ opt, rep string }{
				{"timesubsstpp_en/", "timestpp-sv"}, {"timesubsstpp_en,sv/", "timestpp-fi"}, {"timesubsstpp_en/", "timewvtt-en"},
				{"timesubswvtt_sv/", "timewvtt-en"}, {"timesubswvtt_sv/", "timestpp-sv"}, {"", "timestpp-en"}, {"", "timewvtt-en"},
			} {
				inS := c04in{Asset: a.Path, Rep: u.rep, Kind: "unknown-rep", Cfg: lib.TLCfg{Snr: -1, Tsbd: -1, Mode: "number", Extra: u.opt}, N: -1, SegID: 5, NowMS: 100000, Want: 4}
				inS.URL = fmt.Sprintf("/livesim2/%s%s/%s/5.m4s?nowMS=100000", u.opt, a.Path, u.rep)
				jobs = append(jobs, &job{in: inS, t: target{a: a, r: ref}, sweep: -1})
			}
		}
		in2 := c04in{Asset: a.Path + "_nosuch", Rep: ref.ID, Kind: "unknown-asset", Cfg: lib.TLCfg{Snr: -1, Tsbd: -1, Mode: "number"}, N: -1, SegID: 5, NowMS: 100000, Want: 4}
		in2.URL = fmt.Sprintf("/livesim2/%s_nosuch/%s/5.m4s?nowMS=100000", a.Path, ref.ID)
		jobs = append(jobs, &job{in: in2, t: target{a: a, r: ref}, sweep: -1})
	}

	// run: requests that a finite availabilityTimeOffset turns into paced chunked responses take
	// real time (up to ato), so all requests run on a pool
	// the same URL asked with HEAD goes through the same phases (every generated-subtitle request, a third of the others)
	for k, j := range jobs {
		j.head = j.t.kind == "gensub" || j.in.Kind == "unknown-rep" || k%3 == 0
		j.in.Head = j.head
	}
	var wg sync.WaitGroup
	sem := make(chan struct{}, 64)
	for _, j := range jobs {
		wg.Add(1)
		sem <- struct{}{}
		go func(j *job) {
			defer wg.Done()
			defer func() { <-sem }()
			j.obs = lib.ObserveSeg(ls.GetRaw(j.in.URL), j.t.r)
			if j.head {
				j.headStatus = ls.DoRaw("HEAD", j.in.URL).Status
			}
		}(j)
	}
	wg.Wait()

	var terms []string
	distinct := map[string]bool{}
	lastPhase := map[int]int{}
	for id, j := range jobs {
		in, o := j.in, j.obs
		cid := fmt.Sprint(id)
		c.Res.Inputs[cid] = in
		c.Count(fmt.Sprintf("%s/%s/want%d", in.Kind, in.Cfg.Mode, in.Want))
		ph := phaseOf(o.Status)
		if !phaseOK(in.Want, ph) {
			key := fmt.Sprintf("phase:%s:%s:want%d:got%d", in.Kind, in.Cfg.Mode, in.Want, o.Status)
			if o.Status == 0 {
				key = "panic:" + o.Panic
			}
			c.Fail(cid, key, fmt.Sprintf("%s answered %d %s at nowMS=%d, expected phase %d (0=425 1=200 2=410 4=404)", in.URL, o.Status, o.Panic, in.NowMS, in.Want), in)
		} else {
			distinct[fmt.Sprintf("%s|%d", in.URL[:strings.Index(in.URL, "?")], in.Want)] = true
		}
		if j.head && o.Status != 0 && j.headStatus != o.Status {
			c.Count("head-twins-differ")
			c.Fail(cid, "head-differs:"+in.Kind, fmt.Sprintf("%s at nowMS=%d: GET answered %d, HEAD answered %d", in.URL, in.NowMS, o.Status, j.headStatus), in)
		} else if j.head {
			c.Count("head-twins-agree")
		}
		if j.sweep >= 0 && ph >= 0 {
			if lp, ok := lastPhase[j.sweep]; ok && ph < lp && ph != 4 && lp != 4 {
				c.Fail(cid, "not-monotone:"+in.Kind, fmt.Sprintf("%s: phase %d after phase %d at a later instant", in.URL, ph, lp), in)
			}
			lastPhase[j.sweep] = ph
		}
		if o.Status == 425 && in.Want == 0 && in.NowMS >= in.Cfg.StartS*1000 && in.Cfg.AtoMS >= 0 {
			A := availRat(j.t.endT, j.t.tsRef, in.Cfg)
			rem := roundRat(new(big.Rat).Sub(A, new(big.Rat).SetInt64(in.NowMS)))
			if o.EarlyMS != rem && o.EarlyMS != rem-1 && o.EarlyMS != rem+1 {
				c.Fail(cid, "remaining-ms:"+in.Kind, fmt.Sprintf("%s: body says %d ms too early, the segment becomes available in %d ms", in.URL, o.EarlyMS, rem), in)
			} else if o.EarlyMS != rem {
				// one off only tolerated off the millisecond grid (rounding of a value x.5 in float64)
				if A.IsInt() {
					c.Fail(cid, "remaining-ms:"+in.Kind, fmt.Sprintf("%s: body says %d ms too early, exact value %d ms", in.URL, o.EarlyMS, rem), in)
				}
			}
		}
		if j.t.model {
			am := "ByNumber"
			if in.Cfg.Mode == "tlt" {
				am = "ByTime"
			}
			// only status and the too-early value are compared here (C01 compares the segment itself)
			terms = append(terms, fmt.Sprintf("{| c_id := %d; k_img := true; k_edge := %s; k_rep := %s; k_loopMS := %d; k_cfg := %s; k_mode := %s; k_segID := %d; k_now := %d; o_status := %d; o_ms := %s; o_tfdt := 0; o_seq := 0; o_srcStart := %s; o_dur := 0 |}",
				id, lib.Cbool(in.Edge != ""), j.t.name, j.t.a.LoopMS, in.Cfg.CoqCfg(), am, in.SegID, in.NowMS, o.Status, lib.Zs(o.EarlyMS), srcStart(j.t, o)))
		}
	}
	fmt.Fprintf(&defs, "Definition rep_none : rep := %s.\n", lib.CoqRep(assets[0].Ref().VodRep))
	c.Res.Evaluations = len(jobs)
	c.Res.ModelCases = len(terms)
	c.Res.DistinctNontrivial = len(distinct)
	c.Res.Notes = append(c.Res.Notes, pairs.Summary())
	c.Res.Rule = "for each bundled asset x representation (video, text, image; audio by the oracle only) x sampled configuration (start in {0,30,1.6e9}, tsbd in {default,0,1,60,3600,172800}, startNumber in {unset,0,1,7}, availabilityTimeOffset in {0, 1/4 segment, random fraction, segment+0.5s, inf}, Number / Timeline-Number / Timeline-Time) x segment index (first loop, around a wrap, far): the instants A-2..A+2 ms, (A+tsbd+10s)-2..+2 ms, one random instant in each phase, before stream start; plus 404 requests; distinct = distinct (URL, phase) pairs answered as the property demands"
	for i := 0; i < 3 && i < len(jobs); i++ {
		k := (i*7919 + 13) % len(jobs)
		c.Sample(map[string]any{"request": jobs[k].in.URL, "status": jobs[k].obs.Status, "too_early_ms": jobs[k].obs.EarlyMS, "expected_phase": jobs[k].in.Want})
	}
	shard := 400
	for s := 0; s*shard < len(terms); s++ {
		e := (s + 1) * shard
		if e > len(terms) {
			e = len(terms)
		}
		c.WriteCases(fmt.Sprintf("cases_C04_%d.v", s),
			lib.CasesFile("From Verif Require Import GoSem Timeline CorrTimeline.", "tlcase", defs.String(), terms[s*shard:e], "model_view"))
	}
	return nil
}

// the k_img comparison of CorrTimeline checks the source segment start of a 200 response
func srcStart(t target, o lib.SegObs) string {
	if o.Status != 200 || t.r == nil || len(t.r.Segs) == 0 || t.n < 0 {
		return "0"
	}
	return lib.Zs(t.r.Segs[t.n%int64(len(t.r.Segs))].Start)
}
