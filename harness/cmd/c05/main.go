// C05: the MPD only moves forward, and publishTime identifies its content.
package main

import (
	"fmt"
	"math"
	"math/big"
	"math/rand"
	"regexp"
	"sort"
	"strconv"
	"strings"
	"sync"

	"verifharness/lib"
)

func main() { lib.Main("C05", run) }

type c05in struct {
	Asset   string    `json:"asset"`
	Cfg     lib.TLCfg `json:"cfg"`
	NowMS   int64     `json:"now_ms"`
	PrevMS  int64     `json:"prev_ms,omitempty"` // the other instant of a relational check
	MPDURL  string    `json:"mpd_url"`
	PrevURL string    `json:"prev_url,omitempty"`
	Check   string    `json:"check"`
	// WindowOnly: the two MPDs differ only at the old end of the timeline (a segment left the
	// time-shift window) and have the same live edge
	WindowOnly bool `json:"window_only,omitempty"`
	OffGrid    bool `json:"off_grid,omitempty"`    // the asset's segment ends are not whole milliseconds
	AcrossStop bool `json:"across_stop,omitempty"` // one instant before, the other after the stop time
	// AtoPeriodGap: multi-period MPD with availabilityTimeOffset > 0 and an instant in [B-ato, B] for
	// a period boundary B: the segments of the next Period that are already available are listed
	// only once that Period exists (at B)
	AtoPeriodGap bool `json:"ato_period_gap,omitempty"`
}

func availRat(e, ts int64, c lib.TLCfg) *big.Rat {
	a := new(big.Rat).SetFrac(new(big.Int).Mul(big.NewInt(e), big.NewInt(1000)), big.NewInt(ts))
	a.Add(a, new(big.Rat).SetInt64(c.StartS*1000))
	if c.AtoMS > 0 {
		a.Sub(a, new(big.Rat).SetInt64(c.AtoMS))
	}
	return a
}

func ceilRat(r *big.Rat) int64 {
	q, m := new(big.Int).DivMod(r.Num(), r.Denom(), new(big.Int))
	if m.Sign() != 0 {
		q.Add(q, big.NewInt(1))
	}
	return q.Int64()
}

var publishRe = regexp.MustCompile(` publishTime="[^"]*"`)

type obs struct {
	now     int64
	url     string
	mo      *lib.MPDObs
	content string // body without the publishTime attribute
	firstT  int64
	lastT   int64
	nListed int
	firstP  string // id of the oldest and of the newest Period
	lastP   string
	oldEnd  string // per timeline adaptation set: first listed time and number of entries
	newEnd  string // per timeline adaptation set: last listed time
}

type sweep struct {
	ls   *lib.Livesim // the instance that serves a
	a    *lib.TLAsset
	cfg  lib.TLCfg
	nows []int64
	// breakpoints: instant at which segment index n becomes available
	avail map[int64]int64
	stopS int64 // 0: none
	obs   []*obs
}

func (s *sweep) in(o *obs, check string) c05in {
	return c05in{Asset: s.a.Path, Cfg: s.cfg, NowMS: o.now, MPDURL: o.url, Check: check}
}

func run(c *lib.Ctx) error {
	assets, err := lib.LoadBundledAssets(lib.TestVodRoot)
	if err != nil {
		return err
	}
	ls, err := lib.NewLivesim(lib.TestVodRoot, nil)
	if err != nil {
		return err
	}
	// generated layouts (varying segment durations; one whose first segment has exactly the mean duration)
	var layouts []lib.GenAsset
	for _, l := range lib.GenCatalogue() {
		switch l.Asset.Name {
		case "g_avgfirst_tl", "g_irr7_12800", "g_alt48_tl", "g_60000_frag_tl", "g_mixed_n", "g_mixed_n2", "g_10mhz_tl":
			layouts = append(layouts, l.Asset)
		}
	}
	gAssets, gls, cleanup, err := lib.GenSetup("c05", layouts)
	if err != nil {
		return err
	}
	defer cleanup()
	lsOf := map[*lib.TLAsset]*lib.Livesim{}
	for _, a := range assets {
		lsOf[a] = ls
	}
	for _, a := range gAssets {
		lsOf[a] = gls
	}
	assets = append(assets, gAssets...)
	// the other MPDs of a bundled asset (thumbnail and subtitle adaptation sets behind the video one)
	for _, a := range append([]*lib.TLAsset{}, assets...) {
		if a.Path == "testpic_2s" && a.MPD == "Manifest.mpd" {
			for _, name := range []string{"Manifest_thumbs.mpd", "Manifest_imsc1.mpd"} {
				v := *a
				v.MPD = name
				lsOf[&v] = lsOf[a]
				assets = append(assets, &v)
			}
		}
	}
	if c.Replay != "" {
		in, err := lib.LoadReplayInput[c05in](c.Replay)
		if err != nil {
			return err
		}
		for _, a := range assets {
			if a.Path != in.Asset || (in.MPDURL != "" && !strings.Contains(in.MPDURL, "/"+a.MPD+"?")) {
				continue
			}
			s := &sweep{ls: lsOf[a], a: a, cfg: in.Cfg, nows: []int64{in.NowMS}, avail: map[int64]int64{}}
			if in.PrevMS > 0 || in.PrevURL != "" {
				s.nows = []int64{in.PrevMS, in.NowMS}
			}
			if m := regexp.MustCompile(`stop_(\d+)/`).FindStringSubmatch(in.Cfg.Extra); m != nil {
				fmt.Sscan(m[1], &s.stopS)
			}
			fetchSweep(s.ls, s)
			evalSweep(c, s, 0, nil, nil)
			for _, f := range c.Res.OracleFailures {
				fmt.Printf("replay: %s: %s\n", f.Key, f.What)
			}
		}
		return nil
	}
	rng := rand.New(rand.NewSource(c.Seed))
	modes := []string{"tlt", "tlnr", "number", "tlt"}
	starts := []int64{0, 0, 30, 1600000000}
	tsbds := []int64{-1, -1, 0, 1, 10, 60, 61}
	nCfg, span := 8, int64(3)
	if c.Thorough() {
		nCfg, span = 30, 8
	}
	var sweeps []*sweep
	pairs := lib.NewPairCover()
	for ai, a := range assets {
		ref := a.Ref()
		N := int64(len(ref.Segs))
		segMS := a.LoopMS / N
		for k := 0; k < nCfg; k++ {
			var cands []lib.TLCfg
			for q := 0; q < 6; q++ {
				cand := lib.TLCfg{StartS: starts[rng.Intn(len(starts))], Snr: []int64{-1, -1, 0, 3}[rng.Intn(4)], Tsbd: tsbds[rng.Intn(len(tsbds))], Mode: modes[rng.Intn(len(modes))]}
				switch rng.Intn(7) {
				case 0:
					cand.AtoMS = segMS / 4
				case 1:
					cand.AtoMS = 1 + rng.Int63n(segMS-1)
				case 2:
					cand.AtoMS = segMS + segMS/2 // longer than a segment
				case 3:
					cand.AtoMS = a.LoopMS*(1+rng.Int63n(2)) + segMS + segMS/2 // reaches more than a whole loop ahead
				}
				cands = append(cands, cand)
			}
			cfg := pairs.Pick("mpd", segMS, cands) // the candidate covering the most new pairs of option values
			if k < 3 {
				cfg = lib.TLCfg{Snr: -1, Tsbd: -1, Mode: modes[k]}
			}
			if k == 4 {
				// an offset whose float64 form times 1000 lies just below a whole millisecond (1.001, 1.005, ...)
				if tr := lib.TruncatingAtoMS(segMS); len(tr) > 0 {
					cfg = lib.TLCfg{Snr: -1, Tsbd: -1, Mode: modes[rng.Intn(2)], AtoMS: tr[rng.Intn(len(tr))]}
				}
			}
			if k == 3 {
				// an offset that reaches more than a whole loop ahead
				cfg = lib.TLCfg{Snr: -1, Tsbd: -1, Mode: modes[rng.Intn(2)], AtoMS: a.LoopMS*(1+rng.Int63n(2)) + segMS + segMS/2}
			}
			if k == 6 {
				// UTCTiming variants: nothing in the MPD may follow the request instant except through publishTime
				cfg = lib.TLCfg{StartS: []int64{0, 30}[rng.Intn(2)], Snr: -1, Tsbd: -1, Mode: modes[rng.Intn(3)], Extra: []string{"utc_direct/", "utc_direct-head/", "utc_httpiso-direct/"}[rng.Intn(3)]}
			}
			if k == 7 {
				// a shifted clock (timeoffset_) with a start time: the instants around the stream start are reached
				// on the shifted clock
				cfg = lib.TLCfg{StartS: []int64{30, 1600000000}[rng.Intn(2)], Snr: -1, Tsbd: []int64{-1, 10}[rng.Intn(2)], Mode: modes[rng.Intn(3)], Extra: []string{"timeoffset_-3/", "timeoffset_-45/", "timeoffset_7.5/"}[rng.Intn(3)]}
			}
			if k == 5 && 120000%segMS == 0 && a.LoopMS%N == 0 {
				// periods with an offset below a segment: a new, still empty Period appears at its start while
				// the newest segment became available a little earlier
				// ... or, with an offset beyond a segment, the new Period is created with its first segment before
				// its start (and nothing changes at the start); offsets between the segment durations of two
				// adaptation sets make them enter the new Period at different instants
				atos := []int64{segMS / 4, segMS * 3 / 4, segMS + segMS/2, 2*segMS + segMS/4}
				ato := atos[ai%len(atos)]
				for _, r := range a.Reps {
					if M := int64(len(r.Segs)); r != ref && r.Kind != "audio" && M > N {
						ato = a.LoopMS/M + (segMS-a.LoopMS/M)/2 // between the segment durations of two adaptation sets
					}
				}
				cfg = lib.TLCfg{StartS: []int64{0, 30}[rng.Intn(2)], Snr: -1, Tsbd: []int64{-1, 10, 20}[rng.Intn(3)], Mode: modes[[]int{0, 1, 2, 0, 1}[ai%5]], AtoMS: ato, Extra: []string{"periods_30/", "periods_60/"}[rng.Intn(2)]}
				if 60000%segMS != 0 {
					cfg.Extra = "periods_30/"
				}
			}
			s := &sweep{ls: lsOf[a], a: a, cfg: cfg, avail: map[int64]int64{}}
			if k > 3 && k < 5 && rng.Intn(4) == 0 {
				// a stop time a few segments after the swept range begins
				s.stopS = cfg.StartS + 3*a.LoopMS/1000 + rng.Int63n(20)
				s.cfg.Extra = fmt.Sprintf("stop_%d/", s.stopS)
			}
			if k > 3 && k < 5 && s.stopS == 0 && rng.Intn(3) == 0 && 120000%segMS == 0 && a.LoopMS%N == 0 {
				s.cfg.Extra = "periods_30/" // 120 s periods: a multiple of the segment duration
			}
			// stream start, around the first wraps, weeks in, and the years 2030 / 2040 (64-bit products)
			base := []int64{0, N - 2, 2*N - 2, 40 + rng.Int63n(3*N), 2000000 + rng.Int63n(1000), (1900000000000-cfg.StartS*1000)/segMS + rng.Int63n(1000), (2200000000000-cfg.StartS*1000)/segMS + rng.Int63n(1000)}[(k+rng.Intn(7))%7]
			if base < 0 {
				base = 0
			}
			set := map[int64]bool{}
			add := func(x int64) {
				if x >= 0 {
					set[x] = true
				}
			}
			s0 := cfg.StartS * 1000
			add(s0)
			add(s0 + 1)
			for n := base; n < base+span*N+2; n++ {
				b := ceilRat(availRat(ref.LoopE(n), ref.Timescale, s.cfg))
				if b < s0 {
					continue
				}
				s.avail[n] = b
				add(b - 1)
				add(b)
				add(b + 1 + rng.Int63n(segMS))
				// the instant at which the segment leaves the time-shift window
				w := b + s.cfg.EffTsbd()*1000
				add(w - 1)
				add(w)
				add(w + 1)
				// the next period boundary (a new Period appears there)
				if pm := periodMS(s.cfg.Extra); pm > 0 {
					B := s0 + (b-s0+pm-1)/pm*pm
					add(B - 1)
					add(B)
					add(B + 1)
				}
			}
			// representations on another segment grid than the reference one become available at instants of their own
			for _, r := range a.Reps {
				M := int64(len(r.Segs))
				if r == ref || M == N || M == 0 || r.Kind == "audio" {
					continue
				}
				for m := base * M / N; m < (base+span*N+2)*M/N; m++ {
					b := ceilRat(availRat(r.LoopE(m), r.Timescale, s.cfg))
					if b >= s0 {
						add(b - 1)
						add(b)
					}
				}
			}
			if s.stopS > 0 {
				add(s.stopS*1000 - 1)
				add(s.stopS * 1000)
				add(s.stopS*1000 + 1)
				add(s.stopS*1000 + 5000 + rng.Int63n(100000))
			}
			for x := range set {
				s.nows = append(s.nows, x)
			}
			sort.Slice(s.nows, func(i, j int) bool { return s.nows[i] < s.nows[j] })
			sweeps = append(sweeps, s)
		}
	}
	var wg sync.WaitGroup
	sem := make(chan struct{}, 16)
	for _, s := range sweeps {
		wg.Add(1)
		sem <- struct{}{}
		go func(s *sweep) {
			defer wg.Done()
			defer func() { <-sem }()
			fetchSweep(s.ls, s)
		}(s)
	}
	wg.Wait()
	var terms, termsP []string
	var defs, defsP strings.Builder
	repName := map[string]string{}
	repNameP := map[string]string{}
	distinct := map[string]bool{}
	n := 0
	for si, s := range sweeps {
		evalSweep(c, s, si, distinct, func(o *obs) {
			// correspondence case: publishTime and live edge of the model
			if s.cfg.Mode == "number" || s.stopS > 0 || o.mo.Status != 200 || !sameGrid(s.a) {
				return
			}
			ref := s.a.Ref()
			if strings.Contains(s.cfg.Extra, "periods") {
				// multi-period sweep: publishTime (closed form and splitPeriod-based) and, per Period, number and
				// first / last listed segment of the reference adaptation set (theories/PublishPeriods.v)
				pph := int64(0)
				for _, e := range strings.Split(s.cfg.Extra, "/") {
					if strings.HasPrefix(e, "periods_") {
						_, _ = fmt.Sscanf(e, "periods_%d", &pph)
					}
				}
				if pph <= 0 || o.mo.MUPms <= 0 {
					return
				}
				name, ok := repNameP[s.a.Path]
				if !ok {
					name = fmt.Sprintf("rep_%d", len(repNameP))
					repNameP[s.a.Path] = name
					fmt.Fprintf(&defsP, "Definition %s : rep := %s.\n", name, lib.CoqRep(ref.VodRep))
				}
				var pvs []string
				for _, p := range o.mo.Periods {
					nr := int64(-999999)
					if strings.HasPrefix(p.ID, "P") {
						if v, err := strconv.ParseInt(p.ID[1:], 10, 64); err == nil {
							nr = v
						}
					}
					f, l, n := int64(-1), int64(-1), 0
					for _, as := range p.AS {
						isRef := false
						for _, id := range as.RepIDs {
							if id == ref.ID {
								isRef = true
							}
						}
						if isRef && len(as.Timeline) > 0 {
							f, l, n = as.Timeline[0].T, as.Timeline[len(as.Timeline)-1].T, len(as.Timeline)
						}
					}
					pvs = append(pvs, fmt.Sprintf("(%s, (%s, %s, %d))", lib.Zs(nr), lib.Zs(f), lib.Zs(l), n))
				}
				id := len(termsP)
				termsP = append(termsP, fmt.Sprintf("{| c_id := %d; k_rep := %s; k_loopMS := %d; k_cfg := %s; k_now := %d; k_tsbdMS := %d; k_atoMS := %d; k_pph := %d; k_segDurMS := %d; o_publishMS := %d; o_periods := [%s] |}",
					id+1000000, name, s.a.LoopMS, s.cfg.CoqCfg(), o.now, o.mo.TSBDms, max64(s.cfg.AtoMS, 0), pph, o.mo.MUPms, o.mo.PublishMS, strings.Join(pvs, "; ")))
				c.Res.Inputs[fmt.Sprint(id+1000000)] = s.in(o, "model-periods")
				return
			}
			name, ok := repName[s.a.Path]
			if !ok {
				name = fmt.Sprintf("rep_%d", len(repName))
				repName[s.a.Path] = name
				fmt.Fprintf(&defs, "Definition %s : rep := %s.\n", name, lib.CoqRep(ref.VodRep))
			}
			id := len(terms)
			terms = append(terms, fmt.Sprintf("{| c_id := %d; k_rep := %s; k_loopMS := %d; k_cfg := %s; k_now := %d; k_tsbdMS := %d; k_atoMS := %d; o_publishMS := %d; o_first_t := %s; o_last_t := %s; o_n := %d |}",
				id, name, s.a.LoopMS, s.cfg.CoqCfg(), o.now, o.mo.TSBDms, max64(s.cfg.AtoMS, 0), o.mo.PublishMS, lib.Zs(o.firstT), lib.Zs(o.lastT), o.nListed))
			c.Res.Inputs[fmt.Sprint(id)] = s.in(o, "model")
		})
		n += len(s.obs)
	}
	c.Res.Evaluations = n
	c.Res.ModelCases = len(terms) + len(termsP)
	c.Res.DistinctNontrivial = len(distinct)
	c.Res.Notes = append(c.Res.Notes, pairs.Summary())
	c.Res.Rule = fmt.Sprintf("%d sweeps (bundled assets x sampled {Timeline-Time, Timeline-Number, Number} x start {0,30,1.6e9} x tsbd {default,0,1,10,60,61} x availabilityTimeOffset {0, 1/4 segment, random} x {no stop, stop time, periods_60}) of ordered instants: for %d+ consecutive segments the millisecond before, at and after the segment becomes available and leaves the time-shift window, stream start, around the stop time; relations checked over every ordered pair of a sweep; distinct = distinct (configuration, MPD content) pairs seen", len(sweeps), span)
	for i := 0; i < 3 && i < len(sweeps); i++ {
		s := sweeps[(i*7+1)%len(sweeps)]
		if len(s.obs) > 2 {
			o := s.obs[len(s.obs)/2]
			c.Sample(map[string]any{"mpd": o.url, "publishTime": o.mo.PublishStr, "first_t": o.firstT, "last_t": o.lastT, "listed": o.nListed, "sweep_instants": len(s.nows)})
		}
	}
	shard := 400
	for sidx := 0; sidx*shard < len(terms); sidx++ {
		e := (sidx + 1) * shard
		if e > len(terms) {
			e = len(terms)
		}
		c.WriteCases(fmt.Sprintf("cases_C05_%d.v", sidx),
			lib.CasesFile("From Verif Require Import GoSem Timeline CorrC05.", "c05case", defs.String(), terms[sidx*shard:e], "model_view"))
	}
	for sidx := 0; sidx*shard < len(termsP); sidx++ {
		e := (sidx + 1) * shard
		if e > len(termsP) {
			e = len(termsP)
		}
		c.WriteCases(fmt.Sprintf("cases_C05P_%d.v", sidx),
			lib.CasesFile("From Verif Require Import GoSem Timeline Periods PublishPeriods CorrC05P.", "c05pcase", defsP.String(), termsP[sidx*shard:e], "model_view"))
	}
	return nil
}

func max64(a, b int64) int64 {
	if a > b {
		return a
	}
	return b
}

func fetchSweep(ls *lib.Livesim, s *sweep) {
	for _, now := range s.nows {
		// with timeoffset_X the server's clock is the request instant plus X: the planned instant is the shifted one
		url := lib.MPDURL(s.a, s.cfg, now-timeOffsetMS(s.cfg.Extra))
		mo := lib.FetchMPD(ls, url)
		o := &obs{now: now, url: url, mo: mo, firstT: -1, lastT: -1}
		if mo.Status == 200 {
			o.content = publishRe.ReplaceAllString(string(mo.Body), "")
			// the video adaptation set of the last period carries the live edge, the first period the old end
			if len(mo.Periods) > 0 {
				o.firstP, o.lastP = mo.Periods[0].ID, mo.Periods[len(mo.Periods)-1].ID
			}
			// old and new end of every adaptation set with a timeline (over all periods)
			{
				type ends struct {
					first, last int64
					n           int
				}
				per := map[string]*ends{}
				var order []string
				for _, p := range mo.Periods {
					for ai, as := range p.AS {
						if !as.HasTimeline || len(as.Timeline) == 0 {
							continue
						}
						key := fmt.Sprintf("%d:%s", ai, as.ContentType)
						e := per[key]
						if e == nil {
							e = &ends{first: as.Timeline[0].T}
							per[key] = e
							order = append(order, key)
						}
						e.n += len(as.Timeline)
						e.last = as.Timeline[len(as.Timeline)-1].T
					}
				}
				for _, k := range order {
					o.oldEnd += fmt.Sprintf("%s=%d/%d;", k, per[k].first, per[k].n)
					o.newEnd += fmt.Sprintf("%s=%d;", k, per[k].last)
				}
			}
			for pi, p := range mo.Periods {
				for _, as := range p.AS {
					if as.ContentType != "video" || !as.HasTimeline {
						continue
					}
					o.nListed += len(as.Timeline)
					if len(as.Timeline) > 0 {
						if o.firstT < 0 {
							o.firstT = as.Timeline[0].T
						}
						if pi == len(mo.Periods)-1 || true {
							lt := as.Timeline[len(as.Timeline)-1]
							o.lastT = lt.T
						}
					}
					break
				}
			}
		}
		s.obs = append(s.obs, o)
	}
}

func evalSweep(c *lib.Ctx, s *sweep, si int, distinct map[string]bool, each func(o *obs)) {
	ref := s.a.Ref()
	s0 := s.cfg.StartS * 1000
	offGrid := false
	for _, sg := range ref.Segs {
		if (sg.End*1000)%ref.Timescale != 0 {
			offGrid = true
		}
	}
	var prev *obs
	byPublish := map[string]*obs{}
	runStart := map[string]int64{} // content -> first instant of the current run of that content
	var runContent string
	var runFrom int64
	runExact := false
	multi := strings.Contains(s.cfg.Extra, "periods")
	// gap: the instant lies in [B-ato, B] for a period boundary B of a multi-period configuration
	gap := func(now int64) bool {
		pm := periodMS(s.cfg.Extra)
		if !multi || s.cfg.AtoMS <= 0 || pm <= 0 {
			return false
		}
		r := (now - s.cfg.StartS*1000 + s.cfg.AtoMS) % pm
		return now >= s.cfg.StartS*1000 && r >= 0 && r <= s.cfg.AtoMS
	}
	for oi, o := range s.obs {
		id := fmt.Sprintf("s%d.%d", si, oi)
		c.Res.Inputs[id] = s.in(o, "mpd")
		c.Count("mpd/" + s.cfg.Mode)
		if o.now < s0 {
			if o.mo.Status != 425 {
				c.Fail(id, fmt.Sprintf("mpd-before-start:%d", o.mo.Status), fmt.Sprintf("%s before availabilityStartTime answered %d", o.url, o.mo.Status), s.in(o, "before-start"))
			}
			continue
		}
		if o.mo.Status != 200 {
			key := fmt.Sprintf("mpd-status:%d", o.mo.Status)
			if o.mo.Status == 0 {
				key = "panic:" + o.mo.Panic
			}
			c.Fail(id, key, fmt.Sprintf("%s answered %d %s %s", o.url, o.mo.Status, o.mo.Panic, o.mo.Err), s.in(o, "status"))
			continue
		}
		if distinct != nil {
			distinct[fmt.Sprintf("%d|%s", si, o.content)] = true
		}
		if each != nil {
			each(o)
		}
		in := s.in(o, "")
		in.OffGrid = offGrid
		afterStop := s.stopS > 0 && o.now > s.stopS*1000
		// static after stop
		if afterStop {
			if o.mo.Type != "static" {
				in.Check = "static"
				c.Fail(id, "not-static-after-stop", fmt.Sprintf("%s after the stop time %d s has type %q", o.url, s.stopS, o.mo.Type), in)
			}
			if o.mo.MPDDurMS != (s.stopS-s.cfg.StartS)*1000 {
				in.Check = "static-duration"
				c.Fail(id, "static-duration", fmt.Sprintf("%s: mediaPresentationDuration %d ms, stop-start = %d s", o.url, o.mo.MPDDurMS, s.stopS-s.cfg.StartS), in)
			}
		} else if o.mo.Type != "dynamic" {
			in.Check = "dynamic"
			c.Fail(id, "not-dynamic", fmt.Sprintf("%s has type %q", o.url, o.mo.Type), in)
		}
		// publishTime never later than the request instant
		if o.mo.PublishMS > o.now {
			in.Check = "publish-le-now"
			c.Fail(id, "publish-after-now", fmt.Sprintf("%s: publishTime %s (%d ms) is later than the request instant", o.url, o.mo.PublishStr, o.mo.PublishMS), in)
		}
		// the live edge is the newest segment that has become available (timeline modes, before stop)
		if s.cfg.Mode != "number" && !afterStop {
			for n, b := range s.avail {
				if (s.stopS > 0 && b > s.stopS*1000) || n == 0 {
					continue
				}
				if o.now == b && o.lastT != ref.LoopS(n) {
					in.Check = "edge-step"
					in.AtoPeriodGap = gap(o.now)
					c.Fail(id, "edge-not-advanced"+gapSfx(in.AtoPeriodGap), fmt.Sprintf("%s: segment index %d (t=%d) becomes available at this instant but the last entry is t=%d", o.url, n, ref.LoopS(n), o.lastT), in)
				}
				if o.now == b-1 && o.lastT != ref.LoopS(n-1) && s.avail[n-1] <= o.now {
					in.Check = "edge-step"
					c.Fail(id, "edge-advanced-early", fmt.Sprintf("%s: one millisecond before segment index %d becomes available the last entry is t=%d, expected t=%d", o.url, n, o.lastT, ref.LoopS(n-1)), in)
				}
			}
		}
		if prev != nil {
			pin := in
			pin.PrevMS, pin.PrevURL = prev.now, prev.url
			// edges never move backwards
			if o.firstT >= 0 && prev.firstT > o.firstT {
				pin.Check = "first-monotone"
				c.Fail(id, "first-entry-backwards", fmt.Sprintf("first entry t=%d at %s, t=%d at the earlier %s", o.firstT, o.url, prev.firstT, prev.url), pin)
			}
			if prev.lastT > o.lastT {
				pin.Check = "last-monotone"
				pin.AtoPeriodGap = gap(o.now)
				c.Fail(id, "last-entry-backwards"+gapSfx(pin.AtoPeriodGap), fmt.Sprintf("last entry t=%d at %s, t=%d at the earlier %s", o.lastT, o.url, prev.lastT, prev.url), pin)
			}
			if prev.mo.PublishMS > o.mo.PublishMS {
				pin.Check = "publish-monotone"
				c.Fail(id, "publish-backwards", fmt.Sprintf("publishTime %s at %s, %s at the earlier %s", o.mo.PublishStr, o.url, prev.mo.PublishStr, prev.url), pin)
			}
		}
		// same publishTime <=> same content
		if q, ok := byPublish[o.mo.PublishStr]; ok {
			if q.content != o.content {
				pin := in
				pin.PrevMS, pin.PrevURL, pin.Check = q.now, q.url, "publish-identifies"
				// only the old end moved: same live edge, another first entry or fewer entries
				pin.WindowOnly = q.newEnd == o.newEnd && q.lastP == o.lastP && (q.oldEnd != o.oldEnd || q.firstP != o.firstP)
				pin.AcrossStop = s.stopS > 0 && q.now <= s.stopS*1000 && o.now > s.stopS*1000
				key := "same-publish-different-mpd"
				switch {
				case pin.AcrossStop:
					key += ":across-stop"
				case pin.WindowOnly:
					key += ":window-start-moved"
				case gap(q.now) || gap(o.now):
					pin.AtoPeriodGap = true
					key += ":ato-period-gap"
				}
				c.Fail(id, key, fmt.Sprintf("%s and %s have the same publishTime %s but differ (first entries t=%d / t=%d, last t=%d / t=%d, %d / %d segments)", q.url, o.url, o.mo.PublishStr, q.firstT, o.firstT, q.lastT, o.lastT, q.nListed, o.nListed), pin)
			}
		} else {
			byPublish[o.mo.PublishStr] = o
		}
		// publishTime equals the instant of the most recent change
		if o.content != runContent {
			runContent = o.content
			runFrom = o.now
			// the change instant is known exactly when the previous instant of the sweep is 1 ms earlier
			runExact = prev != nil && prev.now == o.now-1 && prev.mo.Status == 200
			if _, seen := runStart[o.content]; seen && s.cfg.Mode != "number" {
				pin := in
				pin.Check = "content-returns"
				c.Fail(id, "content-returns", fmt.Sprintf("%s has the content of an earlier instant again", o.url), pin)
			}
			runStart[o.content] = o.now
		}
		if runExact && s.cfg.Mode != "number" && !afterStop && o.mo.PublishMS != runFrom {
			pin := in
			pin.Check = "publish-is-last-change"
			pin.PrevMS = runFrom
			pin.WindowOnly = prev != nil && prev.newEnd == o.newEnd && prev.lastP == o.lastP && (prev.oldEnd != o.oldEnd || prev.firstP != o.firstP) && o.now == runFrom
			key := "publish-not-last-change"
			pin.AtoPeriodGap = gap(o.now) && o.now == runFrom
			switch {
			case pin.WindowOnly:
				key += ":window-start-moved"
			case pin.AtoPeriodGap:
				key += ":ato-period-gap"
			}
			c.Fail(id, key, fmt.Sprintf("%s: the MPD last changed at %d ms, publishTime is %s (%d ms)", o.url, runFrom, o.mo.PublishStr, o.mo.PublishMS), pin)
			runExact = false // report once per run
		}
		// plain $Number$ template, one period: the MPD does not change at all
		if s.cfg.Mode == "number" && !multi && s.stopS == 0 && prev != nil && prev.mo.Status == 200 {
			if string(prev.mo.Body) != string(o.mo.Body) {
				pin := in
				pin.PrevMS, pin.PrevURL, pin.Check = prev.now, prev.url, "number-constant"
				c.Fail(id, "number-mpd-changed", fmt.Sprintf("$Number$ MPD %s differs from %s", o.url, prev.url), pin)
			}
		}
		prev = o
	}
}

// periodMS: the period duration of a periods_N configuration element (N periods per hour), 0 if none.
func periodMS(extra string) int64 {
	for _, e := range strings.Split(extra, "/") {
		if strings.HasPrefix(e, "periods_") {
			var n int64
			if _, err := fmt.Sscanf(e, "periods_%d", &n); err == nil && n > 0 {
				return 3600000 / n
			}
		}
	}
	return 0
}

func gapSfx(b bool) string {
	if b {
		return ":ato-period-gap"
	}
	return ""
}

// sameGrid: every video/text representation of the asset has the reference's segment boundaries (in ms), so
// that publishTime - the latest change of any adaptation set - is the reference's edge availability, which
// is what the model states. Assets with another grid are judged by the relational oracles only.
func sameGrid(a *lib.TLAsset) bool {
	ref := a.Ref()
	if ref == nil {
		return false
	}
	for _, r := range a.Reps {
		if r.Kind == "audio" || r.Kind == "image" {
			continue
		}
		if len(r.Segs) != len(ref.Segs) {
			return false
		}
		for i := range r.Segs {
			if r.Segs[i].End*ref.Timescale != ref.Segs[i].End*r.Timescale {
				return false
			}
		}
	}
	return true
}

// timeOffsetMS: the value of a timeoffset_<seconds> configuration element in ms, 0 if none.
func timeOffsetMS(extra string) int64 {
	for _, e := range strings.Split(extra, "/") {
		if strings.HasPrefix(e, "timeoffset_") {
			var f float64
			if _, err := fmt.Sscanf(e, "timeoffset_%g", &f); err == nil {
				return int64(math.Round(f * 1000))
			}
		}
	}
	return 0
}
