// C06: splitting into periods preserves the timeline and the segment identities.
//
// L1: the same URL configuration is requested with and without periods_N at the same nowMS; both
// MPDs are parsed; the oracle evaluates the property text on the pair (tiling, ids, partition of
// the single-period timeline, numbers, presentationTimeOffset, continuity, rejection) and fetches
// the period-relative segment URLs and the single-period URLs of the same segments (bytes equal).
// The model (theories/Periods.v) is given what the single-period MPD says and must produce the
// periods of the multi-period MPD.
// L2 (hook verif_hooks_c06.go): reduceS on arbitrary <S> lists and splitPeriod on synthetic MPDs.
package main

import (
	"bytes"
	"encoding/json"
	"fmt"
	"math/rand"
	"os"
	"path/filepath"
	"runtime"
	"time"
	"sort"
	"strconv"
	"strings"

	"github.com/Dash-Industry-Forum/livesim2/cmd/livesim2/app"
	m "github.com/Eyevinn/dash-mpd/mpd"

	"verifharness/lib"
)

func main() { lib.Main("C06", run) }

// widenDetected: does the tree under test widen the period range to the first and the last listed segment
// (repair 33ba430 and its bounds)? Decided by a BEHAVIOURAL probe, not by reading the source: the witness of
// C06_early_segment_before_fix is requested from the real LiveMPD - time-shift buffer of 1 s, 6 s segments,
// periods_30, 1 s after the Period start at 120 s. A tree with the repair answers with P0 (holding the segment
// [114 s,120 s)) and P1; a tree without it with P1 only. The model is evaluated with the variant the code shows;
// a tree that lacks the repair is then still reported by the oracle (partition:before-first-period / partition:missing).
var widenDetected bool

func probeWiden(ls *lib.Livesim) (bool, string) {
	const url = "/livesim2/tsbd_1/segtimeline_1/periods_30/testpic_6s/Manifest.mpd?nowMS=121000"
	r := ls.GetRaw(url)
	if r.Panic != "" || r.Status != 200 {
		return false, fmt.Sprintf("probe %s answered %d %s: model evaluated without the widening", url, r.Status, r.Panic)
	}
	mm, err := m.MPDFromBytes(r.Body)
	if err != nil || len(mm.Periods) == 0 {
		return false, "probe " + url + " not parsable: model evaluated without the widening"
	}
	listed := func(p *m.Period) int {
		n := 0
		for _, as := range p.AdaptationSets {
			if as.SegmentTemplate != nil && as.SegmentTemplate.SegmentTimeline != nil {
				n += len(as.SegmentTemplate.SegmentTimeline.S)
			}
		}
		return n
	}
	if len(mm.Periods) >= 2 && mm.Periods[0].Id == "P0" && listed(mm.Periods[0]) > 0 {
		return true, "probe " + url + ": P0 lists the segment that starts before the window - the period range is widened to the listed segments (model variant widen = Some (ato, loop))"
	}
	return false, fmt.Sprintf("probe %s: %d period(s), first %s with %d <S> - the period range is [period of the window start, period of now] (model variant widen = None)", url, len(mm.Periods), mm.Periods[0].Id, listed(mm.Periods[0]))
}

const contScheme = "urn:mpeg:dash:period-continuity:2015"

type sIn struct {
	T *uint64 `json:"t,omitempty"`
	D uint64  `json:"d"`
	R int     `json:"r"`
}

type reduceIn struct {
	S       []sIn   `json:"s"`
	StartNr *uint32 `json:"start_nr,omitempty"`
	TS      int     `json:"timescale"`
	PS      uint64  `json:"period_start_s"`
	PE      uint64  `json:"period_end_s"`
}

type asSpec struct {
	ContentType string  `json:"content_type"`
	TS          *uint32 `json:"timescale,omitempty"`
	Dur         *uint32 `json:"duration,omitempty"`
	StartNr     *uint32 `json:"start_number,omitempty"`
	HasTL       bool    `json:"has_timeline"`
	S           []sIn   `json:"s,omitempty"`
}

type splitIn struct {
	PPH         *int     `json:"pph"`
	SegDurMS    int      `json:"seg_dur_ms"`
	Mode        string   `json:"mode"`
	Cont        bool     `json:"cont"`
	StartTimeS  int      `json:"start_time_s"`
	StartNr     *int     `json:"start_nr,omitempty"`
	StartTimeMS int      `json:"start_time_ms"`
	NowMS       int      `json:"now_ms"`
	AS          []asSpec `json:"as"`
}

type c06in struct {
	Kind      string    `json:"kind"` // live | reduce | split
	Asset     string    `json:"asset,omitempty"`
	MPD       string    `json:"mpd,omitempty"`
	Mode      string    `json:"mode,omitempty"`
	PPH       int64     `json:"pph,omitempty"`
	Tsbd      int64     `json:"tsbd,omitempty"` // -1: default
	Cont      bool      `json:"cont,omitempty"`
	Extra     string    `json:"extra,omitempty"` // further URL parts in front
	StartS    int64     `json:"start_s"`
	Snr       int64     `json:"snr"` // -1: not in the URL (default start number 0)
	AtoMS     int64     `json:"ato_ms,omitempty"`
	AtoGeSeg  bool      `json:"ato_ge_segment,omitempty"` // availabilityTimeOffset >= shortest segment duration
	TsbdLtSeg bool      `json:"tsbd_lt_segment,omitempty"` // time-shift buffer shorter than the longest segment
	StopS     int64     `json:"stop_s,omitempty"`          // stop time (absolute, s); 0: none
	StopRel   bool      `json:"stop_rel,omitempty"`        // written as stoprel_<StopS - now/1000>
	NowMS     int64     `json:"now_ms,omitempty"`
	URLSingle string    `json:"url_single,omitempty"`
	URLMulti  string    `json:"url_multi,omitempty"`
	Instant   string    `json:"instant,omitempty"`
	Reduce    *reduceIn `json:"reduce,omitempty"`
	Split     *splitIn  `json:"split,omitempty"`
}

// ---------------------------------------------------------------- Coq printers

func optZ(p *uint32) string {
	if p == nil {
		return "None"
	}
	return fmt.Sprintf("(Some %d)", *p)
}

func coqS(l []*m.S) string {
	var sb strings.Builder
	sb.WriteString("[")
	for i, s := range l {
		if i > 0 {
			sb.WriteString(";")
		}
		if s.T != nil {
			fmt.Fprintf(&sb, "s3 %d %d %s", *s.T, s.D, lib.Zs(int64(s.R)))
		} else {
			fmt.Fprintf(&sb, "s2 %d %s", s.D, lib.Zs(int64(s.R)))
		}
	}
	sb.WriteString("]")
	return sb.String()
}

func coqTL(st *m.SegmentTemplateType) string {
	if st.SegmentTimeline == nil {
		return "None"
	}
	return "(Some " + coqS(st.SegmentTimeline.S) + ")"
}

func coqAsIn(as *m.AdaptationSetType) string {
	st := as.SegmentTemplate
	return fmt.Sprintf("mkA %s %s %s %s %s", lib.Cbool(as.ContentType == "image"), optZ(st.Timescale), optZ(st.Duration), optZ(st.StartNumber), coqTL(st))
}

func hasCont(as *m.AdaptationSetType) int {
	n := 0
	for _, sp := range as.SupplementalProperties {
		if string(sp.SchemeIdUri) == contScheme && sp.Value == "1" {
			n++
		}
	}
	return n
}

func coqPeriods(ps []*m.Period) string {
	var items []string
	for _, p := range ps {
		nr := int64(-999999)
		if strings.HasPrefix(p.Id, "P") {
			if v, err := strconv.ParseInt(p.Id[1:], 10, 64); err == nil {
				nr = v
			}
		}
		start := int64(-999999)
		if p.Start != nil && int64(*p.Start)%1_000_000_000 == 0 {
			start = int64(*p.Start) / 1_000_000_000
		}
		var ases []string
		for _, as := range p.AdaptationSets {
			st := as.SegmentTemplate
			pto := "(-1)"
			if st.PresentationTimeOffset != nil {
				pto = strconv.FormatUint(*st.PresentationTimeOffset, 10)
			}
			ases = append(ases, fmt.Sprintf("mkO %s %s %s %s", pto, optZ(st.StartNumber), coqTL(st), lib.Cbool(hasCont(as) > 0)))
		}
		items = append(items, fmt.Sprintf("mkP %s %s [%s]", lib.Zs(nr), lib.Zs(start), strings.Join(ases, "; ")))
	}
	return "[" + strings.Join(items, ";\n   ") + "]"
}

func coqMode(mode string) string {
	switch mode {
	case "tlt":
		return "MTimelineTime"
	case "tlnr":
		return "MTimelineNr"
	}
	return "MNumber"
}

// ---------------------------------------------------------------- L1

type mpdSpec struct {
	asset *lib.TLAsset
	mpd   string
}

func prefix(in c06in, multi bool) string {
	cfg := lib.TLCfg{StartS: in.StartS, Snr: in.Snr, Tsbd: in.Tsbd, Mode: in.Mode, AtoMS: in.AtoMS}
	p := in.Extra + cfg.URLPrefix()
	if in.StopS > 0 {
		if in.StopRel {
			p = fmt.Sprintf("stoprel_%d/", in.StopS-in.NowMS/1000) + p
		} else {
			p = fmt.Sprintf("stop_%d/", in.StopS) + p
		}
	}
	if multi {
		p = fmt.Sprintf("periods_%d/", in.PPH) + p
		if in.Cont {
			p = "continuous_1/" + p
		}
	}
	return p
}

func mpdURL(in c06in, multi bool) string {
	return fmt.Sprintf("/livesim2/%s%s/%s?nowMS=%d", prefix(in, multi), in.Asset, in.MPD, in.NowMS)
}

func segURL(in c06in, multi bool, media, repID string, nr int64, t uint64) string {
	u := strings.ReplaceAll(media, "$RepresentationID$", repID)
	u = strings.ReplaceAll(u, "$Number$", strconv.FormatInt(nr, 10))
	u = strings.ReplaceAll(u, "$Time$", strconv.FormatUint(t, 10))
	return fmt.Sprintf("/livesim2/%s%s/%s?nowMS=%d", prefix(in, multi), in.Asset, u, in.NowMS)
}

// endMS: the instant the MPD is generated for - the stop time once it has passed.
// coqWiden: the first-and-last-segment widening of the period range as the model takes it:
// None = the tree does not widen, (Some (atoMS, loopMS)) = it does, with round(1000*ato) of a finite positive
// offset and asset.LoopDurMS (the bounds of the widening).
func coqWiden(atoMS, loopMS int64) string {
	if !widenDetected {
		return "None"
	}
	if atoMS < 0 {
		atoMS = 0
	}
	return fmt.Sprintf("(Some (%d, %d))", atoMS, loopMS)
}

func endMS(in c06in) int64 {
	if in.StopS > 0 && in.StopS*1000 < in.NowMS {
		return in.StopS * 1000
	}
	return in.NowMS
}

// numGuardDetected: does the $Number$ branch of splitPeriod refuse a period that is no whole number of segments
// of the adaptation set at hand (repair 277eaa2)? Decided by a BEHAVIOURAL probe: splitPeriod (hook) on the
// witness of the finding - an adaptation set with its own segment duration (3 s at timescale 1000) next to an
// asset-wide segment duration of 1 s, periods_900 (4 s). A tree with the repair returns the typed error "not a
// multiple of segment duration", a tree without it splits the period.
var numGuardDetected bool

func probeNumGuard() (bool, string) {
	ts, dur, snr := uint32(1000), uint32(3000), uint32(0)
	pph := 900
	si := splitIn{PPH: &pph, SegDurMS: 1000, Mode: "number", StartTimeMS: 14000, NowMS: 24001,
		AS: []asSpec{{ContentType: "text", TS: &ts, Dur: &dur, StartNr: &snr}}}
	st, _ := runSplit(si)
	switch st {
	case 400:
		return true, "probe splitPeriod(periods_900, template 3000/1000 s, asset segment 1 s): refused with the typed error - guard per adaptation set (model variant ng = true)"
	case 200:
		return false, "probe splitPeriod(periods_900, template 3000/1000 s, asset segment 1 s): accepted - only the asset-wide guard (model variant ng = false)"
	}
	return false, fmt.Sprintf("probe splitPeriod(periods_900, template 3000/1000 s) ended with status %d: model evaluated without the guard per adaptation set", st)
}

type xseg struct {
	T, D uint64
	Nr   int64
}

// expandTL: the (t, d, number) triples a client derives from a SegmentTimeline.
func expandTL(st *m.SegmentTemplateType) []xseg {
	var out []xseg
	t := uint64(0)
	nr := int64(1)
	if st.StartNumber != nil {
		nr = int64(*st.StartNumber)
	}
	for _, s := range st.SegmentTimeline.S {
		if s.T != nil {
			t = *s.T
		}
		for i := 0; i <= s.R; i++ {
			out = append(out, xseg{t, s.D, nr})
			t += s.D
			nr++
		}
	}
	return out
}

type liveRun struct {
	c        *lib.Ctx
	ls       *lib.Livesim
	stable   map[string]int64 // asset|mpd|pph|id -> start (seconds)
	stopSig  map[string]string
	distinct map[string]bool
	fetched  int
	fetchAll bool
	rng      *rand.Rand
}

func (lr *liveRun) fail(id, key, what string, in c06in) { lr.c.Fail(id, key, what, in) }

// cmpFetch fetches the same segment through the period-relative and the single-period URL.
func (lr *liveRun) cmpFetch(id string, in c06in, um, us string) {
	rm := lr.ls.GetRaw(um)
	rs := lr.ls.GetRaw(us)
	lr.fetched++
	if rm.Panic != "" || rs.Panic != "" {
		lr.fail(id, "panic:"+rm.Panic+rs.Panic, fmt.Sprintf("segment request panicked: %s / %s", um, us), in)
		return
	}
	if rm.Status != rs.Status {
		lr.fail(id, "bytes:status", fmt.Sprintf("%s -> %d but %s -> %d", um, rm.Status, us, rs.Status), in)
		return
	}
	if !bytes.Equal(rm.Body, rs.Body) {
		lr.fail(id, "bytes", fmt.Sprintf("%s and %s return different bytes (%d / %d)", um, us, len(rm.Body), len(rs.Body)), in)
		return
	}
	if rm.Status == 200 {
		lr.distinct[um] = true
	}
}

// pick returns the indices to fetch out of n.
func (lr *liveRun) pick(n int) []int {
	if n <= 0 {
		return nil
	}
	if lr.fetchAll || n <= 3 {
		out := make([]int, n)
		for i := range out {
			out[i] = i
		}
		return out
	}
	return []int{0, 1 + lr.rng.Intn(n-2), n - 1}
}

// oracle evaluates the text of C06 on the pair (single-period MPD sm, multi-period response).
func (lr *liveRun) oracle(id string, in c06in, a *lib.TLAsset, sm *m.MPD, multi lib.Resp) {
	P := 3600 / in.PPH
	N := int64(len(a.Ref().Segs))
	segDurMS := (a.RefDur*1000 + a.RefTS*N/2) / (a.RefTS * N) // average duration of the video segments
	if multi.Panic != "" {
		lr.fail(id, "panic:"+multi.Panic, "multi-period MPD request panicked", in)
		return
	}
	wantReject := (P*1000)%segDurMS != 0
	if wantReject {
		if multi.Status == 200 {
			lr.fail(id, "reject:accepted", fmt.Sprintf("period duration %d s is not a multiple of the segment duration %d ms but the MPD was produced", P, segDurMS), in)
		} else if multi.Status != 400 || !strings.Contains(string(multi.Body), "not a multiple of segment duration") {
			lr.fail(id, fmt.Sprintf("reject:status-%d", multi.Status), "rejection without the expected message: "+string(multi.Body), in)
		}
		return
	}
	if multi.Status != 200 {
		// a period that is no whole number of segments of some $Number$ template of the MPD may also be rejected
		rejectedForAS := false
		if multi.Status == 400 && strings.Contains(string(multi.Body), "not a multiple of segment duration") {
			for _, sas := range sm.Periods[0].AdaptationSets {
				if sst := sas.SegmentTemplate; sst != nil && sst.SegmentTimeline == nil && sst.Duration != nil && *sst.Duration > 0 {
					if (P*int64(sst.GetTimescale()))%int64(*sst.Duration) != 0 {
						rejectedForAS = true
					}
				}
			}
		}
		if !rejectedForAS {
			lr.fail(id, fmt.Sprintf("status-%d", multi.Status), fmt.Sprintf("accepted periods-per-hour value %d answered %d %s", in.PPH, multi.Status, string(multi.Body)), in)
		}
		return
	}
	mm, err := m.MPDFromBytes(multi.Body)
	if err != nil {
		lr.fail(id, "unparsable", err.Error(), in)
		return
	}
	// --- tiling, ids
	tsbdMS := int64(0)
	if sm.TimeShiftBufferDepth != nil {
		tsbdMS = int64(*sm.TimeShiftBufferDepth) / 1_000_000
	} else { // static MPD after the stop time: the configured depth still decides which periods exist
		tsbdMS = 60000
		if in.Tsbd >= 0 {
			tsbdMS = in.Tsbd * 1000
		}
	}
	astMS := in.StartS * 1000
	nowEnd := endMS(in)
	winStart := nowEnd - tsbdMS
	if winStart < astMS {
		winStart = astMS
	}
	// periods are counted from availabilityStartTime
	k0, k1 := (winStart-astMS)/(P*1000), (nowEnd-astMS)/(P*1000)
	// The periods must be consecutive and cover at least [period of the window start, period of now];
	// they may reach further only as far as a listed segment of the single-period MPD needs its period
	// (a tree with the repair "period range covers listed segments" does, a tree without it does not).
	lo, hi := k0, k1
	for _, sas := range sm.Periods[0].AdaptationSets {
		if sst := sas.SegmentTemplate; sst != nil && sst.SegmentTimeline != nil && in.Mode != "number" {
			if X := expandTL(sst); len(X) > 0 {
				pt := P * int64(sst.GetTimescale())
				if k := int64(X[0].T) / pt; k < lo {
					lo = k
				}
				if k := int64(X[len(X)-1].T) / pt; k > hi {
					hi = k
				}
			}
		}
	}
	if len(mm.Periods) == 0 {
		lr.fail(id, "tiling:count", fmt.Sprintf("no periods, expected P%d..P%d", k0, k1), in)
		return
	}
	ka := int64(-1 << 62)
	if strings.HasPrefix(mm.Periods[0].Id, "P") {
		if v, err := strconv.ParseInt(mm.Periods[0].Id[1:], 10, 64); err == nil {
			ka = v
		}
	}
	kb := ka + int64(len(mm.Periods)) - 1
	// resource clause: the number of periods is bounded by the window, whatever the timelines say
	if maxP := (nowEnd-winStart)/(P*1000) + 3 + in.AtoMS/(P*1000); int64(len(mm.Periods)) > maxP && in.AtoMS >= 0 {
		lr.fail(id, "resource:periods", fmt.Sprintf("%d periods for a window of %d ms and a period of %d s", len(mm.Periods), nowEnd-winStart, P), in)
		return
	}
	if ka > k0 || kb < k1 || ka < lo || kb > hi {
		lr.fail(id, "tiling:count", fmt.Sprintf("periods %s..P%d (%d), expected to cover P%d..P%d and to stay within P%d..P%d", mm.Periods[0].Id, kb, len(mm.Periods), k0, k1, lo, hi), in)
		return
	}
	k0 = ka // the first period of this MPD
	for i, p := range mm.Periods {
		k := ka + int64(i)
		if p.Id != fmt.Sprintf("P%d", k) {
			lr.fail(id, "tiling:id", fmt.Sprintf("period %d has id %q, expected P%d", i, p.Id, k), in)
			return
		}
		if p.Start == nil || int64(*p.Start) != k*P*1_000_000_000 {
			lr.fail(id, "tiling:start", fmt.Sprintf("period %s does not start at %d s", p.Id, k*P), in)
			return
		}
		key := fmt.Sprintf("%s|%s|%d|%s", in.Asset, in.MPD, in.PPH, p.Id)
		if old, ok := lr.stable[key]; ok && old != int64(*p.Start) {
			lr.fail(id, "ids-unstable", fmt.Sprintf("period %s started at %d ns in an earlier MPD, now at %d", p.Id, old, int64(*p.Start)), in)
		}
		lr.stable[key] = int64(*p.Start)
		if len(p.AdaptationSets) != len(sm.Periods[0].AdaptationSets) {
			lr.fail(id, "adaptation-sets", fmt.Sprintf("period %s has %d adaptation sets, single-period MPD %d", p.Id, len(p.AdaptationSets), len(sm.Periods[0].AdaptationSets)), in)
			return
		}
	}
	// --- from the stop time on the period layout no longer changes
	if in.StopS > 0 && in.NowMS >= in.StopS*1000 {
		key := fmt.Sprintf("%s|%s|%s|%d|%d|%d|%d|%d|%v", in.Asset, in.MPD, in.Mode, in.PPH, in.Tsbd, in.StartS, in.Snr, in.StopS, in.Cont)
		sig := coqPeriods(mm.Periods)
		if old, ok := lr.stopSig[key]; ok && old != sig {
			lr.fail(id, "stop:layout-changed", fmt.Sprintf("the periods (ids, starts, offsets, start numbers, timelines) at nowMS=%d differ from those of an earlier request at or after the stop time %d s", in.NowMS, in.StopS), in)
		}
		lr.stopSig[key] = sig
	}
	// --- publishTime in $Number$ mode: the instant the newest period began
	if in.Mode == "number" {
		pt, err := mm.PublishTime.ConvertToSeconds()
		if err != nil || pt != float64(in.StartS+k1*P) {
			lr.fail(id, "publishTime", fmt.Sprintf("publishTime %s, but the last period P%d starts %d s after availabilityStartTime %d", mm.PublishTime, k1, k1*P, in.StartS), in)
		}
	}
	// --- per adaptation set
	for j, sas := range sm.Periods[0].AdaptationSets {
		sst := sas.SegmentTemplate
		ts := int64(sst.GetTimescale())
		if hasCont(sas) != 0 {
			lr.fail(id, "continuity", "single-period MPD signals period continuity", in)
		}
		var X []xseg
		timeline := sst.SegmentTimeline != nil
		if timeline {
			X = expandTL(sst)
		}
		var got []xseg
		gotPeriod := []int64{}
		for i, p := range mm.Periods {
			k := k0 + int64(i)
			mas := p.AdaptationSets[j]
			mst := mas.SegmentTemplate
			lr.c.Count("as:" + string(sas.ContentType) + "/" + map[bool]string{true: "timeline", false: "template"}[timeline])
			hc := hasCont(mas)
			if (in.Cont && hc != 1) || (!in.Cont && hc != 0) {
				lr.fail(id, "continuity", fmt.Sprintf("period %s adaptation set %d: %d period-continuity descriptors, requested=%v", p.Id, j, hc, in.Cont), in)
			}
			if int64(mst.GetTimescale()) != ts || mst.Media != sst.Media || (mst.SegmentTimeline != nil) != timeline {
				lr.fail(id, "template", fmt.Sprintf("period %s adaptation set %d: timescale/media/addressing differ from the single-period MPD", p.Id, j), in)
				continue
			}
			if mst.PresentationTimeOffset == nil || int64(*mst.PresentationTimeOffset) != k*P*ts {
				lr.fail(id, "pto", fmt.Sprintf("period %s adaptation set %d: presentationTimeOffset is not %d (Period@start in the media timescale)", p.Id, j, k*P*ts), in)
			}
			if timeline {
				Y := expandTL(mst)
				for _, y := range Y {
					if int64(y.T) < k*P*ts || int64(y.T) >= (k+1)*P*ts {
						lr.fail(id, "partition:wrong-period", fmt.Sprintf("period %s adaptation set %d lists the segment starting at %d, outside [%d,%d)", p.Id, j, y.T, k*P*ts, (k+1)*P*ts), in)
					}
					got = append(got, y)
					gotPeriod = append(gotPeriod, k)
				}
				// segments through the period-relative URL
				if len(Y) > 0 && (lr.fetchAll || i < 2 || i >= len(mm.Periods)-2) {
					for _, yi := range lr.pick(len(Y)) {
						y := Y[yi]
						// the same segment of the single-period presentation
						xi := sort.Search(len(X), func(q int) bool { return X[q].T >= y.T })
						if xi >= len(X) || X[xi].T != y.T {
							continue // reported as partition:extra below
						}
						for _, rep := range mas.Representations {
							lr.cmpFetch(id, in, segURL(in, true, mst.Media, rep.Id, y.Nr, y.T), segURL(in, false, sst.Media, rep.Id, X[xi].Nr, X[xi].T))
						}
					}
				}
				continue
			}
			// $Number$ template
			if sst.Duration == nil || mst.Duration == nil || *sst.Duration != *mst.Duration {
				lr.fail(id, "template", fmt.Sprintf("period %s adaptation set %d: @duration differs", p.Id, j), in)
				continue
			}
			d := int64(*sst.Duration)
			sn0 := int64(1)
			if sst.StartNumber != nil {
				sn0 = int64(*sst.StartNumber)
			}
			if (k*P*ts)%d != 0 {
				lr.fail(id, "number-mode:misaligned", fmt.Sprintf("period %s adaptation set %d: period start %d is not a multiple of @duration %d", p.Id, j, k*P*ts, d), in)
				continue
			}
			wantSn := sn0 + k*P*ts/d
			if mst.StartNumber == nil || int64(*mst.StartNumber) != wantSn {
				gotSn := "none"
				if mst.StartNumber != nil {
					gotSn = fmt.Sprint(*mst.StartNumber)
				}
				lr.fail(id, "number-mode:startNumber", fmt.Sprintf("period %s adaptation set %d: startNumber %s, but the segment starting at the period start has number %d in single-period mode", p.Id, j, gotSn, wantSn), in)
				continue
			}
			// implied segments of this period that have ended: index i (from availabilityStartTime)
			iLo := k * P * ts / d
			iHi := (nowEnd-astMS)*ts/(1000*d) - 1
			if ts > 1000000 { // the product would leave 63 bits at far instants: whole seconds (a lower bound)
				iHi = (nowEnd-astMS)/1000*ts/d - 1
			}
			if e := (k+1)*P*ts/d - 1; e < iHi {
				iHi = e
			}
			wLo := ((winStart-astMS)*ts + 1000*d - 1) / (1000 * d)
			if ts > 1000000 {
				wLo = ((winStart-astMS)/1000+1)*ts/d + 1
			}
			if w := wLo; w > iLo {
				iLo = w
			}
			n := int(iHi - iLo + 1)
			if !(lr.fetchAll || i < 2 || i >= len(mm.Periods)-2) {
				n = 0
			}
			for _, q := range lr.pick(n) {
				i := iLo + int64(q)
				nrM := int64(*mst.StartNumber) + (i*d-int64(*mst.PresentationTimeOffset))/d
				nrS := sn0 + i
				if nrM != nrS {
					lr.fail(id, "number", fmt.Sprintf("period %s adaptation set %d: segment at %d has number %d, in single-period mode %d", p.Id, j, i*d, nrM, nrS), in)
				}
				for _, rep := range mas.Representations {
					lr.cmpFetch(id, in, segURL(in, true, mst.Media, rep.Id, nrM, uint64(i*d)), segURL(in, false, sst.Media, rep.Id, nrS, uint64(i*d)))
				}
			}
		}
		if !timeline {
			continue
		}
		// --- partition of the single-period timeline restricted to t >= start of the first period
		var want []xseg
		for _, x := range X {
			if int64(x.T) >= k0*P*ts {
				want = append(want, x)
			}
		}
		// beyond the text of the property (which exempts segments that start before the first period):
		// a listed segment must not vanish altogether
		for _, x := range X {
			if int64(x.T) < k0*P*ts {
				lr.fail(id, "partition:before-first-period", fmt.Sprintf("adaptation set %d: the segment starting at %d (number %d) is listed by the single-period MPD but starts before the first period %s and is in no period", j, x.T, x.Nr, mm.Periods[0].Id), in)
			}
		}
		numbered := strings.Contains(sst.Media, "$Number$")
		gi := 0
		for _, x := range want {
			cnt := 0
			for _, y := range got {
				if y.T == x.T {
					cnt++
				}
			}
			switch {
			case cnt == 0:
				lr.fail(id, "partition:missing", fmt.Sprintf("adaptation set %d: the segment starting at %d (number %d) of the single-period MPD is in no period", j, x.T, x.Nr), in)
			case cnt > 1:
				lr.fail(id, "partition:duplicate", fmt.Sprintf("adaptation set %d: the segment starting at %d is in %d periods", j, x.T, cnt), in)
			}
		}
		for _, y := range got {
			for gi < len(want) && want[gi].T < y.T {
				gi++
			}
			if gi >= len(want) || want[gi].T != y.T {
				lr.fail(id, "partition:extra", fmt.Sprintf("adaptation set %d: a period lists a segment starting at %d that the single-period MPD does not", j, y.T), in)
				continue
			}
			if want[gi].D != y.D {
				lr.fail(id, "duration", fmt.Sprintf("adaptation set %d: segment at %d has duration %d, in single-period mode %d", j, y.T, y.D, want[gi].D), in)
			}
			if numbered && want[gi].Nr != y.Nr {
				lr.fail(id, "number", fmt.Sprintf("adaptation set %d: segment at %d has number %d, in single-period mode %d", j, y.T, y.Nr, want[gi].Nr), in)
			}
		}
		if len(got) == len(want) {
			for q := range got {
				if got[q].T != want[q].T {
					lr.fail(id, "partition:order", fmt.Sprintf("adaptation set %d: concatenated periods differ from the single-period timeline at position %d", j, q), in)
					break
				}
			}
		}
		_ = gotPeriod
	}
}

const watchdogLimit = 5 * time.Second
const watchdogHeap = 3 << 30 // bytes

// guarded issues the request in a goroutine and waits at most watchdogLimit for the answer; meanwhile the heap
// is watched: a request that makes the process allocate more than watchdogHeap is reported and the run is
// ended at once (the evidence collected so far is written), so that a resource explosion is a failure of the
// check and not of the machine.
func (lr *liveRun) guarded(url string) (lib.Resp, time.Duration, bool) {
	done := make(chan lib.Resp, 1)
	t0 := time.Now()
	go func() { done <- lr.ls.GetRaw(url) }()
	tick := time.NewTicker(50 * time.Millisecond)
	defer tick.Stop()
	for {
		select {
		case r := <-done:
			return r, time.Since(t0), true
		case <-tick.C:
			var ms runtime.MemStats
			runtime.ReadMemStats(&ms)
			if ms.HeapAlloc > watchdogHeap {
				lr.c.Fail("watchdog", "resource:memory", fmt.Sprintf("%s made the process allocate %d MB", url, ms.HeapAlloc>>20), c06in{Kind: "live", URLMulti: url})
				lr.abort("resource:memory")
			}
			if time.Since(t0) > watchdogLimit {
				return lib.Resp{}, time.Since(t0), false
			}
		}
	}
}

// abort writes the result collected so far and ends the process (a request is still running and cannot be stopped).
func (lr *liveRun) abort(why string) {
	lr.c.Res.Notes = append(lr.c.Res.Notes, "run ended by the watchdog: "+why)
	lr.c.Res.Evaluations = len(lr.c.Res.Inputs)
	data, _ := json.MarshalIndent(lr.c.Res, "", " ")
	_ = os.WriteFile(filepath.Join(lr.c.Out, "result.json"), data, 0o644)
	os.Exit(0)
}

// one L1 case: both MPDs, oracle, correspondence term.
func (lr *liveRun) live(id int, in c06in, a *lib.TLAsset, inQuantifier bool) (string, bool) {
	sid := fmt.Sprint(id)
	in.URLSingle, in.URLMulti = mpdURL(in, false), mpdURL(in, true)
	lr.c.Res.Inputs[sid] = in
	single := lr.ls.GetRaw(in.URLSingle)
	multi, took, ok := lr.guarded(in.URLMulti)
	if !ok {
		lr.fail(sid, "resource:timeout", fmt.Sprintf("the multi-period MPD request did not answer within %v", watchdogLimit), in)
		lr.abort("resource:timeout")
	}
	if took > watchdogLimit {
		lr.fail(sid, "resource:slow", fmt.Sprintf("the multi-period MPD request took %v", took), in)
	}
	if single.Panic != "" || single.Status != 200 {
		lr.fail(sid, fmt.Sprintf("single-status-%d", single.Status), "single-period MPD not available: "+single.Panic+string(single.Body), in)
		return "", false
	}
	sm, err := m.MPDFromBytes(single.Body)
	if err != nil || len(sm.Periods) != 1 {
		lr.fail(sid, "unparsable", fmt.Sprintf("single-period MPD: %v (%d periods)", err, func() int {
			if sm == nil {
				return -1
			}
			return len(sm.Periods)
		}()), in)
		return "", false
	}
	if inQuantifier {
		lr.oracle(sid, in, a, sm, multi)
	} else {
		// periods-per-hour outside 1..3600: refused as a configuration error, never a panic
		switch {
		case multi.Panic != "":
			lr.fail(sid, "panic:"+multi.Panic, fmt.Sprintf("periods_%d: handler panicked", in.PPH), in)
		case multi.Status != 400:
			lr.fail(sid, fmt.Sprintf("pph-range:status-%d", multi.Status), fmt.Sprintf("periods_%d answered %d, expected 400", in.PPH, multi.Status), in)
		}
	}
	// correspondence
	status := multi.Status
	if multi.Panic != "" {
		status = 0
	}
	var ases []string
	for _, as := range sm.Periods[0].AdaptationSets {
		ases = append(ases, coqAsIn(as))
	}
	periods, pub := "[]", "None"
	if status == 200 {
		mm, err := m.MPDFromBytes(multi.Body)
		if err != nil {
			lr.fail(sid, "unparsable", err.Error(), in)
			return "", false
		}
		periods = coqPeriods(mm.Periods)
		if in.Mode == "number" {
			if s, err := mm.PublishTime.ConvertToSeconds(); err == nil && s == float64(int64(s)) {
				pub = fmt.Sprintf("(Some %d)", int64(s))
			} else {
				pub = "(Some (-1))"
			}
		}
	}
	tsbdMS, segMS := int64(0), int64(0)
	dm := sm
	if sm.TimeShiftBufferDepth == nil || sm.MinimumUpdatePeriod == nil {
		// static MPD after the stop time: depth and asset segment duration from the dynamic MPD of the same
		// configuration without the stop time, at the stop instant
		in2 := in
		in2.StopS, in2.NowMS = 0, endMS(in)
		if r2 := lr.ls.GetRaw(mpdURL(in2, false)); r2.Status == 200 {
			if d2, err := m.MPDFromBytes(r2.Body); err == nil {
				dm = d2
			}
		}
	}
	if dm.TimeShiftBufferDepth != nil {
		tsbdMS = int64(*dm.TimeShiftBufferDepth) / 1_000_000
	}
	if dm.MinimumUpdatePeriod != nil {
		segMS = int64(*dm.MinimumUpdatePeriod) / 1_000_000
	}
	stop := "None"
	if in.StopS > 0 {
		stop = fmt.Sprintf("(Some %d)", in.StopS)
	}
	snr := in.Snr
	if snr < 0 {
		snr = 0
	}
	term := fmt.Sprintf("CLive %d %s %s %s %d %s %s %d %d %d %s %d\n  [%s]\n  %d %s %s", id, lib.Cbool(numGuardDetected), coqWiden(in.AtoMS, a.LoopMS), lib.Zs(in.PPH), segMS, coqMode(in.Mode), lib.Cbool(in.Cont), in.StartS, snr, in.NowMS, stop, tsbdMS,
		strings.Join(ases, "; "), status, periods, pub)
	return term, true
}

func gcd(a, b int64) int64 {
	for b != 0 {
		a, b = b, a%b
	}
	return a
}

var divisors3600 = []int64{1, 2, 3, 4, 5, 6, 8, 9, 10, 12, 15, 16, 18, 20, 24, 25, 30, 36, 40, 45, 48, 50, 60, 72, 75, 80, 90, 100, 120, 144, 150,
	180, 200, 225, 240, 300, 360, 400, 450, 600, 720, 900, 1200, 1800, 3600}

type instant struct {
	now  int64
	tsbd int64
	name string
}

// instants: breakpoints of the multi-period MPD for period duration P (s), both sides of each.
func instants(rng *rand.Rand, P, loopMS, segMS int64) []instant {
	pm := P * 1000
	K := int64(1 + rng.Intn(40))
	b := K * pm
	var out []instant
	add := func(now, tsbd int64, name string) {
		if now >= 0 {
			out = append(out, instant{now, tsbd, name})
		}
	}
	for _, d := range []int64{-1, 0, 1} {
		add(b+d, -1, "period-boundary")
		add(b+segMS+d, -1, "boundary+segment")
		add(b+60000+d, -1, "window-edge-on-boundary")
	}
	add(b+rng.Int63n(pm), -1, "inside-period")
	add(b+rng.Int63n(pm), 10, "inside-period/tsbd10")
	add(b+rng.Int63n(pm), 300, "inside-period/tsbd300")
	add(rng.Int63n(pm), -1, "first-period")
	add(segMS, -1, "first-segment")
	add(0, -1, "stream-start")
	// period boundary = time-shift window edge = loop wrap
	l := pm / gcd(pm, loopMS) * loopMS
	t3 := l * int64(1+rng.Intn(3))
	if P <= 1800 {
		for _, d := range []int64{-1, 0, 1} {
			add(t3+d, P, "boundary=edge=wrap")
			add(t3+pm+d, 2*P, "boundary=edge=wrap(+1 period)")
		}
	}
	add(t3+segMS, 60, "wrap-on-boundary+segment")
	far := int64(1700000000000) + rng.Int63n(1000000000)
	far -= far % pm
	add(far, -1, "far/boundary")
	add(far-1, -1, "far/boundary-1")
	add(far+rng.Int63n(pm), -1, "far/inside")
	return out
}

func run(c *lib.Ctx) error {
	assets, err := lib.LoadBundledAssets(lib.TestVodRoot)
	if err != nil {
		return err
	}
	ls, err := lib.NewLivesim(lib.TestVodRoot, nil)
	if err != nil {
		return err
	}
	byPath := map[string]*lib.TLAsset{}
	for _, a := range assets {
		byPath[a.Path] = a
	}
	var how string
	widenDetected, how = probeWiden(ls)
	c.Res.Notes = append(c.Res.Notes, "model variant: "+how)
	numGuardDetected, how = probeNumGuard()
	c.Res.Notes = append(c.Res.Notes, "model variant: "+how)
	rng := rand.New(rand.NewSource(c.Seed))
	lr := &liveRun{c: c, ls: ls, stopSig: map[string]string{}, stable: map[string]int64{}, distinct: map[string]bool{}, rng: rng}

	if c.Replay != "" {
		in, err := lib.LoadReplayInput[c06in](c.Replay)
		if err != nil {
			return err
		}
		switch in.Kind {
		case "live":
			lr.fetchAll = true
			_, _ = lr.live(0, in, byPath[in.Asset], true)
			fmt.Printf("replay %s vs %s: %d oracle failures\n", mpdURL(in, true), mpdURL(in, false), len(c.Res.OracleFailures))
		case "reduce":
			out, nr := runReduce(*in.Reduce)
			fmt.Printf("replay reduceS -> %s startNr %d\n", coqS(out), nr)
			oracleReduce(c, "replay", *in.Reduce, out, nr)
		case "split":
			st, ps := runSplit(*in.Split)
			fmt.Printf("replay splitPeriod -> status %d %s\n", st, ps)
			oracleSplit(c, "replay", *in.Split, st)
		}
		return nil
	}

	var terms []string
	id := 0
	sweepStatusOnly := 0
	specs := []struct{ path, mpd string }{
		{"testpic_2s", "Manifest.mpd"}, {"testpic_2s", "Manifest_thumbs.mpd"}, {"testpic_2s", "Manifest_imsc1.mpd"},
		{"testpic_8s", "Manifest.mpd"}, {"testpic_6s", "Manifest.mpd"}, {"testpic_alt_seg_dur_stl", "Manifest.mpd"},
		{"WAVE/vectors/cfhd_sets/12.5_25_50/t3/2022-10-17", "stream.mpd"},
		{"WAVE/vectors/cfhd_sets/14.985_29.97_59.94/t1/2022-10-17", "stream.mpd"},
	}
	modes := []string{"number", "tlnr", "tlt"}
	perCombo := 2
	if c.Thorough() {
		perCombo = 4
	}
	for si, sp := range specs {
		a := byPath[sp.path]
		if a == nil {
			return fmt.Errorf("asset %s not loaded", sp.path)
		}
		N := int64(len(a.Ref().Segs))
		segMS := (a.RefDur*1000 + a.RefTS*N/2) / (a.RefTS * N)
		var pphs []int64
		if c.Thorough() {
			// all divisors, for every distinct period duration the smallest and the largest value
			// that gives it, and a random sample of 1..3600
			seen := map[int64]bool{}
			add := func(p int64) {
				if p >= 1 && p <= 3600 && !seen[p] {
					seen[p] = true
					pphs = append(pphs, p)
				}
			}
			for _, p := range divisors3600 {
				add(p)
			}
			for p := int64(1); p <= 3600; p++ {
				if p == 1 || 3600/p != 3600/(p-1) || p == 3600 || 3600/p != 3600/(p+1) {
					add(p)
				}
			}
			for k := 0; k < 120; k++ {
				add(int64(1 + rng.Intn(3600)))
			}
		} else {
			pphs = append(pphs, divisors3600...)
			pphs = append(pphs, 7, 13, 3599, int64(2+rng.Intn(3597)))
		}
		for _, pph := range pphs {
			P := 3600 / pph
			accepted := (P*1000)%segMS == 0
			for mi, mode := range modes {
				ins := instants(rng, P, a.LoopMS, segMS)
				n := perCombo
				if !accepted {
					n = 1
					if (int(pph)+mi+si)%3 != 0 && !c.Thorough() {
						continue
					}
				}
				rng.Shuffle(len(ins), func(i, j int) { ins[i], ins[j] = ins[j], ins[i] })
				// one of the coincidence instants is always among the chosen ones
				for q := range ins {
					if strings.HasPrefix(ins[q].name, "boundary=edge=wrap") {
						ins[0], ins[q] = ins[q], ins[0]
						break
					}
				}
				if n > len(ins) {
					n = len(ins)
				}
				for _, it := range ins[:n] {
					// keep the number of periods moderate
					tsbd := it.tsbd
					eff := tsbd
					if eff < 0 {
						eff = 60
					}
					if (eff/P > 16 && !c.Thorough()) || eff/P > 40 {
						tsbd, eff = 10, 10
					}
					startS, snr := int64(0), int64(-1)
					switch rng.Intn(6) {
					case 0:
						startS = []int64{1000, 30, 1600000000, 3599}[rng.Intn(4)]
					case 1:
						snr = []int64{0, 5, 100, 1}[rng.Intn(4)]
					case 2:
						startS, snr = []int64{1000, 1600000000}[rng.Intn(2)], []int64{5, 7}[rng.Intn(2)]
					}
					in := c06in{Kind: "live", Asset: sp.path, MPD: sp.mpd, Mode: mode, PPH: pph, Tsbd: tsbd, Cont: rng.Intn(3) == 0, StartS: startS, Snr: snr,
						NowMS: startS*1000 + it.now, Instant: it.name}
					if startS != 0 {
						c.Count("config/start")
					}
					if snr > 0 {
						c.Count("config/snr")
					}
					lr.fetchAll = rng.Intn(60) == 0
					term, ok := lr.live(id, in, a, true)
					acc := "accepted"
					if !accepted {
						acc = "rejected"
					}
					c.Count("live/" + mode + "/" + acc)
					c.Count("instant/" + it.name)
					if ok {
						terms = append(terms, term)
					}
					if id%97 == 0 {
						c.Sample(map[string]any{"single": in.URLSingle, "multi": mpdURL(in, true), "instant": it.name})
					}
					id++
				}
			}
		}
	}
	// outside the quantifier of the property (periods-per-hour not in 1..3600): model and
	// implementation must still agree (a panic is C08's finding, not reported here)
	for _, pph := range []int64{0, 5000, 3601, -1, -60} {
		for _, mode := range modes {
			in := c06in{Kind: "live", Asset: "testpic_2s", MPD: "Manifest.mpd", Mode: mode, PPH: pph, Tsbd: -1, Snr: -1, NowMS: 100000 + rng.Int63n(100000), Instant: "pph-out-of-range"}
			term, ok := lr.live(id, in, byPath["testpic_2s"], false)
			c.Count("live/" + mode + "/pph-out-of-range")
			if ok {
				terms = append(terms, term)
			}
			id++
		}
	}
	// availabilityTimeOffset, below and at/above the segment duration: instants at which now + ato
	// crosses a period boundary
	atoSpecs := []struct{ path, mpd string }{{"testpic_2s", "Manifest.mpd"}, {"testpic_2s", "Manifest_thumbs.mpd"}, {"testpic_8s", "Manifest.mpd"}, {"testpic_alt_seg_dur_stl", "Manifest.mpd"}}
	nAto := 2
	if c.Thorough() {
		nAto = 12
	}
	for _, sp := range atoSpecs {
		a := byPath[sp.path]
		N := int64(len(a.Ref().Segs))
		segMS := (a.RefDur*1000 + a.RefTS*N/2) / (a.RefTS * N)
		minSegMS := int64(1) << 62
		for _, sg := range a.Ref().Segs {
			if d := (sg.End - sg.Start) * 1000 / a.RefTS; d < minSegMS {
				minSegMS = d
			}
		}
		for _, pph := range []int64{1, 60, 300} {
			P := 3600 / pph
			if (P*1000)%segMS != 0 {
				continue
			}
			for _, mode := range modes {
				for _, ato := range []int64{minSegMS / 4, minSegMS / 2, minSegMS, segMS + 1000, 3 * segMS, a.LoopMS + 1000} {
					for k := 0; k < nAto; k++ {
						b := int64(1+rng.Intn(30)) * P * 1000
						offs := []int64{-ato, -ato - 1, -ato + 1, -1, 0, -ato / 2, -segMS, rng.Int63n(P * 1000)}
						now := b + offs[rng.Intn(len(offs))]
						if now < 0 {
							continue
						}
						in := c06in{Kind: "live", Asset: sp.path, MPD: sp.mpd, Mode: mode, PPH: pph, Tsbd: -1, Snr: -1, AtoMS: ato, AtoGeSeg: ato >= minSegMS,
							NowMS: now, Instant: "ato"}
						lr.fetchAll = false
						term, ok := lr.live(id, in, a, true)
						if in.AtoGeSeg {
							c.Count("live/" + mode + "/ato>=segment")
						} else {
							c.Count("live/" + mode + "/ato<segment")
						}
						if ok {
							terms = append(terms, term)
						}
						id++
					}
				}
			}
		}
	}
	// time-shift buffer shorter than a segment, just after a period boundary: the newest ended segment
	// is listed although it starts before the window (and before the period that contains the window start);
	// pairwise with availabilityTimeOffset, start time and start number
	nT := 1
	if c.Thorough() {
		nT = 6
	}
	for _, sp := range []struct{ path, mpd string }{{"testpic_2s", "Manifest.mpd"}, {"testpic_6s", "Manifest.mpd"}, {"testpic_8s", "Manifest.mpd"}, {"testpic_alt_seg_dur_stl", "Manifest.mpd"}, {"testpic_2s", "Manifest_imsc1.mpd"}} {
		a := byPath[sp.path]
		N := int64(len(a.Ref().Segs))
		segMS := (a.RefDur*1000 + a.RefTS*N/2) / (a.RefTS * N)
		minSegMS, maxSegMS := int64(1)<<62, int64(0)
		for _, sg := range a.Ref().Segs {
			d := (sg.End - sg.Start) * 1000 / a.RefTS
			if d < minSegMS {
				minSegMS = d
			}
			if d > maxSegMS {
				maxSegMS = d
			}
		}
		for _, pph := range []int64{30, 60, 300, 1} {
			P := 3600 / pph
			if (P*1000)%segMS != 0 {
				continue
			}
			for _, mode := range modes {
				for _, tsbd := range []int64{0, 1, maxSegMS/1000 - 1, maxSegMS / 1000} {
					if tsbd < 0 {
						continue
					}
					for k := 0; k < nT; k++ {
						b := int64(1+rng.Intn(30)) * P * 1000
						offs := []int64{0, 1, 500, minSegMS - 1, minSegMS, maxSegMS - 1, maxSegMS, maxSegMS + 1}
						for _, off := range []int64{offs[rng.Intn(len(offs))], offs[rng.Intn(len(offs))]} {
							startS, snr, ato := int64(0), int64(-1), int64(0)
							switch rng.Intn(5) {
							case 0:
								startS = 1000
							case 1:
								snr = 5
							case 2:
								ato = []int64{minSegMS / 2, segMS + 1000}[rng.Intn(2)]
							case 3:
								startS, ato = 1600000000, minSegMS/2
							}
							in := c06in{Kind: "live", Asset: sp.path, MPD: sp.mpd, Mode: mode, PPH: pph, Tsbd: tsbd, Snr: snr, StartS: startS, AtoMS: ato,
								AtoGeSeg: ato >= minSegMS, TsbdLtSeg: tsbd*1000 < maxSegMS, Cont: rng.Intn(4) == 0,
								NowMS: startS*1000 + b + tsbd*1000 + off, Instant: "after-boundary/short-tsbd"}
							lr.fetchAll = false
							term, ok := lr.live(id, in, a, true)
							if in.TsbdLtSeg {
								c.Count("live/" + mode + "/tsbd<segment")
							} else {
								c.Count("live/" + mode + "/tsbd=segment")
							}
							if ok {
								terms = append(terms, term)
							}
							id++
						}
					}
				}
			}
		}
	}
	// stop time (stop_/stoprel_) crossed with periods: request instants before, at and after the stop time;
	// the period layout must equal the split of the single-period MPD and stay the same after the stop
	nS := 1
	if c.Thorough() {
		nS = 5
	}
	for _, sp := range []struct{ path, mpd string }{{"testpic_2s", "Manifest.mpd"}, {"testpic_2s", "Manifest_thumbs.mpd"}, {"testpic_8s", "Manifest.mpd"}, {"testpic_2s", "Manifest_imsc1.mpd"}} {
		a := byPath[sp.path]
		N := int64(len(a.Ref().Segs))
		segMS := (a.RefDur*1000 + a.RefTS*N/2) / (a.RefTS * N)
		for _, pph := range []int64{60, 30, 300} {
			P := 3600 / pph
			for _, mode := range modes {
				for k := 0; k < nS; k++ {
					startS, snr := int64(0), int64(-1)
					switch rng.Intn(4) {
					case 0:
						startS = 1000
					case 1:
						snr = 5
					}
					K := int64(3 + rng.Intn(20))
					stopOffs := []int64{0, 1, P / 2, P - 1, segMS / 1000, 7}
					stopS := startS + K*P + stopOffs[rng.Intn(len(stopOffs))]
					cont := rng.Intn(2) == 0
					rel := rng.Intn(4) == 0
					for _, off := range []int64{-2*segMS - 1, -1, 0, 1, segMS, 70000, P*1000 + 1, 3600000} {
						in := c06in{Kind: "live", Asset: sp.path, MPD: sp.mpd, Mode: mode, PPH: pph, Tsbd: -1, Snr: snr, StartS: startS, Cont: cont,
							StopS: stopS, StopRel: rel, NowMS: stopS*1000 + off, Instant: "stop"}
						lr.fetchAll = false
						term, ok := lr.live(id, in, a, true)
						switch {
						case off < 0:
							c.Count("live/" + mode + "/before-stop")
						case off == 0:
							c.Count("live/" + mode + "/at-stop")
						default:
							c.Count("live/" + mode + "/after-stop")
						}
						if ok {
							terms = append(terms, term)
						}
						id++
					}
				}
			}
		}
	}
	// generated layouts of the catalogue (lib.GenCatalogue): representations with different numbers of
	// segments per loop, a first segment of exactly the mean duration, a 10 MHz timescale
	genNames := map[string]bool{"g_mixed_n": true, "g_mixed_n2": true, "g_avgfirst_tl": true, "g_10mhz_tl": true}
	if root, err := os.MkdirTemp("", "c06gen"); err == nil {
		defer os.RemoveAll(root)
		var gas []*lib.TLAsset
		fractional := map[string]bool{}
		var layouts []lib.GenLayout
		for _, l := range lib.GenCatalogue() {
			if genNames[l.Asset.Name] && l.Class == "ok" {
				layouts = append(layouts, l)
			}
		}
		// segment durations that are no whole number of seconds: 1.92 s, 3.84 s, 2.56 s (25 fps); sub-second
		// durations are left out: the served MPD then carries minimumUpdatePeriod="960000000S" (dash-mpd
		// Duration.String below one second), which no DASH parser accepts - reported, not a C06 matter
		v192 := lib.UniformDurs(4, 48*512)
		v384 := lib.UniformDurs(4, 96*3600)
		v256 := lib.UniformDurs(3, 64*512)
		for _, ga := range []lib.GenAsset{
			{Name: "c06_1920ms", Reps: []lib.GenRep{lib.VideoRep("V1", 12800, 512, v192), lib.AudioRep("A48", 1024, lib.AudioDursFollowing(v192, 12800, 48000, 1024, 0)), lib.StppRep("sub_en", 1000, lib.UniformDurs(4, 1920))}},
			{Name: "c06_3840ms", Reps: []lib.GenRep{lib.VideoRep("V1", 90000, 3600, v384), lib.AudioRep("A48", 1024, lib.AudioDursFollowing(v384, 90000, 48000, 1024, 0))}},
			{Name: "c06_2560ms", Reps: []lib.GenRep{lib.VideoRep("V1", 12800, 512, v256), lib.AudioRep("A48", 1024, lib.AudioDursFollowing(v256, 12800, 48000, 1024, 0))}},
		} {
			if ok, why := ga.PredictAdmission(); !ok {
				return fmt.Errorf("generated asset %s not admissible: %s", ga.Name, why)
			}
			fractional[ga.Name] = true
			layouts = append(layouts, lib.GenLayout{Asset: ga, Class: "ok"})
		}
		for _, l := range layouts {
			if err := lib.WriteAsset(root, l.Asset); err != nil {
				return fmt.Errorf("WriteAsset %s: %w", l.Asset.Name, err)
			}
			// the reference representation: first video in the order of the ids
			ri := -1
			for i, r := range l.Asset.Reps {
				if r.Kind == "video" && (ri < 0 || r.ID < l.Asset.Reps[ri].ID) {
					ri = i
				}
			}
			if ri < 0 {
				continue
			}
			r := l.Asset.Reps[ri]
			vr := &lib.VodRep{ID: r.ID, Timescale: int64(r.Timescale), IsVideo: true}
			for k := 0; k < r.N(); k++ {
				vr.Segs = append(vr.Segs, lib.VodSeg{Start: int64(r.Start(k)), End: int64(r.End(k)), Nr: int64(r.FirstNr() + k)})
			}
			mpdName := l.Asset.MPDName
			if mpdName == "" {
				mpdName = "Manifest.mpd"
			}
			ta := &lib.TLAsset{Path: l.Asset.Name, MPD: mpdName, Reps: []*lib.TLRep{{VodRep: vr, Kind: "video", Ext: ".m4s"}}}
			ta.RefTS, ta.RefDur = vr.Timescale, vr.Duration()
			ta.LoopMS = 1000 * vr.Duration() / vr.Timescale
			gas = append(gas, ta)
		}
		gls, err := lib.NewLivesim(root, nil)
		if err != nil {
			return fmt.Errorf("generated vodroot: %w", err)
		}
		glr := &liveRun{c: c, ls: gls, stopSig: map[string]string{}, stable: lr.stable, distinct: lr.distinct, rng: rng}
		nG := 3
		if c.Thorough() {
			nG = 12
		}
		for _, a := range gas {
			N := int64(len(a.Ref().Segs))
			segMS := (a.RefDur*1000 + a.RefTS*N/2) / (a.RefTS * N)
			nAcc, nRej := 0, 0
			for _, pph := range []int64{60, 900, 5, 300, 1200, 1800, 30, 3600, 7} { // 900: a 4 s period (no multiple of a 3 s subtitle segment); 5: a 720 s period (period x 10 MHz needs more than 32 bits)
				P := 3600 / pph
				accepted := (P*1000)%segMS == 0
				if (accepted && nAcc >= 4) || (!accepted && nRej >= 1) {
					continue
				}
				if accepted {
					nAcc++
				} else {
					nRej++
				}
				for _, mode := range modes {
					for k := 0; k < nG; k++ {
						b := int64(1+rng.Intn(40)) * P * 1000
						offs := []int64{-1, 0, 1, segMS, 60000, 60001, a.LoopMS, rng.Int63n(P * 1000)}
						tsbd := []int64{-1, -1, 10, 1}[rng.Intn(4)]
						in := c06in{Kind: "live", Asset: a.Path, MPD: a.MPD, Mode: mode, PPH: pph, Tsbd: tsbd, Snr: -1, Cont: rng.Intn(3) == 0,
							NowMS: b + offs[rng.Intn(len(offs))], Instant: "generated-layout"}
						glr.fetchAll = k == 0
						term, ok := glr.live(id, in, a, true)
						c.Count("live/" + mode + "/generated:" + a.Path)
						if ok {
							terms = append(terms, term)
						}
						id++
						if !accepted {
							break
						}
					}
				}
			}
		}
		// resource class: every generated layout at far-future instants (2030, 2040): the answer must come
		// within the watchdog limits and with a number of periods bounded by the window
		for _, a := range gas {
			N := int64(len(a.Ref().Segs))
			segMS := (a.RefDur*1000 + a.RefTS*N/2) / (a.RefTS * N)
			nAcc := 0
			for _, pph := range []int64{60, 300, 900, 75, 15, 1800, 30, 5, 1} {
				P := 3600 / pph
				if (P*1000)%segMS != 0 || nAcc >= 2 {
					continue
				}
				nAcc++
				for _, mode := range modes {
					for _, baseS := range []int64{1893456000, 2208988800} {
						bnd := baseS / P * P * 1000
						nows := []int64{baseS*1000 + rng.Int63n(86400000), bnd, bnd + 1}
						if c.Thorough() {
							nows = append(nows, bnd-1, bnd+segMS, bnd+60000, baseS*1000)
						}
						for _, now := range nows {
							in := c06in{Kind: "live", Asset: a.Path, MPD: a.MPD, Mode: mode, PPH: pph, Tsbd: []int64{-1, 10, 300}[rng.Intn(3)], Snr: -1,
								Cont: rng.Intn(3) == 0, NowMS: now, Instant: "far-future"}
							glr.fetchAll = false
							term, ok := glr.live(id, in, a, true)
							c.Count("live/" + mode + "/far-future:" + a.Path)
							if ok {
								terms = append(terms, term)
							}
							id++
						}
					}
				}
			}
		}
		// fractional-second segment durations crossed with EVERY periods-per-hour value 1..3600: a value is a
		// candidate when the whole-second period 3600/n (integer division, as the code defines it) or the exact
		// period 3600000/n ms is a whole number of segments; all candidates and a sample of the others get the
		// full oracle and the model, all other values must be refused with the rejection message
		for _, a := range gas {
			if !fractional[a.Path] || (a.Path == "c06_3840ms" && !c.Thorough()) {
				continue
			}
			N := int64(len(a.Ref().Segs))
			segMS := (a.RefDur*1000 + a.RefTS*N/2) / (a.RefTS * N)
			for n := int64(1); n <= 3600; n++ {
				P := 3600 / n
				floorFits := (P*1000)%segMS == 0
				exactFits := 3600000%n == 0 && (3600000/n)%segMS == 0
				mode := modes[int(n)%3]
				b := int64(1+rng.Intn(30)) * P * 1000
				offs := []int64{-1, 0, 1, segMS, 60000, rng.Int63n(P*1000 + 1)}
				in := c06in{Kind: "live", Asset: a.Path, MPD: a.MPD, Mode: mode, PPH: n, Tsbd: -1, Snr: -1, Cont: n%5 == 0,
					NowMS: b + offs[rng.Intn(len(offs))], Instant: "pph-sweep"}
				if in.NowMS < 0 {
					in.NowMS = b
				}
				if floorFits || exactFits || c.Thorough() || rng.Intn(120) == 0 {
					glr.fetchAll = false
					term, ok := glr.live(id, in, a, true)
					switch {
					case floorFits:
						c.Count("sweep/" + a.Path + "/fits-whole-second-period")
					case exactFits:
						c.Count("sweep/" + a.Path + "/fits-exact-period-only")
					default:
						c.Count("sweep/" + a.Path + "/sampled-rejected")
					}
					if ok {
						terms = append(terms, term)
					}
					id++
					continue
				}
				// must be refused
				in.URLMulti = mpdURL(in, true)
				r := gls.GetRaw(in.URLMulti)
				c.Count("sweep/" + a.Path + "/status-only")
				sweepStatusOnly++
				switch {
				case r.Panic != "":
					c.Fail(fmt.Sprintf("sweep-%s-%d", a.Path, n), "panic:"+r.Panic, "multi-period MPD request panicked", in)
				case r.Status == 200:
					c.Fail(fmt.Sprintf("sweep-%s-%d", a.Path, n), "reject:accepted", fmt.Sprintf("period duration %d s is not a multiple of the segment duration %d ms but the MPD was produced", P, segMS), in)
				case r.Status != 400 || !strings.Contains(string(r.Body), "not a multiple of segment duration"):
					c.Fail(fmt.Sprintf("sweep-%s-%d", a.Path, n), fmt.Sprintf("reject:status-%d", r.Status), "rejection without the expected message: "+string(r.Body), in)
				}
			}
		}
		lr.fetched += glr.fetched
	}
	nLive := id + sweepStatusOnly

	// ---- L2: reduceS
	nReduce := 2500
	if c.Thorough() {
		nReduce = 25000
	}
	for k := 0; k < nReduce; k++ {
		ri, kind := genReduce(rng)
		out, nr := runReduce(ri)
		c.Count("reduceS/" + kind)
		c.Res.Inputs[fmt.Sprint(id)] = c06in{Kind: "reduce", Reduce: &ri}
		oracleReduce(c, fmt.Sprint(id), ri, out, nr)
		var es []*m.S
		for _, s := range ri.S {
			es = append(es, &m.S{T: s.T, D: s.D, R: s.R})
		}
		terms = append(terms, fmt.Sprintf("CReduce %d %s %s %d %d %d %s %d", id, coqS(es), optZ(ri.StartNr), ri.TS, ri.PS, ri.PE, coqS(out), nr))
		id++
	}
	// ---- L2: splitPeriod
	nSplit := 1200
	if c.Thorough() {
		nSplit = 12000
	}
	for k := 0; k < nSplit; k++ {
		si := genSplit(rng)
		st, ps := runSplit(si)
		c.Count(fmt.Sprintf("splitPeriod/%s/status-%d", si.Mode, st))
		c.Res.Inputs[fmt.Sprint(id)] = c06in{Kind: "split", Split: &si}
		oracleSplit(c, fmt.Sprint(id), si, st)
		var ases []string
		for _, as := range buildMPD(si).Periods[0].AdaptationSets {
			ases = append(ases, coqAsIn(as))
		}
		pph := "0"
		if si.PPH != nil {
			pph = lib.Zs(int64(*si.PPH))
		}
		snr := 1 // cfg.getStartNr() without a configured start number
		if si.StartNr != nil {
			snr = *si.StartNr
		}
		terms = append(terms, fmt.Sprintf("CSplit %d %s %s %s %d %s %s %s %s %s %s\n  [%s]\n  %d %s", id, lib.Cbool(numGuardDetected), coqWiden(0, 0), pph, si.SegDurMS, coqMode(si.Mode), lib.Cbool(si.Cont),
			lib.Zs(int64(si.StartTimeS)*1000), lib.Zs(int64(snr)), lib.Zs(int64(si.StartTimeMS)), lib.Zs(int64(si.NowMS)),
			strings.Join(ases, "; "), st, ps))
		id++
	}

	c.Res.Evaluations = id + lr.fetched + sweepStatusOnly // model cases + segment pairs fetched and byte-compared + status-only sweep requests
	c.Res.ModelCases = id
	c.Res.DistinctNontrivial = len(lr.distinct)
	c.Res.Notes = append(c.Res.Notes, fmt.Sprintf("L1: %d MPD pairs, %d segment pairs fetched through period-relative and single-period URLs (%d distinct period-relative URLs answered 200 with identical bytes); L2: %d reduceS cases, %d splitPeriod cases", nLive, lr.fetched, len(lr.distinct), nReduce, nSplit))
	c.Res.Rule = "L1: bundled assets (2 s, 6 s, 8 s, alternating 4 s/8 s, 2 s at timescale 12800, 2.002 s) with audio, video, stpp text/image subtitles and thumbnails x {Number, Timeline-Number, Timeline-Time} x periods-per-hour over all 45 divisors of 3600 plus non-divisors (quick) / all accepted values and a sample of rejected ones in 1..3600 (thorough) x instants at period boundaries +-1 ms, boundary + one segment, time-shift window edge on a boundary, boundary = window edge = loop wrap, stream start, ~1.7e12 ms x tsbd in {default, 10, 300, P, 2P} x continuous_1 on/off; L2: reduceS on random <S> lists (t absent/present, gaps, r in -2..7, equal and different durations, values near 2^64/2^32), splitPeriod on synthetic MPDs with periods-per-hour in {0, negative, 1..3600, > 3600}; distinct = distinct period-relative segment URLs answered 200 with the same bytes as the single-period URL"
	shard := 100
	for s := 0; s*shard < len(terms); s++ {
		e := (s + 1) * shard
		if e > len(terms) {
			e = len(terms)
		}
		c.WriteCases(fmt.Sprintf("cases_C06_%d.v", s),
			lib.CasesFile("From Verif Require Import GoSem Timeline Periods CorrC06.", "c06case", "", terms[s*shard:e], "model_view"))
	}
	return nil
}

// ---------------------------------------------------------------- L2 reduceS

func runReduce(ri reduceIn) ([]*m.S, uint32) {
	var es []*m.S
	for _, s := range ri.S {
		var t *uint64
		if s.T != nil {
			v := *s.T
			t = &v
		}
		es = append(es, &m.S{T: t, D: s.D, R: s.R})
	}
	out, nr := app.VerifC06ReduceS(es, ri.StartNr, ri.TS, ri.PS, ri.PE)
	return out, *nr
}

func genReduce(rng *rand.Rand) (reduceIn, string) {
	ri := reduceIn{}
	kind := "contiguous"
	tss := []int{1, 1000, 48000, 90000, 12800}
	ri.TS = tss[rng.Intn(len(tss))]
	base := uint64(ri.TS) * uint64(1+rng.Intn(4))
	durs := []uint64{base, base, base * 2, base + 1, base / 2}
	mode := rng.Intn(10)
	t := uint64(rng.Intn(200)) * base
	if mode == 9 {
		kind = "near-2^64"
		t = ^uint64(0) - uint64(rng.Intn(12))*base
	}
	n := rng.Intn(7)
	run := t
	for i := 0; i < n; i++ {
		s := sIn{D: durs[rng.Intn(len(durs))]}
		rs := []int{0, 0, 0, 1, 2, 3, 7, -1, -2}
		s.R = rs[rng.Intn(len(rs))]
		switch {
		case i == 0 && rng.Intn(6) != 0:
			v := run
			s.T = &v
		case mode >= 6 && mode < 9 && rng.Intn(3) == 0: // explicit t that is not the running time
			kind = "gaps"
			v := run + uint64(rng.Intn(5))*base - uint64(rng.Intn(3))*base
			s.T = &v
			run = v
		case rng.Intn(4) == 0:
			v := run
			s.T = &v
		}
		if s.T == nil && i == 0 {
			run = 0
		}
		if s.R >= 0 {
			run += uint64(s.R+1) * s.D
		}
		ri.S = append(ri.S, s)
	}
	span := (run - t) / uint64(ri.TS)
	if mode == 9 || run < t {
		span = 20
	}
	t0 := t / uint64(ri.TS)
	ps := t0 + uint64(rng.Intn(int(span)+3)) - 1
	if t0 == 0 && ps > 1<<62 {
		ps = 0
	}
	ri.PS = ps
	ri.PE = ps + uint64(1+rng.Intn(int(span)+2))
	switch rng.Intn(12) {
	case 0:
		ri.PE = ri.PS
	case 1:
		ri.PS, ri.PE = ri.PE, ri.PS
		kind = "end-before-start"
	case 2:
		ri.PS = 0
	}
	switch rng.Intn(5) {
	case 0:
	case 1:
		v := uint32(4294967295 - uint32(rng.Intn(3)))
		ri.StartNr = &v
	default:
		v := uint32(rng.Intn(1000))
		ri.StartNr = &v
	}
	return ri, kind
}

// oracleReduce: the statement C06_reduceS on the implementation's output, for inputs on which it
// is claimed (contiguous input, no wrap).
func oracleReduce(c *lib.Ctx, id string, ri reduceIn, out []*m.S, nr uint32) {
	// expansion of the input as a client reads it
	type td struct{ t, d uint64 }
	var X []td
	t := uint64(0)
	contiguous := true
	for i, s := range ri.S {
		if s.T != nil {
			if i > 0 && *s.T != t {
				contiguous = false
			}
			t = *s.T
		}
		for k := 0; k <= s.R; k++ {
			X = append(X, td{t, s.D})
			if t+s.D < t {
				return // wraps
			}
			t += s.D
		}
	}
	if !contiguous || ri.PE < ri.PS {
		return
	}
	hi, lo := mul64(ri.PS, uint64(ri.TS))
	hi2, lo2 := mul64(ri.PE, uint64(ri.TS))
	if hi != 0 || hi2 != 0 {
		return
	}
	var want []td
	before := 0
	reached := false
	for _, x := range X {
		if x.t < lo {
			before++
		} else {
			reached = true
			if x.t < lo2 {
				want = append(want, x)
			}
		}
	}
	var got []td
	for i, s := range out {
		if s.T == nil || s.R < 0 {
			c.Fail(id, "reduceS:shape", "output element without t or with negative r", c06in{Kind: "reduce", Reduce: &ri})
			return
		}
		if i > 0 && out[i-1].D == s.D {
			c.Fail(id, "reduceS:not-maximal", "two neighbouring output elements have the same duration", c06in{Kind: "reduce", Reduce: &ri})
		}
		tt := *s.T
		for k := 0; k <= s.R; k++ {
			got = append(got, td{tt, s.D})
			tt += s.D
		}
	}
	same := len(got) == len(want)
	for i := 0; same && i < len(got); i++ {
		same = got[i] == want[i]
	}
	if !same {
		c.Fail(id, "reduceS:window", fmt.Sprintf("expansion of the output (%d segments) is not the input restricted to [%d,%d) (%d segments)", len(got), lo, lo2, len(want)), c06in{Kind: "reduce", Reduce: &ri})
	}
	sn := uint32(0)
	if ri.StartNr != nil {
		sn = *ri.StartNr
	}
	if reached && uint64(sn)+uint64(before) < 1<<32 && nr != sn+uint32(before) {
		c.Fail(id, "reduceS:startNumber", fmt.Sprintf("returned start number %d, expected %d + %d segments before the period", nr, sn, before), c06in{Kind: "reduce", Reduce: &ri})
	}
}

func mul64(a, b uint64) (hi, lo uint64) {
	const mask = 1<<32 - 1
	a0, a1 := a&mask, a>>32
	b0, b1 := b&mask, b>>32
	w0 := a0 * b0
	t := a1*b0 + w0>>32
	w1 := t & mask
	w2 := t >> 32
	w1 += a0 * b1
	hi = a1*b1 + w2 + w1>>32
	lo = a * b
	return
}

// ---------------------------------------------------------------- L2 splitPeriod

func buildMPD(si splitIn) *m.MPD {
	mpd := m.NewMPD("dynamic")
	p := m.NewPeriod()
	p.Id = "P0"
	for _, as := range si.AS {
		a := m.NewAdaptationSet()
		a.ContentType = m.RFC6838ContentTypeType(as.ContentType)
		st := m.NewSegmentTemplate()
		st.Media = "$RepresentationID$/$Number$.m4s"
		st.Timescale = as.TS
		st.Duration = as.Dur
		st.StartNumber = as.StartNr
		if as.HasTL {
			st.SegmentTimeline = &m.SegmentTimelineType{}
			for _, s := range as.S {
				var t *uint64
				if s.T != nil {
					v := *s.T
					t = &v
				}
				st.SegmentTimeline.S = append(st.SegmentTimeline.S, &m.S{T: t, D: s.D, R: s.R})
			}
		}
		a.SegmentTemplate = st
		p.AppendAdaptationSet(a)
	}
	mpd.AppendPeriod(p)
	return mpd
}

func runSplit(si splitIn) (status int, periods string) {
	mpd := buildMPD(si)
	defer func() {
		if r := recover(); r != nil {
			status, periods = 0, "[]"
		}
	}()
	err := app.VerifC06SplitPeriodCfg(mpd, si.SegDurMS, si.PPH, si.Mode == "tlt", si.Mode == "tlnr", si.Cont, si.StartTimeS, si.StartNr, si.StartTimeMS, si.NowMS)
	if err != nil {
		// the typed error errPeriodDuration is answered with 400 by the handler, any other error with 500
		if strings.Contains(err.Error(), "not a multiple of segment duration") {
			return 400, "[]"
		}
		return 500, "[]"
	}
	return 200, coqPeriods(mpd.Periods)
}

func genSplit(rng *rand.Rand) splitIn {
	si := splitIn{Mode: []string{"number", "tlnr", "tlt"}[rng.Intn(3)], Cont: rng.Intn(2) == 0}
	pphs := []int{0, -1, -60, 1, 2, 7, 30, 60, 120, 1800, 3600, 3601, 5000}
	var pph int
	if rng.Intn(3) == 0 {
		pph = pphs[rng.Intn(len(pphs))]
	} else {
		pph = 1 + rng.Intn(3600)
	}
	si.PPH = &pph
	segs := []int{1000, 2000, 2000, 2002, 4000, 6000, 8000, 500, 0}
	si.SegDurMS = segs[rng.Intn(len(segs))]
	if rng.Intn(2) == 0 && pph > 0 && pph <= 3600 {
		// make acceptance likely
		P := 3600 / pph
		for _, s := range []int{2000, 1000, 500} {
			if P*1000%s == 0 {
				si.SegDurMS = s
				break
			}
		}
	}
	P := 1
	if pph != 0 {
		P = 3600 / pph
	}
	if P < 0 {
		P = -P
	}
	if P == 0 {
		P = 1
	}
	base := rng.Intn(50) * P * 1000
	if rng.Intn(6) == 0 {
		base = 1700000000000 / (P * 1000) * (P * 1000)
	}
	outOfRange := pph < 1 || pph > 3600
	if outOfRange {
		// unreachable through the handler (400); keep the number of periods small
		base = rng.Intn(20) * P * 1000
	}
	switch rng.Intn(4) {
	case 0:
		si.StartTimeS = []int{30, 1000, 1600000000, 7}[rng.Intn(4)]
		if outOfRange {
			si.StartTimeS = 30
		}
	}
	switch rng.Intn(3) {
	case 0:
		v := []int{0, 1, 5, 4294967290}[rng.Intn(4)]
		si.StartNr = &v
	}
	base += si.StartTimeS * 1000
	si.StartTimeMS = base + rng.Intn(P*1000)
	si.NowMS = si.StartTimeMS + rng.Intn((3*P+1)*1000)
	switch rng.Intn(12) {
	case 0:
		si.NowMS = si.StartTimeMS - 1 - rng.Intn(2*P*1000)
	case 1:
		si.StartTimeMS -= (si.StartTimeMS - si.StartTimeS*1000) % (P * 1000)
		si.NowMS = si.StartTimeMS + P*1000*rng.Intn(3)
	}
	nAS := 1 + rng.Intn(3)
	for i := 0; i < nAS; i++ {
		as := asSpec{ContentType: []string{"video", "audio", "image", "text"}[rng.Intn(4)]}
		tss := []uint32{1, 1000, 48000, 90000, 12800}
		if rng.Intn(5) != 0 {
			v := tss[rng.Intn(len(tss))]
			as.TS = &v
		}
		ts := uint64(1)
		if as.TS != nil {
			ts = uint64(*as.TS)
		}
		segTicks := ts * uint64(1+rng.Intn(4))
		if rng.Intn(8) != 0 {
			v := uint32(segTicks)
			if rng.Intn(15) == 0 {
				v = 0
			}
			as.Dur = &v
		}
		if rng.Intn(3) != 0 {
			v := uint32(rng.Intn(2000))
			as.StartNr = &v
		}
		if rng.Intn(6) != 0 {
			as.HasTL = true
			// a timeline as generateTimelineEntries writes it: t on the first element only, covering
			// about [startTimeMS - one segment, nowMS]
			// media times are relative to availabilityStartTime, as in LiveMPD
			first := uint64(0)
			if rel := si.StartTimeMS - si.StartTimeS*1000; rel > 0 {
				first = uint64(rel) * ts / 1000 / segTicks * segTicks
			}
			end := uint64(0)
			if rel := si.NowMS - si.StartTimeS*1000; rel > 0 {
				end = uint64(rel) * ts / 1000
			}
			t := first
			nseg := 0
			for t+segTicks <= end && nseg < 400 {
				d := segTicks
				if rng.Intn(5) == 0 {
					d = segTicks + uint64(rng.Intn(3))*ts/2
				}
				if k := len(as.S); k > 0 && as.S[k-1].D == d {
					as.S[k-1].R++
				} else {
					s := sIn{D: d}
					if k == 0 || rng.Intn(10) == 0 {
						v := t
						s.T = &v
					}
					as.S = append(as.S, s)
				}
				t += d
				nseg++
			}
		}
		si.AS = append(si.AS, as)
	}
	return si
}

// oracleSplit: the rejection clause of the property, directly on splitPeriod.
func oracleSplit(c *lib.Ctx, id string, si splitIn, st int) {
	if si.PPH == nil {
		return
	}
	if pphv := *si.PPH; pphv >= 1 && pphv <= 3600 && si.SegDurMS > 0 {
		notMultiple := (3600/pphv*1000)%si.SegDurMS != 0
		if notMultiple && st != 400 {
			c.Fail(id, "reject:accepted", fmt.Sprintf("splitPeriod: period duration %d s is not a multiple of the segment duration %d ms but the result is %d", 3600/pphv, si.SegDurMS, st), c06in{Kind: "split", Split: &si})
		}
		// a $Number$ template whose own duration does not divide the period may be refused as well
		asMisaligned := false
		for _, as := range si.AS {
			if (si.Mode == "number" || as.ContentType == "image") && as.Dur != nil && *as.Dur > 0 {
				ts := int64(1)
				if as.TS != nil {
					ts = int64(*as.TS)
				}
				if (int64(3600/pphv)*ts)%int64(*as.Dur) != 0 {
					asMisaligned = true
				}
			}
		}
		if !notMultiple && st == 400 && !asMisaligned {
			c.Fail(id, "reject:rejected", fmt.Sprintf("splitPeriod: period duration %d s is a multiple of the segment duration %d ms but was rejected", 3600/pphv, si.SegDurMS), c06in{Kind: "split", Split: &si})
		}
	}
}
