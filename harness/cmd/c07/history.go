package main

// History generator: for every sampled target request r = (URL, nowMS) of every request family, one
// long-lived server instance first gets a set of NEIGHBOURS of r (the same path under every other
// value of each configuration family, the same URL at other instants, failing variants of the same
// URL, r itself, the sibling representation / asset, the /patch and /urlgen forms), then r; the
// answer to r (status, content type, body) must be the answer a FRESH instance gives that is asked
// r only. The fresh instance is a new process (package-level pools and memo tables are per
// process). The same (neighbours…, r) sequences are also run from several goroutines at once on a
// second long-lived instance.

import (
	"encoding/json"
	"fmt"
	"io"
	"math/rand"
	"net/http"
	"net/http/httptest"
	"net/url"
	"os"
	"os/exec"
	"path/filepath"
	"runtime"
	"sort"
	"strings"
	"sync"
	"sync/atomic"
	"time"

	"github.com/Dash-Industry-Forum/livesim2/cmd/livesim2/app"
	"verifharness/lib"
)

const drmConfigFile = "/repo/pkg/drm/testdata/drm_config_test.json"

// altAsset: bundled asset whose segments alternate between 4 s and 8 s (12 s loop, $Time$ addressing):
// its MPD and patches change off the grid of the nominal segment duration.
const altAsset = "testpic_alt_seg_dur_stl"

// option families in the order in which their parts are put into the URL
var optOrder = []string{"patch", "session", "presentation", "mode", "numbering", "ato", "chunk", "periods", "timesubs", "fault", "protection"}

type target struct {
	Family string            `json:"family"`
	Asset  string            `json:"asset"`
	Opts   map[string]string `json:"opts"`
	Rest   string            `json:"rest"` // path below the asset
	NowMS  int64             `json:"now_ms"`
	Query  string            `json:"query,omitempty"` // extra query (patch: publishTime=…)
	Patch  bool              `json:"patch,omitempty"`
	// AsDate: the instant is given as ?nowDate= (the handler adds 1 ms to a date, so the date is the
	// instant minus 1 ms; written without a fraction when that is a whole second)
	AsDate bool `json:"as_date,omitempty"`
}

func (t target) with(f, v string) target {
	o := map[string]string{}
	for k, x := range t.Opts {
		o[k] = x
	}
	o[f] = v
	t.Opts = o
	return t
}

func (t target) url() string {
	var sb strings.Builder
	if t.Patch {
		sb.WriteString("/patch")
	}
	sb.WriteString("/livesim2/")
	for _, f := range optOrder {
		sb.WriteString(t.Opts[f])
	}
	sb.WriteString(t.Asset + "/" + t.Rest + "?")
	if t.Query != "" {
		sb.WriteString(t.Query + "&")
	}
	if t.AsDate {
		d := time.UnixMilli(t.NowMS - 1).UTC()
		layout := "2006-01-02T15:04:05.000Z"
		if (t.NowMS-1)%1000 == 0 {
			layout = "2006-01-02T15:04:05Z"
		}
		sb.WriteString("nowDate=" + url.QueryEscape(d.Format(layout)))
		return sb.String()
	}
	fmt.Fprintf(&sb, "nowMS=%d", t.NowMS)
	return sb.String()
}

type historyEnv struct {
	root        string
	drmPkgs     []string
	alts        map[string][]string
	cleanup     func()
	prep        *lib.Livesim
	segMS       map[string]int64
	reps        map[string]map[string]*lib.TLRep
	hasDRM      bool
	kindList    []string
	pause       map[string]int   // URL -> pause between servings in its fresh processes
	sink        *httptest.Server // destination of CMAF-ingest sessions started through the REST API
	sinkHits    atomic.Int64
	sessionNs   atomic.Int64
	sessions    atomic.Int64
	allSessions bool // thorough tier: an API session in front of every target
}

func serverMod(env *historyEnv) func(cfg *app.ServerConfig) {
	return func(cfg *app.ServerConfig) {
		if env.hasDRM {
			cfg.DrmCfgFile = drmConfigFile
		}
	}
}

func newHistoryEnv() (*historyEnv, error) {
	root, cleanup, err := lib.ScratchDir("c07-history")
	if err != nil {
		return nil, err
	}
	env := &historyEnv{root: root, segMS: map[string]int64{}, reps: map[string]map[string]*lib.TLRep{}, pause: map[string]int{}}
	env.sink = httptest.NewServer(http.HandlerFunc(func(w http.ResponseWriter, r *http.Request) {
		_, _ = io.Copy(io.Discard, r.Body)
		env.sinkHits.Add(1)
		w.WriteHeader(http.StatusOK)
	}))
	rmScratch := cleanup
	env.cleanup = func() {
		env.sink.Close()
		rmScratch()
	}
	cleanup = env.cleanup
	if err := os.CopyFS(filepath.Join(root, altAsset), os.DirFS(filepath.Join(lib.TestVodRoot, altAsset))); err != nil {
		cleanup()
		return nil, err
	}
	for _, a := range []string{"testpic_2s", "testpic_8s"} {
		if err := os.CopyFS(filepath.Join(root, a), os.DirFS(filepath.Join(lib.TestVodRoot, a))); err != nil {
			cleanup()
			return nil, err
		}
		env.reps[a] = map[string]*lib.TLRep{}
		for _, id := range []string{"V300", "A48"} {
			vr, trex, err := lib.LoadVodRep(filepath.Join(root, a, id), id)
			if err != nil {
				cleanup()
				return nil, err
			}
			env.reps[a][id] = &lib.TLRep{VodRep: vr, Trex: trex, Ext: ".m4s"}
		}
		v := env.reps[a]["V300"]
		env.segMS[a] = 1000 * (v.Segs[0].End - v.Segs[0].Start) / v.Timescale
	}
	if data, err := os.ReadFile(drmConfigFile); err == nil {
		var cfg struct {
			Packages []struct {
				Name string `json:"name"`
			} `json:"packages"`
		}
		if json.Unmarshal(data, &cfg) == nil {
			for _, p := range cfg.Packages {
				env.drmPkgs = append(env.drmPkgs, p.Name)
			}
		}
	}
	env.hasDRM = len(env.drmPkgs) > 0
	env.segMS[altAsset] = 4000
	prot := []string{"", "eccp_cbcs/", "eccp_cenc/"}
	for _, p := range env.drmPkgs {
		prot = append(prot, "drm_"+p+"/")
	}
	env.alts = map[string][]string{
		"protection":   prot,
		"chunk":        {"", "chunkdur_0.5/ato_1.5/"},
		"ato":          {"", "ato_1/", "ato_2.5/", "ato_inf/"},
		"numbering":    {"", "snr_7/", "start_1000/", "tsbd_30/"},
		"session":      {"", "stoprel_20/", "startrel_-60/stoprel_-10/"},
		"presentation": {"", "spd_10/", "mup_2/", "spd_10/mup_2/"},
		"fault":        {"", "statuscode_[{cycle:30,rsq:1,code:404}]/", "traffic_u50d1/"},
		"periods":      {"", "periods_60/", "periods_60/continuous_1/"},
		"timesubs":     {"", "timesubsstpp_en,sv/", "timesubswvtt_en/"},
		"mode":         {"", "segtimeline_1/", "segtimelinenr_1/"},
	}
	env.kindList = []string{"session", "presentation", "protection", "chunk", "ato", "numbering", "fault", "periods", "timesubs", "mode", "time", "time-backwards", "instant-form", "api-session", "error", "repeat", "sibling", "form"}
	env.prep, err = lib.NewLivesim(root, serverMod(env))
	if err != nil {
		cleanup()
		return nil, err
	}
	return env, nil
}

// targets: one request of every family for the asset at the instant.
func (env *historyEnv) targets(asset string, now int64) []target {
	seg := env.segMS[asset]
	n := now/seg - 2
	v, a := env.reps[asset]["V300"], env.reps[asset]["A48"]
	_ = a
	mk := func(fam string, opts map[string]string, rest string) target {
		if opts == nil {
			opts = map[string]string{}
		}
		return target{Family: fam, Asset: asset, Opts: opts, Rest: rest, NowMS: now}
	}
	ts := []target{
		mk("mpd-number", nil, "Manifest.mpd"),
		mk("mpd-timeline-time", map[string]string{"mode": "segtimeline_1/"}, "Manifest.mpd"),
		mk("mpd-timeline-number", map[string]string{"mode": "segtimelinenr_1/"}, "Manifest.mpd"),
		mk("mpd-multi-period", map[string]string{"periods": "periods_60/"}, "Manifest.mpd"),
		mk("mpd-timesubs", map[string]string{"timesubs": "timesubsstpp_en,sv/"}, "Manifest.mpd"),
		mk("mpd-timeline-time-ato", map[string]string{"mode": "segtimeline_1/", "ato": "ato_1/"}, "Manifest.mpd"),
		mk("mpd-timeline-number-ato", map[string]string{"mode": "segtimelinenr_1/", "ato": "ato_1/"}, "Manifest.mpd"),
		mk("mpd-tsbd", map[string]string{"mode": "segtimeline_1/", "numbering": "tsbd_7/"}, "Manifest.mpd"),
		mk("media-video-gone", nil, fmt.Sprintf("V300/%d.m4s", n-200)),
		mk("media-audio-gone", nil, fmt.Sprintf("A48/%d.m4s", n-200)),
		mk("media-video-early", nil, fmt.Sprintf("V300/%d.m4s", n+50)),
		mk("init-video", nil, "V300/init.mp4"),
		mk("init-audio", nil, "A48/init.mp4"),
		mk("media-video-number", nil, fmt.Sprintf("V300/%d.m4s", n)),
		mk("media-audio-number", nil, fmt.Sprintf("A48/%d.m4s", n)),
		mk("media-video-time", map[string]string{"mode": "segtimeline_1/"}, fmt.Sprintf("V300/%d.m4s", v.LoopS(n))),
		mk("media-multi-period", map[string]string{"periods": "periods_60/"}, fmt.Sprintf("V300/%d.m4s", n)),
		mk("media-chunked", map[string]string{"chunk": "chunkdur_0.5/ato_1.5/"}, fmt.Sprintf("V300/%d.m4s", n)),
		mk("eccp-init", map[string]string{"protection": "eccp_cbcs/"}, "V300/init.mp4"),
		mk("eccp-media", map[string]string{"protection": "eccp_cenc/"}, fmt.Sprintf("A48/%d.m4s", n)),
		mk("timesubs-init", map[string]string{"timesubs": "timesubsstpp_en,sv/"}, "timestpp-en/init.mp4"),
		mk("timesubs-media", map[string]string{"timesubs": "timesubsstpp_en,sv/"}, fmt.Sprintf("timestpp-sv/%d.m4s", n)),
		mk("timesubs-wvtt-media", map[string]string{"timesubs": "timesubswvtt_en/"}, fmt.Sprintf("timewvtt-en/%d.m4s", n)),
	}
	if asset == "testpic_2s" {
		ts = append(ts,
			mk("media-stpp", nil, fmt.Sprintf("imsc1_txt_sv/%d.m4s", n)),
			mk("mpd-thumbnails", nil, "Manifest_thumbs.mpd"),
			mk("thumbnail", nil, fmt.Sprintf("thumbs/%d.jpg", n)))
	}
	for _, p := range env.drmPkgs {
		o := map[string]string{"protection": "drm_" + p + "/"}
		ts = append(ts, mk("drm-mpd", o, "Manifest.mpd"), mk("drm-init-video", o, "V300/init.mp4"), mk("drm-init-audio", o, "A48/init.mp4"),
			mk("drm-media", o, fmt.Sprintf("V300/%d.m4s", n)))
	}
	// audio addressed by $Time$: a time the MPD lists
	if o := lib.ObserveMPD(env.prep.Get(mk("x", map[string]string{"mode": "segtimeline_1/"}, "Manifest.mpd").url())); o != nil && len(o.Periods) > 0 {
		for _, as := range o.Periods[0].AS {
			if as.ContentType == "audio" && len(as.Timeline) > 1 {
				ts = append(ts, mk("media-audio-time", map[string]string{"mode": "segtimeline_1/"}, fmt.Sprintf("A48/%d.m4s", as.Timeline[len(as.Timeline)-2].T)))
			}
		}
	}
	// options that are relative to the request instant, and a shifted clock
	rel := func(fam string, opts map[string]string, rest string, at int64) {
		t := mk(fam, opts, rest)
		t.NowMS = at
		ts = append(ts, t)
	}
	whole := (now/1000)*1000 + 1 // nowDate without a fraction
	rel("mpd-startrel-stoprel", map[string]string{"session": "startrel_-20/stoprel_20/", "mode": "segtimeline_1/"}, "Manifest.mpd", now)
	rel("mpd-startrel-whole-second", map[string]string{"session": "startrel_-30/", "mode": "segtimelinenr_1/"}, "Manifest.mpd", whole)
	rel("mpd-stoprel-past", map[string]string{"session": "startrel_-60/stoprel_-10/"}, "Manifest.mpd", now)
	rel("mpd-timeoffset", map[string]string{"session": "timeoffset_-1.5/", "mode": "segtimeline_1/"}, "Manifest.mpd", now)
	rel("media-startrel", map[string]string{"session": "startrel_-20/"}, "V300/3.m4s", now)
	rel("media-timeoffset", map[string]string{"session": "timeoffset_2/"}, fmt.Sprintf("V300/%d.m4s", n), now)
	// refused requests are responses too: the same status and body whenever and wherever they are asked
	bad := func(fam string, opts map[string]string, rest string) { ts = append(ts, mk("error-"+fam, opts, rest)) }
	bad("bad-value", map[string]string{"numbering": "tsbd_x/"}, "Manifest.mpd")
	bad("bad-value-media", map[string]string{"ato": "ato_minus/"}, fmt.Sprintf("V300/%d.m4s", n))
	bad("unknown-option", map[string]string{"numbering": "nosuchoption_1/"}, "Manifest.mpd")
	bad("stop-before-start", map[string]string{"session": "start_100/stop_50/"}, "Manifest.mpd")
	bad("stop-before-start-media", map[string]string{"session": "start_100/stop_50/"}, fmt.Sprintf("V300/%d.m4s", n))
	bad("stoprel-before-startrel", map[string]string{"session": "startrel_-20/stoprel_-40/"}, "Manifest.mpd")
	bad("before-start", map[string]string{"session": fmt.Sprintf("start_%d/", now/1000+3600)}, "Manifest.mpd")
	bad("after-stop-media", map[string]string{"session": fmt.Sprintf("stop_%d/", now/1000-3600)}, fmt.Sprintf("V300/%d.m4s", n))
	bad("unknown-mpd", nil, "Nosuch.mpd")
	bad("unknown-rep", nil, fmt.Sprintf("nosuchrep/%d.m4s", n))
	bad("unknown-init", nil, "nosuchrep/init.mp4")
	bad("segment-not-a-number", nil, "V300/abc.m4s")
	bad("unknown-drm", map[string]string{"protection": "drm_nosuchpackage/"}, "V300/init.mp4")
	bad("unknown-eccp-scheme", map[string]string{"protection": "eccp_xyz/"}, fmt.Sprintf("V300/%d.m4s", n))
	bad("bad-statuscode", map[string]string{"fault": "statuscode_[{cycle:0}]/"}, fmt.Sprintf("V300/%d.m4s", n))
	bad("bad-periods", map[string]string{"periods": "periods_0/"}, "Manifest.mpd")
	bad("unknown-subtitle-language", map[string]string{"timesubs": "timesubsstpp_en/"}, fmt.Sprintf("timestpp-xx/%d.m4s", n))
	{
		ua := mk("error-unknown-asset", nil, "Manifest.mpd")
		ua.Asset = asset + "_nosuch"
		pp := mk("error-patch-without-publishtime", map[string]string{"patch": "patch_60/", "mode": "segtimeline_1/"}, "Manifest.mpp")
		pp.Patch = true
		pb := mk("error-patch-bad-publishtime", map[string]string{"patch": "patch_60/", "mode": "segtimeline_1/"}, "Manifest.mpp")
		pb.Patch, pb.Query = true, "publishTime=yesterday"
		pm := mk("error-patch-of-a-segment", map[string]string{"patch": "patch_60/"}, fmt.Sprintf("V300/%d.m4s", n))
		pm.Patch, pm.Query = true, "publishTime=1970-01-01T00:00:10Z"
		ts = append(ts, ua, pp, pb, pm)
	}
	// the end of a time-limited session lies between the old publishTime and now: the MPD turns static
	stopS := (now - 3000) / 1000
	sess := map[string]string{"session": fmt.Sprintf("stop_%d/", stopS), "presentation": "spd_10/", "mode": "segtimeline_1/"}
	ts = append(ts, mk("mpd-after-stop", sess, "Manifest.mpd"), mk("mpd-presentation-options", map[string]string{"presentation": "spd_10/mup_2/", "mode": "segtimelinenr_1/"}, "Manifest.mpd"))
	patchOf := func(fam string, opts map[string]string, oldNow, newNow int64) {
		o2 := map[string]string{"patch": "patch_60/"}
		for k, v := range opts {
			o2[k] = v
		}
		old := mk("x", o2, "Manifest.mpd")
		old.NowMS = oldNow
		if o := lib.ObserveMPD(env.prep.Get(old.url())); o != nil && o.PatchLocation != "" {
			if i := strings.Index(o.PatchLocation, "?"); i >= 0 {
				t := mk(fam, o2, "Manifest.mpp")
				t.Patch, t.Query, t.NowMS = true, strings.ReplaceAll(o.PatchLocation[i+1:], "&amp;", "&"), newNow
				ts = append(ts, t)
			}
		}
	}
	patchOf("patch-across-stop", sess, now-12000, now)
	patchOf("patch-across-stop-timeline-number", map[string]string{"session": fmt.Sprintf("stop_%d/", stopS), "mode": "segtimelinenr_1/"}, now-12000, now)
	patchOf("patch-presentation-options", map[string]string{"presentation": "spd_10/mup_2/", "mode": "segtimeline_1/"}, now-12000, now)
	// a period boundary (every full minute with periods_60) between the old publishTime and now
	minute := (now/60000)*60000 + 60000
	patchOf("patch-across-period", map[string]string{"periods": "periods_60/", "mode": "segtimeline_1/"}, minute-7000, minute+5000)
	// patch: the location announced 12 s earlier, asked now
	for _, mode := range []string{"segtimeline_1/", "segtimelinenr_1/"} {
		old := mk("x", map[string]string{"patch": "patch_60/", "mode": mode}, "Manifest.mpd")
		old.NowMS = now - 12000
		if o := lib.ObserveMPD(env.prep.Get(old.url())); o != nil && o.PatchLocation != "" {
			if i := strings.Index(o.PatchLocation, "?"); i >= 0 {
				q := strings.ReplaceAll(o.PatchLocation[i+1:], "&amp;", "&")
				t := mk("patch", map[string]string{"patch": "patch_60/", "mode": mode}, "Manifest.mpp")
				t.Patch, t.Query = true, q
				ts = append(ts, t)
			}
		}
	}
	return ts
}

// targetsAlt: MPD and patch requests for the asset with alternating segment durations.
func (env *historyEnv) targetsAlt(now int64) []target {
	mk := func(fam string, opts map[string]string) target {
		return target{Family: fam, Asset: altAsset, Opts: opts, Rest: "Manifest.mpd", NowMS: now}
	}
	ts := []target{
		mk("mpd-varying-durations", map[string]string{"mode": "segtimeline_1/"}),
		mk("mpd-varying-durations-timeline-number", map[string]string{"mode": "segtimelinenr_1/"}),
		mk("mpd-varying-durations-ato", map[string]string{"mode": "segtimeline_1/", "ato": "ato_1/"}),
	}
	for _, back := range []int64{3000, 9000} {
		for _, mode := range []string{"segtimeline_1/", "segtimelinenr_1/"} {
			old := mk("x", map[string]string{"patch": "patch_60/", "mode": mode})
			old.NowMS = now - back
			if o := lib.ObserveMPD(env.prep.Get(old.url())); o != nil && o.PatchLocation != "" {
				if i := strings.Index(o.PatchLocation, "?"); i >= 0 {
					t := mk("patch-varying-durations", map[string]string{"patch": "patch_60/", "mode": mode})
					t.Rest, t.Patch, t.Query = "Manifest.mpp", true, strings.ReplaceAll(o.PatchLocation[i+1:], "&amp;", "&")
					ts = append(ts, t)
				}
			}
		}
	}
	return ts
}

func swapRep(rest string) (string, bool) {
	switch {
	case strings.HasPrefix(rest, "V300/"):
		return "A48/" + strings.TrimPrefix(rest, "V300/"), true
	case strings.HasPrefix(rest, "A48/"):
		return "V300/" + strings.TrimPrefix(rest, "A48/"), true
	}
	return rest, false
}

// neighbours of t of one kind, as URLs.
func (env *historyEnv) neighbours(t target, kind string) []string {
	var out []string
	switch kind {
	case "time", "time-backwards": // the same URL at other instants, oldest first / newest first
		loop := int64(8000)
		ds := []int64{-env.segMS[t.Asset], env.segMS[t.Asset], -loop, 10 * loop, -3_600_000, 3_600_000,
			-1, -env.segMS[t.Asset] / 4, -env.segMS[t.Asset] / 2, -3 * env.segMS[t.Asset] / 4, env.segMS[t.Asset] / 4,
			-1000, -2000, -3000, 1000}
		// a $Number$ media request: also the instant at which that segment is the newest one
		var nr int64
		if _, err := fmt.Sscanf(filepath.Base(t.Rest), "%d.", &nr); err == nil && t.Opts["mode"] == "" && nr > 0 && nr < 1<<40 {
			ds = append(ds, (nr+2)*env.segMS[t.Asset]+env.segMS[t.Asset]/4-t.NowMS)
		}
		// "time": the later instants first, then the earlier ones oldest first, so that the target is
		// approached from the past (the last neighbours lie just before it, in the same segment
		// interval); "time-backwards": approached from the future.
		var before, after []int64
		for _, d := range ds {
			if d < 0 {
				before = append(before, d)
			} else if d > 0 {
				after = append(after, d)
			}
		}
		sort.Slice(before, func(i, j int) bool { return before[i] < before[j] })
		sort.Slice(after, func(i, j int) bool { return after[i] > after[j] })
		ds = append(append([]int64{}, after...), before...)
		if kind == "time-backwards" {
			ds = append(append([]int64{}, before...), after...)
		}
		for _, d := range ds {
			x := t
			x.NowMS = t.NowMS + d
			if x.NowMS >= 0 && d != 0 {
				out = append(out, x.url())
			}
		}
	case "error":
		a := t
		a.Asset = t.Asset + "_nosuch"
		b := t
		if strings.HasSuffix(t.Rest, ".mpd") || strings.HasSuffix(t.Rest, ".mpp") {
			b.Rest = "Nosuch" + filepath.Ext(t.Rest)
		} else {
			b.Rest = "nosuchrep/" + filepath.Base(t.Rest)
		}
		c := t.with("numbering", fmt.Sprintf("start_%d/", t.NowMS/1000+3600))
		d := t.with("numbering", "tsbd_x/")
		e := t.with("protection", "drm_nosuchpackage/")
		out = append(out, a.url(), b.url(), c.url(), d.url(), e.url())
	case "api-session": // the other entry points into the same code, on the same instance
		x := t
		x.Patch, x.Query, x.AsDate, x.Rest = false, "", false, "Manifest.mpd"
		x = x.with("patch", "").with("chunk", "").with("fault", "").with("session", "")
		// generated subtitles in the session (also together with a SegmentTimeline mode: the crash of
		// such sessions was repaired by fix commit dc9fc5d)
		if x.Opts["timesubs"] == "" {
			x = x.with("timesubs", []string{"timesubsstpp_en,sv/", "timesubswvtt_en/"}[len(t.Family)%2])
		}
		lu := x.url()
		lu = lu[:strings.Index(lu, "?")]
		out = append(out, fmt.Sprintf("api-session:%s|%d|%d", lu, t.NowMS, env.segMS[t.Asset]), "/reqcount", "/urlgen/create?asset="+t.Asset+"&mpd=Manifest.mpd", "/api/cmaf-ingests/1")
	case "instant-form": // the same instant, given as a date
		if !t.AsDate {
			x := t
			x.AsDate = true
			out = append(out, x.url())
		}
	case "repeat": // map-iteration nondeterminism needs several tries to show
		for k := 0; k < 5; k++ {
			out = append(out, t.url())
		}
	case "sibling":
		if r, ok := swapRep(t.Rest); ok {
			x := t
			x.Rest = r
			out = append(out, x.url())
		}
		x := t
		if t.Asset == "testpic_2s" {
			x.Asset = "testpic_8s"
		} else {
			x.Asset = "testpic_2s"
		}
		out = append(out, x.url())
	case "form":
		m := t
		m.Patch, m.Query = false, ""
		m.Rest = "Manifest.mpd"
		p := t.with("patch", "patch_60/")
		p.Patch, p.Rest = true, "Manifest.mpp"
		if p.Query == "" {
			p.Query = "publishTime=1970-01-01T00:00:10Z"
		}
		if t.Patch {
			out = append(out, m.url())
		} else {
			out = append(out, p.url())
			if !strings.HasSuffix(t.Rest, ".mpd") {
				out = append(out, m.url())
			}
		}
		out = append(out, "/urlgen/create?asset="+t.Asset+"&mpd=Manifest.mpd&stl=tlt&patch-ttl=60", "/urlgen/mpds?asset="+t.Asset, "/urlgen/drms?asset="+t.Asset, "/assets")
	default:
		for _, v := range env.alts[kind] {
			if v != t.Opts[kind] {
				out = append(out, t.with(kind, v).url())
			}
		}
	}
	return out
}

// variants: up to four requests of the family of t (earlier instants, with the addressed $Number$
// moved along; the other subtitle language).
func (env *historyEnv) variants(t target) []target {
	out := []target{t}
	seg := env.segMS[t.Asset]
	var nr int64
	hasNr := false
	if _, err := fmt.Sscanf(filepath.Base(t.Rest), "%d.", &nr); err == nil && t.Opts["mode"] == "" {
		hasNr = true
	}
	for k := int64(1); k <= 3; k++ {
		x := t
		x.NowMS = t.NowMS - k*seg
		if x.NowMS < 0 {
			break
		}
		if hasNr && nr-k >= 0 {
			x.Rest = filepath.Dir(t.Rest) + "/" + fmt.Sprintf("%d", nr-k) + filepath.Ext(t.Rest)
		}
		if k%2 == 1 {
			switch {
			case strings.HasPrefix(x.Rest, "timestpp-sv/"):
				x.Rest = "timestpp-en/" + strings.TrimPrefix(x.Rest, "timestpp-sv/")
			case strings.HasPrefix(x.Rest, "timestpp-en/"):
				x.Rest = "timestpp-sv/" + strings.TrimPrefix(x.Rest, "timestpp-en/")
			}
		}
		if t.Patch {
			continue // the publishTime of a patch request belongs to its instant
		}
		out = append(out, x)
	}
	return out
}

// serveReq: a request of a history. "api-session:<livesim URL>|<nowMS>|<segment ms>" is not a GET
// but a whole CMAF-ingest session through the REST API on the same instance (see apiSession).
func (env *historyEnv) serveReq(ls *lib.Livesim, u string) proj {
	if strings.HasPrefix(u, "api-session:") {
		parts := strings.Split(strings.TrimPrefix(u, "api-session:"), "|")
		var now, seg int64
		fmt.Sscan(parts[1], &now)
		fmt.Sscan(parts[2], &seg)
		env.apiSession(ls, parts[0], now, seg)
		return proj{}
	}
	return project(ls.Get(u))
}

// apiSession: POST /api/cmaf-ingests for the URL in step mode (testNowMS) with a duration of two
// segments, the three steps that send its segments up to the last one, then DELETE. The same code
// that answers HTTP requests produces the segments of the session.
func (env *historyEnv) apiSession(ls *lib.Livesim, livesimURL string, nowMS, segMS int64) {
	t0 := time.Now()
	defer func() { env.sessionNs.Add(int64(time.Since(t0))); env.sessions.Add(1) }()
	body := fmt.Sprintf(`{"destRoot":%q,"destName":"c07","livesimURL":%q,"testNowMS":%d,"duration":%d}`, env.sink.URL, livesimURL, nowMS, 2*segMS/1000)
	r := ls.Do("POST", "/api/cmaf-ingests", strings.NewReader(body), map[string]string{"Content-Type": "application/json"})
	var cr struct {
		ID string `json:"id"`
	}
	if r.Status/100 != 2 || json.Unmarshal(r.Body, &cr) != nil || cr.ID == "" {
		return
	}
	for k := 0; k < 3; k++ {
		stepped := make(chan struct{})
		go func() {
			_ = ls.Do("GET", "/api/cmaf-ingests/"+cr.ID+"/step", nil, nil)
			close(stepped)
		}()
		select {
		case <-stepped:
		case <-time.After(300 * time.Millisecond): // a step blocks for ever when the session has ended early
			k = 3
		}
	}
	// the last segments are on their way: wait until the destination has been quiet for a moment
	for i, last := 0, int64(-1); i < 50; i++ {
		h := env.sinkHits.Load()
		if h == last {
			break
		}
		last = h
		time.Sleep(10 * time.Millisecond)
	}
	_ = ls.Do("GET", "/api/cmaf-ingests/"+cr.ID, nil, nil)
	_ = ls.Do("DELETE", "/api/cmaf-ingests/"+cr.ID, nil, nil)
}

type history struct {
	Target target   `json:"target"`
	Kind   string   `json:"neighbour_kind"`
	Reqs   []string `json:"requests"` // neighbours…, then the target URL
}

func (env *historyEnv) histories(ts []target) []history {
	var hs []history
	for _, t := range ts {
		for _, k := range env.kindList {
			if strings.HasPrefix(t.Family, "error-") && k != "repeat" && k != "time" && k != "sibling" && k != "form" && k != "protection" && k != "instant-form" {
				continue // refused requests: repeats, other instants, siblings, other forms, other protection
			}
			if k == "api-session" && !env.allSessions && !strings.Contains(t.Family, "subs") && !strings.Contains(t.Family, "stpp") && len(hs)%3 != 0 {
				continue
			}
			nb := env.neighbours(t, k)
			if len(nb) == 0 {
				continue
			}
			hs = append(hs, history{Target: t, Kind: k, Reqs: append(nb, t.url())})
		}
	}
	return hs
}

// ---------------------------------------------------------------- fresh instances (one process each)

type refIn struct {
	Root string `json:"root"`
	DRM  bool   `json:"drm"`
	URL  string `json:"url"`
	// PauseMS: wait so long between the second and the third serving (a wall-clock leak shows)
	PauseMS int `json:"pause_ms,omitempty"`
}

func refChild(args []string) {
	lib.QuietLogs()
	var in refIn
	if err := json.Unmarshal([]byte(args[0]), &in); err != nil {
		fmt.Fprintln(os.Stderr, "refchild:", err)
		os.Exit(3)
	}
	ls, err := lib.NewLivesim(in.Root, func(cfg *app.ServerConfig) {
		if in.DRM {
			cfg.DrmCfgFile = drmConfigFile
		}
	})
	if err != nil {
		fmt.Fprintln(os.Stderr, "refchild:", err)
		os.Exit(3)
	}
	var ps []proj
	for k := 0; k < 4; k++ {
		if k == 2 && in.PauseMS > 0 {
			time.Sleep(time.Duration(in.PauseMS) * time.Millisecond)
		}
		ps = append(ps, project(ls.Get(in.URL)))
	}
	data, _ := json.Marshal(ps)
	fmt.Println("C07REF " + string(data))
}

// freshAnswers asks every URL of a brand-new server in a brand-new process.
// childEnv: "which server instance answers" includes the environment its process runs in. Process 0
// inherits the harness's environment; the others get another time zone, locale, working directory
// and number of processors.
func childEnv(cmd *exec.Cmd, k int, root string) string {
	variants := [][]string{
		nil,
		{"TZ=Asia/Kolkata", "LANG=sv_SE.UTF-8", "LC_ALL=sv_SE.UTF-8", "GOMAXPROCS=2"},
		{"TZ=America/Los_Angeles", "LANG=C", "LC_ALL=C", "GOMAXPROCS=1"},
		{"TZ=Europe/Stockholm", "LANG=ja_JP.UTF-8", "LC_ALL=ja_JP.UTF-8", "GOMAXPROCS=64"},
	}
	v := variants[k%len(variants)]
	if v == nil {
		return "environment of the harness"
	}
	cmd.Env = append(os.Environ(), v...)
	if k%2 == 1 {
		cmd.Dir = os.TempDir()
	} else {
		cmd.Dir = root
	}
	return strings.Join(v, " ") + " cwd=" + cmd.Dir
}

func freshAnswers(env *historyEnv, urls []string) (map[string]proj, error) {
	out, _, err := freshAnswersN(env, urls, 1)
	return out, err
}

// freshAnswersN: `procs` fresh processes per URL, each asking the URL four times. unstable lists the
// URLs whose answers were not all identical (the property: identical requests, identical bytes).
func freshAnswersN(env *historyEnv, urls []string, procs int) (out map[string]proj, unstable map[string]string, err error) {
	exe, err := os.Executable()
	if err != nil {
		return nil, nil, err
	}
	out, unstable = map[string]proj{}, map[string]string{}
	var mu sync.Mutex
	var firstErr error
	var wg sync.WaitGroup
	type job struct {
		u string
		k int
	}
	work := make(chan job, len(urls)*procs)
	for k := 0; k < procs; k++ {
		for _, u := range urls {
			work <- job{u, k}
		}
	}
	close(work)
	for k := 0; k < 12; k++ {
		wg.Add(1)
		go func() {
			defer wg.Done()
			for j := range work {
				u := j.u
				arg, _ := json.Marshal(refIn{Root: env.root, DRM: env.hasDRM, URL: u, PauseMS: env.pause[u]})
				cmd := exec.Command(exe, "refchild", string(arg))
				envName := childEnv(cmd, j.k, env.root)
				res, err := cmd.Output()
				var ps []proj
				ok := false
				for _, line := range strings.Split(string(res), "\n") {
					if strings.HasPrefix(line, "C07REF ") {
						ok = json.Unmarshal([]byte(line[len("C07REF "):]), &ps) == nil && len(ps) > 0
					}
				}
				mu.Lock()
				if err != nil || !ok {
					if firstErr == nil {
						firstErr = fmt.Errorf("fresh instance for %s: %v", u, err)
					}
				} else {
					if _, have := out[u]; !have {
						out[u] = ps[0]
					}
					for i, p := range ps {
						if p != out[u] && unstable[u] == "" {
							unstable[u] = fmt.Sprintf("fresh process %d (%s), serving %d: %v; another serving: %v", j.k, envName, i, p, out[u])
						}
					}
				}
				mu.Unlock()
			}
		}()
	}
	wg.Wait()
	return out, unstable, firstErr
}

// ---------------------------------------------------------------- run

// runHistories: sequentially on one long-lived instance, then concurrently on another.
func runHistories(c *lib.Ctx) (int, error) {
	env, err := newHistoryEnv()
	if err != nil {
		return 0, err
	}
	defer env.cleanup()
	rng := rand.New(rand.NewSource(c.Seed + 11))
	type spec struct {
		asset string
		now   int64
	}
	specs := []spec{{"testpic_2s", 100000 + 2000*rng.Int63n(500) + 1050 + rng.Int63n(900)}}
	if c.Thorough() {
		specs = append(specs, spec{"testpic_8s", 400000 + 8000*rng.Int63n(100) + 7100 + rng.Int63n(800)}, spec{"testpic_2s", 1_700_000_000_000 + 2000*rng.Int63n(1000) + rng.Int63n(2000)},
			spec{"testpic_2s", 50000 + 2000*rng.Int63n(20) + 1500}, spec{"testpic_8s", 1_600_000_000_000 + 8000*rng.Int63n(1000) + rng.Int63n(8000)})
	}
	var ts []target
	for _, s := range specs {
		ts = append(ts, env.targets(s.asset, s.now)...)
	}
	// the asset with 4 s / 8 s segments: shortly after each of the two segment ends of a 12 s loop
	loops := []int64{100 + rng.Int63n(1000)}
	if c.Thorough() {
		loops = append(loops, 1000+rng.Int63n(100000), 141_666_666+rng.Int63n(1000))
	}
	for _, k := range loops {
		for _, phase := range []int64{4500, 8500, 500} {
			ts = append(ts, env.targetsAlt(k*12000+phase)...)
		}
	}
	env.allSessions = c.Thorough()
	hs := env.histories(ts)
	var urls []string
	seen := map[string]bool{}
	for _, t := range ts {
		if u := t.url(); !seen[u] {
			seen[u] = true
			urls = append(urls, u)
		}
	}
	// the instant in its other form: ?nowDate= instead of ?nowMS=
	dateOf := map[string]string{}
	var dateURLs []string
	for _, t := range ts {
		d := t
		d.AsDate = true
		du := d.url()
		dateOf[t.url()] = du
		if !seen[du] {
			seen[du] = true
			dateURLs = append(dateURLs, du)
		}
		// a real second between identical requests: everywhere in the thorough tier, for the
		// instant-relative options and a sample of the rest in the quick tier
		if c.Thorough() || t.Opts["session"] != "" || t.Patch {
			env.pause[du] = 1100
			if c.Thorough() || t.Opts["session"] != "" {
				env.pause[t.url()] = 1100
			}
		}
	}
	procs := 2
	if c.Thorough() {
		procs = 4
	}
	fresh, unstable, err := freshAnswersN(env, urls, procs)
	if err != nil {
		return 0, err
	}
	dfresh, dunstable, err := freshAnswersN(env, dateURLs, procs/2)
	if err != nil {
		return 0, err
	}
	for u, p := range dfresh {
		fresh[u] = p
	}
	for u, w := range dunstable {
		unstable[u] = w
	}
	for _, u := range urls {
		c.Count(fmt.Sprintf("history-target-status:%d", fresh[u].Status))
	}
	for _, t := range ts {
		du := dateOf[t.url()]
		if why, bad := unstable[du]; bad {
			d := t
			d.AsDate = true
			c.Fail("history:"+du, "history:"+t.Family+":repeat-fresh", fmt.Sprintf("%s asked repeatedly of fresh instances (a real second apart): %s", du, why),
				c07in{Kind: "history", URL: du, Mode: "repeat-fresh", History: &history{Target: d, Kind: "repeat-fresh", Reqs: []string{du, du}}})
			delete(unstable, du)
		} else if fresh[du] != fresh[t.url()] {
			c.Fail("history:"+du, "history:"+t.Family+":instant-form", fmt.Sprintf("the same request with the instant as a date and as milliseconds, each asked of a fresh instance: %s -> %v; %s -> %v", du, fresh[du], t.url(), fresh[t.url()]),
				c07in{Kind: "history", URL: t.url(), Mode: "instant-form", History: &history{Target: t, Kind: "instant-form", Reqs: []string{du, t.url()}}})
		}
		c.Count("history:" + t.Family + ":instant-form-fresh")
	}
	for _, t := range ts {
		if why, bad := unstable[t.url()]; bad {
			c.Fail("history:"+t.url(), "history:"+t.Family+":repeat-fresh", fmt.Sprintf("%s asked repeatedly of fresh instances (nothing else served): %s", t.url(), why),
				c07in{Kind: "history", URL: t.url(), Mode: "repeat-fresh", History: &history{Target: t, Kind: "repeat-fresh", Reqs: []string{t.url(), t.url(), t.url(), t.url(), t.url(), t.url()}}})
			delete(unstable, t.url())
		}
	}
	t0 := time.Now()
	lap := func(name string) {
		c.Res.Notes = append(c.Res.Notes, fmt.Sprintf("histories/%s: %.1fs", name, time.Since(t0).Seconds()))
		t0 = time.Now()
	}
	lap("fresh processes")
	reported := map[string]int{}
	check := func(mode string, h history, got proj) {
		want, ok := fresh[h.Target.url()]
		if !ok || got == want {
			return
		}
		key := "history:" + h.Target.Family + ":" + h.Kind
		reported[key]++
		if reported[key] > 2 {
			return
		}
		c.Fail("history:"+h.Target.url(), key, fmt.Sprintf("%s after its %s neighbours (%d requests, %s) on a long-lived instance: %v; a fresh instance asked this only: %v",
			h.Target.url(), h.Kind, len(h.Reqs)-1, mode, got, want), c07in{Kind: "history", URL: h.Target.url(), Mode: mode, History: &h})
	}
	n := 0
	// sequential: one goroutine, one instance for all histories
	long, err := lib.NewLivesim(env.root, serverMod(env))
	if err != nil {
		return 0, err
	}
	for _, h := range hs {
		var last proj
		for _, u := range h.Reqs {
			last = env.serveReq(long, u)
			n++
		}
		check("sequential", h, last)
		c.Count("history:" + h.Target.Family + ":" + h.Kind)
	}
	c.Res.Notes = append(c.Res.Notes, fmt.Sprintf("%d REST-API ingest sessions in the sequential pass, %.1fs", env.sessions.Load(), time.Duration(env.sessionNs.Load()).Seconds()))
	lap("sequential")
	// concurrent: the same sequences from 8 goroutines on a second instance
	long2, err := lib.NewLivesim(env.root, serverMod(env))
	if err != nil {
		return n, err
	}
	order := rng.Perm(len(hs))
	got := make([]proj, len(hs))
	var wg sync.WaitGroup
	next := make(chan int, len(hs))
	for _, i := range order {
		next <- i
	}
	close(next)
	for g := 0; g < 8; g++ {
		wg.Add(1)
		go func() {
			defer wg.Done()
			for i := range next {
				// REST-API sessions run concurrently too (the manager is guarded by a mutex since fix commit ee6ff88)
				for _, u := range hs[i].Reqs {
					got[i] = env.serveReq(long2, u)
				}
			}
		}()
	}
	wg.Wait()
	for i, h := range hs {
		check("8 goroutines", h, got[i])
		n += len(h.Reqs)
	}
	lap("8 goroutines")
	// storm: several different requests of ONE family at the same time (pooled buffers, shared scratch
	// state): 16 goroutines loop over a handful of variants of the family's target
	stormFor := 80 * time.Millisecond
	if c.Thorough() {
		stormFor = 800 * time.Millisecond
	}
	stormG := 4 * runtime.GOMAXPROCS(0)
	if stormG < 32 {
		stormG = 32
	}
	byFam := map[string][]target{}
	var fams []string
	for _, t := range ts {
		if _, ok := byFam[t.Family]; !ok && !strings.HasPrefix(t.Family, "error-") {
			fams = append(fams, t.Family)
			byFam[t.Family] = env.variants(t)
		}
	}
	var vurls []string
	for _, f := range fams {
		for _, v := range byFam[f] {
			if u := v.url(); !seen[u] {
				seen[u] = true
				vurls = append(vurls, u)
			}
		}
	}
	vfresh, err := freshAnswers(env, vurls)
	if err != nil {
		return n, err
	}
	for u, p := range vfresh {
		fresh[u] = p
	}
	long3, err := lib.NewLivesim(env.root, serverMod(env))
	if err != nil {
		return n, err
	}
	for _, f := range fams {
		vs := byFam[f]
		if len(vs) < 2 {
			continue
		}
		var mu sync.Mutex
		bad := map[string]proj{}
		var wg2 sync.WaitGroup
		gate := make(chan struct{})
		var served atomic.Int64
		deadline := time.Now().Add(stormFor)
		for g := 0; g < stormG; g++ {
			wg2.Add(1)
			go func(g int) {
				defer wg2.Done()
				<-gate
				for k := 0; k < 4 || time.Now().Before(deadline); k++ {
					u := vs[(g+k)%len(vs)].url()
					if p := project(long3.Get(u)); p != fresh[u] {
						mu.Lock()
						bad[u] = p
						mu.Unlock()
					}
					served.Add(1)
				}
			}(g)
		}
		close(gate)
		wg2.Wait()
		n += int(served.Load())
		c.Count("history:" + f + ":same-family-concurrent")
		for u, p := range bad {
			var list []string
			for _, v := range vs {
				list = append(list, v.url())
			}
			c.Fail("history:"+u, "history:"+f+":same-family-concurrent", fmt.Sprintf("%s while many goroutines ask %d requests of the same family at the same time on one instance: %v; a fresh instance asked this only: %v", u, len(vs), p, fresh[u]),
				c07in{Kind: "history", URL: u, Mode: "storm", History: &history{Target: vs[0], Kind: "same-family-concurrent", Reqs: list}})
			break
		}
	}
	lap("storm")
	keys := make([]string, 0, len(reported))
	for k := range reported {
		keys = append(keys, k)
	}
	sort.Strings(keys)
	c.Count(fmt.Sprintf("history-targets:%d", len(urls)))
	return n, nil
}

// replayHistory: the recorded request list on a new instance, the target on a fresh process.
func replayHistory(c *lib.Ctx, in c07in) error {
	env, err := newHistoryEnv()
	if err != nil {
		return err
	}
	defer env.cleanup()
	h := *in.History
	if in.Mode == "repeat-fresh" {
		_, unstable, err := freshAnswersN(env, []string{h.Target.url()}, 4)
		if err != nil {
			return err
		}
		if why, bad := unstable[h.Target.url()]; bad {
			fmt.Printf("replay C07: %s: %s\n", h.Target.url(), why)
			c.Fail("replay", "history:"+h.Target.Family+":repeat-fresh", why, in)
		}
		return nil
	}
	fresh, err := freshAnswers(env, []string{h.Target.url()})
	if err != nil {
		return err
	}
	long, err := lib.NewLivesim(env.root, serverMod(env))
	if err != nil {
		return err
	}
	var last proj
	for round := 0; round < 3; round++ {
		for _, u := range h.Reqs {
			last = env.serveReq(long, u)
		}
		want := fresh[h.Target.url()]
		fmt.Printf("replay C07: %s: long-lived %v, fresh %v\n", h.Target.url(), last, want)
		if last != want {
			c.Fail("replay", "history:"+h.Target.Family+":"+h.Kind, fmt.Sprintf("%s after %d neighbour requests: %v, fresh instance: %v", h.Target.url(), len(h.Reqs)-1, last, want), in)
			return nil
		}
	}
	return nil
}

// stormOnly: for the race detector - every family's variants from 16 goroutines on one instance,
// answers not compared (the child has no fresh processes to compare with).
func stormOnly(seed int64) error {
	env, err := newHistoryEnv()
	if err != nil {
		return err
	}
	defer env.cleanup()
	rng := rand.New(rand.NewSource(seed + 11))
	ts := env.targets("testpic_2s", 100000+2000*rng.Int63n(500)+1050+rng.Int63n(900))
	ls, err := lib.NewLivesim(env.root, serverMod(env))
	if err != nil {
		return err
	}
	done := map[string]bool{}
	for _, t := range ts {
		if done[t.Family] || strings.HasPrefix(t.Family, "error-") {
			continue
		}
		done[t.Family] = true
		vs := env.variants(t)
		var wg sync.WaitGroup
		deadline := time.Now().Add(80 * time.Millisecond)
		for g := 0; g < 4*runtime.GOMAXPROCS(0); g++ {
			wg.Add(1)
			go func(g int) {
				defer wg.Done()
				for k := 0; k < 2 || time.Now().Before(deadline); k++ {
					ls.Get(vs[(g+k)%len(vs)].url())
				}
			}(g)
		}
		wg.Wait()
	}
	return nil
}
