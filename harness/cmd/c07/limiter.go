package main

// The request mix with the limiter switched on (maxrequests, reqlimitint 1 s, reqlimitlog): which of
// a burst of concurrent requests of one address is answered 200 and which 429 - and how many - must
// not depend on the interleaving: exactly max are passed on per interval, as for the same requests
// sent one after the other.

import (
	"fmt"
	"net/http"
	"os"
	"path/filepath"
	"sync"
	"time"

	"github.com/Dash-Industry-Forum/livesim2/cmd/livesim2/app"
	"verifharness/lib"
)

type burstResult struct {
	passed []int // per round: how many of the concurrent requests were passed on
	n      int
	fails  []lib.Failure
	err    error
}

func limiterBurst(rounds int) (res burstResult) {
	const max, burst = 3, 64
	root, cleanup, err := lib.ScratchDir("c07-limiter")
	if err != nil {
		res.err = err
		return
	}
	defer cleanup()
	if err := os.CopyFS(filepath.Join(root, "vod", "testpic_2s"), os.DirFS(filepath.Join(lib.TestVodRoot, "testpic_2s"))); err != nil {
		res.err = err
		return
	}
	mk := func(name string) (*lib.Livesim, error) {
		return lib.NewLivesim(filepath.Join(root, "vod"), func(cfg *app.ServerConfig) {
			cfg.MaxRequests, cfg.ReqLimitInt, cfg.ReqLimitLog = max, 1, filepath.Join(root, name+"-reqlimit.json")
		})
	}
	seq, err := mk("seq")
	if err != nil {
		res.err = err
		return
	}
	conc, err := mk("conc")
	if err != nil {
		res.err = err
		return
	}
	url := "/livesim2/testpic_2s/Manifest.mpd?nowMS=100000"
	hdr := map[string]string{"X-Forwarded-For": "2001:db8::77"}
	for r := 0; r < rounds; r++ {
		time.Sleep(1150 * time.Millisecond) // the interval of the previous round has ended
		// reference: one after the other
		seqPassed := 0
		for k := 0; k < burst; k++ {
			if seq.Do("GET", url, nil, hdr).Status != http.StatusTooManyRequests {
				seqPassed++
			}
		}
		// many other clients in the interval that is about to end (its counters go into the log record)
		// the same requests at the same time
		var wg sync.WaitGroup
		var mu sync.Mutex
		passed := 0
		gate := make(chan struct{})
		for k := 0; k < burst; k++ {
			wg.Add(1)
			go func() {
				defer wg.Done()
				<-gate
				st := conc.Do("GET", url, nil, hdr).Status
				mu.Lock()
				if st != http.StatusTooManyRequests {
					passed++
				}
				mu.Unlock()
			}()
		}
		close(gate)
		wg.Wait()
		// the crowd of the interval that ends at the next round: a large record to log
		for k := 0; k < 3000; k++ {
			h := map[string]string{"X-Forwarded-For": fmt.Sprintf("2001:db8:1::%x", k)}
			conc.Do("GET", "/livesim2/none", nil, h)
		}
		res.n += 2 * burst
		res.passed = append(res.passed, passed)
		if seqPassed != max {
			res.fails = append(res.fails, lib.Failure{Case: fmt.Sprintf("limiter-burst-%d", r), Key: "limiter-burst:sequential-quota",
				What:  fmt.Sprintf("round %d: %d requests of one address sent one after the other right after an interval ended (max %d, reqlimitlog set): %d passed on", r, burst, max, seqPassed),
				Input: c07in{Kind: "limiter-burst", Seed: int64(rounds)}})
		}
		if passed != seqPassed {
			res.fails = append(res.fails, lib.Failure{Case: fmt.Sprintf("limiter-burst-%d", r), Key: "limiter-burst:quota",
				What: fmt.Sprintf("round %d: %d concurrent requests of one address right after an interval ended (max %d, interval 1 s, reqlimitlog set): %d were passed on, the same requests sent one after the other: %d",
					r, burst, max, passed, seqPassed),
				Input: c07in{Kind: "limiter-burst", Seed: int64(rounds)}})
		}
	}
	return
}
