package main

import (
	"fmt"
	"math/rand"
	"regexp"
	"sort"
	"strings"

	"verifharness/lib"
)

// lookupAsset: a generated asset; Reps[0], Reps[2].. are video, Reps[1], Reps[3].. audio
// (ids are unique within the whole set, so a response identifies its representation).
type lookupAsset struct {
	Path string   `json:"path"`
	Reps []string `json:"reps"`
}

type lookupSet struct {
	Name   string        `json:"name"`
	Assets []lookupAsset `json:"assets"`
}

type lookupObs struct {
	URL      string
	URI      string // content part
	IsMPD    bool
	Outcomes []string       // distinct answers, sorted: notfound | mpd:<asset> | seg:<asset>:<rep> | other:<status>
	Counts   map[string]int // how often each
}

const lookupNowMS = 100000

func genAssetOf(a lookupAsset) lib.GenAsset {
	vd := lib.UniformDurs(4, 180000) // 4 x 2 s at 90 kHz
	ga := lib.GenAsset{Name: a.Path}
	for i, id := range a.Reps {
		if i%2 == 0 {
			ga.Reps = append(ga.Reps, lib.VideoRep(id, 90000, 3000, vd))
		} else {
			ga.Reps = append(ga.Reps, lib.AudioRep(id, 1024, lib.AudioDursFollowing(vd, 90000, 48000, 1024, 0)))
		}
	}
	return ga
}

var titleRe = regexp.MustCompile(`<Title>assetgen ([^<]*)</Title>`)

// runLookupSet writes the set into a scratch vodroot and asks every URL `repeats` times on each of
// `servers` fresh server instances.
func runLookupSet(set lookupSet, servers, repeats int) ([]lookupObs, error) {
	root, cleanup, err := lib.ScratchDir("c07-" + set.Name)
	if err != nil {
		return nil, err
	}
	defer cleanup()
	tags := map[uint32][2]string{}
	for _, a := range set.Assets {
		if err := lib.WriteAsset(root, genAssetOf(a)); err != nil {
			return nil, fmt.Errorf("write %s: %w", a.Path, err)
		}
		for _, id := range a.Reps {
			tags[lib.GenRepTag(id)] = [2]string{a.Path, id}
		}
	}
	var obs []lookupObs
	nr := lookupNowMS/2000 - 2
	for _, a := range set.Assets {
		obs = append(obs, lookupObs{URI: a.Path + "/Manifest.mpd", IsMPD: true})
		for _, id := range a.Reps {
			obs = append(obs, lookupObs{URI: fmt.Sprintf("%s/%s/%d.m4s", a.Path, id, nr)})
		}
		obs = append(obs, lookupObs{URI: fmt.Sprintf("%s/zz9/%d.m4s", a.Path, nr)})
	}
	obs = append(obs, lookupObs{URI: "nosuch/Manifest.mpd", IsMPD: true})
	for i := range obs {
		obs[i].URL = fmt.Sprintf("/livesim2/%s?nowMS=%d", obs[i].URI, lookupNowMS)
		obs[i].Counts = map[string]int{}
	}
	for s := 0; s < servers; s++ {
		ls, err := lib.NewLivesim(root, nil)
		if err != nil {
			return nil, fmt.Errorf("server over %s: %w", set.Name, err)
		}
		for k := 0; k < repeats; k++ {
			for i := range obs {
				r := ls.Get(obs[i].URL)
				out := ""
				switch {
				case r.Status >= 400 && r.Status < 500:
					out = "notfound"
				case r.Status == 200 && obs[i].IsMPD:
					if m := titleRe.FindSubmatch(r.Body); m != nil {
						out = "mpd:" + string(m[1])
					} else {
						out = "other:mpd-without-title"
					}
				case r.Status == 200:
					g, err := lib.DecodeGenSegment(r.Body)
					if err != nil {
						out = "other:undecodable-segment"
					} else if t, ok := tags[g.Tag]; ok && !g.MixedTags {
						out = "seg:" + t[0] + ":" + t[1]
					} else {
						out = "other:unknown-payload"
					}
				default:
					out = fmt.Sprintf("other:status-%d", r.Status)
				}
				obs[i].Counts[out]++
			}
		}
	}
	for i := range obs {
		for k := range obs[i].Counts {
			obs[i].Outcomes = append(obs[i].Outcomes, k)
		}
		sort.Strings(obs[i].Outcomes)
	}
	return obs, nil
}

// lookupOracle: the property — the answer is a function of the URL (and it is the object the URL
// names, when that object exists).
// ambiguity classifies a URL of a set independently of livesim2: does more than one asset path
// prefix it ("nested-assets"), does the id pattern of more than one representation occur in the
// rest of the path ("rep-substring")? The recorded findings apply to such URLs only.
func ambiguity(set lookupSet, uri string) string {
	var matching []lookupAsset
	for _, a := range set.Assets {
		if uri == a.Path || strings.HasPrefix(uri, a.Path+"/") {
			matching = append(matching, a)
		}
	}
	if len(matching) > 1 {
		return "nested-assets"
	}
	for _, a := range matching {
		rest := strings.TrimPrefix(uri, a.Path+"/")
		n := 0
		for _, id := range a.Reps {
			if re, err := regexp.Compile(id + `/(\d+).m4s`); err == nil && re.MatchString(rest) {
				n++
			}
		}
		if n > 1 {
			return "rep-substring"
		}
	}
	return ""
}

func lookupOracle(c *lib.Ctx, id string, set lookupSet, o lookupObs) {
	in := c07in{Kind: "lookup", URL: o.URL, Lookup: &set, Ambiguity: ambiguity(set, o.URI)}
	if len(o.Outcomes) > 1 {
		key := "lookup:rep-nondeterministic"
		if o.IsMPD {
			key = "lookup:asset-nondeterministic"
		} else {
			assets := map[string]bool{}
			for _, x := range o.Outcomes {
				if p := strings.Split(x, ":"); len(p) == 3 {
					assets[p[1]] = true
				} else {
					assets[x] = true
				}
			}
			if len(assets) > 1 {
				key = "lookup:asset-nondeterministic"
			}
		}
		c.Fail(id, key, fmt.Sprintf("%s answered by different objects on identical requests: %v", o.URL, o.Counts), in)
		return
	}
	for _, x := range o.Outcomes {
		if strings.HasPrefix(x, "other:") {
			c.Fail(id, "lookup:"+x, fmt.Sprintf("%s: %s", o.URL, x), in)
		}
	}
	// the named object exists: it must be the one that answers
	want := ""
	for _, a := range set.Assets {
		if o.URI == a.Path+"/Manifest.mpd" {
			want = "mpd:" + a.Path
		}
		for _, id := range a.Reps {
			if strings.HasPrefix(o.URI, a.Path+"/"+id+"/") {
				want = "seg:" + a.Path + ":" + id
			}
		}
	}
	if want != "" && len(o.Outcomes) == 1 && o.Outcomes[0] != want {
		key := "lookup:wrong-rep"
		if o.IsMPD || !strings.HasPrefix(o.Outcomes[0], "seg:"+strings.Split(want, ":")[1]+":") {
			key = "lookup:wrong-asset"
		}
		c.Fail(id, key, fmt.Sprintf("%s names %s but is answered by %s", o.URL, want, o.Outcomes[0]), in)
	}
}

func lookupSets(rng *rand.Rand, n int) []lookupSet {
	sets := []lookupSet{
		{Name: "nested", Assets: []lookupAsset{{"x", []string{"xv", "xa"}}, {"x/y", []string{"yv", "ya"}}}},
		{Name: "repids", Assets: []lookupAsset{{"z", []string{"11", "1"}}}},
		{Name: "siblings", Assets: []lookupAsset{{"ab", []string{"V1", "A1"}}, {"abc", []string{"V2", "A2"}}, {"a", []string{"V3"}}}},
		{Name: "deep", Assets: []lookupAsset{{"p/q", []string{"pv"}}, {"p/q/r/s", []string{"sv", "sa"}}, {"p2", []string{"2v"}}}},
		{Name: "repids2", Assets: []lookupAsset{{"w", []string{"V", "AV", "VV", "V1"}}, {"w2", []string{"2", "12", "112"}}}},
	}
	paths := []string{"m", "m/n", "m/n/o", "mn", "k", "k/m", "k2", "km"}
	ids := []string{"1", "2", "11", "12", "21", "a", "ba", "ab", "a1", "1a", "v", "vv", "v.v", "vxv"}
	for len(sets) < n {
		s := lookupSet{Name: fmt.Sprintf("rand%d", len(sets))}
		pp := rng.Perm(len(paths))[:2+rng.Intn(3)]
		ip := rng.Perm(len(ids))
		k := 0
		for _, pi := range pp {
			a := lookupAsset{Path: paths[pi]}
			for j := 1 + rng.Intn(3); j > 0 && k < len(ip); j-- {
				a.Reps = append(a.Reps, ids[ip[k]])
				k++
			}
			s.Assets = append(s.Assets, a)
		}
		sets = append(sets, s)
	}
	return sets
}

func outcomeTerm(x string) string {
	p := strings.Split(x, ":")
	switch {
	case x == "notfound":
		return "ONotFound"
	case p[0] == "mpd":
		return "OMpd " + lib.CoqString(strings.TrimPrefix(x, "mpd:"))
	case p[0] == "seg" && len(p) == 3:
		return fmt.Sprintf("OSeg %s %s", lib.CoqString(p[1]), lib.CoqString(p[2]))
	}
	return "OMpd \"?other\"" // never allowed by the model
}

// runLookup: all sets; oracle and cases for the Coq model.
func runLookup(c *lib.Ctx) (n int, distinct int, err error) {
	rng := rand.New(rand.NewSource(c.Seed + 7))
	nSets, servers, repeats := 12, 2, 25
	if c.Thorough() {
		nSets, servers, repeats = 60, 3, 40
	}
	var terms []string
	id := 0
	for _, set := range lookupSets(rng, nSets) {
		obs, err := runLookupSet(set, servers, repeats)
		if err != nil {
			// a layout the loader rejects is not a look-up case
			c.Res.Notes = append(c.Res.Notes, fmt.Sprintf("look-up set %s not served: %v", set.Name, err))
			c.Count("lookup-set:rejected")
			continue
		}
		c.Count("lookup-set:served")
		var assets []string
		for _, a := range set.Assets {
			var reps []string
			for _, r := range a.Reps {
				reps = append(reps, fmt.Sprintf("(%s, %s, %s)", lib.CoqString(r), lib.CoqString(r+"/"), lib.CoqString(".m4s")))
			}
			assets = append(assets, fmt.Sprintf("{| ca_path := %s; ca_reps := [%s] |}", lib.CoqString(a.Path), strings.Join(reps, "; ")))
		}
		for _, o := range obs {
			cid := fmt.Sprintf("%d", id)
			c.Res.Inputs[cid] = c07in{Kind: "lookup", URL: o.URL, Lookup: &set}
			lookupOracle(c, cid, set, o)
			var outs []string
			for _, x := range o.Outcomes {
				outs = append(outs, outcomeTerm(x))
				c.Count("lookup-outcome:" + strings.Split(x, ":")[0])
				if !strings.HasPrefix(x, "notfound") {
					distinct++
				}
			}
			if len(o.Outcomes) > 1 {
				c.Count("lookup:ambiguous-url")
			}
			terms = append(terms, fmt.Sprintf("{| c_id := %d; c_assets := [%s];\n   c_uri := %s; c_is_mpd := %s; c_observed := [%s] |}",
				id, strings.Join(assets, "; "), lib.CoqString(o.URI), lib.Cbool(o.IsMPD), strings.Join(outs, "; ")))
			id++
			n += servers * repeats
		}
	}
	shard := 120
	for s := 0; s*shard < len(terms); s++ {
		hi := (s + 1) * shard
		if hi > len(terms) {
			hi = len(terms)
		}
		c.WriteCases(fmt.Sprintf("cases_C07_%d.v", s),
			lib.CasesFile("From Verif Require Import GoSem Lookup CorrC07.", "c07case", "", terms[s*shard:hi], "model_view"))
	}
	c.Res.ModelCases = len(terms)
	return n, distinct, nil
}
