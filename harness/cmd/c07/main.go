// c07: harness and oracle for property C07 (livesim2 responses are a pure function of (URL, time)
// and race-free).
//
//	mix     a large list of MPD / init / media (video, audio, encrypted, chunked, subtitles,
//	        SCTE-35) / patch requests over the bundled assets: served once by a fresh server
//	        (reference), then shuffled and duplicated from 16 goroutines by the same, now
//	        long-running server, then by a second fresh server and by a cache-loaded server; status,
//	        content type and body must be identical per URL (the URL carries ?nowMS=).
//	lookup  generated assets with nested / prefix-related paths and representation ids that occur
//	        inside each other, in scratch vodroots: every URL many times on several server
//	        instances; the object that answers must be one (oracle) and one the Coq model of
//	        findAsset / findRepAndSegmentID allows (correspondence, CorrC07.v).
//	race    the mix and the /api/cmaf-ingests calls from 16 goroutines in a child built with -race;
//	        every reported race must be derivable from gen/Access.v (translator soundness).
package main

import (
	"crypto/sha256"
	"encoding/hex"
	"fmt"
	"math/rand"
	"net/url"
	"os"
	"regexp"
	"sort"
	"strings"
	"sync"
	"time"

	"github.com/Dash-Industry-Forum/livesim2/cmd/livesim2/app"
	"verifharness/lib"
)

func main() {
	if len(os.Args) > 1 && os.Args[1] == "racechild" {
		raceChild(os.Args[2:])
		return
	}
	if len(os.Args) > 1 && os.Args[1] == "refchild" {
		refChild(os.Args[2:])
		return
	}
	lib.Main("C07", runC07)
}

// ---------------------------------------------------------------- projections

type proj struct {
	Status int    `json:"status"`
	CT     string `json:"content_type"`
	Hash   string `json:"sha256"`
	Len    int    `json:"len"`
	Panic  string `json:"panic,omitempty"`
}

func project(r lib.Resp) proj {
	h := sha256.Sum256(r.Body)
	return proj{Status: r.Status, CT: r.Header.Get("Content-Type"), Hash: hex.EncodeToString(h[:8]), Len: len(r.Body), Panic: r.Panic}
}

func (p proj) String() string {
	return fmt.Sprintf("%d %q %d bytes sha256=%s%s", p.Status, p.CT, p.Len, p.Hash, p.Panic)
}

type c07in struct {
	Kind   string     `json:"kind"` // mix | lookup | race
	URL    string     `json:"url,omitempty"`
	Mode   string     `json:"mode,omitempty"`
	Seed   int64      `json:"seed,omitempty"`
	Lookup *lookupSet `json:"lookup,omitempty"`
	// history failures: the ordered request list (neighbours, then the target)
	History *history `json:"history,omitempty"`
	// look-up failures: "nested-assets" | "rep-substring" | "" (see ambiguity)
	Ambiguity string `json:"ambiguity,omitempty"`
}

// ---------------------------------------------------------------- the request mix

var patchLocRe = regexp.MustCompile(`<PatchLocation[^>]*>([^<]+)</PatchLocation>`)

// buildMix lists URLs over the bundled assets; every URL carries its instant.
func buildMix(rng *rand.Rand, assets []*lib.TLAsset, ls *lib.Livesim, nInstants int) []string {
	var urls []string
	add := func(u string) { urls = append(urls, u) }
	mpdOpts := []string{"", "segtimeline_1/", "segtimelinenr_1/", "tsbd_30/", "ato_1/", "periods_60/", "periods_60/continuous_1/",
		"mup_2/", "utc_direct-head/", "patch_60/", "patch_60/segtimeline_1/", "timesubsstpp_en,sv/", "timesubswvtt_en/", "scte35_1/",
		"eccp_cbcs/", "eccp_cenc/", "chunkdur_0.5/ato_1.5/", "startrel_-20/stoprel_20/", "ltgt_2500/", "snr_7/", "start_1000/"}
	segOpts := []string{"", "eccp_cbcs/", "eccp_cenc/", "chunkdur_0.5/ato_1.5/", "scte35_1/", "tsbd_30/", "snr_7/"}
	instants := []int64{100000, 1000000, 1700000000123}
	for len(instants) < nInstants {
		instants = append(instants, 50000+rng.Int63n(1_800_000_000_000))
	}
	for _, a := range assets {
		if strings.HasPrefix(a.Path, "WAVE") && len(urls)%2 == 0 {
			// the WAVE vectors are large: MPDs and a few segments only
		}
		for _, now := range instants {
			for _, o := range mpdOpts {
				if strings.HasPrefix(a.Path, "WAVE") && rng.Intn(3) > 0 {
					continue
				}
				add(fmt.Sprintf("/livesim2/%s%s/%s?nowMS=%d", o, a.Path, a.MPD, now))
			}
			for _, r := range a.Reps {
				if r.Kind == "image" || r.Kind == "text" {
					continue
				}
				add(fmt.Sprintf("/livesim2/%s/%s/init.mp4?nowMS=%d", a.Path, r.ID, now))
				add(fmt.Sprintf("/livesim2/eccp_cbcs/%s/%s/init.mp4?nowMS=%d", a.Path, r.ID, now))
				ref := a.Ref()
				if ref == nil {
					continue
				}
				// the newest complete segment of the reference track and older ones
				segMS := 1000 * (ref.Segs[0].End - ref.Segs[0].Start) / ref.Timescale
				if segMS <= 0 {
					continue
				}
				newest := now/segMS - 2
				for _, back := range []int64{0, 1, 3, 7} {
					n := newest - back
					if n < 0 {
						continue
					}
					for _, o := range segOpts {
						if (back > 1 || strings.HasPrefix(a.Path, "WAVE")) && rng.Intn(3) > 0 {
							continue
						}
						nr := n
						if o == "snr_7/" {
							nr = n + 7
						}
						add(fmt.Sprintf("/livesim2/%s%s/%s/%d.m4s?nowMS=%d", o, a.Path, r.ID, nr, now))
					}
					if r.Kind == "video" && rng.Intn(2) == 0 {
						add(fmt.Sprintf("/livesim2/segtimeline_1/%s/%s/%d.m4s?nowMS=%d", a.Path, r.ID, r.LoopS(n), now))
					}
				}
				// far too early and long gone
				add(fmt.Sprintf("/livesim2/%s/%s/%d.m4s?nowMS=%d", a.Path, r.ID, newest+50, now))
				if newest > 400 {
					add(fmt.Sprintf("/livesim2/%s/%s/%d.m4s?nowMS=%d", a.Path, r.ID, newest-300, now))
				}
			}
			if a.Path == "testpic_2s" {
				n := now/2000 - 2
				add(fmt.Sprintf("/livesim2/timesubsstpp_en,sv/%s/timestpp-en/init.mp4?nowMS=%d", a.Path, now))
				add(fmt.Sprintf("/livesim2/timesubsstpp_en,sv/%s/timestpp-sv/%d.m4s?nowMS=%d", a.Path, n, now))
				add(fmt.Sprintf("/livesim2/timesubswvtt_en,sv/timesubsdur_600/timesubsreg_1/%s/timewvtt-en/%d.m4s?nowMS=%d", a.Path, n, now))
				add(fmt.Sprintf("/livesim2/%s/imsc1_txt_sv/%d.m4s?nowMS=%d", a.Path, n, now))
				add(fmt.Sprintf("/livesim2/%s/Manifest_thumbs.mpd?nowMS=%d", a.Path, now))
				add(fmt.Sprintf("/livesim2/%s/thumbs/%d.jpg?nowMS=%d", a.Path, n, now))
			}
			// patch: the location the MPD announces, asked 10 s and 100 s later
			for _, o := range []string{"patch_60/", "patch_60/segtimeline_1/"} {
				r := ls.Get(fmt.Sprintf("/livesim2/%s%s/%s?nowMS=%d", o, a.Path, a.MPD, now))
				if m := patchLocRe.FindSubmatch(r.Body); m != nil {
					loc := strings.ReplaceAll(string(m[1]), "&amp;", "&")
					for _, later := range []int64{10000, 100000} {
						sep := "&"
						if !strings.Contains(loc, "?") {
							sep = "?"
						}
						add(fmt.Sprintf("%s%snowMS=%d", loc, sep, now+later))
					}
				}
			}
		}
	}
	// not found / malformed: also a function of the URL
	add("/livesim2/nosuchasset/Manifest.mpd?nowMS=100000")
	add("/livesim2/testpic_2s/V300/abc.m4s?nowMS=100000")
	add("/livesim2/testpic_2s/nosuchrep/45.m4s?nowMS=100000")
	add("/livesim2/tsbd_x/testpic_2s/Manifest.mpd?nowMS=100000")
	return urls
}

func kindOf(u string) string {
	p := u
	if i := strings.Index(p, "?"); i >= 0 {
		p = p[:i]
	}
	switch {
	case strings.HasPrefix(p, "/patch/"):
		return "patch"
	case strings.HasSuffix(p, ".mpd"):
		return "mpd"
	case strings.HasSuffix(p, "init.mp4"):
		return "init"
	case strings.Contains(p, "eccp_"):
		return "media-encrypted"
	case strings.Contains(p, "chunkdur_"):
		return "media-chunked"
	case strings.Contains(p, "timestpp") || strings.Contains(p, "timewvtt") || strings.Contains(p, "imsc1"):
		return "media-subtitle"
	case strings.Contains(p, "/A48/"):
		return "media-audio"
	case strings.HasSuffix(p, ".jpg"):
		return "thumbnail"
	default:
		return "media-video"
	}
}

type mixResult struct {
	n     int
	fails []lib.Failure
}

// serveAll serves the URLs from g goroutines (order as given) and returns the projections.
func serveAll(ls *lib.Livesim, urls []string, g int) []proj {
	out := make([]proj, len(urls))
	var wg sync.WaitGroup
	next := make(chan int, len(urls))
	for i := range urls {
		next <- i
	}
	close(next)
	for k := 0; k < g; k++ {
		wg.Add(1)
		go func() {
			defer wg.Done()
			for i := range next {
				out[i] = project(ls.Get(urls[i]))
			}
		}()
	}
	wg.Wait()
	return out
}

// runMix: the purity part of the property on the bundled assets. Returns failures (key, what, url).
func runMix(seed int64, nInstants int, count func(string)) (int, []lib.Failure, error) {
	rng := rand.New(rand.NewSource(seed))
	assets, err := lib.LoadBundledAssets(lib.TestVodRoot)
	if err != nil {
		return 0, nil, err
	}
	first, err := lib.NewLivesim(lib.TestVodRoot, nil)
	if err != nil {
		return 0, nil, err
	}
	urls := buildMix(rng, assets, first, nInstants)
	var fails []lib.Failure
	fail := func(key, what, u, mode string) {
		if len(fails) < 40 {
			fails = append(fails, lib.Failure{Case: "mix:" + u, Key: key, What: what, Input: c07in{Kind: "mix", URL: u, Mode: mode, Seed: seed}})
		}
	}
	// 1. reference: every URL once, in order, one goroutine
	ref := map[string]proj{}
	refOut := serveAll(first, urls, 1)
	for i, u := range urls {
		if old, ok := ref[u]; ok && old != refOut[i] {
			fail("history:"+kindOf(u), fmt.Sprintf("the same server answered %s first with %v, later with %v", u, old, refOut[i]), u, "sequential-repeat")
		}
		ref[u] = refOut[i]
		if count != nil {
			count("mix:" + kindOf(u))
			count(fmt.Sprintf("mix-status:%d", refOut[i].Status))
		}
		if refOut[i].Panic != "" {
			fail("panic:"+kindOf(u), fmt.Sprintf("%s: handler panic %s", u, refOut[i].Panic), u, "reference")
		}
	}
	n := len(urls)
	compare := func(mode string, us []string, ps []proj) {
		for i, u := range us {
			if _, compared := ref[u]; !compared {
				if ps[i].Panic != "" {
					fail("panic:page", fmt.Sprintf("%s: handler panic %s", u, ps[i].Panic), u, mode)
				}
				continue // pages: part of the concurrent traffic, not of the equality claim
			}
			if ps[i] != ref[u] {
				fail(mode+":"+kindOf(u), fmt.Sprintf("%s: %s gave %v, the fresh server gave %v", u, mode, ps[i], ref[u]), u, mode)
			}
		}
		n += len(us)
	}
	// 2. the same server, now long-running: shuffled, every URL twice, 16 goroutines
	sh := append(append([]string{}, urls...), urls...)
	for k := 0; k < 20; k++ {
		sh = append(sh, "/assets", "/urlgen/", "/vod/testpic_2s/Manifest.mpd", "/vod/testpic_2s/V300/1.m4s", "/", "/reqcount", "/healthz", "/favicon.ico", "/config")
	}
	rng.Shuffle(len(sh), func(i, j int) { sh[i], sh[j] = sh[j], sh[i] })
	compare("concurrent-long-running", sh, serveAll(first, sh, 16))
	// 3. a second fresh server, reverse order
	second, err := lib.NewLivesim(lib.TestVodRoot, nil)
	if err != nil {
		return n, fails, err
	}
	rev := make([]string, 0, len(urls))
	for i := len(urls) - 1; i >= 0; i -= 2 {
		rev = append(rev, urls[i])
	}
	compare("other-fresh-instance", rev, serveAll(second, rev, 4))
	// 4. a server that loads the representation data from the cache a previous instance wrote
	cacheDir, cleanup, err := lib.ScratchDir("c07-repdata")
	if err != nil {
		return n, fails, err
	}
	defer cleanup()
	if _, err := lib.NewLivesim(lib.TestVodRoot, func(cfg *app.ServerConfig) { cfg.RepDataRoot = cacheDir; cfg.WriteRepData = true }); err != nil {
		return n, fails, err
	}
	cached, err := lib.NewLivesim(lib.TestVodRoot, func(cfg *app.ServerConfig) { cfg.RepDataRoot = cacheDir; cfg.WriteRepData = false })
	if err != nil {
		return n, fails, err
	}
	var some []string
	for i := 0; i < len(urls); i += 2 {
		some = append(some, urls[i])
	}
	compare("cache-loaded-instance", some, serveAll(cached, some, 8))
	return n, fails, nil
}

// ---------------------------------------------------------------- run

func runC07(c *lib.Ctx) error {
	lib.QuietLogs()
	if c.Replay != "" {
		return replayC07(c)
	}
	rb := startRaceBuild(c)
	rj := startRaceJobs(c.Seed, c.Thorough(), rb)
	burstRounds := 16
	if c.Thorough() {
		burstRounds = 60
	}
	burstCh := make(chan burstResult, 1)
	go func() { burstCh <- limiterBurst(burstRounds) }()
	nInst := 2
	if c.Thorough() {
		nInst = 12
	}
	tPhase := time.Now()
	phase := func(name string) {
		c.Res.Notes = append(c.Res.Notes, fmt.Sprintf("phase %s: %.1fs", name, time.Since(tPhase).Seconds()))
		tPhase = time.Now()
	}
	n, fails, err := runMix(c.Seed, nInst, c.Count)
	phase("mix")
	if err != nil {
		return err
	}
	for _, f := range fails {
		c.Fail(f.Case, f.Key, f.What, f.Input)
	}
	nh, err := runHistories(c)
	if err != nil {
		return err
	}
	n += nh
	phase("histories")
	nl, distinct, err := runLookup(c)
	if err != nil {
		return err
	}
	phase("lookup")
	nr := racePart(c, rj)
	phase("race")
	br := <-burstCh
	if br.err != nil {
		return br.err
	}
	for _, f := range br.fails {
		c.Fail(f.Case, f.Key, f.What, f.Input)
	}
	c.Count(fmt.Sprintf("limiter-burst-rounds:%d", burstRounds))
	for _, p := range br.passed {
		c.Count(fmt.Sprintf("limiter-burst-passed:%d", p))
	}
	n += br.n
	c.Res.Evaluations = n + nl + nr
	c.Res.DistinctNontrivial = distinct
	c.Res.Rule = "history: for one target request of every family (MPD in the three addressing modes, multi-period, thumbnails, init, video/audio/subtitle media by number and time, chunked, ECCP, every DRM package of the bundled configuration, generated subtitles, patch) and every neighbour kind (each other value of each option family, other instants, failing variants, repeats, sibling representation/asset, /patch and /urlgen forms): neighbours then target on a long-lived instance, sequentially and from 8 goroutines, answer compared with a fresh process asked the target only. mix: every MPD/init/media/patch URL over the bundled assets (option sets incl. SegmentTimeline, periods, patch, DRM, low-latency chunks, generated subtitles, SCTE-35; newest and older segments at several instants) served by a fresh server, then twice in shuffled order from 16 goroutines by the same server, by a second fresh server and by a cache-loaded server: (status, content type, body) compared per URL. lookup: generated vodroots with nested/prefix-related asset paths and representation ids contained in each other, each URL 2x25 times on fresh servers, answering object compared with the Coq model. race: the mix and the ingest API under the Go race detector. distinct = distinct (vodroot, URL) look-up cases plus distinct mix URLs; non-trivial = answered 200"
	return nil
}

func replayC07(c *lib.Ctx) error {
	in, err := lib.LoadReplayInput[c07in](c.Replay)
	if err != nil {
		return err
	}
	switch in.Kind {
	case "limiter-burst":
		br := limiterBurst(int(in.Seed))
		if br.err != nil {
			return br.err
		}
		for _, f := range br.fails {
			c.Fail("replay", f.Key, f.What, f.Input)
			fmt.Printf("replay C07: %s: %s\n", f.Key, f.What)
		}
	case "history":
		if in.History == nil {
			return fmt.Errorf("replay: no history")
		}
		if err := replayHistory(c, in); err != nil {
			return err
		}
		if len(c.Res.OracleFailures) == 0 {
			// the state that matters may have been left by earlier histories of the run: run them all
			if _, err := runHistories(c); err != nil {
				return err
			}
			var keep []lib.Failure
			for _, f := range c.Res.OracleFailures {
				if strings.HasSuffix(f.Case, in.URL) {
					keep = append(keep, f)
					fmt.Printf("replay C07: %s: %s\n", f.Key, f.What)
				}
			}
			c.Res.OracleFailures = keep
		}
	case "mix":
		nInst := 2
		if c.Thorough() {
			nInst = 12
		}
		_, fails, err := runMix(in.Seed, nInst, nil)
		if err != nil {
			return err
		}
		for _, f := range fails {
			if in.URL == "" || strings.HasSuffix(f.Case, in.URL) {
				c.Fail("replay", f.Key, f.What, f.Input)
				fmt.Printf("replay C07: %s: %s\n", f.Key, f.What)
			}
		}
	case "lookup":
		if in.Lookup == nil {
			return fmt.Errorf("replay: no look-up set")
		}
		obs, err := runLookupSet(*in.Lookup, 3, 40)
		if err != nil {
			return err
		}
		for _, o := range obs {
			if in.URL != "" && o.URL != in.URL {
				continue
			}
			fmt.Printf("replay C07: %s -> %v\n", o.URL, o.Outcomes)
			lookupOracle(c, "replay", *in.Lookup, o)
		}
	case "race":
		rb := startRaceBuild(c)
		racePart(c, startRaceJobs(c.Seed, c.Thorough(), rb))
		for _, f := range c.Res.OracleFailures {
			fmt.Printf("replay C07: %s: %s\n", f.Key, f.What)
		}
	}
	return nil
}

func sortedKeys(m map[string]int) []string {
	var ks []string
	for k := range m {
		ks = append(ks, k)
	}
	sort.Strings(ks)
	return ks
}

var _ = url.QueryEscape
