package main

import (
	"bytes"
	"context"
	"encoding/json"
	"fmt"
	"io"
	"net/http"
	"net/http/httptest"
	"os"
	"os/exec"
	"path/filepath"
	"regexp"
	"sort"
	"strconv"
	"strings"
	"sync"
	"time"

	"verifharness/lib"
)

type childIn struct {
	Seed     int64 `json:"seed"`
	Instants int   `json:"instants"`
	Mix      bool  `json:"mix"`
	Ingest   bool  `json:"ingest"`
	Storm    bool  `json:"storm"`
}

type childFail struct {
	Key  string `json:"key"`
	What string `json:"what"`
	URL  string `json:"url,omitempty"`
}

// ingestAPI: 16 clients create, inspect, step and delete CMAF-ingest sessions concurrently
// (step mode: testNowMS set, so no wall-clock pacing); the destination is a local sink.
func ingestAPI(seed int64) (fails []childFail) {
	fail := func(key, what string) {
		if len(fails) < 10 {
			fails = append(fails, childFail{Key: key, What: what})
		}
	}
	sink := httptest.NewServer(http.HandlerFunc(func(w http.ResponseWriter, r *http.Request) {
		_, _ = io.Copy(io.Discard, r.Body)
		w.WriteHeader(http.StatusOK)
	}))
	defer sink.Close()
	ls, err := lib.NewLivesim(lib.TestVodRoot, nil)
	if err != nil {
		fail("setup", err.Error())
		return
	}
	var mu sync.Mutex
	ids := map[string]string{} // id -> destName of its creator
	var wg sync.WaitGroup
	gate := make(chan struct{})
	for g := 0; g < 16; g++ {
		wg.Add(1)
		go func(g int) {
			defer wg.Done()
			<-gate
			for k := 0; k < 3; k++ {
				name := fmt.Sprintf("dest-%d-%d", g, k)
				body := fmt.Sprintf(`{"destRoot":%q,"destName":%q,"livesimURL":"/livesim2/testpic_2s/Manifest.mpd","testNowMS":100000,"duration":4}`, sink.URL, name)
				r := ls.Do("POST", "/api/cmaf-ingests", strings.NewReader(body), map[string]string{"Content-Type": "application/json"})
				if r.Status/100 != 2 {
					fail("ingest:create", fmt.Sprintf("POST /api/cmaf-ingests -> %d %s", r.Status, tail(string(r.Body), 200)))
					continue
				}
				var cr struct {
					ID       string `json:"id"`
					DestName string `json:"destName"`
				}
				_ = json.Unmarshal(r.Body, &cr)
				mu.Lock()
				if other, dup := ids[cr.ID]; dup {
					fail("ingest:duplicate-id", fmt.Sprintf("id %s handed to %s and to %s", cr.ID, other, name))
				}
				ids[cr.ID] = name
				mu.Unlock()
				g1 := ls.Do("GET", "/api/cmaf-ingests/"+cr.ID, nil, nil)
				var info struct {
					DestName string `json:"destName"`
				}
				_ = json.Unmarshal(g1.Body, &info)
				if g1.Status != 200 || info.DestName != name {
					fail("ingest:info", fmt.Sprintf("GET /api/cmaf-ingests/%s -> %d destName %q, created with %q", cr.ID, g1.Status, info.DestName, name))
				}
				// the step handler blocks on an unbuffered channel until the session goroutine takes the
				// trigger (for ever if the session has ended): give it half a second
				stepped := make(chan struct{})
				go func() {
					_ = ls.Do("GET", "/api/cmaf-ingests/"+cr.ID+"/step", nil, nil)
					close(stepped)
				}()
				select {
				case <-stepped:
				case <-time.After(500 * time.Millisecond):
				}
				d := ls.Do("DELETE", "/api/cmaf-ingests/"+cr.ID, nil, nil)
				if d.Status/100 != 2 {
					fail("ingest:delete", fmt.Sprintf("DELETE /api/cmaf-ingests/%s -> %d", cr.ID, d.Status))
				}
			}
		}(g)
	}
	close(gate)
	wg.Wait()
	time.Sleep(50 * time.Millisecond)
	return
}

func raceChild(args []string) {
	lib.QuietLogs()
	var in childIn
	if err := json.Unmarshal([]byte(args[0]), &in); err != nil {
		fmt.Fprintln(os.Stderr, "racechild:", err)
		os.Exit(3)
	}
	var out []childFail
	if in.Mix {
		_, fails, err := runMix(in.Seed, in.Instants, nil)
		if err != nil {
			out = append(out, childFail{Key: "setup", What: err.Error()})
		}
		for _, f := range fails {
			u := ""
			if ci, ok := f.Input.(c07in); ok {
				u = ci.URL
			}
			out = append(out, childFail{Key: f.Key, What: f.What, URL: u})
		}
	}
	if in.Ingest {
		out = append(out, ingestAPI(in.Seed)...)
	}
	if in.Storm {
		if err := stormOnly(in.Seed); err != nil {
			out = append(out, childFail{Key: "setup", What: err.Error()})
		}
	}
	data, _ := json.Marshal(out)
	fmt.Println("C07RESULT " + string(data))
}

// ---------------------------------------------------------------- race build and report parsing

type raceBuild struct {
	done chan struct{}
	exe  string
	err  string
	secs float64
}

func harnessDir() string {
	if exe, err := os.Executable(); err == nil {
		d := filepath.Dir(filepath.Dir(exe))
		if _, err := os.Stat(filepath.Join(d, "go.mod")); err == nil {
			return d
		}
	}
	wd, _ := os.Getwd()
	return wd
}

func startRaceBuild(c *lib.Ctx) *raceBuild {
	rb := &raceBuild{done: make(chan struct{}), exe: filepath.Join(c.Out, "c07race")}
	go func() {
		defer close(rb.done)
		t0 := time.Now()
		ctx, cancel := context.WithTimeout(context.Background(), 900*time.Second)
		defer cancel()
		cmd := exec.CommandContext(ctx, "go", "build", "-race", "-tags", "verif", "-o", rb.exe, "./cmd/c07")
		cmd.Dir = harnessDir()
		cmd.Env = append(os.Environ(), "CGO_ENABLED=1")
		out, err := cmd.CombinedOutput()
		rb.secs = time.Since(t0).Seconds()
		if err != nil {
			rb.err = fmt.Sprintf("%v: %s", err, tail(string(out), 600))
		}
	}()
	return rb
}

func tail(s string, n int) string {
	if len(s) > n {
		return s[len(s)-n:]
	}
	return s
}

var raceFrameRe = regexp.MustCompile(`^\s+(\S*Dash-Industry-Forum/livesim2/\S+?)\(\)\s*$`)
var fatalRe = regexp.MustCompile(`(?m)^(fatal error: .*|panic: .*)$`)

func normFunc(f string) string {
	if i := strings.LastIndex(f, "/"); i >= 0 {
		f = f[i+1:]
	}
	if i := strings.Index(f, "."); i >= 0 {
		f = f[i+1:]
	}
	f = strings.ReplaceAll(f, "(*", "")
	f = strings.ReplaceAll(f, ")", "")
	if i := strings.Index(f, ".func"); i >= 0 {
		f = f[:i] + "$closure"
	}
	if i := strings.Index(f, ".gowrap"); i >= 0 {
		f = f[:i]
	}
	if i := strings.Index(f, "[..."); i >= 0 {
		f = f[:i]
	}
	return f
}

// cutArgs removes the argument list of a traceback line "pkg.(*T).Method(0x…, …)" / "pkg.f(...)".
func cutArgs(l string) string {
	for i := 0; i < len(l); i++ {
		if l[i] == '(' && !(i+1 < len(l) && l[i+1] == '*') {
			return l[:i]
		}
	}
	return l
}

func parseRaces(stderr string) [][2]string {
	var out [][2]string
	seen := map[string]bool{}
	for _, block := range strings.Split(stderr, "WARNING: DATA RACE")[1:] {
		if i := strings.Index(block, "\nGoroutine "); i >= 0 {
			block = block[:i]
		}
		var tops []string
		want := false
		for _, line := range strings.Split(block, "\n") {
			l := strings.TrimSpace(line)
			if strings.HasPrefix(l, "Read at") || strings.HasPrefix(l, "Write at") || strings.HasPrefix(l, "Previous read at") ||
				strings.HasPrefix(l, "Previous write at") || strings.HasPrefix(l, "Atomic") || strings.HasPrefix(l, "Previous atomic") {
				want = true
				continue
			}
			if want {
				if m := raceFrameRe.FindStringSubmatch(line); m != nil {
					tops = append(tops, normFunc(m[1]))
					want = false
				}
			}
		}
		k := "?/?"
		p := [2]string{"?", "?"}
		if len(tops) == 2 {
			sort.Strings(tops)
			p = [2]string{tops[0], tops[1]}
			k = tops[0] + "/" + tops[1]
		}
		if !seen[k] {
			seen[k] = true
			out = append(out, p)
		}
	}
	return out
}

// runChild runs one child (plain or -race build) and converts what it found into failures.
func runChild(sink *[]lib.Failure, exe string, race bool, in childIn, id string) (pairs [][2]string) {
	failf := func(caseID, key, what string, input any) {
		*sink = append(*sink, lib.Failure{Case: caseID, Key: key, What: what, Input: input})
	}
	arg, _ := json.Marshal(in)
	ctx, cancel := context.WithTimeout(context.Background(), 240*time.Second)
	defer cancel()
	cmd := exec.CommandContext(ctx, exe, "racechild", string(arg))
	cmd.Env = append(os.Environ(), "GORACE=exitcode=0 halt_on_error=0 history_size=3")
	var so, se bytes.Buffer
	cmd.Stdout, cmd.Stderr = &so, &se
	err := cmd.Run()
	var res []childFail
	found := false
	for _, line := range strings.Split(so.String(), "\n") {
		if strings.HasPrefix(line, "C07RESULT ") {
			found = json.Unmarshal([]byte(line[len("C07RESULT "):]), &res) == nil
		}
	}
	suffix := ""
	if race {
		suffix = " (under -race)"
	}
	replay := c07in{Kind: "race", Seed: in.Seed}
	if err != nil || !found {
		msg := "crash"
		if m := fatalRe.FindString(se.String()); m != "" {
			msg = m
		}
		first := ""
		for _, l := range strings.Split(se.String(), "\n") {
			if strings.Contains(l, "Dash-Industry-Forum/livesim2/") && strings.Contains(l, "(") {
				first = normFunc(cutArgs(strings.TrimSpace(l)))
				break
			}
		}
		failf(id+"-crash", "conc:fatal:"+msg+":"+first, fmt.Sprintf("the server process died while 16 clients used the ingest API / the request mix%s: %s in %s", suffix, msg, first), replay)
		return nil
	}
	for _, f := range res {
		inp := any(replay)
		if f.URL != "" {
			inp = c07in{Kind: "mix", URL: f.URL, Seed: in.Seed}
		}
		failf(id, f.Key, f.What+suffix, inp)
	}
	if !race {
		return nil
	}
	pairs = parseRaces(se.String())
	for _, p := range pairs {
		blk := se.String()
		if i := strings.Index(blk, "WARNING: DATA RACE"); i >= 0 {
			blk = blk[i:]
		}
		if len(blk) > 1500 {
			blk = blk[:1500]
		}
		failf(id, "race:"+p[0]+"/"+p[1], fmt.Sprintf("the Go race detector reports a data race between %s and %s (16 goroutines: request mix and /api/cmaf-ingests)", p[0], p[1]),
			map[string]any{"kind": "race", "seed": in.Seed, "first_report": blk})
	}
	return pairs
}

// racePart: ingest API in a plain child (a fatal "concurrent map writes" must not take the harness
// down), then mix + ingest API under the race detector; reported races go to Coq for the
// translator-soundness check.
type raceJobs struct {
	done   chan struct{}
	rb     *raceBuild
	ids    []string
	sinks  [][]lib.Failure
	prs    [][][2]string
	ingest int
}

// startRaceJobs runs the child processes (plain and -race builds) in the background, side by side,
// while the harness does its in-process parts.
func startRaceJobs(seed int64, thorough bool, rb *raceBuild) *raceJobs {
	rj := &raceJobs{done: make(chan struct{}), rb: rb}
	go func() {
		defer close(rj.done)
		type job struct {
			exe  string
			race bool
			in   childIn
			id   string
		}
		var jobs []job
		if exe, err := os.Executable(); err == nil {
			reps := 2
			if thorough {
				reps = 6
			}
			for r := 0; r < reps; r++ {
				jobs = append(jobs, job{exe, false, childIn{Seed: seed + int64(r), Ingest: true}, fmt.Sprintf("ingest-%d", r)})
				rj.ingest++
			}
		}
		<-rb.done
		if rb.err == "" {
			inst := 1
			if thorough {
				inst = 4
			}
			jobs = append(jobs, job{rb.exe, true, childIn{Seed: seed, Instants: inst, Mix: true}, "race-mix"},
				job{rb.exe, true, childIn{Seed: seed, Ingest: true}, "race-ingest"},
				job{rb.exe, true, childIn{Seed: seed, Storm: true}, "race-storm"})
		}
		rj.sinks = make([][]lib.Failure, len(jobs))
		rj.prs = make([][][2]string, len(jobs))
		var wg sync.WaitGroup
		for i := range jobs {
			rj.ids = append(rj.ids, jobs[i].id)
			wg.Add(1)
			go func(i int) {
				defer wg.Done()
				rj.prs[i] = runChild(&rj.sinks[i], jobs[i].exe, jobs[i].race, jobs[i].in, jobs[i].id)
			}(i)
		}
		wg.Wait()
	}()
	return rj
}

func racePart(c *lib.Ctx, rj *raceJobs) int {
	<-rj.done
	rb := rj.rb
	n := rj.ingest * 16 * 3 * 4
	for i := 0; i < rj.ingest; i++ {
		c.Count("conc:ingest-api")
	}
	if rb.err != "" {
		c.Res.Notes = append(c.Res.Notes, "race detector not usable here (go build -race failed), concurrent parts ran as stress only: "+rb.err)
		c.Count("race-detector:unavailable")
	}
	var pairs [][2]string
	seenPair := map[[2]string]bool{}
	for i := range rj.sinks {
		for _, f := range rj.sinks[i] {
			c.Fail(f.Case, f.Key, f.What, f.Input)
		}
		for _, p := range rj.prs[i] {
			if !seenPair[p] {
				seenPair[p] = true
				pairs = append(pairs, p)
			}
		}
	}
	if rb.err != "" {
		return n
	}
	c.Count(fmt.Sprintf("race-detector:ran(build %.0fs)", rb.secs))
	var obs []string
	for i, p := range pairs {
		id := 900000 + i
		c.Res.Inputs[strconv.Itoa(id)] = map[string]any{"kind": "race", "seed": c.Seed, "race_between": p}
		obs = append(obs, fmt.Sprintf("(%d, (%s, %s))", id, lib.CoqString(p[0]), lib.CoqString(p[1])))
	}
	content := "From Verif Require Import GoSem Conc CorrC07.\nFrom VerifGen Require Import Access.\nOpen Scope Z_scope.\n" +
		"(* data races reported by the Go race detector; M lists those that no generated access table accounts for *)\n" +
		"Definition M := Eval vm_compute in unlisted_races_all Access.all_tables [" + strings.Join(obs, "; ") + "].\nPrint M.\n"
	c.WriteCases("cases_C07_race.v", content)
	return n + 1000
}
