// c08: hostile requests through the real routers of livesim2 and of the CMAF-ingest receiver.
// Every request is served in a worker process (worker.go) under a 5 s watchdog; the class
// {status, Panic(site), Hang, Crash} is compared with the Coq handler model (cases_C08_*.v) and
// judged by the oracle: no panic, no hang, no crash; malformed parameter -> 4xx; unknown asset or
// segment -> 404.
package main

import (
	"bufio"
	"encoding/base64"
	"encoding/binary"
	"encoding/json"
	"fmt"
	"math/rand"
	neturl "net/url"
	"os"
	"os/exec"
	"path"
	"path/filepath"
	"regexp"
	"sort"
	"strconv"
	"strings"
	"sync"
	"time"

	"verifharness/lib"
)

func main() {
	if len(os.Args) > 1 && os.Args[1] == "-worker" {
		workerMain()
		return
	}
	lib.Main("C08", runC08)
}

// ---------------------------------------------------------------- worker handling

type worker struct {
	cmd    *exec.Cmd
	in     *bufio.Writer
	inPipe interface{ Close() error }
	lines  chan string
	stderr *lockedBuf
}

type lockedBuf struct {
	mu sync.Mutex
	b  []byte
}

func (l *lockedBuf) Write(p []byte) (int, error) {
	l.mu.Lock()
	defer l.mu.Unlock()
	l.b = append(l.b, p...)
	if len(l.b) > 1<<20 {
		l.b = l.b[len(l.b)-(1<<19):]
	}
	return len(p), nil
}
func (l *lockedBuf) String() string {
	l.mu.Lock()
	defer l.mu.Unlock()
	return string(l.b)
}

func startWorker() (*worker, error) {
	exe, err := os.Executable()
	if err != nil {
		return nil, err
	}
	r, w, err := os.Pipe()
	if err != nil {
		return nil, err
	}
	cmd := exec.Command(exe, "-worker")
	cmd.ExtraFiles = []*os.File{w}
	cmd.Env = append(os.Environ(), "GOMEMLIMIT=off")
	stdin, err := cmd.StdinPipe()
	if err != nil {
		return nil, err
	}
	eb := &lockedBuf{}
	cmd.Stderr = eb
	cmd.Stdout = nil
	if err := cmd.Start(); err != nil {
		return nil, err
	}
	w.Close()
	wk := &worker{cmd: cmd, in: bufio.NewWriter(stdin), inPipe: stdin, lines: make(chan string, 4), stderr: eb}
	go func() {
		sc := bufio.NewScanner(r)
		sc.Buffer(make([]byte, 1<<20), 16<<20)
		for sc.Scan() {
			wk.lines <- sc.Text()
		}
		close(wk.lines)
		r.Close()
	}()
	return wk, nil
}

func (w *worker) stop() {
	w.inPipe.Close()
	done := make(chan struct{})
	go func() { w.cmd.Wait(); close(done) }()
	select {
	case <-done:
	case <-time.After(2 * time.Second):
		w.cmd.Process.Kill()
		<-done
	}
}

type pool struct {
	w        *worker
	restarts int
	slow     int
}

var createdID = regexp.MustCompile(`"id"\s*:\s*"?(\d+)`)

var panicLine = regexp.MustCompile(`(?m)^(panic|fatal error): (.*)$`)

// do serves one request. A request that does not return within the 5 s watchdog is sent once more to
// a fresh worker with a 20 s watchdog: a handler that really spins or sleeps without bound fails
// both, a handler that was merely slow because the machine is busy returns the second time (noted
// in the observation). Runaway allocation (heap limit) is not retried.
func (p *pool) do(rq c08req) c08obs { return p.doP(rq, nil) }

// doP: prelude = the earlier requests the state of this one depends on (sent again before the second attempt).
func (p *pool) doP(rq c08req, prelude []c08req) c08obs {
	o := p.do1(rq, 12*time.Second)
	if o.Class == "hang" && !strings.Contains(o.Raw, "allocating") && rq.WatchdogMS == 0 && rq.Kind != "apiseq" {
		for _, pr := range prelude {
			p.do1(pr, 12*time.Second)
		}
		rq2 := rq
		rq2.WatchdogMS = 20000
		o2 := p.do1(rq2, 27*time.Second)
		if o2.Class != "hang" {
			o2.Raw = "slow: no response within 5 s on the first attempt; " + o2.Raw
			p.slow++
			return o2
		}
		o2.Raw = "no response within 5 s and, on a fresh server, within 20 s"
		return o2
	}
	return o
}

// do1 serves one request; a dead or silent worker is replaced.
func (p *pool) do1(rq c08req, silent time.Duration) c08obs {
	if p.w == nil {
		w, err := startWorker()
		if err != nil {
			return c08obs{Class: "crash", Raw: "cannot start worker: " + err.Error()}
		}
		p.w = w
	}
	data, _ := json.Marshal(rq)
	p.w.in.Write(data)
	p.w.in.WriteByte('\n')
	p.w.in.Flush()
	select {
	case line, ok := <-p.w.lines:
		if !ok {
			// the process died while serving this request
			p.w.stop()
			se := p.w.stderr.String()
			p.w = nil
			p.restarts++
			o := c08obs{Class: "crash", Raw: "worker process died"}
			if m := panicLine.FindAllStringSubmatch(se, -1); len(m) > 0 {
				last := m[len(m)-1]
				o.Raw = last[1] + ": " + last[2]
				idx := strings.LastIndex(se, last[0])
				kind := normKind(last[2])
				if last[1] == "fatal error" {
					kind = last[2]
				}
				o.Site = siteFromStack(se[idx:]) + ": " + kind
			}
			return o
		}
		var o c08obs
		if err := json.Unmarshal([]byte(line), &o); err != nil {
			return c08obs{Class: "crash", Raw: "bad worker line"}
		}
		if o.Class == "hang" {
			p.w.stop()
			p.w = nil
			p.restarts++
		}
		return o
	case <-time.After(silent):
		p.w.cmd.Process.Kill()
		p.w.stop()
		p.w = nil
		p.restarts++
		return c08obs{Class: "hang", Raw: "worker silent for 12 s", Site: "process-stalled"}
	}
}

// ---------------------------------------------------------------- cases

type modelReq struct {
	Kind     string      `json:"kind"` // live | license | create | drms
	Path     string      `json:"path,omitempty"`
	Now      string      `json:"now,omitempty"`
	UQ       [][2]string `json:"uq,omitempty"`
	SuffixOK bool        `json:"suffix_ok,omitempty"`
	JSONOK   bool        `json:"json_ok,omitempty"`
	Kids     [][]int     `json:"kids,omitempty"` // nil element = not base64 of 16 bytes
	KidsSet  bool        `json:"kids_set,omitempty"`
	A, B, C  string      `json:",omitempty"`
}

type c08case struct {
	Group  string    `json:"group"`
	Req    c08req    `json:"req"`
	Expect string    `json:"expect,omitempty"` // "", 4xx, 404
	Why    string    `json:"why,omitempty"`
	Model  *modelReq `json:"model,omitempty"`
	Repeat int       `json:"repeat,omitempty"` // k-th repetition of the same request on the same server
	// Prelude: earlier requests of the same run that set up the state this one depends on (uploads to
	// the same track directory, the steps of an API session); a replay sends them first.
	Prelude []c08req `json:"prelude,omitempty"`
}

func queryEscape(v string) string {
	r := strings.NewReplacer("%", "%25", "&", "%26", "+", "%2B", " ", "%20", "#", "%23", ",", "%2C", "{", "%7B", "}", "%7D", "[", "%5B", "]", "%5D", "=", "%3D")
	return r.Replace(v)
}

var safePath = regexp.MustCompile(`^[A-Za-z0-9_\-./,:{}\[\]=*+$]*$`)

// liveCase builds a GET on the /livesim2 router. The model takes part when the path is in its domain.
func liveCase(group, path, now, expect, why string) c08case {
	u := path + "?nowMS=" + now
	cs := c08case{Group: group, Req: c08req{Kind: "live", Method: "GET", URL: u}, Expect: expect, Why: why}
	if safePath.MatchString(path) && safePath.MatchString(now) && !strings.Contains(now, "+") &&
		!strings.Contains(path, "thumbs") && !strings.Contains(path, "imsc1_img") && !strings.Contains(path, "Manifest_") {
		cs.Model = &modelReq{Kind: "live", Path: path, Now: now, UQ: [][2]string{{"nowMS", now}}}
	}
	return cs
}

// ---------------------------------------------------------------- Coq printing

func coqReq(m *modelReq) string {
	switch m.Kind {
	case "live":
		var uq []string
		for _, kv := range m.UQ {
			uq = append(uq, fmt.Sprintf("(%s, [%s])", lib.CoqString(kv[0]), lib.CoqString(kv[1])))
		}
		if m.Now == "100000" && len(m.UQ) == 1 && m.UQ[0] == [2]string{"nowMS", "100000"} {
			return fmt.Sprintf("RLive %s n1 uq1", lib.CoqString(m.Path)) // n1, uq1: shared constants of the cases file
		}
		return fmt.Sprintf("RLive %s %s [%s]", lib.CoqString(m.Path), lib.CoqString(m.Now), strings.Join(uq, "; "))
	case "license":
		var ks []string
		for _, k := range m.Kids {
			if k == nil {
				ks = append(ks, "None")
			} else {
				ks = append(ks, "Some "+lib.ZlistInt(k))
			}
		}
		return fmt.Sprintf("RLicense %s %s [%s]", lib.Cbool(m.SuffixOK), lib.Cbool(m.JSONOK), strings.Join(ks, "; "))
	case "create":
		return fmt.Sprintf("RUrlgenCreate %s %s %s", lib.CoqString(m.A), lib.CoqString(m.B), lib.CoqString(m.C))
	case "drms":
		return fmt.Sprintf("RUrlgenDrms %s", lib.CoqString(m.A))
	}
	return "RUrlgenDrms \"\""
}

// bodyTable shares the texts of error responses between the cases of one file (type-checking a
// string literal is what the evaluation of a cases file spends most of its time on).
type bodyTable struct {
	idx  map[string]int
	defs []string
}

func (b *bodyTable) ref(body string) string {
	if body == "" {
		return "\"\""
	}
	if i, ok := b.idx[body]; ok {
		return fmt.Sprintf("b%d", i)
	}
	i := len(b.defs)
	b.idx[body] = i
	b.defs = append(b.defs, fmt.Sprintf("Definition b%d : string := %s.", i, lib.CoqString(body)))
	return fmt.Sprintf("b%d", i)
}

func coqObs(o c08obs, bt *bodyTable) string {
	switch o.Class {
	case "panic", "crash":
		return "OPanic " + lib.CoqString(o.Site)
	case "hang":
		return "OHang"
	}
	body := ""
	if o.Status >= 400 { // the model only looks at the message of error responses
		body = strings.ReplaceAll(o.Body, "\n", " ")
		if len(body) > 150 {
			body = body[:60] + " ~ " + body[len(body)-80:]
		}
	}
	return fmt.Sprintf("OStatus %d %s", o.Status, bt.ref(body))
}

type envRep struct {
	ID, CType, Pre, Suf, Init string
	Rep                       *lib.VodRep
	Enc                       bool
	CSD                       int64
}

type envAsset struct {
	Path     string
	SegDurMS int64
	LoopMS   int64
	Reps     []envRep
	Ref      int
	MPDs     []string
}

func coqRep(r envRep) string {
	var segs []string
	for _, s := range r.Rep.Segs {
		segs = append(segs, fmt.Sprintf("{| s_st := %d; s_en := %d; s_nr := %d |}", s.Start, s.End, s.Nr))
	}
	csd := "None"
	if r.CSD > 0 {
		csd = fmt.Sprintf("(Some %d)", r.CSD)
	}
	return fmt.Sprintf("{| r_id := %s; r_ctype := %s; r_ts := %d; r_segs := [%s]; r_pre := %s; r_suf := %s; r_init := %s; r_enc := %s; r_preenc := false; r_csd := %s |}",
		lib.CoqString(r.ID), lib.CoqString(r.CType), r.Rep.Timescale, strings.Join(segs, "; "),
		lib.CoqString(r.Pre), lib.CoqString(r.Suf), lib.CoqString(r.Init), lib.Cbool(r.Enc), csd)
}

func coqEnv(assets []envAsset) string {
	var sb strings.Builder
	var names []string
	for i, a := range assets {
		var reps []string
		for _, r := range a.Reps {
			reps = append(reps, coqRep(r))
		}
		var mpds []string
		for _, m := range a.MPDs {
			mpds = append(mpds, lib.CoqString(m))
		}
		fmt.Fprintf(&sb, "Definition asset%d : asset := {| a_path := %s; a_segDurMS := %d; a_loopMS := %d;\n  a_reps := [%s];\n  a_ref := %s;\n  a_mpds := [%s] |}.\n",
			i, lib.CoqString(a.Path), a.SegDurMS, a.LoopMS, strings.Join(reps, ";\n    "), coqRep(a.Reps[a.Ref]), strings.Join(mpds, "; "))
		names = append(names, fmt.Sprintf("asset%d", i))
	}
	fmt.Fprintf(&sb, "Definition env0 : env := {| e_assets := [%s]; e_drm := false |}.\n", strings.Join(names, "; "))
	return sb.String()
}

// loadEnv reads the bundled assets the model knows about, independently of livesim2's loader.
func loadEnv() ([]envAsset, error) {
	var out []envAsset
	for _, name := range []string{"testpic_2s", "testpic_8s", "testpic_alt_seg_dur_stl"} {
		dir := filepath.Join(lib.TestVodRoot, name)
		a := envAsset{Path: name}
		for _, id := range []string{"A48", "V300"} {
			r, _, err := lib.LoadVodRep(filepath.Join(dir, id), id)
			if err != nil {
				return nil, err
			}
			er := envRep{ID: id, Pre: id + "/", Suf: ".m4s", Init: id + "/init.mp4", Rep: r, Enc: true}
			if r.IsAudio {
				er.CType = "audio"
				er.CSD = 1024
			} else {
				er.CType = "video"
				a.Ref = len(a.Reps)
			}
			a.Reps = append(a.Reps, er)
		}
		if name == "testpic_2s" {
			if r, _, err := lib.LoadVodRep(filepath.Join(dir, "imsc1_txt_sv"), "imsc1_txt_sv"); err == nil {
				a.Reps = append(a.Reps, envRep{ID: "imsc1_txt_sv", CType: "text", Pre: "imsc1_txt_sv/", Suf: ".m4s", Init: "imsc1_txt_sv/init.mp4", Rep: r})
			}
		}
		ref := a.Reps[a.Ref].Rep
		a.LoopMS = 1000 * ref.Duration() / ref.Timescale
		a.SegDurMS = a.LoopMS / int64(len(ref.Segs))
		entries, _ := os.ReadDir(dir)
		for _, e := range entries {
			if strings.HasSuffix(e.Name(), ".mpd") {
				a.MPDs = append(a.MPDs, e.Name())
			}
		}
		out = append(out, a)
	}
	return out, nil
}

// ---------------------------------------------------------------- generators

var intKeys = []string{"start", "ast", "stop", "startrel", "stoprel", "dur", "init", "tsbd", "mup", "periods", "xlink", "etp",
	"etpDuration", "peroff", "scte35", "snr", "ltgt", "spd", "timesubsdur", "timesubsreg", "patch"}
var floatKeys = []string{"timeoffset", "ato", "chunkdur"}
var flagKeys = []string{"tfdt", "cont", "insertad", "continuous", "segtimeline", "segtimelinenr", "sidx", "segtimelineloss"}
var otherKeys = []string{"modulo", "utc", "timesubsstpp", "timesubswvtt", "statuscode", "traffic", "drm", "eccp", "annexI"}

func allKeys() []string {
	var k []string
	k = append(k, intKeys...)
	k = append(k, floatKeys...)
	k = append(k, flagKeys...)
	k = append(k, otherKeys...)
	return k
}

var hostileVals = []string{"", "0", "-1", "1", "2147483648", "4294967297", "9223372036854775808", "1e30", "x", "1.5", "inf", "1,2", ",", "{}"}
var extraVals = []string{"nan", "-inf", "9223372036854775807", "-9223372036854775808", "0x10", "1_0", "+5", "-0", "3600", "-3600", "-1000", "5000", "60", "-60"}

func isGoInt(s string) bool   { _, err := strconv.Atoi(s); return err == nil }
func isGoFloat(s string) bool { _, err := strconv.ParseFloat(s, 64); return err == nil }
func inList(s string, l []string) bool {
	for _, x := range l {
		if x == s {
			return true
		}
	}
	return false
}

// malformed: the value cannot be a value of that parameter at all (syntax or documented range).
func malformed(key, val, target string) (bool, string) {
	isMPD := strings.HasPrefix(target, "mpd")
	switch {
	case inList(key, intKeys):
		if !isGoInt(val) {
			return true, "not an integer"
		}
		n, _ := strconv.Atoi(val)
		switch key {
		case "periods":
			if isMPD && (n <= 0 || n > 3600) {
				return true, "periods per hour outside 1..3600"
			}
		case "timesubsdur":
			if target == "subs" && n <= 0 {
				return true, "cue duration must be positive"
			}
		case "timesubsreg":
			if n < 0 || n > 1 {
				return true, "region must be 0 or 1"
			}
		case "tsbd":
			if n < 0 || n > 48*3600 {
				return true, "tsbd outside 0..48h"
			}
		case "mup":
			if n <= 0 {
				return true, "mup must be positive"
			}
		case "scte35":
			if n < 1 || n > 3 {
				return true, "scte35 must be 1..3"
			}
		}
	case inList(key, floatKeys):
		if val == "inf" && key == "ato" {
			return false, ""
		}
		if !isGoFloat(val) {
			return true, "not a number"
		}
		f, _ := strconv.ParseFloat(val, 64)
		if f != f {
			return true, "NaN"
		}
		if key == "chunkdur" && f < 0 {
			return true, "negative chunk duration"
		}
	case key == "modulo":
		return true, "not implemented"
	}
	return false, ""
}

type target struct {
	name   string
	prefix string // extra URL parts before the asset
	tail   string
	now    string
}

func gen(c *lib.Ctx, rng *rand.Rand) []c08case {
	var cs []c08case
	add := func(x c08case) { cs = append(cs, x); c.Count(x.Group) }
	targets := []target{
		{"mpd", "", "testpic_2s/Manifest.mpd", "100000"},
		{"video", "", "testpic_2s/V300/45.m4s", "100000"},
		{"audio", "", "testpic_2s/A48/45.m4s", "100000"},
		{"subs", "timesubsstpp_en/", "testpic_2s/timestpp-en/45.m4s", "100000"},
		{"bu", "", "testpic_2s/bu0/V300/45.m4s", "100000"},
		{"init", "", "testpic_8s/V300/init.mp4", "100000"},
		{"mpd-period-edge", "", "testpic_2s/Manifest.mpd", "7230000"},
		{"video8", "", "testpic_8s/V300/11.m4s", "100000"},
	}
	quickTargets := targets
	keys := allKeys()
	vals := append(append([]string{}, hostileVals...), extraVals...)

	expectFor := func(tname string, parts ...string) (string, string) {
		for _, p := range parts {
			if strings.HasPrefix(p, "segtimeline_") && tname == "subs" {
				tname = "subs-by-time" // the number in the target URL is then read as a time: no range expectation
			}
		}
		for _, p := range parts {
			k, v, ok := strings.Cut(p, "_")
			if !ok {
				continue
			}
			if bad, why := malformed(k, v, tname); bad {
				return "4xx", k + "_" + v + ": " + why
			}
		}
		return "", ""
	}

	// 1. every key x every hostile value, singly, on every target
	for ki, k := range keys {
		for vi, v := range vals {
			for ti, t := range quickTargets {
				if !c.Thorough() && vi >= len(hostileVals) && ti != (ki+vi)%len(quickTargets) && !(k == "timesubsdur" && t.name == "subs") && !(k == "periods" && t.name == "mpd-period-edge") {
					continue // extra values: one rotating target in the quick tier
				}
				if !c.Thorough() && vi < len(hostileVals) && ti >= 5 && ti-5 != (ki+vi)%3 {
					continue // base values: five targets always, one of the other three in rotation
				}
				part := k + "_" + v
				exp, why := expectFor(t.name, part)
				add(liveCase("single:"+t.name, "/livesim2/"+t.prefix+part+"/"+t.tail, t.now, exp, why))
			}
		}
	}
	// 2. pairs
	nPairs := 400
	if c.Thorough() {
		nPairs = 0
		for i, k1 := range keys {
			for _, v1 := range hostileVals {
				for j, k2 := range keys {
					for _, v2 := range hostileVals {
						if j <= i {
							continue
						}
						t := targets[(i+j+len(v1)+len(v2))%len(targets)]
						p1, p2 := k1+"_"+v1, k2+"_"+v2
						exp, why := expectFor(t.name, p1, p2)
						add(liveCase("pair:"+t.name, "/livesim2/"+t.prefix+p1+"/"+p2+"/"+t.tail, t.now, exp, why))
					}
				}
			}
		}
	}
	for i := 0; i < nPairs; i++ {
		k1, k2 := keys[rng.Intn(len(keys))], keys[rng.Intn(len(keys))]
		v1, v2 := vals[rng.Intn(len(vals))], vals[rng.Intn(len(vals))]
		t := targets[rng.Intn(len(targets))]
		p1, p2 := k1+"_"+v1, k2+"_"+v2
		exp, why := expectFor(t.name, p1, p2)
		add(liveCase("pair:"+t.name, "/livesim2/"+t.prefix+p1+"/"+p2+"/"+t.tail, t.now, exp, why))
	}
	// 3. structured parameter values that reach the arithmetic downstream
	special := []struct{ parts, tail, now, exp, why string }{
		{"traffic_u10,", "testpic_2s/bu1/V300/45.m4s", "100000", "4xx", "empty loss pattern for BaseURL 1"},
		{"traffic_12", "testpic_2s/bu0/V300/45.m4s", "100000", "4xx", "loss pattern without a state letter"},
		{"traffic_u10", "testpic_2s/bu9/V300/45.m4s", "100000", "4xx", "BaseURL index 9 of 1"},
		{"traffic_u10", "testpic_2s/bu1/V300/45.m4s", "100000", "4xx", "BaseURL index 1 of 1"},
		{"traffic_u10", "testpic_2s/bu-1/V300/45.m4s", "100000", "", ""},
		{"traffic_u10", "testpic_2s/bux/V300/45.m4s", "100000", "", ""},
		{"traffic_u10", "testpic_2s/bu0/V300/45.m4s", "100000", "", ""},
		{"traffic_u10d10", "testpic_2s/bu0/V300/45.m4s", "110000", "", ""},
		{"traffic_u9223372036854775808d9223372036854775808", "testpic_2s/bu0/V300/45.m4s", "100000", "4xx", "interval length beyond int64"},
		{"traffic_u10,d10", "testpic_2s/bu1/V300/45.m4s", "100000", "", ""},
		{"traffic_d0", "testpic_2s/bu0/V300/45.m4s", "100000", "4xx", "zero-length interval"},
		{"traffic_ud", "testpic_2s/bu0/V300/45.m4s", "100000", "4xx", "zero-length interval"},
		{"periods_0", "testpic_2s/Manifest.mpd", "100000", "4xx", "periods_0"},
		{"periods_5000", "testpic_2s/Manifest.mpd", "100000", "4xx", "periods_5000"},
		{"periods_-1", "testpic_2s/Manifest.mpd", "7230000", "4xx", "periods_-1"},
		{"periods_-60", "testpic_2s/Manifest.mpd", "7230000", "4xx", "periods_-60"},
		{"periods_-60/segtimeline_1", "testpic_2s/Manifest.mpd", "7230000", "4xx", "periods_-60"},
		{"periods_60", "testpic_2s/Manifest.mpd", "7230000", "", ""},
		{"periods_7", "testpic_2s/Manifest.mpd", "7230000", "", ""}, // 3600/7 = 514 s periods: sloppy, but 7 is in range and 514 s is a multiple of 2 s
		{"periods_3600", "testpic_2s/Manifest.mpd", "7230000", "4xx", "period length is no multiple of the segment duration"},
		{"periods_60/continuous_1/segtimelinenr_1", "testpic_2s/Manifest.mpd", "7230000", "", ""},
		{"continuous_1", "testpic_2s/Manifest.mpd", "100000", "4xx", "continuous without periods"},
		{"timesubsstpp_en/timesubsdur_0", "testpic_2s/timestpp-en/45.m4s", "100000", "4xx", "timesubsdur_0"},
		{"timesubsstpp_en/timesubsdur_-500", "testpic_2s/timestpp-en/45.m4s", "100000", "4xx", "timesubsdur_-500"},
		{"timesubswvtt_en/timesubsdur_0", "testpic_2s/timewvtt-en/45.m4s", "100000", "4xx", "timesubsdur_0"},
		{"timesubsstpp_en/timesubsdur_-3001", "testpic_2s/timestpp-en/45.m4s", "100000", "4xx", "timesubsdur_-3001"},
		{"timesubsstpp_en/timesubsdur_-100000", "testpic_2s/timestpp-en/45.m4s", "100000", "4xx", "timesubsdur_-100000"},
		{"timesubsstpp_en/timesubsdur_1500", "testpic_2s/timestpp-en/45.m4s", "100000", "", ""},
		{"timesubsstpp_en,sv", "testpic_2s/timestpp-sv/45.m4s", "100000", "", ""},
		{"timesubsstpp_en", "testpic_2s/timestpp-sv/45.m4s", "100000", "404", "language not configured"},
		{"timesubsstpp_en", "testpic_2s/timestpp-sv/init.mp4", "100000", "404", "language not configured"},
		{"timesubsstpp_en", "testpic_2s/timestpp-en/init.mp4", "100000", "", ""},
		{"timesubsstpp_en/snr_100", "testpic_2s/timestpp-en/45.m4s", "100000", "404", "number below startNumber"},
		{"timesubsstpp_en", "testpic_2s/timestpp-en/-5.m4s", "100000", "404", "negative number"},
		{"timesubsstpp_en", "testpic_2s/timestpp-en/x.m4s", "100000", "404", "no number"},
		{"timesubsstpp_en", "testpic_2s/timestpp-en/45.mp4", "100000", "404", "extension"},
		{"timesubsstpp_en/segtimeline_1", "testpic_2s/timestpp-en/90000.m4s", "100000", "", ""},
		{"timesubsstpp_en/segtimeline_1", "testpic_2s/timestpp-en/90001.m4s", "100000", "404", "time is no segment start"},
		{"ato_2/chunkdur_0.5", "testpic_2s/V300/45.m4s", "100000", "", ""}, // chunk duration 0: one chunk per sample since /repo 1ce6842
		{"chunkdur_1/ato_-2147481.648", "testpic_2s/V300/45.m4s", "100000", "", ""},
		{"chunkdur_1/ato_-1", "testpic_2s/V300/45.m4s", "100000", "4xx", "chunked mode with negative ato"},
		{"chunkdur_1/ato_-3600", "testpic_2s/V300/45.m4s", "100000", "4xx", "chunked mode with negative ato"},
		{"ato_1.5/chunkdur_0.5", "testpic_2s/V300/45.m4s", "100000", "", ""},
		{"ato_1/chunkdur_0.5", "testpic_2s/A48/45.m4s", "100000", "", ""},
		{"ato_3/chunkdur_0.5", "testpic_2s/V300/45.m4s", "100000", "4xx", "chunked mode with ato above the segment duration"},
		{"ato_inf/chunkdur_1", "testpic_2s/V300/45.m4s", "100000", "", ""},
		{"ato_inf/chunkdur_1", "testpic_2s/V300/99999.m4s", "100000", "4xx", "chunked mode with ato_inf"},
		{"ato_1.9/chunkdur_1", "testpic_2s/V300/99999.m4s", "100000", "", ""},
		{"ato_1.9/chunkdur_1", "testpic_2s/V300/50.m4s", "100200", "", ""},
		{"ato_1.999/chunkdur_1", "testpic_2s/V300/50.m4s", "100002", "", ""},
		{"ato_2.0000001/chunkdur_1", "testpic_2s/V300/50.m4s", "100002", "4xx", "ato above the segment duration in chunked mode"},
		{"ato_1.9/chunkdur_1/start_9223372036854775", "testpic_2s/V300/50.m4s", "100200", "", ""},
		{"ato_1.9/chunkdur_1/start_-9223372036854775", "testpic_2s/V300/50.m4s", "100200", "", ""},
		{"ato_1.9/chunkdur_1/timeoffset_-1e15", "testpic_2s/V300/50.m4s", "100200", "", ""},
		{"ato_1.9/chunkdur_1/snr_-2147483648", "testpic_2s/V300/50.m4s", "100200", "", ""},
		{"ato_1.9/chunkdur_1e300/tsbd_172800", "testpic_2s/V300/50.m4s", "100200", "", ""},
		{"ato_1.9/chunkdur_1/segtimeline_1", "testpic_2s/V300/9000000.m4s", "100200", "", ""},
		{"ato_1.9/chunkdur_1", "testpic_2s/A48/50.m4s", "100200", "", ""},
		{"ato_7.9/chunkdur_1", "testpic_8s/V300/12.m4s", "100200", "", ""},
		{"ato_7.9/chunkdur_1", "testpic_8s/V300/99999.m4s", "100200", "", ""},
		{"ato_1e30/chunkdur_1", "testpic_2s/V300/99999.m4s", "100000", "4xx", "chunked mode with ato above the segment duration"},
		{"ato_nan/chunkdur_1", "testpic_2s/V300/45.m4s", "100000", "4xx", "NaN"},
		{"chunkdur_1", "testpic_2s/thumbs/45.jpg", "100000", "", ""},
		{"snr_10", "testpic_2s/A48/5.m4s", "100000", "404", "number below startNumber"},
		{"snr_10", "testpic_2s/V300/5.m4s", "100000", "404", "number below startNumber"},
		{"snr_4294967297", "testpic_2s/V300/2.m4s", "100000", "4xx", "start number beyond 32 bits"},
		{"snr_4294967297", "testpic_2s/V300/1.m4s", "100000", "4xx", "start number beyond 32 bits"},
		{"snr_-1", "testpic_2s/V300/45.m4s", "100000", "", ""},
		{"snr_-5", "testpic_2s/V300/4294967295.m4s", "100000", "", ""},
		{"statuscode_[{cycle:8,rsq:1,code:404}]/start_30", "testpic_2s/V300/45.m4s", "100000", "", ""},
		{"statuscode_[{cycle:8,rsq:1,code:404}]/snr_7", "testpic_2s/V300/45.m4s", "100000", "", ""},
		{"statuscode_[{cycle:8,rsq:1,code:404}]/snr_7", "testpic_2s/V300/8.m4s", "10000", "", ""},
		{"statuscode_[{cycle:8,rsq:1,code:404}]/snr_7", "testpic_2s/A48/9.m4s", "10000", "", ""},
		{"statuscode_[{cycle:8,rsq:0,code:404}]/snr_7", "testpic_2s/V300/7.m4s", "10000", "", ""},
		{"statuscode_[{cycle:2147483648,rsq:0,code:404}]", "testpic_2s/V300/45.m4s", "100000", "", ""},
		{"snr_4294967296", "testpic_2s/V300/45.m4s", "100000", "", ""},
		{"snr_4294967295", "testpic_2s/V300/4294967295.m4s", "100000", "", ""},
		{"periods_-120", "testpic_2s/Manifest.mpd", "7230000", "4xx", "periods_-120"},
		{"periods_3600/tsbd_0", "testpic_8s/Manifest.mpd", "7230000", "4xx", "period length is no multiple of the segment duration"},
		{"statuscode_[{cycle:8,rsq:1,code:404}]", "testpic_2s/V300/45.m4s", "100000", "", ""},
		{"statuscode_[{cycle:8,rsq:1,code:404}]", "testpic_2s/V300/46.m4s", "100000", "", ""},
		{"statuscode_[{cycle:8,rsq:1,code:404,rep:A48}]", "testpic_2s/A48/45.m4s", "100000", "", ""},
		{"statuscode_[{cycle:8,rsq:1,code:404,rep:A48}]", "testpic_2s/V300/45.m4s", "100000", "", ""},
		{"statuscode_[{cycle:8,rsq:1,code:404}]/snr_10", "testpic_2s/A48/5.m4s", "100000", "404", "number below startNumber"},
		{"statuscode_[{cycle:1,rsq:0,code:404}]", "testpic_8s/V300/11.m4s", "100000", "", ""},
		{"statuscode_[{cycle:1152921504606846976,rsq:0,code:404}]", "testpic_2s/V300/45.m4s", "100000", "4xx", "cycle * timescale overflows"},
		{"statuscode_[{cycle:8,rsq:1,code:404},{cycle:0,code:500}]", "testpic_2s/V300/45.m4s", "100000", "4xx", "cycle 0"},
		{"statuscode_[{cycle:8,rsq:1,code:200}]", "testpic_2s/V300/45.m4s", "100000", "4xx", "code outside 400-599"},
		{"statuscode_[{cycle:8,rsq:1}]", "testpic_2s/V300/45.m4s", "100000", "4xx", "no code"},
		{"statuscode_[{cycle:8:9,rsq:1,code:404}]", "testpic_2s/V300/45.m4s", "100000", "4xx", "bad pair"},
		{"statuscode_[{cycle:8,rsq:1,code:404,foo:1}]", "testpic_2s/V300/45.m4s", "100000", "4xx", "unknown key"},
		{"statuscode_[{}]", "testpic_2s/V300/45.m4s", "100000", "4xx", "empty group"},
		{"statuscode_[{cycle:x,rsq:1,code:404}]", "testpic_2s/V300/45.m4s", "100000", "4xx", "cycle not a number"},
		{"statuscode_abc", "testpic_2s/V300/45.m4s", "100000", "4xx", "too short"},
		{"stoprel_x", "testpic_2s/Manifest.mpd", "100000", "4xx", "stoprel_x"},
		{"tsbd_x/stoprel_5", "testpic_2s/Manifest.mpd", "100000", "4xx", "tsbd_x"},
		{"stoprel_-20", "testpic_2s/Manifest.mpd", "100000", "", ""},
		{"startrel_-20/stoprel_20", "testpic_2s/Manifest.mpd", "100000", "", ""},
		{"start_50/stop_60", "testpic_2s/Manifest.mpd", "100000", "", ""},
		{"start_1000/stop_900/periods_60", "testpic_2s/Manifest.mpd", "2000000", "4xx", "stop before start"},
		{"start_1000/stop_0/periods_60", "testpic_2s/Manifest.mpd", "2000000", "4xx", "stop before start"},
		{"start_1000/stop_0/periods_60/segtimeline_1", "testpic_2s/Manifest.mpd", "2000000", "4xx", "stop before start"},
		{"start_1000/stop_900", "testpic_2s/Manifest.mpd", "2000000", "4xx", "stop before start"},
		{"start_1000/stop_1000/periods_60", "testpic_2s/Manifest.mpd", "2000000", "", ""},
		{"startrel_-10/stoprel_-20/periods_60", "testpic_2s/Manifest.mpd", "2000000", "4xx", "stop before start"},
		{"annexI_a", "testpic_2s/Manifest.mpd", "100000", "4xx", "pair without ="},
		{"annexI_a=b", "testpic_2s/Manifest.mpd", "100000", "4xx", "query of the URL does not carry a=b"},
		{"annexI_nowMS=100000", "testpic_2s/Manifest.mpd", "100000", "", ""},
		{"annexI_nowMS=100000", "testpic_2s/V300/45.m4s", "100000", "", ""},
		{"annexI_a=b", "testpic_2s/V300/45.m4s", "100000", "4xx", "query of the URL does not carry a=b"},
		{"annexI_a=b", "testpic_2s/A48/45.m4s", "100000", "", ""},
		{"annexI_a=b=c", "testpic_2s/Manifest.mpd", "100000", "4xx", "two = in a pair"},
		{"annexI_a=b,", "testpic_2s/Manifest.mpd", "100000", "4xx", "empty pair"},
		{"drm_foo", "testpic_2s/V300/init.mp4", "100000", "4xx", "unknown DRM"},
		{"drm_foo", "testpic_2s/V300/45.m4s", "100000", "4xx", "unknown DRM"},
		{"drm_foo", "testpic_2s/Manifest.mpd", "100000", "4xx", "unknown DRM"},
		{"drm_eccp-cenc", "testpic_2s/V300/45.m4s", "100000", "", ""},
		{"eccp_cbcs", "testpic_2s/V300/init.mp4", "100000", "", ""},
		{"eccp_cbcs", "testpic_2s/Manifest.mpd", "100000", "", ""},
		{"eccp_xyz", "testpic_2s/V300/45.m4s", "100000", "4xx", "unknown ECCP scheme"},
		{"eccp_cenc", "testpic_2s/imsc1_txt_sv/45.m4s", "100000", "", ""},
		{"segtimeline_1/ato_inf", "testpic_2s/Manifest.mpd", "100000", "4xx", "ato_inf with SegmentTimeline"},
		{"segtimeline_1/segtimelinenr_1", "testpic_2s/Manifest.mpd", "100000", "4xx", "both timeline types"},
		{"timeoffset_-50.5", "testpic_2s/V300/20.m4s", "100000", "", ""},
		{"timeoffset_1e30", "testpic_2s/V300/45.m4s", "100000", "", ""},
		{"timeoffset_nan", "testpic_2s/V300/45.m4s", "100000", "4xx", "NaN"},
		{"start_90", "testpic_2s/V300/4.m4s", "100000", "", ""},
		{"start_200", "testpic_2s/V300/4.m4s", "100000", "", ""},
		{"start_9223372036854775807", "testpic_2s/V300/4.m4s", "100000", "", ""},
		{"start_-9223372036854775808", "testpic_2s/V300/4.m4s", "100000", "", ""},
		{"start_9223372036854775807", "testpic_2s/Manifest.mpd", "100000", "", ""},
		{"tsbd_172800", "testpic_2s/Manifest.mpd", "100000", "", ""},
		{"tsbd_172801", "testpic_2s/Manifest.mpd", "100000", "4xx", "tsbd above 48 h"},
		{"segtimeline_1/timesubsstpp_en", "testpic_2s/Manifest.mpd", "100000", "", ""},
		{"segtimelinenr_1/timesubswvtt_en/periods_60", "testpic_2s/Manifest.mpd", "7230000", "", ""},
		{"patch_60/segtimeline_1", "testpic_2s/Manifest.mpd", "100000", "", ""},
		{"scte35_2", "testpic_2s/V300/45.m4s", "100000", "", ""},
		{"utc_direct-ntp-head", "testpic_2s/Manifest.mpd", "100000", "", ""},
		{"utc_keep-ntp", "testpic_2s/Manifest.mpd", "100000", "4xx", "keep with other methods"},
		{"utc_foo", "testpic_2s/Manifest.mpd", "100000", "4xx", "unknown UTC method"},
	}
	for _, s := range special {
		add(liveCase("special", "/livesim2/"+s.parts+"/"+s.tail, s.now, s.exp, s.why))
	}
	// every refused request again, three times in a row on ONE server (the sequential worker): a
	// refusal must not depend on what the server has seen before; for parameters that /urlgen/create
	// also parses, that page sees the value first
	urlgenKeys := map[string]string{"statuscode": "statuscode", "traffic": "traffic", "annexI": "annexI", "periods": "periods", "snr": "snr", "ato": "ato", "chunkdur": "chunkdur", "timesubsdur": "timesubsdur", "stoprel": "stoprel", "tsbd": "tsbd"}
	seenRepeat := map[string]bool{}
	addRepeat := func(parts, tail, now, exp, why string, force bool) {
		if (exp != "4xx" && !force) || seenRepeat[parts+"|"+tail] {
			return
		}
		seenRepeat[parts+"|"+tail] = true
		for _, p := range strings.Split(parts, "/") {
			if k, v, ok := strings.Cut(p, "_"); ok && urlgenKeys[k] != "" {
				cs = append(cs, c08case{Group: "repeat:urlgen-first", Req: c08req{Kind: "routerseq", Method: "GET",
					URL: "/urlgen/create?asset=testpic_2s&mpd=Manifest.mpd&stl=nr&" + urlgenKeys[k] + "=" + queryEscape(v)}})
				c.Count("repeat:urlgen-first")
			}
		}
		for k := 0; k < 3; k++ {
			x := liveCase("repeat", "/livesim2/"+parts+"/"+tail, now, exp, why)
			x.Req.Kind = "liveseq"
			x.Repeat = k
			add(x)
		}
	}
	for _, s := range special {
		addRepeat(s.parts, s.tail, s.now, s.exp, s.why, false)
		// the same refused configuration on a media segment (no status expectation: the parameter may
		// not be used there; the answers must agree with each other and with the model)
		if strings.HasSuffix(s.tail, ".mpd") && s.exp == "4xx" {
			addRepeat(s.parts, "testpic_2s/V300/45.m4s", "100000", "", "", true)
		}
	}
	for _, k := range keys {
		for _, v := range []string{"x", "", "1e30", "9223372036854775808", "[{cycle:0,rsq:0,code:404}]", "[{rsq:0,code:404}]", "[{cycle:30,rsq:0,code:1}]", "[{cycle:30,rsq:0,code:1000}]", "[{cycle:30,rsq:-1,code:404}]"} {
			if strings.HasPrefix(v, "[") && k != "statuscode" {
				continue
			}
			if bad, why := malformed(k, v, "video"); bad || k == "statuscode" {
				addRepeat(k+"_"+v, "testpic_2s/V300/45.m4s", "100000", "4xx", k+"_"+v+": "+why, false)
			}
		}
	}
	// 4. segment-name shapes
	shapes := []struct{ parts, tail, now, exp, why string }{
		{"", "testpic_2s/V300/0.m4s", "100000", "", ""},
		{"", "testpic_2s/V300/49.m4s", "100000", "", ""},
		{"", "testpic_2s/V300/50.m4s", "100000", "", ""},
		{"", "testpic_2s/V300/10.m4s", "100000", "", ""},
		{"", "testpic_2s/V300/4294967296.m4s", "100000", "404", "number >= 2^32"},
		{"", "testpic_2s/V300/4294967341.m4s", "100000", "404", "number >= 2^32 (aliases 45)"},
		{"", "testpic_2s/V300/9223372036854775807.m4s", "100000", "404", "number >= 2^32"},
		{"", "testpic_2s/V300/9223372036854775808.m4s", "100000", "404", "number beyond int64"},
		{"", "testpic_2s/V300/99999999999999999999.m4s", "100000", "404", "number beyond int64"},
		{"", "testpic_2s/A48/99999999999999999999.m4s", "100000", "404", "number beyond int64"},
		{"", "testpic_2s/A48/4294967341.m4s", "100000", "404", "number >= 2^32 (aliases 45)"},
		{"", "testpic_2s/V300/-1.m4s", "100000", "404", "negative number"},
		{"", "testpic_2s/V300/x.m4s", "100000", "404", "no number"},
		{"", "testpic_2s/V300/.m4s", "100000", "404", "no number"},
		{"", "testpic_2s/V300/45", "100000", "404", "no extension"},
		{"", "testpic_2s/V300/45.xyz", "100000", "404", "unknown extension"},
		{"", "testpic_2s/V300/45.mp4", "100000", "404", "no such segment"},
		{"", "testpic_2s/V300/45.cmfv", "100000", "404", "no such segment"},
		{"", "testpic_2s/V300/45.jpg", "100000", "404", "no such segment"},
		{"", "testpic_2s/V999/45.m4s", "100000", "404", "unknown representation"},
		{"", "testpic_2s/V300/init.mp4", "100000", "", ""},
		{"", "testpic_2s/V999/init.mp4", "100000", "404", "unknown representation"},
		{"", "testpic_2s/45.m4s", "100000", "404", "no representation"},
		{"", "testpic_2s/.m4s", "100000", "404", "no representation"},
		{"", "testpic_2s//V300/45.m4s", "100000", "", ""},
		{"", "testpic_2s/x/V300/45.m4s", "100000", "", ""},
		{"", "testpic_2sX/V300/45.m4s", "100000", "404", "unknown asset"},
		{"", "testpic_2/V300/45.m4s", "100000", "404", "unknown asset"},
		{"", "nosuch/V300/45.m4s", "100000", "404", "unknown asset"},
		{"", "nosuch/Manifest.mpd", "100000", "404", "unknown asset"},
		{"", "testpic_2s/Nosuch.mpd", "100000", "404", "unknown MPD"},
		{"", "testpic_2s/x/Manifest.mpd", "100000", "", ""},
		{"", "testpic_2s/Manifest.mpd", "0", "", ""},
		{"", "testpic_2s/Manifest.mpd", "-1", "4xx", "negative nowMS"},
		{"", "testpic_2s/Manifest.mpd", "x", "4xx", "nowMS not a number"},
		{"", "testpic_2s/Manifest.mpd", "9223372036854775807", "", ""},
		{"", "testpic_2s/Manifest.mpd", "9223372036854775808", "4xx", "nowMS beyond int64"},
		{"", "testpic_2s/V300/45.m4s", "9223372036854775807", "", ""},
		{"", "testpic_2s/Manifest.mpd", "1099511627776", "", ""},
		{"", "testpic_2s/V300/549755813887.m4s", "1099511627776", "404", "number >= 2^32"},
		{"", "testpic_2s", "100000", "404", "no file"},
		{"", "testpic_2s/", "100000", "404", "no file"},
		{"", "", "100000", "4xx", "no content"},
		{"tsbd_1", "", "100000", "4xx", "no content"},
		{"segtimeline_1", "testpic_2s/V300/8100000.m4s", "100000", "", ""},
		{"segtimeline_1", "testpic_2s/V300/8100001.m4s", "100000", "404", "time is no segment start"},
		{"segtimeline_1", "testpic_2s/V300/8099999.m4s", "100000", "404", "time is no segment start"},
		{"segtimeline_1", "testpic_2s/V300/0.m4s", "100000", "", ""},
		{"segtimeline_1", "testpic_2s/V300/18446744073709551615.m4s", "100000", "404", "time beyond int64"},
		{"segtimeline_1", "testpic_2s/V300/9223372036854775807.m4s", "100000", "404", "time is no segment start"},
		{"segtimeline_1", "testpic_2s/A48/4320256.m4s", "100000", "", ""},
		{"segtimeline_1", "testpic_2s/A48/4320257.m4s", "100000", "404", "time is no multiple of the sample duration"},
		{"segtimeline_1", "testpic_2s/A48/4321280.m4s", "100000", "404", "time is no segment start"},
		{"segtimeline_1", "testpic_2s/A48/0.m4s", "100000", "", ""},
		{"segtimeline_1/start_1000", "testpic_2s/A48/4320256.m4s", "1100000", "", ""},
		{"segtimelinenr_1", "testpic_2s/V300/45.m4s", "100000", "", ""},
		{"segtimelinenr_1/snr_5", "testpic_2s/V300/4.m4s", "100000", "404", "number below startNumber"},
		{"", "testpic_8s/V300/11.m4s", "100000", "", ""},
		{"", "testpic_8s/V300/12.m4s", "100000", "", ""},
		{"", "testpic_8s/A48/11.m4s", "100000", "", ""},
		{"", "testpic_2s/thumbs/45.jpg", "100000", "", ""},
		{"snr_100", "testpic_2s/thumbs/45.jpg", "100000", "404", "number below startNumber"},
		{"", "testpic_2s/imsc1_txt_sv/45.m4s", "100000", "", ""},
		{"", "testpic_2s/Manifest_thumbs.mpd", "100000", "", ""},
		{"periods_60", "testpic_2s/Manifest_thumbs.mpd", "7230000", "", ""},
		{"segtimeline_1/periods_60", "testpic_2s/Manifest_imsc1.mpd", "7230000", "", ""},
		{"", "testpic_2s/V300/45.m4s%00", "100000", "4xx", "NUL in name"},
		{"", "testpic_2s/V300/%2e%2e/%2e%2e/V300/45.m4s", "100000", "", ""},
		{"", "testpic_2s/V300/4 5.m4s", "100000", "404", "space in name"},
		{"tsbd_%31", "testpic_2s/Manifest.mpd", "100000", "", ""},
		{"tsbd_%zz", "testpic_2s/Manifest.mpd", "100000", "4xx", "bad escape"},
	}
	for _, s := range shapes {
		p := "/livesim2/"
		if s.parts != "" {
			p += s.parts + "/"
		}
		add(liveCase("shape", p+s.tail, s.now, s.exp, s.why))
	}
	// configuration-looking components behind the configuration: after the asset name, between asset
	// and MPD name, inside the segment path - every key, with and without a Location-producing prefix
	{
		val := map[string]string{"statuscode": "[{cycle:8,rsq:1,code:404}]", "traffic": "u10", "utc": "ntp", "timesubsstpp": "en", "timesubswvtt": "en",
			"drm": "foo", "eccp": "cenc", "annexI": "a=b", "ato": "1", "chunkdur": "1", "timeoffset": "1"}
		places := []string{"testpic_2s/%s/Manifest.mpd", "testpic_2s/%s/V300/45.m4s", "testpic_2s/V300/%s/45.m4s", "testpic_2s/V300/%s", "testpic_2s/%s", "%s/testpic_2s/%s/Manifest.mpd"}
		prefixes := []string{"", "startrel_-20/", "stoprel_20/", "startrel_-20/stoprel_20/"}
		for ki, k := range keys {
			v := val[k]
			if v == "" {
				v = "1"
			}
			part := k + "_" + v
			for pi, pl := range places {
				for xi, pre := range prefixes {
					if !c.Thorough() && (ki+pi+xi)%3 != 0 && !(k == "stoprel" || k == "startrel" || k == "stop") {
						continue
					}
					tail := strings.ReplaceAll(pl, "%s", part)
					if !strings.Contains(tail, ".") {
						tail += ".mpd"
					}
					add(liveCase("misplaced", "/livesim2/"+pre+tail, "100000", "", ""))
				}
			}
		}
	}
	// $Time$ values that are and are not segment starts, systematically: multiples of every segment
	// duration of the representation, of the first and of the mean duration, half durations, frame
	// multiples, each over more than two loops; video, audio and generated subtitles; also on the asset
	// with varying segment durations. The expectation comes from the harness's own segment table.
	for _, an := range []string{"testpic_alt_seg_dur_stl", "testpic_2s", "testpic_8s"} {
		vr, _, err := lib.LoadVodRep(filepath.Join(lib.TestVodRoot, an, "V300"), "V300")
		if err != nil || len(vr.Segs) == 0 {
			continue
		}
		loop := vr.Duration()
		starts := map[int64]bool{}
		durs := map[int64]bool{}
		for _, sg := range vr.Segs {
			starts[sg.Start-vr.Segs[0].Start] = true
			durs[sg.End-sg.Start] = true
		}
		grid := map[int64]bool{}
		steps := []int64{loop / int64(len(vr.Segs)), vr.Segs[0].End - vr.Segs[0].Start, 3000, 1024 * vr.Timescale / 48000}
		for d := range durs {
			steps = append(steps, d, d/2)
		}
		for _, st := range steps {
			if st <= 0 {
				continue
			}
			fine := st*8 < vr.Segs[0].End-vr.Segs[0].Start && !c.Thorough() // frame-sized steps: the first ones and those around the loop ends
			for t := int64(0); t <= 2*loop+st; t += st {
				k := t / st
				if fine && k > 6 && (t%loop) > 2*st && loop-(t%loop) > 2*st {
					continue
				}
				grid[t] = true
				if c.Thorough() {
					grid[t+1] = true
				}
			}
		}
		var ts []int64
		for t := range grid {
			ts = append(ts, t)
		}
		sort.Slice(ts, func(i, j int) bool { return ts[i] < ts[j] })
		for i, t := range ts {
			if !c.Thorough() && an != "testpic_alt_seg_dur_stl" && i%3 != 0 {
				continue
			}
			isStart := starts[t%loop]
			exp, why := "404", "time is no segment start"
			if isStart {
				exp, why = "", ""
			}
			now := strconv.FormatInt(t*1000/vr.Timescale+20000, 10)
			add(liveCase("time-grid", fmt.Sprintf("/livesim2/segtimeline_1/%s/V300/%d.m4s", an, t), now, exp, why))
			// audio: the time scaled to 48 kHz and floored to a frame; only "no crash" is asserted
			at := t * 48000 / vr.Timescale / 1024 * 1024
			add(liveCase("time-grid", fmt.Sprintf("/livesim2/segtimeline_1/%s/A48/%d.m4s", an, at), now, "", ""))
			// generated subtitles count in milliseconds
			if t*1000%vr.Timescale == 0 {
				add(liveCase("time-grid", fmt.Sprintf("/livesim2/segtimeline_1/timesubsstpp_en/%s/timestpp-en/%d.m4s", an, t*1000/vr.Timescale), now, exp, why))
				if i%2 == 0 {
					add(liveCase("time-grid", fmt.Sprintf("/livesim2/segtimeline_1/timesubswvtt_en/%s/timewvtt-en/%d.m4s", an, t*1000/vr.Timescale), now, exp, why))
				}
			}
		}
	}
	// URL-escaped characters in every path position: directly after the asset path, inside
	// configuration values, inside representation and segment names, in MPD names (oracle only:
	// escapes are outside the model's path domain)
	{
		escapes := []string{"%3F", "%3f", "%23", "%2F", "%2f", "%25", "%00", "%20", "%2B", "%5C", "%7B", "%0A", "%C3%A4", "%", "%zz", "%3"}
		shapes := []string{"testpic_2s@.m4s", "testpic_2s@", "testpic_2s@.mpd", "testpic_2s@/V300/45.m4s", "testpic_2s@Manifest.mpd", "testpic_2s/@V300/45.m4s",
			"testpic_2s/V300@/45.m4s", "testpic_2s/V3@00/45.m4s", "testpic_2s/V300/@45.m4s", "testpic_2s/V300/45@.m4s", "testpic_2s/V300/45.m4s@", "testpic_2s/V300/45.m@4s",
			"testpic_2s/Manifest@.mpd", "testpic_2s/Manifest.mpd@", "testpic_2s/V300/init@.mp4", "testpic_2@s/V300/45.m4s", "@testpic_2s/V300/45.m4s",
			"tsbd_3@0/testpic_2s/Manifest.mpd", "tsbd@_30/testpic_2s/Manifest.mpd", "traffic_u10@/testpic_2s/bu0/V300/45.m4s", "traffic_u10/testpic_2s@.m4s", "traffic_u10/testpic_2s/bu0@/V300/45.m4s",
			"statuscode_[{cycle:8,rsq:1,code:404}]@/testpic_2s/V300/45.m4s", "timesubsstpp_en@/testpic_2s/timestpp-en/45.m4s", "timesubsstpp_en/testpic_2s/timestpp-en@/45.m4s",
			"annexI_a=b@/testpic_2s/Manifest.mpd", "drm_foo@/testpic_2s/V300/45.m4s", "chunkdur_1/testpic_2s@.m4s", "segtimeline_1/testpic_2s/V300/8100000@.m4s"}
		for si, sh := range shapes {
			for ei, e := range escapes {
				if !c.Thorough() && ei >= 8 && (si+ei)%4 != 0 {
					continue
				}
				u := "/livesim2/" + strings.ReplaceAll(sh, "@", e)
				add(c08case{Group: "escapes", Expect: "deliberate", Why: "URL-escaped character in the path", Req: c08req{Kind: "live", Method: "GET", URL: u + "?nowMS=100000"}})
				if si%5 == 0 {
					add(c08case{Group: "escapes", Expect: "deliberate", Why: "URL-escaped character in the path", Req: c08req{Kind: "router", Method: "GET", URL: "/patch" + u + "?publishTime=1970-01-01T00:01:30Z&nowMS=100000"}})
				}
			}
		}
	}
	// numbers around the live edge and far away, each representation
	for _, rep := range []string{"V300", "A48"} {
		for _, nr := range []int{0, 1, 13, 14, 15, 20, 44, 45, 48, 49, 50, 51, 60, 1000, 4294967295} {
			for _, pre := range []string{"", "snr_3/", "start_40/", "tsbd_10/", "ato_1.5/", "ato_inf/", "timeoffset_10/", "segtimelinenr_1/"} {
				add(liveCase("edge", fmt.Sprintf("/livesim2/%stestpic_2s/%s/%d.m4s", pre, rep, nr), "100000", "", ""))
			}
		}
	}
	// other methods on the live router
	for _, m := range []string{"HEAD", "OPTIONS", "PUT", "DELETE", "PATCH"} {
		add(c08case{Group: "method", Req: c08req{Kind: "router", Method: m, URL: "/livesim2/periods_0/testpic_2s/Manifest.mpd?nowMS=100000"}})
		add(c08case{Group: "method", Req: c08req{Kind: "router", Method: m, URL: "/livesim2/testpic_2s/V300/45.m4s?nowMS=100000"}})
	}
	// 5. other endpoints through the full router
	get := func(group, url, exp, why string, m *modelReq) {
		add(c08case{Group: group, Req: c08req{Kind: "router", Method: "GET", URL: url}, Expect: exp, Why: why, Model: m})
	}
	for _, v := range append(append([]string{}, hostileVals...), "60", "3500") {
		q := strings.ReplaceAll(v, ",", "%2C")
		q = strings.ReplaceAll(q, "{", "%7B")
		q = strings.ReplaceAll(q, "}", "%7D")
		bad := v != "" && !isGoInt(v)
		exp, why := "", ""
		if bad {
			exp, why = "4xx", "not an integer"
		}
		get("urlgen", "/urlgen/create?asset=testpic_2s&mpd=Manifest.mpd&stl=nr&tsbd="+q, exp, why, &modelReq{Kind: "create", A: v})
		get("urlgen", "/urlgen/create?asset=testpic_2s&mpd=Manifest.mpd&stl=tlt&ltgt="+q, exp, why, &modelReq{Kind: "create", B: v})
		get("urlgen", "/urlgen/create?asset=testpic_2s&mpd=Manifest.mpd&stl=tlnr&patch-ttl="+q, exp, why, &modelReq{Kind: "create", C: v})
		get("urlgen", "/urlgen/create?asset=testpic_2s&mpd=Manifest.mpd&periods="+q+"&snr="+q+"&ato="+q+"&traffic="+q+"&statuscode="+q+"&annexI="+q, "", "", nil)
	}
	get("urlgen", "/urlgen/create", "", "", &modelReq{Kind: "create"})
	get("urlgen", "/urlgen/create?stl=zzz&asset=nosuch&drm=foo", "", "", nil)
	get("urlgen", "/urlgen/drms?asset=testpic_2s", "", "", &modelReq{Kind: "drms", A: "testpic_2s"})
	get("urlgen", "/urlgen/drms?asset=nosuch", "", "", &modelReq{Kind: "drms", A: "nosuch"})
	get("urlgen", "/urlgen/drms", "", "", &modelReq{Kind: "drms", A: ""})
	get("urlgen", "/urlgen/mpds?asset=testpic_2s", "", "", nil)
	get("urlgen", "/urlgen/mpds?asset=nosuch", "", "", nil)
	get("urlgen", "/urlgen/", "", "", nil)
	get("urlgen", "/urlgen", "", "", nil)
	get("urlgen", "/urlgen/nosuch", "", "", nil)
	for _, u := range []string{"/", "/healthz", "/config", "/version", "/assets", "/vod", "/reqcount", "/static/nosuch", "/static/time.txt",
		"/vod/testpic_2s/Manifest.mpd", "/vod/nosuch", "/vod/testpic_2s/V300/1.m4s", "/vod/../../etc/passwd", "/livesim/testpic_2s/Manifest.mpd",
		"/dash/vod/testpic_2s/Manifest.mpd", "/nosuch", "/metrics",
		"/api/cmaf-ingests/1", "/api/cmaf-ingests/x", "/api/cmaf-ingests/99999999999999999999", "/api/cmaf-ingests/1/step", "/api/cmaf-ingests/-1/step", "/api/", "/api/docs", "/api/openapi.json", "/api/nosuch"} {
		get("endpoint", u, "", "", nil)
	}
	for _, b := range []string{``, `{}`, `x`, `{"user":1}`, `{"destination":"http://127.0.0.1:1/x","livesimURL":"/livesim2/testpic_2s/Manifest.mpd"}`,
		`{"destination":"","livesimURL":"/livesim2/periods_0/testpic_2s/Manifest.mpd","testNowMS":100000}`,
		`{"destination":"http://127.0.0.1:1/x","livesimURL":"x","testNowMS":-1,"duration":-5}`, `[1,2]`, `null`} {
		add(c08case{Group: "endpoint", Req: c08req{Kind: "router", Method: "POST", URL: "/api/cmaf-ingests", Body: []byte(b), Hdr: map[string]string{"Content-Type": "application/json"}}})
	}
	// every field of the API body with malformed values
	{
		good := map[string]string{"destRoot": `"http://127.0.0.1:9"`, "destName": `"d"`, "livesimURL": `"/livesim2/testpic_2s/Manifest.mpd"`, "testNowMS": "100000", "duration": "2",
			"user": `""`, "password": `""`, "streamsURLs": "false"}
		bad := []string{`""`, `"%zz"`, `"/livesim2/a b"`, `"x"`, `"/"`, `"/livesim2/"`, `"/livesim2/periods_0/testpic_2s/Manifest.mpd"`, `"/livesim2/stoprel_x/testpic_2s/Manifest.mpd"`,
			`"/livesim2/testpic_2s/V300/45.m4s"`, `"/livesim2/nosuch/Manifest.mpd"`, `"http://[::1"`, `"\u0000"`, "0", "-1", "9223372036854775807", "1e30", "1.5", "null", "true", "[]", "{}"}
		order := []string{"destRoot", "destName", "livesimURL", "testNowMS", "duration", "user", "password", "streamsURLs"}
		for fi, f := range order {
			for bi, b := range bad {
				if !c.Thorough() && f != "livesimURL" && (fi+bi)%4 != 0 {
					continue
				}
				var kv []string
				for _, g := range order {
					v := good[g]
					if g == f {
						v = b
					}
					kv = append(kv, fmt.Sprintf("%q:%s", g, v))
				}
				add(c08case{Group: "api:fields", Req: c08req{Kind: "router", Method: "POST", URL: "/api/cmaf-ingests", Body: []byte("{" + strings.Join(kv, ",") + "}"),
					Hdr: map[string]string{"Content-Type": "application/json"}}})
			}
		}
	}
	// the ingest API is a second entry point into the configuration parser and LiveMPD: its livesimURL
	// with every configuration family the /livesim2 generator knows
	{
		val := map[string]string{"statuscode": "[{cycle:8,rsq:1,code:404}]", "traffic": "u10", "utc": "ntp", "timesubsstpp": "en", "timesubswvtt": "en",
			"drm": "foo", "eccp": "cenc", "annexI": "a=b", "ato": "1", "chunkdur": "1", "timeoffset": "1", "periods": "60", "snr": "7", "scte35": "2", "tsbd": "30", "mup": "2"}
		var cfgs []string
		for _, k := range keys {
			v := val[k]
			if v == "" {
				v = "1"
			}
			cfgs = append(cfgs, k+"_"+v, k+"_x")
			if c.Thorough() {
				cfgs = append(cfgs, k+"_0", k+"_-1", k+"_", k+"_9223372036854775807")
			}
		}
		for i, sp := range special {
			if c.Thorough() || i%3 == 0 {
				cfgs = append(cfgs, sp.parts)
			}
		}
		for i, cf := range cfgs {
			tail := "testpic_2s/Manifest.mpd"
			if i%7 == 3 {
				tail = "testpic_8s/Manifest.mpd"
			}
			body, _ := json.Marshal(map[string]any{"destRoot": "http://127.0.0.1:9", "destName": "d", "livesimURL": "/livesim2/" + cf + "/" + tail, "testNowMS": 7230000, "duration": 2})
			add(c08case{Group: "api:livesimurl-config", Expect: "deliberate", Why: "ingest API with configuration " + cf,
				Req: c08req{Kind: "router", Method: "POST", URL: "/api/cmaf-ingests", Body: body, Hdr: map[string]string{"Content-Type": "application/json"}}})
		}
	}
	// patch
	for _, u := range []string{
		"/patch/livesim2/patch_60/segtimeline_1/testpic_2s/Manifest.mpp?publishTime=1970-01-01T00:01:30Z&nowMS=100000",
		"/patch/livesim2/patch_60/segtimeline_1/testpic_2s/Manifest.mpp?publishTime=1970-01-01T00:01:38Z&nowMS=100000",
		"/patch/livesim2/patch_60/segtimeline_1/testpic_2s/Manifest.mpp?publishTime=1970-01-01T00:00:00Z&nowMS=100000000",
		"/patch/livesim2/patch_60/segtimeline_1/testpic_2s/Manifest.mpp?nowMS=100000",
		"/patch/livesim2/patch_60/segtimeline_1/testpic_2s/Manifest.mpp?publishTime=x&nowMS=100000",
		"/patch/livesim2/patch_60/testpic_2s/Manifest.mpp?publishTime=1970-01-01T00:01:30Z&nowMS=100000",
		"/patch/livesim2/periods_0/patch_60/testpic_2s/Manifest.mpp?publishTime=1970-01-01T00:01:30Z&nowMS=100000",
		"/patch/livesim2/stoprel_x/testpic_2s/Manifest.mpp?publishTime=1970-01-01T00:01:30Z&nowMS=100000",
		"/patch/livesim2/patch_60/segtimeline_1/nosuch/Manifest.mpp?publishTime=1970-01-01T00:01:30Z&nowMS=100000",
		"/patch/livesim2/patch_60/segtimeline_1/testpic_2s/V300/45.m4s?publishTime=1970-01-01T00:01:30Z&nowMS=100000",
		"/patch/", "/patch/x", "/patch/livesim2", "/patch/livesim2/testpic_2s/Manifest.mpp?publishTime=9999-99-99T00:00:00Z",
	} {
		get("patch", u, "", "", nil)
	}
	// strings that one integer parser accepts and another rejects, for every numeric field of every
	// endpoint: blanks, tabs, newlines, '+' (a blank in a query), signs, unicode digits, NUL, very long
	// digit strings, hex/octal/binary/underscore/exponent forms
	{
		odd := []string{"%2030", "30%20", "%0930", "30%09", "30%0A", "%0D%0A30", "30+", "+30", "%2B30", "-30", "--30", "%2B-30", "-%2B30", "%D9%A3%D9%A0", "%EF%BC%93%EF%BC%90",
			"30%00", "%0030", "%00", "%20", "%09", "+", "000000000000000000000000000030", strings.Repeat("9", 400), "0x10", "0X1F", "0b11", "0o17", "010", "1_000", "_30", "30_",
			"1e3", "1E3", "30.0", "30.", "30,", "3 0", "3%C2%A00", "00", "-0", "%2B0", "0", "1", "١"}
		dec := func(v string) (string, bool) {
			d, err := neturl.QueryUnescape(v)
			return d, err == nil
		}
		printable := func(v string) bool {
			for _, r := range v {
				if r < 32 || r > 126 {
					return false
				}
			}
			return true
		}
		// /urlgen/create: the three integers the handler checks, and the fields it copies into the URL
		for fi, f := range []string{"tsbd", "ltgt", "patch-ttl", "periods", "snr", "mup", "spd", "start", "stop", "startrel", "stoprel", "timesubsdur", "timesubsreg", "scte35", "ato", "chunkdur"} {
			for vi, v := range odd {
				if !c.Thorough() && fi >= 3 && (fi+vi)%5 != 0 {
					continue
				}
				d, ok := dec(v)
				exp, why := "", ""
				var m *modelReq
				if fi < 3 && ok {
					if d != "" && !isGoInt(d) {
						exp, why = "4xx", f+" is no integer"
					}
					if printable(d) {
						m = &modelReq{Kind: "create"}
						switch f {
						case "tsbd":
							m.A = d
						case "ltgt":
							m.B = d
						default:
							m.C = d
						}
					}
				}
				if exp == "" {
					exp, why = "deliberate", "urlgen field "+f
				}
				add(c08case{Group: "int-forms", Expect: exp, Why: why, Model: m, Req: c08req{Kind: "router", Method: "GET", URL: "/urlgen/create?asset=testpic_2s&mpd=Manifest.mpd&stl=nr&" + f + "=" + v}})
			}
		}
		// the nowMS query of /livesim2 and /patch, ids and numeric fields of the API, other endpoints with a stray numeric query
		for vi, v := range odd {
			d, ok := dec(v)
			exp, why := "deliberate", "nowMS form"
			if ok && d != "" && !isGoInt(d) {
				exp, why = "4xx", "nowMS is no integer"
			}
			add(c08case{Group: "int-forms", Expect: exp, Why: why, Req: c08req{Kind: "live", Method: "GET", URL: "/livesim2/testpic_2s/Manifest.mpd?nowMS=" + v}})
			add(c08case{Group: "int-forms", Expect: "deliberate", Why: "nowMS form", Req: c08req{Kind: "router", Method: "GET", URL: "/patch/livesim2/segtimeline_1/patch_60/testpic_2s/Manifest.mpp?publishTime=1970-01-01T00:03:20Z&nowMS=" + v}})
			if c.Thorough() || vi%3 == 0 {
				for _, u := range []string{"/api/cmaf-ingests/" + v, "/api/cmaf-ingests/" + v + "/step", "/reqcount?n=" + v, "/assets?n=" + v, "/vod/testpic_2s/V300/" + v + ".m4s", "/healthz?x=" + v} {
					add(c08case{Group: "int-forms", Expect: "deliberate", Why: "numeric form on another endpoint", Req: c08req{Kind: "router", Method: "GET", URL: u}})
				}
				jb, _ := json.Marshal(d)
				for _, fld := range []string{"testNowMS", "duration"} {
					for _, jv := range []string{string(jb), d} {
						body := `{"destRoot":"http://127.0.0.1:9","destName":"d","livesimURL":"/livesim2/testpic_2s/Manifest.mpd","testNowMS":100000,"duration":2,"` + fld + `":` + jv + `}`
						add(c08case{Group: "int-forms", Expect: "deliberate", Why: "API numeric field " + fld, Req: c08req{Kind: "router", Method: "POST", URL: "/api/cmaf-ingests", Body: []byte(body), Hdr: map[string]string{"Content-Type": "application/json"}}})
					}
				}
			}
		}
		// every integer URL option of /livesim2 with these forms
		for ki, k := range intKeys {
			for vi, v := range odd {
				if !c.Thorough() && (ki+vi)%4 != 0 {
					continue
				}
				d, ok := dec(v)
				seen := strings.ReplaceAll(d, "+", " ") // what processURLCfg makes of the decoded path
				tail := "testpic_2s/Manifest.mpd"
				if (ki+vi)%3 == 0 {
					tail = "testpic_2s/V300/45.m4s"
				}
				if ok && printable(d) && safePath.MatchString(d) {
					exp, why := "", ""
					if !isGoInt(seen) {
						exp, why = "4xx", k+"_"+d+": not an integer"
					}
					add(liveCase("int-forms", "/livesim2/"+k+"_"+d+"/"+tail, "100000", exp, why))
				} else {
					exp, why := "deliberate", "integer form in the path"
					if ok && !isGoInt(seen) && !strings.ContainsAny(d, "?#") {
						exp, why = "4xx", k+"_"+v+": not an integer"
					}
					add(c08case{Group: "int-forms", Expect: exp, Why: why, Req: c08req{Kind: "live", Method: "GET", URL: "/livesim2/" + k + "_" + v + "/" + tail + "?nowMS=100000"}})
				}
			}
		}
	}
	// the /patch route with every kind of path and configuration family the /livesim2 route gets
	// (only .mpp paths are patch requests; everything else must be refused, not forwarded)
	{
		tails := []string{"testpic_2s/V300/45.m4s", "testpic_2s/V300/95.m4s", "testpic_2s/A48/45.m4s", "testpic_2s/V300/init.mp4",
			"testpic_2s/thumbs/45.jpg", "testpic_2s/timestpp-en/45.m4s", "testpic_2s/imsc1_txt_sv/45.m4s", "testpic_2s/Manifest.mpd",
			"testpic_2s/Manifest.mpp", "testpic_2s/Manifest_thumbs.mpp", "testpic_2s/Manifest.xyz", "testpic_2s/V300/45.cmfv", "testpic_2s/V300/45", "testpic_2s", "nosuch/V300/45.m4s",
			"testpic_8s/V300/11.m4s", "testpic_2s/bu0/V300/45.m4s"}
		cfgs := []string{"", "chunkdur_1/", "ato_1/chunkdur_0.5/", "ato_inf/chunkdur_1/", "drm_foo/", "eccp_cenc/", "eccp_cbcs/segtimeline_1/", "segtimeline_1/patch_60/",
			"segtimelinenr_1/patch_60/", "patch_60/periods_60/", "traffic_u10/", "traffic_d10/", "statuscode_[{cycle:8,rsq:1,code:404}]/", "timesubsstpp_en/", "timesubswvtt_en/segtimeline_1/",
			"annexI_a=b/", "scte35_2/", "start_90/stop_95/", "timeoffset_-10/", "snr_10/", "tsbd_10/mup_2/"}
		// always: a patch request whose URL lacks patch_<ttl> (SegmentTimeline, so that publishTime moves)
		get("patch-paths", "/patch/livesim2/segtimeline_1/testpic_2s/Manifest.mpp?publishTime=1970-01-01T00:03:20Z&nowMS=210000", "no5xx", "patch request", nil)
		get("patch-paths", "/patch/livesim2/segtimelinenr_1/testpic_2s/Manifest.mpd?publishTime=1970-01-01T00:03:20Z&nowMS=210000", "no5xx", "patch request", nil)
		for ci, cf := range cfgs {
			for ti, tl := range tails {
				if !c.Thorough() && ci > 2 && (ci+ti)%4 != 0 {
					continue
				}
				for _, q := range []string{"publishTime=1970-01-01T00:03:20Z&nowMS=210000", "nowMS=210000"} {
					// .mpp and its alias .mpd are patch requests: any deliberate answer but a 5xx (a patch, 4xx,
					// 410, 425); every other tail must be refused with a 4xx
					exp, why := "no5xx", "patch request"
					if !strings.HasSuffix(tl, ".mpp") && !strings.HasSuffix(tl, ".mpd") {
						exp, why = "4xx", "no patch path"
					}
					get("patch-paths", "/patch/livesim2/"+cf+tl+"?"+q, exp, why, nil)
				}
			}
		}
	}
	// query strings: the keys the handlers read, repeated, in every order, with empty values, without
	// '=', with stray '&' - on every route that reads the query
	{
		kv := [][2]string{{"nowMS", "210000"}, {"nowDate", "1970-01-01T00:03:30Z"}, {"publishTime", "1970-01-01T00:03:20Z"}}
		var qs []string
		for _, a := range kv {
			for _, b := range kv {
				qs = append(qs, a[0]+"="+a[1]+"&"+b[0]+"="+b[1])
				for _, d := range kv {
					qs = append(qs, a[0]+"="+a[1]+"&"+b[0]+"="+b[1]+"&"+d[0]+"="+d[1])
				}
			}
		}
		n := len(qs)
		for i := 0; i < n; i++ {
			q := qs[i]
			switch i % 6 {
			case 0:
				qs = append(qs, q+"&")
			case 1:
				qs = append(qs, "&"+q)
			case 2:
				qs = append(qs, strings.Replace(q, "&", "&&", 1))
			case 3:
				qs = append(qs, q[:strings.LastIndex(q, "=")+1]) // last value empty
			case 4:
				qs = append(qs, q[:strings.LastIndex(q, "=")]) // last key without '='
			case 5:
				qs = append(qs, q+"&"+q[strings.LastIndex(q, "&")+1:]) // last pair once more
			}
		}
		qs = append(qs, "", "&", "=", "nowMS", "nowMS=", "publishTime", "publishTime=&nowMS=210000", "nowMS=210000&nowMS=x", "nowMS=x&nowMS=210000", "a=%zz", "nowMS=210000;publishTime=x")
		routes := []string{"/patch/livesim2/segtimeline_1/patch_60/testpic_2s/Manifest.mpp", "/livesim2/segtimeline_1/testpic_2s/Manifest.mpd", "/livesim2/testpic_2s/V300/100.m4s",
			"/urlgen/create", "/patch/livesim2/patch_60/testpic_2s/Manifest.mpp"}
		for ri, rt := range routes {
			for qi, q := range qs {
				if !c.Thorough() && ri >= 3 && (ri+qi)%3 != 0 {
					continue
				}
				kind := "router"
				add(c08case{Group: "query-shapes", Expect: "deliberate", Why: "query string shape", Req: c08req{Kind: kind, Method: "GET", URL: rt + "?" + q}})
			}
		}
	}
	// licence requests
	kidOK := append([]byte{0x28, 0x80, 0xfe}, []byte{1, 2, 3, 4, 5, 6, 7, 8, 9, 10, 11, 12, 13}...)
	kidForeign := []byte{1, 2, 3, 4, 5, 6, 7, 8, 9, 10, 11, 12, 13, 14, 15, 16}
	b64 := func(b []byte) string {
		s := base64.StdEncoding.EncodeToString(b)
		s = strings.TrimRight(s, "=")
		s = strings.ReplaceAll(s, "+", "-")
		return strings.ReplaceAll(s, "/", "_")
	}
	ints := func(b []byte) []int {
		o := make([]int, len(b))
		for i, x := range b {
			o[i] = int(x)
		}
		return o
	}
	type lic struct {
		url, body, exp, why string
		m                   *modelReq
	}
	lics := []lic{
		{"/livesim2/eccp_cenc/testpic_2s/eccp.json", `{"kids":["` + b64(kidOK) + `"],"type":"temporary"}`, "", "", &modelReq{Kind: "license", SuffixOK: true, JSONOK: true, Kids: [][]int{ints(kidOK)}}},
		{"/livesim2/eccp_cenc/testpic_2s/eccp.json", `{"kids":["` + b64(kidForeign) + `"],"type":"temporary"}`, "4xx", "key id that livesim2 did not issue", &modelReq{Kind: "license", SuffixOK: true, JSONOK: true, Kids: [][]int{ints(kidForeign)}}},
		{"/livesim2/eccp_cenc/testpic_2s/eccp.json", `{"kids":["` + b64(kidOK) + `","` + b64(kidForeign) + `"]}`, "4xx", "key id that livesim2 did not issue", &modelReq{Kind: "license", SuffixOK: true, JSONOK: true, Kids: [][]int{ints(kidOK), ints(kidForeign)}}},
		{"/livesim2/eccp_cenc/testpic_2s/eccp.json", `{"kids":["AAAA"]}`, "", "", &modelReq{Kind: "license", SuffixOK: true, JSONOK: true, Kids: [][]int{nil}}},
		{"/livesim2/eccp_cenc/testpic_2s/eccp.json", `{"kids":["!!!!"]}`, "", "", &modelReq{Kind: "license", SuffixOK: true, JSONOK: true, Kids: [][]int{nil}}},
		{"/livesim2/eccp_cenc/testpic_2s/eccp.json", `{"kids":[""]}`, "", "", &modelReq{Kind: "license", SuffixOK: true, JSONOK: true, Kids: [][]int{nil}}},
		{"/livesim2/eccp_cenc/testpic_2s/eccp.json", `{"kids":[]}`, "", "", &modelReq{Kind: "license", SuffixOK: true, JSONOK: true}},
		{"/livesim2/eccp_cenc/testpic_2s/eccp.json", `{}`, "", "", &modelReq{Kind: "license", SuffixOK: true, JSONOK: true}},
		{"/livesim2/eccp_cenc/testpic_2s/eccp.json", `{"kids":null}`, "", "", &modelReq{Kind: "license", SuffixOK: true, JSONOK: true}},
		{"/livesim2/eccp_cenc/testpic_2s/eccp.json", `{"kids":"x"}`, "", "", &modelReq{Kind: "license", SuffixOK: true, JSONOK: false}},
		{"/livesim2/eccp_cenc/testpic_2s/eccp.json", `{"kids":[1]}`, "", "", &modelReq{Kind: "license", SuffixOK: true, JSONOK: false}},
		{"/livesim2/eccp_cenc/testpic_2s/eccp.json", ``, "", "", &modelReq{Kind: "license", SuffixOK: true, JSONOK: false}},
		{"/livesim2/eccp_cenc/testpic_2s/eccp.json", `{"kids":[`, "", "", &modelReq{Kind: "license", SuffixOK: true, JSONOK: false}},
		{"/livesim2/eccp_cenc/testpic_2s/other.json", `{"kids":["` + b64(kidOK) + `"]}`, "4xx", "not a licence URL", &modelReq{Kind: "license", SuffixOK: false, JSONOK: true, Kids: [][]int{ints(kidOK)}}},
		{"/livesim2/eccp_cenc/testpic_2s/other.json", `{"kids":["` + b64(kidForeign) + `"]}`, "4xx", "not a licence URL", &modelReq{Kind: "license", SuffixOK: false, JSONOK: true, Kids: [][]int{ints(kidForeign)}}},
		{"/livesim2/eccp_cenc/testpic_2s/other.json", `x`, "4xx", "not a licence URL", &modelReq{Kind: "license", SuffixOK: false, JSONOK: false}},
		{"/livesim2/periods_0/nosuch/eccp.json", `{"kids":["` + b64(kidOK) + `"]}`, "", "", &modelReq{Kind: "license", SuffixOK: true, JSONOK: true, Kids: [][]int{ints(kidOK)}}},
	}
	for _, l := range lics {
		add(c08case{Group: "licence", Req: c08req{Kind: "live", Method: "POST", URL: l.url, Body: []byte(l.body)}, Expect: l.exp, Why: l.why, Model: l.m})
	}
	// key ids of every decoded length 0..64, both alphabets, padding variants, many and mixed kids
	{
		mk := func(n int, good bool) []byte {
			b := make([]byte, n)
			for i := range b {
				b[i] = byte(0xf8 + i%7) // bytes whose base64 uses '+' and '/' resp. '-' and '_'
			}
			if good && n >= 3 {
				copy(b, []byte{0x28, 0x80, 0xfe})
			}
			return b
		}
		// what the handler makes of a kid string: '-','_' -> '+','/', padded to a multiple of 4, standard decoding, 16 bytes
		view := func(k string) []int {
			x := strings.NewReplacer("-", "+", "_", "/").Replace(k)
			if m := len(x) % 4; m != 0 {
				x += strings.Repeat("=", 4-m)
			}
			b, err := base64.StdEncoding.DecodeString(x)
			if err != nil || len(b) != 16 {
				return nil
			}
			return ints(b)
		}
		post := func(kids []string) {
			var q, views = []string{}, [][]int{}
			for _, k := range kids {
				jb, _ := json.Marshal(k)
				q = append(q, string(jb))
				views = append(views, view(k))
			}
			body := `{"kids":[` + strings.Join(q, ",") + `],"type":"temporary"}`
			add(c08case{Group: "licence-kids", Expect: "deliberate", Why: "licence request", Req: c08req{Kind: "live", Method: "POST", URL: "/livesim2/eccp_cenc/testpic_2s/eccp.json", Body: []byte(body)},
				Model: &modelReq{Kind: "license", SuffixOK: true, JSONOK: true, Kids: views}})
		}
		for n := 0; n <= 64; n++ {
			if !c.Thorough() && n > 24 && n%8 != 0 && n != 63 {
				continue
			}
			for _, good := range []bool{true, false} {
				raw := mk(n, good)
				std := base64.StdEncoding.EncodeToString(raw)
				variants := []string{strings.TrimRight(std, "="), strings.NewReplacer("+", "-", "/", "_").Replace(strings.TrimRight(std, "="))}
				if c.Thorough() || n%4 == 0 || n == 16 || n == 17 || n == 23 {
					variants = append(variants, std, std+"=", std+"==", " "+std)
				}
				for _, v := range variants {
					post([]string{v})
				}
			}
		}
		okKid := strings.TrimRight(base64.StdEncoding.EncodeToString(mk(16, true)), "=")
		long := strings.TrimRight(base64.StdEncoding.EncodeToString(mk(40, true)), "=")
		short := strings.TrimRight(base64.StdEncoding.EncodeToString(mk(5, true)), "=")
		many := make([]string, 200)
		for i := range many {
			many[i] = okKid
		}
		post(many)
		post([]string{okKid, long})
		post([]string{okKid, short, okKid})
		post([]string{long, okKid})
		post([]string{okKid, "", okKid})
		post([]string{okKid, "****", long})
		post([]string{strings.Repeat("A", 100000)})
	}
	add(c08case{Group: "licence", Req: c08req{Kind: "router", Method: "POST", URL: "/eccp.json", Body: []byte(`{"kids":["` + b64(kidForeign) + `"]}`)}, Expect: "4xx", Why: "key id that livesim2 did not issue"})
	add(c08case{Group: "licence", Req: c08req{Kind: "router", Method: "POST", URL: "/anything", Body: []byte(`{"kids":["` + b64(kidOK) + `"]}`)}, Expect: "4xx", Why: "not a licence URL"})

	// servers built with unusual but accepted ServerConfig values: every endpoint must still answer
	// deliberately (the request limiter sees the same client three times)
	{
		names := []string{"maxreq-neg", "maxreq-neg-big", "maxreq-1", "maxreq-1-int0", "maxreq-2-intneg", "maxreq-whitelist", "maxreq-white-bad", "maxreq-log", "maxreq-log-bad",
			"timeout-neg", "timeout-1", "livewindow-0", "livewindow-neg", "host-set", "playurl-empty", "playurl-bad", "repdata-write", "repdata-missing", "port-0-loglevel-x"}
		eps := [][2]string{{"GET", "/reqcount"}, {"GET", "/"}, {"GET", "/healthz"}, {"GET", "/config"}, {"GET", "/version"}, {"GET", "/assets"}, {"GET", "/vod"},
			{"GET", "/livesim2/testpic_2s/Manifest.mpd?nowMS=100000"}, {"GET", "/livesim2/testpic_2s/V300/45.m4s?nowMS=100000"}, {"GET", "/livesim2/testpic_2s/V300/45.m4s?nowMS=100000"},
			{"GET", "/reqcount"}, {"GET", "/vod/testpic_2s/Manifest.mpd"}, {"GET", "/vod/testpic_2s/V300/1.m4s"}, {"GET", "/urlgen/"}, {"GET", "/urlgen/create?asset=testpic_2s&mpd=Manifest.mpd&stl=nr"},
			{"GET", "/urlgen/mpds?asset=testpic_2s"}, {"GET", "/urlgen/drms?asset=testpic_2s"}, {"GET", "/static/time.txt"}, {"HEAD", "/static/time.txt"}, {"GET", "/metrics"},
			{"GET", "/patch/livesim2/segtimeline_1/patch_60/testpic_2s/Manifest.mpp?publishTime=1970-01-01T00:01:30Z&nowMS=100000"}, {"GET", "/api/cmaf-ingests/1"}, {"OPTIONS", "/livesim2/testpic_2s/Manifest.mpd"},
			{"HEAD", "/livesim2/testpic_2s/Manifest.mpd?nowMS=100000"}, {"POST", "/livesim2/eccp_cenc/testpic_2s/eccp.json"}, {"GET", "/reqcount"}, {"GET", "/favicon.ico"}, {"GET", "/nosuch"}}
		for _, n := range names {
			for _, ep := range eps {
				cs = append(cs, c08case{Group: "server-config", Expect: "deliberate", Why: "endpoint on a server configured as " + n,
					Req: c08req{Kind: "cfg", Cfg: n, Method: ep[0], URL: ep[1], Body: []byte(`{"kids":[]}`)}})
				c.Count("server-config")
			}
		}
	}
	// 6. the receiver's upload handler
	cs = append(cs, genReceiver(c, rng)...)
	// 7. a step-wise CMAF-ingest session through the API, in order, on the sequential worker (last:
	// a hang ends that worker): the sink refuses connections, the session has 2 segments to send
	apiSeq := func(method, url, body string) {
		cs = append(cs, c08case{Group: "api:step-session", Expect: "deliberate", Why: "API call in a session sequence",
			Req: c08req{Kind: "apiseq", Method: method, URL: url, Body: []byte(body), Hdr: map[string]string{"Content-Type": "application/json"}}})
		c.Count("api:step-session")
	}
	// every order of step / get / delete after a create, with repeats (delete twice, step after delete,
	// get after delete ...), each on a session of its own; {id} is the id the create returned
	{
		create := `{"destRoot":"http://127.0.0.1:9","destName":"d","livesimURL":"/livesim2/testpic_2s/Manifest.mpd","testNowMS":100000,"duration":4}`
		ops := map[byte][2]string{'S': {"GET", "/api/cmaf-ingests/{id}/step"}, 'G': {"GET", "/api/cmaf-ingests/{id}"}, 'D': {"DELETE", "/api/cmaf-ingests/{id}"}}
		var seqs []string
		for _, a := range "SGD" {
			seqs = append(seqs, string(a))
			for _, b := range "SGD" {
				seqs = append(seqs, string(a)+string(b))
				for _, d := range "SGD" {
					x := string(a) + string(b) + string(d)
					if c.Thorough() || strings.Count(x, "S") == 0 || x == "DDS" || x == "DSD" || x == "SDD" {
						seqs = append(seqs, x)
					}
				}
			}
		}
		for _, sq := range seqs {
			apiSeq("POST", "/api/cmaf-ingests", create)
			for k := 0; k < len(sq); k++ {
				o := ops[sq[k]]
				apiSeq(o[0], o[1], "")
			}
		}
		// several sessions alive at once, then deleted in another order; unknown and malformed ids
		for k := 0; k < 3; k++ {
			apiSeq("POST", "/api/cmaf-ingests", create)
		}
		for _, id := range []string{"{id}", "{id}", "999999", "0", "-1", "x", "18446744073709551616", "1.5", ""} {
			apiSeq("DELETE", "/api/cmaf-ingests/"+id, "")
			apiSeq("GET", "/api/cmaf-ingests/"+id, "")
		}
		apiSeq("GET", "/api/cmaf-ingests/999999/step", "")
		apiSeq("GET", "/api/cmaf-ingests/x/step", "")
	}
	// a stepped session for every configuration family: what the session goroutine does with the
	// configuration only shows when it is stepped (a panic there ends the whole process)
	{
		fams := []string{"segtimeline_1", "segtimelinenr_1", "timesubsstpp_en", "segtimeline_1/timesubsstpp_en,sv", "segtimelinenr_1/timesubswvtt_en", "segtimeline_1/timesubswvtt_en",
			"periods_60", "chunkdur_0.5/ato_1", "eccp_cenc", "scte35_2", "snr_7/segtimelinenr_1", "startrel_-20/stoprel_20", "tsbd_10/segtimeline_1", "segtimeline_1/ato_1.5/chunkdur_0.5"}
		if c.Thorough() {
			for _, k := range keys {
				fams = append(fams, k+"_1", "segtimeline_1/"+k+"_1")
			}
		}
		for i, f := range fams {
			tail := "testpic_2s/Manifest.mpd"
			if i%5 == 4 {
				tail = "testpic_8s/Manifest.mpd"
			}
			body, _ := json.Marshal(map[string]any{"destRoot": "{sink}", "destName": "d", "livesimURL": "/livesim2/" + f + "/" + tail, "testNowMS": 425842, "duration": 4})
			apiSeq("POST", "/api/cmaf-ingests", string(body))
			apiSeq("GET", "/api/cmaf-ingests/{id}/step", "")
			apiSeq("GET", "/api/cmaf-ingests/{id}/step", "")
			apiSeq("GET", "/api/cmaf-ingests/{id}", "")
			apiSeq("DELETE", "/api/cmaf-ingests/{id}", "")
		}
	}
	apiSeq("POST", "/api/cmaf-ingests", `{"destRoot":"http://127.0.0.1:9","destName":"d","livesimURL":"/livesim2/testpic_2s/Manifest.mpd","testNowMS":100000,"duration":4}`)
	for i := 0; i < 2; i++ {
		apiSeq("GET", "/api/cmaf-ingests/{id}/step", "")
	}
	apiSeq("DELETE", "/api/cmaf-ingests/{id}", "")
	apiSeq("GET", "/api/cmaf-ingests/{id}/step", "")
	return cs
}

func rawbox(size uint32, typ string, payload []byte) []byte {
	b := make([]byte, 8+len(payload))
	binary.BigEndian.PutUint32(b, size)
	copy(b[4:], typ)
	copy(b[8:], payload)
	return b
}

func genReceiver(c *lib.Ctx, rng *rand.Rand) []c08case {
	var cs []c08case
	add := func(group, method, url string, body []byte, hdr map[string]string) {
		cs = append(cs, c08case{Group: group, Req: c08req{Kind: "recv", Method: method, URL: url, Body: body, Hdr: hdr}})
		c.Count(group)
	}
	td := "/repo/cmd/cmaf-ingest-receiver/app/testdata/zero_3.84s/video-500Kbps/"
	initSeg, _ := os.ReadFile(td + "init_org.cmfv")
	seg0, _ := os.ReadFile(td + "0.cmfv")
	seg1, _ := os.ReadFile(td + "1.cmfv")
	if len(initSeg) == 0 || len(seg0) == 0 {
		c.Res.Notes = append(c.Res.Notes, "receiver test vectors missing")
	}
	randBytes := func(n int) []byte {
		b := make([]byte, n)
		for i := range b {
			b[i] = byte(rng.Intn(256))
		}
		return b
	}
	lowBytes := func(n int) []byte { // bytes in {0,1}: any size field read from them stays below 17 MB
		b := make([]byte, n)
		for i := range b {
			if rng.Intn(8) == 0 {
				b[i] = 1
			}
		}
		return b
	}
	ch := 0
	newCh := func() string { ch++; return fmt.Sprintf("/upload/ch%d", ch) }
	// well-formed sequence, then hostile bodies on the same channel
	for _, m := range []string{"PUT", "POST"} {
		base := newCh()
		add("recv:wellformed", m, base+"/video/init.cmfv", initSeg, nil)
		add("recv:wellformed", m, base+"/video/0.cmfv", seg0, nil)
		add("recv:wellformed", m, base+"/video/1.cmfv", seg1, nil)
		add("recv:wellformed", m, base+"/Streams(video.cmfv)", seg1, nil)
		add("recv:mpd", m, base+"/manifest.mpd", []byte("<MPD/>"), nil)
		// truncated media segment at many offsets
		step := 97
		if c.Thorough() {
			step = 13
		}
		for cut := 0; cut < len(seg0); cut += step {
			add("recv:truncated", m, base+"/video/2.cmfv", seg0[:cut], nil)
		}
		for cut := 0; cut < len(initSeg); cut += step {
			add("recv:truncated-init", m, base+"/video/init.cmfv", initSeg[:cut], nil)
		}
		// box headers with impossible sizes
		sizes := []uint32{0, 1, 2, 3, 4, 5, 6, 7, 9, 1 << 24, 1 << 27}
		for _, sz := range sizes {
			for _, typ := range []string{"moof", "mdat", "moov", "styp", "ftyp", "free"} {
				add("recv:boxsize", m, base+"/video/3.cmfv", rawbox(sz, typ, lowBytes(16)), nil)
				add("recv:boxsize", m, base+"/video/3.cmfv", append(append([]byte{}, seg0[:24]...), rawbox(sz, typ, lowBytes(16))...), nil)
			}
		}
		// media segment before any init on a fresh channel, and for an unknown track
		fresh := newCh()
		add("recv:no-init", m, fresh+"/video/0.cmfv", seg0, nil)
		add("recv:no-init", m, fresh+"/audio/0.cmfa", seg0, nil)
		add("recv:no-init", m, fresh+"/video/init.cmfv", seg0, nil)
		add("recv:no-init", m, fresh+"/video/0.cmfv", initSeg, nil)
		add("recv:no-init", m, fresh+"/video/0.cmfv", append(append([]byte{}, initSeg...), seg0...), nil)
	}
	// wrap-back bodies: a later box claims a size that wraps the uint32 parse position exactly back
	// onto the start of an earlier box; the parser must refuse it (a position sum computed in 32 bits
	// would walk the same boxes for ever)
	{
		base := newCh()
		box := func(size uint32, typ string, n int) []byte { return rawbox(size, typ, make([]byte, n)) }
		cat := func(bs ...[]byte) []byte {
			var o []byte
			for _, b := range bs {
				o = append(o, b...)
			}
			return o
		}
		bodies := [][]byte{
			cat(box(8, "free", 0), box(0xfffffff8, "free", 0)),                               // back to offset 0
			cat(box(16, "free", 8), box(12, "free", 4), box(uint32(1<<32-28), "free", 0)),    // back to box A
			cat(box(16, "free", 8), box(12, "free", 4), box(uint32(1<<32-28+16), "free", 0)), // back to box B
			cat(box(16, "styp", 8), box(12, "free", 4), box(uint32(1<<32-28+16), "moof", 8)),
		}
		for _, m := range []string{"PUT", "POST"} {
			for _, b := range bodies {
				add("recv:wrap-back", m, base+"/video/4.cmfv", b, nil)
			}
		}
	}
	// 64-bit box sizes (32-bit size field 1, the size follows the box type): every small value incl. 0,
	// as first box, after a good box, and with payload behind it
	{
		base := newCh()
		large := func(typ string, size64 uint64, n int) []byte {
			b := make([]byte, 16+n)
			binary.BigEndian.PutUint32(b, 1)
			copy(b[4:], typ)
			binary.BigEndian.PutUint64(b[8:], size64)
			return b
		}
		sizes64 := []uint64{0, 1, 2, 7, 8, 9, 15, 16, 17, 24, 1 << 32, 1<<32 - 16, 1 << 63, 1<<64 - 1}
		k := 0
		for _, sz := range sizes64 {
			for _, typ := range []string{"mdat", "free", "moof"} {
				if !c.Thorough() && typ == "moof" && sz > 24 {
					continue
				}
				for pos := 0; pos < 3; pos++ {
					var b []byte
					switch pos {
					case 0:
						b = large(typ, sz, 0)
					case 1:
						b = append(rawbox(8, "free", nil), large(typ, sz, 4)...)
					case 2:
						b = append(append([]byte{}, seg0[:24]...), large(typ, sz, 8)...)
					}
					m := "PUT"
					if k%2 == 1 {
						m = "POST"
					}
					k++
					add("recv:largesize", m, base+"/video/6.cmfv", b, nil)
				}
			}
		}
		add("recv:largesize", "PUT", base+"/video/6.cmfv", []byte{0, 0, 0, 1, 'm', 'd', 'a', 't'}, nil)
		add("recv:largesize", "PUT", base+"/video/6.cmfv", []byte{0, 0, 0, 1, 'm', 'd', 'a', 't', 0, 0, 0}, nil)
	}
	// size fields of 2^31 and 2^32-1: the chunk parser allocates that much before it reads (seconds
	// of wall time and gigabytes per request), so only the thorough tier sends them
	{
		base := newCh()
		huge := []uint32{} // each costs 5-12 s of wall time: thorough tier only
		if c.Thorough() {
			huge = []uint32{1 << 31, 1<<32 - 1, 1<<32 - 9}
		}
		for _, sz := range huge {
			add("recv:boxsize-huge", "PUT", base+"/video/3.cmfv", rawbox(sz, "moof", lowBytes(16)), nil)
		}
	}
	// media segments whose inner boxes are damaged (valid outer sizes, one byte changed)
	{
		base := newCh()
		add("recv:wellformed", "PUT", base+"/video/init.cmfv", initSeg, nil)
		n := 150
		if c.Thorough() {
			n = 1500
		}
		for i := 0; i < n && len(seg0) > 0; i++ {
			b := append([]byte{}, seg0...)
			hdrLen := len(b) - 1
			if hdrLen > 700 {
				hdrLen = 700
			}
			pos := rng.Intn(hdrLen)
			b[pos] = byte(rng.Intn(256))
			if maxSizeField(b) > 1<<25 {
				continue
			}
			add("recv:bitflip", "PUT", base+"/video/5.cmfv", b, nil)
		}
		for i := 0; i < n/3 && len(initSeg) > 0; i++ {
			b := append([]byte{}, initSeg...)
			b[rng.Intn(len(b))] = byte(rng.Intn(256))
			if maxSizeField(b) > 1<<25 {
				continue
			}
			add("recv:bitflip-init", "PUT", fmt.Sprintf("%s/v%d/init.cmfv", base, i), b, nil)
		}
	}
	// box surgery on a good init segment: every box of its tree removed, and every container emptied
	// (sizes of the ancestors adjusted, so the result is structurally valid), each registered on a track
	// of its own and followed by a good media segment on that track
	{
		base := newCh()
		variants := initSurgery(initSeg)
		for i, v := range variants {
			if !c.Thorough() && len(variants) > 40 && i%2 == 1 && !strings.Contains(v.what, "mvex") && !strings.Contains(v.what, "trex") {
				continue
			}
			tr := fmt.Sprintf("%s/s%d", base, i)
			add("recv:init-surgery", "PUT", tr+"/init.cmfv", v.data, nil)
			add("recv:init-surgery", "PUT", tr+"/0.cmfv", seg0, nil)
			add("recv:init-surgery", "POST", tr+"/1.cmfv", seg1, nil)
		}
		c.Res.Notes = append(c.Res.Notes, fmt.Sprintf("init surgery: %d variants", len(variants)))
	}
	// init uploads that consist of (almost) empty boxes
	{
		base := newCh()
		k := 0
		for _, typ := range []string{"moov", "ftyp", "styp", "moof", "mdat", "mvex", "trak", "free"} {
			for _, body := range [][]byte{rawbox(8, typ, nil), append(rawbox(8, "ftyp", nil), rawbox(8, typ, nil)...), rawbox(16, typ, rawbox(8, "mvex", nil)),
				rawbox(16, typ, rawbox(8, "trak", nil)), rawbox(12, typ, []byte{0, 0, 0, 0})} {
				k++
				add("recv:tiny-init", "PUT", fmt.Sprintf("%s/t%d/init.cmfv", base, k), body, nil)
				add("recv:tiny-init", "PUT", fmt.Sprintf("%s/t%d/0.cmfv", base, k), seg0, nil)
			}
		}
	}
	// random bytes and odd paths
	{
		base := newCh()
		for i := 0; i < 40; i++ {
			add("recv:random", "PUT", base+"/video/7.cmfv", lowBytes(rng.Intn(200)), nil)
		}
		for i := 0; i < 20; i++ {
			b := append(randBytes(8), lowBytes(rng.Intn(100))...)
			binary.BigEndian.PutUint32(b, uint32(rng.Intn(64)))
			add("recv:random", "PUT", base+"/video/8.cmfv", b, nil)
		}
		for _, p := range []string{"/upload", "/upload/", "/upload/x", "/upload/x.cmfv", "/upload/a/b.cmfv", "/upload/a/b/c.cmfv", "/upload/a/b/c.mp4", "/upload/a/Streams(.cmfv)",
			"/upload/a/Streams(x.cmfz)", "/upload//b/c.cmfv", "/upload/a//c.cmfv", "/upload/a/b/.cmfv", "/other/a/b/c.cmfv", "/upload/a/b/c.cmfv/", "/upload/a/x.mpd", "/upload/x.mpd",
			"/upload/a/b/c.cmfm", "/upload/a/b/c.cmft", "/upload/a/b/c.cmfa"} {
			add("recv:path", "PUT", p, seg0, nil)
			add("recv:path", "POST", p, nil, nil)
		}
		for _, cl := range []string{"0", "-1", "x", "5", "99999", "1.5", "", " 7"} {
			add("recv:content-length", "PUT", base+"/video/9.cmfv", seg0, map[string]string{"Content-Length": cl})
		}
		add("recv:content-length-huge", "PUT", base+"/video/9.cmfv", seg0, map[string]string{"Content-Length": "17592186044416"})
		add("recv:content-length-huge", "PUT", base+"/video/9.cmfv", seg0, map[string]string{"Content-Length": "9223372036854775807"})
	}
	return cs
}

type boxNode struct {
	typ      string
	payload  []byte // for leaves: everything after the 8-byte header; for containers: the bytes before the first child (none here)
	children []*boxNode
	cont     bool
}

var containerTypes = map[string]bool{"moov": true, "trak": true, "mdia": true, "minf": true, "stbl": true, "mvex": true, "dinf": true, "edts": true, "udta": true, "moof": true, "traf": true}

func parseBoxes(b []byte) []*boxNode {
	var out []*boxNode
	for len(b) >= 8 {
		size := int(binary.BigEndian.Uint32(b))
		if size < 8 || size > len(b) {
			break
		}
		n := &boxNode{typ: string(b[4:8])}
		if containerTypes[n.typ] {
			n.cont = true
			n.children = parseBoxes(b[8:size])
		} else {
			n.payload = append([]byte{}, b[8:size]...)
		}
		out = append(out, n)
		b = b[size:]
	}
	return out
}

func serializeBoxes(ns []*boxNode) []byte {
	var out []byte
	for _, n := range ns {
		body := n.payload
		if n.cont {
			body = serializeBoxes(n.children)
		}
		out = append(out, rawbox(uint32(8+len(body)), n.typ, body)...)
	}
	return out
}

type surgeryVariant struct {
	what string
	data []byte
}

// initSurgery: for every box of the tree one variant without it, for every container one variant with
// no children.
func initSurgery(init []byte) []surgeryVariant {
	var out []surgeryVariant
	root := parseBoxes(init)
	var walk func(list *[]*boxNode, path string)
	walk = func(list *[]*boxNode, path string) {
		for i := range *list {
			n := (*list)[i]
			p := path + "/" + n.typ
			// removed
			saved := *list
			without := append(append([]*boxNode{}, saved[:i]...), saved[i+1:]...)
			*list = without
			out = append(out, surgeryVariant{"without " + p, serializeBoxes(root)})
			*list = saved
			if n.cont {
				kids := n.children
				n.children = nil
				out = append(out, surgeryVariant{"empty " + p, serializeBoxes(root)})
				n.children = kids
				walk(&n.children, p)
			}
		}
	}
	walk(&root, "")
	return out
}

// maxSizeField: largest box size field the chunk parser will act on (it allocates that much).
func maxSizeField(s []byte) int {
	pos, worst := 0, 0
	for pos+8 <= len(s) {
		size := int(binary.BigEndian.Uint32(s[pos:]))
		if size < 8 {
			break
		}
		if size > worst {
			worst = size
		}
		if pos+size > len(s) {
			break
		}
		pos += size
	}
	return worst
}

// ---------------------------------------------------------------- run, oracle, cases

func classOf(o c08obs) string {
	switch o.Class {
	case "panic":
		return "panic:" + o.Site
	case "crash":
		return "crash:" + o.Site
	case "hang":
		return "hang:" + o.Site
	}
	return strconv.Itoa(o.Status)
}

func judge(c *lib.Ctx, id string, cs c08case, o c08obs) {
	in := map[string]any{"req": cs.Req, "group": cs.Group, "expect": cs.Expect, "why": cs.Why, "model": cs.Model, "prelude": cs.Prelude}
	url := cs.Req.Method + " " + cs.Req.URL
	switch o.Class {
	case "panic":
		c.Fail(id, "panic:"+o.Site, fmt.Sprintf("%s: handler panicked: %s (%s)", url, o.Raw, o.Site), in)
		return
	case "crash":
		c.Fail(id, "crash:"+o.Site, fmt.Sprintf("%s: the server process died: %s", url, o.Raw), in)
		return
	case "hang":
		site := o.Site
		if site == "" {
			site = "?"
		}
		c.Fail(id, "hang:"+site, fmt.Sprintf("%s: no response within the watchdog (%s), the handler was in %s", url, o.Raw, site), in)
		return
	case "skip":
		return
	}
	if o.Status < 100 || o.Status > 599 {
		c.Fail(id, "status:invalid", fmt.Sprintf("%s: status %d", url, o.Status), in)
		return
	}
	switch cs.Expect {
	case "4xx":
		if o.Status < 400 || o.Status > 499 {
			c.Fail(id, fmt.Sprintf("status:%d-for-bad-parameter", o.Status),
				fmt.Sprintf("%s: %s, expected a 4xx with a message, got %d %q", url, cs.Why, o.Status, firstLine(o.Body)), in)
		} else if strings.TrimSpace(o.Body) == "" {
			c.Fail(id, "status:4xx-without-message", fmt.Sprintf("%s: %s: %d with an empty body", url, cs.Why, o.Status), in)
		}
	case "deliberate": // any status, but an error must carry a message (an empty 5xx is what the Recoverer leaves)
		if o.Status >= 500 && strings.TrimSpace(o.Body) == "" {
			c.Fail(id, fmt.Sprintf("status:%d-empty", o.Status), fmt.Sprintf("%s: %s: %d with an empty body", url, cs.Why, o.Status), in)
		}
	case "no5xx":
		if o.Status >= 500 {
			c.Fail(id, fmt.Sprintf("status:%d-for-patch-request", o.Status),
				fmt.Sprintf("%s: %s, expected a patch or a 4xx, got %d %q", url, cs.Why, o.Status, firstLine(o.Body)), in)
		}
	case "404":
		if o.Status != 404 {
			c.Fail(id, fmt.Sprintf("status:%d-for-unknown-segment", o.Status),
				fmt.Sprintf("%s: %s, expected 404, got %d %q", url, cs.Why, o.Status, firstLine(o.Body)), in)
		}
	}
}

func firstLine(s string) string {
	s, _, _ = strings.Cut(s, "\n")
	if len(s) > 120 {
		s = s[:120]
	}
	return s
}

func runC08(c *lib.Ctx) error {
	if c.Replay != "" {
		return replayC08(c)
	}
	rng := rand.New(rand.NewSource(c.Seed))
	env, err := loadEnv()
	if err != nil {
		return err
	}
	cases := gen(c, rng)
	// stateful requests carry their history for the replay
	{
		hist := map[string][]c08req{}
		for i := range cases {
			rq := cases[i].Req
			key := ""
			switch rq.Kind {
			case "recv":
				key = path.Dir(rq.URL) // the track directory
			case "apiseq":
				key = "apiseq"
				if rq.Method == "POST" {
					hist[key] = nil // a new session: its history starts here
				}
			}
			if key == "" {
				continue
			}
			h := hist[key]
			if len(h) > 6 {
				h = h[len(h)-6:]
			}
			cases[i].Prelude = append([]c08req{}, h...)
			hist[key] = append(h, rq)
		}
	}
	obs := make([]c08obs, len(cases))
	classes := map[string]int{}
	distinct := map[string]bool{}
	t0 := time.Now()
	// the receiver keeps state per channel: its requests go to one worker, in order; all other
	// requests are independent and are spread over several workers (hangs then overlap)
	var recvIdx, cfgIdx, otherIdx []int
	for i, cs := range cases {
		if cs.Req.Kind == "recv" || cs.Req.Kind == "apiseq" || cs.Req.Kind == "liveseq" || cs.Req.Kind == "routerseq" {
			recvIdx = append(recvIdx, i)
		} else if cs.Req.Kind == "cfg" { // servers with their own configuration (and limiter state): one worker, in order
			cfgIdx = append(cfgIdx, i)
		} else {
			otherIdx = append(otherIdx, i)
		}
	}
	restarts, slowTotal := 0, 0
	var mu sync.Mutex
	var wg sync.WaitGroup
	runList := func(idx []int) {
		defer wg.Done()
		p := &pool{}
		lastID := "0" // id of the session created last on this server ({id} in later URLs)
		for _, i := range idx {
			rq := cases[i].Req
			if strings.Contains(rq.URL, "{id}") {
				rq.URL = strings.ReplaceAll(rq.URL, "{id}", lastID)
				cases[i].Req.URL = rq.URL
			}
			obs[i] = p.doP(rq, cases[i].Prelude)
			if rq.Method == "POST" && strings.HasPrefix(rq.URL, "/api/cmaf-ingests") && obs[i].Class == "status" && obs[i].Status < 300 {
				if m := createdID.FindStringSubmatch(obs[i].Body); m != nil {
					lastID = m[1]
				}
			}
		}
		if p.w != nil {
			p.w.stop()
		}
		mu.Lock()
		restarts += p.restarts
		slowTotal += p.slow
		mu.Unlock()
	}
	const nWorkers = 8
	wg.Add(2)
	go runList(recvIdx)
	go runList(cfgIdx)
	for k := 0; k < nWorkers; k++ {
		var part []int
		for j := k; j < len(otherIdx); j += nWorkers {
			part = append(part, otherIdx[j])
		}
		wg.Add(1)
		go runList(part)
	}
	wg.Wait()
	for i, cs := range cases {
		classes[classOf(obs[i])]++
		distinct[classOf(obs[i])+"|"+cs.Group] = true
	}
	p := &pool{restarts: restarts}
	c.Res.Notes = append(c.Res.Notes, fmt.Sprintf("%d requests served in %.1f s, %d worker restarts, %d requests slower than 5 s that returned within 20 s on a second attempt", len(cases), time.Since(t0).Seconds(), p.restarts, slowTotal))
	var ks []string
	for k := range classes {
		ks = append(ks, k)
	}
	sort.Strings(ks)
	for _, k := range ks {
		c.Res.Distribution["class:"+k] = classes[k]
	}
	var mcases []int
	nModel := 0
	for i, cs := range cases {
		id := strconv.Itoa(i)
		c.Res.Inputs[id] = map[string]any{"req": cs.Req, "group": cs.Group, "model": cs.Model, "observed": classOf(obs[i])}
		judge(c, id, cs, obs[i])
		if cs.Model != nil && obs[i].Class != "skip" && obs[i].Class != "crash" {
			mcases = append(mcases, i)
			nModel++
		}
		if i%97 == 0 {
			c.Sample(map[string]any{"request": cs.Req.Method + " " + cs.Req.URL, "class": classOf(obs[i])})
		}
	}
	// identical requests to one server must get the same class
	for i, cs := range cases {
		if cs.Repeat > 0 && classOf(obs[i]) != classOf(obs[i-cs.Repeat]) {
			c.Fail(strconv.Itoa(i), "repeat:"+classOf(obs[i-cs.Repeat])+"-then-"+classOf(obs[i]),
				fmt.Sprintf("%s %s: request %d of the same request to the same server was answered %s, the first one %s", cs.Req.Method, cs.Req.URL, cs.Repeat+1, classOf(obs[i]), classOf(obs[i-cs.Repeat])),
				map[string]any{"req": cs.Req, "group": cs.Group, "expect": cs.Expect, "why": cs.Why, "model": cs.Model, "repeat": cs.Repeat})
		}
	}
	c.Res.Evaluations = len(cases)
	c.Res.ModelCases = nModel
	c.Res.DistinctNontrivial = len(distinct)
	c.Res.Rule = "hostile requests through the real routers in a worker process (5 s watchdog, 3 GB heap limit): every URL key x 28 boundary/malformed values singly on 8 targets (MPD, video, audio, generated subtitles, BaseURL, init, period edge, 8 s asset), pairs (sampled; complete over the 14 base values in thorough), structured values for every parameter that reaches an index/divisor/loop, segment-name shapes, all endpoints (/urlgen, /patch, /api, /vod, licence POSTs), receiver uploads (truncated, impossible box sizes, bit flips, random bytes, odd paths, Content-Length). distinct = distinct (response class, generator group); non-trivial = all"
	envDefs := coqEnv(env) + "Definition n1 : string := \"100000\".\nDefinition uq1 : list (string * list string) := [(\"nowMS\", [n1])].\n"
	shard := 350
	if c.Thorough() {
		shard = 500
	}
	for s := 0; s*shard < len(mcases); s++ {
		e := (s + 1) * shard
		if e > len(mcases) {
			e = len(mcases)
		}
		bt := &bodyTable{idx: map[string]int{}}
		var terms []string
		for _, i := range mcases[s*shard : e] {
			terms = append(terms, fmt.Sprintf("Build_c08case %d env0 (%s) (%s)", i, coqReq(cases[i].Model), coqObs(obs[i], bt)))
		}
		c.WriteCases(fmt.Sprintf("cases_C08_%d.v", s),
			lib.CasesFile("From Verif Require Import GoSem UrlStr UrlCfg UrlHandler CorrC08.", "c08case", envDefs+strings.Join(bt.defs, "\n")+"\n", terms, ""))
		// no model view: evaluating it compiles the cases a second time (a third of the run time);
		// `Eval vm_compute in run_case (nth k cases ...)` in the written file shows it when needed
	}
	return nil
}

func replayC08(c *lib.Ctx) error {
	type rin struct {
		Req     c08req    `json:"req"`
		Group   string    `json:"group"`
		Expect  string    `json:"expect"`
		Why     string    `json:"why"`
		Model   *modelReq `json:"model"`
		Prelude []c08req  `json:"prelude"`
	}
	in, err := lib.LoadReplayInput[rin](c.Replay)
	if err != nil {
		return err
	}
	p := &pool{}
	lastID := "0"
	sub := func(rq c08req) c08req { rq.URL = strings.ReplaceAll(rq.URL, "{id}", lastID); return rq }
	for _, pr := range in.Prelude {
		pr = sub(pr)
		po := p.do(pr)
		if pr.Method == "POST" && po.Class == "status" && po.Status < 300 {
			if m := createdID.FindStringSubmatch(po.Body); m != nil {
				lastID = m[1]
			}
		}
		fmt.Printf("replay C08: (prelude) %s %s -> %s\n", pr.Method, pr.URL, classOf(po))
	}
	in.Req = sub(in.Req)
	o := p.do(in.Req)
	if p.w != nil {
		p.w.stop()
	}
	fmt.Printf("replay C08: %s %s -> %s %q\n", in.Req.Method, in.Req.URL, classOf(o), firstLine(o.Body))
	judge(c, "replay", c08case{Group: in.Group, Req: in.Req, Expect: in.Expect, Why: in.Why, Model: in.Model}, o)
	return nil
}
