package main

// Worker process of the C08 harness: serves one request at a time on the real routers
// (in-process livesim2 built from /repo's tree, and the CMAF-ingest receiver behind its upload
// handler). It runs in a child process because a hostile request may spin while allocating
// (calcCueItvls), sleep for years (writeChunkedSegment), kill the process from another goroutine
// (receiver channel goroutine) or make the runtime give up (huge Content-Length).
//
// Protocol: one JSON request per line on stdin, one JSON observation per line on fd 3.

import (
	"bufio"
	"bytes"
	"context"
	"encoding/json"
	"fmt"
	"io"
	"net/http"
	"net/http/httptest"
	"os"
	"runtime"
	"runtime/debug"
	"strings"
	"sync/atomic"
	"time"

	rapp "github.com/Dash-Industry-Forum/livesim2/cmd/cmaf-ingest-receiver/app"
	"github.com/Dash-Industry-Forum/livesim2/cmd/livesim2/app"
	"github.com/go-chi/chi/v5/middleware"
	"verifharness/lib"
)

type c08req struct {
	Kind   string            `json:"kind"` // live (LiveRouter, no Recoverer) | router (full Router) | recv (receiver upload handler)
	Method string            `json:"method"`
	URL    string            `json:"url"`
	Body   []byte            `json:"body,omitempty"`
	Hdr    map[string]string `json:"hdr,omitempty"`
	// Cfg names a server built with an unusual but accepted ServerConfig (kind "cfg")
	Cfg string `json:"cfg,omitempty"`
	// WatchdogMS overrides the 5 s watchdog (used by the parent to confirm a hang on a loaded machine)
	WatchdogMS int `json:"watchdog_ms,omitempty"`
}

type c08obs struct {
	Class  string `json:"class"` // status | panic | hang | crash
	Status int    `json:"status"`
	Body   string `json:"body"`
	Site   string `json:"site"` // "<function>: <kind>"
	Raw    string `json:"raw"`
	MS     int64  `json:"ms"`
}

const watchdog = 5 * time.Second
const heapLimit = 3 << 30

// siteFromStack returns the innermost livesim2 function below the panic frame of a stack dump.
func siteFromStack(stack string) string {
	lines := strings.Split(stack, "\n")
	start := 0
	for i, l := range lines {
		if strings.HasPrefix(l, "panic(") {
			start = i + 1
		}
	}
	for _, l := range lines[start:] {
		if strings.HasPrefix(l, "\t") || !strings.Contains(l, "Dash-Industry-Forum/livesim2") {
			continue
		}
		f := l
		if i := strings.LastIndex(f, "/"); i >= 0 {
			f = f[i+1:]
		}
		if i := strings.LastIndex(f, "("); i > 0 {
			f = f[:i]
		}
		return f
	}
	return "?"
}

// hangSite: the innermost livesim2 function of the goroutine that is serving the request.
func hangSite() string {
	buf := make([]byte, 4<<20)
	n := runtime.Stack(buf, true)
	for _, g := range strings.Split(string(buf[:n]), "\n\n") {
		if !strings.Contains(g, "main.serveOne") {
			continue
		}
		for _, l := range strings.Split(g, "\n") {
			if strings.HasPrefix(l, "\t") || !strings.Contains(l, "Dash-Industry-Forum/livesim2") {
				continue
			}
			f := l
			if i := strings.LastIndex(f, "/"); i >= 0 {
				f = f[i+1:]
			}
			if i := strings.LastIndex(f, "("); i > 0 {
				f = f[:i]
			}
			return f
		}
	}
	return "?"
}

// normKind drops the request-specific details of a panic value.
func normKind(v string) string {
	s := strings.TrimPrefix(v, "runtime error: ")
	switch {
	case strings.HasPrefix(s, "index out of range"):
		return "index out of range"
	case strings.HasPrefix(s, "slice bounds out of range"):
		return "slice bounds out of range"
	case strings.Contains(s, "nil pointer dereference"):
		return "nil dereference"
	case strings.HasPrefix(s, "makeslice"):
		return s
	case strings.HasPrefix(s, "invalid NewRequest arguments"):
		return "invalid NewRequest arguments"
	}
	return s
}

type panicEntry struct {
	val   string
	stack string
}

func (p *panicEntry) Write(status, bytes int, header http.Header, elapsed time.Duration, extra interface{}) {
}
func (p *panicEntry) Panic(v interface{}, stack []byte) {
	p.val = fmt.Sprint(v)
	p.stack = string(stack)
}

type flushRecorder struct{ *httptest.ResponseRecorder }

func serveOne(h http.Handler, rq c08req, inject bool) (o c08obs) {
	var body io.Reader = http.NoBody // a server-side request never has a nil Body
	if len(rq.Body) > 0 {
		body = bytes.NewReader(rq.Body)
	}
	req, err := http.NewRequest(rq.Method, rq.URL, body)
	if err != nil {
		return c08obs{Class: "status", Status: 400, Body: "harness: request not expressible: " + err.Error()}
	}
	req.RequestURI = rq.URL
	req.RemoteAddr = "192.0.2.1:1234"
	if req.Host == "" {
		req.Host = "example.com"
	}
	for k, v := range rq.Hdr {
		req.Header.Set(k, v)
	}
	pe := &panicEntry{}
	if inject {
		req = middleware.WithLogEntry(req, pe)
	}
	rec := httptest.NewRecorder()
	defer func() {
		if r := recover(); r != nil {
			v := fmt.Sprint(r)
			o = c08obs{Class: "panic", Raw: v, Site: siteFromStack(string(debug.Stack())) + ": " + normKind(v)}
		}
	}()
	h.ServeHTTP(rec, req)
	if pe.stack != "" {
		return c08obs{Class: "panic", Raw: pe.val, Site: siteFromStack(pe.stack) + ": " + normKind(pe.val)}
	}
	b := rec.Body.Bytes()
	if len(b) > 300 { // keep both ends: the message of an error often ends with its reason
		b = append(append(append([]byte{}, b[:180]...), []byte(" ~ ")...), b[len(b)-117:]...)
	}
	return c08obs{Class: "status", Status: rec.Code, Body: string(b)}
}

func workerMain() {
	out := os.NewFile(3, "obs")
	if out == nil {
		fmt.Fprintln(os.Stderr, "worker: fd 3 missing")
		os.Exit(2)
	}
	tmp, err := os.MkdirTemp("", "c08w")
	if err != nil {
		panic(err)
	}
	defer os.RemoveAll(tmp)
	if err := os.Chdir(tmp); err != nil { // handleMPD creates directories relative to the cwd
		panic(err)
	}
	ls, err := lib.NewLivesim(lib.TestVodRoot, nil)
	if err != nil {
		panic(err)
	}
	recv, err := rapp.VerifNewReceiver(context.Background(), tmp+"/storage", "/upload", 60, nil)
	if err != nil {
		panic(err)
	}
	// a sink for CMAF-ingest sessions started through the API ("{sink}" in a request body)
	sink := httptest.NewServer(http.HandlerFunc(func(w http.ResponseWriter, r *http.Request) {
		io.Copy(io.Discard, r.Body)
		w.WriteHeader(http.StatusOK)
	}))
	defer sink.Close()
	// servers with unusual but accepted configurations, built when first asked for
	cfgMods := map[string]func(*app.ServerConfig){
		"maxreq-neg":       func(c *app.ServerConfig) { c.MaxRequests = -1 },
		"maxreq-neg-big":   func(c *app.ServerConfig) { c.MaxRequests = -1 << 62; c.ReqLimitInt = -1 },
		"maxreq-1":         func(c *app.ServerConfig) { c.MaxRequests = 1; c.ReqLimitInt = 10 },
		"maxreq-1-int0":    func(c *app.ServerConfig) { c.MaxRequests = 1; c.ReqLimitInt = 0 },
		"maxreq-2-intneg":  func(c *app.ServerConfig) { c.MaxRequests = 2; c.ReqLimitInt = -5 },
		"maxreq-whitelist": func(c *app.ServerConfig) { c.MaxRequests = 1; c.ReqLimitInt = 10; c.WhiteListBlocks = "192.0.2.0/24" },
		"maxreq-white-bad": func(c *app.ServerConfig) { c.MaxRequests = 1; c.ReqLimitInt = 10; c.WhiteListBlocks = "x," },
		"maxreq-log": func(c *app.ServerConfig) {
			c.MaxRequests = 1
			c.ReqLimitInt = 10
			c.ReqLimitLog = tmp + "/reqlimit.log"
		},
		"maxreq-log-bad": func(c *app.ServerConfig) {
			c.MaxRequests = 1
			c.ReqLimitInt = 10
			c.ReqLimitLog = tmp + "/no/such/dir/x.log"
		},
		"timeout-neg":       func(c *app.ServerConfig) { c.TimeoutS = -1 },
		"timeout-1":         func(c *app.ServerConfig) { c.TimeoutS = 1 },
		"livewindow-0":      func(c *app.ServerConfig) { c.LiveWindowS = 0 },
		"livewindow-neg":    func(c *app.ServerConfig) { c.LiveWindowS = -300 },
		"host-set":          func(c *app.ServerConfig) { c.Host = "https://example.org" },
		"playurl-empty":     func(c *app.ServerConfig) { c.PlayURL = "" },
		"playurl-bad":       func(c *app.ServerConfig) { c.PlayURL = "%zz%s%s" },
		"repdata-write":     func(c *app.ServerConfig) { c.RepDataRoot = tmp + "/repdata"; c.WriteRepData = true },
		"repdata-missing":   func(c *app.ServerConfig) { c.RepDataRoot = tmp + "/no/such/repdata" },
		"port-0-loglevel-x": func(c *app.ServerConfig) { c.Port = 0; c.LogFormat = "x" },
	}
	cfgServers := map[string]http.Handler{}
	cfgServer := func(name string) (http.Handler, string) {
		if h, ok := cfgServers[name]; ok {
			if h == nil {
				return nil, "server not available"
			}
			return h, ""
		}
		mod, ok := cfgMods[name]
		if !ok {
			return nil, "unknown configuration " + name
		}
		l, err := lib.NewLivesim(lib.TestVodRoot, mod)
		if err != nil { // a configuration that SetupServer refuses is a deliberate answer too
			cfgServers[name] = nil
			return nil, "SetupServer: " + err.Error()
		}
		cfgServers[name] = l.Srv.Router
		return l.Srv.Router, ""
	}
	var memHit atomic.Bool
	go func() {
		var ms runtime.MemStats
		for {
			time.Sleep(25 * time.Millisecond)
			runtime.ReadMemStats(&ms)
			if ms.HeapAlloc > heapLimit {
				memHit.Store(true)
				return
			}
		}
	}()
	w := bufio.NewWriter(out)
	emit := func(o c08obs) {
		data, _ := json.Marshal(o)
		w.Write(data)
		w.WriteByte('\n')
		w.Flush()
	}
	sc := bufio.NewScanner(os.Stdin)
	sc.Buffer(make([]byte, 1<<20), 64<<20)
	for sc.Scan() {
		var rq c08req
		if err := json.Unmarshal(sc.Bytes(), &rq); err != nil {
			emit(c08obs{Class: "status", Status: 400, Body: "harness: bad request line"})
			continue
		}
		if bytes.Contains(rq.Body, []byte("{sink}")) {
			rq.Body = bytes.ReplaceAll(rq.Body, []byte("{sink}"), []byte(sink.URL))
		}
		done := make(chan c08obs, 1)
		t0 := time.Now()
		go func() {
			defer func() { // a panic while a configured server is being built
				if r := recover(); r != nil {
					v := fmt.Sprint(r)
					done <- c08obs{Class: "panic", Raw: v, Site: siteFromStack(string(debug.Stack())) + ": " + normKind(v)}
				}
			}()
			switch rq.Kind {
			case "cfg":
				h, msg := cfgServer(rq.Cfg)
				if h == nil {
					done <- c08obs{Class: "skip", Body: msg}
					return
				}
				done <- serveOne(h, rq, true)
			case "live", "liveseq":
				done <- serveOne(ls.Srv.LiveRouter, rq, false)
			case "recv":
				done <- serveOne(recv.Handler(), rq, false)
			default:
				done <- serveOne(ls.Srv.Router, rq, true)
			}
		}()
		var o c08obs
		tick := time.NewTicker(20 * time.Millisecond)
		wd := watchdog
		if rq.WatchdogMS > 0 {
			wd = time.Duration(rq.WatchdogMS) * time.Millisecond
		}
		deadline := time.After(wd)
	wait:
		for {
			select {
			case o = <-done:
				break wait
			case <-deadline:
				o = c08obs{Class: "hang", Raw: fmt.Sprintf("no response within %v", wd), Site: hangSite()}
				break wait
			case <-tick.C:
				if memHit.Load() {
					o = c08obs{Class: "hang", Raw: "handler kept allocating (heap above 3 GB), stopped", Site: hangSite()}
					break wait
				}
			}
		}
		tick.Stop()
		o.MS = time.Since(t0).Milliseconds()
		emit(o)
		if o.Class == "hang" {
			os.RemoveAll(tmp)
			os.Exit(0) // the runaway goroutine cannot be stopped; the parent starts a new worker
		}
	}
}
