// c09: low-latency chunked delivery is the same media, never delivered early.
//
// L1 (authoritative): an in-process livesim2 over the bundled assets. For every case the segment is
// requested twice for the same instant: in whole-segment mode (ato_X) and in chunked mode
// (chunkdur_Y/ato_X) through a recording ResponseWriter that timestamps every Write and Flush. The body
// between two Flush calls is one chunk. The property text is evaluated on the two responses (oracle);
// the chunk boundaries, the status decision and the write instants go to the Coq model of
// chunkSegment / writeChunkedSegment. Requests whose chunks are still in the future are paced by
// the server in real time; they run concurrently with the rest of the harness.
// L2: chunkSegment through the hook file verif_hooks_c09.go on synthetic in-memory segments
// (any sample durations, any chunk duration incl. 0 and negative, decode times near 2^64).
package main

import (
	"bufio"
	"bytes"
	"context"
	"errors"
	"fmt"
	"io"
	"math"
	"math/rand"
	"net"
	"net/http"
	"net/http/httptest"
	"regexp"
	"runtime"
	"sort"
	"strconv"
	"strings"
	"sync"
	"sync/atomic"
	"time"

	"github.com/Dash-Industry-Forum/livesim2/cmd/livesim2/app"
	"github.com/Eyevinn/mp4ff/mp4"
	"verifharness/lib"
)

func main() { lib.Main("C09", runC09) }

// ---------------------------------------------------------------- inputs

type c09in struct {
	Kind string `json:"kind"` // "l1" | "l2"
	// l2: chunkSegment called directly
	Durs     []uint32 `json:"durs,omitempty"`
	HasStyp  bool     `json:"has_styp,omitempty"`
	NewTime  uint64   `json:"new_time,omitempty"`
	NewNr    uint32   `json:"new_nr,omitempty"`
	NewDur   uint32   `json:"new_dur,omitempty"`
	ChunkDur int64    `json:"chunk_dur,omitempty"`
	// l1: HTTP request
	Asset    string `json:"asset,omitempty"`
	Rep      string `json:"rep,omitempty"`
	Ato      string `json:"ato,omitempty"`      // value of ato_ in the URL (seconds, decimal)
	Chunkdur string `json:"chunkdur,omitempty"` // value of chunkdur_ in the URL
	StartS   int64  `json:"start_s,omitempty"`
	Mode     string `json:"mode,omitempty"` // number | tlt
	DRM      string `json:"drm,omitempty"`  // "", "cbcs", "cenc"
	Seg      int64  `json:"seg,omitempty"`  // index of the segment from the start of the stream
	NowMS    int64  `json:"now_ms,omitempty"`
	Why      string `json:"why,omitempty"` // which breakpoint the instant was taken from
	// edge cases: is the advertised availability instant at or after 2^31 s (January 2038, where float64
	// seconds have a spacing of 4.8e-7 s), and is the offset a decimal one that float64 cannot represent (not a multiple of 1/8 s)
	After2038     bool `json:"after_2038,omitempty"`
	OffsetDecimal bool `json:"offset_decimal,omitempty"` // not a multiple of 1/8 s
	// Methods: the chunked and the whole-segment URL are also requested with HEAD and OPTIONS
	Methods bool `json:"methods,omitempty"`
	// BrokenBefore > 0: the same chunked URL is first requested by a client whose connection breaks at
	// that Write call (short write + error); the ordinary request follows on the same instance
	BrokenBefore int    `json:"broken_before,omitempty"`
	URL          string `json:"url,omitempty"`
	WholeURL     string `json:"whole_url,omitempty"`
}

type sampleObs struct {
	DT    uint64
	Dur   uint32
	Flags uint32
	Size  uint32
	Cto   int32
	Data  []byte
}

type chunkObs struct {
	Styp    bool
	Seq     uint32
	Tfdt    uint64
	Samples []sampleObs
	Dur     int64 // chk.dur (L2), -1 when not observable (L1)
	WriteMS int64 // L1: nowMS + (first Write of the chunk - start of the request)
	NBoxes  int
}

func (c chunkObs) span() uint64 {
	var s uint64
	for _, x := range c.Samples {
		s += uint64(x.Dur)
	}
	return s
}

type c09obs struct {
	Status int // 0 served, 1 too early, 2 panic, 3 other
	HTTP   int
	Panic  string
	Err    string
	Chunks []chunkObs
	// model inputs taken from the whole-segment response (L1)
	Whole     []sampleObs
	WholeStyp bool
	WholeTfdt uint64
	WholeSeq  uint32
	WholeHTTP int
	// asset facts (L1)
	TS                                 int64
	SegDurMS                           int64
	AtoMSInt                           int64 // int(ato*1000) as the Go expression evaluates it
	AtoMSChk                           int64 // ato in exact milliseconds (time check)
	AtoMicro                           int64 // ato in exact microseconds (request guard)
	AtoInf                             bool
	Outside                            bool // the harness's own statement: not (0 <= ato < segment duration), chunked mode has no chunk duration
	Hung                               bool // the watchdog gave up on the request
	Skipped                            bool // not asked: the watchdog had already given up on several requests
	BudgetMS                           int64
	HeadChunked, HeadWhole, OptChunked int // status of HEAD / OPTIONS for the same URLs (0 = not asked)
	HeadBodyNote                       string
	Edge                               bool  // inside the range but the offset rounded to ms is the segment duration
	GuardOK                            bool  // ato >= 0 && ato*1000 < float64(SegmentDurMS), the Go float64 expression of the handler
	AvailMS                            int64 // advertised end of the segment on the wall clock
	Sleeps                             bool
	ElapsedMS                          int64
}

// ---------------------------------------------------------------- parsing

// parseParts parses a byte string made of [styp] moof mdat groups into one chunkObs per fragment.
func parseFrags(data []byte, trex *mp4.TrexBox) (out []chunkObs, err error) {
	defer func() {
		if r := recover(); r != nil {
			err = fmt.Errorf("parse panic: %v", r)
		}
	}()
	f, err := mp4.DecodeFile(bytes.NewReader(data))
	if err != nil {
		return nil, err
	}
	for _, s := range f.Segments {
		for i, fr := range s.Fragments {
			co := chunkObs{Dur: -1}
			co.Styp = s.Styp != nil && i == 0
			co.Seq = fr.Moof.Mfhd.SequenceNumber
			if fr.Moof.Traf.Tfdt != nil {
				co.Tfdt = fr.Moof.Traf.Tfdt.BaseMediaDecodeTime()
			}
			fss, err := fr.GetFullSamples(trex)
			if err != nil {
				return nil, err
			}
			for _, fs := range fss {
				co.Samples = append(co.Samples, sampleObs{fs.DecodeTime, fs.Dur, fs.Flags, fs.Size, fs.CompositionTimeOffset, fs.Data})
			}
			out = append(out, co)
		}
	}
	return out, nil
}

func topBoxes(data []byte) []string {
	var out []string
	for pos := 0; pos+8 <= len(data); {
		sz := int(uint32(data[pos])<<24 | uint32(data[pos+1])<<16 | uint32(data[pos+2])<<8 | uint32(data[pos+3]))
		out = append(out, string(data[pos+4:pos+8]))
		if sz < 8 {
			break
		}
		pos += sz
	}
	return out
}

// ---------------------------------------------------------------- L2

var l2init *mp4.InitSegment

func getL2Init() *mp4.InitSegment {
	if l2init == nil {
		l2init = mp4.CreateEmptyInit()
		l2init.AddEmptyTrack(90000, "video", "und")
	}
	return l2init
}

func payload(i int) []byte {
	return []byte{'S', byte(i >> 8), byte(i), byte(i * 7)}[:1+i%4]
}

func runL2(in c09in) (o c09obs) {
	init := getL2Init()
	var seg *mp4.MediaSegment
	if in.HasStyp {
		seg = mp4.NewMediaSegment()
	} else {
		seg = mp4.NewMediaSegmentWithoutStyp()
	}
	// two fragments in the incoming segment when there are enough samples: chunkSegment must not care
	nFirst := len(in.Durs)
	if len(in.Durs) >= 4 && len(in.Durs)%3 == 0 {
		nFirst = len(in.Durs) / 2
	}
	mk := func(seq uint32, from, to int, t uint64) uint64 {
		fr, _ := mp4.CreateFragment(seq, 1)
		for i := from; i < to; i++ {
			d := payload(i)
			fr.AddFullSample(mp4.FullSample{Sample: mp4.Sample{Flags: uint32(0x1010000 + i), Dur: in.Durs[i], Size: uint32(len(d)), CompositionTimeOffset: int32(i%5) - 2},
				DecodeTime: t, Data: d})
			t += uint64(in.Durs[i])
		}
		seg.AddFragment(fr)
		return t
	}
	t := mk(1, 0, nFirst, 1000)
	if nFirst < len(in.Durs) {
		mk(2, nFirst, len(in.Durs), t)
	}
	// encode + decode so that the fragments are what a parsed file gives
	var buf bytes.Buffer
	if err := seg.Encode(&buf); err != nil {
		o.Status, o.Err = 3, "encode: "+err.Error()
		return o
	}
	pf, err := mp4.DecodeFile(bytes.NewReader(buf.Bytes()))
	if err != nil || len(pf.Segments) != 1 {
		o.Status, o.Err = 3, fmt.Sprintf("decode: %v", err)
		return o
	}
	pseg := pf.Segments[0]
	func() {
		defer func() {
			if r := recover(); r != nil {
				o.Status, o.Panic = 2, fmt.Sprintf("app.chunkSegment: %v", r)
			}
		}()
		chunks, err := app.VerifC09ChunkSegment(init, pseg, in.NewTime, in.NewNr, in.NewDur, int(in.ChunkDur))
		if err != nil {
			o.Status, o.Err = 3, err.Error()
			return
		}
		trex := init.Moov.Mvex.Trex
		for _, ch := range chunks {
			co := chunkObs{Styp: ch.Styp != nil, Dur: int64(ch.Dur)}
			co.Seq = ch.Frag.Moof.Mfhd.SequenceNumber
			co.Tfdt = ch.Frag.Moof.Traf.Tfdt.BaseMediaDecodeTime()
			// encode and parse back: what a client sees
			var b bytes.Buffer
			if err := ch.Frag.Encode(&b); err != nil {
				o.Status, o.Err = 3, "chunk encode: "+err.Error()
				return
			}
			pc, err := parseFrags(b.Bytes(), trex)
			if err != nil || len(pc) != 1 {
				o.Status, o.Err = 3, fmt.Sprintf("chunk parse: %v (%d fragments)", err, len(pc))
				return
			}
			co.Samples = pc[0].Samples
			if pc[0].Tfdt != co.Tfdt || pc[0].Seq != co.Seq {
				o.Status, o.Err = 3, "chunk header changes when encoded"
				return
			}
			o.Chunks = append(o.Chunks, co)
		}
	}()
	// the samples of the incoming segment, as parsed
	ws, err := parseFrags(buf.Bytes(), init.Moov.Mvex.Trex)
	if err == nil {
		for _, w := range ws {
			o.Whole = append(o.Whole, w.Samples...)
		}
	}
	o.WholeStyp = in.HasStyp
	o.WholeTfdt = in.NewTime
	o.WholeSeq = in.NewNr
	return o
}

// ---------------------------------------------------------------- L1

type l1env struct {
	segDurDiff []string
	tsrv       *lib.Livesim // the same content behind a request timeout of 1 s (ServerConfig.TimeoutS)
	ls         *lib.Livesim
	assets     map[string]*lib.TLAsset
	segDur     map[string]int64 // SegmentDurMS of the loaded asset (hook), 0 if the hook is unavailable
}

func atoMSInt(ato string) int64 {
	f, _ := strconv.ParseFloat(ato, 64)
	return int64(math.Round(f * 1000)) // the Go expression of writeChunkedSegment (rounds since /repo 4ed430d)
}

// atoMicro parses a decimal number of seconds (at most 6 decimals) into microseconds; "inf" is +Inf.
func atoMicro(ato string) (int64, bool) {
	if ato == "inf" {
		return 0, true
	}
	neg := strings.HasPrefix(ato, "-")
	s := strings.TrimPrefix(ato, "-")
	ip, fp, _ := strings.Cut(s, ".")
	for len(fp) < 6 {
		fp += "0"
	}
	a, _ := strconv.ParseInt(ip, 10, 64)
	b, _ := strconv.ParseInt(fp[:6], 10, 64)
	v := a*1000000 + b
	if neg {
		v = -v
	}
	return v, false
}

// guardDetected / guardRounded: which request guard chunked mode has in the tree under test, found by
// asking the real handler (a rename or an extracted helper in the source cannot change the answer):
// a chunked request whose offset is beyond the segment duration, and a negative one, are either
// refused with 400 (guard, 6ca1ef6) or served; an offset that is below the segment duration but
// rounds to it (1.9996 s on 2 s segments) is refused only if the guard compares the offset rounded
// to milliseconds (f0e7b4c). The model is evaluated with these flags, every other case must agree.
var guardDetected bool
var guardRounded bool
var guardHow string

func (e *l1env) probeChunkGuard() {
	a := e.assets["testpic_2s"]
	if a == nil || a.Rep("V300") == nil {
		guardHow = "probe asset testpic_2s missing: assuming no guard"
		return
	}
	ask := func(ato string) int {
		in := c09in{Kind: "l1", Asset: a.Path, Rep: "V300", Ato: ato, Chunkdur: "0.5", Mode: "number", Seg: 50, NowMS: 110000}
		in.fillURLs(a, a.Rep("V300"), a.Ref())
		r, to := serveWatched(e.ls.Srv.LiveRouter, httptest.NewRequest("GET", in.URL, nil), lib.NewRecWriter(), nil, watchdogMarginMS*time.Millisecond)
		if to {
			return -1
		}
		return r.Status
	}
	beyond, negative, edge := ask("3"), ask("-0.5"), ask("1.9996")
	guardDetected = beyond == 400 && negative == 400
	guardRounded = guardDetected && edge == 400
	guardHow = fmt.Sprintf("behavioural probe on testpic_2s/V300 (2 s segments): ato_3 -> %d, ato_-0.5 -> %d, ato_1.9996 -> %d", beyond, negative, edge)
}

// atoMSExact parses a decimal number of seconds with at most 3 decimals into milliseconds.
func atoMSExact(ato string) int64 {
	neg := strings.HasPrefix(ato, "-")
	s := strings.TrimPrefix(ato, "-")
	ip, fp, _ := strings.Cut(s, ".")
	for len(fp) < 3 {
		fp += "0"
	}
	a, _ := strconv.ParseInt(ip, 10, 64)
	b, _ := strconv.ParseInt(fp[:3], 10, 64)
	v := a*1000 + b
	if neg {
		v = -v
	}
	return v
}

func (in *c09in) fillURLs(a *lib.TLAsset, r *lib.TLRep, ref *lib.TLRep) {
	var pre strings.Builder
	fmt.Fprintf(&pre, "ato_%s/", in.Ato)
	if in.StartS != 0 {
		fmt.Fprintf(&pre, "start_%d/", in.StartS)
	}
	if in.Mode == "tlt" {
		pre.WriteString("segtimeline_1/")
	}
	if in.DRM != "" {
		fmt.Fprintf(&pre, "eccp_%s/", in.DRM)
	}
	id := in.Seg
	if in.Mode == "tlt" {
		id = r.LoopS(in.Seg)
		if r.Kind == "audio" {
			id = audioTime(in.Seg, ref, r)
		}
	}
	tail := fmt.Sprintf("%s/%s/%d%s?nowMS=%d", a.Path, r.ID, id, r.Ext, in.NowMS)
	in.WholeURL = "/livesim2/" + pre.String() + tail
	in.URL = "/livesim2/chunkdur_" + in.Chunkdur + "/" + pre.String() + tail
}

// audioTime is the $Time$ of audio segment n: the first audio frame boundary at or after the
// start of reference segment n (calcAudioTimeFromRef; 1024-sample frames).
func audioTime(n int64, ref, r *lib.TLRep) int64 {
	s := ref.LoopS(n)
	const fr = 1024
	x := s * r.Timescale
	d := ref.Timescale * fr
	q := x / d
	if q*d < x {
		q++
	}
	return q * fr
}

func (e *l1env) run(in c09in) (o c09obs) {
	a := e.assets[in.Asset]
	r := a.Rep(in.Rep)
	ref := a.Ref()
	o.TS = r.Timescale
	o.SegDurMS = e.segDur[in.Asset]
	o.AtoMSInt = atoMSInt(in.Ato)
	o.AtoMSChk = atoMSExact(in.Ato)
	o.AtoMicro, o.AtoInf = atoMicro(in.Ato)
	o.Outside = o.AtoInf || o.AtoMicro < 0 || o.AtoMicro >= o.SegDurMS*1000
	// offsets less than half a millisecond below the segment duration round to it: no chunk duration either
	o.Edge = !o.Outside && o.AtoMSInt >= o.SegDurMS
	if f, err := strconv.ParseFloat(in.Ato, 64); err == nil {
		if guardRounded {
			o.GuardOK = f >= 0 && math.Round(f*1000) < float64(o.SegDurMS) // f0e7b4c
		} else {
			o.GuardOK = f >= 0 && f*1000 < float64(o.SegDurMS) // 6ca1ef6
		}
	}
	o.AvailMS = in.StartS*1000 + ref.LoopE(in.Seg)*1000/ref.Timescale

	whole := e.ls.GetRaw(in.WholeURL)
	o.WholeHTTP = whole.Status
	if whole.Panic != "" {
		o.WholeHTTP = 0
	}
	if whole.Status == 200 && whole.Panic == "" {
		ws, err := parseFrags(whole.Body, r.Trex)
		if err != nil || len(ws) == 0 {
			o.Status, o.Err = 3, fmt.Sprintf("whole segment unparsable: %v", err)
			return o
		}
		o.WholeStyp, o.WholeTfdt, o.WholeSeq = ws[0].Styp, ws[0].Tfdt, ws[0].Seq
		for _, w := range ws {
			o.Whole = append(o.Whole, w.Samples...)
		}
	}
	if atomic.LoadInt32(&hangs) >= maxHangs {
		o.Skipped = true
		return o
	}
	budget := o.budget(in.NowMS)
	o.BudgetMS = budget.Milliseconds()
	if in.BrokenBefore > 0 {
		rw := lib.NewRecWriter()
		serveWatched(e.ls.Srv.LiveRouter, httptest.NewRequest("GET", in.URL, nil), rw, func(w http.ResponseWriter) http.ResponseWriter {
			return &breakingWriter{RecWriter: rw, failAt: in.BrokenBefore}
		}, budget)
	}
	if in.Methods {
		do := func(method, url string) int {
			r, to := serveWatched(e.ls.Srv.LiveRouter, httptest.NewRequest(method, url, nil), lib.NewRecWriter(), nil, budget)
			if to {
				return -1
			}
			return r.Status
		}
		o.HeadChunked, o.HeadWhole, o.OptChunked = do("HEAD", in.URL), do("HEAD", in.WholeURL), do("OPTIONS", in.URL)
	}
	rec, timedOut := serveWatched(e.ls.Srv.LiveRouter, httptest.NewRequest("GET", in.URL, nil), lib.NewRecWriter(), nil, budget)
	o.Hung = timedOut
	o.HTTP = rec.Status
	o.ElapsedMS = rec.EndUnixMS - rec.StartUnixMS
	switch {
	case rec.Panic != "":
		o.Status, o.Panic, o.HTTP = 2, rec.Panic, 0
		return o
	case rec.Status == 425:
		o.Status = 1
		return o
	case rec.Status == 400:
		o.Status, o.Err = 4, strings.TrimSpace(string(rec.Body))
		return o
	case rec.Status != 200:
		o.Status, o.Err = 3, strings.TrimSpace(string(rec.Body))
		return o
	}
	for _, p := range rec.Parts() {
		cs, err := parseFrags(p.Data, r.Trex)
		if err != nil {
			o.Status, o.Err = 3, "chunk unparsable: "+err.Error()
			return o
		}
		if p.FlushMS == 0 {
			o.Err = "bytes after the last Flush"
		}
		for _, c := range cs {
			c.WriteMS = in.NowMS + (p.FirstWriteMS - rec.StartUnixMS)
			c.NBoxes = len(topBoxes(p.Data))
			if len(cs) != 1 {
				c.NBoxes = -len(cs) // several fragments flushed together
			}
			o.Chunks = append(o.Chunks, c)
		}
	}
	return o
}

// ---- watchdog: every request that the server may pace gets a real-time deadline derived from the
// property (the last chunk of a segment is due one chunk period after the previous one, at the
// latest one chunk period after the end of the segment) plus a margin wide enough for a loaded
// machine. time.Sleep cannot be cancelled, so the handler runs in a goroutine of its own and is
// abandoned when the deadline passes; after a few such hangs no further paced requests are made.
const watchdogMarginMS = 8000
const maxHangs = 3

var hangs int32

type lockedWriter struct {
	mu sync.Mutex
	w  http.ResponseWriter
}

func (l *lockedWriter) Header() http.Header { return l.w.Header() }
func (l *lockedWriter) WriteHeader(c int)   { l.mu.Lock(); defer l.mu.Unlock(); l.w.WriteHeader(c) }
func (l *lockedWriter) Write(p []byte) (int, error) {
	l.mu.Lock()
	defer l.mu.Unlock()
	return l.w.Write(p)
}
func (l *lockedWriter) Flush() {
	l.mu.Lock()
	defer l.mu.Unlock()
	if f, ok := l.w.(http.Flusher); ok {
		f.Flush()
	}
}

func panicSiteHere() string {
	pcs := make([]uintptr, 64)
	n := runtime.Callers(3, pcs)
	frames := runtime.CallersFrames(pcs[:n])
	for {
		fr, more := frames.Next()
		if strings.Contains(fr.Function, "Dash-Industry-Forum/livesim2") {
			f := fr.Function
			if i := strings.LastIndex(f, "/"); i >= 0 {
				f = f[i+1:]
			}
			return f
		}
		if !more {
			return "?"
		}
	}
}

// serveWatched runs h.ServeHTTP(w, req) and gives up after budget. rec is the recorder behind w (w may
// wrap it); the returned response is a snapshot taken under the writer's lock.
func serveWatched(h http.Handler, req *http.Request, rec *lib.RecWriter, wrap func(http.ResponseWriter) http.ResponseWriter, budget time.Duration) (out lib.RecResp, timedOut bool) {
	lw := &lockedWriter{w: rec}
	if wrap != nil {
		lw.w = wrap(rec)
	}
	done := make(chan string, 1)
	out.StartUnixMS = time.Now().UnixMilli()
	go func() {
		defer func() {
			if r := recover(); r != nil {
				done <- fmt.Sprintf("%s: %v", panicSiteHere(), r)
				return
			}
			done <- ""
		}()
		h.ServeHTTP(lw, req)
	}()
	var pan string
	select {
	case pan = <-done:
	case <-time.After(budget):
		timedOut = true
		atomic.AddInt32(&hangs, 1)
	}
	out.EndUnixMS = time.Now().UnixMilli()
	lw.mu.Lock()
	code := rec.Code
	if code == 0 {
		code = http.StatusOK
	}
	out.Resp = lib.Resp{Status: code, Header: rec.Hdr.Clone(), Body: append([]byte{}, rec.Body.Bytes()...), Panic: pan}
	out.Events = append([]lib.WriteEvent{}, rec.Events...)
	lw.mu.Unlock()
	if pan != "" {
		out.Status = 0
	}
	return out, timedOut
}

// budget is the real time a chunked request for this case may take.
func (o *c09obs) budget(nowMS int64) time.Duration {
	period := o.SegDurMS - o.AtoMSChk
	if period < 0 || o.AtoInf {
		period = 0
	}
	wait := o.AvailMS + period + 50 - nowMS // +50: re-segmented audio ends up to one frame after the video segment
	if wait < 0 {
		wait = 0
	}
	return time.Duration(wait+watchdogMarginMS) * time.Millisecond
}

// breakingWriter is a client connection that breaks: from the failAt-th Write call on, a Write takes
// half of the bytes and reports an error.
type breakingWriter struct {
	*lib.RecWriter
	failAt, n int
}

func (b *breakingWriter) Write(p []byte) (int, error) {
	b.n++
	if b.n >= b.failAt {
		k := len(p) / 2
		_, _ = b.RecWriter.Write(p[:k])
		return k, errors.New("write: broken pipe")
	}
	return b.RecWriter.Write(p)
}

// ---------------------------------------------------------------- oracle

func maxDur(s []sampleObs) uint64 {
	var m uint64
	for _, x := range s {
		if uint64(x.Dur) > m {
			m = uint64(x.Dur)
		}
	}
	return m
}

// oracle evaluates the property text on one observation. inDomain says whether the configuration is
// one the property quantifies over (0 < chunk duration, every sample has a positive duration).
func oracle(c *lib.Ctx, id string, in c09in, o c09obs) {
	fail := func(key, what string) { c.Fail(id, key, what, in) }
	if o.Status == 2 {
		site := o.Panic
		site = strings.Replace(site, ": runtime error: ", ":", 1)
		site = strings.Replace(site, ": ", ":", 1)
		fail("panic:"+site, "handler panicked: "+o.Panic)
		return
	}
	if o.Skipped {
		return
	}
	if in.Kind == "l1" && o.Hung {
		adv := o.AvailMS - o.AtoMSChk
		fail("chunk-never-delivered", fmt.Sprintf("the chunked response was not complete %d ms (real time) after the request: %d chunk(s) delivered; the last chunk of the segment is due at %d ms at the latest, the request was made at %d ms (advertised availability %d ms)",
			o.BudgetMS, len(o.Chunks), o.AvailMS+o.SegDurMS-o.AtoMSChk, in.NowMS, adv))
		return
	}
	if in.Kind == "l1" && in.Methods && (o.HeadChunked == -1 || o.HeadWhole == -1 || o.OptChunked == -1) {
		fail("chunk-never-delivered", fmt.Sprintf("a HEAD/OPTIONS request for the same URL was not answered within %d ms (real time)", o.BudgetMS))
	}
	if in.Kind == "l1" && o.HTTP == 200 && strings.HasPrefix(o.Err, "chunk unparsable") {
		fail("malformed-body", "the chunked response (status 200) is not a sequence of [styp] moof mdat groups: "+o.Err)
		return
	}
	if in.Kind == "l1" && o.Outside {
		// not (0 <= ato < segment duration): chunked mode has no chunk duration; the request must be refused (400)
		if o.Status == 4 {
			c.Count("l1:refused-400-outside-the-offset-range")
			return
		}
		{
			key := "guard-not-applied"
			if !o.AtoInf && o.AtoMicro == o.SegDurMS*1000 {
				key = "guard-not-applied:offset-equal-to-segment-duration"
			}
			fail(key, fmt.Sprintf("chunked request with availabilityTimeOffset %s (segment duration %d ms) answered %d instead of 400", in.Ato, o.SegDurMS, o.HTTP))
			return
		}
	}
	if in.Kind == "l1" && o.Status == 4 && o.Edge {
		c.Count("l1:refused-400-offset-rounds-to-the-segment-duration")
		return
	}
	if in.Kind == "l1" && o.Status == 4 {
		fail("refused-in-domain", fmt.Sprintf("chunked request with availabilityTimeOffset %s (0 <= ato < segment duration %d ms) answered 400: %s", in.Ato, o.SegDurMS, o.Err))
		return
	}
	if in.Kind == "l1" {
		// too early <=> before the advertised availability time
		adv := o.AvailMS
		if o.AtoMSChk > 0 && !o.AtoInf {
			adv -= o.AtoMSChk
		}
		if o.AtoInf {
			adv = 0
		}
		switch {
		case in.NowMS < adv && o.Status != 1:
			fail("not-refused-early", fmt.Sprintf("request %d ms before the advertised availability time %d was answered with status %d", adv-in.NowMS, adv, o.HTTP))
		case in.NowMS >= adv && in.NowMS <= adv+70000 && o.Status != 0:
			fail("refused-when-available", fmt.Sprintf("request %d ms after the advertised availability time %d got status %d %s", in.NowMS-adv, adv, o.HTTP, o.Err))
		}
		if in.Methods {
			// HEAD is GET without the body: same status, chunked or not; OPTIONS never delivers media
			if o.HeadChunked != o.HTTP && o.HTTP != 0 {
				fail("head-status", fmt.Sprintf("HEAD on the chunked URL answers %d, GET %d", o.HeadChunked, o.HTTP))
			}
			if o.HeadWhole != o.WholeHTTP && o.WholeHTTP != 0 {
				fail("head-status", fmt.Sprintf("HEAD on the whole-segment URL answers %d, GET %d", o.HeadWhole, o.WholeHTTP))
			}
			if o.OptChunked >= 500 || o.OptChunked == 0 {
				fail("options-status", fmt.Sprintf("OPTIONS on the chunked URL answers %d", o.OptChunked))
			}
		}
		if o.HTTP != o.WholeHTTP {
			fail("mode-status", fmt.Sprintf("chunked mode answers %d, whole-segment mode %d for the same URL and instant", o.HTTP, o.WholeHTTP))
		}
	}
	if o.Status != 0 {
		if o.Status == 3 && !(in.Kind == "l1" && o.HTTP == 410 && in.NowMS > o.AvailMS-o.AtoMSChk+70000) {
			fail("error", fmt.Sprintf("status %d: %s", o.HTTP, o.Err))
		}
		return
	}
	if o.Err != "" {
		fail("framing", o.Err)
	}
	// same media
	var cat []sampleObs
	for _, ch := range o.Chunks {
		cat = append(cat, ch.Samples...)
	}
	whole := o.Whole
	if in.Kind == "l2" {
		// chunkSegment restamps decode times from newTime
		whole = make([]sampleObs, len(o.Whole))
		t := in.NewTime
		for i, s := range o.Whole {
			s.DT = t
			whole[i] = s
			t += uint64(s.Dur)
		}
	}
	allPos := true
	for _, s := range whole {
		if s.Dur == 0 {
			allPos = false
		}
	}
	same := len(cat) == len(whole)
	firstDiff := -1
	for i := 0; same && i < len(cat); i++ {
		a, b := cat[i], whole[i]
		if a.DT != b.DT || a.Dur != b.Dur || a.Flags != b.Flags || a.Size != b.Size || a.Cto != b.Cto || (in.DRM == "" && !bytes.Equal(a.Data, b.Data)) {
			same = false
			firstDiff = i
		}
	}
	if !same {
		key := "same-media"
		if len(cat) < len(whole) && firstDiff == -1 {
			// a strict prefix: are the missing samples exactly a tail of zero-duration samples?
			prefix, zeros := true, true
			for i := range cat {
				a, b := cat[i], whole[i]
				if a.DT != b.DT || a.Dur != b.Dur || a.Flags != b.Flags || a.Size != b.Size || a.Cto != b.Cto || !bytes.Equal(a.Data, b.Data) {
					prefix = false
				}
			}
			for _, b := range whole[len(cat):] {
				if b.Dur != 0 {
					zeros = false
				}
			}
			if prefix && zeros {
				key = "same-media:zero-duration-tail"
			}
		}
		fail(key, fmt.Sprintf("chunks concatenated give %d samples, whole segment %d (first difference at sample %d)", len(cat), len(whole), firstDiff))
	}
	// styp on the first chunk only, sequence number, order and contiguity, no empty chunk
	next := o.WholeTfdt
	for k, ch := range o.Chunks {
		if k == 0 && ch.Styp != o.WholeStyp {
			fail("styp-first", fmt.Sprintf("first chunk styp=%v, segment styp=%v", ch.Styp, o.WholeStyp))
		}
		if k > 0 && ch.Styp {
			fail("styp-later", fmt.Sprintf("chunk %d carries a styp", k))
		}
		if ch.Seq != o.WholeSeq {
			fail("sequence-number", fmt.Sprintf("chunk %d has sequence number %d, segment %d", k, ch.Seq, o.WholeSeq))
		}
		if len(ch.Samples) == 0 {
			fail("empty-chunk", fmt.Sprintf("chunk %d has no samples", k))
			continue
		}
		if ch.Tfdt != next || ch.Samples[0].DT != ch.Tfdt {
			fail("contiguous", fmt.Sprintf("chunk %d starts at %d, previous chunk ended at %d", k, ch.Tfdt, next))
		}
		next = ch.Tfdt + ch.span()
		if in.Kind == "l1" && ch.NBoxes < 0 {
			fail("framing", fmt.Sprintf("%d fragments were flushed together", -ch.NBoxes))
		}
	}
	// span: no chunk covers more than (segment duration - ato) plus one sample
	md := maxDur(whole)
	var cnum, cden int64 // chunk period as a rational number of ticks
	if in.Kind == "l1" {
		cnum, cden = (o.SegDurMS-o.AtoMSChk)*o.TS, 1000
	} else {
		cnum, cden = in.ChunkDur, 1
	}
	inDomain := cnum > 0 && allPos
	if inDomain {
		for k, ch := range o.Chunks {
			if int64(ch.span())*cden >= cnum+int64(md)*cden {
				key := "chunk-span"
				if in.Kind == "l1" && o.AtoMSInt != o.AtoMSChk && int64(ch.span())*1000 < (o.SegDurMS-o.AtoMSInt)*o.TS+int64(md)*1000 {
					// within the bound for int(ato*1000) as the code truncates it, outside it for the advertised ato
					key = "chunk-span:ato-truncated"
				}
				fail(key, fmt.Sprintf("chunk %d spans %d ticks, chunk period %d/%d ticks, longest sample %d", k, ch.span(), cnum, cden, md))
			}
		}
	}
	if in.Kind == "l1" {
		// never early: a chunk is not written before its last sample has ended on the wall clock
		for k, ch := range o.Chunks {
			endMS := (int64(ch.Tfdt+ch.span()) + in.StartS*o.TS) * 1000 / o.TS
			if ch.WriteMS < endMS {
				fail("early-chunk", fmt.Sprintf("chunk %d (media end %d ms) was written at %d ms on the request's wall clock, %d ms early", k, endMS, ch.WriteMS, endMS-ch.WriteMS))
			}
		}
		// a request at the advertised availability time can be answered at once: the first chunk
		// is complete at most one sample after that time
		if inDomain && len(o.Chunks) > 0 {
			ch := o.Chunks[0]
			endTicks := int64(ch.Tfdt+ch.span()) + in.StartS*o.TS
			advTicksNum := (o.AvailMS - o.AtoMSChk) * o.TS // *1000
			slack := int64(md)                             // video: segment boundaries are the advertised ones
			if in.Rep == "A48" {
				slack = 2 * int64(md) // re-segmented audio starts less than one frame after the video segment
			}
			if endTicks*1000 >= advTicksNum+slack*1000+1000 {
				key := "first-chunk-late"
				var own uint64
				for _, s := range whole {
					own += uint64(s.Dur)
				}
				if (int64(own)+2*int64(md))*1000 < o.SegDurMS*o.TS {
					// this segment is shorter than the asset's nominal (mean) segment duration that the chunk duration is derived from
					key = "first-chunk-late:segment-shorter-than-nominal"
				}
				fail(key, fmt.Sprintf("first chunk ends at tick %d, advertised availability is %d/1000 ticks, longest sample %d", endTicks, advTicksNum, md))
			}
		}
	}
	var tot uint64
	for _, s := range whole {
		tot += uint64(s.Dur)
	}
	if in.Kind == "l2" && inDomain && tot < 1<<32 {
		// pacing durations: true span, or chunkDur for a last partial chunk (never shorter than the span)
		for k, ch := range o.Chunks {
			if ch.Dur < int64(ch.span()) {
				fail("pacing-duration", fmt.Sprintf("chunk %d spans %d ticks but is paced with %d", k, ch.span(), ch.Dur))
			}
		}
	}
}

// ---------------------------------------------------------------- Coq terms

func c09term(i int, in c09in, o c09obs) string {
	var durs []int64
	for _, s := range o.Whole {
		durs = append(durs, int64(s.Dur))
	}
	var chunks []string
	var writes []int64
	for _, ch := range o.Chunks {
		chunks = append(chunks, fmt.Sprintf("(%s, %d, %s, %d, %s)", lib.Cbool(ch.Styp), ch.Seq, u64s(ch.Tfdt), len(ch.Samples), lib.Zs(ch.Dur)))
		if in.Kind == "l1" {
			writes = append(writes, ch.WriteMS)
		}
	}
	var newTime string
	var newNr, newDur int64
	cd := "None"
	availMS, atoChk, atoInt, ts, segDur, startS := int64(-1), int64(0), int64(0), int64(1), int64(0), int64(0)
	if in.Kind == "l2" {
		newTime, newNr, newDur = u64s(in.NewTime), int64(in.NewNr), int64(in.NewDur)
		cd = fmt.Sprintf("(Some %s)", lib.Zs(in.ChunkDur))
	} else {
		var sum uint64
		for _, s := range o.Whole {
			sum += uint64(s.Dur)
		}
		newTime, newNr, newDur = u64s(o.WholeTfdt), int64(o.WholeSeq), int64(uint32(sum))
		availMS, atoChk, atoInt, ts, segDur, startS = o.AvailMS, o.AtoMSChk, o.AtoMSInt, o.TS, o.SegDurMS, in.StartS
	}
	return fmt.Sprintf("{| c_id := %d; c_durs := %s; c_hasStyp := %s; c_newTime := %s; c_newNr := %d; c_newDur := %d; c_chunkDur := %s; "+
		"c_segDurMS := %d; c_atoMS := %s; c_atoChk := %s; c_atoMicro := "+microTerm(o)+"; c_guard := "+lib.Cbool(guardDetected)+"; c_guardRounded := "+lib.Cbool(guardRounded)+"; c_guardOK := "+lib.Cbool(o.GuardOK)+"; c_ts := %d; c_startS := %d; c_availMS := %s; c_nowMS := %d; o_status := %d; o_chunks := [%s]; o_writes := %s |}",
		i, lib.Zlist64(durs), lib.Cbool(o.WholeStyp), newTime, newNr, newDur, cd, segDur, lib.Zs(atoInt), lib.Zs(atoChk), ts, startS, lib.Zs(availMS), in.NowMS, o.Status,
		strings.Join(chunks, "; "), lib.Zlist64(writes))
}

func microTerm(o c09obs) string {
	if o.AtoInf {
		return "None"
	}
	return "(Some " + lib.Zs(o.AtoMicro) + ")"
}

func u64s(v uint64) string { return strconv.FormatUint(v, 10) }

// ---------------------------------------------------------------- generators

func genL2(rng *rand.Rand, n int, c *lib.Ctx) []c09in {
	var ins []c09in
	add := func(kind string, in c09in) {
		in.Kind = "l2"
		// keep make([]chunk, 0, newDur/uint32(chunkDur)) small: the capacity is allocated
		if u := uint32(in.ChunkDur); u != 0 && in.NewDur/u > 1<<20 {
			in.NewDur = u * uint32(rng.Intn(1000))
		}
		ins = append(ins, in)
		c.Count("l2:" + kind)
	}
	sum := func(d []uint32) uint64 {
		var s uint64
		for _, x := range d {
			s += uint64(x)
		}
		return s
	}
	times := func() uint64 {
		switch rng.Intn(6) {
		case 0:
			return 0
		case 1:
			return uint64(rng.Int63n(1 << 40))
		case 2:
			return uint64(rng.Int63()) // < 2^63
		default:
			return uint64(rng.Int63n(1<<33)) * 90000
		}
	}
	constDurs := []uint32{1024, 3000, 3003, 3600, 512, 1, 1001, 1800}
	for i := 0; i < n; i++ {
		var in c09in
		ns := 1 + rng.Intn(48)
		if rng.Intn(40) == 0 {
			ns = 0
		}
		kind := ""
		switch k := rng.Intn(10); {
		case k < 4: // constant sample duration (video frames / audio frames)
			d := constDurs[rng.Intn(len(constDurs))]
			for j := 0; j < ns; j++ {
				in.Durs = append(in.Durs, d)
			}
			kind = "const"
		case k < 7: // irregular
			for j := 0; j < ns; j++ {
				in.Durs = append(in.Durs, uint32(1+rng.Intn(5000)))
			}
			kind = "irregular"
		case k < 8: // with zero-duration samples
			for j := 0; j < ns; j++ {
				d := uint32(rng.Intn(3)) * 1000
				in.Durs = append(in.Durs, d)
			}
			kind = "zero-durs"
		case k < 9: // one very long sample among short ones
			for j := 0; j < ns; j++ {
				in.Durs = append(in.Durs, uint32(100+rng.Intn(100)))
			}
			if ns > 0 {
				in.Durs[rng.Intn(ns)] = uint32(5000 + rng.Intn(100000))
			}
			kind = "long-sample"
		default: // huge durations: uint32 sums wrap
			ns = 1 + rng.Intn(5)
			for j := 0; j < ns; j++ {
				in.Durs = append(in.Durs, uint32(1<<30+rng.Intn(1<<31)))
			}
			kind = "huge"
		}
		tot := int64(sum(in.Durs))
		in.HasStyp = rng.Intn(3) != 0
		in.NewTime = times()
		if rng.Intn(25) == 0 { // decode times wrap around 2^64
			in.NewTime = ^uint64(0) - uint64(rng.Int63n(tot+2))
			kind += "+time-wrap"
		}
		in.NewNr = uint32(rng.Int63n(1 << 32))
		in.NewDur = uint32(tot)
		if rng.Intn(10) == 0 {
			in.NewDur = uint32(rng.Int63n(1 << 32))
		}
		// chunk duration
		var d0 int64 = 1
		if len(in.Durs) > 0 {
			d0 = int64(in.Durs[0])
		}
		switch k := rng.Intn(16); {
		case k == 0:
			in.ChunkDur = 0
			kind += "/C=0"
		case k == 1:
			in.ChunkDur = -int64(rng.Intn(100000)) - 1
			kind += "/C<0"
		case k == 2:
			in.ChunkDur = []int64{1 << 32, -(1 << 32), 1 << 33, 3 << 32}[rng.Intn(4)]
			kind += "/C=k*2^32"
		case k == 3:
			in.ChunkDur = tot + int64(rng.Intn(1000)) // one chunk
			kind += "/C>=total"
		case k == 4:
			in.ChunkDur = 1 + int64(rng.Intn(int(d0%1000)+1)) // shorter than a sample
			kind += "/C<sample"
		case k < 8:
			in.ChunkDur = d0 * int64(1+rng.Intn(6)) // multiple of the sample duration
			kind += "/C=k*sample"
		case k < 10 && tot > 0:
			parts := int64(1 + rng.Intn(8))
			in.ChunkDur = tot / parts // divides (or nearly) the segment
			if in.ChunkDur == 0 {
				in.ChunkDur = 1
			}
			kind += "/C=total/k"
		default:
			in.ChunkDur = 1 + rng.Int63n(tot+d0+1)
			kind += "/C-random"
		}
		if rng.Intn(12) == 0 {
			in.ChunkDur += int64(rng.Intn(3)) - 1 // one off a breakpoint
		}
		add(kind, in)
	}
	return ins
}

type l1plan struct {
	ins      []c09in
	realtime []bool
}

func (e *l1env) genL1(rng *rand.Rand, c *lib.Ctx) l1plan {
	var p l1plan
	add := func(kind string, in c09in, rt bool) {
		in.Kind = "l1"
		a := e.assets[in.Asset]
		in.fillURLs(a, a.Rep(in.Rep), a.Ref())
		p.ins = append(p.ins, in)
		p.realtime = append(p.realtime, rt)
		c.Count("l1:" + kind)
	}
	type acfg struct {
		asset string
		segMS int64
		atos  []string // from one sample short of a segment down to a fraction of it
	}
	cfgs := []acfg{
		{"testpic_2s", 2000, []string{"1.96", "1.9", "1.75", "1.5", "1.25", "1", "0.5", "0.25", "0.04"}},
		{"testpic_8s", 8000, []string{"7.96", "7", "6", "4", "1", "0.5"}},
		{"testpic_6s", 6000, []string{"5.9", "5", "4.5", "3", "0.75"}},
		{"WAVE/vectors/cfhd_sets/14.985_29.97_59.94/t1/2022-10-17", 2002, []string{"1.96", "1.5", "1.001", "0.5"}}, // 29.97 fps: SegmentDurMS 2002
	}
	chunkdurs := []string{"0.5", "0.1", "1", "0.04", "2"}
	nSeg := 3
	if c.Thorough() {
		nSeg = 12
	}
	for _, ac := range cfgs {
		a := e.assets[ac.asset]
		if a == nil {
			continue
		}
		ref := a.Ref()
		N := int64(len(ref.Segs))
		for _, repID := range []string{ref.ID, "A48"} {
			r := a.Rep(repID)
			if r == nil {
				continue
			}
			for _, ato := range ac.atos {
				atoMS := atoMSExact(ato)
				for k := 0; k < nSeg; k++ {
					in := c09in{Asset: ac.asset, Rep: repID, Ato: ato, Chunkdur: chunkdurs[rng.Intn(len(chunkdurs))], Mode: "number"}
					switch rng.Intn(4) {
					case 0:
						in.Seg = rng.Int63n(N) // first loop
					case 1:
						in.Seg = N - 1 + rng.Int63n(3) + N*rng.Int63n(50) // around a wrap
					default:
						in.Seg = rng.Int63n(800000000 / ac.segMS * 1000) // far from the epoch (~25 years)
					}
					if rng.Intn(4) == 0 {
						in.StartS = []int64{30, 7, 1000000}[rng.Intn(3)]
					}
					if rng.Intn(5) == 0 {
						in.Mode = "tlt"
					}
					if rng.Intn(5) == 0 {
						in.DRM = []string{"cbcs", "cenc"}[rng.Intn(2)]
					}
					endMS := in.StartS*1000 + ref.LoopE(in.Seg)*1000/ref.Timescale
					adv := endMS - atoMS
					chunkMS := ac.segMS - atoMS
					// instants that need no pacing: every chunk (the last one is paced one chunk period
					// after the previous one) is in the past
					for _, w := range []struct {
						why string
						now int64
					}{
						{"adv-1", adv - 1},
						{"adv-" + "far", adv - 1 - rng.Int63n(5000)},
						{"all-past", endMS + chunkMS + 1 + rng.Int63n(3000)},
						{"late", adv + 30000 + rng.Int63n(40000)},
						{"gone", adv + 70001 + rng.Int63n(5000)},
					} {
						in2 := in
						in2.NowMS, in2.Why = w.now, w.why
						if in2.NowMS < 0 {
							in2.NowMS = 0
						}
						in2.Methods = k == 0 || c.Thorough() // HEAD / OPTIONS before, at (all past) and after availability
						if w.why == "all-past" && k == 1 {
							in2.BrokenBefore = []int{1, 2, 3, 7, 40, 200}[rng.Intn(6)]
						}
						add("nowait:"+w.why, in2, false)
					}
				}
			}
		}
	}
	// real-time cases: the server paces the chunks. 2 s asset in the quick tier.
	rtCfgs := []struct {
		asset, rep, ato string
		off             int64 // instant relative to the advertised availability time
		drm, mode       string
		startS          int64
	}{
		{"testpic_2s", "V300", "1.5", 0, "", "number", 0},
		{"testpic_2s", "V300", "1.75", 0, "", "number", 0},
		{"testpic_2s", "V300", "1", 137, "", "number", 30},
		{"testpic_2s", "V300", "1.96", 0, "", "tlt", 0},
		{"testpic_2s", "V300", "0.5", 0, "cbcs", "number", 0},
		{"testpic_2s", "V300", "1.9", 901, "", "number", 0},
		{"testpic_2s", "A48", "1.5", 0, "", "number", 0},
		{"testpic_2s", "A48", "1.75", 40, "", "tlt", 0},
		{"testpic_2s", "A48", "1", 0, "cenc", "number", 7},
		{"testpic_2s", "A48", "0.25", 0, "", "number", 0},
		{"testpic_2s", "V300", "1.25", 1250, "", "number", 0}, // at segment end: only the last chunk's pacing is in the future
		{"testpic_2s", "A48", "1.9", 0, "", "number", 0},
		{"testpic_2s", "V300", "1.9", 0, "", "number", 1000000},
		{"testpic_2s", "V300", "0.04", 0, "", "number", 0},
		{"testpic_2s", "A48", "1.96", 0, "", "number", 0},
	}
	if c.Thorough() {
		for _, x := range []struct {
			asset, rep, ato string
		}{{"testpic_8s", "V300", "7"}, {"testpic_8s", "A48", "6"}, {"testpic_6s", "V300", "4.5"}, {"testpic_6s", "A48", "5.9"},
			{"testpic_8s", "V300", "7.96"}, {"testpic_8s", "A48", "4"}} {
			for _, off := range []int64{0, 333} {
				rtCfgs = append(rtCfgs, struct {
					asset, rep, ato string
					off             int64
					drm, mode       string
					startS          int64
				}{x.asset, x.rep, x.ato, off, "", "number", 0})
			}
		}
		for i := 0; i < 24; i++ {
			base := rtCfgs[rng.Intn(12)]
			base.off = rng.Int63n(1500)
			base.ato = []string{"1.96", "1.9", "1.75", "1.5", "1.25", "1", "0.5", "0.25"}[rng.Intn(8)]
			rtCfgs = append(rtCfgs, base)
		}
	}
	for _, x := range rtCfgs {
		a := e.assets[x.asset]
		if a == nil || a.Rep(x.rep) == nil {
			continue
		}
		ref := a.Ref()
		in := c09in{Asset: x.asset, Rep: x.rep, Ato: x.ato, Chunkdur: "0.5", Mode: x.mode, DRM: x.drm, StartS: x.startS}
		in.Seg = rng.Int63n(400000000)
		endMS := in.StartS*1000 + ref.LoopE(in.Seg)*1000/ref.Timescale
		in.NowMS = endMS - atoMSExact(x.ato) + x.off
		in.Why = fmt.Sprintf("adv+%d", x.off)
		add("realtime", in, true)
	}
	// late inside a segment that is longer than the asset's nominal segment duration (alternating 4 s /
	// 8 s segments, nominal 6 s): the chunks still to come are paced one by one
	if a := e.assets["testpic_alt_seg_dur_stl"]; a != nil {
		ref := a.Ref()
		nominal := e.segDur[a.Path] * ref.Timescale / 1000
		var long []int64
		for n := int64(0); n < int64(len(ref.Segs)); n++ {
			if ref.LoopE(n)-ref.LoopS(n) > nominal {
				long = append(long, n)
			}
		}
		if len(long) > 0 {
			N := int64(len(ref.Segs))
			for _, x := range []struct {
				rep, ato string
				back     int64 // ms before the end of the segment
			}{{ref.ID, "5", 600}, {"A48", "5", 450}, {ref.ID, "3", 300}} {
				if a.Rep(x.rep) == nil {
					continue
				}
				in := c09in{Asset: a.Path, Rep: x.rep, Ato: x.ato, Chunkdur: "0.5", Mode: "number"}
				in.Seg = long[rng.Intn(len(long))] + N*rng.Int63n(100000)
				in.NowMS = ref.LoopE(in.Seg)*1000/ref.Timescale - x.back
				in.Why = fmt.Sprintf("end-%d of a segment longer than nominal", x.back)
				add("realtime:long-segment", in, true)
			}
		}
	}
	// re-segmented audio just after its nominal end (segment start + nominal duration) but before
	// its frame-aligned end: the last chunk is not over yet
	for _, x := range []struct{ asset, ato string }{{"testpic_2s", "1.5"}, {"testpic_8s", "7"}, {"testpic_6s", "5"}} {
		a := e.assets[x.asset]
		if a == nil || a.Rep("A48") == nil {
			continue
		}
		ref, r := a.Ref(), a.Rep("A48")
		best, bestGap := int64(-1), int64(0)
		for k := 0; k < 400; k++ {
			n := 10 + rng.Int63n(1000000)
			startMS := audioTime(n, ref, r) * 1000 / r.Timescale
			endMS := audioTime(n+1, ref, r) * 1000 / r.Timescale
			if gap := endMS - (startMS + e.segDur[x.asset]); gap > bestGap {
				best, bestGap = n, gap
			}
		}
		if best >= 0 {
			in := c09in{Asset: x.asset, Rep: "A48", Ato: x.ato, Chunkdur: "0.5", Mode: "number", Seg: best}
			in.NowMS = audioTime(best, ref, r)*1000/r.Timescale + e.segDur[x.asset] + 1
			in.Why = fmt.Sprintf("1 ms after the nominal end, %d ms before the audio end", bestGap-1)
			add("realtime:audio-end", in, true)
		}
	}
	// both sides of the offset range of chunked mode (0 <= ato < segment duration): exactly the
	// segment duration, one ms / one us below and above, 0, negative, +Inf; also on the assets
	// whose SegmentDurMS is a mean (alternating segment durations) or not a whole second (29.97 fps)
	ms := func(v int64) string { return strconv.FormatFloat(float64(v)/1000, 'f', -1, 64) }
	for _, x := range []struct{ asset, rep string }{
		{"testpic_2s", "V300"}, {"testpic_2s", "A48"}, {"testpic_8s", "V300"}, {"testpic_6s", "A48"},
		{"testpic_alt_seg_dur_stl", "V300"}, {"testpic_alt_seg_dur_stl", "A48"},
		{"WAVE/vectors/cfhd_sets/14.985_29.97_59.94/t1/2022-10-17", "1"}} {
		a := e.assets[x.asset]
		if a == nil || a.Rep(x.rep) == nil {
			continue
		}
		ref := a.Ref()
		sd := e.segDur[x.asset]
		atos := []string{ms(sd), ms(sd - 1), ms(sd + 1), ms(sd-1) + "999", ms(sd) + "001", ms(sd + 1000), ms(sd / 2), "0", "-0.5", "-0.001"}
		atos = append(atos, "inf")
		for _, ato := range atos {
			in := c09in{Asset: x.asset, Rep: x.rep, Ato: ato, Chunkdur: "0.5", Mode: "number", Seg: 40 + rng.Int63n(1000)}
			in.NowMS = in.StartS*1000 + ref.LoopE(in.Seg)*1000/ref.Timescale + 2*sd + 3000
			in.Why = "offset-range"
			add("offset-range:ato="+map[bool]string{true: "outside", false: "inside"}[func() bool {
				m, inf := atoMicro(ato)
				return inf || m < 0 || m >= sd*1000
			}()], in, false)
		}
	}
	return p
}

// ---------------------------------------------------------------- main

func runC09(c *lib.Ctx) error {
	env, err := newEnv()
	if err != nil {
		return err
	}
	env.probeChunkGuard()
	c.Res.Notes = append(c.Res.Notes, fmt.Sprintf("request guard of chunked mode in the tree under test: present=%v, offset rounded to ms=%v (%s)", guardDetected, guardRounded, guardHow))
	if c.Replay != "" {
		return replayC09(c, env)
	}
	for _, d := range env.segDurDiff {
		c.Fail("segdur", "segment-duration", d, map[string]string{"kind": "asset"})
	}
	rng := rand.New(rand.NewSource(c.Seed))
	nL2 := 2600
	if c.Thorough() {
		nL2 = 26000
	}
	interrupted := make(chan []intrRes, 1)
	go func() { interrupted <- env.runInterrupted(c.Thorough()) }()
	plan := env.genL1(rng, c)
	l2 := genL2(rng, nL2, c)

	ins := append([]c09in{}, plan.ins...)
	obs := make([]c09obs, len(ins), len(ins)+len(l2))
	// real-time cases concurrently, everything else meanwhile
	var wg sync.WaitGroup
	for i := range plan.ins {
		if plan.realtime[i] {
			wg.Add(1)
			go func(i int) {
				defer wg.Done()
				obs[i] = env.run(ins[i])
				obs[i].Sleeps = true
			}(i)
		}
	}
	for i := range plan.ins {
		if !plan.realtime[i] {
			obs[i] = env.run(ins[i])
		}
	}
	for _, in := range l2 {
		ins = append(ins, in)
		obs = append(obs, runL2(in))
	}
	wg.Wait()

	distinct := map[string]bool{}
	var rtElapsed []int64
	if h := atomic.LoadInt32(&hangs); h > 0 {
		c.Res.Notes = append(c.Res.Notes, fmt.Sprintf("watchdog: %d paced request(s) abandoned after their deadline (end of the last chunk + %d ms); after %d of them no further chunked requests were made", h, watchdogMarginMS, maxHangs))
	}
	for i, in := range ins {
		id := strconv.Itoa(i)
		c.Res.Inputs[id] = in
		oracle(c, id, in, obs[i])
		o := obs[i]
		if o.Skipped {
			c.Count("skipped-after-hangs")
			continue
		}
		if o.Hung {
			c.Count("l1:hung")
			continue
		}
		switch o.Status {
		case 0:
			c.Count(fmt.Sprintf("%s:served", in.Kind))
			c.Count(fmt.Sprintf("%s:chunks=%s", in.Kind, bucket(len(o.Chunks))))
		case 1:
			c.Count("l1:too-early")
		case 2:
			c.Count(in.Kind + ":panic")
		default:
			c.Count(in.Kind + ":other")
		}
		if o.Status == 0 && len(o.Chunks) >= 2 {
			if in.Kind == "l1" {
				distinct[fmt.Sprintf("%s|%s|%s|%d|%d|%s|%s", in.Asset, in.Rep, in.Ato, in.Seg, in.StartS, in.Mode, in.DRM)] = true
			} else {
				distinct[fmt.Sprint(in.Durs, in.ChunkDur, in.NewTime, in.HasStyp)] = true
			}
		}
		if o.Sleeps {
			rtElapsed = append(rtElapsed, o.ElapsedMS)
		}
	}
	sort.Slice(rtElapsed, func(i, j int) bool { return rtElapsed[i] < rtElapsed[j] })
	c.Res.Notes = append(c.Res.Notes, fmt.Sprintf("real-time (server-paced) requests: %d, handler run times ms %v", len(rtElapsed), rtElapsed))
	nMPD := env.mpdSignalling(c)
	nMPD += env.evalInterrupted(c, <-interrupted)
	nMPD += env.availabilityEdge(c, rng)
	c.Res.Evaluations = len(ins) + nMPD
	c.Res.ModelCases = len(ins)
	c.Res.DistinctNontrivial = len(distinct)
	c.Res.Rule = "L1: bundled assets testpic_2s/8s/6s, video and audio (re-segmented), ato from one frame short of a segment down to 1/50 of it, $Number$ and $Time$ addressing, start_ offsets, " +
		"with and without eccp DRM, segments in the first loop / next to a wrap / ~25 years from the epoch, instants: 1 ms and up to 5 s before the advertised availability time, at it and after it (server-paced in real time), " +
		"after all chunks, up to 69 s late; each requested in whole-segment and in chunked mode. L2: chunkSegment (hook) on synthetic segments: constant/irregular/zero/very long/huge sample durations, " +
		"chunk duration 0, negative, multiples of 2^32, shorter than a sample, multiples of the sample duration, divisors of the segment, random, one off; decode times up to 2^64. " +
		"distinct = distinct (asset, rep, ato, segment, start, addressing, drm) resp. (durations, chunk duration, time); non-trivial = served with at least two chunks"
	for _, i := range []int{0, 2, len(plan.ins) - 8, len(plan.ins) + 5} {
		if i >= 0 && i < len(ins) {
			o := obs[i]
			var cv []string
			for _, ch := range o.Chunks {
				cv = append(cv, fmt.Sprintf("styp=%v seq=%d tfdt=%d n=%d dur=%d write=%d", ch.Styp, ch.Seq, ch.Tfdt, len(ch.Samples), ch.Dur, ch.WriteMS))
			}
			c.Sample(map[string]any{"input": ins[i], "status": o.Status, "http": o.HTTP, "chunks": cv, "avail_ms": o.AvailMS})
		}
	}
	shard := 350
	for s := 0; s*shard < len(ins); s++ {
		var terms []string
		for i := s * shard; i < (s+1)*shard && i < len(ins); i++ {
			if obs[i].Skipped || obs[i].Hung {
				continue // no complete observation to compare the model with
			}
			terms = append(terms, c09term(i, ins[i], obs[i]))
		}
		c.WriteCases(fmt.Sprintf("cases_C09_%d.v", s),
			lib.CasesFile("From Verif Require Import GoSem Chunk CorrC09.", "c09case", "", terms, "model_view"))
	}
	return nil
}

func bucket(n int) string {
	switch {
	case n <= 1:
		return strconv.Itoa(n)
	case n <= 4:
		return "2-4"
	case n <= 16:
		return "5-16"
	default:
		return ">16"
	}
}

func newEnv() (*l1env, error) {
	ls, err := lib.NewLivesim(lib.TestVodRoot, nil)
	if err != nil {
		return nil, err
	}
	as, err := lib.LoadBundledAssets(lib.TestVodRoot)
	if err != nil {
		return nil, err
	}
	e := &l1env{ls: ls, assets: map[string]*lib.TLAsset{}, segDur: map[string]int64{}}
	if ts, err := lib.NewLivesim(lib.TestVodRoot, func(cfg *app.ServerConfig) { cfg.TimeoutS = 1 }); err == nil {
		e.tsrv = ts
	}
	for _, a := range as {
		e.assets[a.Path] = a
		sd, _, _ := app.VerifC09AssetInfo(ls.Srv, a.Path)
		e.segDur[a.Path] = int64(sd)
		// the harness's own statement: rounded mean segment duration of the reference representation
		if ref := a.Ref(); ref != nil && len(ref.Segs) > 0 {
			den := ref.Timescale * int64(len(ref.Segs))
			own := (2*ref.Duration()*1000 + den) / (2 * den)
			if own != int64(sd) {
				e.segDurDiff = append(e.segDurDiff, fmt.Sprintf("%s: SegmentDurMS %d, rounded mean segment duration of the reference representation %d", a.Path, sd, own))
			}
		}
	}
	return e, nil
}

func replayC09(c *lib.Ctx, env *l1env) error {
	in, err := lib.LoadReplayInput[c09in](c.Replay)
	if err != nil {
		return err
	}
	var o c09obs
	if in.Kind == "edge" {
		whole := env.ls.GetRaw(in.WholeURL)
		fmt.Printf("replay C09 (edge): %s -> %d %s\n", in.WholeURL, whole.Status, strings.TrimSpace(string(whole.Body)))
		a := env.assets[in.Asset]
		if a == nil {
			return fmt.Errorf("unknown asset %s", in.Asset)
		}
		adv := in.StartS*1000 + a.Ref().LoopE(in.Seg)*1000/a.Ref().Timescale - atoMSExact(in.Ato)
		if in.NowMS >= adv && whole.Status != 200 {
			key := "refused-when-available"
			if strings.Contains(string(whole.Body), "too early by 0ms") {
				key = "refused-when-available:too-early-by-0ms"
			}
			c.Fail("replay", key, fmt.Sprintf("whole-segment mode answers %d (%s) at/after the advertised availability millisecond %d", whole.Status, strings.TrimSpace(string(whole.Body)), adv), in)
		}
		if in.NowMS < adv && whole.Status != 425 {
			c.Fail("replay", "not-refused-early", fmt.Sprintf("whole-segment mode answers %d before the advertised availability millisecond %d", whole.Status, adv), in)
		}
		return nil
	}
	if in.Kind == "mpd" {
		env.checkMPD(c, "replay", in)
		fmt.Printf("replay C09 (mpd): %s: %d failure(s)\n", in.URL, len(c.Res.OracleFailures))
		return nil
	}
	if in.Kind == "l2" {
		o = runL2(in)
	} else {
		a := env.assets[in.Asset]
		if a == nil || a.Rep(in.Rep) == nil {
			return fmt.Errorf("unknown asset/rep %s/%s", in.Asset, in.Rep)
		}
		if in.URL == "" {
			in.fillURLs(a, a.Rep(in.Rep), a.Ref())
		}
		o = env.run(in)
	}
	fmt.Printf("replay C09 (%s): status class %d http %d panic=%q err=%q, %d chunks, whole segment %d samples\n", in.Kind, o.Status, o.HTTP, o.Panic, o.Err, len(o.Chunks), len(o.Whole))
	if in.Kind == "l1" {
		fmt.Printf("  %s\n  advertised availability %d ms, now %d ms\n", in.URL, o.AvailMS-o.AtoMSChk, in.NowMS)
	}
	for k, ch := range o.Chunks {
		fmt.Printf("  chunk %d: styp=%v seq=%d tfdt=%d samples=%d span=%d dur=%d written=%d\n", k, ch.Styp, ch.Seq, ch.Tfdt, len(ch.Samples), ch.span(), ch.Dur, ch.WriteMS)
	}
	oracle(c, "replay", in, o)
	return nil
}

// ---------------------------------------------------------------- MPD low-latency signalling (oracle only)

var reSegTpl = regexp.MustCompile(`<SegmentTemplate [^>]*>`)
var reATO = regexp.MustCompile(`availabilityTimeOffset="([^"]*)"`)
var reATC = regexp.MustCompile(`availabilityTimeComplete="([^"]*)"`)

// mpdSignalling requests the MPD of the chunked configurations: the availabilityTimeOffset it
// advertises must be the one the segment server and the chunking use (the URL's ato), and
// availabilityTimeComplete must be false exactly in chunked mode.
func (e *l1env) mpdSignalling(c *lib.Ctx) int {
	n := 0
	for _, x := range []struct {
		asset string
		atos  []string
	}{{"testpic_2s", []string{"1.96", "1.9", "1.5", "1", "0.25", "0.04"}}, {"testpic_8s", []string{"7.96", "6", "0.5"}}, {"testpic_6s", []string{"5.9", "3"}}} {
		a := e.assets[x.asset]
		if a == nil {
			continue
		}
		for _, ato := range x.atos {
			for _, mode := range []string{"", "segtimeline_1/", "segtimelinenr_1/"} {
				for _, chunked := range []bool{true, false} {
					pre := "ato_" + ato + "/" + mode
					if chunked {
						pre = "chunkdur_0.5/" + pre
					}
					url := fmt.Sprintf("/livesim2/%s%s/%s?nowMS=%d", pre, a.Path, a.MPD, 1000000)
					in := c09in{Kind: "mpd", Asset: x.asset, Ato: ato, URL: url, Mode: mode}
					id := fmt.Sprintf("mpd%d", n)
					n++
					c.Res.Inputs[id] = in
					c.Count("mpd-signalling")
					e.checkMPD(c, id, in)
				}
			}
		}
	}
	return n
}

func (e *l1env) checkMPD(c *lib.Ctx, id string, in c09in) {
	chunked := strings.Contains(in.URL, "/chunkdur_")
	r := e.ls.GetRaw(in.URL)
	if r.Panic != "" {
		c.Fail(id, "panic:"+strings.Replace(strings.Replace(r.Panic, ": runtime error: ", ":", 1), ": ", ":", 1), "MPD handler panicked: "+r.Panic, in)
		return
	}
	if r.Status != 200 {
		c.Fail(id, "mpd-status", fmt.Sprintf("MPD request answered %d", r.Status), in)
		return
	}
	tpls := reSegTpl.FindAllString(string(r.Body), -1)
	if len(tpls) == 0 {
		c.Fail(id, "mpd-signalling", "no SegmentTemplate in the MPD", in)
	}
	want, _ := strconv.ParseFloat(in.Ato, 64)
	for _, tp := range tpls {
		mo := reATO.FindStringSubmatch(tp)
		got := -1.0
		if mo != nil {
			got, _ = strconv.ParseFloat(mo[1], 64)
		}
		if got != want {
			c.Fail(id, "mpd-ato", fmt.Sprintf("MPD advertises availabilityTimeOffset %v, the URL (segment server, chunking) uses %v: %s", got, want, tp), in)
		}
		mc := reATC.FindStringSubmatch(tp)
		if chunked && (mc == nil || mc[1] != "false") {
			c.Fail(id, "mpd-atc", "chunked mode but availabilityTimeComplete is not false: "+tp, in)
		}
		if !chunked && mc != nil && mc[1] == "false" {
			c.Fail(id, "mpd-atc", "whole-segment mode but availabilityTimeComplete=false: "+tp, in)
		}
	}
}

// ---------------------------------------------------------------- interrupted chunked requests (oracle only)

// A chunked request whose pacing is cut short - by the server's request timeout (ServerConfig.TimeoutS,
// chi Timeout middleware of the full router) or by the client going away (request context) - may
// deliver fewer chunks, but still none before its end time, and what it delivers is a prefix of the segment.
type intrRes struct {
	post     []postRes // ordinary requests made on the same instance after the interruption
	in       c09in
	how      string
	chunks   []chunkObs
	whole    []sampleObs
	ts       int64
	err      string
	status   int
	headDiff []string
}

type postRes struct {
	in c09in
	o  c09obs
}

// tcpReset asks for a chunked segment over a real connection, reads the response head and the first
// bytes of the first chunk and then resets the connection while the server is waiting for the next
// chunk to become due; afterwards ordinary chunked requests are made on the same instance.
func (e *l1env) tcpReset(seed int64) (res intrRes) {
	a := e.assets["testpic_2s"]
	res.how = "tcp-reset-after-first-chunk"
	if a == nil {
		res.err = "asset missing"
		return res
	}
	srv := httptest.NewServer(e.ls.Srv.Router)
	defer srv.CloseClientConnections() // not Close: it would wait for a handler that is still pacing
	wireClient := &http.Client{Timeout: time.Duration(5000+watchdogMarginMS) * time.Millisecond}
	r := a.Rep("V300")
	in := c09in{Kind: "interrupted", Asset: a.Path, Rep: "V300", Ato: "1.5", Chunkdur: "0.5", Mode: "number", Seg: 5000 + seed%1000, Why: res.how}
	in.NowMS = a.Ref().LoopE(in.Seg)*1000/a.Ref().Timescale - 1500
	in.fillURLs(a, r, a.Ref())
	res.in, res.ts = in, r.Timescale
	conn, err := net.Dial("tcp", strings.TrimPrefix(srv.URL, "http://"))
	if err != nil {
		res.err = "dial: " + err.Error()
		return res
	}
	fmt.Fprintf(conn, "GET %s HTTP/1.1\r\nHost: x\r\n\r\n", in.URL)
	br := bufio.NewReader(conn)
	_ = conn.SetReadDeadline(time.Now().Add(3 * time.Second))
	buf := make([]byte, 2048)
	if _, err := br.Read(buf); err != nil {
		res.err = "no response before the reset: " + err.Error()
	}
	if tc, ok := conn.(*net.TCPConn); ok {
		_ = tc.SetLinger(0) // RST
	}
	conn.Close()
	time.Sleep(1200 * time.Millisecond) // the server's next chunks (due 0.5 s and 1 s later) hit the dead connection
	for k := 0; k < 3; k++ {
		pin := c09in{Kind: "l1", Asset: a.Path, Rep: []string{"V300", "A48", "V300"}[k], Ato: []string{"1.5", "1", "1.75"}[k], Chunkdur: "0.5", Mode: "number", Seg: 7000 + int64(k)*13 + seed%100, Why: "after a reset connection"}
		pin.NowMS = a.Ref().LoopE(pin.Seg)*1000/a.Ref().Timescale + 3000
		pin.fillURLs(a, a.Rep(pin.Rep), a.Ref())
		res.post = append(res.post, postRes{pin, e.run(pin)})
	}
	// HEAD over the wire: GET's status, no body
	for _, off := range []int64{-2000, 5000} {
		hin := c09in{Kind: "l1", Asset: a.Path, Rep: "V300", Ato: "1.5", Chunkdur: "0.5", Mode: "number", Seg: 9000 + seed%100}
		hin.NowMS = a.Ref().LoopE(hin.Seg)*1000/a.Ref().Timescale + off
		hin.fillURLs(a, r, a.Ref())
		for _, u := range []string{hin.URL, hin.WholeURL} {
			g, err1 := wireClient.Get(srv.URL + u)
			h, err2 := wireClient.Head(srv.URL + u)
			if err1 != nil || err2 != nil {
				res.err = fmt.Sprintf("chunk-never-delivered: GET/HEAD over a real connection not answered in time: %v %v", err1, err2)
				continue
			}
			gb, _ := io.ReadAll(g.Body)
			hb, _ := io.ReadAll(h.Body)
			g.Body.Close()
			h.Body.Close()
			if g.StatusCode != h.StatusCode || len(hb) != 0 {
				res.headDiff = append(res.headDiff, fmt.Sprintf("%s: GET %d (%d bytes), HEAD %d (%d bytes)", u, g.StatusCode, len(gb), h.StatusCode, len(hb)))
			}
		}
	}
	return res
}

func (e *l1env) runInterrupted(thorough bool) []intrRes {
	type spec struct {
		rep, ato, how string
		off           int64
	}
	specs := []spec{{"V300", "1.5", "server-timeout-1s", 0}, {"A48", "1.75", "server-timeout-1s", 0}, {"V300", "1.5", "client-gone-300ms", 0}, {"A48", "1", "client-gone-700ms", 0}}
	if thorough {
		specs = append(specs, spec{"V300", "1.9", "server-timeout-1s", 100}, spec{"V300", "1.25", "client-gone-100ms", 0}, spec{"A48", "1.9", "client-gone-1200ms", 0}, spec{"V300", "1", "client-gone-500ms", 250})
	}
	a := e.assets["testpic_2s"]
	if a == nil {
		return nil
	}
	out := make([]intrRes, len(specs))
	var wg sync.WaitGroup
	for i, s := range specs {
		wg.Add(1)
		go func(i int, s spec) {
			defer wg.Done()
			r := a.Rep(s.rep)
			in := c09in{Kind: "interrupted", Asset: a.Path, Rep: s.rep, Ato: s.ato, Chunkdur: "0.5", Mode: "number", Seg: 1000 + int64(i)*7919, Why: s.how}
			in.NowMS = a.Ref().LoopE(in.Seg)*1000/a.Ref().Timescale - atoMSExact(s.ato) + s.off
			in.fillURLs(a, r, a.Ref())
			res := intrRes{in: in, how: s.how, ts: r.Timescale}
			if wr := e.ls.GetRaw(in.WholeURL); wr.Status == 200 && wr.Panic == "" {
				if ws, err := parseFrags(wr.Body, r.Trex); err == nil {
					for _, w := range ws {
						res.whole = append(res.whole, w.Samples...)
					}
				}
			}
			req := httptest.NewRequest("GET", in.URL, nil)
			var h http.Handler = e.ls.Srv.LiveRouter
			if strings.HasPrefix(s.how, "server-timeout") {
				if e.tsrv == nil {
					res.err = "no server with a request timeout"
					out[i] = res
					return
				}
				h = e.tsrv.Srv.Router
			} else {
				var ms int
				fmt.Sscanf(strings.TrimPrefix(s.how, "client-gone-"), "%dms", &ms)
				ctx, cancel := context.WithTimeout(req.Context(), time.Duration(ms)*time.Millisecond)
				defer cancel()
				req = req.WithContext(ctx)
			}
			rr, to := serveWatched(h, req, lib.NewRecWriter(), nil, time.Duration(2500+watchdogMarginMS)*time.Millisecond)
			start := rr.StartUnixMS
			if rr.Panic != "" {
				res.err = "panic: " + rr.Panic
			}
			if to {
				res.err = fmt.Sprintf("chunk-never-delivered: the request had not returned %d ms (real time) after it was made, although its context had ended", 2500+watchdogMarginMS)
			}
			res.status = rr.Status
			for _, p := range rr.Parts() {
				if p.FlushMS == 0 {
					continue // the error text the middleware / handler appends after the last chunk
				}
				cs, err := parseFrags(p.Data, r.Trex)
				if err != nil {
					res.err = "chunk unparsable: " + err.Error()
					break
				}
				for _, ch := range cs {
					ch.WriteMS = in.NowMS + (p.FirstWriteMS - start)
					res.chunks = append(res.chunks, ch)
				}
			}
			out[i] = res
		}(i, s)
	}
	wg.Add(1)
	var tr intrRes
	go func() { defer wg.Done(); tr = e.tcpReset(int64(len(specs))) }()
	wg.Wait()
	return append(out, tr)
}

func (e *l1env) evalInterrupted(c *lib.Ctx, rs []intrRes) int {
	for i, r := range rs {
		id := fmt.Sprintf("intr%d", i)
		c.Res.Inputs[id] = r.in
		c.Count("interrupted:" + r.how)
		c.Count(fmt.Sprintf("interrupted:chunks-delivered=%d", len(r.chunks)))
		for _, d := range r.headDiff {
			c.Fail(id, "head-status", "over a real connection: "+d, r.in)
		}
		for k, pr := range r.post {
			pid := fmt.Sprintf("%s-post%d", id, k)
			c.Res.Inputs[pid] = pr.in
			c.Count("after-broken-connection")
			oracle(c, pid, pr.in, pr.o)
		}
		if strings.HasPrefix(r.err, "chunk-never-delivered") {
			c.Fail(id, "chunk-never-delivered", r.err, r.in)
			continue
		}
		if r.err != "" {
			c.Fail(id, "interrupted-error", r.err, r.in)
			continue
		}
		var cat []sampleObs
		for k, ch := range r.chunks {
			endMS := int64(ch.Tfdt+ch.span()) * 1000 / r.ts
			if ch.WriteMS < endMS {
				c.Fail(id, "early-chunk", fmt.Sprintf("%s: chunk %d (media end %d ms) was written at %d ms on the request's wall clock, %d ms early", r.how, k, endMS, ch.WriteMS, endMS-ch.WriteMS), r.in)
			}
			cat = append(cat, ch.Samples...)
		}
		ok := len(cat) <= len(r.whole)
		for j := 0; ok && j < len(cat); j++ {
			x, y := cat[j], r.whole[j]
			if x.DT != y.DT || x.Dur != y.Dur || x.Flags != y.Flags || x.Size != y.Size || x.Cto != y.Cto || !bytes.Equal(x.Data, y.Data) {
				ok = false
			}
		}
		if !ok {
			c.Fail(id, "same-media", fmt.Sprintf("%s: the %d samples delivered before the interruption are not a prefix of the segment's %d samples", r.how, len(cat), len(r.whole)), r.in)
		}
	}
	return len(rs)
}

// ---------------------------------------------------------------- the advertised availability millisecond (oracle only)

// availabilityEdge asks, for offsets that are not binary fractions and many segment numbers, at exactly
// the advertised availability millisecond and one millisecond before it, in whole-segment mode (GET)
// and in chunked mode. The chunked request is made by a client that is already gone (ended request
// context): the availability decision is taken, no chunk is waited for - any answer but 425 means
// "available".
func (e *l1env) availabilityEdge(c *lib.Ctx, rng *rand.Rand) int {
	n := 0
	nSeg := 40
	if c.Thorough() {
		nSeg = 400
	}
	gone, cancel := context.WithCancel(context.Background())
	cancel()
	for _, x := range []struct{ asset, rep string }{{"testpic_2s", "V300"}, {"testpic_2s", "A48"}, {"WAVE/vectors/cfhd_sets/14.985_29.97_59.94/t1/2022-10-17", "1"}, {"testpic_8s", "V300"}} {
		a := e.assets[x.asset]
		if a == nil || a.Rep(x.rep) == nil || atomic.LoadInt32(&hangs) >= maxHangs {
			continue
		}
		ref := a.Ref()
		for _, ato := range []string{"0.1", "0.3", "0.7", "1.1", "1.3", "1.9"} {
			for k := 0; k < nSeg; k++ {
				seg := 10 + rng.Int63n(400000000)
				if k%4 == 0 {
					seg = 10 + rng.Int63n(2000)
				}
				startS := []int64{0, 0, 0, 1600000000}[k%4]
				adv := startS*1000 + ref.LoopE(seg)*1000/ref.Timescale - atoMSExact(ato)
				for _, off := range []int64{0, -1} {
					in := c09in{Kind: "edge", Asset: x.asset, Rep: x.rep, Ato: ato, Chunkdur: "0.5", Mode: "number", Seg: seg, StartS: startS, NowMS: adv + off, Why: fmt.Sprintf("adv%+d", off)}
					in.After2038 = adv >= (int64(1)<<31)*1000
					in.OffsetDecimal = atoMSExact(ato)%125 != 0
					in.fillURLs(a, a.Rep(x.rep), ref)
					id := fmt.Sprintf("edge%d", n)
					n++
					c.Count("availability-edge:" + in.Why)
					whole := e.ls.GetRaw(in.WholeURL)
					req := httptest.NewRequest("GET", in.URL, nil).WithContext(gone)
					chunked, to := serveWatched(e.ls.Srv.LiveRouter, req, lib.NewRecWriter(), nil, watchdogMarginMS*time.Millisecond)
					bad := ""
					switch {
					case whole.Panic != "" || chunked.Panic != "":
						bad = "panic: " + whole.Panic + chunked.Panic
					case to:
						bad = "the chunked request of a client that is gone did not return"
					case off == 0 && whole.Status != 200:
						bad = fmt.Sprintf("whole-segment mode answers %d (%s) at the advertised availability millisecond", whole.Status, strings.TrimSpace(string(whole.Body)))
					case off == 0 && (chunked.Status == 425 || chunked.Status == 400 || chunked.Status == 404 || chunked.Status == 410):
						bad = fmt.Sprintf("chunked mode answers %d (%s) at the advertised availability millisecond", chunked.Status, strings.TrimSpace(string(chunked.Body)))
					case off < 0 && whole.Status != 425:
						bad = fmt.Sprintf("whole-segment mode answers %d one millisecond before the advertised availability time", whole.Status)
					case off < 0 && chunked.Status != 425:
						bad = fmt.Sprintf("chunked mode answers %d one millisecond before the advertised availability time", chunked.Status)
					}
					if bad != "" {
						c.Res.Inputs[id] = in
						key := "refused-when-available"
						if off == 0 && strings.Contains(bad, "too early by 0ms") {
							key = "refused-when-available:too-early-by-0ms"
						}
						if off < 0 {
							key = "not-refused-early"
						}
						if strings.HasPrefix(bad, "panic") || to {
							key = "edge-error"
						}
						c.Fail(id, key, fmt.Sprintf("advertised availability %d ms (offset %s s): %s", adv, ato, bad), in)
					}
				}
			}
		}
	}
	return n
}
