// c10: advertised key ids, init segments, licences and ciphertext agree.
//
// L1 (authoritative): an in-process livesim2 over the bundled assets, configured with the CPIX test
// packages of /repo/pkg/drm/testdata. For every encryptable asset x {eccp_cenc, eccp_cbcs, CPIX
// packages} x {video, audio} x segments over the loop (and next to wraps) x {whole, chunked}:
// the MPD's default_KID, the tenc default_KID of the served init segment, the licence response for
// that id (POST <...>/eccp.json; for CPIX the key of the package file, parsed by the harness), and
// REAL decryption of the served segment with mp4ff (DecryptInit on the served init, DecryptFragment
// with the licence key), compared sample by sample with the clear response for the same URL and
// instant. A scratch vodroot holds a pre-encrypted copy of testpic_2s: a DRM request on it must be
// refused / must not encrypt again.
// L2 (hook verif_hooks_c10.go): PackBase64, unpackBase64, id16FromBase64, id16FromTruncatedBase64,
// kidToKey, keyToKid, kidFromString on generated inputs; the licence handler on generated kid lists.
package main

import (
	"bufio"
	"bytes"
	"encoding/base64"
	"encoding/hex"
	"encoding/json"
	"fmt"
	"io"
	"math/rand"
	"net"
	"net/http"
	"net/http/httptest"
	"net/url"
	"os"
	"path/filepath"
	"regexp"
	"sort"
	"strconv"
	"strings"
	"sync"
	"time"

	"github.com/Dash-Industry-Forum/livesim2/cmd/livesim2/app"
	"github.com/Dash-Industry-Forum/livesim2/pkg/drm"
	m "github.com/Eyevinn/dash-mpd/mpd"
	"github.com/Eyevinn/mp4ff/mp4"
	"verifharness/lib"
)

func main() { lib.Main("C10", runC10) }

const drmCfgFile = "/repo/pkg/drm/testdata/drm_config_test.json"

// ---------------------------------------------------------------- inputs

type c10in struct {
	Kind string `json:"kind"` // seg | pre | b64 | ids | la
	// seg / pre
	Asset   string `json:"asset,omitempty"`
	Rep     string `json:"rep,omitempty"`
	CType   string `json:"ctype,omitempty"` // video | audio
	DRM     string `json:"drm,omitempty"`   // URL part: eccp_cenc | eccp_cbcs | drm_<package>
	Seg     int64  `json:"seg,omitempty"`
	NowMS   int64  `json:"now_ms,omitempty"`
	Chunked bool   `json:"chunked,omitempty"`
	// InProgress: the request arrives while the segment is still being produced, the server
	// paces the remaining chunks in real time; the clear reference is then the whole-segment
	// response for the same ato and instant (no pacing)
	InProgress bool   `json:"in_progress,omitempty"`
	Ato        string `json:"ato,omitempty"`
	Mode       string `json:"mode,omitempty"`   // number | tlt
	MPD        string `json:"mpd,omitempty"`    // MPD name when it is not the asset's default one
	Server     string `json:"server,omitempty"` // "" | repdata-write | repdata-restart: how the serving instance was started
	// Unencryptable: the harness\'s own statement that livesim2 does not encrypt this track\'s codec
	// (sample entry other than avc1/avc3/mp4a): MPD, init segment and media must then agree on "clear"
	Unencryptable bool `json:"unencryptable,omitempty"`
	// b64 / ids
	Fn    string `json:"fn,omitempty"`  // pack | unpack | from | fromtrunc | kid2key | key2kid | kidfromstring
	Str   string `json:"str,omitempty"` // input string (latin-1 code points = bytes)
	Bytes []byte `json:"bytes,omitempty"`
	// la
	Kids []string `json:"kids,omitempty"`
	// Framing of the licence request: "" in-process; over a real HTTP connection: "content-length",
	// "chunked" (no Content-Length, chunked transfer coding), "chunked-split" (the body in two chunks),
	// "http10-content-length"
	Framing string `json:"framing,omitempty"`
	Path    string `json:"path,omitempty"`
}

// CPIX package as the harness reads it from the XML (independent of pkg/drm).
type cpixKey struct {
	KID, Key, IV []byte
	Scheme       string
}
type cpixPkg struct {
	Name  string
	Keys  []cpixKey
	Rules []struct {
		KID  []byte
		Type string
	}
}

// contentKey is the harness's own statement of which key a package uses for a content type.
func (p *cpixPkg) contentKey(ctype string) *cpixKey {
	if len(p.Keys) == 1 {
		return &p.Keys[0]
	}
	for _, r := range p.Rules {
		if strings.ToLower(r.Type) == ctype {
			for i := range p.Keys {
				if bytes.Equal(p.Keys[i].KID, r.KID) {
					return &p.Keys[i]
				}
			}
		}
	}
	return nil
}

var (
	reKey  = regexp.MustCompile(`(?s)<cpix:ContentKey ([^>]*)>(.*?)</cpix:ContentKey>`)
	reAttr = func(name string) *regexp.Regexp { return regexp.MustCompile(name + `="([^"]*)"`) }
	rePV   = regexp.MustCompile(`<pskc:PlainValue>([^<]*)</pskc:PlainValue>`)
	reRule = regexp.MustCompile(`<cpix:ContentKeyUsageRule ([^>]*)>`)
)

func attr(s, name string) string {
	if mm := reAttr(name).FindStringSubmatch(s); mm != nil {
		return mm[1]
	}
	return ""
}

func loadCPIX(cfgFile string) (map[string]*cpixPkg, error) {
	raw, err := os.ReadFile(cfgFile)
	if err != nil {
		return nil, err
	}
	var cfg struct {
		Packages []struct {
			Name     string `json:"name"`
			CPIXFile string `json:"cpixFile"`
		} `json:"packages"`
	}
	if err := json.Unmarshal(raw, &cfg); err != nil {
		return nil, err
	}
	out := map[string]*cpixPkg{}
	for _, p := range cfg.Packages {
		x, err := os.ReadFile(filepath.Join(filepath.Dir(cfgFile), p.CPIXFile))
		if err != nil {
			return nil, err
		}
		pk := &cpixPkg{Name: p.Name}
		for _, mm := range reKey.FindAllStringSubmatch(string(x), -1) {
			var k cpixKey
			k.KID, _ = hex.DecodeString(strings.ReplaceAll(attr(mm[1], "kid"), "-", ""))
			k.Scheme = attr(mm[1], "commonEncryptionScheme")
			k.IV, _ = base64.StdEncoding.DecodeString(attr(mm[1], "explicitIV"))
			if pv := rePV.FindStringSubmatch(mm[2]); pv != nil {
				k.Key, _ = base64.StdEncoding.DecodeString(pv[1])
			}
			pk.Keys = append(pk.Keys, k)
		}
		for _, mm := range reRule.FindAllStringSubmatch(string(x), -1) {
			kid, _ := hex.DecodeString(strings.ReplaceAll(attr(mm[1], "kid"), "-", ""))
			pk.Rules = append(pk.Rules, struct {
				KID  []byte
				Type string
			}{kid, attr(mm[1], "intendedTrackType")})
		}
		out[p.Name] = pk // a name listed twice: the last entry (drm.DrmConfig.Map semantics)
		cpixAll[p.Name] = append(cpixAll[p.Name], pk)
	}
	return out, nil
}

// every entry of every configuration read, by package name (a name may be listed more than once)
var cpixAll = map[string][]*cpixPkg{}

// writeGenDrmConfig writes a DRM configuration with generated CPIX packages and returns its path.
func writeGenDrmConfig(dir string, seed int64) (string, error) {
	if err := os.MkdirAll(dir, 0o755); err != nil {
		return "", err
	}
	rng := rand.New(rand.NewSource(seed*7919 + 17))
	rb := func(n int) []byte {
		b := make([]byte, n)
		for i := range b {
			b[i] = byte(rng.Intn(256))
		}
		return b
	}
	type gk struct {
		kid, key, iv []byte
		scheme, typ  string
	}
	type gp struct {
		name string
		keys []gk
		swap bool // usage rules listed audio first
	}
	var pkgs []gp
	for _, scheme := range []string{"cbcs", "cenc"} {
		for _, ivn := range []int{16, 0, 8} {
			pkgs = append(pkgs, gp{name: fmt.Sprintf("gen-1key-%s-iv%d", scheme, ivn), keys: []gk{{rb(16), rb(16), rb(ivn), scheme, ""}}})
			pkgs = append(pkgs, gp{name: fmt.Sprintf("gen-2keys-%s-iv%d", scheme, ivn), swap: ivn == 0,
				keys: []gk{{rb(16), rb(16), rb(ivn), scheme, "VIDEO"}, {rb(16), rb(16), rb(ivn), scheme, "AUDIO"}}})
		}
		// explicitIV on one track type only
		pkgs = append(pkgs, gp{name: "gen-2keys-" + scheme + "-iv-video-only", keys: []gk{{rb(16), rb(16), rb(16), scheme, "VIDEO"}, {rb(16), rb(16), nil, scheme, "AUDIO"}}})
	}
	// the same package name listed two and three times with different keys (key rotation leftovers),
	// two packages sharing one key id with different keys, one package listing a key twice
	for i := 0; i < 2; i++ {
		pkgs = append(pkgs, gp{name: "gen-dup-name", keys: []gk{{rb(16), rb(16), rb(16), "cbcs", ""}}})
	}
	for i := 0; i < 3; i++ {
		pkgs = append(pkgs, gp{name: "gen-dup-name-2keys", swap: i == 1, keys: []gk{{rb(16), rb(16), rb(16), "cenc", "VIDEO"}, {rb(16), rb(16), rb(16), "cenc", "AUDIO"}}})
	}
	shared := rb(16)
	pkgs = append(pkgs, gp{name: "gen-same-kid-a", keys: []gk{{shared, rb(16), rb(16), "cbcs", ""}}}, gp{name: "gen-same-kid-b", keys: []gk{{shared, rb(16), rb(16), "cbcs", ""}}})
	twice := gk{rb(16), rb(16), rb(16), "cbcs", "VIDEO"}
	pkgs = append(pkgs, gp{name: "gen-key-listed-twice", keys: []gk{twice, twice, {rb(16), rb(16), rb(16), "cbcs", "AUDIO"}}})
	// one scheme per track type
	pkgs = append(pkgs, gp{name: "gen-2keys-video-cbcs-audio-cenc", swap: true, keys: []gk{{rb(16), rb(16), rb(16), "cbcs", "VIDEO"}, {rb(16), rb(16), rb(16), "cenc", "AUDIO"}}})
	type jp struct {
		Name     string              `json:"name"`
		Desc     string              `json:"desc"`
		CPIXFile string              `json:"cpixFile"`
		URLs     map[string]struct{} `json:"licenseURLs"`
	}
	var cfg struct {
		Version  string `json:"version"`
		Packages []jp   `json:"packages"`
	}
	cfg.Version = "0.5"
	uuid := func(b []byte) string { return uuidStr(b) }
	for _, p := range pkgs {
		var sb strings.Builder
		sb.WriteString(`<?xml version="1.0" encoding="utf-8"?>` + "\n")
		sb.WriteString(`<cpix:CPIX xmlns:cpix="urn:dashif:org:cpix" xmlns:pskc="urn:ietf:params:xml:ns:keyprov:pskc" contentId="` + p.name + `" version="2.3">` + "\n <cpix:ContentKeyList>\n")
		for _, k := range p.keys {
			iv := ""
			if len(k.iv) > 0 {
				iv = ` explicitIV="` + base64.StdEncoding.EncodeToString(k.iv) + `"`
			}
			fmt.Fprintf(&sb, "  <cpix:ContentKey%s kid=\"%s\" commonEncryptionScheme=\"%s\">\n   <cpix:Data><pskc:Secret><pskc:PlainValue>%s</pskc:PlainValue></pskc:Secret></cpix:Data>\n  </cpix:ContentKey>\n",
				iv, uuid(k.kid), k.scheme, base64.StdEncoding.EncodeToString(k.key))
		}
		sb.WriteString(" </cpix:ContentKeyList>\n <cpix:ContentKeyUsageRuleList>\n")
		ks := p.keys
		if p.swap && len(ks) == 2 {
			ks = []gk{ks[1], ks[0]}
		}
		for _, k := range ks {
			if k.typ != "" {
				fmt.Fprintf(&sb, "  <cpix:ContentKeyUsageRule kid=\"%s\" intendedTrackType=\"%s\"></cpix:ContentKeyUsageRule>\n", uuid(k.kid), k.typ)
			}
		}
		sb.WriteString(" </cpix:ContentKeyUsageRuleList>\n</cpix:CPIX>\n")
		file := fmt.Sprintf("%s-%d.xml", p.name, len(cfg.Packages))
		if err := os.WriteFile(filepath.Join(dir, file), []byte(sb.String()), 0o644); err != nil {
			return "", err
		}
		cfg.Packages = append(cfg.Packages, jp{Name: p.name, Desc: "generated", CPIXFile: file, URLs: map[string]struct{}{}})
	}
	raw, _ := json.MarshalIndent(cfg, "", " ")
	path := filepath.Join(dir, "drm_config_gen.json")
	return path, os.WriteFile(path, raw, 0o644)
}

// ---------------------------------------------------------------- environment

type env struct {
	ls *lib.Livesim // bundled assets + DRM packages
	// the same content served by differently started servers: "" = assets scanned, no
	// representation-data directory; "repdata-write" = first start with a representation-data
	// directory (scanned, metadata written); "repdata-restart" = started on that directory
	// afterwards (representations restored from the stored metadata)
	servers  map[string]*lib.Livesim
	notes    []string
	wire     *httptest.Server // the full router behind a real listener (licence request framing)
	wireOnce sync.Once
	genPkgs  []string     // names of the generated CPIX packages (served by the "gen-drm" instance only)
	pre      *lib.Livesim // scratch vodroot with the pre-encrypted asset
	preErr   string
	assets   map[string]*lib.TLAsset
	cpix     map[string]*cpixPkg
	segDur   map[string]int64
}

func newEnv(scratch string, seed int64) (*env, error) {
	dcfg, err := drm.ReadDrmConfig(drmCfgFile)
	if err != nil {
		return nil, fmt.Errorf("drm config: %w", err)
	}
	ls, err := lib.NewLivesim(lib.TestVodRoot, func(cfg *app.ServerConfig) { cfg.DrmCfg = dcfg; cfg.DrmCfgFile = drmCfgFile })
	if err != nil {
		return nil, err
	}
	as, err := lib.LoadBundledAssets(lib.TestVodRoot)
	if err != nil {
		return nil, err
	}
	e := &env{ls: ls, assets: map[string]*lib.TLAsset{}, segDur: map[string]int64{}, servers: map[string]*lib.Livesim{"": ls}}
	repData := filepath.Join(scratch, "repdata")
	if err := os.MkdirAll(repData, 0o755); err != nil {
		return nil, err
	}
	for _, st := range []struct {
		name  string
		write bool
	}{{"repdata-write", true}, {"repdata-restart", false}} {
		s, err := lib.NewLivesim(lib.TestVodRoot, func(cfg *app.ServerConfig) {
			cfg.DrmCfg, cfg.DrmCfgFile = dcfg, drmCfgFile
			cfg.RepDataRoot, cfg.WriteRepData = repData, st.write
		})
		if err != nil {
			return nil, fmt.Errorf("server %s: %w", st.name, err)
		}
		e.servers[st.name] = s
	}
	if m, _ := filepath.Glob(filepath.Join(repData, "testpic_2s", "*_data.json*")); len(m) == 0 {
		e.notes = append(e.notes, "no representation metadata was written below "+repData+": the restart instance scans the assets again")
	}
	for _, a := range as {
		e.assets[a.Path] = a
		sd, _, _ := app.VerifC09AssetInfo(ls.Srv, a.Path)
		e.segDur[a.Path] = int64(sd)
	}
	if e.cpix, err = loadCPIX(drmCfgFile); err != nil {
		return nil, err
	}
	// generated DRM configuration: CPIX packages beyond the bundled ones (explicitIV present or
	// absent - the attribute is optional -, cenc/cbcs, one key / one key per track type, rules in
	// either order, 8- and 16-byte IVs), served by an instance of its own
	genCfg, err := writeGenDrmConfig(filepath.Join(scratch, "drmgen"), seed)
	if err != nil {
		return nil, fmt.Errorf("generated drm config: %w", err)
	}
	if gcfg, err := drm.ReadDrmConfig(genCfg); err != nil {
		e.notes = append(e.notes, "generated DRM configuration refused by pkg/drm: "+err.Error())
	} else if gs, err := lib.NewLivesim(lib.TestVodRoot, func(cfg *app.ServerConfig) { cfg.DrmCfg, cfg.DrmCfgFile = gcfg, genCfg }); err != nil {
		e.notes = append(e.notes, "server with the generated DRM configuration: "+err.Error())
	} else {
		e.servers["gen-drm"] = gs
		gp, err := loadCPIX(genCfg)
		if err != nil {
			return nil, err
		}
		for n, pk := range gp {
			e.cpix[n] = pk
			e.genPkgs = append(e.genPkgs, n)
		}
		sort.Strings(e.genPkgs)
	}
	// copy of testpic_2s whose stored segments carry a 64-bit (version 1) tfdt although their times are small
	if err := buildTfdt64(filepath.Join(lib.TestVodRoot, "testpic_2s"), filepath.Join(scratch, "vod", "testpic_2s_tfdt64")); err != nil {
		e.notes = append(e.notes, "tfdt64 scratch asset: "+err.Error())
	} else if src := e.assets["testpic_2s"]; src != nil {
		cp := *src
		cp.Path = "testpic_2s_tfdt64"
		e.assets[cp.Path] = &cp
		e.segDur[cp.Path] = e.segDur["testpic_2s"]
	}
	// testpic_2s with the codecs attribute on the AdaptationSet instead of the Representation (a layout
	// DASH allows: common attributes are inherited); a mixed asset: HEVC video that livesim2 cannot
	// encrypt (from bbb_hevc_ac3_8s) with the AAC audio of testpic_2s
	if err := buildASCodecs(filepath.Join(lib.TestVodRoot, "testpic_2s"), filepath.Join(scratch, "vod", "testpic_2s_ascodecs")); err != nil {
		e.notes = append(e.notes, "ascodecs scratch asset: "+err.Error())
	} else if src := e.assets["testpic_2s"]; src != nil {
		cp := *src
		cp.Path = "testpic_2s_ascodecs"
		e.assets[cp.Path] = &cp
		e.segDur[cp.Path] = e.segDur["testpic_2s"]
	}
	if ma, err := buildMixed(filepath.Join(scratch, "vod", "mixed_hevc_aac")); err != nil {
		e.notes = append(e.notes, "mixed scratch asset: "+err.Error())
	} else {
		e.assets[ma.Path] = ma
		e.segDur[ma.Path] = 2000
	}
	// pre-encrypted copy of testpic_2s
	if err := buildPreEncrypted(filepath.Join(lib.TestVodRoot, "testpic_2s"), filepath.Join(scratch, "vod", "testpic_2s_pre")); err != nil {
		e.preErr = err.Error()
	} else if err := buildASCodecs(filepath.Join(scratch, "vod", "testpic_2s_pre"), filepath.Join(scratch, "vod", "testpic_2s_pre_ascodecs")); err != nil {
		e.preErr = err.Error()
	} else if pre, err := lib.NewLivesim(filepath.Join(scratch, "vod"), func(cfg *app.ServerConfig) { cfg.DrmCfg = dcfg }); err != nil {
		e.preErr = err.Error()
	} else {
		e.pre = pre
		e.servers["scratch"] = pre
	}
	return e, nil
}

// buildASCodecs copies an asset (Manifest.mpd, V300, A48); in the MPD the codecs attribute moves from
// every Representation to its AdaptationSet.
func buildASCodecs(src, dst string) error {
	raw, err := os.ReadFile(filepath.Join(src, "Manifest.mpd"))
	if err != nil {
		return err
	}
	mpd := string(raw)
	reAS := regexp.MustCompile(`(?s)<AdaptationSet ([^>]*)>(.*?)</AdaptationSet>`)
	reCodecs := regexp.MustCompile(` codecs="([^"]*)"`)
	mpd = reAS.ReplaceAllStringFunc(mpd, func(as string) string {
		mm := reAS.FindStringSubmatch(as)
		cm := reCodecs.FindStringSubmatch(mm[2])
		if cm == nil {
			return as
		}
		body := reCodecs.ReplaceAllString(mm[2], "")
		return `<AdaptationSet codecs="` + cm[1] + `" ` + mm[1] + `>` + body + `</AdaptationSet>`
	})
	if !strings.Contains(mpd, `<AdaptationSet codecs=`) {
		return fmt.Errorf("no codecs attribute moved")
	}
	if err := os.MkdirAll(dst, 0o755); err != nil {
		return err
	}
	if err := os.WriteFile(filepath.Join(dst, "Manifest.mpd"), []byte(mpd), 0o644); err != nil {
		return err
	}
	for _, rep := range []string{"V300", "A48"} {
		if err := copyDir(filepath.Join(src, rep), filepath.Join(dst, rep)); err != nil {
			return err
		}
	}
	return nil
}

func copyDir(src, dst string) error {
	if err := os.MkdirAll(dst, 0o755); err != nil {
		return err
	}
	ents, err := os.ReadDir(src)
	if err != nil {
		return err
	}
	for _, en := range ents {
		if en.IsDir() {
			continue
		}
		b, err := os.ReadFile(filepath.Join(src, en.Name()))
		if err != nil {
			return err
		}
		if err := os.WriteFile(filepath.Join(dst, en.Name()), b, 0o644); err != nil {
			return err
		}
	}
	return nil
}

// buildMixed writes an asset with the HEVC video of bbb_hevc_ac3_8s (representation H1) and the AAC
// audio of testpic_2s (A48) and returns the harness's own description of it.
func buildMixed(dst string) (*lib.TLAsset, error) {
	bbb := filepath.Join(lib.TestVodRoot, "bbb_hevc_ac3_8s")
	if err := os.MkdirAll(filepath.Join(dst, "H1"), 0o755); err != nil {
		return nil, err
	}
	cp := func(from, to string) error {
		b, err := os.ReadFile(from)
		if err != nil {
			return err
		}
		return os.WriteFile(to, b, 0o644)
	}
	if err := cp(filepath.Join(bbb, "video_init.mp4"), filepath.Join(dst, "H1", "init.mp4")); err != nil {
		return nil, err
	}
	for n := 1; n <= 4; n++ {
		if err := cp(filepath.Join(bbb, fmt.Sprintf("video_%d.m4s", n)), filepath.Join(dst, "H1", fmt.Sprintf("%d.m4s", n))); err != nil {
			return nil, err
		}
	}
	if err := copyDir(filepath.Join(lib.TestVodRoot, "testpic_2s", "A48"), filepath.Join(dst, "A48")); err != nil {
		return nil, err
	}
	mpd := `<?xml version="1.0"?>
<MPD xmlns="urn:mpeg:dash:schema:mpd:2011" minBufferTime="PT1.5S" type="static" mediaPresentationDuration="PT8S" maxSegmentDuration="PT2S" profiles="urn:mpeg:dash:profile:isoff-live:2011">
 <Period id="p0" start="PT0S">
  <AdaptationSet contentType="video" mimeType="video/mp4" segmentAlignment="true" startWithSAP="1">
   <SegmentTemplate media="$RepresentationID$/$Number$.m4s" initialization="$RepresentationID$/init.mp4" timescale="12288" startNumber="1" duration="24576"/>
   <Representation id="H1" codecs="hev1.1.6.L63.90" width="640" height="360" frameRate="24" sar="1:1" bandwidth="741142"/>
  </AdaptationSet>
  <AdaptationSet contentType="audio" mimeType="audio/mp4" lang="en" segmentAlignment="true" startWithSAP="1">
   <SegmentTemplate startNumber="1" initialization="$RepresentationID$/init.mp4" duration="2" media="$RepresentationID$/$Number$.m4s"/>
   <Representation id="A48" codecs="mp4a.40.2" bandwidth="48000" audioSamplingRate="48000"/>
  </AdaptationSet>
 </Period>
</MPD>
`
	if err := os.WriteFile(filepath.Join(dst, "Manifest.mpd"), []byte(mpd), 0o644); err != nil {
		return nil, err
	}
	a := &lib.TLAsset{Path: filepath.Base(dst), MPD: "Manifest.mpd"}
	for _, rs := range []struct{ id, kind string }{{"H1", "video"}, {"A48", "audio"}} {
		vr, trex, err := lib.LoadVodRep(filepath.Join(dst, rs.id), rs.id)
		if err != nil {
			return nil, err
		}
		a.Reps = append(a.Reps, &lib.TLRep{VodRep: vr, Trex: trex, Kind: rs.kind, Ext: ".m4s"})
	}
	ref := a.Ref()
	a.RefTS, a.RefDur = ref.Timescale, ref.Duration()
	a.LoopMS = 1000 * ref.Duration() / ref.Timescale
	return a, nil
}

// buildTfdt64 copies an asset; every stored media segment gets a version-1 (64-bit) tfdt box.
func buildTfdt64(src, dst string) error {
	mpd, err := os.ReadFile(filepath.Join(src, "Manifest.mpd"))
	if err != nil {
		return err
	}
	if err := os.MkdirAll(dst, 0o755); err != nil {
		return err
	}
	if err := os.WriteFile(filepath.Join(dst, "Manifest.mpd"), mpd, 0o644); err != nil {
		return err
	}
	for _, rep := range []string{"V300", "A48"} {
		if err := os.MkdirAll(filepath.Join(dst, rep), 0o755); err != nil {
			return err
		}
		raw, err := os.ReadFile(filepath.Join(src, rep, "init.mp4"))
		if err != nil {
			return err
		}
		if err := os.WriteFile(filepath.Join(dst, rep, "init.mp4"), raw, 0o644); err != nil {
			return err
		}
		for n := 1; n <= 4; n++ {
			raw, err := os.ReadFile(filepath.Join(src, rep, fmt.Sprintf("%d.m4s", n)))
			if err != nil {
				return err
			}
			sf, err := mp4.DecodeFile(bytes.NewReader(raw))
			if err != nil {
				return err
			}
			var sb bytes.Buffer
			for _, s := range sf.Segments {
				for _, fr := range s.Fragments {
					fr.Moof.Traf.Tfdt.Version = 1
				}
				if err := s.Encode(&sb); err != nil {
					return err
				}
			}
			if err := os.WriteFile(filepath.Join(dst, rep, fmt.Sprintf("%d.m4s", n)), sb.Bytes(), 0o644); err != nil {
				return err
			}
		}
	}
	return nil
}

var preKID = []byte{0x11, 0x22, 0x33, 0x44, 0x55, 0x66, 0x77, 0x88, 0x99, 0xaa, 0xbb, 0xcc, 0xdd, 0xee, 0xff, 0x00}
var preKey = []byte("0123456789abcdef")
var preIV = []byte{1, 2, 3, 4, 5, 6, 7, 8, 9, 10, 11, 12, 13, 14, 15, 16}

func buildPreEncrypted(src, dst string) error {
	mpd, err := os.ReadFile(filepath.Join(src, "Manifest.mpd"))
	if err != nil {
		return err
	}
	if err := os.MkdirAll(dst, 0o755); err != nil {
		return err
	}
	if err := os.WriteFile(filepath.Join(dst, "Manifest.mpd"), mpd, 0o644); err != nil {
		return err
	}
	for _, rep := range []string{"V300", "A48"} {
		if err := os.MkdirAll(filepath.Join(dst, rep), 0o755); err != nil {
			return err
		}
		raw, err := os.ReadFile(filepath.Join(src, rep, "init.mp4"))
		if err != nil {
			return err
		}
		f, err := mp4.DecodeFile(bytes.NewReader(raw))
		if err != nil {
			return err
		}
		kid, _ := mp4.NewUUIDFromHex(hex.EncodeToString(preKID))
		ipd, err := mp4.InitProtect(f.Init, nil, preIV, "cbcs", kid, nil)
		if err != nil {
			return err
		}
		var b bytes.Buffer
		if err := f.Init.Encode(&b); err != nil {
			return err
		}
		if err := os.WriteFile(filepath.Join(dst, rep, "init.mp4"), b.Bytes(), 0o644); err != nil {
			return err
		}
		for n := 1; n <= 4; n++ {
			raw, err := os.ReadFile(filepath.Join(src, rep, fmt.Sprintf("%d.m4s", n)))
			if err != nil {
				return err
			}
			sf, err := mp4.DecodeFile(bytes.NewReader(raw))
			if err != nil {
				return err
			}
			var sb bytes.Buffer
			for _, s := range sf.Segments {
				for _, fr := range s.Fragments {
					if err := mp4.EncryptFragment(fr, preKey, preIV, ipd); err != nil {
						return err
					}
				}
				if err := s.Encode(&sb); err != nil {
					return err
				}
			}
			if err := os.WriteFile(filepath.Join(dst, rep, fmt.Sprintf("%d.m4s", n)), sb.Bytes(), 0o644); err != nil {
				return err
			}
		}
	}
	return nil
}

// ---------------------------------------------------------------- observations

type sampleObs struct {
	DT    uint64
	Dur   uint32
	Flags uint32
	Size  uint32
	Cto   int32
	Data  []byte
}

type segObs struct {
	// statuses
	MPDStatus, InitStatus, EncStatus, ClearStatus, LAStatus int
	Panic                                                   string
	Err                                                     string
	// ids
	MPDKid    string // cenc:default_KID of the adaptation set (uuid form, lower case)
	MPDScheme string // value of the mp4protection descriptor
	LaURL     string
	InitKid   string // tenc default_KID of the served init segment, hex with dashes
	InitSchm  string
	InitIV    []byte // tenc default_constant_IV
	// licence
	LAKid, LAKey string // base64url strings returned
	Key          []byte
	KeySource    string
	// media
	NFrags, NSamples int
	Encrypted        bool // at least one sample payload differs from the clear one before decryption
	DecryptErr       string
	FirstDiff        int // index of the first sample that differs after decryption, -1 = none
	CountDiff        bool
	// hook values for the model
	KfsAsset, KfsLaURL, RepKid, RepKey []byte
	HasEnc, PreEnc                     bool
}

func uuidStr(b []byte) string {
	s := hex.EncodeToString(b)
	if len(s) != 32 {
		return s
	}
	return s[:8] + "-" + s[8:12] + "-" + s[12:16] + "-" + s[16:20] + "-" + s[20:]
}

func parseFrags(data []byte, trex *mp4.TrexBox) (frs []*mp4.Fragment, samples [][]sampleObs, err error) {
	defer func() {
		if r := recover(); r != nil {
			err = fmt.Errorf("parse panic: %v", r)
		}
	}()
	f, err := mp4.DecodeFile(bytes.NewReader(data))
	if err != nil {
		return nil, nil, err
	}
	for _, s := range f.Segments {
		for _, fr := range s.Fragments {
			frs = append(frs, fr)
			fss, err := fr.GetFullSamples(trex)
			if err != nil {
				return nil, nil, err
			}
			var so []sampleObs
			for _, x := range fss {
				so = append(so, sampleObs{x.DecodeTime, x.Dur, x.Flags, x.Size, x.CompositionTimeOffset, append([]byte{}, x.Data...)})
			}
			samples = append(samples, so)
		}
	}
	return frs, samples, nil
}

func flat(s [][]sampleObs) []sampleObs {
	var out []sampleObs
	for _, x := range s {
		out = append(out, x...)
	}
	return out
}

func (in *c10in) prefix(withDRM bool) string {
	var sb strings.Builder
	if in.Chunked && (withDRM || !in.InProgress) {
		sb.WriteString("chunkdur_0.5/")
	}
	if in.Ato != "" {
		fmt.Fprintf(&sb, "ato_%s/", in.Ato)
	}
	if in.Mode == "tlt" {
		sb.WriteString("segtimeline_1/")
	}
	if withDRM && in.DRM != "" {
		sb.WriteString(in.DRM + "/")
	}
	return sb.String()
}

func initInfo(raw []byte) (kid, schm string, iv []byte, trex *mp4.TrexBox, init *mp4.InitSegment, err error) {
	f, err := mp4.DecodeFile(bytes.NewReader(raw))
	if err != nil {
		return "", "", nil, nil, nil, err
	}
	if f.Init == nil || f.Init.Moov == nil || f.Init.Moov.Trak == nil {
		return "", "", nil, nil, nil, fmt.Errorf("no moov/trak")
	}
	init = f.Init
	if init.Moov.Mvex != nil {
		trex = init.Moov.Mvex.Trex
	}
	for _, c := range init.Moov.Trak.Mdia.Minf.Stbl.Stsd.Children {
		var sinf *mp4.SinfBox
		switch b := c.(type) {
		case *mp4.VisualSampleEntryBox:
			sinf = b.Sinf
		case *mp4.AudioSampleEntryBox:
			sinf = b.Sinf
		}
		if sinf != nil && sinf.Schi != nil && sinf.Schi.Tenc != nil {
			kid = uuidStr(sinf.Schi.Tenc.DefaultKID)
			iv = sinf.Schi.Tenc.DefaultConstantIV
			if sinf.Schm != nil {
				schm = sinf.Schm.SchemeType
			}
		}
	}
	return kid, schm, iv, trex, init, nil
}

func b64url(b []byte) string {
	return strings.NewReplacer("+", "-", "/", "_", "=", "").Replace(base64.StdEncoding.EncodeToString(b))
}

func unb64url(s string) ([]byte, error) {
	s = strings.NewReplacer("-", "+", "_", "/").Replace(s)
	for len(s)%4 != 0 {
		s += "="
	}
	return base64.StdEncoding.DecodeString(s)
}

func (e *env) runSeg(in c10in) (o segObs) {
	ls := e.servers[in.Server]
	if ls == nil {
		ls = e.ls
	}
	a := e.assets[in.Asset]
	r := a.Rep(in.Rep)
	o.FirstDiff = -1
	id := in.Seg
	if in.Mode == "tlt" {
		id = r.LoopS(in.Seg)
	}
	mpdName := a.MPD
	if in.MPD != "" {
		mpdName = in.MPD
	}
	mpdURL := fmt.Sprintf("/livesim2/%s%s/%s?nowMS=%d", in.prefix(true), a.Path, mpdName, in.NowMS)
	initURL := fmt.Sprintf("/livesim2/%s%s/%s/init.mp4?nowMS=%d", in.prefix(true), a.Path, r.ID, in.NowMS)
	encURL := fmt.Sprintf("/livesim2/%s%s/%s/%d.m4s?nowMS=%d", in.prefix(true), a.Path, r.ID, id, in.NowMS)
	clearURL := fmt.Sprintf("/livesim2/%s%s/%s/%d.m4s?nowMS=%d", in.prefix(false), a.Path, r.ID, id, in.NowMS)

	// hook values (inputs of the model, not of the oracle)
	_, o.PreEnc, o.HasEnc, _, _, _ = app.VerifC10RepEnc(ls.Srv, a.Path, r.ID)
	if _, _, he, kid, key, _ := app.VerifC10RepEnc(ls.Srv, a.Path, r.ID); he {
		o.RepKid, o.RepKey = kid[:], key[:]
	}
	ka := app.VerifC10KidFromString(filepath.Base(a.Path))
	o.KfsAsset = ka[:]

	// 1. MPD
	mr := ls.GetRaw(mpdURL)
	o.MPDStatus = mr.Status
	if mr.Panic != "" {
		o.Panic = mr.Panic
		return o
	}
	if mr.Status == 200 {
		doc, err := m.MPDFromBytes(mr.Body)
		if err != nil {
			o.Err = "mpd: " + err.Error()
			return o
		}
		for _, p := range doc.Periods {
			for _, as := range p.AdaptationSets {
				if string(as.ContentType) != in.CType {
					continue
				}
				for _, cp := range as.ContentProtections {
					if cp.SchemeIdUri == "urn:mpeg:dash:mp4protection:2011" {
						o.MPDKid, o.MPDScheme = strings.ToLower(cp.DefaultKID), cp.Value
					}
					if cp.LaURL != nil && strings.Contains(string(cp.SchemeIdUri), "e2719d58") {
						o.LaURL = string(cp.LaURL.Value)
					}
				}
			}
		}
	}
	if o.LaURL != "" {
		kl := app.VerifC10KidFromString(o.LaURL)
		o.KfsLaURL = kl[:]
	}
	// 2. init
	ir := ls.GetRaw(initURL)
	o.InitStatus = ir.Status
	if ir.Panic != "" {
		o.Panic = ir.Panic
		return o
	}
	var encInit *mp4.InitSegment
	var trex *mp4.TrexBox
	if ir.Status == 200 {
		var err error
		o.InitKid, o.InitSchm, o.InitIV, trex, encInit, err = initInfo(ir.Body)
		if err != nil {
			o.Err = "init: " + err.Error()
			return o
		}
	}
	// 3. licence
	switch {
	case strings.HasPrefix(in.DRM, "eccp_"):
		if o.LaURL != "" && o.MPDKid != "" {
			u, err := url.Parse(o.LaURL)
			if err != nil {
				o.Err = "laurl: " + err.Error()
				return o
			}
			kidBytes, _ := hex.DecodeString(strings.ReplaceAll(o.MPDKid, "-", ""))
			body, _ := json.Marshal(map[string]any{"kids": []string{b64url(kidBytes)}, "type": "temporary"})
			lr := ls.Do("POST", u.Path, bytes.NewReader(body), map[string]string{"Content-Type": "application/json"})
			o.LAStatus = lr.Status
			if lr.Panic != "" {
				o.Panic = lr.Panic
				return o
			}
			if lr.Status == 200 {
				var resp struct {
					Keys []struct{ Kty, K, Kid string } `json:"keys"`
				}
				if err := json.Unmarshal(lr.Body, &resp); err != nil {
					o.Err = "licence json: " + err.Error()
					return o
				}
				for _, k := range resp.Keys {
					kb, _ := unb64url(k.Kid)
					if bytes.Equal(kb, kidBytes) {
						o.LAKid, o.LAKey = k.Kid, k.K
						o.Key, _ = unb64url(k.K)
						o.KeySource = "licence"
					}
				}
			}
		}
	case strings.HasPrefix(in.DRM, "drm_"):
		name := strings.TrimPrefix(in.DRM, "drm_")
		kidBytes, _ := hex.DecodeString(strings.ReplaceAll(o.MPDKid, "-", ""))
		// the key of the announced id: in the entry the server uses for that name (the last one) or,
		// failing that, in any other entry of that name
		all := append([]*cpixPkg{}, cpixAll[name]...)
		if pk := e.cpix[name]; pk != nil {
			all = append(all, pk)
		}
		for _, pk := range all {
			for _, k := range pk.Keys {
				if bytes.Equal(k.KID, kidBytes) {
					o.Key, o.KeySource = k.Key, "cpix"
				}
			}
		}
	}
	// 4. encrypted and clear segment
	var er lib.Resp
	if in.Chunked {
		rr := ls.GetRecorded(encURL)
		er = rr.Resp
	} else {
		er = ls.GetRaw(encURL)
	}
	o.EncStatus = er.Status
	if er.Panic != "" {
		o.Panic = er.Panic
		return o
	}
	cr := ls.GetRaw(clearURL)
	o.ClearStatus = cr.Status
	if cr.Panic != "" {
		o.Panic = cr.Panic
		return o
	}
	if er.Status != 200 || cr.Status != 200 || encInit == nil {
		return o
	}
	efr, esamples, err := parseFrags(er.Body, trex)
	if err != nil {
		o.Err = "encrypted segment: " + err.Error()
		return o
	}
	_, csamples, err := parseFrags(cr.Body, r.Trex)
	if err != nil {
		o.Err = "clear segment: " + err.Error()
		return o
	}
	clear := flat(csamples)
	before := flat(esamples)
	o.NFrags, o.NSamples = len(efr), len(before)
	for i := range before {
		if i < len(clear) && !bytes.Equal(before[i].Data, clear[i].Data) {
			o.Encrypted = true
		}
	}
	if o.InitKid == "" || o.Key == nil {
		// no protection information or no key: compare as is
		o.DecryptErr = "no tenc in the served init segment or no key"
	} else {
		func() {
			defer func() {
				if r := recover(); r != nil {
					o.DecryptErr = fmt.Sprintf("decrypt panic: %v", r)
				}
			}()
			di, err := mp4.DecryptInit(encInit)
			if err != nil {
				o.DecryptErr = "DecryptInit: " + err.Error()
				return
			}
			for _, fr := range efr {
				if err := mp4.DecryptFragment(fr, di, o.Key); err != nil {
					o.DecryptErr = "DecryptFragment: " + err.Error()
					return
				}
			}
		}()
	}
	var after []sampleObs
	for _, fr := range efr {
		fss, err := fr.GetFullSamples(trex)
		if err != nil {
			o.Err = "decrypted segment: " + err.Error()
			return o
		}
		for _, x := range fss {
			after = append(after, sampleObs{x.DecodeTime, x.Dur, x.Flags, x.Size, x.CompositionTimeOffset, x.Data})
		}
	}
	if len(after) != len(clear) {
		o.CountDiff = true
	}
	for i := range after {
		if i >= len(clear) {
			break
		}
		x, y := after[i], clear[i]
		if x.DT != y.DT || x.Dur != y.Dur || x.Flags != y.Flags || x.Size != y.Size || x.Cto != y.Cto || !bytes.Equal(x.Data, y.Data) {
			o.FirstDiff = i
			break
		}
	}
	return o
}

// ---------------------------------------------------------------- pre-encrypted asset

type preObs struct {
	MPDStatus, MPDClearStatus, EncStatus, ClearStatus int
	Panic, Err                                        string
	PreEnc, HasEnc                                    bool
	Same                                              bool // segment with the drm parameter == segment without it
	StillDecrypts                                     bool // and it still decrypts with the original key
}

func (e *env) runPre(in c10in) (o preObs) {
	ls := e.pre
	_, o.PreEnc, o.HasEnc, _, _, _ = app.VerifC10RepEnc(ls.Srv, in.Asset, in.Rep)
	get := func(u string) lib.Resp {
		r := ls.GetRaw(u)
		if r.Panic != "" && o.Panic == "" {
			o.Panic = r.Panic
		}
		return r
	}
	mr := get(fmt.Sprintf("/livesim2/%s%s/Manifest.mpd?nowMS=%d", in.prefix(true), in.Asset, in.NowMS))
	o.MPDStatus = mr.Status
	mc := get(fmt.Sprintf("/livesim2/%s%s/Manifest.mpd?nowMS=%d", in.prefix(false), in.Asset, in.NowMS))
	o.MPDClearStatus = mc.Status
	er := get(fmt.Sprintf("/livesim2/%s%s/%s/%d.m4s?nowMS=%d", in.prefix(true), in.Asset, in.Rep, in.Seg, in.NowMS))
	cr := get(fmt.Sprintf("/livesim2/%s%s/%s/%d.m4s?nowMS=%d", in.prefix(false), in.Asset, in.Rep, in.Seg, in.NowMS))
	o.EncStatus, o.ClearStatus = er.Status, cr.Status
	if o.Panic != "" || er.Status != 200 || cr.Status != 200 {
		return o
	}
	ir := get(fmt.Sprintf("/livesim2/%s%s/%s/init.mp4", in.prefix(true), in.Asset, in.Rep))
	_, _, _, trex, init, err := initInfo(ir.Body)
	if err != nil {
		o.Err = "init: " + err.Error()
		return o
	}
	efr, es, err1 := parseFrags(er.Body, trex)
	_, cs, err2 := parseFrags(cr.Body, trex)
	if err1 != nil || err2 != nil {
		o.Err = fmt.Sprintf("segments: %v %v", err1, err2)
		return o
	}
	a, b := flat(es), flat(cs)
	o.Same = len(a) == len(b)
	for i := range a {
		if o.Same && (a[i].DT != b[i].DT || a[i].Dur != b[i].Dur || a[i].Size != b[i].Size || !bytes.Equal(a[i].Data, b[i].Data)) {
			o.Same = false
		}
	}
	// the served segment still decrypts with the key it was packaged with
	src := filepath.Join(lib.TestVodRoot, "testpic_2s", in.Rep, fmt.Sprintf("%d.m4s", (in.Seg%4)+1))
	if raw, err := os.ReadFile(src); err == nil {
		func() {
			defer func() { _ = recover() }()
			di, err := mp4.DecryptInit(init)
			if err != nil {
				return
			}
			for _, fr := range efr {
				if mp4.DecryptFragment(fr, di, preKey) != nil {
					return
				}
			}
			_, orig, err := parseFrags(raw, trex)
			if err != nil {
				return
			}
			var after []sampleObs
			for _, fr := range efr {
				fss, _ := fr.GetFullSamples(trex)
				for _, x := range fss {
					after = append(after, sampleObs{Data: x.Data})
				}
			}
			og := flat(orig)
			ok := len(og) == len(after)
			for i := range after {
				if ok && !bytes.Equal(after[i].Data, og[i].Data) {
					ok = false
				}
			}
			o.StillDecrypts = ok
		}()
	}
	return o
}

// ---------------------------------------------------------------- keys.go functions and licence handler

type fnObs struct {
	Class int // 0 value, 1 error, 2 panic
	Out   []byte
	Msg   string
}

func latin1(b []byte) string { // bytes -> Go string with the same bytes
	return string(b)
}

func to16(b []byte) (k [16]byte) { copy(k[:], b); return }

func runFn(in c10in) (o fnObs) {
	defer func() {
		if r := recover(); r != nil {
			o = fnObs{Class: 2, Msg: fmt.Sprint(r)}
		}
	}()
	ret := func(k [16]byte, err error) fnObs {
		if err != nil {
			return fnObs{Class: 1, Msg: err.Error()}
		}
		return fnObs{Out: k[:]}
	}
	switch in.Fn {
	case "pack":
		return fnObs{Out: []byte(app.VerifC10PackBase64(to16(in.Bytes)))}
	case "unpack":
		return fnObs{Out: []byte(app.VerifC10UnpackBase64(latin1(in.Bytes)))}
	case "from":
		return ret(app.VerifC10Id16FromBase64(latin1(in.Bytes)))
	case "fromtrunc":
		return ret(app.VerifC10Id16FromTruncatedBase64(latin1(in.Bytes)))
	case "kid2key":
		k := app.VerifC10KidToKey(to16(in.Bytes))
		return fnObs{Out: k[:]}
	case "key2kid":
		k := app.VerifC10KeyToKid(to16(in.Bytes))
		return fnObs{Out: k[:]}
	case "kidfromstring":
		k := app.VerifC10KidFromString(latin1(in.Bytes))
		return fnObs{Out: k[:]}
	case "urlsafe":
		return fnObs{Out: []byte(app.VerifC10URLSafeBase64(latin1(in.Bytes)))}
	}
	return fnObs{Class: 1, Msg: "unknown fn"}
}

var fnCode = map[string]int{"pack": 0, "unpack": 1, "from": 2, "fromtrunc": 3, "kid2key": 4, "key2kid": 5, "kidfromstring": 6, "urlsafe": 7}

type laObs struct {
	Class  int // 0 = 200, 1 = 400, 2 = 500, 3 = panic, 4 other
	Status int
	Panic  string
	Pairs  [][2]string
	Raw    string
}

// wirePost sends the licence request over a real HTTP/1.x connection with the given body framing.
func (e *env) wirePost(path string, body []byte, framing string) lib.Resp {
	e.wireOnce.Do(func() { e.wire = httptest.NewServer(e.ls.Srv.Router) })
	conn, err := net.Dial("tcp", strings.TrimPrefix(e.wire.URL, "http://"))
	if err != nil {
		return lib.Resp{Status: -1, Body: []byte(err.Error())}
	}
	defer conn.Close()
	_ = conn.SetDeadline(time.Now().Add(5 * time.Second))
	var sb bytes.Buffer
	switch framing {
	case "content-length":
		fmt.Fprintf(&sb, "POST %s HTTP/1.1\r\nHost: x\r\nContent-Type: application/json\r\nContent-Length: %d\r\nConnection: close\r\n\r\n%s", path, len(body), body)
	case "http10-content-length":
		fmt.Fprintf(&sb, "POST %s HTTP/1.0\r\nContent-Type: application/json\r\nContent-Length: %d\r\n\r\n%s", path, len(body), body)
	case "chunked":
		fmt.Fprintf(&sb, "POST %s HTTP/1.1\r\nHost: x\r\nContent-Type: application/json\r\nTransfer-Encoding: chunked\r\nConnection: close\r\n\r\n%x\r\n%s\r\n0\r\n\r\n", path, len(body), body)
	default: // chunked-split
		k := len(body) / 2
		fmt.Fprintf(&sb, "POST %s HTTP/1.1\r\nHost: x\r\nContent-Type: application/json\r\nTransfer-Encoding: chunked\r\nConnection: close\r\n\r\n%x\r\n%s\r\n%x\r\n%s\r\n0\r\n\r\n", path, k, body[:k], len(body)-k, body[k:])
	}
	if _, err := conn.Write(sb.Bytes()); err != nil {
		return lib.Resp{Status: -1, Body: []byte(err.Error())}
	}
	resp, err := http.ReadResponse(bufio.NewReader(conn), nil)
	if err != nil {
		return lib.Resp{Status: -1, Body: []byte(err.Error())}
	}
	defer resp.Body.Close()
	b, _ := io.ReadAll(resp.Body)
	return lib.Resp{Status: resp.StatusCode, Header: resp.Header, Body: b}
}

func (e *env) runLa(in c10in) (o laObs) {
	body, _ := json.Marshal(map[string]any{"kids": in.Kids, "type": "temporary"})
	var r lib.Resp
	if in.Framing == "" {
		r = e.ls.Do("POST", in.Path, bytes.NewReader(body), map[string]string{"Content-Type": "application/json"})
	} else {
		r = e.wirePost(in.Path, body, in.Framing)
	}
	// the full router has the Recoverer: ask the sub-router as well to see a panic with its site
	o.Status = r.Status
	switch r.Status {
	case 200:
		o.Class = 0
		var resp struct {
			Keys []struct{ Kty, K, Kid string } `json:"keys"`
			Type string                         `json:"type"`
		}
		if err := json.Unmarshal(r.Body, &resp); err != nil {
			o.Class, o.Raw = 4, string(r.Body)
			return o
		}
		for _, k := range resp.Keys {
			o.Pairs = append(o.Pairs, [2]string{k.Kid, k.K})
		}
	case 400:
		o.Class = 1
	case 500:
		o.Class = 2
		if strings.Contains(string(r.Body), "panic") || r.Panic != "" {
			o.Class, o.Panic = 3, r.Panic+string(r.Body)
		}
	default:
		o.Class = 4
	}
	o.Raw = strings.TrimSpace(string(r.Body))
	if len(o.Raw) > 200 {
		o.Raw = o.Raw[:200]
	}
	return o
}

// ---------------------------------------------------------------- Coq terms

func zb(b []byte) string { return lib.Zbytes(b) }

func schemeCode(s string) int {
	switch s {
	case "cenc":
		return 0
	case "cbcs":
		return 1
	}
	return 2
}

func ctypeCode(s string) int {
	switch strings.ToLower(s) {
	case "video":
		return 0
	case "audio":
		return 1
	}
	return 2
}

func (e *env) modeTerm(drmPart string) string {
	if strings.HasPrefix(drmPart, "eccp_") {
		return fmt.Sprintf("(Eccp %d)", schemeCode(strings.TrimPrefix(drmPart, "eccp_")))
	}
	pk := e.cpix[strings.TrimPrefix(drmPart, "drm_")]
	var keys, rules []string
	if pk != nil {
		for _, k := range pk.Keys {
			keys = append(keys, fmt.Sprintf("{| ck_kid := %s; ck_key := %s; ck_iv := %s; ck_scheme := %d |}", zb(k.KID), zb(k.Key), zb(k.IV), schemeCode(k.Scheme)))
		}
		for _, r := range pk.Rules {
			rules = append(rules, fmt.Sprintf("{| ur_kid := %s; ur_type := %d |}", zb(r.KID), ctypeCode(r.Type)))
		}
	}
	return fmt.Sprintf("(Cpix {| cp_keys := [%s]; cp_rules := [%s] |})", strings.Join(keys, "; "), strings.Join(rules, "; "))
}

func unhexKid(s string) []byte {
	b, _ := hex.DecodeString(strings.ReplaceAll(s, "-", ""))
	return b
}

func (e *env) segTerm(i int, in c10in, o segObs) string {
	var la []string
	if o.LAKid != "" || o.LAKey != "" {
		la = append(la, fmt.Sprintf("(%s, %s)", zb([]byte(o.LAKid)), zb([]byte(o.LAKey))))
	}
	extra := ""
	if strings.HasPrefix(in.DRM, "eccp_") && o.LaURL != "" {
		// the announced licence URL against genLaURL: parts of the MPD request path, index of the first asset part
		path := "/livesim2/" + in.prefix(true) + in.Asset + "/x.mpd"
		var parts []string
		for _, s := range strings.Split(path, "/") {
			parts = append(parts, zb([]byte(s)))
		}
		idx := 2 + strings.Count(in.prefix(true), "/")
		extra = fmt.Sprintf(";\n CLaURL %d %s [%s] %d %s", 1000000+i, zb([]byte("http://example.com")), strings.Join(parts, "; "), idx, zb([]byte(o.LaURL)))
	}
	return fmt.Sprintf("CSeg %d %s %s %s %d (%s, %d) (%s, %d) %s %s [%s] "+lib.Cbool(o.EncStatus == 200)+extra, i, e.modeTerm(in.DRM), zb([]byte(filepath.Base(in.Asset))), zb([]byte(o.LaURL)),
		ctypeCode(in.CType), zb(unhexKid(o.MPDKid)), schemeCode(o.MPDScheme), zb(unhexKid(o.InitKid)), schemeCode(o.InitSchm), zb(o.Key), zb(o.InitIV), strings.Join(la, "; "))
}

// ---------------------------------------------------------------- oracle

func panicKey(p string) string {
	p = strings.Replace(p, ": runtime error: ", ":", 1)
	p = strings.Replace(p, ": ", ":", 1)
	return "panic:" + p
}

func oracleSeg(c *lib.Ctx, id string, in c10in, o segObs) {
	fail := func(key, what string) { c.Fail(id, key, what, in) }
	if o.Panic != "" {
		fail(panicKey(o.Panic), "handler panicked: "+o.Panic)
		return
	}
	if o.Err != "" {
		fail("unparsable", o.Err)
		return
	}
	if in.Server == "gen-drm" && o.ClearStatus == 200 && (o.EncStatus >= 400 || o.InitStatus >= 400 || o.MPDStatus >= 400) {
		// a package the server cannot use (e.g. no explicitIV): refusing is acceptable - nothing
		// undecryptable is served
		c.Count(fmt.Sprintf("generated-package-refused:mpd=%d,init=%d,segment=%d", o.MPDStatus, o.InitStatus, o.EncStatus))
		return
	}
	if o.MPDStatus != 200 || o.InitStatus != 200 || o.EncStatus != 200 || o.ClearStatus != 200 {
		fail("status", fmt.Sprintf("MPD %d, init %d, protected segment %d, clear segment %d", o.MPDStatus, o.InitStatus, o.EncStatus, o.ClearStatus))
		return
	}
	if in.Unencryptable {
		// livesim2 does not encrypt this codec: MPD, init segment and media must agree on that
		switch {
		case o.MPDKid == "" && o.InitKid == "" && !o.Encrypted:
			c.Count("unencryptable-track:consistently-clear")
		case o.MPDKid != "" && o.InitKid == "" && !o.Encrypted:
			fail("mpd-announces-protection-for-clear-track", fmt.Sprintf("the MPD announces ContentProtection (default_KID %s) for the %s adaptation set, but its init segment has no protection box and its segments are served in the clear", o.MPDKid, in.CType))
		default:
			fail("unencryptable-track-inconsistent", fmt.Sprintf("MPD default_KID %q, init tenc %q, ciphertext %v", o.MPDKid, o.InitKid, o.Encrypted))
		}
		return
	}
	if o.MPDKid == "" {
		fail("mpd-no-default-kid", "the MPD announces no default_KID for the "+in.CType+" adaptation set")
		return
	}
	if o.InitKid == "" {
		fail("init-no-tenc", "the served init segment has no protection box (tenc)")
		return
	}
	if o.MPDKid != o.InitKid {
		fail("kid-mpd-vs-init", fmt.Sprintf("MPD default_KID %s, init tenc default_KID %s", o.MPDKid, o.InitKid))
	}
	if o.MPDScheme != o.InitSchm {
		fail("scheme-mpd-vs-init", fmt.Sprintf("MPD scheme %q, init schm %q", o.MPDScheme, o.InitSchm))
	}
	if o.Key == nil {
		what := fmt.Sprintf("no key for the announced id %s (licence status %d)", o.MPDKid, o.LAStatus)
		fail("licence-no-key", what)
		return
	}
	if !o.Encrypted {
		fail("not-encrypted", "the segment served with the drm parameter carries the clear payload")
	}
	if o.DecryptErr != "" {
		fail("decrypt-error", o.DecryptErr)
		return
	}
	if o.CountDiff || o.FirstDiff >= 0 {
		fail("decrypt-differs", fmt.Sprintf("decrypted segment differs from the clear segment for the same URL and instant (first differing sample %d, sample count differs: %v)", o.FirstDiff, o.CountDiff))
	}
}

// ---------------------------------------------------------------- main

type loadObs struct {
	Found, Encryptable, Stored, PreEnc, HasEnc bool
	Entry                                      string
}

// runLoad looks at one representation of one server instance: is its sample entry one that
// livesim2 encrypts (avc1/avc3/mp4a; read by the harness from the VoD init segment), and was
// protection data prepared for it?
func (e *env) runLoad(in c10in) (o loadObs) {
	ls := e.servers[in.Server]
	a := e.assets[in.Asset]
	if ls == nil || a == nil {
		return o
	}
	o.Stored = in.Server == "repdata-restart"
	raw, err := os.ReadFile(filepath.Join(lib.TestVodRoot, a.Path, in.Rep, "init.mp4"))
	if err == nil {
		if f, err := mp4.DecodeFile(bytes.NewReader(raw)); err == nil && f.Init != nil && f.Init.Moov != nil && f.Init.Moov.Trak != nil {
			for _, c := range f.Init.Moov.Trak.Mdia.Minf.Stbl.Stsd.Children {
				o.Entry = c.Type()
			}
		}
	}
	o.Encryptable = o.Entry == "avc1" || o.Entry == "avc3" || o.Entry == "mp4a"
	o.Found, o.PreEnc, o.HasEnc, _, _, _ = app.VerifC10RepEnc(ls.Srv, a.Path, in.Rep)
	return o
}

type anyObs struct {
	load *loadObs
	seg  *segObs
	pre  *preObs
	fn   *fnObs
	la   *laObs
}

func (e *env) runAny(in c10in) anyObs {
	switch in.Kind {
	case "seg":
		o := e.runSeg(in)
		return anyObs{seg: &o}
	case "pre":
		o := e.runPre(in)
		return anyObs{pre: &o}
	case "fn":
		o := runFn(in)
		return anyObs{fn: &o}
	case "load":
		o := e.runLoad(in)
		return anyObs{load: &o}
	default:
		o := e.runLa(in)
		return anyObs{la: &o}
	}
}

func (e *env) oracle(c *lib.Ctx, id string, in c10in, ao anyObs) {
	fail := func(key, what string) { c.Fail(id, key, what, in) }
	switch {
	case ao.load != nil:
		o := *ao.load
		if !o.Found {
			fail("representation-missing", fmt.Sprintf("representation %s/%s is not served by the %q instance", in.Asset, in.Rep, in.Server))
		} else if o.Encryptable && !o.PreEnc && !o.HasEnc {
			fail("no-protection-data", fmt.Sprintf("%s/%s (sample entry %s) can be encrypted but the %q instance prepared no protection data for it", in.Asset, in.Rep, o.Entry, in.Server))
		}
	case ao.seg != nil:
		oracleSeg(c, id, in, *ao.seg)
	case ao.pre != nil:
		o := *ao.pre
		if o.Panic != "" {
			fail(panicKey(o.Panic), "handler panicked: "+o.Panic)
			return
		}
		if o.Err != "" {
			fail("unparsable", o.Err)
			return
		}
		if o.MPDStatus < 400 {
			fail("pre-encrypted-mpd-not-refused", fmt.Sprintf("MPD request with %s on a pre-encrypted asset answered %d", in.DRM, o.MPDStatus))
		}
		if o.MPDClearStatus != 200 {
			fail("status", fmt.Sprintf("MPD of the pre-encrypted asset without drm parameter: %d", o.MPDClearStatus))
		}
		if o.EncStatus == 200 && o.ClearStatus == 200 {
			if !o.Same {
				fail("pre-encrypted-encrypted-twice", "segment of a pre-encrypted asset requested with "+in.DRM+" differs from the one requested without")
			} else if !o.StillDecrypts && !in.Chunked {
				fail("pre-encrypted-damaged", "segment of the pre-encrypted asset no longer decrypts with its own key")
			} else if !o.StillDecrypts {
				// outside the property text (no drm processing involved): chunked mode rebuilds the
				// fragments from the samples and drops senc/saiz/saio of a pre-encrypted track
				c.Count("observation:pre-encrypted-chunked-loses-senc")
			}
		} else if o.EncStatus < 400 || o.ClearStatus != 200 {
			fail("status", fmt.Sprintf("pre-encrypted segment: with drm %d, without %d", o.EncStatus, o.ClearStatus))
		}
	case ao.fn != nil:
		o := *ao.fn
		switch in.Fn {
		case "pack":
			// the two ways back
			k1, e1 := app.VerifC10Id16FromTruncatedBase64(string(o.Out))
			k2, e2 := app.VerifC10Id16FromBase64(app.VerifC10UnpackBase64(string(o.Out)))
			if e1 != nil || e2 != nil || !bytes.Equal(k1[:], in.Bytes) || !bytes.Equal(k2[:], in.Bytes) {
				fail("b64-roundtrip", fmt.Sprintf("PackBase64 %x -> %q does not decode back (%v %v)", in.Bytes, o.Out, e1, e2))
			}
			if strings.ContainsAny(string(o.Out), "+/=") {
				fail("b64-not-urlsafe", fmt.Sprintf("PackBase64 %x -> %q", in.Bytes, o.Out))
			}
		case "kid2key":
			if bytes.Equal(in.Bytes[:3], []byte{0x28, 0x80, 0xfe}) {
				if o.Class != 0 {
					fail("key-algebra", fmt.Sprintf("kidToKey(%x) failed: %s", in.Bytes, o.Msg))
				} else {
					back := app.VerifC10KeyToKid(to16(o.Out))
					if !bytes.Equal(back[:], in.Bytes) || !bytes.Equal(o.Out[:3], []byte{0x28, 0x46, 0x3e}) || !bytes.Equal(o.Out[3:], in.Bytes[3:]) {
						fail("key-algebra", fmt.Sprintf("kidToKey(%x) = %x, keyToKid back = %x", in.Bytes, o.Out, back))
					}
				}
			}
		case "kidfromstring":
			if o.Class != 0 || !bytes.Equal(o.Out[:3], []byte{0x28, 0x80, 0xfe}) {
				fail("kid-prefix", fmt.Sprintf("kidFromString(%q) = %x", in.Bytes, o.Out))
			}
		}
	case ao.la != nil:
		o := *ao.la
		if o.Class == 3 {
			fail("panic:licence", "licence handler panicked: "+o.Raw)
			return
		}
		// every well-formed kid that livesim2 issued must get its key
		allOK := true
		for _, k := range in.Kids {
			kb, err := unb64url(k)
			if err != nil || len(kb) != 16 || !bytes.Equal(kb[:3], []byte{0x28, 0x80, 0xfe}) || strings.ContainsAny(k, "\r\n") {
				allOK = false
			}
		}
		if allOK {
			if o.Class != 0 || len(o.Pairs) != len(in.Kids) {
				fail("licence-refused", fmt.Sprintf("licence request for issued key ids answered %d (%s)", o.Status, o.Raw))
				return
			}
			for i, k := range in.Kids {
				kb, _ := unb64url(k)
				want := append([]byte{0x28, 0x46, 0x3e}, kb[3:]...)
				gotKid, _ := unb64url(o.Pairs[i][0])
				gotKey, _ := unb64url(o.Pairs[i][1])
				if !bytes.Equal(gotKid, kb) || !bytes.Equal(gotKey, want) {
					fail("licence-wrong-key", fmt.Sprintf("kid %x: response kid %x key %x, expected key %x", kb, gotKid, gotKey, want))
				}
			}
		}
	}
}

func (e *env) term(i int, in c10in, ao anyObs) string {
	switch {
	case ao.load != nil:
		o := *ao.load
		return fmt.Sprintf("CLoad %d %s %s %s", i, lib.Cbool(o.Encryptable), lib.Cbool(o.Stored), lib.Cbool(o.HasEnc || o.PreEnc))
	case ao.seg != nil:
		if in.Unencryptable {
			return "" // outside the model (which describes tracks that are encrypted)
		}
		return e.segTerm(i, in, *ao.seg)
	case ao.pre != nil:
		o := *ao.pre
		return fmt.Sprintf("CPre %d %s %s %s %s", i, lib.Cbool(o.PreEnc), lib.Cbool(o.HasEnc), lib.Cbool(o.MPDStatus >= 400), lib.Cbool(!o.Same && o.EncStatus == 200))
	case ao.fn != nil:
		o := *ao.fn
		return fmt.Sprintf("CFn %d %d %s %d %s", i, fnCode[in.Fn], zb(in.Bytes), o.Class, zb(o.Out))
	default:
		o := *ao.la
		var kids, pairs []string
		for _, k := range in.Kids {
			kids = append(kids, zb([]byte(k)))
		}
		for _, p := range o.Pairs {
			pairs = append(pairs, fmt.Sprintf("(%s, %s)", zb([]byte(p[0])), zb([]byte(p[1]))))
		}
		return fmt.Sprintf("CLa %d [%s] %d [%s]", i, strings.Join(kids, "; "), o.Class, strings.Join(pairs, "; "))
	}
}

const b64alpha = "ABCDEFGHIJKLMNOPQRSTUVWXYZabcdefghijklmnopqrstuvwxyz0123456789+/"

func (e *env) generate(rng *rand.Rand, c *lib.Ctx) []c10in {
	var ins []c10in
	add := func(kind string, in c10in) { ins = append(ins, in); c.Count(kind) }
	// ---- segments
	type ar struct{ asset, vid, aud, audMPD string }
	assets := []ar{{"testpic_2s", "V300", "A48", ""}, {"testpic_8s", "V300", "A48", ""}, {"testpic_6s", "V300", "A48", ""}, {"testpic_alt_seg_dur_stl", "V300", "A48", ""},
		{"WAVE/vectors/cfhd_sets/14.985_29.97_59.94/t1/2022-10-17", "1", "A48", "stream_w_beeps.mpd"}, {"WAVE/vectors/cfhd_sets/12.5_25_50/t3/2022-10-17", "1", "", ""}}
	drms := []string{"eccp_cenc", "eccp_cbcs"}
	var pkgs []string
	for n := range e.cpix {
		if !strings.HasPrefix(n, "gen-") {
			pkgs = append(pkgs, n)
		}
	}
	sort.Strings(pkgs)
	for _, n := range pkgs {
		drms = append(drms, "drm_"+n)
	}
	perLoop := 3
	if c.Thorough() {
		perLoop = 1000
	}
	for _, x := range assets {
		a := e.assets[x.asset]
		if a == nil {
			continue
		}
		ref := a.Ref()
		N := int64(len(ref.Segs))
		segMS := e.segDur[x.asset]
		for _, d := range drms {
			for _, rp := range []struct{ id, ct string }{{x.vid, "video"}, {x.aud, "audio"}} {
				if rp.id == "" || a.Rep(rp.id) == nil {
					continue
				}
				// every index of the loop (thorough) or a few of them, the wrap, and far away
				var segs []int64
				idx := rng.Perm(int(N))
				for k := 0; k < len(idx) && k < perLoop; k++ {
					segs = append(segs, int64(idx[k])+N*rng.Int63n(3))
				}
				segs = append(segs, N-1+N*rng.Int63n(100), N+N*rng.Int63n(100), rng.Int63n(400000000))
				for _, sg := range segs {
					for _, ch := range []bool{false, true} {
						in := c10in{Kind: "seg", Asset: x.asset, Rep: rp.id, CType: rp.ct, DRM: d, Seg: sg, Chunked: ch, Mode: "number"}
						if rp.ct == "audio" {
							in.MPD = x.audMPD
						}
						endMS := ref.LoopE(sg) * 1000 / ref.Timescale
						in.NowMS = endMS + segMS + 1000 + rng.Int63n(20000)
						if ch {
							in.Ato = []string{"0.5", "1", "1.5", "1.75"}[rng.Intn(4)]
						}
						if rp.ct == "video" && rng.Intn(6) == 0 {
							in.Mode = "tlt"
						}
						kind := "seg:" + d + ":" + rp.ct
						if ch {
							kind += ":chunked"
						}
						add(kind, in)
						// the same request on the servers started with a representation-data directory:
						// every one in the thorough tier, the first of each (asset, drm, track) otherwise
						if c.Thorough() || sg == segs[0] {
							for _, srv := range []string{"repdata-restart", "repdata-write"} {
								if srv == "repdata-write" && !c.Thorough() && !ch {
									continue
								}
								in2 := in
								in2.Server = srv
								add("server:"+srv, in2)
							}
						}
					}
				}
			}
		}
	}
	// ---- generated CPIX packages (instance "gen-drm"): every served (init, segment) pair must decrypt
	// with the package key to the clear segment, or the request is refused
	if e.servers["gen-drm"] != nil {
		genAssets := assets[:1]
		if c.Thorough() {
			genAssets = assets
		}
		for _, x := range genAssets {
			a := e.assets[x.asset]
			if a == nil {
				continue
			}
			ref := a.Ref()
			for _, n := range e.genPkgs {
				for _, rp := range []struct{ id, ct string }{{x.vid, "video"}, {x.aud, "audio"}} {
					if rp.id == "" || a.Rep(rp.id) == nil {
						continue
					}
					for _, ch := range []bool{false, true} {
						in := c10in{Kind: "seg", Asset: x.asset, Rep: rp.id, CType: rp.ct, DRM: "drm_" + n, Seg: 300 + rng.Int63n(1000), Chunked: ch, Mode: "number", Server: "gen-drm"}
						if rp.ct == "audio" {
							in.MPD = x.audMPD
						}
						in.NowMS = ref.LoopE(in.Seg)*1000/ref.Timescale + e.segDur[x.asset] + 1000 + rng.Int63n(20000)
						if ch {
							in.Ato = "1"
						}
						add("seg-generated-package:"+n, in)
					}
				}
			}
		}
	}
	// ---- stored segments with a 64-bit tfdt requested near the start of the timeline (the live tfdt is
	// 32-bit there: the box shrinks) and far from it: the protected variant of a served clear segment
	if e.servers["scratch"] != nil && e.assets["testpic_2s_tfdt64"] != nil {
		a := e.assets["testpic_2s_tfdt64"]
		ref := a.Ref()
		for _, d := range drms {
			for _, rp := range []struct{ id, ct string }{{"V300", "video"}, {"A48", "audio"}} {
				for _, sg := range []int64{1 + rng.Int63n(20), 100 + rng.Int63n(20000), 30000 + rng.Int63n(400000000)} {
					for _, ch := range []bool{false, true} {
						if !c.Thorough() && ch && sg > 30000 {
							continue
						}
						in := c10in{Kind: "seg", Asset: a.Path, Rep: rp.id, CType: rp.ct, DRM: d, Seg: sg, Chunked: ch, Mode: "number", Server: "scratch"}
						in.NowMS = ref.LoopE(sg)*1000/ref.Timescale + 2000 + 1000 + rng.Int63n(20000)
						if ch {
							in.Ato = "1"
						}
						add("seg-tfdt64:"+d, in)
					}
				}
			}
		}
	}
	// ---- asset layouts: codecs on the AdaptationSet; a mixed asset whose reference video cannot be encrypted
	if e.servers["scratch"] != nil {
		type lrep struct {
			id, ct string
			unenc  bool
		}
		for _, x := range []struct {
			asset string
			reps  []lrep
		}{
			{"testpic_2s_ascodecs", []lrep{{"V300", "video", false}, {"A48", "audio", false}}},
			{"mixed_hevc_aac", []lrep{{"H1", "video", true}, {"A48", "audio", false}}},
		} {
			a := e.assets[x.asset]
			if a == nil {
				continue
			}
			ref := a.Ref()
			for _, d := range drms {
				for _, rp := range x.reps {
					for _, ch := range []bool{false, true} {
						in := c10in{Kind: "seg", Asset: x.asset, Rep: rp.id, CType: rp.ct, DRM: d, Seg: 20 + rng.Int63n(400000), Chunked: ch, Mode: "number", Server: "scratch", Unencryptable: rp.unenc}
						in.NowMS = ref.LoopE(in.Seg)*1000/ref.Timescale + 3000 + rng.Int63n(20000)
						if ch {
							in.Ato = "1"
						}
						add("seg-layout:"+x.asset, in)
					}
				}
			}
		}
	}
	// ---- chunked DRM requests that arrive while the segment is in progress: the chunks still to
	// come are written after sleeping (the third branch of the pacing loop); every chunk must
	// be encrypted. Real time, run concurrently.
	type ip struct {
		asset, rep, ct, drm, ato string
		off                      int64 // ms after the advertised availability time
	}
	ips := []ip{{"testpic_2s", "V300", "video", "eccp_cbcs", "1.5", 100}, {"testpic_2s", "A48", "audio", "eccp_cenc", "1.5", 60}}
	if c.Thorough() {
		for _, d := range drms {
			ips = append(ips, ip{"testpic_2s", "V300", "video", d, "1.75", rng.Int63n(200)}, ip{"testpic_2s", "A48", "audio", d, "1", rng.Int63n(500)})
		}
		ips = append(ips, ip{"testpic_8s", "V300", "video", "eccp_cenc", "6", 0}, ip{"testpic_6s", "A48", "audio", "eccp_cbcs", "4.5", 10})
	}
	for _, x := range ips {
		a := e.assets[x.asset]
		if a == nil || a.Rep(x.rep) == nil {
			continue
		}
		ref := a.Ref()
		in := c10in{Kind: "seg", Asset: x.asset, Rep: x.rep, CType: x.ct, DRM: x.drm, Seg: 300 + rng.Int63n(100000), Chunked: true, InProgress: true, Ato: x.ato, Mode: "number"}
		atoS, _ := strconv.ParseFloat(x.ato, 64)
		in.NowMS = ref.LoopE(in.Seg)*1000/ref.Timescale - int64(atoS*1000) + x.off
		add("seg-in-progress:"+x.drm+":"+x.ct, in)
	}
	// ---- pre-encrypted asset
	if e.pre != nil {
		for _, d := range drms {
			for _, rep := range []string{"V300", "A48"} {
				for _, ch := range []bool{false, true} {
					for _, pa := range []string{"testpic_2s_pre", "testpic_2s_pre_ascodecs"} {
						in := c10in{Kind: "pre", Asset: pa, Rep: rep, DRM: d, Seg: 4 + rng.Int63n(1000), Chunked: ch && rep == "V300"}
						in.NowMS = in.Seg*2000 + 6000 + rng.Int63n(20000)
						if in.Chunked {
							in.Ato = "1"
						}
						add("pre-encrypted:"+d, in)
					}
				}
			}
		}
	} else {
		c.Res.Notes = append(c.Res.Notes, "pre-encrypted scratch asset could not be built/loaded: "+e.preErr)
	}
	// ---- every representation on every server instance: protection data prepared?
	for _, srv := range []string{"", "repdata-write", "repdata-restart"} {
		for _, x := range assets {
			a := e.assets[x.asset]
			if a == nil {
				continue
			}
			for _, r := range a.Reps {
				if r.Kind == "image" {
					continue
				}
				add("load:"+srv+":"+r.Kind, c10in{Kind: "load", Asset: x.asset, Rep: r.ID, Server: srv})
			}
		}
	}
	// ---- keys.go functions
	nFn := 2200
	if c.Thorough() {
		nFn = 22000
	}
	rb := func(n int) []byte {
		b := make([]byte, n)
		for i := range b {
			switch rng.Intn(6) {
			case 0:
				b[i] = []byte{0xff, 0xfb, 0xfe, 0x3e, 0x3f, 0, 0xf8}[rng.Intn(7)] // gives '+' '/' '-' '_' in base64
			default:
				b[i] = byte(rng.Intn(256))
			}
		}
		return b
	}
	rstr := func(alpha string, n int) []byte {
		b := make([]byte, n)
		for i := range b {
			b[i] = alpha[rng.Intn(len(alpha))]
		}
		return b
	}
	for i := 0; i < nFn; i++ {
		switch k := rng.Intn(20); {
		case k < 3:
			add("fn:pack", c10in{Kind: "fn", Fn: "pack", Bytes: rb(16)})
		case k < 5:
			add("fn:unpack", c10in{Kind: "fn", Fn: "unpack", Bytes: rstr(b64alpha+"-_-_==", rng.Intn(30))})
		case k < 11:
			// id16FromBase64 / FromTruncated: start from a valid encoding of n bytes, then damage it
			n := []int{16, 16, 16, 16, 15, 17, 0, 1, 2, 3, 14, 18, 32}[rng.Intn(13)]
			s := []byte(base64.StdEncoding.EncodeToString(rb(n)))
			kind := "valid"
			switch rng.Intn(12) {
			case 0:
				s = bytes.TrimRight(s, "=")
				kind = "no-padding"
			case 1:
				if len(s) > 0 {
					s[rng.Intn(len(s))] = []byte("-_ .*\x00\xff=")[rng.Intn(8)]
				}
				kind = "bad-char"
			case 2:
				p := rng.Intn(len(s) + 1)
				s = append(s[:p:p], append([]byte([]string{"\n", "\r\n", "\r", "\n\n"}[rng.Intn(4)]), s[p:]...)...)
				kind = "newline"
			case 3:
				s = append(s, []byte([]string{"=", "==", "A", "AAAA", "\n", "QQ=="}[rng.Intn(6)])...)
				kind = "trailing"
			case 4:
				if len(s) > 4 {
					s = s[:len(s)-1-rng.Intn(3)]
				}
				kind = "truncated"
			case 5:
				if n%3 != 0 && len(s) > 4 { // non-zero unused bits in the last quantum
					i := len(bytes.TrimRight(s, "=")) - 1
					s[i] = b64alpha[(strings.IndexByte(b64alpha, s[i])|1+rng.Intn(3))%64]
				}
				kind = "unused-bits"
			case 6:
				s = []byte(strings.NewReplacer("+", "-", "/", "_").Replace(string(s)))
				kind = "urlsafe-alphabet"
			case 7:
				if len(s) > 2 {
					s[rng.Intn(len(s)-1)] = '='
				}
				kind = "padding-inside"
			}
			fn := "from"
			if rng.Intn(3) == 0 {
				fn = "fromtrunc"
				if rng.Intn(2) == 0 {
					s = []byte(strings.NewReplacer("+", "-", "/", "_", "=", "").Replace(string(s)))
				}
			}
			add("fn:"+fn+":"+kind, c10in{Kind: "fn", Fn: fn, Bytes: s})
		case k < 14:
			b := rb(16)
			if rng.Intn(3) != 0 {
				copy(b, []byte{0x28, 0x80, 0xfe})
			}
			if rng.Intn(8) == 0 {
				b[rng.Intn(3)] ^= 1 << uint(rng.Intn(8))
			}
			add("fn:kid2key", c10in{Kind: "fn", Fn: "kid2key", Bytes: b})
		case k < 16:
			b := rb(16)
			if rng.Intn(3) != 0 {
				copy(b, []byte{0x28, 0x46, 0x3e})
			}
			if rng.Intn(8) == 0 {
				b[rng.Intn(3)] ^= 1 << uint(rng.Intn(8))
			}
			add("fn:key2kid", c10in{Kind: "fn", Fn: "key2kid", Bytes: b})
		case k < 18:
			s := [][]byte{[]byte("testpic_2s"), []byte("http://example.com/livesim2/eccp_cbcs/testpic_2s/eccp.json"), {}, rb(rng.Intn(40)), rstr("abc/_:.", rng.Intn(80))}[rng.Intn(5)]
			add("fn:kidfromstring", c10in{Kind: "fn", Fn: "kidfromstring", Bytes: s})
		default:
			add("fn:urlsafe", c10in{Kind: "fn", Fn: "urlsafe", Bytes: rstr(b64alpha+"==-_", rng.Intn(30))})
		}
	}
	// ---- licence handler
	nLa := 250
	if c.Thorough() {
		nLa = 2500
	}
	paths := []string{"/livesim2/eccp_cbcs/testpic_2s/eccp.json", "/livesim2/eccp_cenc/testpic_8s/eccp.json", "/livesim2/chunkdur_0.5/ato_1/eccp_cbcs/testpic_6s/eccp.json"}
	issued := func() []byte {
		b := rb(16)
		copy(b, []byte{0x28, 0x80, 0xfe})
		return b
	}
	for i := 0; i < nLa; i++ {
		in := c10in{Kind: "la", Path: paths[rng.Intn(len(paths))]}
		if i%3 == 0 { // a third of them over a real connection, all framings of the request body
			in.Framing = []string{"content-length", "chunked", "chunked-split", "http10-content-length"}[(i/3)%4]
		}
		kind := ""
		n := rng.Intn(4)
		for j := 0; j < n; j++ {
			switch rng.Intn(8) {
			case 0:
				in.Kids = append(in.Kids, b64url(rb(16))) // foreign
				kind += "F"
			case 1:
				in.Kids = append(in.Kids, string(rstr(b64alpha+"-_=!", 1+rng.Intn(24)))) // malformed
				kind += "M"
			case 2:
				in.Kids = append(in.Kids, base64.StdEncoding.EncodeToString(issued())) // standard alphabet with padding
				kind += "S"
			case 3:
				in.Kids = append(in.Kids, b64url(issued()[:rng.Intn(16)])) // wrong length
				kind += "L"
			default:
				in.Kids = append(in.Kids, b64url(issued()))
				kind += "I"
			}
		}
		if in.Framing != "" {
			c.Count("la-framing:" + in.Framing)
		}
		add("la:"+kind, in)
	}
	return ins
}

func runC10(c *lib.Ctx) error {
	e, err := newEnv(c.Out, c.Seed)
	if err != nil {
		return err
	}
	if c.Replay != "" {
		in, err := lib.LoadReplayInput[c10in](c.Replay)
		if err != nil {
			return err
		}
		ao := e.runAny(in)
		switch {
		case ao.load != nil:
			fmt.Printf("replay C10 load: %+v\n", *ao.load)
		case ao.seg != nil:
			o := ao.seg
			fmt.Printf("replay C10 seg: MPD %d kid %s scheme %s | init %d kid %s schm %s iv %x | licence %d key %x (%s) | protected %d clear %d, %d fragments %d samples, encrypted=%v decrypt=%q first differing sample %d panic=%q err=%q\n",
				o.MPDStatus, o.MPDKid, o.MPDScheme, o.InitStatus, o.InitKid, o.InitSchm, o.InitIV, o.LAStatus, o.Key, o.KeySource, o.EncStatus, o.ClearStatus, o.NFrags, o.NSamples, o.Encrypted, o.DecryptErr, o.FirstDiff, o.Panic, o.Err)
		case ao.pre != nil:
			fmt.Printf("replay C10 pre-encrypted: %+v\n", *ao.pre)
		case ao.fn != nil:
			fmt.Printf("replay C10 %s(%q): class %d out %q %s\n", in.Fn, in.Bytes, ao.fn.Class, ao.fn.Out, ao.fn.Msg)
		default:
			fmt.Printf("replay C10 licence %v: %+v\n", in.Kids, *ao.la)
		}
		e.oracle(c, "replay", in, ao)
		return nil
	}
	c.Res.Notes = append(c.Res.Notes, e.notes...)
	rng := rand.New(rand.NewSource(c.Seed))
	ins := e.generate(rng, c)
	obs := make([]anyObs, len(ins))
	distinct := map[string]bool{}
	nseg := 0
	var wg sync.WaitGroup
	for i, in := range ins {
		if in.InProgress {
			wg.Add(1)
			go func(i int, in c10in) {
				defer wg.Done()
				obs[i] = e.runAny(in)
			}(i, in)
		}
	}
	for i, in := range ins {
		if !in.InProgress {
			obs[i] = e.runAny(in)
		}
	}
	wg.Wait()
	for i, in := range ins {
		id := strconv.Itoa(i)
		c.Res.Inputs[id] = in
		e.oracle(c, id, in, obs[i])
		if o := obs[i].seg; o != nil && strings.HasPrefix(in.DRM, "eccp_") && o.LaURL != "" {
			c.Res.Inputs[strconv.Itoa(1000000+i)] = in // the licence URL case written next to the segment case
		}
		switch {
		case obs[i].seg != nil:
			o := obs[i].seg
			nseg++
			if o.Encrypted && o.DecryptErr == "" && o.FirstDiff < 0 {
				distinct[fmt.Sprintf("seg|%s|%s|%s|%d|%v|%s", in.Asset, in.Rep, in.DRM, in.Seg, in.Chunked, in.Mode)] = true
				c.Count("decrypted-equal-to-clear")
			}
		case obs[i].fn != nil:
			c.Count(fmt.Sprintf("fn-outcome:%d", obs[i].fn.Class))
			if len(in.Bytes) >= 8 {
				distinct["fn|"+in.Fn+"|"+string(in.Bytes)] = true
			}
		case obs[i].la != nil:
			c.Count(fmt.Sprintf("la-status:%d", obs[i].la.Status))
			if len(in.Kids) > 0 {
				distinct["la|"+strings.Join(in.Kids, ",")] = true
			}
		}
	}
	c.Res.Evaluations = len(ins)
	c.Res.DistinctNontrivial = len(distinct)
	c.Res.Rule = "seg: encryptable bundled assets (testpic_2s/8s/6s/alt_seg_dur, two WAVE vectors) x {eccp_cenc, eccp_cbcs, the CPIX packages of pkg/drm/testdata} x {video, audio (re-segmented)} x segment indices over the loop, at wraps and ~25 years away x {whole, chunked}; " +
		"each: MPD default_KID, init tenc, licence (POST eccp.json / CPIX file), mp4ff decryption of the served segment against the clear response for the same URL and instant. pre: pre-encrypted copy of testpic_2s with every drm mode. " +
		"fn: PackBase64/unpackBase64/id16FromBase64/id16FromTruncatedBase64 (valid, unpadded, bad characters, newlines, trailing data, truncation, unused bits, url-safe alphabet, inner padding; 0-32 bytes), kidToKey/keyToKid (right/wrong/one-bit-off prefixes), kidFromString, urlSafeBase64. " +
		"la: licence requests with issued, foreign, malformed, padded, short key ids. distinct = distinct inputs; non-trivial = segment really encrypted and decrypted equal / input of >= 8 bytes / non-empty kid list"
	for _, i := range []int{0, 1, nseg + 2, len(ins) - 3} {
		if i >= 0 && i < len(ins) {
			s := map[string]any{"input": ins[i]}
			if o := obs[i].seg; o != nil {
				s["mpd_kid"], s["init_kid"], s["key_source"], s["samples"], s["fragments"], s["first_diff"] = o.MPDKid, o.InitKid, o.KeySource, o.NSamples, o.NFrags, o.FirstDiff
			}
			c.Sample(s)
		}
	}
	shard := 300
	for s := 0; s*shard < len(ins); s++ {
		var terms []string
		for i := s * shard; i < (s+1)*shard && i < len(ins); i++ {
			if tm := e.term(i, ins[i], obs[i]); tm != "" {
				terms = append(terms, tm)
			}
		}
		c.WriteCases(fmt.Sprintf("cases_C10_%d.v", s),
			lib.CasesFile("From Verif Require Import GoSem Keys CorrC10.", "c10case", "", terms, "model_view"))
	}
	return nil
}
