package main

// L1c: error-then-valid histories.  A patch answer is a function of (URL, nowMS): on ONE long-lived server
// failing patch requests of every kind (unknown asset, unknown MPD name, bad / missing publishTime,
// publishTime before the start of the session, beyond the ttl, no patch_ option, bad URL option, a media path)
// are interleaved with valid ones - sequentially on one goroutine locked to its OS thread, and concurrently -
// and every valid answer must (a) satisfy the property (runL1x) and (b) equal the answer of a reference
// instance that never saw a failing request.

import (
	"bytes"
	"fmt"
	"math/rand"
	"net/url"
	"runtime"
	"strings"
	"sync"

	"verifharness/lib"
)

type failKind struct {
	name string
	url  func(rng *rand.Rand, now int64) string
}

func isoS(ms int64) string { return url.QueryEscape(fmtTime(ms / 1000)) }

var failKinds = []failKind{
	{"unknown-asset", func(rng *rand.Rand, now int64) string {
		return fmt.Sprintf("/patch/livesim2/patch_60/segtimeline_1/nosuchasset%d/Manifest.mpp?publishTime=%s&nowMS=%d", rng.Intn(9), isoS(now-4000), now)
	}},
	{"unknown-mpd-name", func(rng *rand.Rand, now int64) string {
		return fmt.Sprintf("/patch/livesim2/patch_60/segtimeline_1/testpic_2s/Nope.mpp?publishTime=%s&nowMS=%d", isoS(now-4000), now)
	}},
	{"bad-publishTime", func(rng *rand.Rand, now int64) string {
		return fmt.Sprintf("/patch/livesim2/patch_60/segtimeline_1/testpic_2s/Manifest.mpp?publishTime=notadate&nowMS=%d", now)
	}},
	{"missing-publishTime", func(rng *rand.Rand, now int64) string {
		return fmt.Sprintf("/patch/livesim2/patch_60/segtimeline_1/testpic_2s/Manifest.mpp?nowMS=%d", now)
	}},
	{"publishTime-before-start", func(rng *rand.Rand, now int64) string {
		return fmt.Sprintf("/patch/livesim2/patch_60/segtimeline_1/start_%d/testpic_2s/Manifest.mpp?publishTime=%s&nowMS=%d", now/1000-20, isoS(now-60000), now)
	}},
	{"beyond-ttl", func(rng *rand.Rand, now int64) string {
		return fmt.Sprintf("/patch/livesim2/patch_10/segtimeline_1/testpic_2s/Manifest.mpp?publishTime=%s&nowMS=%d", isoS(now-120000), now)
	}},
	{"no-patch-option", func(rng *rand.Rand, now int64) string {
		return fmt.Sprintf("/patch/livesim2/segtimeline_1/testpic_2s/Manifest.mpp?publishTime=%s&nowMS=%d", isoS(now-4000), now)
	}},
	{"bad-url-option", func(rng *rand.Rand, now int64) string {
		return fmt.Sprintf("/patch/livesim2/patch_60/tsbd_abc/segtimeline_1/testpic_2s/Manifest.mpp?publishTime=%s&nowMS=%d", isoS(now-4000), now)
	}},
	{"media-path", func(rng *rand.Rand, now int64) string {
		return fmt.Sprintf("/patch/livesim2/patch_60/segtimeline_1/testpic_2s/V300/%d.m4s?publishTime=%s&nowMS=%d", now/2000-3, isoS(now-4000), now)
	}},
	{"too-early-now", func(rng *rand.Rand, now int64) string {
		return fmt.Sprintf("/patch/livesim2/patch_60/segtimeline_1/start_%d/testpic_2s/Manifest.mpp?publishTime=%s&nowMS=%d", now/1000+500, isoS(now-4000), now)
	}},
}

// patchURLFor returns the patch request that a client holding MPD(t1) sends at t2 (taken from the served PatchLocation).
func patchURLFor(ls *lib.Livesim, mpdURL string, t1, t2 int64) string {
	d, _, _ := getMPD(ls, mpdURL, t1)
	if d == nil {
		return ""
	}
	pl := d.Root().SelectElement("PatchLocation")
	if pl == nil {
		return ""
	}
	return fmt.Sprintf("%s&nowMS=%d", strings.TrimSpace(pl.Text()), t2)
}

func validPair(rng *rand.Rand) (mpdURL string, t1, t2 int64) {
	asset := []string{"testpic_2s/Manifest.mpd", "testpic_8s/Manifest.mpd", "testpic_alt_seg_dur_stl/Manifest.mpd", "testpic_2s/Manifest_thumbs.mpd"}[rng.Intn(4)]
	mode := []string{"segtimeline_1", "segtimelinenr_1"}[rng.Intn(2)]
	mpdURL = fmt.Sprintf("/livesim2/patch_60/%s/%s", mode, asset)
	t1 = 100000 + rng.Int63n(1700000000000)
	t2 = t1 + 2000 + rng.Int63n(40000)
	return
}

// errThenValid plays: the failing requests in order, then the valid pair; both judged and compared with ref.
func errThenValid(c *lib.Ctx, ls, ref *lib.Livesim, id string, in c11in) {
	for _, f := range in.Fails {
		_ = ls.Get(f)
	}
	pin := c11in{Kind: "l1", Stream: "errseq", URL: in.URL, T1: in.T1, T2: in.T2}
	o := runL1x(c, ls, id, pin, in)
	if o.Skip != "" {
		c.Count("errseq:skipped")
		return
	}
	c.Count(fmt.Sprintf("errseq:status-%d", o.Status))
	u := patchURLFor(ref, in.URL, in.T1, in.T2)
	if u == "" {
		return
	}
	a, b := ls.Get(u), ref.Get(u)
	if a.Status != b.Status || !bytes.Equal(a.Body, b.Body) {
		c.Fail(id, "history-dependent-answer:sequential", fmt.Sprintf("after %d failing patch request(s) (last: %s) the patch request %s is answered %d (%d bytes); an instance that never saw a failing request answers %d (%d bytes)",
			len(in.Fails), in.Fails[len(in.Fails)-1], u, a.Status, len(a.Body), b.Status, len(b.Body)), in)
	}
}

func runErrHistStage(c *lib.Ctx, rng *rand.Rand, ls *lib.Livesim, nextID *int) error {
	ref, err := lib.NewLivesim(lib.TestVodRoot, nil)
	if err != nil {
		return err
	}
	rounds, conc := 3, 300
	if c.Thorough() {
		rounds, conc = 30, 4000
	}
	silenceStderr()
	defer restoreStderr()
	// sequential, on one goroutine locked to its thread (pooled per-processor state is then reused)
	runtime.LockOSThread()
	for r := 0; r < rounds; r++ {
		for _, k := range failKinds {
			mpdURL, t1, t2 := validPair(rng)
			var fails []string
			for n := 1 + rng.Intn(3); n > 0; n-- {
				fails = append(fails, k.url(rng, t2-rng.Int63n(3000)))
			}
			in := c11in{Kind: "errseq", Stream: "errseq", URL: mpdURL, T1: t1, T2: t2, Fails: fails}
			id := *nextID
			*nextID++
			sid := fmt.Sprint(id)
			c.Res.Inputs[sid] = in
			c.Count("errseq:after:" + k.name)
			c.Res.Evaluations++
			errThenValid(c, ls, ref, sid, in)
		}
	}
	runtime.UnlockOSThread()

	// concurrently: failing and valid patch requests from several goroutines; every valid answer as on ref
	type job struct{ u, kind string }
	var jobs []job
	want := map[string]lib.Resp{}
	for i := 0; i < conc; i++ {
		if i%2 == 0 {
			k := failKinds[rng.Intn(len(failKinds))]
			jobs = append(jobs, job{k.url(rng, 100000+rng.Int63n(1700000000000)), k.name})
		} else {
			mpdURL, t1, t2 := validPair(rng)
			if u := patchURLFor(ref, mpdURL, t1, t2); u != "" {
				want[u] = ref.Get(u)
				jobs = append(jobs, job{u, ""})
			}
		}
	}
	var mu sync.Mutex
	var wg sync.WaitGroup
	type bad struct {
		u      string
		got    lib.Resp
		before []string
	}
	var bads []bad
	ch := make(chan int)
	for w := 0; w < 8; w++ {
		wg.Add(1)
		go func() {
			defer wg.Done()
			for i := range ch {
				j := jobs[i]
				r := ls.Get(j.u)
				if j.kind == "" {
					w := want[j.u]
					if r.Status != w.Status || !bytes.Equal(r.Body, w.Body) {
						mu.Lock()
						bads = append(bads, bad{j.u, r, nil})
						mu.Unlock()
					}
				}
			}
		}()
	}
	for i := range jobs {
		ch <- i
	}
	close(ch)
	wg.Wait()
	c.Res.Evaluations += len(jobs)
	c.Count("errseq:concurrent-requests")
	c.Res.Distribution["errseq:concurrent-requests"] += len(jobs) - 1
	for i, b := range bads {
		if i >= 3 {
			break
		}
		w := want[b.u]
		var fails []string
		for _, j := range jobs {
			if j.kind != "" && len(fails) < 12 {
				fails = append(fails, j.u)
			}
		}
		in := c11in{Kind: "errseq", Stream: "errseq-concurrent", PatchURL: b.u, Fails: fails}
		id := *nextID
		*nextID++
		c.Res.Inputs[fmt.Sprint(id)] = in
		c.Fail(fmt.Sprint(id), "history-dependent-answer:concurrent", fmt.Sprintf("while failing patch requests of all kinds are served concurrently the patch request %s is answered %d (%d bytes); an instance that never saw a failing request answers %d (%d bytes)",
			b.u, b.got.Status, len(b.got.Body), w.Status, len(w.Body)), in)
	}
	return nil
}

func replayErrSeq(c *lib.Ctx, in c11in) error {
	ls, err := lib.NewLivesim(lib.TestVodRoot, nil)
	if err != nil {
		return err
	}
	ref, err := lib.NewLivesim(lib.TestVodRoot, nil)
	if err != nil {
		return err
	}
	silenceStderr()
	runtime.LockOSThread()
	if in.PatchURL != "" {
		// a failure of the concurrent pass: replayed sequentially (failing requests, then the patch request)
		for rep := 0; rep < 50; rep++ {
			for _, f := range in.Fails {
				_ = ls.Get(f)
			}
			a, b := ls.Get(in.PatchURL), ref.Get(in.PatchURL)
			if a.Status != b.Status || !bytes.Equal(a.Body, b.Body) {
				c.Fail("replay", "history-dependent-answer:concurrent", fmt.Sprintf("patch request %s answered %d, reference %d", in.PatchURL, a.Status, b.Status), in)
				break
			}
		}
	} else {
		errThenValid(c, ls, ref, "replay", in)
	}
	runtime.UnlockOSThread()
	restoreStderr()
	fmt.Printf("replay C11 (error-then-valid history): %d failing request(s), then %s t1=%d t2=%d %s\n", len(in.Fails), in.URL, in.T1, in.T2, in.PatchURL)
	for _, f := range c.Res.OracleFailures {
		fmt.Printf("  FAIL %s: %s\n", f.Key, f.What)
	}
	return nil
}
