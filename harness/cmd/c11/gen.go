package main

// Generators for the L2 streams of C11: MPD-like trees and their mutations, leaf lists for MyersDiff.

import (
	"fmt"
	"math/rand"
	"strings"
	"time"
)

type node struct {
	Tag   string
	Attrs [][2]string // qualified name, value
	Text  string
	Kids  []*node
}

func (n *node) copyDeep() *node {
	c := &node{Tag: n.Tag, Text: n.Text}
	c.Attrs = append(c.Attrs, n.Attrs...)
	for _, k := range n.Kids {
		c.Kids = append(c.Kids, k.copyDeep())
	}
	return c
}

func xmlEsc(s string) string {
	r := strings.NewReplacer("&", "&amp;", "<", "&lt;", ">", "&gt;", "\"", "&quot;")
	return r.Replace(s)
}

func (n *node) render(sb *strings.Builder, ind string) {
	sb.WriteString(ind + "<" + n.Tag)
	for _, a := range n.Attrs {
		fmt.Fprintf(sb, " %s=\"%s\"", a[0], xmlEsc(a[1]))
	}
	if len(n.Kids) == 0 {
		if n.Text == "" {
			sb.WriteString("/>\n")
		} else {
			sb.WriteString(">" + xmlEsc(n.Text) + "</" + n.Tag + ">\n")
		}
		return
	}
	sb.WriteString(">\n")
	for _, k := range n.Kids {
		k.render(sb, ind+"  ")
	}
	sb.WriteString(ind + "</" + n.Tag + ">\n")
}

func (n *node) xml() string {
	var sb strings.Builder
	sb.WriteString("<?xml version=\"1.0\" encoding=\"UTF-8\"?>\n")
	n.render(&sb, "")
	return sb.String()
}

func (n *node) attr(k string) (string, bool) {
	for _, a := range n.Attrs {
		if a[0] == k {
			return a[1], true
		}
	}
	return "", false
}

func (n *node) setAttr(k, v string) {
	for i, a := range n.Attrs {
		if a[0] == k {
			n.Attrs[i][1] = v
			return
		}
	}
	n.Attrs = append(n.Attrs, [2]string{k, v})
}

func (n *node) delAttr(k string) {
	for i, a := range n.Attrs {
		if a[0] == k {
			n.Attrs = append(n.Attrs[:i:i], n.Attrs[i+1:]...)
			return
		}
	}
}

type treeGen struct {
	rng    *rand.Rand
	nextID int
	// premises that the generated pair may break (findings stream)
	idless  bool // several id-less children with the same tag under one parent, id-less children removed
	reorder bool // id-carrying children may change their order
	stlattr bool // attributes on the SegmentTimeline element itself may change
	descr   bool // several descriptors with the same schemeIdUri under one parent; a kept descriptor may change its schemeIdUri
}

func (g *treeGen) id(p string) string { g.nextID++; return fmt.Sprintf("%s%d", p, g.nextID) }

func (g *treeGen) pick(l ...string) string { return l[g.rng.Intn(len(l))] }

func fmtTime(sec int64) string { return time.Unix(sec, 0).UTC().Format(time.RFC3339) }

func (g *treeGen) sList() []*node {
	var l []*node
	n := g.rng.Intn(7)
	if g.rng.Intn(6) == 0 {
		n = 0
	}
	t := g.rng.Intn(100000)
	for i := 0; i < n; i++ {
		s := &node{Tag: "S"}
		if i == 0 || g.rng.Intn(4) == 0 {
			s.Attrs = append(s.Attrs, [2]string{"t", fmt.Sprint(t)})
		}
		d := g.pick("95232", "96256", "180000")
		s.Attrs = append(s.Attrs, [2]string{"d", d})
		if g.rng.Intn(2) == 0 {
			s.Attrs = append(s.Attrs, [2]string{"r", fmt.Sprint(1 + g.rng.Intn(3))})
		}
		t += 100000
		l = append(l, s)
	}
	return l
}

func (g *treeGen) representation() *node {
	r := &node{Tag: "Representation", Attrs: [][2]string{{"id", g.id("r")}, {"bandwidth", fmt.Sprint(1000 * (1 + g.rng.Intn(9)))}}}
	if g.rng.Intn(2) == 0 {
		r.Kids = append(r.Kids, &node{Tag: "AudioChannelConfiguration", Attrs: [][2]string{{"schemeIdUri", "urn:mpeg:dash:23003:3:audio_channel_configuration:2011"}, {"value", g.pick("1", "2", "6")}}})
	}
	if g.rng.Intn(4) == 0 {
		r.Kids = append(r.Kids, &node{Tag: "SubRepresentation", Attrs: [][2]string{{"id", g.id("sr")}, {"level", "1"}}})
	}
	return r
}

func (g *treeGen) adaptationSet() *node {
	a := &node{Tag: "AdaptationSet", Attrs: [][2]string{{"id", g.id("")}, {"contentType", g.pick("audio", "video")}}}
	if g.rng.Intn(2) == 0 {
		a.Attrs = append(a.Attrs, [2]string{"lang", g.pick("en", "sv", "und")})
	}
	if g.rng.Intn(3) > 0 {
		a.Kids = append(a.Kids, &node{Tag: "Role", Attrs: [][2]string{{"schemeIdUri", "urn:mpeg:dash:role:2011"}, {"value", g.pick("main", "alternate")}}})
	}
	if g.descr {
		for i := g.rng.Intn(3); i > 0; i-- {
			a.Kids = append(a.Kids, &node{Tag: "Role", Attrs: [][2]string{{"schemeIdUri", "urn:mpeg:dash:role:2011"}, {"value", g.pick("caption", "subtitle", "dub", "commentary")}}})
		}
		for i := g.rng.Intn(3); i > 0; i-- {
			a.Kids = append(a.Kids, &node{Tag: "SupplementalProperty", Attrs: [][2]string{{"schemeIdUri", g.pick("urn:x:a", "urn:x:b")}, {"value", g.id("s")}}})
		}
	}
	if g.rng.Intn(5) == 0 {
		a.Kids = append(a.Kids, &node{Tag: "EssentialProperty", Attrs: [][2]string{{"schemeIdUri", "http://dashif.org/guidelines/trickmode"}, {"value", "1"}}})
	}
	st := &node{Tag: "SegmentTemplate", Attrs: [][2]string{{"media", "$RepresentationID$/$Time$.m4s"}, {"timescale", g.pick("48000", "90000")}}}
	if g.rng.Intn(2) == 0 {
		st.Attrs = append(st.Attrs, [2]string{"startNumber", fmt.Sprint(g.rng.Intn(1000))})
	}
	st.Kids = append(st.Kids, &node{Tag: "SegmentTimeline", Kids: g.sList()})
	a.Kids = append(a.Kids, st)
	for i := 1 + g.rng.Intn(2); i > 0; i-- {
		a.Kids = append(a.Kids, g.representation())
	}
	return a
}

func (g *treeGen) baseURLs(max int) []*node {
	var l []*node
	for i := g.rng.Intn(max + 1); i > 0; i-- {
		l = append(l, &node{Tag: "BaseURL", Text: "http://cdn" + fmt.Sprint(g.rng.Intn(9)) + ".example.com/" + g.id("b") + "/"})
	}
	return l
}

func (g *treeGen) period() *node {
	p := &node{Tag: "Period", Attrs: [][2]string{{"id", g.id("P")}, {"start", fmt.Sprintf("PT%dS", g.rng.Intn(600))}}}
	if g.rng.Intn(3) == 0 {
		p.Kids = append(p.Kids, &node{Tag: "AssetIdentifier", Attrs: [][2]string{{"schemeIdUri", "urn:org:example:asset-id"}, {"value", g.id("a")}}})
	}
	maxBU := 1
	if g.idless {
		maxBU = 3
	}
	p.Kids = append(p.Kids, g.baseURLs(maxBU)...)
	for i := 1 + g.rng.Intn(2); i > 0; i-- {
		p.Kids = append(p.Kids, g.adaptationSet())
	}
	return p
}

// mpd generates a document. pt is the publishTime in seconds.
func (g *treeGen) mpd(pt int64, ttl int) *node {
	m := &node{Tag: "MPD", Attrs: [][2]string{{"xmlns", "urn:mpeg:dash:schema:mpd:2011"},
		{"xmlns:xsi", "http://www.w3.org/2001/XMLSchema-instance"},
		{"xsi:schemaLocation", "urn:mpeg:dash:schema:mpd:2011 DASH-MPD.xsd"},
		{"id", "base"}, {"type", "dynamic"}, {"publishTime", fmtTime(pt)}, {"minimumUpdatePeriod", "PT2S"}}}
	if g.rng.Intn(2) == 0 {
		m.Kids = append(m.Kids, &node{Tag: "ProgramInformation", Kids: []*node{{Tag: "Title", Text: "title " + g.id("t")}}})
	}
	m.Kids = append(m.Kids, &node{Tag: "PatchLocation", Attrs: [][2]string{{"ttl", fmt.Sprint(ttl)}}, Text: "/patch/x/Manifest.mpp?publishTime=" + fmt.Sprint(pt)})
	if g.idless {
		m.Kids = append(m.Kids, g.baseURLs(2)...)
	}
	for i := 1 + g.rng.Intn(3); i > 0; i-- {
		m.Kids = append(m.Kids, g.period())
	}
	if g.rng.Intn(2) == 0 {
		m.Kids = append(m.Kids, &node{Tag: "UTCTiming", Attrs: [][2]string{{"schemeIdUri", "urn:mpeg:dash:utc:http-xsdate:2014"}, {"value", "https://time.example.com/?iso"}}})
	}
	return m
}

func hasID(n *node) bool { _, ok := n.attr("id"); return ok }

// mutate changes n in place (n is the copy that becomes the new document).
func (g *treeGen) mutate(n *node, depth int) {
	rng := g.rng
	// attributes (never the id, never namespaced ones, never schemeIdUri: it is part of the address)
	if rng.Intn(3) == 0 && (n.Tag != "SegmentTimeline" || g.stlattr) {
		var cand []string
		for _, a := range n.Attrs {
			if a[0] != "id" && a[0] != "schemeIdUri" && !strings.Contains(a[0], ":") && a[0] != "xmlns" && a[0] != "publishTime" && a[0] != "ttl" {
				cand = append(cand, a[0])
			}
		}
		switch rng.Intn(3) {
		case 0:
			if len(cand) > 0 {
				n.setAttr(cand[rng.Intn(len(cand))], g.id("v"))
			}
		case 1:
			if len(cand) > 0 {
				n.delAttr(cand[rng.Intn(len(cand))])
			}
		case 2:
			n.setAttr(g.pick("aNew", "maxWidth", "zeta", "codecs"), g.id("n"))
		}
	}
	switch n.Tag {
	case "SegmentTimeline":
		if g.stlattr && rng.Intn(2) == 0 {
			// an attribute of the SegmentTimeline element itself appears or changes
			n.setAttr(g.pick("ext", "aNew"), g.id("w"))
		}
		g.mutateS(n)
		return
	}
	if g.descr && n.Tag == "SupplementalProperty" && rng.Intn(4) == 0 {
		n.setAttr("schemeIdUri", g.pick("urn:x:a", "urn:x:b", "urn:x:c"))
	}
	if len(n.Kids) == 0 {
		if n.Text != "" && rng.Intn(3) == 0 {
			n.Text = n.Text + g.id("x")
		}
		return
	}
	// children: remove / insert id-carrying (or otherwise uniquely addressable) children
	var kids []*node
	for _, k := range n.Kids {
		// an id-less child is only ever removed in the findings stream (its removal is addressed
		// by its index among all children)
		removable := (hasID(k) && countTag(n.Kids, k.Tag) > 1) || (g.idless && k.Tag == "BaseURL")
		if removable && rng.Intn(5) == 0 {
			continue // removed
		}
		kids = append(kids, k)
	}
	n.Kids = kids
	if rng.Intn(3) == 0 {
		var fresh *node
		switch n.Tag {
		case "MPD":
			fresh = g.period()
		case "Period":
			fresh = g.adaptationSet()
		case "AdaptationSet":
			fresh = g.representation()
		}
		if fresh != nil {
			// keep the tag grouping of an MPD: insert next to a sibling of the same tag
			idxs := []int{}
			for i, k := range n.Kids {
				if k.Tag == fresh.Tag {
					idxs = append(idxs, i, i+1)
				}
			}
			if len(idxs) > 0 {
				at := idxs[rng.Intn(len(idxs))]
				n.Kids = append(n.Kids[:at:at], append([]*node{fresh}, n.Kids[at:]...)...)
			}
		}
	}
	if rng.Intn(3) == 0 && (n.Tag == "Period" || n.Tag == "MPD") && (g.idless || countTag(n.Kids, "BaseURL") == 0) {
		// add an id-less BaseURL (next to the existing ones in the findings stream)
		at := rng.Intn(len(n.Kids) + 1)
		for i, k := range n.Kids {
			if k.Tag == "BaseURL" {
				at = i + rng.Intn(2)
			}
		}
		b := &node{Tag: "BaseURL", Text: "http://x.example.com/" + g.id("b") + "/"}
		n.Kids = append(n.Kids[:at:at], append([]*node{b}, n.Kids[at:]...)...)
	}
	if g.reorder && rng.Intn(2) == 0 {
		// swap two id-carrying children of the same tag
		var ids []int
		for i, k := range n.Kids {
			if hasID(k) {
				ids = append(ids, i)
			}
		}
		if len(ids) >= 2 {
			a, b := ids[rng.Intn(len(ids))], ids[rng.Intn(len(ids))]
			if n.Kids[a].Tag == n.Kids[b].Tag {
				n.Kids[a], n.Kids[b] = n.Kids[b], n.Kids[a]
			}
		}
	}
	for _, k := range n.Kids {
		if rng.Intn(2) == 0 || depth < 2 {
			g.mutate(k, depth+1)
		}
	}
}

func countTag(l []*node, tag string) int {
	c := 0
	for _, k := range l {
		if k.Tag == tag {
			c++
		}
	}
	return c
}

func (g *treeGen) mutateS(n *node) {
	rng := g.rng
	l := n.Kids
	switch rng.Intn(6) {
	case 0: // nothing
	case 1: // window moves: drop at the start, add at the end
		k := rng.Intn(len(l) + 1)
		l = append([]*node{}, l[k:]...)
		if len(l) > 0 {
			l[0] = l[0].copyDeep()
			l[0].setAttr("t", fmt.Sprint(rng.Intn(1000000)))
		}
		l = append(l, g.sList()...)
	case 2: // repeat count of the last changes
		if len(l) > 0 {
			l[len(l)-1] = l[len(l)-1].copyDeep()
			l[len(l)-1].setAttr("r", fmt.Sprint(4+rng.Intn(9)))
		}
	case 3: // everything new
		l = g.sList()
	case 4: // random deletions and insertions
		var o []*node
		for _, s := range l {
			if rng.Intn(3) == 0 {
				continue
			}
			if rng.Intn(3) == 0 {
				o = append(o, g.sList()...)
			}
			o = append(o, s)
		}
		l = o
	case 5: // grows a lot (few old, many new)
		for i := 0; i < 3; i++ {
			l = append(l, g.sList()...)
		}
	}
	n.Kids = l
}

// ---------------------------------------------------------------- leaf lists for MyersDiff

func randList(rng *rand.Rand, n, alpha int) []int {
	l := make([]int, n)
	for i := range l {
		l[i] = rng.Intn(alpha)
	}
	return l
}

func mutateList(rng *rand.Rand, e []int, alpha int) []int {
	var f []int
	for _, x := range e {
		switch rng.Intn(6) {
		case 0: // delete
		case 1:
			f = append(f, rng.Intn(alpha), x)
		case 2:
			f = append(f, rng.Intn(alpha))
		default:
			f = append(f, x)
		}
	}
	for rng.Intn(3) == 0 {
		f = append(f, rng.Intn(alpha))
	}
	return f
}
