// C11: applying a served MPD patch to the old MPD yields the new MPD.
//
// L1: in-process livesim2 server: MPD at t1, the patch its PatchLocation advertises requested at t2,
//     MPD at t2; the harness applies the patch with its own applier (xml.go) and compares canonically.
// L2: patch.MyersDiff on generated lists, patch.MPDDiff on generated id-carrying MPD-like trees.
// Every case is also handed to the Coq model (theories/Patch.v) through cases_C11_*.v.
package main

import (
	"bytes"
	"errors"
	"fmt"
	"math/rand"
	"net/http"
	"net/url"
	"os"
	"os/exec"
	"path/filepath"
	"runtime"
	"strings"
	"syscall"
	"time"

	"github.com/Dash-Industry-Forum/livesim2/pkg/patch"
	"github.com/beevik/etree"
	"verifharness/lib"
)

func main() { lib.Main("C11", runC11) }

type c11in struct {
	Kind   string `json:"kind"`             // l1 | myers | tree
	Stream string `json:"stream,omitempty"` // which premise the generator may break: unique | idless | reorder | errors | grow
	// errseq: failing patch requests, then a valid one
	Fails    []string `json:"failing_requests,omitempty"`
	PatchURL string   `json:"patch_request,omitempty"`
	// l1seq: a request history on one long-lived server
	Times []int64 `json:"times_ms,omitempty"`
	Gen   bool    `json:"generated_asset,omitempty"` // the asset is one of the generated layouts (same seed)
	// l1
	URL string `json:"url,omitempty"` // MPD URL path without query
	T1  int64  `json:"t1_ms,omitempty"`
	T2  int64  `json:"t2_ms,omitempty"`
	// myers
	Shape string `json:"shape,omitempty"` // lopsided: one list is more than three times longer than the other (+5)
	E     []int  `json:"e,omitempty"`
	F []int `json:"f,omitempty"`
	// tree
	Old string `json:"old,omitempty"`
	New string `json:"new,omitempty"`
}

// treeObs is what was observed for a pair of documents.
type treeObs struct {
	Status  int // 200 425 410 500 599(panic)
	Err     string
	Patch   *patchDoc
	Exp     int64 // seconds, -1 unknown
	Applied bool  // own applier: old + ops == new
	Served  bool  // observed through the /patch handler
	AppErr  string
	OldDoc  *etree.Document
	NewDoc  *etree.Document
}

func panicClass(r any) string {
	s := fmt.Sprint(r)
	// "runtime error: index out of range [-1]" -> keep kind, drop the numbers
	if i := strings.Index(s, "["); i > 0 && strings.HasPrefix(s, "runtime error: index out of range") {
		s = strings.TrimSpace(s[:i])
	}
	// innermost livesim2 function
	pcs := make([]uintptr, 64)
	n := runtime.Callers(3, pcs)
	frames := runtime.CallersFrames(pcs[:n])
	site := "?"
	for {
		fr, more := frames.Next()
		if strings.Contains(fr.Function, "Dash-Industry-Forum/livesim2") {
			site = fr.Function[strings.LastIndex(fr.Function, "/")+1:]
			break
		}
		if !more {
			break
		}
	}
	return site + ":" + s
}

func parseDoc(b []byte) (*etree.Document, error) {
	d := etree.NewDocument()
	if err := d.ReadFromBytes(b); err != nil {
		return nil, err
	}
	if d.Root() == nil {
		return nil, fmt.Errorf("no root element")
	}
	stripWS(d.Root())
	return d, nil
}

// idlessRemove: the patch removes an element addressed by position outside a SegmentTimeline
// (patch.go takes the index among all children of the parent for it).
func idlessRemove(ops []patchOp) bool {
	for _, op := range ops {
		n := len(op.Steps)
		if op.Kind == "remove" && op.Attr == "" && op.Steps[n-1].Kind == 2 && (n < 2 || op.Steps[n-2].Tag != "SegmentTimeline") {
			return true
		}
	}
	return false
}

func stepsKey(st []selStep) string {
	var sb strings.Builder
	for _, s := range st {
		fmt.Fprintf(&sb, "/%s[%d:%s=%s:%d]", s.Tag, s.Kind, s.Name, s.Val, s.Idx)
	}
	return sb.String()
}

// movedElement: an element addressed by id (or schemeIdUri) is removed and an element with the same
// address is added under the same parent: the two coexist while the patch is applied.
func movedElement(ops []patchOp) bool {
	removed := map[string]bool{}
	for _, op := range ops {
		n := len(op.Steps)
		if op.Kind == "remove" && op.Attr == "" && op.Steps[n-1].Kind == 1 {
			removed[stepsKey(op.Steps)] = true
		}
	}
	for _, op := range ops {
		if op.Kind != "add" || op.Attr != "" || op.Payload == nil {
			continue
		}
		parent := op.Steps
		if op.Pos == "after" {
			parent = op.Steps[:len(op.Steps)-1]
		}
		for _, name := range []string{"id", "schemeIdUri"} {
			if v := op.Payload.SelectAttrValue(name, ""); v != "" {
				k := stepsKey(parent) + stepsKey([]selStep{{Tag: op.Payload.Tag, Kind: 1, Name: name, Val: v}})
				if removed[k] {
					return true
				}
				break
			}
		}
	}
	return false
}

// matchKids pairs the children of two elements by (tag, id), first match first.
func matchKids(a, b *etree.Element, f func(x, y *etree.Element)) {
	used := map[*etree.Element]bool{}
	for _, x := range a.ChildElements() {
		for _, y := range b.ChildElements() {
			if !used[y] && x.Tag == y.Tag && x.SelectAttrValue("id", "") == y.SelectAttrValue("id", "") {
				used[y] = true
				f(x, y)
				break
			}
		}
	}
}

// stlAttrChanged: a SegmentTimeline element of old and its counterpart in new differ in attributes.
func stlAttrChanged(a, b *etree.Element) bool {
	if a.Tag == "SegmentTimeline" && b.Tag == "SegmentTimeline" {
		x, y := a.Copy(), b.Copy()
		x.Child, y.Child = nil, nil
		return canonical(x) != canonical(y)
	}
	r := false
	matchKids(a, b, func(x, y *etree.Element) { r = r || stlAttrChanged(x, y) })
	return r
}

func lopsided(n, m int) bool { return n > 0 && m > 0 && (m >= 3*n+5 || n >= 3*m+5) }

// lopsidedLists: some element of old and its counterpart in new have child lists of which one is
// more than three times longer than the other (where MyersDiff leaves its index window).
func lopsidedLists(a, b *etree.Element) bool {
	if lopsided(len(a.ChildElements()), len(b.ChildElements())) {
		return true
	}
	r := false
	matchKids(a, b, func(x, y *etree.Element) { r = r || lopsidedLists(x, y) })
	return r
}

// ambiguousAddr: two children of one element of new (or old) get the same address from calcAddr's
// attribute forms (same tag and same id, or no id and same schemeIdUri).
func ambiguousAddr(e *etree.Element) bool {
	seen := map[string]bool{}
	for _, c := range e.ChildElements() {
		k := ""
		if v := c.SelectAttrValue("id", ""); v != "" {
			k = c.Tag + "#id=" + v
		} else if v := c.SelectAttrValue("schemeIdUri", ""); v != "" {
			k = c.Tag + "#scheme=" + v
		}
		if k != "" {
			if seen[k] {
				return true
			}
			seen[k] = true
		}
		if ambiguousAddr(c) {
			return true
		}
	}
	return false
}

// schemeChanged: a kept id-less element changes its schemeIdUri (its address changes under the patch).
func schemeChanged(a, b *etree.Element) bool {
	r := false
	used := map[*etree.Element]bool{}
	for _, x := range a.ChildElements() {
		for _, y := range b.ChildElements() {
			if !used[y] && x.Tag == y.Tag && x.SelectAttrValue("id", "") == y.SelectAttrValue("id", "") {
				used[y] = true
				if x.SelectAttrValue("id", "") == "" && x.SelectAttrValue("schemeIdUri", "") != y.SelectAttrValue("schemeIdUri", "") {
					r = true
				}
				r = r || schemeChanged(x, y)
				break
			}
		}
	}
	return r
}

// applyKey classifies a failed application: apply:<cause>:<class>. The cause is read off the patch
// and the two documents (not off the generator that produced them); "none" = no known cause.
func applyKey(old, new *etree.Document, ops []patchOp, why string) string {
	cause := "none"
	cls := strings.SplitN(why, " ", 2)[0]
	// the operation that could not be applied, when there is one
	failing := -1
	if i := strings.Index(why, "(operation "); i >= 0 {
		fmt.Sscanf(why[i:], "(operation %d:", &failing)
	}
	positionalRemove := func(op patchOp) bool {
		n := len(op.Steps)
		return op.Kind == "remove" && op.Attr == "" && op.Steps[n-1].Kind == 2 && (n < 2 || op.Steps[n-2].Tag != "SegmentTimeline")
	}
	switch {
	case (cls == "ambiguous" || cls == "no-match") && failing >= 0 && failing < len(ops) && !positionalRemove(ops[failing]) && movedElement(ops):
		// an operation with an attribute-form selector fails while an element with the same address is both added and removed
		cause = "moved-element"
	case idlessRemove(ops):
		cause = "idless-remove"
	case movedElement(ops):
		cause = "moved-element"
	case stlAttrChanged(old.Root(), new.Root()):
		cause = "segmenttimeline-attr"
	case ambiguousAddr(old.Root()) || ambiguousAddr(new.Root()):
		cause = "ambiguous-address"
	case schemeChanged(old.Root(), new.Root()):
		cause = "schemeIdUri-changed"
	}
	return "apply:" + cause + ":" + strings.SplitN(why, " ", 2)[0]
}

// expandS lists the (start, duration) pairs of the S children of a SegmentTimeline.
func expandS(stl *etree.Element) ([][2]int64, bool) {
	var out [][2]int64
	var next int64
	for _, s := range stl.ChildElements() {
		if s.Tag != "S" {
			return nil, false
		}
		var t, d, r int64
		t = next
		if v := s.SelectAttrValue("t", ""); v != "" {
			if _, err := fmt.Sscan(v, &t); err != nil {
				return nil, false
			}
		}
		if _, err := fmt.Sscan(s.SelectAttrValue("d", ""), &d); err != nil {
			return nil, false
		}
		if v := s.SelectAttrValue("r", ""); v != "" {
			if _, err := fmt.Sscan(v, &r); err != nil || r < 0 {
				return nil, false
			}
		}
		for k := int64(0); k <= r; k++ {
			out = append(out, [2]int64{t, d})
			t += d
		}
		next = t
	}
	return out, true
}

func collectTag(e *etree.Element, tag string, out *[]*etree.Element) {
	if e.Tag == tag {
		*out = append(*out, e)
	}
	for _, c := range e.ChildElements() {
		collectTag(c, tag, out)
	}
}

// windowStartOnly: b differs from a solely by segments missing at the beginning of the
// SegmentTimelines (and the startNumber that goes with it).
func windowStartOnly(a, b *etree.Element) bool {
	x, y := a.Copy(), b.Copy()
	// whole Periods may have left the window at the old end
	var py []*etree.Element
	for _, p := range y.ChildElements() {
		if p.Tag == "Period" {
			py = append(py, p)
		}
	}
	if len(py) > 0 {
		first := py[0].SelectAttrValue("id", "")
		for _, p := range x.ChildElements() {
			if p.Tag != "Period" {
				continue
			}
			if p.SelectAttrValue("id", "") == first {
				break
			}
			x.RemoveChild(p)
		}
	}
	var sa, sb []*etree.Element
	collectTag(x, "SegmentTimeline", &sa)
	collectTag(y, "SegmentTimeline", &sb)
	if len(sa) != len(sb) {
		return false
	}
	for i := range sa {
		la, ok1 := expandS(sa[i])
		lb, ok2 := expandS(sb[i])
		if !ok1 || !ok2 || len(lb) > len(la) {
			return false
		}
		off := len(la) - len(lb)
		for k := range lb {
			if la[off+k] != lb[k] {
				return false
			}
		}
		sa[i].Child, sb[i].Child = nil, nil
	}
	var ta, tb []*etree.Element
	collectTag(x, "SegmentTemplate", &ta)
	collectTag(y, "SegmentTemplate", &tb)
	for _, t := range append(ta, tb...) {
		t.RemoveAttr("startNumber")
	}
	return canonical(x) == canonical(y)
}

// timelineEndMoved: some SegmentTimeline of b ends later than its counterpart in a.
func timelineEndMoved(a, b *etree.Element) bool {
	var sa, sb []*etree.Element
	collectTag(a, "SegmentTimeline", &sa)
	collectTag(b, "SegmentTimeline", &sb)
	if len(sa) != len(sb) {
		return false
	}
	for i := range sa {
		la, ok1 := expandS(sa[i])
		lb, ok2 := expandS(sb[i])
		if !ok1 || !ok2 || len(la) == 0 || len(lb) == 0 {
			continue
		}
		ea, eb := la[len(la)-1], lb[len(lb)-1]
		if eb[0]+eb[1] > ea[0]+ea[1] {
			return true
		}
	}
	return false
}

// dropTimeSubs returns a copy without the AdaptationSets that livesim2 generates for timesubs* (ids from 100).
func dropTimeSubs(root *etree.Element) *etree.Element {
	c := root.Copy()
	var as []*etree.Element
	collectTag(c, "AdaptationSet", &as)
	for _, a := range as {
		var id int
		if _, err := fmt.Sscan(a.SelectAttrValue("id", ""), &id); err == nil && id >= 100 && a.SelectAttrValue("contentType", "") == "text" {
			if p := a.Parent(); p != nil {
				p.RemoveChild(a)
			}
		}
	}
	return c
}

// periodListChange: "[+end]" a Period was appended, "[-start]" the first Period(s) left, or both; "[other]" otherwise.
func periodListChange(a, b *etree.Element) string {
	pa, pb := strings.Split(periodIDs(a), ","), strings.Split(periodIDs(b), ",")
	// longest suffix of pa that is a prefix of pb
	for drop := 0; drop <= len(pa); drop++ {
		rest := pa[drop:]
		if len(rest) <= len(pb) && strings.Join(rest, ",") == strings.Join(pb[:len(rest)], ",") && len(rest) > 0 {
			var l []string
			if len(pb) > len(rest) {
				l = append(l, "+end")
			}
			if drop > 0 {
				l = append(l, "-start")
			}
			return "[" + strings.Join(l, ",") + "]"
		}
	}
	return "[other]"
}

func periodIDs(root *etree.Element) string {
	var ids []string
	for _, p := range root.ChildElements() {
		if p.Tag == "Period" {
			ids = append(ids, p.SelectAttrValue("id", ""))
		}
	}
	return strings.Join(ids, ",")
}

func panicKey(cls string, old, new *etree.Document) string {
	if old != nil && new != nil && lopsidedLists(old.Root(), new.Root()) {
		return "panic:" + cls + ":lopsided-lists"
	}
	return "panic:" + cls
}

// applyAndCompare applies ops to a copy of old and compares with new.
func applyAndCompare(old, new *etree.Document, ops []patchOp) (bool, string) {
	c := old.Copy()
	if err := applyPatch(c, ops); err != nil {
		return false, err.Error()
	}
	a, b := canonical(c.Root()), canonical(new.Root())
	if a != b {
		return false, "differs " + firstDiff(a, b)
	}
	return true, ""
}

// diffDirect runs patch.MPDDiff on two documents.
func diffDirect(oldXML, newXML []byte) (o treeObs) {
	o.Exp = -1
	var err error
	o.OldDoc, err = parseDoc(oldXML)
	if err != nil {
		o.Status, o.Err = 500, "harness cannot parse old: "+err.Error()
		return
	}
	o.NewDoc, err = parseDoc(newXML)
	if err != nil {
		o.Status, o.Err = 500, "harness cannot parse new: "+err.Error()
		return
	}
	var doc *etree.Document
	var exp time.Time
	func() {
		defer func() {
			if r := recover(); r != nil {
				o.Status, o.Err = 599, panicClass(r)
			}
		}()
		doc, exp, err = patch.MPDDiff(oldXML, newXML)
	}()
	if o.Status == 599 {
		return
	}
	switch {
	case errors.Is(err, patch.ErrPatchSamePublishTime):
		o.Status, o.Err = 425, err.Error()
	case errors.Is(err, patch.ErrPatchTooLate):
		o.Status, o.Err = 410, err.Error()
	case errors.Is(err, patch.ErrPatchNoTTL):
		o.Status, o.Err = 400, err.Error()
	case err != nil:
		o.Status, o.Err = 500, err.Error()
	default:
		o.Status = 200
		o.Exp = exp.Unix()
		doc.Indent(2)
		b, _ := doc.WriteToBytes()
		o.Patch, err = parsePatch(b)
		if err != nil {
			o.Status, o.Err = 500, "harness cannot parse the patch: "+err.Error()
			return
		}
		o.Applied, o.AppErr = applyAndCompare(o.OldDoc, o.NewDoc, o.Patch.Ops)
	}
	return
}

func representable(d *etree.Document) bool {
	ok := true
	var walk func(e *etree.Element)
	walk = func(e *etree.Element) {
		if e.Space != "" {
			ok = false
		}
		for _, c := range e.ChildElements() {
			walk(c)
		}
	}
	walk(d.Root())
	return ok
}

func treeTerm(id int, o treeObs) string {
	mpdID, orig, nw, ops := `""`, `""`, `""`, "[]"
	if o.Patch != nil {
		mpdID, orig, nw = cs(o.Patch.MpdID), cs(o.Patch.Orig), cs(o.Patch.New)
		ops = coqOps(o.Patch.Ops)
	}
	return fmt.Sprintf("CTree %d\n  %s\n  %s\n  (mkTO %d %s %s %s\n   %s\n   %s %s %s)", id, coqElem(o.OldDoc.Root()), coqElem(o.NewDoc.Root()),
		o.Status, mpdID, orig, nw, ops, lib.Zs(o.Exp), lib.Cbool(o.Applied), lib.Cbool(o.Served))
}

// ---------------------------------------------------------------- Myers

type myersObs struct {
	Panic string
	Ops   []patch.Op
	Valid bool
	Why   string
}

func mkLeafs(l []int) []*etree.Element {
	var out []*etree.Element
	for _, v := range l {
		x := etree.NewElement("S")
		x.CreateAttr("d", fmt.Sprint(v))
		out = append(out, x)
	}
	return out
}

func runMyers(e, f []int) (o myersObs) {
	ee, ff := mkLeafs(e), mkLeafs(f)
	eq := func(a, b *etree.Element) bool { return a.SelectAttrValue("d", "") == b.SelectAttrValue("d", "") }
	func() {
		defer func() {
			if r := recover(); r != nil {
				o.Panic = panicClass(r)
			}
		}()
		o.Ops = patch.MyersDiff(ee, ff, eq)
	}()
	if o.Panic != "" {
		return
	}
	// the definition of "the script transforms e into f", evaluated directly
	var out []int
	oi := 0
	o.Valid = true
	for k, d := range o.Ops {
		if d.OldPos < oi || d.OldPos > len(e) {
			o.Valid, o.Why = false, fmt.Sprintf("op %d: OldPos %d out of order/range", k, d.OldPos)
			return
		}
		out = append(out, e[oi:d.OldPos]...)
		oi = d.OldPos
		switch d.OpType {
		case patch.OpDelete:
			if d.OldPos >= len(e) || d.Elem != ee[d.OldPos] {
				o.Valid, o.Why = false, fmt.Sprintf("op %d: delete does not carry e[%d]", k, d.OldPos)
				return
			}
			oi++
		case patch.OpInsert:
			if d.NewPos != len(out) || d.NewPos >= len(f) || d.Elem != ff[d.NewPos] {
				o.Valid, o.Why = false, fmt.Sprintf("op %d: insert NewPos %d but %d elements produced", k, d.NewPos, len(out))
				return
			}
			out = append(out, f[d.NewPos])
		default:
			o.Valid, o.Why = false, "unknown OpType"
			return
		}
	}
	out = append(out, e[oi:]...)
	if len(out) != len(f) {
		o.Valid, o.Why = false, fmt.Sprintf("result has %d elements, f has %d", len(out), len(f))
		return
	}
	for i := range out {
		if out[i] != f[i] {
			o.Valid, o.Why = false, fmt.Sprintf("result differs from f at %d", i)
			return
		}
	}
	return
}

func myersTerm(id int, in c11in, o myersObs) string {
	obs := "None"
	if o.Panic == "" {
		var l []string
		for _, d := range o.Ops {
			l = append(l, fmt.Sprintf("(%d,%s,%s)", int(d.OpType), lib.Zs(int64(d.OldPos)), lib.Zs(int64(d.NewPos))))
		}
		obs = "(Some [" + strings.Join(l, ";") + "])"
	}
	return fmt.Sprintf("CMyers %d %s %s %s", id, lib.ZlistInt(in.E), lib.ZlistInt(in.F), obs)
}

// ---------------------------------------------------------------- L1

type l1obs struct {
	Skip     string
	Status   int
	PT1, PT2 string
	TTL      int
	Tree     treeObs // observation in the form of a tree case: old = regenerated MPD(pt1+1ms), new = MPD(t2)
	HasTree  bool
}

var stderrSaved = -1

// silenceStderr redirects fd 2 (the router's Recoverer prints stack traces there).
func silenceStderr() {
	devnull, err := os.OpenFile(os.DevNull, os.O_WRONLY, 0)
	if err != nil {
		return
	}
	saved, err := syscall.Dup(2)
	if err != nil {
		return
	}
	if err := syscall.Dup3(int(devnull.Fd()), 2, 0); err == nil {
		stderrSaved = saved
	}
}

func restoreStderr() {
	if stderrSaved >= 0 {
		_ = syscall.Dup3(stderrSaved, 2, 0)
		stderrSaved = -1
	}
}

func getMPD(ls *lib.Livesim, u string, nowMS int64) (*etree.Document, []byte, int) {
	r := ls.Get(fmt.Sprintf("%s?nowMS=%d", u, nowMS))
	if r.Status != 200 {
		return nil, nil, r.Status
	}
	d, err := parseDoc(r.Body)
	if err != nil {
		return nil, nil, -1
	}
	return d, r.Body, 200
}

const marginS = 10 // patch.PatchExpirationMargin, as documented in the code

// runL1 performs one (t1,t2) experiment and evaluates the property text on it.
func runL1(c *lib.Ctx, ls *lib.Livesim, id string, in c11in) (o l1obs) {
	return runL1x(c, ls, id, in, in)
}

// formCalls counts the patch requests; in the quick tier every fourth one is repeated in all query forms.
var formCalls int

// runL1x: as runL1; failures are reported with failIn as replay input (the request history the pair belongs to).
func runL1x(c *lib.Ctx, ls *lib.Livesim, id string, in c11in, failIn any) (o l1obs) {
	fail := func(key, what string) {
		if _, isSeq := failIn.(c11in); isSeq && failIn.(c11in).Kind == "l1seq" {
			what = fmt.Sprintf("[t1=%d t2=%d] %s", in.T1, in.T2, what)
		}
		c.Fail(id, key, what, failIn)
	}
	d1, _, st := getMPD(ls, in.URL, in.T1)
	if d1 == nil {
		o.Skip = fmt.Sprintf("no MPD at t1 (status %d)", st)
		return
	}
	pl := d1.Root().SelectElement("PatchLocation")
	if pl == nil {
		o.Skip = "MPD of t1 has no PatchLocation"
		return
	}
	fmt.Sscan(pl.SelectAttrValue("ttl", ""), &o.TTL)
	o.PT1 = d1.Root().SelectAttrValue("publishTime", "")
	loc := strings.TrimSpace(pl.Text())
	d2, b2, st2 := getMPD(ls, in.URL, in.T2)
	if d2 == nil {
		o.Skip = fmt.Sprintf("no MPD at t2 (status %d)", st2)
		return
	}
	o.PT2 = d2.Root().SelectAttrValue("publishTime", "")
	rp := ls.Get(fmt.Sprintf("%s&nowMS=%d", loc, in.T2))
	o.Status = rp.Status
	// the same request in other legitimate forms of the query (parameter order, encoding by net/url, nowDate,
	// unknown extra parameters): the answer must be the same patch
	formCalls++
	if lu, err := url.Parse(loc); err == nil && (formCalls%4 == 1 || c.Thorough() || c.Replay != "") {
		ptv := lu.Query().Get("publishTime")
		esc := url.QueryEscape(ptv)
		now := fmt.Sprintf("nowMS=%d", in.T2)
		nowDate := "nowDate=" + url.QueryEscape(time.UnixMilli(in.T2-1).UTC().Format("2006-01-02T15:04:05.000Z"))
		enc := url.Values{"publishTime": {ptv}, "nowMS": {fmt.Sprint(in.T2)}}.Encode() // keys sorted: nowMS first
		forms := [][2]string{
			{"clock-first", now + "&publishTime=" + esc},
			{"values-encode", enc},
			{"nowDate-after", "publishTime=" + esc + "&" + nowDate},
			{"nowDate-first", nowDate + "&publishTime=" + esc},
			{"extra-first", "verifx=1&publishTime=" + esc + "&" + now},
			{"extra-middle", "publishTime=" + esc + "&verifx=1&" + now},
			{"extra-last", now + "&publishTime=" + esc + "&verifx=1"},
		}
		for _, f := range forms {
			r2 := ls.Get(lu.Path + "?" + f[1])
			if r2.Status != rp.Status || !bytes.Equal(r2.Body, rp.Body) {
				fail("query-form-differs:"+f[0], fmt.Sprintf("the patch request with query %q is answered %d (%d bytes), with %q it is answered %d (%d bytes)",
					lu.RawQuery+"&"+now, rp.Status, len(rp.Body), f[1], r2.Status, len(r2.Body)))
			}
		}
	}
	pt1, e1 := time.Parse(time.RFC3339, o.PT1)
	pt2, e2 := time.Parse(time.RFC3339, o.PT2)
	if e1 != nil || e2 != nil {
		fail("publishTime-unparsable", fmt.Sprintf("publishTime %q / %q", o.PT1, o.PT2))
		return
	}
	// the old document as the handler regenerates it (publishTime + 1 ms)
	q, _ := url.Parse(loc)
	ptq := q.Query().Get("publishTime")
	if ptq != o.PT1 {
		fail("patchlocation-publishTime", fmt.Sprintf("PatchLocation carries publishTime %q, the MPD has %q", ptq, o.PT1))
	}
	// the old document exactly as the handler obtains it: the MPD request with the publishTime query
	var dOld *etree.Document
	var bOld []byte
	if rr := ls.Get(in.URL + "?publishTime=" + url.QueryEscape(ptq)); rr.Status == 200 {
		if d, err := parseDoc(rr.Body); err == nil {
			dOld, bOld = d, rr.Body
		}
	}
	same := canonical(d1.Root()) == canonical(d2.Root())
	dPT := pt2.Sub(pt1)
	ttl := time.Duration(o.TTL) * time.Second
	// The handler does not keep the MPD it served at t1: it regenerates it for publishTime + 1 ms.
	// When that is a different document every consequence is reported under regen-base:<symptom>.
	regen := ""
	regenWhy := ""
	if dOld != nil && canonical(dOld.Root()) != canonical(d1.Root()) {
		regen = "regen-base[publishTime-moved]:"
		if dOld.Root().SelectAttrValue("publishTime", "") == o.PT1 {
			// two different MPDs with one publishTime: the MPD changed between publishTime and t1 without a new publishTime
			regen = "regen-base[same-publishTime,other]:"
			if windowStartOnly(dOld.Root(), d1.Root()) {
				// ... and the two differ solely at the old end of the timelines (the time-shift window moved on)
				regen = "regen-base[same-publishTime,window-start-only]:"
			}
		}
		regenWhy = "; the MPD regenerated for publishTime+1ms differs from the MPD served at t1: " + firstDiff(canonical(dOld.Root()), canonical(d1.Root()))
	}
	switch rp.Status {
	case http.StatusOK:
		if same {
			fail(regen+"nochange-not-425", "MPD(t1) and MPD(t2) are equal but the patch request answered 200"+regenWhy)
		}
		if dPT > ttl+marginS*time.Second {
			fail(regen+"late-not-410", fmt.Sprintf("publishTime moved %v > ttl %v + margin but the answer is 200", dPT, ttl)+regenWhy)
		}
		p, err := parsePatch(rp.Body)
		if err != nil {
			fail("patch-unparsable", err.Error())
			return
		}
		if p.Orig != o.PT1 {
			fail(regen+"originalPublishTime", fmt.Sprintf("originalPublishTime %q, publishTime of the MPD of t1 %q", p.Orig, o.PT1)+regenWhy)
		}
		if p.New != o.PT2 {
			fail("patch-publishTime", fmt.Sprintf("patch publishTime %q, MPD of t2 has %q", p.New, o.PT2))
		}
		if p.MpdID != d1.Root().SelectAttrValue("id", "") {
			fail("mpdId", fmt.Sprintf("mpdId %q", p.MpdID))
		}
		if ex, err := http.ParseTime(rp.Header.Get("Expires")); err != nil {
			fail("expires-header", fmt.Sprintf("Expires header %q", rp.Header.Get("Expires")))
		} else if po, err := time.Parse(time.RFC3339, p.Orig); err == nil && ex.Unix() != po.Add(ttl+marginS*time.Second).Unix() {
			fail("expires-header", fmt.Sprintf("Expires %v, originalPublishTime %v + ttl %v + margin expected", ex.UTC(), po.UTC(), ttl))
		}
		ok, why := applyAndCompare(d1, d2, p.Ops)
		if !ok {
			key := applyKey(d1, d2, p.Ops, why)
			if regen != "" {
				key = regen + "apply"
			}
			fail(key, "patch applied to MPD(t1) does not give MPD(t2): "+why+regenWhy)
		}
		if dOld != nil {
			o.Tree = treeObs{Status: 200, Patch: p, Exp: -1, OldDoc: dOld, NewDoc: d2, Served: true}
			if ex, err := http.ParseTime(rp.Header.Get("Expires")); err == nil {
				o.Tree.Exp = ex.Unix()
			}
			o.Tree.Applied, o.Tree.AppErr = applyAndCompare(dOld, d2, p.Ops)
			o.HasTree = true
		}
	case http.StatusTooEarly:
		if !same {
			key := "425-but-changed:publishTime-differs"
			if o.PT1 == o.PT2 {
				// the two MPDs differ but carry the same publishTime: nothing the patch code can see
				key = "425-but-changed:same-publishTime:other"
				if d1.Root().SelectAttrValue("type", "") == "dynamic" && d2.Root().SelectAttrValue("type", "") == "static" {
					// the stream stopped between t1 and t2: the MPD became static without a new publishTime
					key = "425-but-changed:same-publishTime:became-static"
				} else if timelineEndMoved(d1.Root(), d2.Root()) {
					// segments were added at the new end of a timeline while publishTime stayed
					key = "425-but-changed:same-publishTime:timeline-end"
				}
				if !strings.HasSuffix(key, ":became-static") && periodIDs(d1.Root()) != periodIDs(d2.Root()) {
					// a Period was added or left the window while publishTime stayed
					key = "425-but-changed:same-publishTime:period-list" + periodListChange(d1.Root(), d2.Root())
				}
				if key == "425-but-changed:same-publishTime:other" && windowStartOnly(dropTimeSubs(d1.Root()), dropTimeSubs(d2.Root())) {
					// apart from the generated time-subtitle AdaptationSets (ids 100..) only the old end moved:
					// the S@t values of the generated subtitle timeline are not the same in the two MPDs
					key = "425-but-changed:same-publishTime:timesubs-timeline"
				}
				if windowStartOnly(d1.Root(), d2.Root()) {
					// they differ solely at the old end of the timelines (segments left the time-shift window)
					key = "425-but-changed:same-publishTime:window-start-only"
				}
			}
			fail(regen+key, fmt.Sprintf("answer 425 but MPD(t2) differs from MPD(t1): %s", firstDiff(canonical(d1.Root()), canonical(d2.Root())))+regenWhy)
		}
		if dOld != nil {
			o.Tree = treeObs{Status: 425, Exp: -1, OldDoc: dOld, NewDoc: d2, Served: true}
			o.HasTree = true
		}
	case http.StatusGone:
		if dPT <= ttl {
			fail(regen+"410-within-ttl", fmt.Sprintf("answer 410 but publishTime moved only %v (ttl %v)", dPT, ttl)+regenWhy)
		}
		if dOld != nil {
			o.Tree = treeObs{Status: 410, Exp: -1, OldDoc: dOld, NewDoc: d2, Served: true}
			o.HasTree = true
		}
	default:
		// classify by running MPDDiff directly on what the handler compares
		key := fmt.Sprintf("status-%d", rp.Status)
		what := strings.TrimSpace(string(rp.Body))
		if dOld != nil {
			d := diffDirect(bOld, b2)
			switch d.Status {
			case 599:
				key = panicKey(d.Err, dOld, d2)
			case 500:
				key = "error-500:" + d.Err
				if i := strings.LastIndex(d.Err, ": "); i >= 0 {
					key = "error-500:" + d.Err[i+2:]
				}
				what = d.Err
			case 400:
				key = "error-400:no-patchlocation-ttl"
				what = d.Err
			}
			o.Tree = treeObs{Status: d.Status, Exp: -1, OldDoc: dOld, NewDoc: d2, Served: true}
			o.HasTree = d.Status == 599 || d.Status == 500 || d.Status == 400
		}
		if in.T2-in.T1 <= int64(o.TTL)*1000 || dPT <= ttl {
			fail(key, fmt.Sprintf("patch request within the ttl answered %d: %s", rp.Status, what))
		} else {
			fail(key, fmt.Sprintf("patch request answered %d: %s", rp.Status, what))
		}
	}
	return
}

// ---------------------------------------------------------------- run

func runC11(c *lib.Ctx) error {
	if c.Replay != "" {
		return replayC11(c)
	}
	rng := rand.New(rand.NewSource(c.Seed))
	var myersTerms []string
	var treeTerms []func() string // printed per case file (strings are interned per file)
	nextID := 0
	distinct := map[string]bool{}

	// ---------- L1
	ls, err := lib.NewLivesim(lib.TestVodRoot, nil)
	if err != nil {
		return err
	}
	wave := "WAVE/vectors/cfhd_sets/14.985_29.97_59.94/t1/2022-10-17/stream.mpd"
	type l1cfg struct {
		opts, asset string
		segMS       int64
	}
	var cfgs []l1cfg
	for _, a := range []struct {
		asset string
		seg   int64
	}{{"testpic_2s/Manifest.mpd", 2000}, {"testpic_8s/Manifest.mpd", 8000}, {wave, 2002}} {
		for _, ty := range []string{"segtimeline_1", "segtimelinenr_1"} {
			for _, ttl := range []int{10, 30, 60} {
				cfgs = append(cfgs, l1cfg{fmt.Sprintf("patch_%d/%s", ttl, ty), a.asset, a.seg})
			}
		}
	}
	cfgs = append(cfgs,
		l1cfg{"patch_60/segtimeline_1/periods_60", "testpic_2s/Manifest.mpd", 2000},
		l1cfg{"patch_120/segtimelinenr_1/periods_60", "testpic_2s/Manifest.mpd", 2000},
		l1cfg{"patch_30/segtimeline_1/tsbd_20", "testpic_2s/Manifest.mpd", 2000},
		l1cfg{"patch_30/segtimeline_1/tsbd_25", "testpic_8s/Manifest.mpd", 8000},
		l1cfg{"patch_300/segtimeline_1", "testpic_2s/Manifest.mpd", 2000},
		l1cfg{"patch_60/segtimeline_1/stop_1000", "testpic_2s/Manifest.mpd", 2000},
	)
	perCfg := 14
	l1Model := 6 // tree cases per configuration handed to the model
	if c.Thorough() {
		perCfg, l1Model = 80, 20
	}
	silenceStderr()
	for _, cf := range cfgs {
		u := "/livesim2/" + cf.opts + "/" + cf.asset
		var ttl int
		fmt.Sscanf(cf.opts, "patch_%d", &ttl)
		ttlMS := int64(ttl) * 1000
		modelLeft := l1Model
		for k := 0; k < perCfg; k++ {
			var t1 int64
			switch k % 7 {
			case 0: // shortly after the start of the stream: few segments in the old MPD
				t1 = cf.segMS + rng.Int63n(3*cf.segMS)
			case 1: // near a whole minute / period boundary
				t1 = 60000*(1+rng.Int63n(200)) - rng.Int63n(2*cf.segMS)
			case 2: // the present
				t1 = 1700000000000 + rng.Int63n(100000000)
			case 3:
				if strings.Contains(cf.opts, "stop_") {
					t1 = 1000000 - 1 - rng.Int63n(ttlMS)
				} else {
					t1 = 1000 + rng.Int63n(4000000)
				}
			default:
				t1 = 1000 + rng.Int63n(4000000)
			}
			var dt int64
			switch rng.Intn(10) {
			case 0:
				dt = rng.Int63n(cf.segMS) // mostly no change
			case 1:
				dt = cf.segMS + rng.Int63n(cf.segMS) // one segment added
			case 2:
				dt = 3*cf.segMS + rng.Int63n(3*cf.segMS) // several
			case 3:
				dt = ttlMS - rng.Int63n(1000) // just inside the ttl
			case 4:
				dt = ttlMS + rng.Int63n(marginS*1000) // between ttl and ttl+margin
			case 5:
				dt = ttlMS + marginS*1000 + cf.segMS + 1 + rng.Int63n(30000) // beyond
			case 6:
				dt = 1 + rng.Int63n(3) // tiny
			default:
				dt = 1 + rng.Int63n(ttlMS)
			}
			in := c11in{Kind: "l1", Stream: "l1", URL: u, T1: t1, T2: t1 + dt}
			id := nextID
			nextID++
			sid := fmt.Sprint(id)
			c.Res.Inputs[sid] = in
			o := runL1(c, ls, sid, in)
			c.Res.Evaluations++
			if o.Skip != "" {
				c.Count("l1:skipped:" + o.Skip)
				continue
			}
			c.Count(fmt.Sprintf("l1:status-%d", o.Status))
			if o.Status == 200 && o.Tree.Patch != nil {
				seen := map[string]bool{}
				for _, op := range o.Tree.Patch.Ops {
					cl := op.Kind + ":" + op.Steps[len(op.Steps)-1].Tag
					if op.Attr != "" {
						cl = op.Kind + ":" + op.Steps[len(op.Steps)-1].Tag + "/@" + op.Attr
					} else if op.Kind == "add" && op.Payload != nil {
						cl = "add:" + op.Payload.Tag
					}
					if !seen[cl] {
						seen[cl] = true
						c.Count("l1:change:" + cl)
					}
				}
			}
			if o.Status == 200 {
				distinct[fmt.Sprint(u, o.PT1, o.PT2)] = true
				c.Sample(map[string]any{"input": in, "status": o.Status, "operations": len(o.Tree.Patch.Ops), "publishTime_t1": o.PT1, "publishTime_t2": o.PT2})
			}
			if o.HasTree && modelLeft > 0 && representable(o.Tree.OldDoc) && representable(o.Tree.NewDoc) {
				modelLeft--
				tid, to := id, o.Tree
				treeTerms = append(treeTerms, func() string { return treeTerm(tid, to) })
			}
		}
	}
	restoreStderr()

	// ---------- L2: MyersDiff
	nRand, nGrow := 1500, 30
	if c.Thorough() {
		nRand, nGrow = 15000, 200
	}
	runM := func(in c11in) {
		in.Shape = "balanced"
		if lopsided(len(in.E), len(in.F)) {
			in.Shape = "lopsided"
		}
		id := nextID
		nextID++
		sid := fmt.Sprint(id)
		c.Res.Inputs[sid] = in
		o := runMyers(in.E, in.F)
		c.Res.Evaluations++
		c.Count("myers:" + in.Stream)
		switch {
		case o.Panic != "":
			c.Fail(sid, "panic:"+o.Panic, fmt.Sprintf("MyersDiff panics for lists of length %d and %d", len(in.E), len(in.F)), in)
		case !o.Valid:
			c.Fail(sid, "myers-invalid-script", o.Why, in)
		default:
			if len(o.Ops) > 0 && len(in.E) > 0 && len(in.F) > 0 {
				distinct[fmt.Sprint("m", in.E, in.F)] = true
			}
		}
		myersTerms = append(myersTerms, myersTerm(id, in, o))
	}
	for i := 0; i < nRand; i++ {
		alpha := 2 + rng.Intn(4)
		var e, f []int
		switch rng.Intn(3) {
		case 0:
			e, f = randList(rng, rng.Intn(10), alpha), randList(rng, rng.Intn(10), alpha)
		case 1:
			e = randList(rng, rng.Intn(14), alpha)
			f = mutateList(rng, e, alpha)
		default: // sliding window with repeat-like structure
			n := 2 + rng.Intn(12)
			base := randList(rng, n+12, alpha)
			a, b := rng.Intn(4), rng.Intn(8)
			e, f = base[a:a+n], base[a+rng.Intn(3):a+n+b%(8-a)]
		}
		// stay below the lengths where the search leaves its index window (len(f) >= 3*len(e)+5)
		if len(e) > 0 && len(f) >= 3*len(e)+5 {
			f = f[:3*len(e)+4]
		}
		runM(c11in{Kind: "myers", Stream: "balanced", E: e, F: f})
	}
	for i := 0; i < nGrow; i++ {
		// findings stream: few old elements, many new ones, all different
		n := 1 + rng.Intn(4)
		m := 3*n + 5 + rng.Intn(6)
		e, f := make([]int, n), make([]int, m)
		for k := range e {
			e[k] = 1000 + k
		}
		for k := range f {
			f[k] = 2000 + k
		}
		if i%3 == 0 { // shared first element
			f[0] = e[0]
			f = append(f, 9000)
		}
		runM(c11in{Kind: "myers", Stream: "grow", E: e, F: f})
	}

	for i := 0; i < nGrow; i++ {
		// the reverse: many old elements, few new ones
		m := 1 + rng.Intn(4)
		n := 3*m + 5 + rng.Intn(6)
		e, f := make([]int, n), make([]int, m)
		for k := range e {
			e[k] = 1000 + k
		}
		for k := range f {
			f[k] = 2000 + k
		}
		if i%3 == 0 {
			f[0] = e[0]
		}
		if i%3 == 1 {
			f[m-1] = e[n-1]
		}
		runM(c11in{Kind: "myers", Stream: "shrink", E: e, F: f})
	}

	// ---------- L2: MPDDiff on generated trees
	nTree := map[string]int{"unique": 500, "idless": 60, "reorder": 40, "stlattr": 20, "descr": 60, "errors": 40}
	if c.Thorough() {
		nTree = map[string]int{"unique": 5000, "idless": 400, "reorder": 300, "stlattr": 100, "descr": 400, "errors": 300}
	}
	for _, stream := range []string{"unique", "idless", "reorder", "stlattr", "descr", "errors"} {
		for i := 0; i < nTree[stream]; i++ {
			g := &treeGen{rng: rng, idless: stream == "idless", reorder: stream == "reorder", stlattr: stream == "stlattr", descr: stream == "descr"}
			pt := int64(1700000000 + rng.Intn(1000000))
			ttl := []int{5, 30, 60, 600}[rng.Intn(4)]
			old := g.mpd(pt, ttl)
			nw := old.copyDeep()
			g.mutate(nw, 0)
			dpt := int64(1 + rng.Intn(ttl+marginS))
			switch rng.Intn(12) {
			case 0:
				dpt = 0
			case 1:
				dpt = int64(ttl + marginS + 1 + rng.Intn(50))
			case 2:
				dpt = int64(ttl + marginS)
			}
			nw.setAttr("publishTime", fmtTime(pt+dpt))
			for _, k := range nw.Kids {
				if k.Tag == "PatchLocation" {
					k.Text = "/patch/x/Manifest.mpp?publishTime=" + fmt.Sprint(pt+dpt)
				}
			}
			if stream == "errors" {
				switch rng.Intn(6) {
				case 0:
					nw.setAttr("id", "other")
				case 1:
					for _, k := range nw.Kids {
						if k.Tag == "Period" {
							k.delAttr("id")
							break
						}
					}
				case 2:
					var kids []*node
					for _, k := range old.Kids {
						if k.Tag != "PatchLocation" {
							kids = append(kids, k)
						}
					}
					old.Kids = kids
				case 3:
					old.delAttr("publishTime")
				case 4:
					for _, k := range old.Kids {
						if k.Tag == "PatchLocation" {
							k.setAttr("ttl", []string{"abc", "-5", "99999999999", "6e1", ""}[rng.Intn(5)])
						}
					}
				case 5:
					nw.Tag = "MPDX"
				}
			}
			in := c11in{Kind: "tree", Stream: stream, Old: old.xml(), New: nw.xml()}
			id := nextID
			nextID++
			sid := fmt.Sprint(id)
			c.Res.Inputs[sid] = in
			o := diffDirect([]byte(in.Old), []byte(in.New))
			c.Res.Evaluations++
			c.Count(fmt.Sprintf("tree:%s:status-%d", stream, o.Status))
			treeOracle(c, sid, in, o, pt, pt+dpt, ttl)
			if o.Status == 200 && len(o.Patch.Ops) > 2 {
				distinct[in.Old+in.New] = true
			}
			if o.OldDoc != nil && o.NewDoc != nil {
				tid, to := id, o
				treeTerms = append(treeTerms, func() string { return treeTerm(tid, to) })
			}
		}
	}

	c.Res.DistinctNontrivial = len(distinct)
	c.Res.Rule = "L1: per (asset in testpic_2s/testpic_8s/WAVE 29.97, SegmentTimeline Time/Number, ttl, periods/tsbd/stop) pairs (t1,t2) " +
		"at stream start, at minute boundaries, in 2023 and uniform over the first 4000 s, t2-t1 in {<1 segment, 1 segment, several, just inside ttl, " +
		"ttl..ttl+margin, beyond, 1-3 ms, uniform}; L2: MyersDiff on random/mutated/windowed lists over 2-5 letters and on growing lists; " +
		"MPDDiff on generated id-carrying MPD-like trees and their mutations (streams unique/idless/reorder/errors). " +
		"distinct non-trivial = L1 answers 200 with distinct (url,publishTime pair) + Myers inputs with a non-empty script on two non-empty lists + tree pairs with more than two operations"
	// ---------- L1b: configurations x assets x request histories
	if err := runSeqStage(c, rng, ls, &nextID, distinct, &treeTerms); err != nil {
		return err
	}

	// ---------- L1c: error-then-valid histories, sequential and concurrent
	if err := runErrHistStage(c, rng, ls, &nextID); err != nil {
		return err
	}

	const imports = "From Verif Require Import GoSem Patch CorrC11."
	nFile := 0
	for lo := 0; lo < len(myersTerms); lo += 400 {
		hi := min(lo+400, len(myersTerms))
		c.WriteCases(fmt.Sprintf("cases_C11_%d.v", nFile), lib.CasesFile(imports, "c11case", "", myersTerms[lo:hi], "model_view"))
		nFile++
	}
	for lo := 0; lo < len(treeTerms); lo += 50 {
		hi := min(lo+50, len(treeTerms))
		curTab = newStrTab()
		var ts []string
		for _, f := range treeTerms[lo:hi] {
			ts = append(ts, f())
		}
		defs := curTab.defs.String()
		curTab = nil
		c.WriteCases(fmt.Sprintf("cases_C11_%d.v", nFile), lib.CasesFile(imports, "c11case", defs, ts, "model_view"))
		nFile++
	}
	c.Res.ModelCases = len(myersTerms) + len(treeTerms)
	if c.Thorough() {
		// the larger bounded sweep of the Myers model (not built by make): explicit coqc under timeout
		cwd, _ := os.Getwd()
		coqDir := filepath.Join(filepath.Dir(cwd), "coq")
		cmd := exec.Command("timeout", "1500", "coqc", "-Q", "theories", "Verif", "-Q", "gen", "VerifGen",
			"-o", filepath.Join(c.Out, "C11Bounded.vo"), "thorough/C11Bounded.v")
		cmd.Dir = coqDir
		out, err := cmd.CombinedOutput()
		if err != nil || !strings.Contains(string(out), "Closed under the global context") {
			tail := string(out)
			if len(tail) > 600 {
				tail = tail[len(tail)-600:]
			}
			c.Fail("thorough-sweep", "proof:C11Bounded", "coq/thorough/C11Bounded.v (Myers model valid for all pairs of lists of length <= 5 over 3 letters) does not check: "+tail, c11in{Kind: "coq"})
		} else {
			c.Res.Notes = append(c.Res.Notes, "thorough: coq/thorough/C11Bounded.v checked (myers_valid_bounded_3_5: all 132496 pairs of lists of length <= 5 over 3 letters; closed under the global context)")
		}
	}
	return nil
}

// treeOracle: the property's second sentence on patch.MPDDiff's output, and the status rules.
func treeOracle(c *lib.Ctx, sid string, in c11in, o treeObs, pt1, pt2 int64, ttl int) {
	if in.Stream == "errors" {
		if o.Status == 599 {
			c.Fail(sid, panicKey(o.Err, o.OldDoc, o.NewDoc), "MPDDiff panics", in)
		}
		return
	}
	switch o.Status {
	case 599:
		c.Fail(sid, panicKey(o.Err, o.OldDoc, o.NewDoc), "MPDDiff panics", in)
	case 425:
		if pt1 != pt2 {
			c.Fail(sid, "425-but-changed", "same-publishTime error for different publishTime values", in)
		}
	case 410:
		if pt2-pt1 <= int64(ttl) {
			c.Fail(sid, "410-within-ttl", fmt.Sprintf("too-late error although publishTime moved %d s, ttl %d", pt2-pt1, ttl), in)
		}
	case 500, 400:
		c.Fail(sid, fmt.Sprintf("error-%d:%s", o.Status, in.Stream), "MPDDiff fails on id-carrying documents: "+o.Err, in)
	case 200:
		if pt1 == pt2 {
			c.Fail(sid, "nochange-not-425", "equal publishTime but a patch was produced", in)
		}
		if pt2-pt1 > int64(ttl+marginS) {
			c.Fail(sid, "late-not-410", fmt.Sprintf("publishTime moved %d s > ttl %d + margin, patch produced", pt2-pt1, ttl), in)
		}
		if o.Exp != pt1+int64(ttl+marginS) {
			c.Fail(sid, "expiration", fmt.Sprintf("expiration %d, expected publishTime+ttl+margin = %d", o.Exp, pt1+int64(ttl+marginS)), in)
		}
		if o.Patch.Orig != fmtTime(pt1) || o.Patch.New != fmtTime(pt2) || o.Patch.MpdID != "base" {
			c.Fail(sid, "patch-header", fmt.Sprintf("mpdId %q originalPublishTime %q publishTime %q", o.Patch.MpdID, o.Patch.Orig, o.Patch.New), in)
		}
		if !o.Applied {
			c.Fail(sid, applyKey(o.OldDoc, o.NewDoc, o.Patch.Ops, o.AppErr), "diff(old,new) applied to old does not give new: "+o.AppErr, in)
		}
	}
}

func replayC11(c *lib.Ctx) error {
	in, err := lib.LoadReplayInput[c11in](c.Replay)
	if err != nil {
		return err
	}
	switch in.Kind {
	case "l1":
		ls, err := lib.NewLivesim(lib.TestVodRoot, nil)
		if err != nil {
			return err
		}
		silenceStderr()
		o := runL1(c, ls, "replay", in)
		restoreStderr()
		fmt.Printf("replay C11 (L1): %s t1=%d t2=%d -> status %d, publishTime %s -> %s, ttl %d %s\n", in.URL, in.T1, in.T2, o.Status, o.PT1, o.PT2, o.TTL, o.Skip)
		if o.HasTree && o.Tree.Patch != nil {
			for _, op := range o.Tree.Patch.Ops {
				pl := ""
				if op.Payload != nil {
					pl = canonical(op.Payload)
				}
				fmt.Printf("  %s sel=%s pos=%s %s%s\n", op.Kind, op.Sel, op.Pos, op.Text, pl)
			}
		}
		for _, f := range c.Res.OracleFailures {
			fmt.Printf("  FAIL %s: %s\n", f.Key, f.What)
		}
	case "l1seq":
		return replaySeq(c, in)
	case "errseq":
		return replayErrSeq(c, in)
	case "myers":
		o := runMyers(in.E, in.F)
		fmt.Printf("replay C11 (MyersDiff): e=%v f=%v -> panic=%q ops=%d valid=%v %s\n", in.E, in.F, o.Panic, len(o.Ops), o.Valid, o.Why)
		if o.Panic != "" {
			c.Fail("replay", "panic:"+o.Panic, "MyersDiff panics", in)
		} else if !o.Valid {
			c.Fail("replay", "myers-invalid-script", o.Why, in)
		}
	case "tree":
		o := diffDirect([]byte(in.Old), []byte(in.New))
		fmt.Printf("replay C11 (MPDDiff): status %d %s applied=%v %s\n", o.Status, o.Err, o.Applied, o.AppErr)
		if o.Patch != nil {
			for _, op := range o.Patch.Ops {
				fmt.Printf("  %s sel=%s pos=%s\n", op.Kind, op.Sel, op.Pos)
			}
		}
		if o.Status == 599 {
			c.Fail("replay", panicKey(o.Err, o.OldDoc, o.NewDoc), "MPDDiff panics", in)
		}
		if o.Status == 200 && !o.Applied {
			c.Fail("replay", applyKey(o.OldDoc, o.NewDoc, o.Patch.Ops, o.AppErr), "diff(old,new) applied to old does not give new: "+o.AppErr, in)
		}
		if o.Status == 500 && in.Stream != "errors" {
			c.Fail("replay", "error-500:"+in.Stream, o.Err, in)
		}
	default:
		return fmt.Errorf("unknown replay kind %q", in.Kind)
	}
	return nil
}
