package main

// L1b: the property's quantifier over configurations and histories.  Every URL option that shapes the MPD is
// combined at random with patch_<ttl>, over every bundled asset and over generated layouts (uniform,
// alternating, irregular segment durations), and the patch locations are followed the way clients do it: ONE
// long-lived server, a "stale" client that keeps the MPD of t0 and polls its PatchLocation at t1 < t2 < ...,
// and a "chained" client that asks with the publishTime of its last update.  Each answer is judged by the
// property text (runL1x); a repeated identical request must be answered identically.

import (
	"bytes"
	"fmt"
	"math/rand"
	"os"
	"path/filepath"
	"sort"
	"strings"

	"verifharness/lib"
)

// bundledMPDs lists the MPDs below the bundled vod root (paths relative to it).
func bundledMPDs() []string {
	var out []string
	_ = filepath.Walk(lib.TestVodRoot, func(p string, info os.FileInfo, err error) error {
		if err == nil && !info.IsDir() && strings.HasSuffix(p, ".mpd") {
			rel, _ := filepath.Rel(lib.TestVodRoot, p)
			out = append(out, filepath.ToSlash(rel))
		}
		return nil
	})
	sort.Strings(out)
	return out
}

// genLayouts: catalogue layouts that the server admits plus random ones (deterministic in the seed).
func genLayouts(seed int64, nRand int) []lib.GenAsset {
	var layouts []lib.GenAsset
	for _, l := range lib.GenCatalogue() {
		if l.Class == "ok" {
			layouts = append(layouts, l.Asset)
		}
	}
	rng := rand.New(rand.NewSource(seed*7919 + 11))
	for i := 0; i < nRand; i++ {
		layouts = append(layouts, lib.RandGenAsset(rng, fmt.Sprintf("r%d", i), lib.RandGenOpts{Text: true, Thumbs: true, AudioOwnGrid: i%3 == 2}))
	}
	return layouts
}

// randOptions draws a legitimate combination of URL options that shape the MPD, always with patch_<ttl>.
// grid >= 0 selects one cell of the pairwise grid addressing mode (3) x periods (2) x start (2) x stop (2); -1 draws freely.
func randOptions(rng *rand.Rand, ttl int, t0 int64, grid int) (opts string) {
	pick := func(l ...string) string { return l[rng.Intn(len(l))] }
	parts := []string{fmt.Sprintf("patch_%d", ttl)}
	mode := rng.Intn(8)
	if grid >= 0 {
		mode = []int{0, 1, 4}[grid%3]
	}
	switch mode {
	case 0: // plain $Number$ template: the MPD changes only at Period boundaries / start / stop
	case 1, 2, 3:
		parts = append(parts, "segtimelinenr_1")
	default:
		parts = append(parts, "segtimeline_1")
	}
	withPeriods := rng.Float64() < 0.3
	withStart := rng.Float64() < 0.2
	withStop := rng.Float64() < 0.12
	if grid >= 0 {
		withPeriods, withStart, withStop = (grid/3)%2 == 1, (grid/6)%2 == 1, (grid/12)%2 == 1
	}
	if withStart && t0 > 20000 {
		// availabilityStartTime a little before the first request
		parts = append(parts, fmt.Sprintf("start_%d", t0/1000-5-rng.Int63n(min(600, t0/1000-6))))
	}
	if withStop {
		// the stream stops during the history
		parts = append(parts, fmt.Sprintf("stop_%d", t0/1000+3+rng.Int63n(25)))
	}
	if rng.Float64() < 0.1 {
		parts = append(parts, pick("timeoffset_3", "timeoffset_-2.5", "timeoffset_0.5"))
	}
	maybe := func(p float64, s ...string) {
		if rng.Float64() < p {
			parts = append(parts, pick(s...))
		}
	}
	maybe(0.5, "utc_none", "utc_keep", "utc_direct", "utc_head", "utc_ntp", "utc_sntp", "utc_httpxsdate", "utc_httpxsdatems",
		"utc_httpiso", "utc_httpisoms", "utc_direct-head", "utc_none-direct", "utc_httpiso-ntp")
	maybe(0.35, "tsbd_10", "tsbd_20", "tsbd_25", "tsbd_45", "tsbd_90")
	if withPeriods {
		parts = append(parts, pick("periods_30", "periods_60", "periods_120", "periods_360"))
		maybe(0.4, "continuous_1")
	}
	maybe(0.25, "mup_1", "mup_3", "mup_7")
	maybe(0.2, "spd_4", "spd_12")
	maybe(0.25, "snr_0", "snr_1", "snr_5", "snr_1000")
	maybe(0.2, "timesubsstpp_en", "timesubsstpp_en,sv", "timesubswvtt_en", "timesubswvtt_en,de")
	maybe(0.15, "scte35_1", "scte35_2", "scte35_3")
	maybe(0.15, "eccp_cenc", "eccp_cbcs")
	maybe(0.15, "ltgt_2500", "ato_1/ltgt_3000", "ato_1.5")
	maybe(0.1, "dur_3600", "init_5", "segtimelineloss_1")
	rng.Shuffle(len(parts)-1, func(i, j int) { parts[i+1], parts[j+1] = parts[j+1], parts[i+1] })
	return strings.Join(parts, "/")
}

// seqTimesAt: polling instants from t0 on.
func seqTimesAt(rng *rand.Rand, t0 int64, ttl int, n int) []int64 {
	step := []int64{400, 1000, 1500, 2000, 3000}[rng.Intn(5)]
	times := []int64{t0}
	t := t0
	for k := 0; k < n; k++ {
		t += step/2 + rng.Int63n(step)
		times = append(times, t)
	}
	return times
}

// seqTimes draws the polling instants of one history.
func seqTimes(rng *rand.Rand, ttl int, n int) []int64 {
	var t0 int64
	switch rng.Intn(4) {
	case 0:
		t0 = 1700000000000 + rng.Int63n(1000000)
	case 1:
		t0 = 60000*(1+rng.Int63n(300)) - rng.Int63n(8000) // shortly before a whole minute (period boundaries)
	case 2:
		t0 = 2000 + rng.Int63n(30000) // shortly after the start of the stream
	default:
		t0 = 1000 + rng.Int63n(7200000)
	}
	step := []int64{400, 1000, 1500, 2000, 3000, 5000}[rng.Intn(6)]
	times := []int64{t0}
	t := t0
	for k := 0; k < n; k++ {
		t += step/2 + rng.Int63n(step)
		if t-t0 > int64(ttl+25)*1000 {
			break
		}
		times = append(times, t)
	}
	return times
}

type seqStats struct {
	Pairs, Served int
	FirstTree     *treeObs
}

// runSeq plays one history against ls. All failures carry the whole history as replay input.
func runSeq(c *lib.Ctx, ls *lib.Livesim, id string, in c11in) (st seqStats) {
	if len(in.Times) < 2 {
		return
	}
	t0 := in.Times[0]
	chain := t0 // instant of the chained client's document
	for k := 1; k < len(in.Times); k++ {
		tk := in.Times[k]
		pairs := [][2]int64{{t0, tk}}
		if chain != t0 {
			pairs = append(pairs, [2]int64{chain, tk})
		}
		for pi, p := range pairs {
			pin := c11in{Kind: "l1", Stream: "l1seq", URL: in.URL, T1: p[0], T2: p[1]}
			o := runL1x(c, ls, id, pin, in)
			if o.Skip != "" {
				c.Count("l1seq:skipped:" + strings.SplitN(o.Skip, " (", 2)[0])
				continue
			}
			st.Pairs++
			c.Count(fmt.Sprintf("l1seq:status-%d", o.Status))
			if o.Status == 200 {
				st.Served++
				if st.FirstTree == nil && o.HasTree && o.Tree.Patch != nil {
					t := o.Tree
					st.FirstTree = &t
				}
			}
			if pi == len(pairs)-1 && (o.Status == 200 || o.Status == 410) {
				chain = tk // the chained client now holds the MPD of tk (patched, or fetched anew after 410)
			}
		}
		// the same request again: the answer is a function of the URL and the time
		if d1, _, _ := getMPD(ls, in.URL, t0); d1 != nil {
			if pl := d1.Root().SelectElement("PatchLocation"); pl != nil {
				u := fmt.Sprintf("%s&nowMS=%d", strings.TrimSpace(pl.Text()), tk)
				a, b := ls.Get(u), ls.Get(u)
				if a.Status != b.Status || !bytes.Equal(a.Body, b.Body) {
					c.Fail(id, "repeated-request-differs", fmt.Sprintf("[t1=%d t2=%d] the same patch request answered %d (%d bytes) and then %d (%d bytes)", t0, tk, a.Status, len(a.Body), b.Status, len(b.Body)), in)
				}
			}
		}
	}
	return
}

func runSeqStage(c *lib.Ctx, rng *rand.Rand, ls *lib.Livesim, nextID *int, distinct map[string]bool, treeTerms *[]func() string) error {
	nBundled, nGen, nRand, polls, modelBudget, nGrid := 44, 36, 4, 10, 50, 1
	if c.Thorough() {
		nBundled, nGen, nRand, polls, modelBudget, nGrid = 400, 360, 30, 16, 300, 8
	}
	layouts := genLayouts(c.Seed, nRand)
	_, gls, cleanup, err := lib.GenSetup("c11", layouts)
	if err != nil {
		return err
	}
	defer cleanup()
	mpds := bundledMPDs()
	silenceStderr()
	defer restoreStderr()
	one := func(srv *lib.Livesim, asset string, gen bool, dense bool, grid int) {
		ttl := []int{10, 20, 30, 60}[rng.Intn(4)]
		times := seqTimes(rng, ttl, polls)
		if grid >= 0 && (grid/3)%2 == 1 {
			// with periods: start shortly before a Period boundary (whole minutes are boundaries for every periods_N used)
			times = seqTimesAt(rng, 60000*(1+rng.Int63n(28000000))-1000-rng.Int63n(4000), ttl, polls)
		}
		opts := randOptions(rng, ttl, times[0], grid)
		if dense {
			// a client that polls about once a second for longer than any loop of the small assets
			times = times[:1]
			for t := times[0]; len(times) < 2*polls+4; {
				t += 700 + rng.Int63n(700)
				times = append(times, t)
			}
		}
		in := c11in{Kind: "l1seq", Stream: "l1seq", URL: "/livesim2/" + opts + "/" + asset, Times: times, Gen: gen}
		id := *nextID
		*nextID++
		sid := fmt.Sprint(id)
		c.Res.Inputs[sid] = in
		st := runSeq(c, srv, sid, in)
		c.Res.Evaluations += st.Pairs
		for _, o := range strings.Split(opts, "/") {
			c.Count("l1seq:option:" + strings.SplitN(o, "_", 2)[0])
		}
		if gen {
			c.Count("l1seq:asset:generated")
		} else {
			c.Count("l1seq:asset:" + strings.SplitN(asset, "/", 2)[0])
		}
		if st.Served > 0 {
			distinct[fmt.Sprint("seq", in.URL, in.Times[0])] = true
		}
		if st.FirstTree != nil && modelBudget > 0 && representable(st.FirstTree.OldDoc) && representable(st.FirstTree.NewDoc) {
			modelBudget--
			to := *st.FirstTree
			*treeTerms = append(*treeTerms, func() string { return treeTerm(id, to) })
		}
	}
	for i := 0; i < nBundled; i++ {
		one(ls, mpds[i%len(mpds)], false, i < len(mpds), -1)
	}
	for i := 0; i < nGen; i++ {
		one(gls, layouts[i%len(layouts)].Name+"/Manifest.mpd", true, i%3 == 0, -1)
	}
	// breakpoint histories: the instants lie exactly ON the breakpoints of the MPD (Period starts, segment ends,
	// each also 1 ms before and after), for timelines with and without Periods and with and without an
	// availabilityTimeOffset
	bpAssets := []struct {
		asset string
		segMS int64
	}{{"testpic_2s/Manifest.mpd", 2000}, {"testpic_8s/Manifest.mpd", 8000}, {"testpic_alt_seg_dur_stl/Manifest.mpd", 4000}}
	bpN := 0
	for rep := 0; rep < nGrid; rep++ {
		for _, per := range []int{0, 30, 60, 120, 360} {
			for _, ato := range []string{"", "ato_0.5", "ato_1", "ato_1.5/ltgt_3000"} {
				for _, mode := range []string{"segtimeline_1", "segtimelinenr_1"} {
					a := bpAssets[bpN%len(bpAssets)]
					bpN++
					ttl := []int{10, 30, 60}[rng.Intn(3)]
					opts := fmt.Sprintf("patch_%d/%s", ttl, mode)
					step := a.segMS
					if per > 0 {
						opts += fmt.Sprintf("/periods_%d", per)
						if rng.Intn(2) == 0 {
							opts += "/continuous_1"
						}
						step = 3600000 / int64(per)
					}
					if ato != "" {
						opts += "/" + ato
					}
					if rng.Intn(3) == 0 {
						opts += "/tsbd_" + []string{"10", "25", "90"}[rng.Intn(3)]
					}
					b := step * (1 + rng.Int63n(1000000)) // a breakpoint: Period start or (multiple of a) segment end
					if rng.Intn(3) == 0 {
						b = step * (2 + rng.Int63n(900)) // early in the stream
					}
					times := []int64{b - a.segMS - 500, b - 1, b, b + 1, b + 700, b + a.segMS - 1, b + a.segMS, b + a.segMS + 1, b + step - 1, b + step, b + step + 1}
					sort.Slice(times, func(i, j int) bool { return times[i] < times[j] })
					var uniq []int64
					for _, t := range times {
						if len(uniq) == 0 || t > uniq[len(uniq)-1] {
							uniq = append(uniq, t)
						}
					}
					in := c11in{Kind: "l1seq", Stream: "l1seq", URL: "/livesim2/" + opts + "/" + a.asset, Times: uniq}
					id := *nextID
					*nextID++
					sid := fmt.Sprint(id)
					c.Res.Inputs[sid] = in
					st := runSeq(c, ls, sid, in)
					c.Res.Evaluations += st.Pairs
					c.Count("l1seq:breakpoint-history")
					if st.Served > 0 {
						distinct[fmt.Sprint("seq", in.URL, in.Times[0])] = true
					}
				}
			}
		}
	}

	// session-start histories: the first seconds after start_<S>, with availabilityTimeOffsets below, at and
	// above the segment duration (and larger than the time since the start), both timeline modes
	for rep := 0; rep < nGrid; rep++ {
		for ai, a := range bpAssets {
			segS := float64(a.segMS) / 1000
			for _, ato := range []string{"", "0.5", "1.5", fmt.Sprint(segS), fmt.Sprint(segS + 1), fmt.Sprint(2*segS + 3), "30", "inf"} {
				mode := []string{"segtimeline_1", "segtimelinenr_1"}[(ai+len(ato)+rep)%2]
				if ato == "inf" {
					mode = "" // an infinite offset is only allowed without a timeline
				}
				startS := 1000 + rng.Int63n(1700000000)
				ttl := []int{10, 30, 60}[rng.Intn(3)]
				opts := fmt.Sprintf("patch_%d/start_%d", ttl, startS)
				if mode != "" {
					opts += "/" + mode
				}
				if ato != "" {
					opts += "/ato_" + ato + "/ltgt_3000"
				}
				if rng.Intn(3) == 0 {
					opts += "/periods_" + []string{"60", "360"}[rng.Intn(2)]
				}
				t := startS*1000 + rng.Int63n(800)
				times := []int64{t}
				for len(times) < 12 {
					t += 300 + rng.Int63n(a.segMS)
					times = append(times, t)
				}
				in := c11in{Kind: "l1seq", Stream: "l1seq", URL: "/livesim2/" + opts + "/" + a.asset, Times: times}
				id := *nextID
				*nextID++
				sid := fmt.Sprint(id)
				c.Res.Inputs[sid] = in
				st := runSeq(c, ls, sid, in)
				c.Res.Evaluations += st.Pairs
				c.Count("l1seq:session-start-history")
				if st.Served > 0 {
					distinct[fmt.Sprint("seq", in.URL, in.Times[0])] = true
				}
			}
		}
	}

	// the pairwise grid addressing mode x periods x start x stop, on the plain bundled assets
	gridAssets := []string{"testpic_2s/Manifest.mpd", "testpic_8s/Manifest.mpd", "testpic_alt_seg_dur_stl/Manifest.mpd"}
	for rep := 0; rep < nGrid; rep++ {
		for g := 0; g < 24; g++ {
			one(ls, gridAssets[(g+rep)%len(gridAssets)], false, (g+rep)%4 == 0, g)
		}
	}
	return nil
}

func replaySeq(c *lib.Ctx, in c11in) error {
	var ls *lib.Livesim
	var err error
	if in.Gen {
		nRand := 4
		if c.Thorough() {
			nRand = 30
		}
		var cleanup func()
		_, ls, cleanup, err = lib.GenSetup("c11r", genLayouts(c.Seed, nRand))
		if err != nil {
			return err
		}
		defer cleanup()
	} else {
		ls, err = lib.NewLivesim(lib.TestVodRoot, nil)
		if err != nil {
			return err
		}
	}
	silenceStderr()
	st := runSeq(c, ls, "replay", in)
	restoreStderr()
	fmt.Printf("replay C11 (history): %s times=%v -> %d pairs, %d patches served\n", in.URL, in.Times, st.Pairs, st.Served)
	for _, f := range c.Res.OracleFailures {
		fmt.Printf("  FAIL %s: %s\n", f.Key, f.What)
	}
	return nil
}
