package main

// XML side of the C11 harness: parsing of patch documents and selectors, the harness's OWN
// XML-patch applier (independent of pkg/patch), canonical comparison, Coq term printers.

import (
	"fmt"
	"sort"
	"strconv"
	"strings"

	"github.com/beevik/etree"
	"verifharness/lib"
)

// ---------------------------------------------------------------- selectors and operations

type selStep struct {
	Tag  string
	Kind int // 0 no predicate, 1 [@name='val'], 2 [k]
	Name string
	Val  string
	Idx  int
}

type patchOp struct {
	Kind    string // replace | add | remove
	Sel     string
	Steps   []selStep
	Attr    string // non-empty: the selector ends in /@Attr
	Pos     string // prepend | after | "" (attribute)
	Payload *etree.Element
	Text    string
}

type patchDoc struct {
	MpdID, Orig, New string
	Ops              []patchOp
}

// splitSel splits a selector on '/' outside of quotes.
func splitSel(s string) ([]string, error) {
	if !strings.HasPrefix(s, "/") {
		return nil, fmt.Errorf("selector %q is not absolute", s)
	}
	var parts []string
	cur := strings.Builder{}
	inq := false
	for _, r := range s[1:] {
		switch {
		case r == '\'':
			inq = !inq
			cur.WriteRune(r)
		case r == '/' && !inq:
			parts = append(parts, cur.String())
			cur.Reset()
		default:
			cur.WriteRune(r)
		}
	}
	if inq {
		return nil, fmt.Errorf("selector %q: unbalanced quote", s)
	}
	parts = append(parts, cur.String())
	return parts, nil
}

func parseSel(s string) (steps []selStep, attr string, err error) {
	parts, err := splitSel(s)
	if err != nil {
		return nil, "", err
	}
	for i, p := range parts {
		if strings.HasPrefix(p, "@") {
			if i != len(parts)-1 || len(p) < 2 {
				return nil, "", fmt.Errorf("selector %q: attribute step not last", s)
			}
			attr = p[1:]
			break
		}
		st := selStep{}
		b := strings.IndexByte(p, '[')
		if b < 0 {
			st.Tag = p
		} else {
			st.Tag = p[:b]
			pr := p[b:]
			if !strings.HasSuffix(pr, "]") {
				return nil, "", fmt.Errorf("selector %q: bad predicate %q", s, pr)
			}
			pr = pr[1 : len(pr)-1]
			if strings.HasPrefix(pr, "@") {
				eq := strings.Index(pr, "='")
				if eq < 0 || !strings.HasSuffix(pr, "'") || len(pr) < eq+3 {
					return nil, "", fmt.Errorf("selector %q: bad predicate %q", s, pr)
				}
				st.Kind, st.Name, st.Val = 1, pr[1:eq], pr[eq+2:len(pr)-1]
			} else {
				k, e := strconv.Atoi(pr)
				if e != nil {
					return nil, "", fmt.Errorf("selector %q: bad predicate %q", s, pr)
				}
				st.Kind, st.Idx = 2, k
			}
		}
		if st.Tag == "" {
			return nil, "", fmt.Errorf("selector %q: empty step", s)
		}
		steps = append(steps, st)
	}
	if len(steps) == 0 {
		return nil, "", fmt.Errorf("selector %q: no steps", s)
	}
	return steps, attr, nil
}

func parsePatch(body []byte) (*patchDoc, error) {
	d := etree.NewDocument()
	if err := d.ReadFromBytes(body); err != nil {
		return nil, err
	}
	root := d.Root()
	if root == nil || root.Tag != "Patch" {
		return nil, fmt.Errorf("root element is not Patch")
	}
	p := &patchDoc{MpdID: root.SelectAttrValue("mpdId", ""), Orig: root.SelectAttrValue("originalPublishTime", ""),
		New: root.SelectAttrValue("publishTime", "")}
	for _, c := range root.ChildElements() {
		op := patchOp{Kind: c.Tag, Sel: c.SelectAttrValue("sel", ""), Pos: c.SelectAttrValue("pos", "")}
		switch c.Tag {
		case "replace", "add", "remove":
		default:
			return nil, fmt.Errorf("unknown patch operation %q", c.Tag)
		}
		var err error
		op.Steps, op.Attr, err = parseSel(op.Sel)
		if err != nil {
			return nil, err
		}
		kids := c.ChildElements()
		if op.Attr != "" {
			op.Text = c.Text()
		} else if c.Tag != "remove" {
			if len(kids) != 1 {
				return nil, fmt.Errorf("%s %s: %d payload elements", c.Tag, op.Sel, len(kids))
			}
			op.Payload = kids[0]
		}
		p.Ops = append(p.Ops, op)
	}
	return p, nil
}

// ---------------------------------------------------------------- own applier

func stripWS(e *etree.Element) {
	var drop []etree.Token
	hasElem := len(e.ChildElements()) > 0
	for _, t := range e.Child {
		if cd, ok := t.(*etree.CharData); ok {
			if hasElem && strings.TrimSpace(cd.Data) == "" {
				drop = append(drop, t)
			}
		}
		if _, ok := t.(*etree.Comment); ok {
			drop = append(drop, t)
		}
	}
	for _, t := range drop {
		e.RemoveChild(t) // keeps etree's child indices consistent
	}
	for _, c := range e.ChildElements() {
		stripWS(c)
	}
}

func attrByKey(e *etree.Element, key string) (idx int, n int) {
	idx = -1
	for i, a := range e.Attr {
		if a.Key == key {
			if idx < 0 {
				idx = i
			}
			n++
		}
	}
	return
}

// selectChild evaluates one location step on the children of parent: Tag[k] is the k-th child
// element with that tag; any other form must match exactly one child (RFC 5261: a selector has
// to identify a single node).
func selectChild(parent *etree.Element, st selStep) (*etree.Element, error) {
	var m []*etree.Element
	for _, c := range parent.ChildElements() {
		if c.Tag != st.Tag {
			continue
		}
		if st.Kind == 1 {
			i, _ := attrByKey(c, st.Name)
			if i < 0 || c.Attr[i].Value != st.Val {
				continue
			}
		}
		m = append(m, c)
	}
	if st.Kind == 2 {
		if st.Idx < 1 || st.Idx > len(m) {
			return nil, fmt.Errorf("no-match")
		}
		return m[st.Idx-1], nil
	}
	if len(m) == 0 {
		return nil, fmt.Errorf("no-match")
	}
	if len(m) > 1 {
		return nil, fmt.Errorf("ambiguous")
	}
	return m[0], nil
}

func selectElem(root *etree.Element, steps []selStep) (*etree.Element, error) {
	r := steps[0]
	if root.Tag != r.Tag || (r.Kind == 2 && r.Idx != 1) {
		return nil, fmt.Errorf("no-match")
	}
	if r.Kind == 1 {
		i, _ := attrByKey(root, r.Name)
		if i < 0 || root.Attr[i].Value != r.Val {
			return nil, fmt.Errorf("no-match")
		}
	}
	cur := root
	for _, st := range steps[1:] {
		c, err := selectChild(cur, st)
		if err != nil {
			return nil, err
		}
		cur = c
	}
	return cur, nil
}

func childIndex(parent, c *etree.Element) int {
	for i, t := range parent.Child {
		if t == etree.Token(c) {
			return i
		}
	}
	return -1
}

// applyPatch applies the operations in order to doc (modified in place). The returned error
// starts with a stable class: no-match, ambiguous, attr-exists, attr-missing, bad-op.
func applyPatch(doc *etree.Document, ops []patchOp) error {
	for i, op := range ops {
		if err := applyOne(doc, op); err != nil {
			return fmt.Errorf("%w (operation %d: %s sel=%s)", err, i, op.Kind, op.Sel)
		}
	}
	return nil
}

func applyOne(doc *etree.Document, op patchOp) error {
	root := doc.Root()
	target, err := selectElem(root, op.Steps)
	if err != nil {
		return err
	}
	if op.Attr != "" {
		idx, n := attrByKey(target, op.Attr)
		if n > 1 {
			return fmt.Errorf("ambiguous")
		}
		switch op.Kind {
		case "replace":
			if idx < 0 {
				return fmt.Errorf("attr-missing")
			}
			target.Attr[idx].Value = op.Text
		case "add":
			if idx >= 0 {
				return fmt.Errorf("attr-exists")
			}
			target.CreateAttr(op.Attr, op.Text)
		case "remove":
			if idx < 0 {
				return fmt.Errorf("attr-missing")
			}
			target.Attr = append(target.Attr[:idx:idx], target.Attr[idx+1:]...)
		}
		return nil
	}
	switch op.Kind {
	case "remove":
		p := target.Parent()
		if target == root || p == nil {
			return fmt.Errorf("bad-op")
		}
		p.RemoveChild(target)
	case "replace":
		n := op.Payload.Copy()
		if target == root {
			doc.SetRoot(n)
			return nil
		}
		p := target.Parent()
		i := childIndex(p, target)
		p.InsertChildAt(i, n)
		p.RemoveChild(target)
	case "add":
		n := op.Payload.Copy()
		switch op.Pos {
		case "prepend":
			target.InsertChildAt(0, n)
		case "after":
			p := target.Parent()
			if target == root || p == nil {
				return fmt.Errorf("bad-op")
			}
			i := childIndex(p, target)
			p.InsertChildAt(i+1, n)
		default:
			return fmt.Errorf("bad-op")
		}
	}
	return nil
}

// ---------------------------------------------------------------- canonical form

// canonical: tag, attributes sorted by (space,key), text trimmed (whitespace-only dropped), children.
func canonical(e *etree.Element) string {
	var sb strings.Builder
	canonInto(&sb, e)
	return sb.String()
}

func canonInto(sb *strings.Builder, e *etree.Element) {
	sb.WriteString("<")
	if e.Space != "" {
		sb.WriteString(e.Space + ":")
	}
	sb.WriteString(e.Tag)
	as := make([]etree.Attr, len(e.Attr))
	copy(as, e.Attr)
	sort.SliceStable(as, func(i, j int) bool {
		if as[i].Space != as[j].Space {
			return as[i].Space < as[j].Space
		}
		return as[i].Key < as[j].Key
	})
	for _, a := range as {
		fmt.Fprintf(sb, " %s:%s=%q", a.Space, a.Key, a.Value)
	}
	sb.WriteString(">")
	txt := ""
	for _, t := range e.Child {
		if cd, ok := t.(*etree.CharData); ok {
			txt += cd.Data
		}
	}
	sb.WriteString(strings.TrimSpace(txt))
	for _, c := range e.ChildElements() {
		canonInto(sb, c)
	}
	sb.WriteString("</>")
}

// firstDiff gives a short description of where two canonical strings start to differ.
func firstDiff(a, b string) string {
	n := 0
	for n < len(a) && n < len(b) && a[n] == b[n] {
		n++
	}
	lo := n - 60
	if lo < 0 {
		lo = 0
	}
	cut := func(s string) string {
		hi := n + 80
		if hi > len(s) {
			hi = len(s)
		}
		return s[lo:hi]
	}
	return fmt.Sprintf("at %d: got …%s… want …%s…", n, cut(a), cut(b))
}

// ---------------------------------------------------------------- Coq terms

func modelText(e *etree.Element) string {
	t := e.Text()
	if len(e.ChildElements()) > 0 && strings.TrimSpace(t) == "" {
		return ""
	}
	return t
}

// strTab interns the string literals of one case file: a tree pair repeats a few hundred distinct
// strings thousands of times, and Coq type-checks a literal character by character.
type strTab struct {
	names map[string]string
	defs  strings.Builder
}

var curTab *strTab

func newStrTab() *strTab { return &strTab{names: map[string]string{}} }

// cs prints a string as a Coq term (a name of the current table, or a literal without table).
func cs(s string) string {
	if curTab == nil || s == "" {
		return lib.CoqString(s)
	}
	if n, ok := curTab.names[s]; ok {
		return n
	}
	n := fmt.Sprintf("s%d", len(curTab.names))
	curTab.names[s] = n
	fmt.Fprintf(&curTab.defs, "Definition %s : string := %s.\n", n, lib.CoqString(s))
	return n
}

func coqAttr(a etree.Attr) string {
	return fmt.Sprintf("mkAttr %s %s %s", cs(a.Space), cs(a.Key), cs(a.Value))
}

func coqElem(e *etree.Element) string {
	var as, kids []string
	for _, a := range e.Attr {
		as = append(as, coqAttr(a))
	}
	for _, c := range e.ChildElements() {
		kids = append(kids, coqElem(c))
	}
	return fmt.Sprintf("(Elem %s [%s] %s [%s])", cs(e.Tag), strings.Join(as, "; "), cs(modelText(e)), strings.Join(kids, "; "))
}

func coqPath(steps []selStep) string {
	var l []string
	for _, s := range steps {
		p := "PNone"
		switch s.Kind {
		case 1:
			p = fmt.Sprintf("(PAttr %s %s)", cs(s.Name), cs(s.Val))
		case 2:
			p = fmt.Sprintf("(PIdx %s)", lib.Zs(int64(s.Idx)))
		}
		l = append(l, fmt.Sprintf("mkStep %s %s", cs(s.Tag), p))
	}
	return "[" + strings.Join(l, "; ") + "]"
}

func coqOp(o patchOp) string {
	p := coqPath(o.Steps)
	if o.Attr != "" {
		c := map[string]string{"replace": "OReplaceAttr", "add": "OAddAttr", "remove": "ORemoveAttr"}[o.Kind]
		return fmt.Sprintf("%s %s %s %s", c, p, cs(o.Attr), cs(o.Text))
	}
	switch o.Kind {
	case "replace":
		return fmt.Sprintf("OReplace %s %s", p, coqElem(o.Payload))
	case "add":
		pos := "After"
		if o.Pos == "prepend" {
			pos = "Prepend"
		}
		return fmt.Sprintf("OAdd %s %s %s", p, pos, coqElem(o.Payload))
	}
	return fmt.Sprintf("ORemove %s", p)
}

func coqOps(ops []patchOp) string {
	var l []string
	for _, o := range ops {
		l = append(l, coqOp(o))
	}
	return "[" + strings.Join(l, ";\n   ") + "]"
}

// modelRepresentable: the model takes trees without mixed content, comments or prefixed element
// names, and ASCII strings; positions of a patch must be prepend/after.
func asciiOnly(s string) bool {
	for _, r := range s {
		if r < 32 && r != '\n' && r != '\t' || r > 126 {
			return false
		}
	}
	return true
}
