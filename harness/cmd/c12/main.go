package main

import (
	"bytes"
	"encoding/binary"
	"fmt"
	"go/ast"
	"go/parser"
	"go/token"
	"math/big"
	"math/rand"
	"encoding/json"
	"os"
	"os/exec"
	"path/filepath"
	"regexp"
	"runtime/debug"
	"sort"
	"strconv"
	"strings"
	"sync"
	"time"

	"github.com/Dash-Industry-Forum/livesim2/cmd/livesim2/app"
	"github.com/Eyevinn/mp4ff/mp4"
	"verifharness/lib"
)

func main() { lib.Main("C12", runC12) }

// ---------------------------------------------------------------- observations

type cueObs struct {
	Begin int64  `json:"begin"` // ms, parsed from the TTML attribute / sample start
	End   int64  `json:"end"`
	UTC   int64  `json:"utc"` // UTC second shown (parsed from the RFC 3339 text)
	Lang  string `json:"lang"`
	Nr    int64  `json:"nr"`
	ID    string `json:"id,omitempty"`
	Text  string `json:"utc_text,omitempty"` // the time as written in the cue
}

type sampleObs struct {
	Dur   int64   `json:"dur"`
	IsCue bool    `json:"is_cue"`
	Cue   *cueObs `json:"cue,omitempty"`
	Line2 bool    `json:"line2,omitempty"` // sttg "line:2" present (region 1)
}

type subObs struct {
	Status  int         `json:"status"` // 0 = panic
	Panic   string      `json:"panic,omitempty"`
	Err     string      `json:"err,omitempty"`
	Nr      int64       `json:"nr"`
	Time    int64       `json:"time"`
	Dur     int64       `json:"dur"` // stpp: duration of the single sample; wvtt: sum of the sample durations
	Lang    string      `json:"lang,omitempty"`
	Region  int         `json:"region"`
	Cues    []cueObs    `json:"cues,omitempty"`
	Samples []sampleObs `json:"samples,omitempty"`
	NSamp   int         `json:"nsamples"`
}

var reCue = regexp.MustCompile(`<p xml:id="([^"]*)" begin="([^"]*)" end="([^"]*)"><span style="s1">([^<]*)<br/>([^ ]*) # (-?\d+)</span></p>`)
var reRegion = regexp.MustCompile(`<div region="r(-?\d+)">`)
var reLang = regexp.MustCompile(`xml:lang="([^"]*)"`)
var reBadDur = regexp.MustCompile(`(minimumUpdatePeriod|maxSegmentDuration|suggestedPresentationDelay)="PT\d+[^0-9.S"][^"]*"`)
var reTTMLTime = regexp.MustCompile(`^(-?\d+):(-?\d+):(-?\d+)\.(-?\d+)$`)

// parseTTMLTime reads hh:mm:ss.mmm the way a TTML reader does.
func parseTTMLTime(s string) (h, m, sec, ms int64, ok bool) {
	g := reTTMLTime.FindStringSubmatch(s)
	if g == nil {
		return 0, 0, 0, 0, false
	}
	v := make([]int64, 4)
	for i := range v {
		x, err := strconv.ParseInt(g[i+1], 10, 64)
		if err != nil {
			return 0, 0, 0, 0, false
		}
		v[i] = x
	}
	return v[0], v[1], v[2], v[3], true
}

func ttmlMS(s string) (int64, bool) {
	h, m, sec, ms, ok := parseTTMLTime(s)
	return ((h*60+m)*60+sec)*1000 + ms, ok
}

func utcSecond(s string) (int64, bool) {
	t, err := time.Parse(time.RFC3339, s)
	if err != nil {
		return 0, false
	}
	return t.Unix(), true
}

// parseSubSegment decodes a served timestpp / timewvtt segment with the harness's own reading of the boxes.
func parseSubSegment(resp lib.Resp, wvtt bool, trex *mp4.TrexBox) subObs {
	o := subObs{Status: resp.Status, Panic: resp.Panic}
	if resp.Panic != "" {
		o.Status = 0
		return o
	}
	if resp.Status != 200 {
		o.Err = strings.TrimSpace(string(resp.Body))
		return o
	}
	f, err := mp4.DecodeFile(bytes.NewReader(resp.Body))
	if err != nil || len(f.Segments) != 1 || len(f.Segments[0].Fragments) != 1 {
		o.Status, o.Err = -1, fmt.Sprintf("unparsable segment: %v", err)
		return o
	}
	frag := f.Segments[0].Fragments[0]
	o.Nr = int64(frag.Moof.Mfhd.SequenceNumber)
	o.Time = int64(frag.Moof.Traf.Tfdt.BaseMediaDecodeTime())
	fss, err := frag.GetFullSamples(trex)
	if err != nil {
		o.Status, o.Err = -1, "samples: "+err.Error()
		return o
	}
	o.NSamp = len(fss)
	if !wvtt {
		if len(fss) != 1 {
			o.Status, o.Err = -1, fmt.Sprintf("%d samples in an stpp segment", len(fss))
			return o
		}
		o.Dur = int64(fss[0].Dur)
		doc := string(fss[0].Data)
		if g := reRegion.FindStringSubmatch(doc); g != nil {
			o.Region, _ = strconv.Atoi(g[1])
		} else {
			o.Region = -1
		}
		if g := reLang.FindStringSubmatch(doc); g != nil {
			o.Lang = g[1]
		}
		for _, g := range reCue.FindAllStringSubmatch(doc, -1) {
			b, ok1 := ttmlMS(g[2])
			e, ok2 := ttmlMS(g[3])
			u, ok3 := utcSecond(g[4])
			nr, _ := strconv.ParseInt(g[6], 10, 64)
			if !ok1 || !ok2 || !ok3 {
				o.Status, o.Err = -1, "unparsable cue "+g[0]
				return o
			}
			o.Cues = append(o.Cues, cueObs{Begin: b, End: e, UTC: u, Lang: g[5], Nr: nr, ID: g[1], Text: g[4]})
		}
		if strings.Count(doc, "<p ") != len(o.Cues) {
			o.Status, o.Err = -1, "a <p> element does not have the expected form"
		}
		return o
	}
	t := o.Time
	for _, fs := range fss {
		so := sampleObs{Dur: int64(fs.Dur)}
		o.Dur += int64(fs.Dur)
		data := fs.Data
		// boxes of the sample: vtte (empty cue) or vttc (sttg? payl)
		if len(data) < 8 {
			o.Status, o.Err = -1, "wvtt sample shorter than a box"
			return o
		}
		size := int(binary.BigEndian.Uint32(data[0:4]))
		typ := string(data[4:8])
		if size != len(data) {
			o.Status, o.Err = -1, fmt.Sprintf("wvtt sample: box size %d, sample size %d", size, len(data))
			return o
		}
		switch typ {
		case "vtte":
		case "vttc":
			so.IsCue = true
			pos := 8
			for pos+8 <= len(data) {
				sz := int(binary.BigEndian.Uint32(data[pos : pos+4]))
				ty := string(data[pos+4 : pos+8])
				if sz < 8 || pos+sz > len(data) {
					o.Status, o.Err = -1, "wvtt sample: bad child box"
					return o
				}
				body := string(data[pos+8 : pos+sz])
				switch ty {
				case "sttg":
					so.Line2 = body == "line:2"
				case "payl":
					lines := strings.SplitN(body, "\n", 2)
					co := cueObs{Begin: t, End: t + int64(fs.Dur), Text: lines[0]}
					if len(lines) == 2 {
						if u, ok := utcSecond(lines[0]); ok {
							co.UTC = u
						} else {
							o.Status, o.Err = -1, "wvtt cue text: "+body
							return o
						}
						parts := strings.SplitN(lines[1], " # ", 2)
						if len(parts) == 2 {
							co.Lang = parts[0]
							co.Nr, _ = strconv.ParseInt(parts[1], 10, 64)
						}
					} else {
						o.Status, o.Err = -1, "wvtt cue text: "+body
						return o
					}
					so.Cue = &co
				}
				pos += sz
			}
			if so.Cue == nil {
				o.Status, o.Err = -1, "vttc without payl"
				return o
			}
		default:
			o.Status, o.Err = -1, "wvtt sample with box "+typ
			return o
		}
		t += int64(fs.Dur)
		o.Samples = append(o.Samples, so)
	}
	return o
}

// ---------------------------------------------------------------- the property text (oracle)

// roundDiv is the nearest integer of a/b (halves up), in exact arithmetic.
func roundDiv(a, b int64) int64 {
	x := new(big.Int).Mul(big.NewInt(2), big.NewInt(a))
	x.Add(x, big.NewInt(b))
	x.Div(x, new(big.Int).Mul(big.NewInt(2), big.NewInt(b)))
	return x.Int64()
}

type wantCue struct{ Begin, End, UTC int64 }

// expectedCues: for every UTC second that intersects [U, U+D) one cue starting at that second (or at
// the segment start), lasting cueDur clipped so that it neither leaves the segment nor overlaps the
// next cue; a cue whose time is already over when the segment starts does not exist. Media times.
func expectedCues(T, D, U, cueDur int64) []wantCue {
	var out []wantCue
	if D <= 0 {
		return out
	}
	fl := func(x int64) int64 { // floor(x/1000)
		q := x / 1000
		if x%1000 < 0 {
			q--
		}
		return q
	}
	for q := fl(U); q*1000 < U+D; q++ {
		b := max(q*1000, U)
		e := min(q*1000+cueDur, (q+1)*1000, U+D)
		if b < e {
			out = append(out, wantCue{b + (T - U), e + (T - U), q})
		}
	}
	return out
}

// designCuesLong: what calcCueItvls is designed to do for cue durations above 1000 ms (TestCalcCueItvls
// "long cue"): one cue per k = ceil(cueDur/1000) seconds, at the multiples of k seconds, lasting cueDur,
// clipped to the segment; a cue that is over before the segment starts does not exist.
func designCuesLong(T, D, U, cueDur int64) []wantCue {
	var out []wantCue
	k := (cueDur + 999) / 1000
	if D <= 0 || k <= 0 || U < 0 {
		return out
	}
	for q := U / (1000 * k) * k; q*1000 < U+D; q += k {
		b := max(q*1000, U)
		e := min(q*1000+cueDur, U+D)
		if b < e {
			out = append(out, wantCue{b + (T - U), e + (T - U), q})
		}
	}
	return out
}

func sameCues(got []cueObs, want []wantCue) bool {
	if len(got) != len(want) {
		return false
	}
	for i := range got {
		if got[i].Begin != want[i].Begin || got[i].End != want[i].End || got[i].UTC != want[i].UTC {
			return false
		}
	}
	return true
}

type segIn struct {
	Kind    string `json:"kind"` // "segment"
	Asset   string `json:"asset"`
	Gen     bool   `json:"generated_asset,omitempty"`
	Wvtt    bool   `json:"wvtt"`
	Lang    string `json:"lang"`
	Langs   string `json:"langs"`
	Mode    string `json:"mode"` // number | tlnr | tlt
	StartS  int64  `json:"start_s"`
	CueDur  int64  `json:"cue_dur_ms"` // 0 = not in the URL (default 900)
	Region  int    `json:"region"`     // -1 = not in the URL
	N       int64  `json:"n"`          // video segment index from the start of the stream
	NowMS   int64  `json:"now_ms"`
	URL     string `json:"url"`
	RefURL  string `json:"ref_url"`
	LateU   int64  `json:"u_mod_1000,omitempty"`
	EffCue  int64  `json:"effective_cue_dur_ms"`
	OffGrid bool   `json:"segment_start_off_ms_grid,omitempty"`
	// Concurrent: the request was one of many issued at the same time against the same server; a
	// replay issues it together with a crowd of other subtitle requests
	Concurrent bool `json:"concurrent,omitempty"`
	Snr        int64 `json:"snr"`  // -1 = not in the URL
	Tsbd       int64 `json:"tsbd"` // -1 = not in the URL
	Listed     bool  `json:"listed_in_mpd,omitempty"` // the segment was taken from the MPD's SegmentTimeline
	MPDURL     string `json:"mpd_url,omitempty"`
}

func (in segIn) cue() int64 {
	if in.CueDur == 0 {
		return 900
	}
	return in.CueDur
}

// checkSegment evaluates the property on one served subtitle segment against the served reference
// video segment (nr, tfdt, dur in the video timescale ts).
func checkSegment(c *lib.Ctx, id string, in segIn, ref lib.SegObs, ts int64, o subObs) {
	// failures in the domains where the code is known to be wrong are keyed by the domain, so that a
	// failure inside the proved domain can never hide behind them
	stream := ""
	T0 := roundDiv(ref.Tfdt*1000, ts)
	switch {
	case in.cue() > 1000:
		stream = "long-cue:"
	}
	_ = T0
	fail := func(key, what string) {
		if key == "long-cue" || key == "cue-end-before-begin:late-start" {
			c.Fail(id, key, what, in)
			return
		}
		if in.OffGrid && stream == "" {
			c.Fail(id, "off-ms-grid:"+key, what, in)
			return
		}
		c.Fail(id, stream+key, what, in)
	}
	if o.Status == 0 {
		fail("panic:"+o.Panic, "handler panic")
		return
	}
	if o.Status != 200 {
		if in.OffGrid && in.Mode == "tlt" && (o.Status == 404 || o.Status == 500) {
			c.Fail(id, "off-ms-grid:time-request", fmt.Sprintf("%s -> %d although this is the $Time$ of the video segment in ms (the video segment starts at %d/%d, not a whole millisecond)", in.URL, o.Status, ref.Tfdt, ts), in)
			return
		}
		fail(fmt.Sprintf("status-%d", o.Status), fmt.Sprintf("%s -> %d %s (the reference video segment %s is served)", in.URL, o.Status, o.Err, in.RefURL))
		return
	}
	T := roundDiv(ref.Tfdt*1000, ts)
	D := roundDiv(ref.Dur*1000, ts)
	if o.Nr != ref.Seq {
		fail("segment-number", fmt.Sprintf("sequence number %d, reference video segment has %d", o.Nr, ref.Seq))
	}
	if o.Time != T {
		fail("decode-time", fmt.Sprintf("tfdt %d ms, reference video segment starts at %d/%d = %d ms", o.Time, ref.Tfdt, ts, T))
	}
	if o.Dur != D {
		key := "duration"
		if in.Wvtt {
			key = "wvtt-not-tiling"
		}
		fail(key, fmt.Sprintf("duration %d ms (sum over %d samples), reference video segment lasts %d/%d = %d ms", o.Dur, o.NSamp, ref.Dur, ts, D))
	}
	U := T + in.StartS*1000
	cd := in.cue()
	want := expectedCues(T, D, U, cd)
	var got []cueObs
	if in.Wvtt {
		for _, s := range o.Samples {
			if s.Dur <= 0 || s.Dur >= 1<<31 {
				key := "wvtt-sample-duration"
				if U%1000 >= cd && cd <= 1000 {
					key = "cue-end-before-begin:late-start"
				}
				fail(key, fmt.Sprintf("wvtt sample with duration %d (uint32 of a negative difference)", s.Dur))
				return
			}
			if s.IsCue {
				got = append(got, *s.Cue)
				wantL2 := in.Region == 1
				if s.Line2 != wantL2 {
					fail("region", fmt.Sprintf("cue settings line:2 = %v with timesubsreg_%d", s.Line2, in.Region))
				}
			}
		}
	} else {
		got = o.Cues
		wantReg := in.Region
		if wantReg < 0 {
			wantReg = 0
		}
		if o.Region != wantReg {
			fail("region", fmt.Sprintf("TTML region r%d, configured %d", o.Region, wantReg))
		}
		if o.Lang != in.Lang {
			fail("language", fmt.Sprintf("xml:lang %q, requested %q", o.Lang, in.Lang))
		}
	}
	// classify a difference
	diffKey := func() string {
		switch {
		case cd > 1000:
			return "long-cue"
		case U%1000 >= cd:
			return "cue-end-before-begin:late-start"
		default:
			return "cues-wrong"
		}
	}
	same := len(got) == len(want)
	if same {
		for i := range got {
			if got[i].Begin != want[i].Begin || got[i].End != want[i].End || got[i].UTC != want[i].UTC {
				same = false
			}
		}
	}
	if !same {
		fail(diffKey(), fmt.Sprintf("cues %s, expected %s for segment [%d,%d) ms, UTC %d ms, cue duration %d", fmtGot(got), fmtWant(want), T, T+D, U, cd))
	}
	if cd > 1000 {
		if dl := designCuesLong(T, D, U, cd); !sameCues(got, dl) {
			fail("not-the-design", fmt.Sprintf("cues %s, the design for long cues (one per %d s) gives %s for segment [%d,%d) ms, UTC %d ms, cue duration %d", fmtGot(got), (cd+999)/1000, fmtWant(dl), T, T+D, U, cd))
		}
	}
	prevEnd := T
	for i, g := range got {
		if !(g.Begin < g.End) || g.Begin < prevEnd || g.End > T+D {
			if same || cd > 1000 {
				fail("cues-malformed", fmt.Sprintf("cue %d [%d,%d) not ordered/inside [%d,%d)", i, g.Begin, g.End, T, T+D))
			}
		}
		prevEnd = g.End
		// "showing that UTC second": the RFC 3339 time in UTC ("Z") form, whatever the time zone of the process
		if wantText := time.Unix(g.UTC, 0).UTC().Format(time.RFC3339); g.Text != wantText {
			fail("cue-text", fmt.Sprintf("cue %d shows the time %q, the UTC second is %q", i, g.Text, wantText))
		}
		if g.Lang != in.Lang || g.Nr != ref.Seq {
			fail("cue-text", fmt.Sprintf("cue %d shows language %q and number %d, expected %q and %d", i, g.Lang, g.Nr, in.Lang, ref.Seq))
		}
		if !in.Wvtt && g.ID != fmt.Sprintf("%d-%d", ref.Seq, i) {
			fail("cue-text", fmt.Sprintf("cue %d has xml:id %q", i, g.ID))
		}
	}
}

func fmtGot(l []cueObs) string {
	var sb strings.Builder
	sb.WriteString("[")
	for i, g := range l {
		if i > 0 {
			sb.WriteString(" ")
		}
		fmt.Fprintf(&sb, "(%d,%d)@%d", g.Begin, g.End, g.UTC)
	}
	sb.WriteString("]")
	return sb.String()
}
func fmtWant(l []wantCue) string {
	var sb strings.Builder
	sb.WriteString("[")
	for i, g := range l {
		if i > 0 {
			sb.WriteString(" ")
		}
		fmt.Fprintf(&sb, "(%d,%d)@%d", g.Begin, g.End, g.UTC)
	}
	sb.WriteString("]")
	return sb.String()
}

// ---------------------------------------------------------------- Coq terms

func cuesTerm(l []cueObs) string {
	items := make([]string, len(l))
	for i, g := range l {
		items[i] = fmt.Sprintf("(%s,%s,%s)", lib.Zs(g.Begin), lib.Zs(g.End), lib.Zs(g.UTC))
	}
	return "[" + strings.Join(items, ";") + "]"
}

func samplesTerm(l []sampleObs) string {
	items := make([]string, len(l))
	for i, s := range l {
		cue := "None"
		if s.IsCue {
			cue = fmt.Sprintf("(Some %s)", lib.Zs(s.Cue.UTC))
		}
		items[i] = fmt.Sprintf("(%s,%s)", lib.Zs(s.Dur), cue)
	}
	return "[" + strings.Join(items, ";") + "]"
}

type sEntry struct {
	HasT bool
	T, D int64
	R    int64
}

func entriesTerm(l []sEntry) string {
	items := make([]string, len(l))
	for i, e := range l {
		t := "None"
		if e.HasT {
			t = fmt.Sprintf("(Some %d)", e.T)
		}
		items[i] = fmt.Sprintf("(%s,%d,%s)", t, e.D, lib.Zs(e.R))
	}
	return "[" + strings.Join(items, ";") + "]"
}

func fromSObs(l []lib.SObs) []sEntry {
	out := make([]sEntry, len(l))
	for i, s := range l {
		out[i] = sEntry{HasT: s.T >= 0, T: max(s.T, 0), D: s.D, R: s.R}
	}
	return out
}

// probeTimelineBoundaries decides the variant of changeTimelineTimescale from its BEHAVIOUR: four segments
// of 1601.6 ms (48048/30000 s) from 0. Converting t and d separately gives one S element (d=1602 r=3);
// converting every boundary gives the starts 0, 1602, 3203, 4805, i.e. durations 1602, 1601, 1602, 1601.
func probeTimelineBoundaries() (bnd bool) {
	defer func() {
		if recover() != nil {
			bnd = false
		}
	}()
	out := app.VerifChangeTimelineTimescale([]app.VerifS{{HasT: true, T: 0, D: 48048, R: 3}}, 30000, 1000)
	var e []sEntry
	for _, s := range out {
		e = append(e, sEntry{HasT: s.HasT, T: int64(s.T), D: int64(s.D), R: int64(s.R)})
	}
	x := expandEntries(e)
	return len(x) == 4 && x[1][0] == 1602 && x[2][0] == 3203 && x[3][0] == 4805
}

// timelineBoundaries reads livempd.go of the tree under test: does changeTimelineTimescale convert every
// segment boundary on its own (a counting loop over the repeats of an S element inside the loop over
// the S elements), or the first t and every d separately (no inner loop)? The model follows.
func timelineBoundaries() (bool, string) {
	root := os.Getenv("VERIF_REPO")
	if root == "" {
		root = "/repo"
	}
	path := filepath.Join(root, "cmd", "livesim2", "app", "livempd.go")
	file, err := parser.ParseFile(token.NewFileSet(), path, nil, 0)
	if err != nil {
		return false, err.Error()
	}
	for _, d := range file.Decls {
		f, ok := d.(*ast.FuncDecl)
		if !ok || f.Name.Name != "changeTimelineTimescale" {
			continue
		}
		inner := false
		ast.Inspect(f.Body, func(n ast.Node) bool {
			if rs, ok := n.(*ast.RangeStmt); ok {
				ast.Inspect(rs.Body, func(m ast.Node) bool {
					switch m.(type) {
					case *ast.ForStmt, *ast.RangeStmt:
						inner = true
					}
					return true
				})
			}
			return true
		})
		return inner, ""
	}
	return false, "changeTimelineTimescale not found in " + path
}

// expandEntries lists (start, duration) of every segment of a timeline.
func expandEntries(l []sEntry) [][2]int64 {
	var out [][2]int64
	t := int64(0)
	for _, e := range l {
		if e.HasT {
			t = e.T
		}
		for i := int64(0); i <= e.R; i++ {
			out = append(out, [2]int64{t, e.D})
			t += e.D
		}
	}
	return out
}

// mirrorsInMS: the subtitle timeline lists the video segments in milliseconds: as many segments, each
// starting at the video segment's start in ms and lasting until the next start in ms. Returns "" or
// what is wrong; offGrid = some video boundary is not a whole millisecond.
func mirrorsInMS(video, sub []sEntry, ts int64) (what string, offGrid bool) {
	v, s := expandEntries(video), expandEntries(sub)
	for _, x := range v {
		if (x[0]*1000)%ts != 0 || (x[1]*1000)%ts != 0 {
			offGrid = true
		}
	}
	if len(v) != len(s) {
		return fmt.Sprintf("%d segments listed, video timeline has %d", len(s), len(v)), offGrid
	}
	for k := range v {
		ws, we := roundDiv(v[k][0]*1000, ts), roundDiv((v[k][0]+v[k][1])*1000, ts)
		if s[k][0] != ws {
			return fmt.Sprintf("segment %d of the timeline starts at %d ms, the video segment at %d/%d = %d ms", k, s[k][0], v[k][0], ts, ws), offGrid
		}
		if s[k][1] != we-ws {
			return fmt.Sprintf("segment %d of the timeline lasts %d ms, the video segment [%d,%d)/%d = [%d,%d) ms", k, s[k][1], v[k][0], v[k][0]+v[k][1], ts, ws, we), offGrid
		}
	}
	return "", offGrid
}

// ---------------------------------------------------------------- run

type runner struct {
	extraModelCases int // cases written by child processes
	perAsset int    // server cases per asset (0: default)
	tz       string // time zone of this (child) process, "" in the parent
	bnd      bool // changeTimelineTimescale converts boundaries one by one (read from the source)
	c        *lib.Ctx
	terms    []string
	nextID   int
	distinct map[string]bool
	evals    int
}

func (r *runner) id() (int, string) {
	i := r.nextID
	r.nextID++
	return i, strconv.Itoa(i)
}

type directCue struct {
	Kind                 string `json:"kind"` // "cue"
	SegStart, SegDur     int64
	UtcStart, CueDur     int64
	LateU                int64 `json:"u_mod_1000,omitempty"`
	SegStartOnWholeSecond bool  `json:"-"`
}

func callCue(in directCue) (class int, cues []cueObs, msg string) {
	defer func() {
		if r := recover(); r != nil {
			class, cues, msg = 3, nil, fmt.Sprint(r)
		}
	}()
	l := app.VerifCalcCueItvls(int(in.SegStart), int(in.SegDur), int(in.UtcStart), int(in.CueDur))
	for _, ci := range l {
		cues = append(cues, cueObs{Begin: int64(ci.StartMS), End: int64(ci.EndMS), UTC: int64(ci.UtcS)})
	}
	return 0, cues, ""
}

func oracleCue(c *lib.Ctx, id string, in directCue, class int, got []cueObs, msg string) {
	if in.CueDur <= 0 {
		return // refused by the configuration (400), not reachable through a request
	}
	if in.SegDur <= 0 || in.UtcStart < 0 {
		return
	}
	if class != 0 {
		c.Fail(id, "panic:app.calcCueItvls:"+msg, "calcCueItvls panics", in)
		return
	}
	want := expectedCues(in.SegStart, in.SegDur, in.UtcStart, in.CueDur)
	same := len(got) == len(want)
	if same {
		for i := range got {
			if got[i].Begin != want[i].Begin || got[i].End != want[i].End || got[i].UTC != want[i].UTC {
				same = false
			}
		}
	}
	if in.CueDur > 1000 {
		if dl := designCuesLong(in.SegStart, in.SegDur, in.UtcStart, in.CueDur); !sameCues(got, dl) {
			c.Fail(id, "long-cue:not-the-design", fmt.Sprintf("calcCueItvls(%d,%d,%d,%d) = %s, the design for long cues gives %s", in.SegStart, in.SegDur, in.UtcStart, in.CueDur, fmtGot(got), fmtWant(dl)), in)
		}
	}
	if in.CueDur > 1000 { // whatever the design for long cues: ordered, non-empty, inside the segment
		prev := in.SegStart
		for i, g := range got {
			if !(g.Begin < g.End) || g.Begin < prev || g.End > in.SegStart+in.SegDur {
				c.Fail(id, "long-cue:cues-malformed", fmt.Sprintf("calcCueItvls(%d,%d,%d,%d) = %s: cue %d not ordered/inside the segment", in.SegStart, in.SegDur, in.UtcStart, in.CueDur, fmtGot(got), i), in)
				break
			}
			prev = g.End
		}
	}
	if !same {
		key := "cues-wrong"
		if in.CueDur > 1000 {
			key = "long-cue"
		} else if in.UtcStart%1000 >= in.CueDur {
			key = "cue-end-before-begin:late-start"
		}
		c.Fail(id, key, fmt.Sprintf("calcCueItvls(%d,%d,%d,%d) = %s, expected %s", in.SegStart, in.SegDur, in.UtcStart, in.CueDur, fmtGot(got), fmtWant(want)), in)
	}
}

func runC12(c *lib.Ctx) error {
	if c.Replay != "" {
		return replayC12(c)
	}
	debug.SetGCPercent(400)
	rng := rand.New(rand.NewSource(c.Seed))
	r := &runner{c: c, distinct: map[string]bool{}}
	if tz := os.Getenv("C12_CHILD_TZ"); tz != "" {
		return runChildTZ(c, r, rng, tz)
	}
	r.bnd = probeTimelineBoundaries()
	c.Res.Notes = append(c.Res.Notes, fmt.Sprintf("changeTimelineTimescale in the tree under test converts every boundary on its own (probed through the hook): %v", r.bnd))
	if b, problem := timelineBoundaries(); problem != "" {
		c.Res.Notes = append(c.Res.Notes, "changeTimelineTimescale variant not recognised syntactically ("+problem+"): taken from the probe")
	} else if b != r.bnd {
		c.Res.Notes = append(c.Res.Notes, fmt.Sprintf("changeTimelineTimescale: the syntactic reading of livempd.go says boundaries=%v, the behaviour says %v: the model follows the behaviour", b, r.bnd))
	}
	scale := 1
	if c.Thorough() {
		scale = 10
	}

	// ------------------------------------------------------------ 1. calcCueItvls directly (hook)
	var cues []directCue
	addCue := func(s, d, u, cd int64, kind string) {
		cues = append(cues, directCue{Kind: "cue", SegStart: s, SegDur: d, UtcStart: u, CueDur: cd, LateU: u % 1000})
		c.Count("cue:" + kind)
	}
	cueDurs := []int64{1, 2, 100, 499, 500, 501, 899, 900, 901, 998, 999, 1000}
	for i := 0; i < 500*scale; i++ {
		cd := cueDurs[rng.Intn(len(cueDurs))]
		if rng.Intn(3) == 0 {
			cd = 1 + rng.Int63n(1000)
		}
		u := rng.Int63n(4000000000000) // up to ~126 years in ms
		if rng.Intn(3) == 0 {
			u = rng.Int63n(100000)
		}
		d := []int64{2000, 2002, 8000, 6000, 500, 1, 999, 1000, 1001, 1602, 3840, 10000}[rng.Intn(12)]
		if rng.Intn(4) == 0 {
			d = 1 + rng.Int63n(12000)
		}
		// breakpoints: utc start on / next to a whole second, next to the cue end, segment end on / next to a second
		switch rng.Intn(8) {
		case 0:
			u = u / 1000 * 1000
		case 1:
			u = u/1000*1000 + 999
		case 2:
			u = u/1000*1000 + cd
		case 3:
			u = u/1000*1000 + cd - 1
		case 4:
			u = u/1000*1000 + cd + 1
		case 5:
			u = (u+d)/1000*1000 - d
		case 6:
			u = (u+d)/1000*1000 - d + 1
		}
		if u < 0 {
			u = 0
		}
		s := u
		if rng.Intn(2) == 0 {
			s = u - rng.Int63n(u+1) // non-zero start time: media time = utc - start
		}
		kind := "in-domain"
		if u%1000 >= cd {
			kind = "late-start"
		}
		addCue(s, d, u, cd, kind)
	}
	for i := 0; i < 100*scale; i++ { // findings stream: cue durations above 1000
		cd := []int64{1001, 1500, 2000, 2500, 3000, 5000, 60000}[rng.Intn(7)]
		if rng.Intn(3) == 0 {
			cd = 1001 + rng.Int63n(9000)
		}
		u := rng.Int63n(2000000000000)
		addCue(u-rng.Int63n(2)*rng.Int63n(u+1), []int64{2000, 2002, 8000, 500}[rng.Intn(4)], u, cd, "long-cue")
	}
	for i := 0; i < 20*scale; i++ { // cue duration <= 0 (refused with 400 on the request path)
		cd := []int64{0, -1, -500, -999}[rng.Intn(4)]
		u := rng.Int63n(2000000000000)
		addCue(u, 2000, u, cd, "cue-dur-not-positive")
	}
	for _, in := range cues {
		idn, id := r.id()
		class, got, msg := callCue(in)
		c.Res.Inputs[id] = in
		oracleCue(c, id, in, class, got, msg)
		r.evals++
		r.terms = append(r.terms, fmt.Sprintf("CCue %d %s %s %s %s %d %s", idn, lib.Zs(in.SegStart), lib.Zs(in.SegDur), lib.Zs(in.UtcStart), lib.Zs(in.CueDur), class, cuesTerm(got)))
		if len(got) > 0 {
			r.distinct[fmt.Sprint("c", in)] = true
		}
		if idn%211 == 0 {
			c.Sample(map[string]any{"input": in, "class": class, "cues": got})
		}
	}

	// ------------------------------------------------------------ 2. msToTTMLTime, rep2SubsTime, changeTimelineTimescale
	for i := 0; i < 300*scale; i++ {
		ms := rng.Int63n(1 << uint(1+rng.Intn(42)))
		switch rng.Intn(6) {
		case 0:
			ms = ms / 3600000 * 3600000
		case 1:
			ms = ms/3600000*3600000 + 3599999
		case 2:
			ms = ms / 60000 * 60000
		case 3:
			ms = ms/1000*1000 + 999
		}
		s := app.VerifMsToTTMLTime(int(ms))
		idn, id := r.id()
		in := map[string]any{"kind": "ttml", "ms": ms}
		c.Res.Inputs[id] = in
		c.Count("ttml-time")
		r.evals++
		h, m, sec, f, ok := parseTTMLTime(s)
		if !ok {
			c.Fail(id, "ttml-time", fmt.Sprintf("msToTTMLTime(%d) = %q", ms, s), in)
		} else if back, _ := ttmlMS(s); back != ms || m >= 60 || sec >= 60 || f >= 1000 || len(s) < 12 {
			c.Fail(id, "ttml-time", fmt.Sprintf("msToTTMLTime(%d) = %q reads back as %d", ms, s, back), in)
		}
		r.terms = append(r.terms, fmt.Sprintf("CTtml %d %d (%d,%d,%d,%d)", idn, ms, h, m, sec, f))
	}
	tss := []int64{1000, 10000, 12800, 15360, 24000, 30000, 48000, 60000, 90000, 10000000, 44100, 1001}
	for i := 0; i < 300*scale; i++ {
		ts := tss[rng.Intn(len(tss))]
		t := rng.Int63n(1 << uint(10+rng.Intn(40)))
		onGrid := false
		if rng.Intn(2) == 0 { // on the millisecond grid
			g := ts / gcd(ts, 1000) // t*1000 mod ts = 0 iff t is a multiple of g
			t = rng.Int63n((1<<53)/1000/g) * g
			onGrid = true
		}
		out := int64(app.VerifRep2SubsTime(uint64(t), int(ts)))
		exact := t < (1<<53)/1000
		idn, id := r.id()
		in := map[string]any{"kind": "rep2substime", "t": t, "timescale": ts}
		c.Res.Inputs[id] = in
		c.Count(fmt.Sprintf("rep2substime:grid=%v", onGrid))
		r.evals++
		if exact && out != roundDiv(t*1000, ts) {
			c.Fail(id, "milliseconds", fmt.Sprintf("rep2SubsTime(%d,%d) = %d, nearest millisecond is %d", t, ts, out, roundDiv(t*1000, ts)), in)
		}
		r.terms = append(r.terms, fmt.Sprintf("CRep %d %d %d %s %d", idn, t, ts, lib.Cbool(exact), out))
	}
	for i := 0; i < 150*scale; i++ {
		ts := tss[rng.Intn(len(tss))]
		n := 1 + rng.Intn(5)
		var inp []app.VerifS
		var ein []sEntry
		t := rng.Int63n(1 << uint(20+rng.Intn(28)))
		exact := true
		for k := 0; k < n; k++ {
			d := 1 + rng.Int63n(10*ts)
			if rng.Intn(2) == 0 {
				d = (1 + rng.Int63n(10000)) * ts / 1000
				if d == 0 {
					d = 1
				}
			}
			rr := rng.Intn(40)
			hasT := k == 0 || rng.Intn(3) == 0
			inp = append(inp, app.VerifS{HasT: hasT, T: uint64(t), D: uint64(d), R: rr})
			ein = append(ein, sEntry{HasT: hasT, T: t, D: d, R: int64(rr)})
			if t >= (1<<53)/1000 {
				exact = false
			}
			t += d * int64(rr+1)
		}
		outp := app.VerifChangeTimelineTimescale(inp, int(ts), 1000)
		var eout []sEntry
		for _, s := range outp {
			eout = append(eout, sEntry{HasT: s.HasT, T: int64(s.T), D: int64(s.D), R: int64(s.R)})
		}
		idn, id := r.id()
		in := map[string]any{"kind": "timeline", "timescale": ts, "entries": ein}
		c.Res.Inputs[id] = in
		c.Count("changeTimelineTimescale")
		r.evals++
		if exact {
			if what, off := mirrorsInMS(ein, eout, ts); what != "" {
				key := "mpd-mirror"
				if off {
					key = "off-ms-grid:mpd-timeline-drift"
				}
				c.Fail(id, key, fmt.Sprintf("changeTimelineTimescale(%v, %d, 1000) = %v: %s", ein, ts, eout, what), in)
			}
		}
		r.terms = append(r.terms, fmt.Sprintf("CScale %d %s %d 1000 %s %s %s", idn, lib.Cbool(r.bnd), ts, lib.Cbool(exact), entriesTerm(ein), entriesTerm(eout)))
	}

	// ------------------------------------------------------------ 3. through the server
	bundled, err := lib.LoadBundledAssets(lib.TestVodRoot)
	if err != nil {
		return err
	}
	ls, err := lib.NewLivesim(lib.TestVodRoot, nil)
	if err != nil {
		return err
	}
	var assets []*lib.TLAsset
	for _, a := range bundled {
		if a.Path == "testpic_2s" || a.Path == "testpic_8s" || strings.HasPrefix(a.Path, "WAVE/vectors/cfhd_sets/14.985_29.97_59.94/t1") {
			if a.Ref() != nil {
				assets = append(assets, a)
			}
		}
	}
	if len(assets) < 3 {
		return fmt.Errorf("bundled assets not found (%d)", len(assets))
	}
	if err := r.serverCases(ls, assets, false, rng, scale); err != nil {
		return err
	}
	// the same server instance, many requests at the same time
	if err := r.concurrentCases(ls, assets, rng, scale); err != nil {
		return err
	}
	// generated assets: segment boundaries off the whole second and off the millisecond grid
	gen := genAssets()
	gassets, gls, cleanup, err := lib.GenSetup("c12", gen)
	if err != nil {
		return fmt.Errorf("generated assets: %w", err)
	}
	defer cleanup()
	if err := r.serverCases(gls, gassets, true, rng, scale); err != nil {
		return err
	}

	// the process environment: part of the server cases again in child processes whose local time zone
	// is not UTC (TZ in the environment of the process that runs the server)
	zones := []string{"Europe/Helsinki", "America/St_Johns"}
	if c.Thorough() {
		zones = append(zones, "Asia/Kolkata", "Pacific/Chatham")
	}
	if err := r.spawnTZChildren(zones); err != nil {
		return err
	}

	c.Res.Evaluations = r.evals
	c.Res.ModelCases = len(r.terms) + r.extraModelCases
	c.Res.DistinctNontrivial = len(r.distinct)
	c.Res.Rule = "direct calls (hook) of calcCueItvls with cue durations 1..1000 (breakpoints: UTC start on/next to a whole second and next to the cue end, segment end on/next to a second; non-zero start), above 1000 and <= 0; msToTTMLTime; rep2SubsTime and changeTimelineTimescale on and off the millisecond grid; served timestpp-<lang>/timewvtt-<lang> segments compared with the served reference video segment for testpic_2s, testpic_8s, the 29.97 fps WAVE asset and three generated assets (0.5 s, 1.6016 s off the ms grid, irregular), cue durations {default,1,500,900,999,1000} and {1001,1500,2500}, regions, languages, Number / SegmentTimeline-Number / SegmentTimeline-Time addressing, start_0 and non-zero start, indices next to loop wraps and far from the epoch; MPD: subtitle SegmentTemplate/SegmentTimeline against the video one; timesubsdur <= 0 and timesubsreg outside 0..1 -> 400. distinct = distinct inputs; non-trivial = at least one cue produced"

	shard := 350
	for s := 0; s*shard < len(r.terms); s++ {
		end := min((s+1)*shard, len(r.terms))
		c.WriteCases(fmt.Sprintf("cases_C12_%d.v", s),
			lib.CasesFile("From Verif Require Import GoSem Subs CorrC12.", "c12case", "", r.terms[s*shard:end], "model_view"))
	}
	sort.Strings(c.Res.Notes)
	return nil
}

// genAssets: generated assets with segment boundaries off the whole second and off the millisecond grid.
func genAssets() []lib.GenAsset {
	return []lib.GenAsset{
		{Name: "g12_half", Reps: []lib.GenRep{lib.VideoRep("V1", 15360, 256, lib.UniformDurs(5, 30*256))}},                    // 0.5 s segments
		{Name: "g12_ntsc48", Reps: []lib.GenRep{lib.VideoRep("V1", 30000, 1001, lib.UniformDurs(5, 48*1001))}},                // 1.6016 s: off the ms grid
		{Name: "g12_irr", Reps: []lib.GenRep{lib.VideoRep("V1", 12800, 512, lib.FrameDurs(512, 50, 25, 75, 48, 52, 10, 40))}}, // irregular 0.4 .. 3 s
	}
}

// runChildTZ: this process was started by the parent harness with TZ=<tz>: server cases over the bundled
// assets with an in-process server whose local time zone is tz.
func runChildTZ(c *lib.Ctx, r *runner, rng *rand.Rand, tz string) error {
	if loc, err := time.LoadLocation(tz); err == nil {
		time.Local = loc // what TZ=<tz> gives; set explicitly in case the zone database is not found through TZ
	} else {
		time.Local = time.FixedZone("XXX", 2*3600+1800)
	}
	r.tz = tz
	r.perAsset = 25
	if base, err := strconv.Atoi(os.Getenv("C12_ID_BASE")); err == nil {
		r.nextID = base
	}
	r.bnd = probeTimelineBoundaries()
	bundled, err := lib.LoadBundledAssets(lib.TestVodRoot)
	if err != nil {
		return err
	}
	ls, err := lib.NewLivesim(lib.TestVodRoot, nil)
	if err != nil {
		return err
	}
	var assets []*lib.TLAsset
	for _, a := range bundled {
		if (a.Path == "testpic_2s" || a.Path == "testpic_8s") && a.Ref() != nil {
			assets = append(assets, a)
		}
	}
	scale := 1
	if c.Thorough() {
		scale = 4
	}
	if err := r.serverCases(ls, assets, false, rng, scale); err != nil {
		return err
	}
	c.Res.Evaluations = r.evals
	c.Res.ModelCases = len(r.terms)
	c.Res.DistinctNontrivial = len(r.distinct)
	tag := strings.NewReplacer("/", "_").Replace(tz)
	shard := 350
	for s := 0; s*shard < len(r.terms); s++ {
		end := min((s+1)*shard, len(r.terms))
		c.WriteCases(fmt.Sprintf("cases_C12_tz_%s_%d.v", tag, s),
			lib.CasesFile("From Verif Require Import GoSem Subs CorrC12.", "c12case", "", r.terms[s*shard:end], "model_view"))
	}
	return nil
}

// spawnTZChildren runs this binary again, once per zone, with TZ set, and merges the results.
func (r *runner) spawnTZChildren(zones []string) error {
	c := r.c
	type res struct {
		zone string
		dir  string
		out  []byte
		err  error
	}
	results := make([]res, len(zones))
	var wg sync.WaitGroup
	for k, z := range zones {
		wg.Add(1)
		go func(k int, z string) {
			defer wg.Done()
			dir := filepath.Join(c.Out, fmt.Sprintf("tz%d", k))
			cmd := exec.Command(os.Args[0], "-prop", c.Prop, "-tier", c.Tier, "-seed", strconv.FormatInt(c.Seed+int64(k)+1, 10), "-out", dir)
			cmd.Env = append(os.Environ(), "TZ="+z, "C12_CHILD_TZ="+z, fmt.Sprintf("C12_ID_BASE=%d", 10000000*(k+1)))
			out, err := cmd.CombinedOutput()
			results[k] = res{z, dir, out, err}
		}(k, z)
	}
	wg.Wait()
	for _, x := range results {
		if x.err != nil {
			return fmt.Errorf("child harness with TZ=%s: %v: %s", x.zone, x.err, x.out)
		}
		data, err := os.ReadFile(filepath.Join(x.dir, "result.json"))
		if err != nil {
			return err
		}
		var cr lib.Result
		if err := json.Unmarshal(data, &cr); err != nil {
			return err
		}
		withTZ := func(in any) any {
			if m, ok := in.(map[string]any); ok {
				m["process_tz"] = x.zone
				return m
			}
			return in
		}
		for id, in := range cr.Inputs {
			c.Res.Inputs[id] = withTZ(in)
		}
		for _, f := range cr.OracleFailures {
			f.Input = withTZ(f.Input)
			f.What += " [server process with TZ=" + x.zone + "]"
			c.Res.OracleFailures = append(c.Res.OracleFailures, f)
		}
		for k, v := range cr.Distribution {
			c.Res.Distribution["tz:"+k] += v
		}
		c.Res.Distribution["process-time-zone:"+x.zone] = cr.Evaluations
		c.Res.CaseFiles = append(c.Res.CaseFiles, cr.CaseFiles...)
		r.evals += cr.Evaluations
		r.extraModelCases += cr.ModelCases
	}
	return nil
}

func gcd(a, b int64) int64 {
	for b != 0 {
		a, b = b, a%b
	}
	return a
}

type subsCfg struct {
	Mode   string
	Snr    int64 // -1 = not in the URL
	Tsbd   int64 // -1 = not in the URL
	StartS int64
	CueDur int64 // 0 = default
	Region int   // -1 = default
	Stpp   []string
	Wvtt   []string
	Other  string // further URL options that must not influence the subtitles (timeoffset_, ato_, periods_, utc_, ...)
}

func (sc subsCfg) tl() lib.TLCfg {
	var sb strings.Builder
	sb.WriteString(sc.Other)
	if len(sc.Stpp) > 0 {
		fmt.Fprintf(&sb, "timesubsstpp_%s/", strings.Join(sc.Stpp, ","))
	}
	if len(sc.Wvtt) > 0 {
		fmt.Fprintf(&sb, "timesubswvtt_%s/", strings.Join(sc.Wvtt, ","))
	}
	if sc.CueDur != 0 {
		fmt.Fprintf(&sb, "timesubsdur_%d/", sc.CueDur)
	}
	if sc.Region >= 0 {
		fmt.Fprintf(&sb, "timesubsreg_%d/", sc.Region)
	}
	return lib.TLCfg{StartS: sc.StartS, Snr: sc.Snr, Tsbd: sc.Tsbd, Mode: sc.Mode, Extra: sb.String()}
}

func (r *runner) serverCases(ls *lib.Livesim, assets []*lib.TLAsset, generated bool, rng *rand.Rand, scale int) error {
	c := r.c
	trexOf := map[string]*mp4.TrexBox{}
	getTrex := func(a *lib.TLAsset, cfg lib.TLCfg, rep string, now int64) (*mp4.TrexBox, error) {
		key := a.Path + "|" + cfg.URLPrefix() + "|" + rep
		if t, ok := trexOf[key]; ok {
			return t, nil
		}
		url := fmt.Sprintf("/livesim2/%s%s/%s/init.mp4?nowMS=%d", cfg.URLPrefix(), a.Path, rep, now)
		resp := ls.GetRaw(url)
		if resp.Status != 200 {
			return nil, fmt.Errorf("%s: status %d %s", url, resp.Status, resp.Panic)
		}
		f, err := mp4.DecodeFile(bytes.NewReader(resp.Body))
		if err != nil || f.Init == nil || f.Init.Moov.Mvex == nil {
			return nil, fmt.Errorf("%s: unparsable init segment", url)
		}
		if ts := f.Init.Moov.Trak.Mdia.Mdhd.Timescale; ts != 1000 {
			c.Fail("init", "subtitle-timescale", fmt.Sprintf("%s: timescale %d, expected 1000", url, ts), map[string]any{"kind": "init", "url": url})
		}
		trexOf[key] = f.Init.Moov.Mvex.Trex
		return trexOf[key], nil
	}
	// languages: two-letter codes, tags with region / script subtags (a dash inside the tag), three-letter
	// codes, upper case, many at once, a duplicate
	langSets := [][]string{{"en"}, {"en", "sv"}, {"de"}, {"sv", "en", "fi"}, {"en", "pt-BR"}, {"zh-Hant", "sv"}, {"sr-Latn-RS"},
		{"eng", "swe"}, {"EN"}, {"en", "sv", "fi", "de", "no", "da", "fr", "es-419"}, {"en", "en"}}
	inDomain := []int64{0, 1, 500, 900, 999, 1000}
	outDomain := []int64{1001, 1500, 2500}
	modes := []string{"number", "tlnr", "tlt"}
	perAsset := 200 * scale
	if r.perAsset > 0 {
		perAsset = r.perAsset * scale
	}
	for _, a := range assets {
		ref := a.Ref()
		N := int64(len(ref.Segs))
		ts := ref.Timescale
		for k := 0; k < perAsset; k++ {
			sc := subsCfg{Mode: modes[k%3], Region: -1, Snr: -1, Tsbd: -1}
			// start number (small, the DASH default 1, huge) and time-shift buffer depth crossed with everything else
			if rng.Intn(3) == 0 {
				sc.Snr = []int64{1, 7, 5000, 4000000000}[rng.Intn(4)]
			}
			if rng.Intn(4) == 0 {
				sc.Tsbd = []int64{20, 120}[rng.Intn(2)]
			}
			// options that only move the server's clock or change the MPD around the segments: the cue at
			// media time T must still show the UTC second T + start
			if rng.Intn(3) == 0 {
				sc.Other = []string{"timeoffset_10/", "timeoffset_-10/", "timeoffset_0.5/", "timeoffset_7.25/", "timeoffset_-3.75/", "ato_1/", "periods_60/",
					"utc_direct-head/", "ltgt_2500/", "spd_6/", "mup_4/", "sidx_1/", "patch_60/"}[rng.Intn(13)]
				if sc.Other == "periods_60/" && a.Path != "testpic_2s" {
					sc.Other = "" // a period must be a whole number of segments
				}
			}
			if rng.Intn(2) == 0 {
				sc.Region = rng.Intn(2)
			}
			sc.CueDur = inDomain[rng.Intn(len(inDomain))]
			stream := "in-domain"
			if k%7 == 6 {
				sc.CueDur = outDomain[rng.Intn(len(outDomain))]
				stream = "long-cue"
			}
			switch rng.Intn(4) {
			case 0:
				sc.StartS = []int64{1, 7, 1000, 86400, 1600000000}[rng.Intn(5)]
			}
			wvtt := rng.Intn(2) == 0
			langs := langSets[rng.Intn(len(langSets))]
			lang := langs[rng.Intn(len(langs))]
			if wvtt {
				sc.Wvtt = langs
				if rng.Intn(3) == 0 {
					sc.Stpp = []string{"en"}
				}
			} else {
				sc.Stpp = langs
				if rng.Intn(3) == 0 {
					sc.Wvtt = []string{"de"}
				}
			}
			// segment index: first ones, next to a loop wrap, far away
			var n int64
			switch rng.Intn(5) {
			case 0:
				n = int64(rng.Intn(3))
			case 1:
				n = (1+rng.Int63n(2000))*N - 1 + int64(rng.Intn(3)) - 1
			case 2:
				n = rng.Int63n(400000000 / max(ref.Duration()*1000/ts/N, 1)) // up to ~12 years
			default:
				n = rng.Int63n(100000)
			}
			if n < 0 {
				n = 0
			}
			if sc.Snr >= 0 && rng.Intn(2) == 0 {
				n = int64(rng.Intn(4)) // the first segments after the start: times and numbers next to the start number
			}
			if sc.Snr > 1<<31 && n > 100000 {
				n = rng.Int63n(100000) // start number + n stays a 32-bit number
			}
			cfg := sc.tl()
			endMS := ref.LoopE(n)*1000/ts + sc.StartS*1000
			now := endMS + 1500
			if strings.HasPrefix(sc.Other, "timeoffset_") {
				now = endMS + 15000 // the server's clock is nowMS shifted by up to 10 s either way: inside the window for both signs
			}
			if sc.Other != "" {
				c.Count("segment-with-other-option:" + strings.SplitN(sc.Other, "_", 2)[0])
			}
			// reference video segment as served
			vid := n + cfg.EffSnr()
			if sc.Mode == "tlt" {
				vid = ref.LoopS(n)
			}
			refURL := lib.SegURL(a, cfg, ref, vid, now)
			ro := lib.FetchSeg(ls, a, cfg, ref, vid, now)
			if ro.Status != 200 {
				return fmt.Errorf("reference video segment %s: status %d %s", refURL, ro.Status, ro.Panic)
			}
			T := roundDiv(ro.Tfdt*1000, ts)
			offGrid := (ro.Tfdt*1000)%ts != 0
			prefix := "timestpp-"
			if wvtt {
				prefix = "timewvtt-"
			}
			rep := prefix + lang
			sid := n + cfg.EffSnr()
			if sc.Mode == "tlt" {
				sid = T // the $Time$ the MPD lists for this segment (checked against the MPD below)
			}
			url := fmt.Sprintf("/livesim2/%s%s/%s/%d.m4s?nowMS=%d", cfg.URLPrefix(), a.Path, rep, sid, now)
			trex, err := getTrex(a, cfg, rep, now)
			if err != nil {
				// the initialization segment of a configured subtitle representation is not served
				_, id := r.id()
				iin := map[string]any{"kind": "init", "url": fmt.Sprintf("/livesim2/%s%s/%s/init.mp4?nowMS=%d", cfg.URLPrefix(), a.Path, rep, now), "lang": lang}
				c.Res.Inputs[id] = iin
				r.evals++
				c.Fail(id, "init-not-served", fmt.Sprintf("%v (language %q of %q is configured)", err, lang, strings.Join(langs, ",")), iin)
				continue
			}
			o := parseSubSegment(ls.GetRaw(url), wvtt, trex)
			if o.Status == -1 {
				return fmt.Errorf("%s: %s", url, o.Err)
			}
			in := segIn{Kind: "segment", Asset: a.Path, Gen: generated, Wvtt: wvtt, Lang: lang, Langs: strings.Join(langs, ","), Mode: sc.Mode,
				StartS: sc.StartS, CueDur: sc.CueDur, Region: sc.Region, N: n, NowMS: now, URL: url, RefURL: refURL, OffGrid: offGrid, Snr: sc.Snr, Tsbd: sc.Tsbd}
			in.EffCue = in.cue()
			in.LateU = (T + sc.StartS*1000) % 1000
			if sc.Snr >= 0 {
				c.Count("segment-with-start-number")
			}
			idn, id := r.id()
			c.Res.Inputs[id] = in
			kind := "stpp"
			if wvtt {
				kind = "wvtt"
			}
			c.Count(fmt.Sprintf("segment:%s:%s:%s:%s", a.Path[max(0, len(a.Path)-12):], kind, sc.Mode, stream))
			if in.LateU >= in.EffCue {
				c.Count("segment-late-start")
			}
			if offGrid {
				c.Count("segment-off-ms-grid")
			}
			r.evals++
			checkSegment(c, id, in, ro, ts, o)
			if len(o.Cues) > 0 || len(o.Samples) > 0 {
				r.distinct[fmt.Sprint("s", a.Path, cfg.URLPrefix(), rep, n)] = true
			}
			st := o.Status
			reqTime := "None"
			if sc.Mode == "tlt" {
				reqTime = fmt.Sprintf("(Some %d)", sid)
			}
			r.terms = append(r.terms, fmt.Sprintf("CSeg %d %s {| r_nr := %d; r_time := %d; r_dur := %d; r_ts := %d |} %s %d %d %d %d %d %d %s %s",
				idn, lib.Cbool(wvtt), ro.Seq, ro.Tfdt, ro.Dur, ts, reqTime, sc.StartS, in.cue(), st, o.Nr, o.Time, o.Dur, cuesTerm(o.Cues), samplesTerm(o.Samples)))
			if idn%97 == 0 {
				c.Sample(map[string]any{"input": in, "reference": map[string]int64{"nr": ro.Seq, "tfdt": ro.Tfdt, "dur": ro.Dur, "timescale": ts}, "observed": o})
			}

			// MPD of the same configuration, once in a while
			if k%5 == 0 {
				if err := r.mpdCase(ls, a, sc, cfg, now, ts, generated, sid, ro, refURL); err != nil {
					return err
				}
			}
		}
	}
	// configuration: cue duration <= 0 and region outside 0..1 are refused
	if !generated {
		for _, cd := range []int64{0, -1, -500, 1, 900} {
			for _, reg := range []int64{-1, 0, 1, 2} {
				for _, tail := range []string{"testpic_2s/timestpp-en/45.m4s", "testpic_2s/Manifest.mpd"} {
					url := fmt.Sprintf("/livesim2/timesubsstpp_en/timesubsdur_%d/timesubsreg_%d/%s?nowMS=100000", cd, reg, tail)
					resp := ls.GetRaw(url)
					idn, id := r.id()
					in := map[string]any{"kind": "config", "url": url}
					c.Res.Inputs[id] = in
					c.Count("config")
					r.evals++
					want := 200
					if cd <= 0 || reg < 0 || reg > 1 {
						want = 400
					}
					st := resp.Status
					if resp.Panic != "" {
						st = 0
						c.Fail(id, "panic:"+resp.Panic, url, in)
					} else if st != want {
						c.Fail(id, "config-status", fmt.Sprintf("%s -> %d, expected %d", url, st, want), in)
					}
					r.terms = append(r.terms, fmt.Sprintf("CCfg %d %s %s %d", idn, lib.Zs(cd), lib.Zs(reg), st))
				}
			}
		}
	}
	return nil
}

// concurrentCases: many timestpp / timewvtt requests at the same time against ONE long-lived server
// (several players, languages, regions, cue durations, assets). The property speaks about every
// response, whatever else the server is doing: each response is checked by the same oracle as the
// sequential ones (against the reference video segment, fetched beforehand), a response that does not
// even parse is a failure here, and a sample of the responses is replayed by the model.
func (r *runner) concurrentCases(ls *lib.Livesim, assets []*lib.TLAsset, rng *rand.Rand, scale int) error {
	c := r.c
	type job struct {
		in   segIn
		ref  lib.SegObs
		ts   int64
		trex *mp4.TrexBox
		o    subObs
	}
	langs := []string{"en", "sv", "fi", "de"}
	cueDurs := []int64{0, 500, 1000}
	trexFor := map[bool]*mp4.TrexBox{}
	for _, wvtt := range []bool{false, true} {
		rep := "timestpp-en"
		if wvtt {
			rep = "timewvtt-en"
		}
		url := fmt.Sprintf("/livesim2/timesubsstpp_en/timesubswvtt_en/testpic_2s/%s/init.mp4?nowMS=100000", rep)
		resp := ls.GetRaw(url)
		f, err := mp4.DecodeFile(bytes.NewReader(resp.Body))
		if resp.Status != 200 || err != nil || f.Init == nil || f.Init.Moov.Mvex == nil {
			return fmt.Errorf("%s: status %d %v", url, resp.Status, err)
		}
		trexFor[wvtt] = f.Init.Moov.Mvex.Trex
	}
	nRefs := 60
	var jobs []*job
	for _, a := range assets {
		ref := a.Ref()
		ts := ref.Timescale
		for k := 0; k < nRefs; k++ {
			n := rng.Int63n(60000)
			now := ref.LoopE(n)*1000/ts + 1500
			for _, reg := range []int{0, 1} {
				for _, cd := range cueDurs {
					sc := subsCfg{Mode: "number", Region: reg, CueDur: cd, Stpp: langs, Wvtt: langs, Snr: -1, Tsbd: -1}
					cfg := sc.tl()
					ro := lib.SegObs{}
					refURL := lib.SegURL(a, cfg, ref, n, now)
					for _, lang := range langs {
						for _, wvtt := range []bool{false, true} {
							if wvtt && rng.Intn(3) != 0 { // mostly stpp: rendered documents are the larger shared-work item
								continue
							}
							prefix := "timestpp-"
							if wvtt {
								prefix = "timewvtt-"
							}
							url := fmt.Sprintf("/livesim2/%s%s/%s%s/%d.m4s?nowMS=%d", cfg.URLPrefix(), a.Path, prefix, lang, n, now)
							in := segIn{Kind: "segment", Asset: a.Path, Wvtt: wvtt, Lang: lang, Langs: strings.Join(langs, ","), Mode: "number",
								CueDur: cd, Region: reg, N: n, NowMS: now, URL: url, RefURL: refURL, Concurrent: true, Snr: -1, Tsbd: -1}
							in.EffCue = in.cue()
							jobs = append(jobs, &job{in: in, ref: ro, ts: ts, trex: trexFor[wvtt]})
						}
					}
				}
			}
		}
	}
	// reference video segments, one per (asset, n), sequentially
	refCache := map[string]lib.SegObs{}
	for _, j := range jobs {
		ro, ok := refCache[j.in.RefURL]
		if !ok {
			ro = lib.ObserveSeg(ls.GetRaw(j.in.RefURL), nil2rep(assets, j.in.Asset))
			if ro.Status != 200 {
				return fmt.Errorf("reference video segment %s: status %d %s", j.in.RefURL, ro.Status, ro.Panic)
			}
			refCache[j.in.RefURL] = ro
		}
		j.ref = ro
		j.in.LateU = roundDiv(ro.Tfdt*1000, j.ts) % 1000
	}
	rounds := 2 * scale
	workers := 48
	debug.SetGCPercent(25) // frequent collections: more preemption points between the steps of a request
	defer debug.SetGCPercent(400)
	bad := 0
	for round := 0; round < rounds && bad == 0; round++ {
		rng.Shuffle(len(jobs), func(i, k int) { jobs[i], jobs[k] = jobs[k], jobs[i] })
		ch := make(chan *job, len(jobs))
		for _, j := range jobs {
			ch <- j
		}
		close(ch)
		var wg sync.WaitGroup
		for w := 0; w < workers; w++ {
			wg.Add(1)
			go func() {
				defer wg.Done()
				for j := range ch {
					j.o = parseSubSegment(ls.GetRaw(j.in.URL), j.in.Wvtt, j.trex)
				}
			}()
		}
		wg.Wait()
		for k, j := range jobs {
			_, id := r.id()
			r.evals++
			c.Count("concurrent-segment")
			if j.o.Status == -1 {
				bad++
				c.Res.Inputs[id] = j.in
				c.Fail(id, "concurrent:malformed-segment", fmt.Sprintf("%s (requested together with %d other subtitle requests on the same server): %s", j.in.URL, len(jobs)-1, j.o.Err), j.in)
				continue
			}
			before := len(c.Res.OracleFailures)
			checkSegment(c, id, j.in, j.ref, j.ts, j.o)
			if len(c.Res.OracleFailures) > before {
				bad++
				c.Res.Inputs[id] = j.in
				for i := before; i < len(c.Res.OracleFailures); i++ {
					c.Res.OracleFailures[i].Key = "concurrent:" + c.Res.OracleFailures[i].Key
				}
			}
			// a sample goes to the model (first round; later rounds only the oracle)
			if round == 0 && k%40 == 0 {
				idn, _ := strconv.Atoi(id)
				c.Res.Inputs[id] = j.in
				r.terms = append(r.terms, fmt.Sprintf("CSeg %d %s {| r_nr := %d; r_time := %d; r_dur := %d; r_ts := %d |} None 0 %d %d %d %d %d %s %s",
					idn, lib.Cbool(j.in.Wvtt), j.ref.Seq, j.ref.Tfdt, j.ref.Dur, j.ts, j.in.cue(), j.o.Status, j.o.Nr, j.o.Time, j.o.Dur, cuesTerm(j.o.Cues), samplesTerm(j.o.Samples)))
			}
		}
	}
	return nil
}

func nil2rep(assets []*lib.TLAsset, path string) *lib.TLRep {
	for _, a := range assets {
		if a.Path == path {
			return a.Ref()
		}
	}
	return nil
}

// mpdCase: the subtitle AdaptationSets mirror the video AdaptationSet in milliseconds.
func (r *runner) mpdCase(ls *lib.Livesim, a *lib.TLAsset, sc subsCfg, cfg lib.TLCfg, now int64, ts int64, generated bool, caseSid int64, caseRef lib.SegObs, caseRefURL string) error {
	c := r.c
	url := lib.MPDURL(a, cfg, now)
	resp := ls.GetRaw(url)
	// sub-second segment durations are written as an invalid xs:duration (PT500000000<garbage>S) in
	// minimumUpdatePeriod / maxSegmentDuration (not C12's subject): make the document parsable
	if fixed := reBadDur.ReplaceAll(resp.Body, []byte(`$1="PT0.5S"`)); !bytes.Equal(fixed, resp.Body) {
		resp.Body = fixed
		c.Count("mpd-with-invalid-duration-attribute")
	}
	mo := lib.ObserveMPD(resp)
	in := map[string]any{"kind": "mpd", "url": url}
	if mo.Status != 200 || len(mo.Periods) == 0 {
		_, id := r.id()
		c.Res.Inputs[id] = in
		key := fmt.Sprintf("mpd-status-%d", mo.Status)
		if mo.Panic != "" {
			key = "mpd-panic:" + mo.Panic
		}
		c.Fail(id, key, fmt.Sprintf("%s -> %d %s", url, mo.Status, mo.Err), in)
		return nil
	}
	var vAS *lib.ASObs
	var subs []*lib.ASObs
	for _, as := range mo.Periods[0].AS {
		if as.ContentType == "video" && vAS == nil {
			vAS = as
		}
		if as.ContentType == "text" && len(as.RepIDs) == 1 && (strings.HasPrefix(as.RepIDs[0], "timestpp-") || strings.HasPrefix(as.RepIDs[0], "timewvtt-")) {
			subs = append(subs, as)
		}
	}
	if vAS == nil {
		return fmt.Errorf("%s: no video adaptation set", url)
	}
	want := len(sc.Stpp) + len(sc.Wvtt)
	if len(subs) != want {
		_, id := r.id()
		c.Res.Inputs[id] = in
		c.Fail(id, "mpd-mirror", fmt.Sprintf("%s: %d generated subtitle adaptation sets, %d languages configured", url, len(subs), want), in)
	}
	// every advertised generated subtitle representation can be fetched: its initialization segment,
	// and (for MPDs without SegmentTimeline) the segment with the number of the video segment of this
	// case; for SegmentTimeline MPDs the listed segments are requested below
	for _, s := range subs {
		rep := s.RepIDs[0]
		wvtt := strings.HasPrefix(rep, "timewvtt-")
		lang := rep[strings.Index(rep, "-")+1:]
		initURL := fmt.Sprintf("/livesim2/%s%s/%s/init.mp4?nowMS=%d", cfg.URLPrefix(), a.Path, rep, now)
		ri := ls.GetRaw(initURL)
		_, iid := r.id()
		iin := map[string]any{"kind": "init", "url": initURL, "mpd_url": url, "lang": lang}
		c.Res.Inputs[iid] = iin
		c.Count("advertised-representation:init")
		r.evals++
		var trex *mp4.TrexBox
		if ri.Panic != "" {
			c.Fail(iid, "panic:"+ri.Panic, initURL, iin)
		} else if ri.Status != 200 {
			c.Fail(iid, fmt.Sprintf("advertised:init-status-%d", ri.Status), fmt.Sprintf("%s -> %d although %s advertises Representation %q (lang %q)", initURL, ri.Status, url, rep, lang), iin)
		} else if f, err := mp4.DecodeFile(bytes.NewReader(ri.Body)); err != nil || f.Init == nil || f.Init.Moov.Mvex == nil {
			c.Fail(iid, "advertised:init-unparsable", initURL, iin)
		} else {
			trex = f.Init.Moov.Mvex.Trex
			if tsc := f.Init.Moov.Trak.Mdia.Mdhd.Timescale; tsc != 1000 {
				c.Fail(iid, "subtitle-timescale", fmt.Sprintf("%s: timescale %d, expected 1000", initURL, tsc), iin)
			}
		}
		if vAS.HasTimeline || trex == nil && ri.Status == 200 {
			continue
		}
		surl := fmt.Sprintf("/livesim2/%s%s/%s/%d.m4s?nowMS=%d", cfg.URLPrefix(), a.Path, rep, caseSid, now)
		sin := segIn{Kind: "segment", Asset: a.Path, Gen: generated, Wvtt: wvtt, Lang: lang, Langs: strings.Join(append(append([]string{}, sc.Stpp...), sc.Wvtt...), ","), Mode: sc.Mode,
			StartS: sc.StartS, CueDur: sc.CueDur, Region: sc.Region, N: caseSid, NowMS: now, URL: surl, RefURL: caseRefURL, Snr: sc.Snr, Tsbd: sc.Tsbd, Listed: true, MPDURL: url}
		sin.EffCue = sin.cue()
		sin.OffGrid = (caseRef.Tfdt*1000)%ts != 0
		_, sidd := r.id()
		c.Res.Inputs[sidd] = sin
		c.Count("advertised-representation:segment")
		r.evals++
		sresp := ls.GetRaw(surl)
		if sresp.Status != 200 || trex == nil {
			st := sresp.Status
			if sresp.Panic != "" {
				st = 0
			}
			c.Fail(sidd, fmt.Sprintf("advertised:status-%d", st), fmt.Sprintf("%s -> %d %s although %s advertises Representation %q and the video segment %s is served", surl, st, sresp.Panic, url, rep, caseRefURL), sin)
			continue
		}
		o := parseSubSegment(sresp, wvtt, trex)
		if o.Status == -1 {
			c.Fail(sidd, "malformed-segment", surl+": "+o.Err, sin)
			continue
		}
		checkSegment(c, sidd, sin, caseRef, ts, o)
	}
	listedDone := false
	for _, s := range subs {
		idn, id := r.id()
		c.Res.Inputs[id] = in
		c.Count("mpd-subtitle-adaptation-set:" + sc.Mode)
		r.evals++
		fail := func(what string) { c.Fail(id, "mpd-mirror", url+": "+s.RepIDs[0]+": "+what, in) }
		if s.Timescale != 1000 {
			fail(fmt.Sprintf("timescale %d", s.Timescale))
		}
		if s.HasStartNr != vAS.HasStartNr || s.StartNumber != vAS.StartNumber {
			fail(fmt.Sprintf("startNumber %d (present %v), video %d (present %v)", s.StartNumber, s.HasStartNr, vAS.StartNumber, vAS.HasStartNr))
		}
		wantMedia := "$RepresentationID$/$Number$.m4s"
		if sc.Mode == "tlt" {
			wantMedia = "$RepresentationID$/$Time$.m4s"
		}
		if s.Media != wantMedia {
			fail("media " + s.Media)
		}
		if s.HasTimeline != vAS.HasTimeline || s.HasDuration != vAS.HasDuration {
			fail("SegmentTimeline/duration presence differs from the video adaptation set")
			continue
		}
		if vAS.HasTimeline {
			ve, se := fromSObs(vAS.Entries), fromSObs(s.Entries)
			exact := true
			what, off := mirrorsInMS(ve, se, vAS.Timescale)
			ok := what == ""
			if !ok {
				key := "mpd-mirror"
				if off {
					key = "off-ms-grid:mpd-timeline-drift"
				}
				c.Fail(id, key, fmt.Sprintf("%s: %s: %s (SegmentTimeline %v, video %v at timescale %d)", url, s.RepIDs[0], what, se, ve, vAS.Timescale), in)
			}
			r.terms = append(r.terms, fmt.Sprintf("CMpdTl %d %s %d %s %s %s", idn, lib.Cbool(r.bnd), vAS.Timescale, lib.Cbool(exact), entriesTerm(ve), entriesTerm(se)))
			if len(s.Timeline) == len(vAS.Timeline) {
				if err := r.listedSegments(ls, a, sc, cfg, now, ts, generated, url, vAS, s, !listedDone); err != nil {
					return err
				}
				listedDone = true
			}
		} else {
			if s.Duration != vAS.Duration*1000/vAS.Timescale {
				fail(fmt.Sprintf("duration %d, video %d/%d", s.Duration, vAS.Duration, vAS.Timescale))
			}
			r.terms = append(r.terms, fmt.Sprintf("CTmpl %d %d %d %d", idn, vAS.Duration, vAS.Timescale, s.Duration))
		}
	}
	_ = generated
	return nil
}

// listedSegments: MPD-driven. Every subtitle segment the MPD lists (SegmentTimeline with $Time$ or
// $Number$) is requested, together with the video segment listed at the same position, and checked
// like any other segment: it must be served and be the subtitle segment of that video segment.
func (r *runner) listedSegments(ls *lib.Livesim, a *lib.TLAsset, sc subsCfg, cfg lib.TLCfg, now int64, ts int64, generated bool, mpdURL string, vAS, s *lib.ASObs, full bool) error {
	c := r.c
	ref := a.Ref()
	rep := s.RepIDs[0]
	wvtt := strings.HasPrefix(rep, "timewvtt-")
	lang := rep[strings.Index(rep, "-")+1:]
	initURL := fmt.Sprintf("/livesim2/%s%s/%s/init.mp4?nowMS=%d", cfg.URLPrefix(), a.Path, rep, now)
	ri := ls.GetRaw(initURL)
	f, err := mp4.DecodeFile(bytes.NewReader(ri.Body))
	if ri.Status != 200 || err != nil || f.Init == nil || f.Init.Moov.Mvex == nil {
		_, id := r.id()
		in := map[string]any{"kind": "init", "url": initURL}
		c.Res.Inputs[id] = in
		return nil // reported by the advertised-representation check of the MPD case
	}
	trex := f.Init.Moov.Mvex.Trex
	n := len(s.Timeline)
	step := 1
	if n > 16 { // long time-shift buffers: the oldest, the newest and a stride in between
		step = n / 12
	}
	for k := 0; k < n; k++ {
		if !(k < 3 || k >= n-3 || k%step == 0) {
			continue
		}
		if !full && k != 0 && k != n-1 { // further representations of the same MPD: the oldest and the newest listed segment
			continue
		}
		vid, sid := vAS.StartNumber+int64(k), s.StartNumber+int64(k)
		if sc.Mode == "tlt" {
			vid, sid = vAS.Timeline[k].T, s.Timeline[k].T
		}
		refURL := lib.SegURL(a, cfg, ref, vid, now)
		if sc.Mode == "tlt" && sid != roundDiv(vid*1000, vAS.Timescale) {
			// the listed time has drifted from the video segment's time in ms (assets off the ms grid:
			// reported by the MPD check under off-ms-grid:mpd-timeline-drift); nothing to request
			c.Count("listed-segment:drifted-time")
			continue
		}
		ro := lib.ObserveSeg(ls.GetRaw(refURL), ref)
		url := fmt.Sprintf("/livesim2/%s%s/%s/%d.m4s?nowMS=%d", cfg.URLPrefix(), a.Path, rep, sid, now)
		in := segIn{Kind: "segment", Asset: a.Path, Gen: generated, Wvtt: wvtt, Lang: lang, Langs: strings.Join(append(append([]string{}, sc.Stpp...), sc.Wvtt...), ","), Mode: sc.Mode,
			StartS: sc.StartS, CueDur: sc.CueDur, Region: sc.Region, N: int64(k), NowMS: now, URL: url, RefURL: refURL, Snr: sc.Snr, Tsbd: sc.Tsbd, Listed: true, MPDURL: mpdURL}
		in.EffCue = in.cue()
		idn, id := r.id()
		c.Res.Inputs[id] = in
		c.Count("listed-segment:" + sc.Mode)
		r.evals++
		if ro.Status != 200 {
			c.Fail(id, fmt.Sprintf("listed:video-status-%d", ro.Status), fmt.Sprintf("%s: video segment %d of the SegmentTimeline of %s is not served (%d %s)", refURL, k, mpdURL, ro.Status, ro.Panic), in)
			continue
		}
		in.OffGrid = (ro.Tfdt*1000)%ts != 0
		in.LateU = (roundDiv(ro.Tfdt*1000, ts) + sc.StartS*1000) % 1000
		c.Res.Inputs[id] = in
		o := parseSubSegment(ls.GetRaw(url), wvtt, trex)
		if o.Status == -1 {
			c.Fail(id, "malformed-segment", url+": "+o.Err, in)
			continue
		}
		before := len(c.Res.OracleFailures)
		checkSegment(c, id, in, ro, ts, o)
		for i := before; i < len(c.Res.OracleFailures); i++ {
			if strings.HasPrefix(c.Res.OracleFailures[i].Key, "status-") {
				c.Res.OracleFailures[i].Key = "listed:" + c.Res.OracleFailures[i].Key
				c.Res.OracleFailures[i].What += " - the segment is listed in " + mpdURL
			}
		}
		reqTime := "None"
		if sc.Mode == "tlt" {
			reqTime = fmt.Sprintf("(Some %d)", sid)
		}
		r.terms = append(r.terms, fmt.Sprintf("CSeg %d %s {| r_nr := %d; r_time := %d; r_dur := %d; r_ts := %d |} %s %d %d %d %d %d %d %s %s",
			idn, lib.Cbool(wvtt), ro.Seq, ro.Tfdt, ro.Dur, ts, reqTime, sc.StartS, in.cue(), o.Status, o.Nr, o.Time, o.Dur, cuesTerm(o.Cues), samplesTerm(o.Samples)))
	}
	return nil
}

// ---------------------------------------------------------------- replay

func replayC12(c *lib.Ctx) error {
	kind, err := lib.LoadReplayInput[struct {
		Kind string `json:"kind"`
		URL  string `json:"url"`
	}](c.Replay)
	if err != nil {
		return err
	}
	switch kind.Kind {
	case "cue":
		in, err := lib.LoadReplayInput[directCue](c.Replay)
		if err != nil {
			return err
		}
		class, got, msg := callCue(in)
		fmt.Printf("replay C12: calcCueItvls(%d,%d,%d,%d) -> class %d %s %s\n", in.SegStart, in.SegDur, in.UtcStart, in.CueDur, class, fmtGot(got), msg)
		oracleCue(c, "replay", in, class, got, msg)
	case "segment":
		in, err := lib.LoadReplayInput[segIn](c.Replay)
		if err != nil {
			return err
		}
		if ptz, _ := lib.LoadReplayInput[struct {
			TZ string `json:"process_tz"`
		}](c.Replay); ptz.TZ != "" {
			if loc, err := time.LoadLocation(ptz.TZ); err == nil {
				time.Local = loc // the server of the replay runs in a process with this local time zone
				fmt.Printf("replay C12: local time zone of the process set to %s\n", ptz.TZ)
			}
		}
		var ls *lib.Livesim
		var a *lib.TLAsset
		if in.Gen {
			gassets, gls, cleanup, err := lib.GenSetup("c12replay", genAssets())
			if err != nil {
				return err
			}
			defer cleanup()
			ls = gls
			for _, b := range gassets {
				if b.Path == in.Asset {
					a = b
				}
			}
		} else {
			bundled, err := lib.LoadBundledAssets(lib.TestVodRoot)
			if err != nil {
				return err
			}
			for _, b := range bundled {
				if b.Path == in.Asset {
					a = b
				}
			}
			if ls, err = lib.NewLivesim(lib.TestVodRoot, nil); err != nil {
				return err
			}
		}
		if a == nil {
			return fmt.Errorf("asset %s not found", in.Asset)
		}
		ref := a.Ref()
		ro := lib.ObserveSeg(ls.GetRaw(in.RefURL), ref)
		initURL := in.URL[:strings.LastIndex(in.URL, "/")] + fmt.Sprintf("/init.mp4?nowMS=%d", in.NowMS)
		ri := ls.GetRaw(initURL)
		if ri.Status != 200 {
			fmt.Printf("replay C12: %s -> %d\n", initURL, ri.Status)
			c.Fail("replay", "init-not-served", fmt.Sprintf("%s -> %d", initURL, ri.Status), in)
			return nil
		}
		f, err := mp4.DecodeFile(bytes.NewReader(ri.Body))
		if err != nil || f.Init == nil {
			return fmt.Errorf("%s: %v", initURL, err)
		}
		if in.Concurrent {
			// the request together with a crowd of other subtitle requests on the same server
			trex := f.Init.Moov.Mvex.Trex
			stop := make(chan struct{})
			var wg sync.WaitGroup
			for w := 0; w < 40; w++ {
				wg.Add(1)
				go func(w int) {
					defer wg.Done()
					rr := rand.New(rand.NewSource(int64(w)))
					for {
						select {
						case <-stop:
							return
						default:
						}
						n := rr.Intn(60000)
						kind := []string{"timestpp-", "timewvtt-"}[rr.Intn(2)]
						u := fmt.Sprintf("/livesim2/timesubsstpp_en,sv,fi,de/timesubswvtt_en,sv,fi,de/timesubsreg_%d/%s/%s%s/%d.m4s?nowMS=%d",
							rr.Intn(2), in.Asset, kind, []string{"en", "sv", "fi", "de"}[rr.Intn(4)], n, (n+2)*10000)
						ls.GetRaw(u)
					}
				}(w)
			}
			tries := 0
			var mu sync.Mutex
			failed := false
			for w := 0; w < 8; w++ {
				wg.Add(1)
				go func() {
					defer wg.Done()
					for {
						mu.Lock()
						if failed || tries >= 15000 {
							mu.Unlock()
							return
						}
						tries++
						mu.Unlock()
						o := parseSubSegment(ls.GetRaw(in.URL), in.Wvtt, trex)
						mu.Lock()
						if !failed {
							before := len(c.Res.OracleFailures)
							if o.Status == -1 {
								c.Fail("replay", "concurrent:malformed-segment", o.Err, in)
							} else {
								checkSegment(c, "replay", in, ro, ref.Timescale, o)
							}
							if len(c.Res.OracleFailures) > before {
								failed = true
								for i := before; i < len(c.Res.OracleFailures); i++ {
									if !strings.HasPrefix(c.Res.OracleFailures[i].Key, "concurrent:") {
										c.Res.OracleFailures[i].Key = "concurrent:" + c.Res.OracleFailures[i].Key
									}
								}
							}
						}
						mu.Unlock()
					}
				}()
			}
			// wait for the checkers, then stop the crowd
			for {
				time.Sleep(50 * time.Millisecond)
				mu.Lock()
				done := failed || tries >= 15000
				mu.Unlock()
				if done {
					break
				}
			}
			close(stop)
			wg.Wait()
			fmt.Printf("replay C12: %s issued %d times among concurrent subtitle requests: failure %v\n", in.URL, tries, failed)
			return nil
		}
		o := parseSubSegment(ls.GetRaw(in.URL), in.Wvtt, f.Init.Moov.Mvex.Trex)
		fmt.Printf("replay C12: %s -> %d nr=%d tfdt=%d dur=%d cues=%s samples=%d (reference %s: nr=%d tfdt=%d dur=%d /%d)\n", in.URL, o.Status, o.Nr, o.Time, o.Dur, fmtGot(o.Cues), len(o.Samples), in.RefURL, ro.Seq, ro.Tfdt, ro.Dur, ref.Timescale)
		checkSegment(c, "replay", in, ro, ref.Timescale, o)
	case "init":
		ls, err := lib.NewLivesim(lib.TestVodRoot, nil)
		if err != nil {
			return err
		}
		resp := ls.GetRaw(kind.URL)
		fmt.Printf("replay C12: %s -> %d %s (%d bytes)\n", kind.URL, resp.Status, resp.Panic, len(resp.Body))
		if resp.Status != 200 {
			c.Fail("replay", "init-not-served", fmt.Sprintf("%s -> %d", kind.URL, resp.Status), kind)
		}
	case "mpd", "config":
		ls, err := lib.NewLivesim(lib.TestVodRoot, nil)
		if err != nil {
			return err
		}
		resp := ls.GetRaw(kind.URL)
		fmt.Printf("replay C12: %s -> %d %s\n%s\n", kind.URL, resp.Status, resp.Panic, resp.Body)
	default:
		fmt.Printf("replay C12: input kind %q is evaluated by re-running the check\n", kind.Kind)
	}
	return nil
}
