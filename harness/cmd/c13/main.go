package main

import (
	"bytes"
	"encoding/hex"
	"fmt"
	"go/ast"
	"go/parser"
	"go/token"
	"math/rand"
	"os"
	"path/filepath"
	"regexp"
	"runtime"
	"runtime/debug"
	"sort"
	"strconv"
	"strings"
	"sync"
	"time"

	"github.com/Dash-Industry-Forum/livesim2/pkg/scte35"
	"github.com/Eyevinn/mp4ff/bits"
	"github.com/Eyevinn/mp4ff/mp4"
	"verifharness/lib"
)

func main() { lib.Main("C13", runC13) }

// ---------------------------------------------------------------- observations

type obs struct {
	Class int    `json:"class"` // 0 none, 1 one emsg, 2 error, 3 panic, 4 other (several emsg boxes)
	TS    uint32 `json:"timescale"`
	PT    uint64 `json:"presentation_time"`
	Dur   uint32 `json:"duration"`
	ID    uint32 `json:"id"`
	Data  []byte `json:"-"`
	// not compared by the model, checked by the oracle
	Scheme  string `json:"scheme,omitempty"`
	Value   string `json:"value,omitempty"`
	Version byte   `json:"version,omitempty"`
	NrEmsg  int    `json:"nr_emsg,omitempty"`
	Err     string `json:"err,omitempty"`
}

func obsOfEmsg(e *mp4.EmsgBox) obs {
	return obs{Class: 1, TS: e.TimeScale, PT: e.PresentationTime, Dur: e.EventDuration, ID: e.ID,
		Data: append([]byte{}, e.MessageData...), Scheme: e.SchemeIDURI, Value: e.Value, Version: e.Version, NrEmsg: 1}
}

type directIn struct {
	Kind      string `json:"kind"` // "direct"
	SegStart  uint64 `json:"seg_start"`
	SegEnd    uint64 `json:"seg_end"`
	Timescale uint64 `json:"timescale"`
	N         int    `json:"per_minute"`
	// Hammer: the call was one of many made at the same time from many goroutines (a replay repeats that)
	Hammer bool `json:"called_concurrently,omitempty"`
}

func runDirect(in directIn) (o obs) {
	defer func() {
		if r := recover(); r != nil {
			o = obs{Class: 3, Err: fmt.Sprint(r)}
		}
	}()
	e, err := scte35.CreateEmsgAhead(in.SegStart, in.SegEnd, in.Timescale, in.N)
	if err != nil {
		return obs{Class: 2, Err: err.Error()}
	}
	if e == nil {
		return obs{Class: 0}
	}
	return obsOfEmsg(e)
}

type payloadIn struct {
	Kind string                    `json:"kind"` // "payload"
	P    scte35.SpliceInsertParams `json:"params"`
}

// ---------------------------------------------------------------- the harness's own SCTE-35 reader

// crc32MPEG2 is CRC-32/MPEG-2 (poly 0x04c11db7, init 0xffffffff, no reflection, no final xor).
func crc32MPEG2(b []byte) uint32 {
	crc := uint32(0xffffffff)
	for _, x := range b {
		crc ^= uint32(x) << 24
		for i := 0; i < 8; i++ {
			if crc&0x80000000 != 0 {
				crc = crc<<1 ^ 0x04c11db7
			} else {
				crc <<= 1
			}
		}
	}
	return crc
}

type bitReader struct {
	b   []byte
	pos int // in bits
	err bool
}

func (r *bitReader) u(n int) uint64 {
	var v uint64
	for i := 0; i < n; i++ {
		if r.pos/8 >= len(r.b) {
			r.err = true
			return 0
		}
		bit := (r.b[r.pos/8] >> (7 - uint(r.pos%8))) & 1
		v = v<<1 | uint64(bit)
		r.pos++
	}
	return v
}

type section struct {
	TableID, SectionLength                uint64
	SSI, Private                          uint64
	Protocol, Encrypted, EncAlg           uint64
	PtsAdjustment, CwIndex, Tier          uint64
	CmdLen, CmdType                       uint64
	EventID                               uint64
	Cancel, OutOfNetwork, ProgramSplice   uint64
	HasDuration, Immediate                uint64
	TimeSpecified, PtsTime                uint64
	AutoReturn, BreakDuration             uint64
	UniqueProgramID, AvailNum, AvailsExp  uint64
	DescLoopLen                           uint64
	CRC                                   uint32
	CRCok, LengthOK, ReservedOK, Complete bool
}

// parseSection reads a splice_info_section with a splice_insert command following ANSI/SCTE 35
// (table 5, table 10): written from the standard's syntax tables, not from the gots encoder.
func parseSection(b []byte) (s section, err error) {
	r := &bitReader{b: b}
	s.ReservedOK = true
	s.TableID = r.u(8)
	s.SSI = r.u(1)
	s.Private = r.u(1)
	r.u(2) // sap_type / reserved
	s.SectionLength = r.u(12)
	s.Protocol = r.u(8)
	s.Encrypted = r.u(1)
	s.EncAlg = r.u(6)
	s.PtsAdjustment = r.u(33)
	s.CwIndex = r.u(8)
	s.Tier = r.u(12)
	s.CmdLen = r.u(12)
	s.CmdType = r.u(8)
	cmdStart := r.pos
	if s.CmdType != 5 {
		return s, fmt.Errorf("splice_command_type %d, not splice_insert", s.CmdType)
	}
	s.EventID = r.u(32)
	s.Cancel = r.u(1)
	if r.u(7) != 0x7f {
		s.ReservedOK = false
	}
	if s.Cancel == 0 {
		s.OutOfNetwork = r.u(1)
		s.ProgramSplice = r.u(1)
		s.HasDuration = r.u(1)
		s.Immediate = r.u(1)
		if r.u(4) != 0xf {
			s.ReservedOK = false
		}
		if s.ProgramSplice == 1 && s.Immediate == 0 {
			s.TimeSpecified = r.u(1)
			if s.TimeSpecified == 1 {
				if r.u(6) != 0x3f {
					s.ReservedOK = false
				}
				s.PtsTime = r.u(33)
			} else {
				r.u(7)
			}
		}
		if s.ProgramSplice == 0 {
			return s, fmt.Errorf("component splice mode not expected")
		}
		if s.HasDuration == 1 {
			s.AutoReturn = r.u(1)
			if r.u(6) != 0x3f {
				s.ReservedOK = false
			}
			s.BreakDuration = r.u(33)
		}
		s.UniqueProgramID = r.u(16)
		s.AvailNum = r.u(8)
		s.AvailsExp = r.u(8)
	}
	if r.pos-cmdStart != int(s.CmdLen)*8 && s.CmdLen != 0xfff {
		return s, fmt.Errorf("splice_command_length %d but the command has %d bits", s.CmdLen, r.pos-cmdStart)
	}
	s.DescLoopLen = r.u(16)
	r.u(int(s.DescLoopLen) * 8)
	s.CRC = uint32(r.u(32))
	if r.err {
		return s, fmt.Errorf("section truncated (%d bytes)", len(b))
	}
	s.Complete = r.pos == len(b)*8
	s.LengthOK = int(s.SectionLength)+3 == len(b)
	s.CRCok = crc32MPEG2(b) == 0
	return s, nil
}

// ---------------------------------------------------------------- schedule (property text)

var offsetsDoc = map[int][]uint64{1: {10}, 2: {10, 40}, 3: {10, 36, 46}}

func adSeconds(n int) uint64 {
	if n == 1 {
		return 20
	}
	return 10
}

// scheduledAnnouncedIn: all scheduled splice times (any minute) whose announce instant (7 s before)
// lies in (s, e].
func scheduledAnnouncedIn(s, e, ts uint64, n int) []uint64 {
	var out []uint64
	m0 := s / (60 * ts)
	for m := m0; m <= m0+2; m++ {
		for _, off := range offsetsDoc[n] {
			sigma := (60*m + off) * ts
			alpha := sigma - 7*ts
			if s < alpha && alpha <= e {
				out = append(out, sigma)
			}
		}
	}
	return out
}

// checkEvent evaluates the property's field clause on one observed event of a segment.
func checkEvent(c *lib.Ctx, id string, o obs, ts uint64, n int, input any) {
	sigma := o.PT
	fail := func(key, what string) { c.Fail(id, key, what, input) }
	if uint64(o.TS) != ts {
		fail("wrong-fields", fmt.Sprintf("emsg timescale %d, track timescale %d", o.TS, ts))
		return
	}
	okOff := false
	if sigma%ts == 0 {
		sec := (sigma / ts) % 60
		for _, off := range offsetsDoc[n] {
			if off == sec {
				okOff = true
			}
		}
	}
	if !okOff {
		fail("unscheduled-event", fmt.Sprintf("event at presentation time %d/%d is not at a documented offset for %d per minute", sigma, ts, n))
		return
	}
	if o.Version != 1 || o.Scheme != scte35.SchemeIDURI || o.Value != "" {
		fail("wrong-fields", fmt.Sprintf("emsg version %d scheme %q value %q", o.Version, o.Scheme, o.Value))
	}
	if uint64(o.ID) != sigma/ts {
		fail("wrong-fields", fmt.Sprintf("emsg id %d, expected %d", o.ID, sigma/ts))
	}
	if uint64(o.Dur) != adSeconds(n)*ts {
		fail("wrong-fields", fmt.Sprintf("emsg event_duration %d, expected %d", o.Dur, adSeconds(n)*ts))
	}
	sec, err := parseSection(o.Data)
	if err != nil {
		fail("bad-section", err.Error())
		return
	}
	if !sec.CRCok {
		fail("bad-crc", fmt.Sprintf("CRC-32/MPEG-2 over the %d section bytes is not 0 (stored %08x)", len(o.Data), sec.CRC))
	}
	if sec.TableID != 0xfc || !sec.LengthOK || !sec.Complete || sec.SSI != 0 || sec.Private != 0 || sec.Protocol != 0 ||
		sec.Encrypted != 0 || sec.DescLoopLen != 0 || !sec.ReservedOK {
		fail("bad-section", fmt.Sprintf("header/length fields: %+v", sec))
	}
	wantPts := (sigma / ts * 90000) % (1 << 33)
	if sigma > (1<<64-1)/90000 && sec.PtsTime != wantPts {
		// spliceTime*90000 does not fit in uint64 (e.g. timescale 10^7 after 5.7 h of stream time)
		fail("pts-uint64-overflow", fmt.Sprintf("pts_time %d, expected %d = (%d s * 90000) mod 2^33: spliceTime*90000 = %d*90000 overflows uint64", sec.PtsTime, wantPts, sigma/ts, sigma))
		return
	}
	if sec.Immediate != 0 || sec.TimeSpecified != 1 || sec.PtsTime != wantPts {
		fail("wrong-pts", fmt.Sprintf("pts_time %d (time_specified %d), expected %d = (%d s * 90000) mod 2^33", sec.PtsTime, sec.TimeSpecified, wantPts, sigma/ts))
	}
	if sec.HasDuration != 1 || sec.BreakDuration != adSeconds(n)*90000 || sec.AutoReturn != 1 {
		fail("wrong-break-duration", fmt.Sprintf("break_duration %d auto_return %d, expected %d", sec.BreakDuration, sec.AutoReturn, adSeconds(n)*90000))
	}
	if sec.EventID != sigma/ts || sec.Cancel != 0 || sec.OutOfNetwork != 1 || sec.ProgramSplice != 1 || sec.Tier != 0xfff {
		fail("wrong-fields", fmt.Sprintf("splice_insert event id %d cancel %d out_of_network %d tier %#x", sec.EventID, sec.Cancel, sec.OutOfNetwork, sec.Tier))
	}
	// a receiver adds pts_adjustment to pts_time (SCTE 35 9.6): the sum must still be the splice time
	if eff := (sec.PtsTime + sec.PtsAdjustment) % (1 << 33); eff != wantPts {
		fail("pts-adjustment-cancels-pts-time", fmt.Sprintf("pts_adjustment %d + pts_time %d = %d mod 2^33, expected %d", sec.PtsAdjustment, sec.PtsTime, eff, wantPts))
	}
}

// ---------------------------------------------------------------- constants of the source

// srcConsts are the literal operands of CreateEmsgAhead, read from the source file of the tree under
// test (constgen does not emit them): splice offsets per perMinute value, ad duration per value,
// announce lead, seconds per minute, PTS clock and PTS modulus exponent.
type srcConsts struct {
	Offsets  map[int][]int64
	AdDur    map[int]int64 // 0 = default (no case assigns it)
	AdDurDef int64
	Lead     int64
	Minute   int64
	Clock    int64
	PtsBits  int64
	Next     int64 // append(spliceInsertTimes, minuteStart+N*timescale): first splice of the next minute; 0 = absent
	Problems []string
}

func repoRoot() string {
	if r := os.Getenv("VERIF_REPO"); r != "" {
		return r
	}
	return "/repo"
}

func intLit(e ast.Expr) (int64, bool) {
	if b, ok := e.(*ast.BasicLit); ok && b.Kind == token.INT {
		v, err := strconv.ParseInt(strings.ReplaceAll(b.Value, "_", ""), 0, 64)
		return v, err == nil
	}
	return 0, false
}

// timesTimescale matches `N * timescale` and returns N.
func timesTimescale(e ast.Expr) (int64, bool) {
	if p, ok := e.(*ast.ParenExpr); ok {
		e = p.X
	}
	b, ok := e.(*ast.BinaryExpr)
	if !ok || b.Op != token.MUL {
		return 0, false
	}
	if id, ok := b.Y.(*ast.Ident); ok && id.Name == "timescale" {
		return intLit(b.X)
	}
	return 0, false
}

func readSrcConsts() srcConsts {
	sc := srcConsts{Offsets: map[int][]int64{}, AdDur: map[int]int64{}}
	bad := func(f string, a ...any) { sc.Problems = append(sc.Problems, fmt.Sprintf(f, a...)) }
	path := filepath.Join(repoRoot(), "pkg", "scte35", "scte35.go")
	fset := token.NewFileSet()
	file, err := parser.ParseFile(fset, path, nil, 0)
	if err != nil {
		bad("%v", err)
		return sc
	}
	var fn *ast.FuncDecl
	for _, d := range file.Decls {
		if f, ok := d.(*ast.FuncDecl); ok && f.Name.Name == "CreateEmsgAhead" {
			fn = f
		}
	}
	if fn == nil {
		bad("CreateEmsgAhead not found in %s", path)
		return sc
	}
	ast.Inspect(fn.Body, func(n ast.Node) bool {
		switch x := n.(type) {
		case *ast.AssignStmt:
			if len(x.Lhs) != 1 || len(x.Rhs) != 1 {
				return true
			}
			lhs, _ := x.Lhs[0].(*ast.Ident)
			if lhs == nil {
				return true
			}
			switch lhs.Name {
			case "spliceInsertTimes":
				// spliceInsertTimes = append(spliceInsertTimes, minuteStart+N*timescale)
				if call, ok := x.Rhs[0].(*ast.CallExpr); ok && len(call.Args) == 2 {
					if fn, ok := call.Fun.(*ast.Ident); ok && fn.Name == "append" {
						if b, ok := call.Args[1].(*ast.BinaryExpr); ok && b.Op == token.ADD {
							if id, ok := b.X.(*ast.Ident); ok && id.Name == "minuteStart" {
								if v, ok := timesTimescale(b.Y); ok {
									sc.Next = v
								}
							}
						}
					}
				}
			case "adDuration":
				if x.Tok == token.DEFINE {
					if v, ok := timesTimescale(x.Rhs[0]); ok {
						sc.AdDurDef = v
					} else {
						bad("adDuration := is not N*timescale")
					}
				}
			case "announceTime":
				if b, ok := x.Rhs[0].(*ast.BinaryExpr); ok && b.Op == token.SUB {
					if v, ok := timesTimescale(b.Y); ok {
						sc.Lead = v
					}
				}
			case "modMinute":
				if b, ok := x.Rhs[0].(*ast.BinaryExpr); ok && b.Op == token.REM {
					if v, ok := timesTimescale(b.Y); ok {
						sc.Minute = v
					}
				}
			}
		case *ast.CaseClause:
			if len(x.List) != 1 {
				return true
			}
			k, ok := intLit(x.List[0])
			if !ok {
				return true
			}
			for _, st := range x.Body {
				as, ok := st.(*ast.AssignStmt)
				if !ok || len(as.Lhs) != 1 || len(as.Rhs) != 1 {
					continue
				}
				lhs, _ := as.Lhs[0].(*ast.Ident)
				if lhs == nil {
					continue
				}
				if lhs.Name == "adDuration" {
					if v, ok := timesTimescale(as.Rhs[0]); ok {
						sc.AdDur[int(k)] = v
					} else {
						bad("case %d: adDuration is not N*timescale", k)
					}
				}
				if lhs.Name == "spliceInsertTimes" {
					cl, ok := as.Rhs[0].(*ast.CompositeLit)
					if !ok {
						bad("case %d: spliceInsertTimes is not a literal", k)
						continue
					}
					offs := []int64{}
					for _, el := range cl.Elts {
						b, ok := el.(*ast.BinaryExpr)
						id, _ := func() (*ast.Ident, bool) {
							if !ok {
								return nil, false
							}
							i, o := b.X.(*ast.Ident)
							return i, o
						}()
						if !ok || b.Op != token.ADD || id == nil || id.Name != "minuteStart" {
							bad("case %d: element is not minuteStart + N*timescale", k)
							continue
						}
						v, ok2 := timesTimescale(b.Y)
						if !ok2 {
							bad("case %d: element is not minuteStart + N*timescale", k)
							continue
						}
						offs = append(offs, v)
					}
					sc.Offsets[int(k)] = offs
				}
			}
		case *ast.KeyValueExpr:
			key, _ := x.Key.(*ast.Ident)
			if key != nil && key.Name == "PtsTime" {
				// uint64(spliceTime*90000/timescale) % (1 << 33)
				ast.Inspect(x.Value, func(m ast.Node) bool {
					if b, ok := m.(*ast.BinaryExpr); ok {
						if b.Op == token.SHL {
							if v, ok := intLit(b.Y); ok {
								sc.PtsBits = v
							}
						}
						if b.Op == token.MUL {
							if v, ok := intLit(b.Y); ok {
								sc.Clock = v
							}
						}
					}
					return true
				})
			}
		}
		return true
	})
	return sc
}

func (sc srcConsts) term(id int) string {
	l := func(k int) string { return lib.Zlist64(sc.Offsets[k]) }
	ad := func(k int) int64 {
		if v, ok := sc.AdDur[k]; ok {
			return v
		}
		return sc.AdDurDef
	}
	return fmt.Sprintf("CConst %d %s %s %s %d %d %d %d %d %d %d %d", id, l(1), l(2), l(3), ad(1), ad(2), ad(3), sc.Lead, sc.Minute, sc.Clock, sc.PtsBits, sc.Next)
}

// probeConsts derives the schedule constants from the BEHAVIOUR of scte35.CreateEmsgAhead: one-second
// segments (s, s+1] over three minutes with timescale 1 (and 90000 as a cross-check) for N = 1, 2, 3.
// offsets = presentation time mod 60 of the events; lead = presentation time - end of the carrying
// one-second segment (the announce instant); ad duration from the emsg; minute = distance of the events
// of one offset; clock = pts_time per second (read from the section with the harness's parser); PTS
// modulus from a splice after 2^33/90000 s; next = the splice a segment that starts at 53..59 s of a
// minute and reaches into the next one announces, relative to the start of its minute (0: none).
func probeConsts() (srcConsts, []string) {
	pc := srcConsts{Offsets: map[int][]int64{}, AdDur: map[int]int64{}}
	var problems []string
	call := func(s, e, ts uint64, n int) (ev *obs) {
		defer func() {
			if r := recover(); r != nil {
				ev = nil
			}
		}()
		em, err := scte35.CreateEmsgAhead(s, e, ts, n)
		if err != nil || em == nil {
			return nil
		}
		o := obsOfEmsg(em)
		return &o
	}
	for n := 1; n <= 3; n++ {
		for _, ts := range []uint64{1, 90000} {
			var offs []int64
			seenOff := map[int64][]int64{}
			var lead, dur int64 = -1, -1
			for s := uint64(60); s < 240; s++ {
				ev := call(s*ts, (s+1)*ts, ts, n)
				if ev == nil {
					continue
				}
				sec := int64(ev.PT / ts)
				off := sec % 60
				if sec >= 120 && sec < 180 {
					offs = append(offs, off) // the events of the minute 120..179 s
				}
				seenOff[off] = append(seenOff[off], sec)
				l := sec - int64(s+1)
				if lead >= 0 && l != lead {
					problems = append(problems, fmt.Sprintf("probe N=%d ts=%d: announce lead %d s and %d s", n, ts, lead, l))
				}
				lead = l
				dur = int64(uint64(ev.Dur) / ts)
				if ts == 1 && pc.Clock == 0 {
					if sec0, err := parseSection(ev.Data); err == nil && sec0.TimeSpecified == 1 && sec > 0 {
						pc.Clock = int64(sec0.PtsTime) / sec
					}
				}
			}
			// offsets in the order of the minute 120..179 s
			sort.Slice(offs, func(i, k int) bool { return offs[i] < offs[k] })
			for _, secs := range seenOff {
				for i := 1; i < len(secs); i++ {
					if d := secs[i] - secs[i-1]; pc.Minute == 0 {
						pc.Minute = d
					} else if d != pc.Minute {
						problems = append(problems, fmt.Sprintf("probe N=%d ts=%d: events of one offset %d s and %d s apart", n, ts, pc.Minute, d))
					}
				}
			}
			if ts == 1 {
				pc.Offsets[n], pc.AdDur[n], pc.Lead = offs, dur, lead
			} else if fmt.Sprint(offs) != fmt.Sprint(pc.Offsets[n]) || dur != pc.AdDur[n] || lead != pc.Lead {
				problems = append(problems, fmt.Sprintf("probe N=%d: timescale 1 gives offsets %v duration %d lead %d, timescale 90000 gives %v %d %d", n, pc.Offsets[n], pc.AdDur[n], pc.Lead, offs, dur, lead))
			}
		}
	}
	// the next minute's first splice announced from a segment that starts in this minute
	for s := uint64(113); s < 120; s++ {
		if ev := call(s, s+10, 1, 1); ev != nil && ev.PT >= 120 {
			next := int64(ev.PT) - 60
			if pc.Next != 0 && pc.Next != next {
				problems = append(problems, fmt.Sprintf("probe: next-minute candidate %d and %d", pc.Next, next))
			}
			pc.Next = next
		}
	}
	// PTS modulus: the first scheduled splice after 2^33/90000 s
	if len(pc.Offsets[1]) == 1 && pc.Lead > 0 && pc.Clock > 0 {
		k := (uint64(1)<<33/uint64(pc.Clock)/60+1)*60 + uint64(pc.Offsets[1][0])
		a := k - uint64(pc.Lead)
		if ev := call(a-1, a, 1, 1); ev != nil {
			if sec0, err := parseSection(ev.Data); err == nil {
				for b := int64(40); b >= 20; b-- { // the largest modulus that explains the wrapped value
					if sec0.PtsTime == (k*uint64(pc.Clock))%(uint64(1)<<uint(b)) && sec0.PtsTime != k*uint64(pc.Clock) {
						pc.PtsBits = b
						break
					}
				}
			}
		}
	}
	return pc, problems
}

// reconcileConsts: the constants handed to the model come from the probe; the syntactic reading of the
// source is a cross-check - a constant it cannot find is a note, a constant it finds with another
// value than the behaviour shows is reported.
func reconcileConsts(probe, src srcConsts) (notes, conflicts []string) {
	cmp := func(name string, pv, sv int64) {
		switch {
		case sv == 0:
			notes = append(notes, fmt.Sprintf("constant %s not found syntactically in pkg/scte35/scte35.go: taken from the probe (%d)", name, pv))
		case sv != pv:
			conflicts = append(conflicts, fmt.Sprintf("constant %s: the source reads %d, the behaviour of CreateEmsgAhead shows %d", name, sv, pv))
		}
	}
	cmp("announce lead", probe.Lead, src.Lead)
	cmp("seconds per minute", probe.Minute, src.Minute)
	cmp("PTS clock", probe.Clock, src.Clock)
	cmp("PTS modulus bits", probe.PtsBits, src.PtsBits)
	cmp("next minute's first splice", probe.Next, src.Next)
	for n := 1; n <= 3; n++ {
		if so, ok := src.Offsets[n]; !ok || len(so) == 0 {
			notes = append(notes, fmt.Sprintf("splice offsets for N=%d not found syntactically: taken from the probe %v", n, probe.Offsets[n]))
		} else if fmt.Sprint(so) != fmt.Sprint(probe.Offsets[n]) {
			conflicts = append(conflicts, fmt.Sprintf("splice offsets for N=%d: the source reads %v, the behaviour shows %v", n, so, probe.Offsets[n]))
		}
		sd, ok := src.AdDur[n]
		if !ok {
			sd = src.AdDurDef
		}
		cmp(fmt.Sprintf("ad duration for N=%d", n), probe.AdDur[n], sd)
	}
	return
}

// validateDirect checks one event returned for a segment built around the announce instant of splice
// second k (goroutine safe, no Ctx): "" or what is wrong.
func validateDirect(in directIn, k uint64, o obs) string {
	ts := in.Timescale
	if o.Class != 1 {
		return fmt.Sprintf("no event (class %d %s) for the segment around the announce instant of splice %d s", o.Class, o.Err, k)
	}
	if o.PT != k*ts || uint64(o.ID) != k || uint64(o.TS) != ts || uint64(o.Dur) != adSeconds(in.N)*ts {
		return fmt.Sprintf("emsg presentation time %d id %d timescale %d duration %d, expected splice %d s", o.PT, o.ID, o.TS, o.Dur, k)
	}
	sec, err := parseSection(o.Data)
	if err != nil {
		return "section: " + err.Error()
	}
	if !sec.CRCok {
		return fmt.Sprintf("CRC-32/MPEG-2 over the section is not 0 (event %d s)", k)
	}
	if sec.EventID != k || sec.TimeSpecified != 1 || sec.PtsTime != (k*90000)%(1<<33) || sec.HasDuration != 1 || sec.BreakDuration != adSeconds(in.N)*90000 || sec.PtsAdjustment != 0 || sec.Tier != 0xfff {
		return fmt.Sprintf("splice_insert event id %d pts_time %d break_duration %d pts_adjustment %d, expected event %d pts %d break %d", sec.EventID, sec.PtsTime, sec.BreakDuration, sec.PtsAdjustment, k, (k*90000)%(1<<33), adSeconds(in.N)*90000)
	}
	return ""
}

type hammerFail struct {
	in   directIn
	what string
}

// hammerDirect: many goroutines (four per core) call CreateEmsgAhead at the same time, each for its OWN
// events (other minutes, offsets, N and timescales than the others), started together behind a barrier and
// repeating for the given time; every returned event is validated against the call's own parameters.
// extra (may be nil) is a call that is repeated by a few goroutines in addition (replay).
func hammerDirect(seed int64, budget time.Duration, extra *directIn) (calls int64, fails []hammerFail) {
	workers := 4 * runtime.GOMAXPROCS(0)
	if workers < 16 {
		workers = 16
	}
	start := make(chan struct{})
	deadline := time.Now().Add(budget)
	var mu sync.Mutex
	var wg sync.WaitGroup
	for w := 0; w < workers; w++ {
		wg.Add(1)
		go func(w int) {
			defer wg.Done()
			rr := rand.New(rand.NewSource(seed*1000 + int64(w)))
			type ev struct {
				in directIn
				k  uint64
			}
			var evs []ev
			for i := 0; i < 64; i++ {
				n := 1 + rr.Intn(3)
				ts := []uint64{1, 1000, 15360, 90000, 48000}[rr.Intn(5)]
				k := uint64(rr.Intn(40000000))*60 + offsetsDoc[n][rr.Intn(len(offsetsDoc[n]))]
				a := (k - 7) * ts
				evs = append(evs, ev{directIn{Kind: "direct", SegStart: a - ts/2 - 1, SegEnd: a + ts, Timescale: ts, N: n, Hammer: true}, k})
			}
			if extra != nil && w%4 == 0 {
				x := *extra
				x.Hammer = true
				if want := scheduledAnnouncedIn(x.SegStart, x.SegEnd, x.Timescale, x.N); len(want) == 1 {
					evs = []ev{{x, want[0] / x.Timescale}}
				}
			}
			<-start
			local := int64(0)
			for i := 0; time.Now().Before(deadline); i++ {
				e := evs[i%len(evs)]
				o := runDirect(e.in)
				local++
				if what := validateDirect(e.in, e.k, o); what != "" {
					mu.Lock()
					if len(fails) < 20 {
						fails = append(fails, hammerFail{e.in, what})
					}
					mu.Unlock()
				}
				if i%64 == 0 {
					runtime.Gosched()
				}
			}
			mu.Lock()
			calls += local
			mu.Unlock()
		}(w)
	}
	close(start)
	wg.Wait()
	return calls, fails
}

// ---------------------------------------------------------------- derived assets

func copyFile(src, dst string) error {
	data, err := os.ReadFile(src)
	if err != nil {
		return err
	}
	if err := os.MkdirAll(filepath.Dir(dst), 0o755); err != nil {
		return err
	}
	return os.WriteFile(dst, data, 0o644)
}

// buildDerivedAssets writes, below root, two assets made from the bundled testpic_2s whose non-video
// representations are served from their files like video (not rebuilt like clear audio, not shifted
// like stpp): testpic_2s_encaudio (audio A48 pre-encrypted with cenc: enca/sinf/schm in the init
// segment) and testpic_2s_wvtt (an additional stored wvtt text track W1 with one empty cue per segment).
func buildDerivedAssets(root string) error {
	src := filepath.Join(lib.TestVodRoot, "testpic_2s")
	for _, name := range []string{"testpic_2s_encaudio", "testpic_2s_wvtt"} {
		dst := filepath.Join(root, name)
		for _, rep := range []string{"V300", "A48"} {
			if name == "testpic_2s_encaudio" && rep == "A48" {
				continue
			}
			for _, f := range []string{"init.mp4", "1.m4s", "2.m4s", "3.m4s", "4.m4s"} {
				if err := copyFile(filepath.Join(src, rep, f), filepath.Join(dst, rep, f)); err != nil {
					return err
				}
			}
		}
	}
	// pre-encrypted audio
	{
		dst := filepath.Join(root, "testpic_2s_encaudio")
		if err := copyFile(filepath.Join(src, "Manifest.mpd"), filepath.Join(dst, "Manifest.mpd")); err != nil {
			return err
		}
		rawInit, err := os.ReadFile(filepath.Join(src, "A48", "init.mp4"))
		if err != nil {
			return err
		}
		fi, err := mp4.DecodeFileSR(bits.NewFixedSliceReader(rawInit))
		if err != nil || fi.Init == nil {
			return fmt.Errorf("A48 init: %v", err)
		}
		key := []byte("0123456789abcdef")
		iv := []byte("fedcba9876543210")[:8]
		kid, err := mp4.NewUUIDFromHex(hex.EncodeToString([]byte("c13-derived-kid!")))
		if err != nil {
			return err
		}
		ipd, err := mp4.InitProtect(fi.Init, nil, iv, "cenc", kid, nil)
		if err != nil {
			return fmt.Errorf("InitProtect: %w", err)
		}
		sw := bits.NewFixedSliceWriter(int(fi.Init.Size()))
		if err := fi.Init.EncodeSW(sw); err != nil {
			return err
		}
		if err := os.MkdirAll(filepath.Join(dst, "A48"), 0o755); err != nil {
			return err
		}
		if err := os.WriteFile(filepath.Join(dst, "A48", "init.mp4"), sw.Bytes(), 0o644); err != nil {
			return err
		}
		for nr := 1; nr <= 4; nr++ {
			data, err := os.ReadFile(filepath.Join(src, "A48", fmt.Sprintf("%d.m4s", nr)))
			if err != nil {
				return err
			}
			f, err := mp4.DecodeFileSR(bits.NewFixedSliceReader(data))
			if err != nil {
				return err
			}
			seg := f.Segments[0]
			for _, frag := range seg.Fragments {
				if err := mp4.EncryptFragment(frag, key, iv, ipd); err != nil {
					return fmt.Errorf("EncryptFragment: %w", err)
				}
			}
			w := bits.NewFixedSliceWriter(int(seg.Size()))
			if err := seg.EncodeSW(w); err != nil {
				return err
			}
			if err := os.WriteFile(filepath.Join(dst, "A48", fmt.Sprintf("%d.m4s", nr)), w.Bytes(), 0o644); err != nil {
				return err
			}
		}
	}
	// stored wvtt text track
	{
		dst := filepath.Join(root, "testpic_2s_wvtt")
		mpd, err := os.ReadFile(filepath.Join(src, "Manifest.mpd"))
		if err != nil {
			return err
		}
		as := `      <AdaptationSet contentType="text" mimeType="application/mp4" segmentAlignment="true" lang="en">
         <SegmentTemplate startNumber="1" initialization="$RepresentationID$/init.mp4" duration="2" media="$RepresentationID$/$Number$.m4s"/>
         <Representation id="W1" codecs="wvtt" startWithSAP="1" bandwidth="1000"/>
      </AdaptationSet>
`
		out := strings.Replace(string(mpd), "   </Period>", as+"   </Period>", 1)
		if out == string(mpd) {
			out = strings.Replace(string(mpd), "</Period>", as+"</Period>", 1)
		}
		if err := os.WriteFile(filepath.Join(dst, "Manifest.mpd"), []byte(out), 0o644); err != nil {
			return err
		}
		init := mp4.CreateEmptyInit()
		init.AddEmptyTrack(1000, "wvtt", "en")
		if err := init.Moov.Trak.SetWvttDescriptor("WEBVTT"); err != nil {
			return err
		}
		if err := os.MkdirAll(filepath.Join(dst, "W1"), 0o755); err != nil {
			return err
		}
		sw := bits.NewFixedSliceWriter(int(init.Size()))
		if err := init.EncodeSW(sw); err != nil {
			return err
		}
		if err := os.WriteFile(filepath.Join(dst, "W1", "init.mp4"), sw.Bytes(), 0o644); err != nil {
			return err
		}
		vtte := []byte{0, 0, 0, 8, 0x76, 0x74, 0x74, 0x65}
		for nr := 1; nr <= 4; nr++ {
			seg := mp4.NewMediaSegment()
			frag, err := mp4.CreateFragment(uint32(nr), 1)
			if err != nil {
				return err
			}
			seg.AddFragment(frag)
			frag.AddFullSample(mp4.FullSample{Sample: mp4.Sample{Flags: mp4.SyncSampleFlags, Dur: 2000, Size: uint32(len(vtte))}, DecodeTime: uint64(nr-1) * 2000, Data: vtte})
			w := bits.NewFixedSliceWriter(int(seg.Size()))
			if err := seg.EncodeSW(w); err != nil {
				return err
			}
			if err := os.WriteFile(filepath.Join(dst, "W1", fmt.Sprintf("%d.m4s", nr)), w.Bytes(), 0o644); err != nil {
				return err
			}
		}
	}
	// VoD MPD shapes: other event signalling already present, two video adaptation sets
	mpdSrc, err := os.ReadFile(filepath.Join(src, "Manifest.mpd"))
	if err != nil {
		return err
	}
	otherIES := `         <InbandEventStream schemeIdUri="urn:mpeg:dash:event:2012" value="1"/>
`
	videoAS := `contentType="video" id="2"`
	audioAS := `contentType="audio" id="1"`
	insertAfterOpenTag := func(doc, marker, what string) (string, error) {
		i := strings.Index(doc, marker)
		if i < 0 {
			return "", fmt.Errorf("marker %q not found in the bundled Manifest.mpd", marker)
		}
		j := strings.Index(doc[i:], ">")
		return doc[:i+j+1] + "\n" + what + doc[i+j+1:], nil
	}
	shapes := map[string]func(string) (string, error){
		"testpic_2s_ies_video": func(d string) (string, error) { return insertAfterOpenTag(d, videoAS, otherIES) },
		"testpic_2s_ies_audio": func(d string) (string, error) { return insertAfterOpenTag(d, audioAS, otherIES) },
		"testpic_2s_ies_both": func(d string) (string, error) {
			d, err := insertAfterOpenTag(d, videoAS, otherIES+`         <InbandEventStream schemeIdUri="urn:example:other:2024" value=""/>
`)
			if err != nil {
				return "", err
			}
			return insertAfterOpenTag(d, audioAS, otherIES)
		},
		"testpic_2s_period_events": func(d string) (string, error) {
			return insertAfterOpenTag(d, `<Period id="one"`, `      <EventStream schemeIdUri="urn:example:period:events" timescale="1000"><Event presentationTime="0" duration="1000" id="1"/></EventStream>
`)
		},
		"testpic_2s_two_video": func(d string) (string, error) {
			i := strings.Index(d, "   </Period>")
			if i < 0 {
				i = strings.Index(d, "</Period>")
			}
			if i < 0 {
				return "", fmt.Errorf("no </Period>")
			}
			as := `      <AdaptationSet contentType="video" id="3" mimeType="video/mp4" segmentAlignment="true" startWithSAP="1" par="16:9">
         <InbandEventStream schemeIdUri="urn:mpeg:dash:event:2012" value="1"/>
         <Role schemeIdUri="urn:mpeg:dash:role:2011" value="alternate"/>
         <SegmentTemplate startNumber="1" initialization="$RepresentationID$/init.mp4" duration="2" media="$RepresentationID$/$Number$.m4s"/>
         <Representation id="V300b" codecs="avc1.64001e" bandwidth="300000" width="640" height="360" frameRate="60/2" sar="1:1"/>
      </AdaptationSet>
`
			return d[:i] + as + d[i:], nil
		},
	}
	for name, f := range shapes {
		dst := filepath.Join(root, name)
		doc, err := f(string(mpdSrc))
		if err != nil {
			return fmt.Errorf("%s: %w", name, err)
		}
		if err := os.MkdirAll(dst, 0o755); err != nil {
			return err
		}
		if err := os.WriteFile(filepath.Join(dst, "Manifest.mpd"), []byte(doc), 0o644); err != nil {
			return err
		}
		reps := [][2]string{{"V300", "V300"}, {"A48", "A48"}}
		if name == "testpic_2s_two_video" {
			reps = append(reps, [2]string{"V300", "V300b"})
		}
		for _, rp := range reps {
			for _, fn := range []string{"init.mp4", "1.m4s", "2.m4s", "3.m4s", "4.m4s"} {
				if err := copyFile(filepath.Join(src, rp[0], fn), filepath.Join(dst, rp[1], fn)); err != nil {
					return err
				}
			}
		}
	}
	return nil
}

// mpdShapeAssets: derived assets whose VoD MPD carries other event signalling / several video sets,
// with the number of video adaptation sets each must have in the live MPD.
var mpdShapeAssets = map[string]int{"testpic_2s_ies_video": 1, "testpic_2s_ies_audio": 1, "testpic_2s_ies_both": 1,
	"testpic_2s_period_events": 1, "testpic_2s_two_video": 2, "testpic_2s_encaudio": 1, "testpic_2s_wvtt": 1}

// countEmsg counts the emsg boxes at the top level of a served segment.
func countEmsg(body []byte) (int, error) {
	n, pos := 0, 0
	for pos+8 <= len(body) {
		size := int(uint32(body[pos])<<24 | uint32(body[pos+1])<<16 | uint32(body[pos+2])<<8 | uint32(body[pos+3]))
		if size < 8 || pos+size > len(body) {
			return n, fmt.Errorf("bad box size %d at %d", size, pos)
		}
		if string(body[pos+4:pos+8]) == "emsg" {
			n++
		}
		pos += size
	}
	return n, nil
}

// ---------------------------------------------------------------- L1: served segments

type assetInfo struct {
	Name     string // path below /livesim2/<cfg>/
	MPD      string
	VideoRep string
	AudioRep string
	SegDur   uint64 // nominal, in video timescale (only to choose nowMS and segment numbers)
	TS       uint64 // video timescale (from the init segment)
	ATS      uint64
	ADur     uint64
	trex     map[string]*mp4.TrexBox
}

type windowIn struct {
	Kind    string `json:"kind"` // "window"
	Asset   string `json:"asset"`
	Rep     string `json:"rep"`
	N       int    `json:"per_minute"`
	FirstNr int    `json:"first_nr"`
	Count   int    `json:"count"`
	Nr      int    `json:"nr,omitempty"`     // the segment the failure is about
	Sigma   uint64 `json:"splice,omitempty"` // the splice time the failure is about (track timescale)
	Offset  uint64 `json:"offset_s,omitempty"`
	TS      uint64 `json:"timescale"`
	SegDur  uint64 `json:"nominal_seg_dur"`
	IsVideo bool   `json:"is_video"`
	Prefix  string `json:"url_prefix,omitempty"` // e.g. "chunkdur_0.5/" (chunked low-latency delivery)
	// Concurrent: observed while many other segment requests were served at the same time
	Concurrent bool `json:"concurrent,omitempty"`
	// Irregular: the asset's video segments have different durations ("bundled" or "generated" asset)
	Irregular string `json:"irregular_asset,omitempty"`
	// availabilityStartTime of the configuration (start_<s>) and its remainder modulo 60
	StartS     int64  `json:"start_s"`
	StartMod60 int64  `json:"start_mod_60"`
	URL        string `json:"url,omitempty"` // the request the failure is about
}

type segObs struct {
	URL        string
	Nr         int
	Start, Dur uint64
	O          obs
	Emsgs      []obs
	Status     int
}

func nowFor(nr int, segDur, ts uint64) int {
	return int((uint64(nr)+1)*segDur*1000/ts) + 1500
}

// urlPrefix is put in front of scte35_<n>/ in the segment URLs (e.g. "chunkdur_0.5/": chunked
// low-latency delivery). Set by the callers, which run sequentially.
var urlPrefix = ""

// irregularRep is set while segments of an asset with varying segment durations are fetched by number.
var irregularRep *lib.TLRep
var irregularKind = ""

// irregularGen: generated layouts whose video segments differ from the nominal (average) duration.
func irregularGen() []lib.GenAsset {
	return []lib.GenAsset{
		{Name: "g13_alt48", Reps: []lib.GenRep{lib.VideoRep("V1", 90000, 3000, lib.AlternatingDurs(4, 360000, 720000))}},            // 4 s / 8 s
		{Name: "g13_irr", Reps: []lib.GenRep{lib.VideoRep("V1", 12800, 512, lib.FrameDurs(512, 50, 25, 75, 48, 52, 10, 40))}},         // 0.4 .. 3 s
		{Name: "g13_long_short", Reps: []lib.GenRep{lib.VideoRep("V1", 90000, 3000, []uint64{900000, 180000, 810000, 90000, 720000})}}, // 10, 2, 9, 1, 8 s
	}
}

func infoOf(a *lib.TLAsset) *assetInfo {
	ref := a.Ref()
	n := uint64(len(ref.Segs))
	return &assetInfo{Name: a.Path, MPD: a.MPD, VideoRep: ref.ID, TS: uint64(ref.Timescale), SegDur: uint64(ref.Duration()) / n,
		trex: map[string]*mp4.TrexBox{ref.ID: ref.Trex}}
}
var reStartOpt = regexp.MustCompile(`(?:^|/)start_(\d+)/`)
var reSnrOpt = regexp.MustCompile(`(?:^|/)snr_(\d+)/`)

func fetchSeg(ls *lib.Livesim, a *assetInfo, rep string, n int, nr int, segDur, ts uint64) (segObs, error) {
	cfg := urlPrefix
	if n != 0 {
		cfg += fmt.Sprintf("scte35_%d/", n)
	}
	now := nowFor(nr, segDur, ts)
	if strings.Contains(urlPrefix, "chunkdur_") {
		// the chunked writer paces in real time up to a chunk duration beyond the segment end (the last
		// chunk is accounted with the nominal chunk duration): ask late enough that nothing sleeps
		now += int(2 * segDur * 1000 / ts)
	}
	if irregularRep != nil { // segments of different durations: the end of segment nr from the harness's own segment table
		now = int(irregularRep.LoopE(int64(nr))*1000/irregularRep.Timescale) + 1500
	}
	// further URL options in the prefix: availabilityStartTime, start number, $Time$ addressing
	id := int64(nr)
	if m := reStartOpt.FindStringSubmatch(urlPrefix); m != nil {
		s, _ := strconv.ParseInt(m[1], 10, 64)
		now += int(s * 1000)
	}
	if m := reSnrOpt.FindStringSubmatch(urlPrefix); m != nil {
		s, _ := strconv.ParseInt(m[1], 10, 64)
		id += s
	}
	if strings.Contains(urlPrefix, "segtimeline_1/") {
		id = int64(nr) * int64(segDur) // segments of equal duration (testpic assets)
	}
	url := fmt.Sprintf("/livesim2/%s%s/%s/%d.m4s?nowMS=%d", cfg, a.Name, rep, id, now)
	r := ls.GetRaw(url)
	so := segObs{Nr: nr, Status: r.Status, URL: url}
	if r.Panic != "" {
		return so, fmt.Errorf("%s: panic %s", url, r.Panic)
	}
	if r.Status != 200 {
		return so, fmt.Errorf("%s: status %d %s", url, r.Status, strings.TrimSpace(string(r.Body)))
	}
	f, err := mp4.DecodeFile(bytes.NewReader(r.Body))
	if err != nil {
		return so, fmt.Errorf("%s: %w", url, err)
	}
	var emsgs []obs
	for _, b := range f.Children { // all top-level boxes of the response, in order
		if e, ok := b.(*mp4.EmsgBox); ok {
			emsgs = append(emsgs, obsOfEmsg(e))
		}
	}
	first := true
	for _, s := range f.Segments {
		for _, fr := range s.Fragments {
			traf := fr.Moof.Traf
			if first {
				so.Start = traf.Tfdt.BaseMediaDecodeTime()
				first = false
			}
			def := uint32(0)
			if traf.Tfhd.HasDefaultSampleDuration() {
				def = traf.Tfhd.DefaultSampleDuration
			} else if t := a.trex[rep]; t != nil {
				def = t.DefaultSampleDuration
			}
			so.Dur += traf.Trun.Duration(def)
		}
	}
	so.Emsgs = emsgs
	switch len(emsgs) {
	case 0:
		so.O = obs{Class: 0}
	case 1:
		so.O = emsgs[0]
	default:
		so.O = obs{Class: 4, NrEmsg: len(emsgs)}
	}
	return so, nil
}

func loadAsset(ls *lib.Livesim, name, mpd string) (*assetInfo, error) {
	a := &assetInfo{Name: name, MPD: mpd, trex: map[string]*mp4.TrexBox{}}
	r := ls.GetRaw(fmt.Sprintf("/livesim2/%s/%s?nowMS=100000", name, mpd))
	if r.Status != 200 {
		return nil, fmt.Errorf("MPD of %s: status %d", name, r.Status)
	}
	reAS := regexp.MustCompile(`(?s)<AdaptationSet[^>]*contentType="(\w+)".*?</AdaptationSet>`)
	reTmpl := regexp.MustCompile(`<SegmentTemplate[^>]*>`)
	reRep := regexp.MustCompile(`<Representation id="([^"]+)"`)
	attr := func(s, k string) uint64 {
		m := regexp.MustCompile(k + `="(\d+)"`).FindStringSubmatch(s)
		if m == nil {
			return 0
		}
		v, _ := strconv.ParseUint(m[1], 10, 64)
		return v
	}
	var vDur, vTS, aDur, aTS uint64
	for _, m := range reAS.FindAllStringSubmatch(string(r.Body), -1) {
		tm := reTmpl.FindString(m[0])
		rp := reRep.FindStringSubmatch(m[0])
		if rp == nil {
			continue
		}
		mts := attr(tm, "timescale")
		if mts == 0 {
			mts = 1 // MPD default
		}
		switch m[1] {
		case "video":
			a.VideoRep, vDur, vTS = rp[1], attr(tm, "duration"), mts
		case "audio":
			a.AudioRep, aDur, aTS = rp[1], attr(tm, "duration"), mts
		}
	}
	if a.VideoRep == "" || vDur == 0 {
		return nil, fmt.Errorf("MPD of %s: no video SegmentTemplate with duration", name)
	}
	for _, rep := range []string{a.VideoRep, a.AudioRep} {
		if rep == "" {
			continue
		}
		ri := ls.GetRaw(fmt.Sprintf("/livesim2/%s/%s/init.mp4?nowMS=100000", name, rep))
		if ri.Status != 200 {
			return nil, fmt.Errorf("init of %s/%s: status %d", name, rep, ri.Status)
		}
		f, err := mp4.DecodeFile(bytes.NewReader(ri.Body))
		if err != nil || f.Init == nil {
			return nil, fmt.Errorf("init of %s/%s: %v", name, rep, err)
		}
		ts := uint64(f.Init.Moov.Trak.Mdia.Mdhd.Timescale)
		if f.Init.Moov.Mvex != nil {
			a.trex[rep] = f.Init.Moov.Mvex.Trex
		}
		// nominal segment duration in the track timescale (only used to choose numbers and nowMS)
		if rep == a.VideoRep {
			a.TS, a.SegDur = ts, vDur*ts/vTS
		} else if aDur != 0 {
			a.ATS, a.ADur = ts, aDur*ts/aTS
		}
	}
	if a.ADur == 0 {
		a.AudioRep = ""
	}
	return a, nil
}

// ---------------------------------------------------------------- Coq terms

func obsTerm(o obs) string {
	return fmt.Sprintf("{| o_class := %d; o_ts := %d; o_pt := %d; o_dur := %d; o_id := %d; o_data := %s |}",
		o.Class, o.TS, o.PT, o.Dur, o.ID, lib.Zbytes(o.Data))
}

func optZ(n *int) string {
	if n == nil {
		return "None"
	}
	return fmt.Sprintf("(Some %s)", lib.Zs(int64(*n)))
}

func paramsTerm(p scte35.SpliceInsertParams) string {
	return fmt.Sprintf("{| p_pts := %d; p_dur := %d; p_event := %d; p_tier := %d; p_upid := %d; p_avail := %d; p_avails := %d; p_cancel := %s; p_out := %s; p_immediate := %s; p_auto := %s |}",
		p.PtsTime, p.Duration, p.SpliceEventID, p.Tier, p.UniqueProgramID, p.AvailNum, p.AvailsExpected,
		lib.Cbool(p.SpliceEventCancelIndicator), lib.Cbool(p.OutOfNetworkIndicator), lib.Cbool(p.SpliceImmediateFlag), lib.Cbool(p.AutoReturn))
}

// ---------------------------------------------------------------- main

type runner struct {
	c        *lib.Ctx
	terms    []string
	nextID   int
	distinct map[string]bool
}

func (r *runner) id() (int, string) {
	i := r.nextID
	r.nextID++
	return i, strconv.Itoa(i)
}

// oracleSingle: the property evaluated on one segment in isolation (direct calls): the segment must
// carry exactly the scheduled events whose announce instant lies in (s, e].
func oracleSingle(c *lib.Ctx, id string, in directIn, o obs) {
	ts := in.Timescale
	if in.N < 1 || in.N > 3 {
		if o.Class != 2 {
			c.Fail(id, "not-rejected", fmt.Sprintf("perMinute %d accepted (class %d)", in.N, o.Class), in)
		}
		return
	}
	// domain of the property: timescale 1..10^7, segment of 0 < d <= 10 s, times below 2^32 s
	// (emsg id and splice_event_id are 32-bit second counts)
	if ts == 0 || ts > 10000000 || in.SegEnd <= in.SegStart || in.SegEnd-in.SegStart > 10*ts || in.SegEnd/ts >= 1<<32-120 {
		return
	}
	if o.Class >= 2 {
		c.Fail(id, "error-in-domain", fmt.Sprintf("CreateEmsgAhead failed on a valid segment: class %d %s", o.Class, o.Err), in)
		return
	}
	want := scheduledAnnouncedIn(in.SegStart, in.SegEnd, ts, in.N)
	if len(want) > 1 {
		c.Fail(id, "oracle-internal", "two announce instants within 10 s", in)
		return
	}
	if o.Class == 1 {
		checkEvent(c, id, o, ts, in.N, in)
	}
	switch {
	case len(want) == 0 && o.Class == 1:
		c.Fail(id, "wrong-segment", fmt.Sprintf("segment (%d,%d]/%d carries an event for %d whose announce instant is outside it", in.SegStart, in.SegEnd, ts, o.PT), in)
	case len(want) == 1 && o.Class == 0:
		sigma := want[0]
		minuteStart := sigma - (sigma % (60 * ts))
		if in.SegStart < minuteStart {
			fin := struct {
				directIn
				Offset uint64 `json:"offset_s"`
			}{in, (sigma / ts) % 60}
			c.Fail(id, "missing-event:minute-boundary", fmt.Sprintf("segment (%d,%d]/%d contains the announce instant of splice %d s but starts in the previous minute: no event", in.SegStart, in.SegEnd, ts, sigma/ts), fin)
		} else {
			c.Fail(id, "event-missing", fmt.Sprintf("segment (%d,%d]/%d contains the announce instant of splice %d s: no event", in.SegStart, in.SegEnd, ts, sigma/ts), in)
		}
	case len(want) == 1 && o.Class == 1 && o.PT != want[0]:
		c.Fail(id, "wrong-segment", fmt.Sprintf("segment (%d,%d]/%d carries an event for %d, expected %d", in.SegStart, in.SegEnd, ts, o.PT, want[0]), in)
	}
}

// oracleWindow: the property evaluated on a run of consecutive served video segments.
func oracleWindow(c *lib.Ctx, baseID string, w windowIn, segs []segObs) {
	ts := w.TS
	n := w.N
	if len(segs) == 0 {
		return
	}
	in := func(nr int, sigma, off uint64) windowIn {
		// replay input: the segments of about 70 s before and after the segment concerned
		x := w
		x.Nr, x.Sigma, x.Offset = nr, sigma, off
		k := int(70*w.TS/w.SegDur) + 2
		lo, hi := nr-k, nr+k
		if lo < w.FirstNr {
			lo = w.FirstNr
		}
		if hi > w.FirstNr+w.Count-1 {
			hi = w.FirstNr + w.Count - 1
		}
		x.FirstNr, x.Count = lo, hi-lo+1
		return x
	}
	carriers := map[uint64][]int{}
	for i, s := range segs {
		id := fmt.Sprintf("%s/%d", baseID, s.Nr)
		if i > 0 && segs[i-1].Start+segs[i-1].Dur != s.Start {
			c.Res.Notes = append(c.Res.Notes, fmt.Sprintf("%s: segments %d and %d are not contiguous (%d+%d vs %d): timeline is C01's subject", w.Asset, segs[i-1].Nr, s.Nr, segs[i-1].Start, segs[i-1].Dur, s.Start))
		}
		if len(s.Emsgs) > 1 {
			c.Fail(id, "two-events-in-segment", fmt.Sprintf("segment %d carries %d emsg boxes", s.Nr, len(s.Emsgs)), in(s.Nr, 0, 0))
		}
		for _, e := range s.Emsgs {
			checkEvent(c, id, e, ts, n, in(s.Nr, e.PT, 0))
			carriers[e.PT] = append(carriers[e.PT], i)
			alpha := int64(e.PT) - 7*int64(ts)
			if !(int64(s.Start) < alpha && alpha <= int64(s.Start+s.Dur)) {
				c.Fail(id, "wrong-segment", fmt.Sprintf("segment %d (%d,%d]/%d carries the event for splice %d whose announce instant %d is outside it", s.Nr, s.Start, s.Start+s.Dur, ts, e.PT, alpha), in(s.Nr, e.PT, 0))
			}
		}
	}
	// the property's schedule is on the wall clock: "over any wall-clock minute ... at the documented
	// offsets". Wall-clock time of a media time t is availabilityStartTime + t. When start_ is a multiple
	// of 60 s this is the schedule on the media timeline checked above and below; otherwise an event that
	// is right on the media timeline is reported under its own key if its wall-clock second is not a
	// documented offset.
	if w.StartMod60 != 0 {
		for _, s := range segs {
			for _, e := range s.Emsgs {
				if uint64(e.TS) != ts || e.PT%ts != 0 {
					continue // reported by checkEvent
				}
				wallS := int64(e.PT/ts) + w.StartS
				okWall := false
				for _, off := range offsetsDoc[n] {
					if int64(off) == wallS%60 {
						okWall = true
					}
				}
				if !okWall {
					x := in(s.Nr, e.PT, uint64(wallS%60))
					x.URL = s.URL
					c.Fail(fmt.Sprintf("%s/%d", baseID, s.Nr), "offset-on-media-timeline:start-not-multiple-of-60",
						fmt.Sprintf("%s: splice at media time %d s = wall clock %s, second :%02d of its minute; documented offsets for %d per minute are %v s after the full wall-clock minute (start_%d: the schedule follows the minutes of the media timeline, %d s after the wall-clock minute)",
							s.URL, e.PT/ts, time.Unix(wallS, 0).UTC().Format(time.RFC3339), wallS%60, n, offsetsDoc[n], w.StartS, w.StartMod60), x)
				}
			}
		}
	}
	first, last := segs[0], segs[len(segs)-1]
	anyEvent := len(carriers) > 0
	for m := first.Start / (60 * ts); m <= (last.Start+last.Dur)/(60*ts)+1; m++ {
		for _, off := range offsetsDoc[n] {
			sigma := (60*m + off) * ts
			alpha := sigma - 7*ts
			if !(first.Start < alpha && alpha <= last.Start+last.Dur) {
				continue
			}
			holder := -1
			for i, s := range segs {
				if s.Start < alpha && alpha <= s.Start+s.Dur {
					holder = i
				}
			}
			if holder < 0 {
				continue // gap in the window (noted above)
			}
			h := segs[holder]
			id := fmt.Sprintf("%s/%d", baseID, h.Nr)
			cs := carriers[sigma]
			switch {
			case len(cs) == 0 && strings.Contains(w.Prefix, "chunkdur_") && !anyEvent:
				c.Fail(id, "missing-event:chunked", fmt.Sprintf("%s %sscte35_%d: splice at %d s is never announced in chunked low-latency delivery: none of the %d segments of the window carries an emsg (segment %d should carry this one)", w.Asset, w.Prefix, n, sigma/ts, len(segs), h.Nr), in(h.Nr, sigma, off))
			case len(cs) == 0 && h.Start < 60*m*ts:
				c.Fail(id, "missing-event:minute-boundary", fmt.Sprintf("%s N=%d: splice at %d s (minute %d + %d s) is never announced: segment %d (%d,%d]/%d contains the announce instant but starts in the previous minute", w.Asset, n, sigma/ts, m, off, h.Nr, h.Start, h.Start+h.Dur, ts), in(h.Nr, sigma, off))
			case len(cs) == 0:
				c.Fail(id, "event-missing", fmt.Sprintf("%s N=%d: splice at %d s is never announced (segment %d should carry it)", w.Asset, n, sigma/ts, h.Nr), in(h.Nr, sigma, off))
			case len(cs) > 1:
				c.Fail(id, "double-announcement", fmt.Sprintf("%s N=%d: splice at %d s is announced in %d segments", w.Asset, n, sigma/ts, len(cs)), in(h.Nr, sigma, off))
			}
		}
	}
}

func runC13(c *lib.Ctx) error {
	if c.Replay != "" {
		return replayC13(c)
	}
	debug.SetGCPercent(400)
	rng := rand.New(rand.NewSource(c.Seed))
	r := &runner{c: c, distinct: map[string]bool{}}

	// ------------------------------------------------------------ 0. the constants in the source
	{
		sc := readSrcConsts()
		pc, pproblems := probeConsts()
		idn, id := r.id()
		in := map[string]any{"kind": "consts", "file": filepath.Join(repoRoot(), "pkg/scte35/scte35.go"), "probed": pc, "read_from_source": sc}
		c.Res.Inputs[id] = in
		c.Count("schedule-constants")
		for _, p := range sc.Problems {
			c.Res.Notes = append(c.Res.Notes, "constants of CreateEmsgAhead (syntactic reading): "+p)
		}
		for _, p := range pproblems {
			c.Fail(id, "constants:probe-inconsistent", p, in)
		}
		notes, conflicts := reconcileConsts(pc, sc)
		c.Res.Notes = append(c.Res.Notes, notes...)
		for _, p := range conflicts {
			c.Fail(id, "constants:source-differs-from-behaviour", p, in)
		}
		r.terms = append(r.terms, pc.term(idn)) // the model's constants are compared with the probed ones
	}
	scale := 1
	if c.Thorough() {
		scale = 10
	}

	// ------------------------------------------------------------ 1. direct calls of CreateEmsgAhead
	tss := []uint64{1, 1000, 10000, 15360, 30000, 48000, 90000, 10000000}
	var directs []directIn
	addD := func(s, e, ts uint64, n int, kind string) {
		directs = append(directs, directIn{Kind: "direct", SegStart: s, SegEnd: e, Timescale: ts, N: n})
		c.Count("direct:" + kind)
	}
	pickN := func() int { return 1 + rng.Intn(3) }
	allOffs := []uint64{10, 36, 40, 46}
	// boundary cases around every announce instant: start/end exactly on, one tick before/after
	for i := 0; i < 140*scale; i++ {
		ts := tss[rng.Intn(len(tss))]
		m := uint64(rng.Intn(2000))
		if rng.Intn(4) == 0 {
			m = uint64(rng.Int63n(30000000)) // decades
		}
		off := allOffs[rng.Intn(len(allOffs))]
		alpha := (60*m + off - 7) * ts
		d := uint64(1+rng.Intn(10)) * ts
		if rng.Intn(3) == 0 && ts > 1 {
			d = uint64(rng.Int63n(int64(10*ts))) + 1
		}
		for _, delta := range []int64{-1, 0, 1} {
			n := pickN()
			s := uint64(int64(alpha) + delta)
			addD(s, s+d, ts, n, "start-at-announce")
			e := uint64(int64(alpha) + delta)
			if e > d {
				addD(e-d, e, ts, n, "end-at-announce")
			}
		}
	}
	// segments straddling a minute boundary (the announce instant of the first splice is 3 s after it)
	for i := 0; i < 150*scale; i++ {
		ts := tss[rng.Intn(len(tss))]
		m := uint64(1 + rng.Intn(5000))
		d := uint64(rng.Int63n(int64(10*ts))) + 1
		back := uint64(rng.Int63n(int64(d))) + 1
		s := 60*m*ts - back
		addD(s, s+d, ts, pickN(), "straddles-minute")
	}
	// random segments
	for i := 0; i < 500*scale; i++ {
		ts := tss[rng.Intn(len(tss))]
		if rng.Intn(5) == 0 {
			ts = uint64(1 + rng.Int63n(1<<32))
		}
		s := uint64(rng.Int63n(int64(200000 * ts)))
		d := uint64(rng.Int63n(int64(10*ts))) + 1
		addD(s, s+d, ts, pickN(), "random")
	}
	// around the 33-bit PTS wrap (2^33/90000 s = 95443.7 s) and the uint32 id wrap
	for i := 0; i < 60*scale; i++ {
		ts := tss[rng.Intn(len(tss))]
		k := uint64(1 + rng.Intn(4))
		m := k*(1<<33)/90000/60 - 1 + uint64(rng.Intn(3))
		if rng.Intn(4) == 0 {
			m = (1<<32)/60 - 1 + uint64(rng.Intn(3))
		}
		off := allOffs[rng.Intn(len(allOffs))]
		alpha := (60*m + off - 7) * ts
		d := uint64(1+rng.Intn(10)) * ts
		back := uint64(rng.Int63n(int64(d)))
		addD(alpha-back-1, alpha-back-1+d, ts, pickN(), "pts-wrap")
	}
	// the splice seconds whose 90 kHz PTS is exactly 0 modulo 2^33 (k*90000 = j*2^33: k = j*2^29; on the
	// schedule for k = 3*2^29 (offset 36, N = 3) and k = 5*2^29 (offset 40, N = 2)), and their neighbours
	for _, kn := range [][2]uint64{{3 << 29, 3}, {5 << 29, 2}} {
		for _, ts := range []uint64{1, 1000, 90000, 15360} {
			for _, dm := range []int64{-1, 0, 1} {
				k := uint64(int64(kn[0]) + 60*dm)
				alpha := (k - 7) * ts
				addD(alpha-ts, alpha+ts, ts, int(kn[1]), "pts-exactly-zero")
			}
		}
	}
	// outside the property's domain: other N, long segments, empty/inverted, timescale 0 (panic),
	// values where the uint64 arithmetic wraps
	for i := 0; i < 60*scale; i++ {
		ts := tss[rng.Intn(len(tss))]
		s := uint64(rng.Int63n(int64(4000 * ts)))
		addD(s, s+2*ts, ts, []int{0, 4, -1, 5, 60, 1 << 31, -3}[rng.Intn(7)], "other-N")
		addD(s, s+uint64(rng.Int63n(int64(70*ts))), ts, pickN(), "long-segment")
		addD(s, s-uint64(rng.Int63n(int64(2*ts))), ts, pickN(), "empty-or-inverted")
	}
	for _, ts := range []uint64{0, 1 << 62, 1 << 63, 3 << 62} {
		for n := 0; n <= 4; n++ {
			addD(uint64(rng.Int63()), uint64(rng.Int63()), ts, n, "timescale-60x-wraps-to-0")
		}
	}
	for i := 0; i < 40*scale; i++ {
		ts := uint64(rng.Int63())>>uint(rng.Intn(40)) + 1
		s := rng.Uint64() >> uint(rng.Intn(30))
		addD(s, s+uint64(rng.Int63n(1<<40)), ts, pickN(), "uint64-wrap")
	}
	for _, in := range directs {
		i, id := r.id()
		o := runDirect(in)
		c.Res.Inputs[id] = in
		oracleSingle(c, id, in, o)
		r.terms = append(r.terms, fmt.Sprintf("CEmsg %d %d %d %d %s %s", i, in.SegStart, in.SegEnd, in.Timescale, lib.Zs(int64(in.N)), obsTerm(o)))
		if o.Class == 1 {
			r.distinct[fmt.Sprint("d", in)] = true
			c.Count("direct-result:event")
		} else {
			c.Count(fmt.Sprintf("direct-result:class%d", o.Class))
		}
		if i%97 == 0 {
			c.Sample(map[string]any{"input": in, "observed": o})
		}
	}

	// ------------------------------------------------------------ 1b. the same function called from many goroutines at once
	oracleSegsExtra := 0 // oracle-only evaluations outside the server phases
	{
		budget := 2500 * time.Millisecond
		if c.Thorough() {
			budget = 10 * time.Second
		}
		calls, fails := hammerDirect(c.Seed, budget, nil)
		c.Res.Distribution["direct:concurrent-calls"] = int(calls)
		oracleSegsExtra += int(calls)
		for _, f := range fails {
			_, id := r.id()
			c.Res.Inputs[id] = f.in
			c.Fail(id, "concurrent:wrong-fields", fmt.Sprintf("CreateEmsgAhead(%d, %d, %d, %d) called while other goroutines call it for other events: %s", f.in.SegStart, f.in.SegEnd, f.in.Timescale, f.in.N, f.what), f.in)
		}
	}
	// ------------------------------------------------------------ 2. direct calls of CreateSpliceInsertPayload
	for i := 0; i < 150*scale; i++ {
		p := scte35.SpliceInsertParams{
			PtsTime: rng.Uint64() >> uint(rng.Intn(64)), Duration: rng.Uint64() >> uint(20+rng.Intn(44)),
			SpliceEventID: rng.Uint32() >> uint(rng.Intn(32)), Tier: uint16(rng.Intn(1 << 16)), UniqueProgramID: uint16(rng.Intn(1 << 16)),
			AvailNum: uint8(rng.Intn(256)), AvailsExpected: uint8(rng.Intn(256)),
			SpliceEventCancelIndicator: rng.Intn(4) == 0, OutOfNetworkIndicator: rng.Intn(2) == 0,
			SpliceImmediateFlag: rng.Intn(4) == 0, AutoReturn: rng.Intn(2) == 0}
		if rng.Intn(5) == 0 {
			p.Duration = 0
		}
		if rng.Intn(8) == 0 {
			p.PtsTime = 0
		}
		in := payloadIn{"payload", p}
		data := scte35.CreateSpliceInsertPayload(p)
		idn, id := r.id()
		c.Res.Inputs[id] = in
		c.Count("payload")
		if crc32MPEG2(data) != 0 {
			c.Fail(id, "bad-crc", "CreateSpliceInsertPayload: CRC-32/MPEG-2 over the section is not 0", in)
		}
		// the section says what the parameters say (the harness's own reader)
		// (not for the cancel indicator, which livesim2 never sets: gots writes the remaining fields of the
		// command although the standard omits them then)
		if p.SpliceEventCancelIndicator {
		} else if sec, err := parseSection(data); err != nil {
			c.Fail(id, "bad-section", "CreateSpliceInsertPayload: "+err.Error(), in)
		} else {
			if !p.SpliceImmediateFlag && (sec.TimeSpecified != 1 || sec.PtsTime != p.PtsTime%(1<<33)) {
				c.Fail(id, "wrong-pts", fmt.Sprintf("CreateSpliceInsertPayload: pts_time %d (time_specified %d), parameter %d", sec.PtsTime, sec.TimeSpecified, p.PtsTime), in)
			}
			if sec.EventID != uint64(p.SpliceEventID) || (p.Duration != 0 && (sec.HasDuration != 1 || sec.BreakDuration != p.Duration%(1<<33))) {
				c.Fail(id, "wrong-fields", fmt.Sprintf("CreateSpliceInsertPayload: event id %d break_duration %d (flag %d), parameters %d / %d", sec.EventID, sec.BreakDuration, sec.HasDuration, p.SpliceEventID, p.Duration), in)
			}
		}
		r.distinct[fmt.Sprint("p", p)] = true
		r.terms = append(r.terms, fmt.Sprintf("CPayload %d %s %s", idn, paramsTerm(p), lib.Zbytes(data)))
	}

	// ------------------------------------------------------------ 3. through the server
	ls, err := lib.NewLivesim(lib.TestVodRoot, nil)
	if err != nil {
		return err
	}
	type asrc struct{ name, mpd string }
	var assets []*assetInfo
	for _, s := range []asrc{{"testpic_2s", "Manifest.mpd"}, {"testpic_8s", "Manifest.mpd"}, {"testpic_6s", "Manifest.mpd"},
		{"WAVE/vectors/cfhd_sets/14.985_29.97_59.94/t1/2022-10-17", "stream.mpd"}} {
		a, err := loadAsset(ls, s.name, s.mpd)
		if err != nil {
			return err
		}
		assets = append(assets, a)
	}
	streamSeconds := uint64(0)
	concTerms := 0 // concurrent observations that are both oracle-checked and replayed by the model
	maxSecond := uint64(0)
	oracleSegs := 0
	// window fetches count consecutive video segments, evaluates the oracle on all of them and hands
	// to the model: every segment with an event, every segment next to an announce instant, and
	// (all == false) one in `every` of the others.
	window := func(a *assetInfo, n int, firstNr, count int, kind string, every int) error {
		w := windowIn{Kind: "window", Asset: a.Name, Rep: a.VideoRep, N: n, FirstNr: firstNr, Count: count, TS: a.TS, SegDur: a.SegDur, IsVideo: true, Prefix: urlPrefix}
		if m := reStartOpt.FindStringSubmatch(urlPrefix); m != nil {
			w.StartS, _ = strconv.ParseInt(m[1], 10, 64)
			w.StartMod60 = w.StartS % 60
		}
		w.Irregular = irregularKind
		var segs []segObs
		base := fmt.Sprintf("w%d", r.nextID)
		for nr := firstNr; nr < firstNr+count; nr++ {
			so, err := fetchSeg(ls, a, a.VideoRep, n, nr, a.SegDur, a.TS)
			if err != nil {
				return err
			}
			segs = append(segs, so)
			oracleSegs++
			streamSeconds += so.Dur / a.TS
			if sec := (so.Start + so.Dur) / a.TS; sec > maxSecond && sec < 200000 {
				maxSecond = sec
			}
			near := false
			for _, sg := range scheduledAnnouncedIn(so.Start-min(so.Start, so.Dur), so.Start+2*so.Dur, a.TS, n) {
				_ = sg
				near = true
			}
			if kind == "first-hours" && (so.O.Class != 0 || near) && rng.Intn(8) != 0 {
				c.Count("segment-oracle-only:" + kind)
				continue
			}
			if so.O.Class == 0 && !near && rng.Intn(every) != 0 {
				c.Count("segment-oracle-only:" + kind)
				continue
			}
			idn, id := r.id()
			x := w
			x.Nr, x.FirstNr, x.Count = nr, nr, 1
			c.Res.Inputs[id] = x
			c.Count("segment:" + kind)
			np := n
			ctor := "CSeg"
			if strings.Contains(urlPrefix, "chunkdur_") {
				ctor = "CChunk"
			}
			r.terms = append(r.terms, fmt.Sprintf("%s %d true %s %d %d %d %s", ctor, idn, optZ(&np), so.Start, so.Dur, a.TS, obsTerm(so.O)))
			if so.O.Class == 1 {
				r.distinct[fmt.Sprint("s", a.Name, n, nr)] = true
				c.Count("segment-result:event")
			}
		}
		oracleWindow(c, base, w, segs)
		return nil
	}
	for _, a := range assets {
		perMin := int(60*a.TS/a.SegDur) + 1
		heavy := strings.HasPrefix(a.Name, "WAVE")
		for n := 1; n <= 3; n++ {
			if !heavy {
				// every segment of the first three hours (thorough: ten hours)
				cnt := int(uint64(3*scale)*3600*a.TS/a.SegDur) + 2
				if scale > 1 {
					cnt = int(uint64(10)*3600*a.TS/a.SegDur) + 2
				}
				if err := window(a, n, 0, cnt, "first-hours", 60); err != nil {
					return err
				}
			} else {
				for k := 0; k < scale; k++ {
					m0 := rng.Intn(178)
					if k == 0 && n == 1 {
						m0 = 0
					}
					first := int(uint64(m0) * 60 * a.TS / a.SegDur)
					if err := window(a, n, first, perMin+2, "contiguous-minute", 10); err != nil {
						return err
					}
				}
			}
			// single far-away minutes: around the PTS wrap (26.5 h and multiples), far from the epoch
			far := []int{1590, 1589 + rng.Intn(3), 2 * 1590, 3*1590 + 1, 30000000 - rng.Intn(1000000), 1000000 + rng.Intn(20000000)}
			if heavy {
				far = []int{179, 1590, rng.Intn(180), 60 + rng.Intn(120)}
			}
			for _, m := range far {
				if heavy {
					// only the segments around the announce instants of this minute
					for _, off := range offsetsDoc[n] {
						f := int((uint64(m)*60+off-7)*a.TS/a.SegDur) - 1
						if err := window(a, n, f, 3, "around-announce", 1); err != nil {
							return err
						}
					}
					continue
				}
				// start a little before the minute so that the straddling segment is included
				first := int(uint64(m)*60*a.TS/a.SegDur) - 1
				if err := window(a, n, first, perMin+3, "far-minute", 10); err != nil {
					return err
				}
			}
		}
		// chunked low-latency delivery (chunkdur_<s>/: the response is built from re-chunked fragments):
		// the same events in the same segments. Requests are made after the segment end, so that all
		// chunks are written at once.
		if !heavy {
			for n := 1; n <= 3; n++ {
				for _, pfx := range []string{"chunkdur_0.5/", "chunkdur_1/ato_1/"} {
					urlPrefix = pfx
					m := rng.Intn(170)
					first := int(uint64(m)*60*a.TS/a.SegDur) - 1
					if first < 0 {
						first = 0
					}
					err := window(a, n, first, perMin+3, "chunked-minute", 4)
					urlPrefix = ""
					if err != nil {
						return err
					}
				}
			}
		}
		// scte35 crossed with the options that move the timeline or the addressing: availabilityStartTime
		// (multiples and non-multiples of 60 s, realistic epoch values), start number, availability time
		// offset, time-shift buffer depth, SegmentTimeline with $Time$ / $Number$, chunked delivery. The
		// events belong to the media timeline of the segments (tfdt counts from availabilityStartTime).
		if !heavy {
			crossed := []string{"start_86400/", "start_1700000040/", "start_1700000065/", "start_7/snr_5/", "snr_1000/", "tsbd_30/",
				"start_600/segtimeline_1/", "start_61/snr_3/segtimelinenr_1/", "start_1700000065/chunkdur_0.5/", "ato_1/chunkdur_1/start_3600/", "snr_4000000000/start_90/"}
			for k := 0; k < 4*scale; k++ {
				pfx := crossed[rng.Intn(len(crossed))]
				if k == 0 {
					pfx = crossed[rng.Intn(2)] // always one plain non-zero start time that is a multiple of 60 s
				}
				if k == 1 {
					pfx = "start_1700000065/" // and one that is not (1700000065 = 25 mod 60)
				}
				n := 1 + rng.Intn(3)
				urlPrefix = pfx
				m := 1 + rng.Intn(170)
				first := int(uint64(m)*60*a.TS/a.SegDur) - 1
				err := window(a, n, first, perMin+3, "crossed-minute", 4)
				urlPrefix = ""
				if err != nil {
					return err
				}
			}
		}
		// audio never carries events; video without scte35 carries none
		if a.AudioRep != "" {
			for k := 0; k < 6; k++ {
				n := 1 + k%3
				nr := int((uint64(rng.Intn(180))*60 + 3) * a.ATS / a.ADur)
				so, err := fetchSeg(ls, a, a.AudioRep, n, nr, a.ADur, a.ATS)
				if err != nil {
					return err
				}
				idn, id := r.id()
				w := windowIn{Kind: "window", Asset: a.Name, Rep: a.AudioRep, N: n, FirstNr: nr, Count: 1, Nr: nr, TS: a.ATS, SegDur: a.ADur, IsVideo: false}
				c.Res.Inputs[id] = w
				c.Count("segment:audio")
				if len(so.Emsgs) != 0 {
					c.Fail(id, "event-on-audio", fmt.Sprintf("%s audio segment %d carries %d emsg boxes", a.Name, nr, len(so.Emsgs)), w)
				}
				np := n
				r.terms = append(r.terms, fmt.Sprintf("CSeg %d false %s %d %d %d %s", idn, optZ(&np), so.Start, so.Dur, a.ATS, obsTerm(so.O)))
			}
		}
		for k := 0; k < 3; k++ {
			nr := int((uint64(rng.Intn(180))*60 + 3) * a.TS / a.SegDur)
			so, err := fetchSeg(ls, a, a.VideoRep, 0, nr, a.SegDur, a.TS)
			if err != nil {
				return err
			}
			idn, id := r.id()
			w := windowIn{Kind: "window", Asset: a.Name, Rep: a.VideoRep, N: 0, FirstNr: nr, Count: 1, Nr: nr, TS: a.TS, SegDur: a.SegDur, IsVideo: true}
			c.Res.Inputs[id] = w
			c.Count("segment:scte35-off")
			if len(so.Emsgs) != 0 {
				c.Fail(id, "event-without-scte35", fmt.Sprintf("%s video segment %d carries an emsg although scte35 is not configured", a.Name, nr), w)
			}
			r.terms = append(r.terms, fmt.Sprintf("CSeg %d true None %d %d %d %s", idn, so.Start, so.Dur, a.TS, obsTerm(so.O)))
		}
		// MPD: InbandEventStream iff enabled, video only
		for _, n := range []int{0, 1, 2, 3} {
			cfg := ""
			var np *int
			if n != 0 {
				cfg = fmt.Sprintf("scte35_%d/", n)
				nn := n
				np = &nn
			}
			url := fmt.Sprintf("/livesim2/%s%s/%s?nowMS=%d", cfg, a.Name, a.MPD, 100000+rng.Intn(1000000))
			resp := ls.GetRaw(url)
			if resp.Status != 200 {
				return fmt.Errorf("%s: status %d", url, resp.Status)
			}
			reAS := regexp.MustCompile(`(?s)<AdaptationSet[^>]*contentType="(\w+)".*?</AdaptationSet>`)
			for _, m := range reAS.FindAllStringSubmatch(string(resp.Body), -1) {
				isVideo := m[1] == "video"
				nInband := strings.Count(m[0], `<InbandEventStream schemeIdUri="urn:scte:scte35:2013:bin"`)
				inband := nInband > 0
				idn, id := r.id()
				in := map[string]any{"kind": "mpd", "url": url, "content_type": m[1]}
				c.Res.Inputs[id] = in
				c.Count("mpd-adaptation-set")
				if inband != (isVideo && n != 0) || nInband > 1 {
					c.Fail(id, "mpd-inband-event-stream", fmt.Sprintf("%s: %s adaptation set has %d SCTE-35 InbandEventStream elements with scte35=%d", url, m[1], nInband, n), in)
				}
				r.terms = append(r.terms, fmt.Sprintf("CMpd %d %s %s %s", idn, lib.Cbool(isVideo), optZ(np), lib.Cbool(inband)))
			}
		}
	}
	// ------------------------------------------------------------ many requests at the same time on the same server
	// (several players and representations ask for the same and for neighbouring segments, with all three
	// scte35 settings mixed): every response must carry exactly the events whose announce instant lies
	// in its own interval, with consistent fields, whatever else the server is doing
	{
		type cjob struct {
			a  *assetInfo
			n  int
			nr int
			so segObs
			e  error
		}
		var jobs []*cjob
		for _, a := range assets {
			if strings.HasPrefix(a.Name, "WAVE") {
				continue
			}
			for k := 0; k < 90*scale; k++ {
				n := 1 + rng.Intn(3)
				m := uint64(rng.Intn(20000))
				off := offsetsDoc[n][rng.Intn(len(offsetsDoc[n]))]
				nr := int((m*60+off-7)*a.TS/a.SegDur) - 1 + rng.Intn(3)
				if nr < 0 {
					nr = 0
				}
				for rep := 0; rep < 3; rep++ { // the same segment several times, and for the other settings
					jobs = append(jobs, &cjob{a: a, n: n, nr: nr}, &cjob{a: a, n: 1 + (n+rep)%3, nr: nr})
				}
			}
		}
		rng.Shuffle(len(jobs), func(i, k int) { jobs[i], jobs[k] = jobs[k], jobs[i] })
		ch := make(chan *cjob, len(jobs))
		for _, j := range jobs {
			ch <- j
		}
		close(ch)
		var wg sync.WaitGroup
		for w := 0; w < 32; w++ {
			wg.Add(1)
			go func() {
				defer wg.Done()
				for j := range ch {
					j.so, j.e = fetchSeg(ls, j.a, j.a.VideoRep, j.n, j.nr, j.a.SegDur, j.a.TS)
				}
			}()
		}
		wg.Wait()
		for k, j := range jobs {
			if j.e != nil {
				return j.e
			}
			idn, id := r.id()
			w := windowIn{Kind: "window", Asset: j.a.Name, Rep: j.a.VideoRep, N: j.n, FirstNr: j.nr, Count: 1, Nr: j.nr, TS: j.a.TS, SegDur: j.a.SegDur, IsVideo: true, Concurrent: true}
			c.Count("segment:concurrent")
			oracleSegs++
			so := j.so
			want := scheduledAnnouncedIn(so.Start, so.Start+so.Dur, j.a.TS, j.n)
			before := len(c.Res.OracleFailures)
			if len(so.Emsgs) > 1 {
				c.Fail(id, "two-events-in-segment", fmt.Sprintf("segment %d carries %d emsg boxes", so.Nr, len(so.Emsgs)), w)
			}
			for _, e := range so.Emsgs {
				checkEvent(c, id, e, j.a.TS, j.n, w)
			}
			switch {
			case len(want) == 1 && len(so.Emsgs) == 0:
				c.Fail(id, "event-missing", fmt.Sprintf("%s scte35_%d segment %d (%d,%d]/%d contains the announce instant of splice %d s: no event", j.a.Name, j.n, so.Nr, so.Start, so.Start+so.Dur, j.a.TS, want[0]/j.a.TS), w)
			case len(want) == 0 && len(so.Emsgs) > 0:
				c.Fail(id, "wrong-segment", fmt.Sprintf("%s scte35_%d segment %d (%d,%d]/%d carries an event for %d whose announce instant is outside it", j.a.Name, j.n, so.Nr, so.Start, so.Start+so.Dur, j.a.TS, so.Emsgs[0].PT), w)
			case len(want) == 1 && len(so.Emsgs) == 1 && so.Emsgs[0].PT != want[0]:
				c.Fail(id, "wrong-segment", fmt.Sprintf("%s scte35_%d segment %d carries an event for %d, expected %d", j.a.Name, j.n, so.Nr, so.Emsgs[0].PT, want[0]), w)
			}
			for i := before; i < len(c.Res.OracleFailures); i++ {
				c.Res.OracleFailures[i].Key = "concurrent:" + c.Res.OracleFailures[i].Key
			}
			if len(c.Res.OracleFailures) > before || k%6 == 0 {
				c.Res.Inputs[id] = w
				np := j.n
				concTerms++
				r.terms = append(r.terms, fmt.Sprintf("CSeg %d true %s %d %d %d %s", idn, optZ(&np), so.Start, so.Dur, j.a.TS, obsTerm(so.O)))
			}
		}
	}
	// other representations (text, image) never carry events; the text adaptation sets of the MPD
	// have no InbandEventStream (testpic_2s has IMSC1 text/image subtitle tracks and thumbnails)
	for _, n := range []int{1, 2, 3} {
		for _, rep := range []string{"imsc1_txt_sv", "imsc1_img_en"} {
			for k := 0; k < 4; k++ {
				off := offsetsDoc[n][k%len(offsetsDoc[n])]
				nr := int((uint64(rng.Intn(180))*60 + off - 7) / 2)
				if k == 3 {
					nr = rng.Intn(5000)
				}
				url := fmt.Sprintf("/livesim2/scte35_%d/testpic_2s/%s/%d.m4s?nowMS=%d", n, rep, nr, (nr+1)*2000+1500)
				resp := ls.GetRaw(url)
				idn, id := r.id()
				in := map[string]any{"kind": "other-rep", "url": url}
				c.Res.Inputs[id] = in
				c.Count("segment:text")
				if resp.Status != 200 {
					return fmt.Errorf("%s: status %d %s", url, resp.Status, resp.Panic)
				}
				nEmsg := bytes.Count(resp.Body, []byte("emsg"))
				if nEmsg != 0 {
					c.Fail(id, "event-on-other-representation", fmt.Sprintf("%s: the segment contains %d emsg box(es)", url, nEmsg), in)
				}
				o := obs{Class: 0}
				if nEmsg != 0 {
					o = obs{Class: 4, NrEmsg: nEmsg}
				}
				nn := n
				r.terms = append(r.terms, fmt.Sprintf("CSeg %d false %s %d %d %d %s", idn, optZ(&nn), nr*2000, 2000, 1000, obsTerm(o)))
			}
		}
		url := fmt.Sprintf("/livesim2/scte35_%d/testpic_2s/Manifest_imsc1.mpd?nowMS=%d", n, 100000+rng.Intn(1000000))
		resp := ls.GetRaw(url)
		if resp.Status != 200 {
			return fmt.Errorf("%s: status %d", url, resp.Status)
		}
		reAS := regexp.MustCompile(`(?s)<AdaptationSet[^>]*contentType="(\w+)".*?</AdaptationSet>`)
		for _, m := range reAS.FindAllStringSubmatch(string(resp.Body), -1) {
			isVideo := m[1] == "video"
			inband := strings.Contains(m[0], `<InbandEventStream schemeIdUri="urn:scte:scte35:2013:bin"`)
			idn, id := r.id()
			in := map[string]any{"kind": "mpd", "url": url, "content_type": m[1]}
			c.Res.Inputs[id] = in
			c.Count("mpd-adaptation-set")
			if inband != isVideo {
				c.Fail(id, "mpd-inband-event-stream", fmt.Sprintf("%s: %s adaptation set InbandEventStream=%v with scte35=%d", url, m[1], inband, n), in)
			}
			nn := n
			r.terms = append(r.terms, fmt.Sprintf("CMpd %d %s %s %s", idn, lib.Cbool(isVideo), optZ(&nn), lib.Cbool(inband)))
		}
	}
	// ------------------------------------------------------------ assets whose non-video representations are served from file
	// (pre-encrypted audio, a stored wvtt text track): every representation that is not video carries
	// no event, in every segment of the minutes looked at; the video of the same asset carries them
	{
		root, cleanup, err := lib.ScratchDir("c13")
		if err != nil {
			return err
		}
		defer cleanup()
		if err := buildDerivedAssets(root); err != nil {
			return fmt.Errorf("derived assets: %w", err)
		}
		dls, err := lib.NewLivesim(root, nil)
		if err != nil {
			return fmt.Errorf("server over the derived assets: %w", err)
		}
		type nonVideo struct {
			asset, rep string
			ts, dur    uint64 // timescale and segment duration of the representation
		}
		reps := []nonVideo{{"testpic_2s_encaudio", "A48", 48000, 96000}, {"testpic_2s_wvtt", "A48", 48000, 96000}, {"testpic_2s_wvtt", "W1", 1000, 2000}}
		for _, nv := range reps {
			for n := 1; n <= 3; n++ {
				m := 1 + rng.Intn(170)
				firstNr := m*30 - 1
				count := 31
				if scale == 1 {
					count = 24 // the first 48 s of the minute hold all announce instants
				}
				for nr := firstNr; nr < firstNr+count; nr++ {
					url := fmt.Sprintf("/livesim2/scte35_%d/%s/%s/%d.m4s?nowMS=%d", n, nv.asset, nv.rep, nr, (nr+1)*2000+1500)
					resp := dls.GetRaw(url)
					idn, id := r.id()
					in := map[string]any{"kind": "derived-rep", "url": url, "asset": nv.asset, "rep": nv.rep}
					c.Res.Inputs[id] = in
					c.Count("segment:derived-non-video:" + nv.asset + "/" + nv.rep)
					oracleSegs++
					if resp.Status != 200 {
						return fmt.Errorf("%s: status %d %s %s", url, resp.Status, resp.Panic, strings.TrimSpace(string(resp.Body)))
					}
					ne, err := countEmsg(resp.Body)
					if err != nil {
						return fmt.Errorf("%s: %w", url, err)
					}
					if ne != 0 {
						c.Fail(id, "event-on-other-representation", fmt.Sprintf("%s: the %s segment of asset %s carries %d emsg box(es)", url, nv.rep, nv.asset, ne), in)
					}
					if ne != 0 || nr%4 == 0 {
						o := obs{Class: 0}
						if ne != 0 {
							o = obs{Class: 4, NrEmsg: ne}
						}
						nn := n
						concTerms++
						r.terms = append(r.terms, fmt.Sprintf("CSeg %d false %s %d %d %d %s", idn, optZ(&nn), uint64(nr)*nv.dur, nv.dur, nv.ts, obsTerm(o)))
					}
				}
			}
		}
		// the live MPD of every derived asset: exactly one SCTE-35 InbandEventStream on every video
		// adaptation set with scte35_1/2/3, none without and none on any other adaptation set, whatever
		// event signalling the VoD MPD already carries
		shapeNames := make([]string, 0, len(mpdShapeAssets))
		for name := range mpdShapeAssets {
			shapeNames = append(shapeNames, name)
		}
		sort.Strings(shapeNames)
		reAS := regexp.MustCompile(`(?s)<AdaptationSet[^>]*contentType="(\w+)".*?</AdaptationSet>`)
		for _, name := range shapeNames {
			for _, mode := range []string{"", "segtimeline_1/"} {
				for _, n := range []int{0, 1, 2, 3} {
					if mode != "" && n != 0 && n != 1+rng.Intn(3) {
						continue
					}
					cfg := mode
					var np *int
					if n != 0 {
						cfg += fmt.Sprintf("scte35_%d/", n)
						nn := n
						np = &nn
					}
					url := fmt.Sprintf("/livesim2/%s%s/Manifest.mpd?nowMS=%d", cfg, name, 100000+rng.Intn(1000000))
					resp := dls.GetRaw(url)
					if resp.Status != 200 {
						return fmt.Errorf("%s: status %d %s", url, resp.Status, resp.Panic)
					}
					nVideo := 0
					for _, m := range reAS.FindAllStringSubmatch(string(resp.Body), -1) {
						isVideo := m[1] == "video"
						if isVideo {
							nVideo++
						}
						nInband := strings.Count(m[0], `<InbandEventStream schemeIdUri="urn:scte:scte35:2013:bin"`)
						idn, id := r.id()
						in := map[string]any{"kind": "derived-mpd", "url": url, "content_type": m[1], "asset": name}
						c.Res.Inputs[id] = in
						c.Count("mpd-adaptation-set:derived")
						want := 0
						if isVideo && n != 0 {
							want = 1
						}
						if nInband != want {
							c.Fail(id, "mpd-inband-event-stream", fmt.Sprintf("%s: the %s adaptation set has %d SCTE-35 InbandEventStream elements with scte35=%d, expected %d (asset %s: its VoD MPD carries other event signalling / several video sets)", url, m[1], nInband, n, want, name), in)
						}
						r.terms = append(r.terms, fmt.Sprintf("CMpd %d %s %s %s", idn, lib.Cbool(isVideo), optZ(np), lib.Cbool(nInband > 0)))
					}
					if nVideo != mpdShapeAssets[name] {
						_, id := r.id()
						in := map[string]any{"kind": "derived-mpd", "url": url, "asset": name}
						c.Res.Inputs[id] = in
						c.Fail(id, "mpd-inband-event-stream", fmt.Sprintf("%s: %d video adaptation sets in the live MPD, the VoD MPD has %d", url, nVideo, mpdShapeAssets[name]), in)
					}
				}
			}
		}
		// the video of the derived assets carries the events (one minute each)
		saved := ls
		ls = dls
		for _, name := range []string{"testpic_2s_encaudio", "testpic_2s_wvtt", "testpic_2s_ies_video", "testpic_2s_two_video"} {
			a, err := loadAsset(dls, name, "Manifest.mpd")
			if err == nil {
				n := 1 + rng.Intn(3)
				m := 1 + rng.Intn(170)
				err = window(a, n, m*30-1, 33, "derived-video", 4)
			}
			if err != nil {
				ls = saved
				return fmt.Errorf("derived asset %s: %w", name, err)
			}
		}
		ls = saved
	}
	// ------------------------------------------------------------ assets whose video segments have different durations
	// (bundled testpic_alt_seg_dur_stl: 4 s / 8 s; generated: 4/8 s, 0.4..3 s, 10/2/9/1/8 s): windows of a
	// good minute of consecutive segments, the whole-sequence oracle: exactly one carrier per scheduled
	// splice, and the carrier contains the announce instant
	{
		type irr struct {
			ls   *lib.Livesim
			a    *lib.TLAsset
			kind string
		}
		var irrs []irr
		bundled, err := lib.LoadBundledAssets(lib.TestVodRoot)
		if err != nil {
			return err
		}
		for _, b := range bundled {
			if b.Path == "testpic_alt_seg_dur_stl" && b.Ref() != nil {
				irrs = append(irrs, irr{ls, b, "bundled"})
			}
		}
		gas, gls, gcleanup, err := lib.GenSetup("c13irr", irregularGen())
		if err != nil {
			return fmt.Errorf("generated assets: %w", err)
		}
		defer gcleanup()
		for _, g := range gas {
			irrs = append(irrs, irr{gls, g, "generated"})
		}
		saved := ls
		for _, x := range irrs {
			ref := x.a.Ref()
			ai := infoOf(x.a)
			N := len(ref.Segs)
			perMinute := int(60*ai.TS/ai.SegDur) + 2*N
			for n := 1; n <= 3; n++ {
				for k := 0; k < scale; k++ {
					first := rng.Intn(3000) * N / 1
					ls, irregularRep, irregularKind = x.ls, ref, x.kind
					err := window(ai, n, first, perMinute, "irregular-minute", 4)
					ls, irregularRep, irregularKind = saved, nil, ""
					if err != nil {
						return err
					}
				}
			}
		}
	}
	// other N are rejected with 400 (segment and MPD requests)
	for _, n := range []int{0, 4, 5, -1, 10, 60, 100} {
		for _, tail := range []string{"testpic_2s/V300/20.m4s", "testpic_2s/Manifest.mpd", "testpic_8s/A48/5.m4s"} {
			url := fmt.Sprintf("/livesim2/scte35_%d/%s?nowMS=100000", n, tail)
			resp := ls.GetRaw(url)
			idn, id := r.id()
			in := map[string]any{"kind": "reject", "url": url}
			c.Res.Inputs[id] = in
			c.Count("other-N-request")
			if resp.Status != 400 {
				c.Fail(id, "not-rejected", fmt.Sprintf("%s: status %d, expected 400", url, resp.Status), in)
			}
			nn := n
			r.terms = append(r.terms, fmt.Sprintf("CCfg %d %s %d", idn, optZ(&nn), resp.Status))
		}
	}
	for _, n := range []int{1, 2, 3} {
		url := fmt.Sprintf("/livesim2/scte35_%d/testpic_2s/V300/20.m4s?nowMS=100000", n)
		resp := ls.GetRaw(url)
		idn, id := r.id()
		c.Res.Inputs[id] = map[string]any{"kind": "reject", "url": url}
		nn := n
		r.terms = append(r.terms, fmt.Sprintf("CCfg %d %s %d", idn, optZ(&nn), resp.Status))
	}

	c.Res.Evaluations = oracleSegsExtra + len(r.terms) + oracleSegs - c.Res.Distribution["segment:first-hours"] - c.Res.Distribution["segment:contiguous-minute"] - c.Res.Distribution["segment:far-minute"] - c.Res.Distribution["segment:around-announce"] - c.Res.Distribution["segment:chunked-minute"] - c.Res.Distribution["segment:crossed-minute"] - c.Res.Distribution["segment:derived-video"] - c.Res.Distribution["segment:irregular-minute"] - concTerms
	c.Res.ModelCases = len(r.terms)
	c.Res.DistinctNontrivial = len(r.distinct)
	c.Res.Rule = fmt.Sprintf("direct CreateEmsgAhead calls (start/end exactly on, one tick before/after every announce instant; segments straddling a minute; random; PTS and id wrap; other N; inverted/long segments; timescale 0; uint64 wrap), direct CreateSpliceInsertPayload calls with random parameters, and video segments served by the in-process server for testpic_2s/6s/8s and the 29.97 fps WAVE asset with scte35_1/2/3: every segment of the first 3 h (10 h in the thorough tier; WAVE: sampled minutes) plus single minutes around multiples of 2^33/90000 s and up to ~57 years from the epoch (%d s of stream fetched and checked by the oracle; of the first hours the model replays a random 1/8 of the segments with an event or next to an announce instant and 1/60 of the rest, of the other windows all of the former and 1/10 of the latter; latest minute below 200000 s ends at %d s); audio segments, scte35 off, MPDs, rejected N. distinct = distinct inputs; non-trivial = an event (emsg) was produced", streamSeconds, maxSecond)

	shard := 300
	for s := 0; s*shard < len(r.terms); s++ {
		end := (s + 1) * shard
		if end > len(r.terms) {
			end = len(r.terms)
		}
		c.WriteCases(fmt.Sprintf("cases_C13_%d.v", s),
			lib.CasesFile("From Verif Require Import GoSem Scte CorrC13.", "c13case", "", r.terms[s*shard:end], "model_view"))
	}
	sort.Strings(c.Res.Notes)
	return nil
}

// ---------------------------------------------------------------- replay

func replayC13(c *lib.Ctx) error {
	kind, err := lib.LoadReplayInput[struct {
		Kind string `json:"kind"`
		URL  string `json:"url"`
	}](c.Replay)
	if err != nil {
		return err
	}
	switch kind.Kind {
	case "direct":
		in, err := lib.LoadReplayInput[directIn](c.Replay)
		if err != nil {
			return err
		}
		if in.Hammer {
			calls, fails := hammerDirect(c.Seed, 4*time.Second, &in)
			fmt.Printf("replay C13: CreateEmsgAhead called %d times from many goroutines at once (this call among them): %d wrong results\n", calls, len(fails))
			for _, f := range fails {
				c.Fail("replay", "concurrent:wrong-fields", f.what, f.in)
				break
			}
			return nil
		}
		o := runDirect(in)
		fmt.Printf("replay C13: CreateEmsgAhead(%d, %d, %d, %d) -> class %d pt=%d id=%d dur=%d data=% x %s\n", in.SegStart, in.SegEnd, in.Timescale, in.N, o.Class, o.PT, o.ID, o.Dur, o.Data, o.Err)
		oracleSingle(c, "replay", in, o)
	case "payload":
		in, err := lib.LoadReplayInput[payloadIn](c.Replay)
		if err != nil {
			return err
		}
		data := scte35.CreateSpliceInsertPayload(in.P)
		fmt.Printf("replay C13: CreateSpliceInsertPayload(%+v) -> % x\n", in.P, data)
		if crc32MPEG2(data) != 0 {
			c.Fail("replay", "bad-crc", "CRC-32/MPEG-2 over the section is not 0", in)
		}
	case "window":
		w, err := lib.LoadReplayInput[windowIn](c.Replay)
		if err != nil {
			return err
		}
		ls, err := lib.NewLivesim(lib.TestVodRoot, nil)
		if err != nil {
			return err
		}
		mpd := "Manifest.mpd"
		if strings.HasPrefix(w.Asset, "WAVE") {
			mpd = "stream.mpd"
		}
		var a *assetInfo
		if w.Irregular != "" {
			var tas []*lib.TLAsset
			if w.Irregular == "generated" {
				gas, gls, gcleanup, err := lib.GenSetup("c13irrreplay", irregularGen())
				if err != nil {
					return err
				}
				defer gcleanup()
				ls, tas = gls, gas
			} else if tas, err = lib.LoadBundledAssets(lib.TestVodRoot); err != nil {
				return err
			}
			for _, ta := range tas {
				if ta.Path == w.Asset && ta.Ref() != nil {
					a, irregularRep = infoOf(ta), ta.Ref()
				}
			}
			if a == nil {
				return fmt.Errorf("asset %s not found", w.Asset)
			}
		} else if a, err = loadAsset(ls, w.Asset, mpd); err != nil {
			return err
		}
		var segs []segObs
		urlPrefix = w.Prefix
		for nr := w.FirstNr; nr < w.FirstNr+w.Count; nr++ {
			so, err := fetchSeg(ls, a, w.Rep, w.N, nr, w.SegDur, w.TS)
			if err != nil {
				return err
			}
			fmt.Printf("replay C13: %s scte35_%d %s/%d.m4s (%d,%d]/%d: %d emsg", w.Asset, w.N, w.Rep, nr, so.Start, so.Start+so.Dur, w.TS, len(so.Emsgs))
			for _, e := range so.Emsgs {
				fmt.Printf(" [pt=%d id=%d dur=%d]", e.PT, e.ID, e.Dur)
			}
			fmt.Println()
			segs = append(segs, so)
		}
		if w.IsVideo && w.N != 0 {
			oracleWindow(c, "replay", w, segs)
		} else {
			for _, s := range segs {
				if len(s.Emsgs) != 0 {
					c.Fail("replay", "event-on-audio", "emsg in a segment that must not carry one", w)
				}
			}
		}
	case "consts":
		sc := readSrcConsts()
		pc, pp := probeConsts()
		fmt.Printf("replay C13: constants probed from CreateEmsgAhead: %+v %v\nread from %s: %+v\n", pc, pp, filepath.Join(repoRoot(), "pkg/scte35/scte35.go"), sc)
		_, conflicts := reconcileConsts(pc, sc)
		for _, p := range conflicts {
			c.Fail("replay", "constants:source-differs-from-behaviour", p, kind)
		}
	case "derived-mpd":
		root, cleanup, err := lib.ScratchDir("c13replay")
		if err != nil {
			return err
		}
		defer cleanup()
		if err := buildDerivedAssets(root); err != nil {
			return err
		}
		dls, err := lib.NewLivesim(root, nil)
		if err != nil {
			return err
		}
		resp := dls.GetRaw(kind.URL)
		fmt.Printf("replay C13: %s -> %d\n%s\n", kind.URL, resp.Status, resp.Body)
		withScte := strings.Contains(kind.URL, "scte35_")
		for _, m := range regexp.MustCompile(`(?s)<AdaptationSet[^>]*contentType="(\w+)".*?</AdaptationSet>`).FindAllStringSubmatch(string(resp.Body), -1) {
			nInband := strings.Count(m[0], `<InbandEventStream schemeIdUri="urn:scte:scte35:2013:bin"`)
			want := 0
			if m[1] == "video" && withScte {
				want = 1
			}
			if nInband != want {
				c.Fail("replay", "mpd-inband-event-stream", fmt.Sprintf("%s adaptation set: %d SCTE-35 InbandEventStream elements, expected %d", m[1], nInband, want), kind)
			}
		}
	case "derived-rep":
		root, cleanup, err := lib.ScratchDir("c13replay")
		if err != nil {
			return err
		}
		defer cleanup()
		if err := buildDerivedAssets(root); err != nil {
			return err
		}
		dls, err := lib.NewLivesim(root, nil)
		if err != nil {
			return err
		}
		resp := dls.GetRaw(kind.URL)
		n, _ := countEmsg(resp.Body)
		fmt.Printf("replay C13: %s -> %d, %d bytes, %d emsg\n", kind.URL, resp.Status, len(resp.Body), n)
		if n != 0 {
			c.Fail("replay", "event-on-other-representation", fmt.Sprintf("%d emsg box(es)", n), kind)
		}
	case "other-rep":
		ls, err := lib.NewLivesim(lib.TestVodRoot, nil)
		if err != nil {
			return err
		}
		resp := ls.GetRaw(kind.URL)
		n := bytes.Count(resp.Body, []byte("emsg"))
		fmt.Printf("replay C13: %s -> %d, %d bytes, %d emsg\n", kind.URL, resp.Status, len(resp.Body), n)
		if n != 0 {
			c.Fail("replay", "event-on-other-representation", fmt.Sprintf("%d emsg box(es)", n), kind)
		}
	case "mpd", "reject":
		ls, err := lib.NewLivesim(lib.TestVodRoot, nil)
		if err != nil {
			return err
		}
		resp := ls.GetRaw(kind.URL)
		fmt.Printf("replay C13: %s -> %d\n%s\n", kind.URL, resp.Status, resp.Body)
		if kind.Kind == "reject" && resp.Status != 400 {
			c.Fail("replay", "not-rejected", fmt.Sprintf("status %d", resp.Status), kind)
		}
	default:
		return fmt.Errorf("unknown replay kind %q", kind.Kind)
	}
	return nil
}
